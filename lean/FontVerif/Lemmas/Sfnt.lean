/-
Helper lemmas for C06 (Model/Sfnt.lean): checksum algebra, the table map, layout.
-/
import FontVerif.Model.Sfnt
set_option linter.unusedVariables false
namespace FontVerif.Sfnt

/-! ## checksum -/

/-- specification form of `compute_checksum`: sum of zero-extended big-endian words mod 2^32 -/
def csSpec : Bytes → Nat
  | a :: b :: c :: d :: rest => (be32 a b c d + csSpec rest) % 4294967296
  | [a, b, c] => be32 a b c 0 % 4294967296
  | [a, b] => be32 a b 0 0 % 4294967296
  | [a] => be32 a 0 0 0 % 4294967296
  | [] => 0

theorem csSpec_lt (bs : Bytes) : csSpec bs < 4294967296 := by
  fun_induction csSpec bs <;> omega

theorem checksumAux_eq (s : Nat) (bs : Bytes) :
    checksumAux s bs = (s + csSpec bs) % 4294967296 := by
  fun_induction checksumAux s bs <;> simp only [csSpec] <;> omega

theorem checksum_eq (bs : Bytes) : checksum bs = csSpec bs := by
  unfold checksum
  rw [checksumAux_eq]
  have := csSpec_lt bs
  omega

theorem checksum_lt (bs : Bytes) : checksum bs < 4294967296 := by
  rw [checksum_eq]; exact csSpec_lt bs

theorem csSpec_append : (a b : Bytes) → a.length % 4 = 0 →
    csSpec (a ++ b) = (csSpec a + csSpec b) % 4294967296
  | [], b, _ => by
    have := csSpec_lt b
    simp only [List.nil_append, csSpec]; omega
  | [_], _, h => by simp at h
  | [_, _], _, h => by simp at h
  | [_, _, _], _, h => by simp at h
  | x :: y :: z :: w :: rest, b, h => by
    have ih := csSpec_append rest b (by simp only [List.length_cons] at h; omega)
    simp only [List.cons_append, csSpec]
    rw [ih]; omega

theorem checksum_append (a b : Bytes) (h : a.length % 4 = 0) :
    checksum (a ++ b) = (checksum a + checksum b) % 4294967296 := by
  simp only [checksum_eq]; exact csSpec_append a b h

theorem round4_ge (n : Nat) : n ≤ round4 n := by unfold round4; omega
theorem round4_mod (n : Nat) : round4 n % 4 = 0 := by unfold round4; omega
theorem round4_lt (n : Nat) : round4 n < n + 4 := by unfold round4; omega

theorem csSpec_zeros (k : Nat) : csSpec (zeros k) = 0 := by
  unfold zeros
  match k with
  | 0 => simp [csSpec]
  | 1 => simp [List.replicate, csSpec, be32]
  | 2 => simp [List.replicate, csSpec, be32]
  | 3 => simp [List.replicate, csSpec, be32]
  | k + 4 =>
    have ih := csSpec_zeros k
    unfold zeros at ih
    simp only [List.replicate_succ, csSpec, ih, be32]

/-- zero padding to the next multiple of four does not change the checksum -/
theorem csSpec_pad : (d : Bytes) → csSpec (d ++ zeros (round4 d.length - d.length)) = csSpec d
  | [] => by simp [round4, zeros, csSpec]
  | [a] => by simp [round4, zeros, csSpec, List.replicate]
  | [a, b] => by simp [round4, zeros, csSpec, List.replicate]
  | [a, b, c] => by simp [round4, zeros, csSpec, List.replicate]
  | a :: b :: c :: e :: rest => by
    have ih := csSpec_pad rest
    have hl : round4 (a :: b :: c :: e :: rest).length - (a :: b :: c :: e :: rest).length
        = round4 rest.length - rest.length := by
      simp only [List.length_cons, round4]; omega
    rw [hl]
    simp only [List.cons_append, csSpec, ih]

theorem checksum_pad (d : Bytes) : checksum (d ++ zeros (round4 d.length - d.length)) = checksum d := by
  simp only [checksum_eq]; exact csSpec_pad d

theorem csSpec_be4 (v : Nat) : csSpec (be4 v) = v % 4294967296 := by
  simp only [be4, csSpec, be32]; omega

theorem be4_length (v : Nat) : (be4 v).length = 4 := rfl
theorem be2_length (v : Nat) : (be2 v).length = 2 := rfl

/-! ## the table map -/

/-- the `BTreeMap` invariant: strictly ascending tags -/
def Sorted (m : Tables) : Prop := m.Pairwise (fun a b => a.1 < b.1)

theorem lookup_insert_self (t : Nat) (d : Bytes) (m : Tables) : lookup (insert t d m) t = some d := by
  induction m with
  | nil => simp [insert, lookup]
  | cons e rest ih =>
    obtain ⟨t', d'⟩ := e
    simp only [insert]
    split
    · simp [lookup]
    · split
      · simp [lookup]
      · simp only [lookup]
        split
        · omega
        · exact ih

theorem lookup_insert_ne (t t' : Nat) (d : Bytes) (m : Tables) (h : t' ≠ t) :
    lookup (insert t d m) t' = lookup m t' := by
  induction m with
  | nil => simp [insert, lookup]; omega
  | cons e rest ih =>
    obtain ⟨t'', d''⟩ := e
    simp only [insert]
    split
    · simp only [lookup]; split
      · omega
      · rfl
    · split
      · simp only [lookup]
        split
        · omega
        · split
          · omega
          · rfl
      · simp only [lookup]
        split
        · rfl
        · exact ih

theorem insert_comm (t1 t2 : Nat) (d1 d2 : Bytes) (m : Tables) (h : t1 ≠ t2) :
    insert t1 d1 (insert t2 d2 m) = insert t2 d2 (insert t1 d1 m) := by
  induction m with
  | nil =>
    repeat (first | rfl | omega | (simp only [insert]; repeat' split))
  | cons e rest ih =>
    obtain ⟨t, d⟩ := e
    repeat (first | rfl | omega | (rw [ih]) | (simp only [insert]; repeat' split))

theorem insert_lower (t : Nat) (d : Bytes) (m : Tables) (x : Nat) (hx : x < t)
    (hm : ∀ e ∈ m, x < e.1) : ∀ e ∈ insert t d m, x < e.1 := by
  induction m with
  | nil => simp [insert]; exact hx
  | cons e rest ih =>
    obtain ⟨t', d'⟩ := e
    simp only [insert]
    split
    · intro e he
      simp only [List.mem_cons] at he
      rcases he with rfl | rfl | he
      · exact hx
      · exact hm _ (by simp)
      · exact hm _ (by simp [he])
    · split
      · intro e he
        simp only [List.mem_cons] at he
        rcases he with rfl | he
        · exact hx
        · exact hm _ (by simp [he])
      · intro e he
        simp only [List.mem_cons] at he
        rcases he with rfl | he
        · exact hm _ (by simp)
        · exact ih (fun e he => hm e (by simp [he])) e he

theorem insert_sorted (t : Nat) (d : Bytes) (m : Tables) (h : Sorted m) : Sorted (insert t d m) := by
  induction m with
  | nil => simp [insert, Sorted]
  | cons e rest ih =>
    obtain ⟨t', d'⟩ := e
    unfold Sorted at h ⊢
    rw [List.pairwise_cons] at h
    simp only [insert]
    split
    · rename_i hlt
      rw [List.pairwise_cons, List.pairwise_cons]
      refine ⟨?_, h.1, h.2⟩
      intro e he
      simp only [List.mem_cons] at he
      rcases he with rfl | he
      · exact hlt
      · have := h.1 e he; simp only at this ⊢; omega
    · split
      · rename_i heq
        subst heq
        rw [List.pairwise_cons]
        exact ⟨h.1, h.2⟩
      · rw [List.pairwise_cons]
        refine ⟨?_, ih h.2⟩
        exact insert_lower t d rest t' (by omega) h.1

theorem eq_of_nodup_map_fst {l : List (Nat × Bytes)} (hd : (l.map Prod.fst).Nodup)
    {x y : Nat × Bytes} (hx : x ∈ l) (hy : y ∈ l) (h : x.1 = y.1) : x = y := by
  induction l with
  | nil => simp at hx
  | cons a rest ih =>
    simp only [List.map_cons, List.nodup_cons, List.mem_map, not_exists, not_and] at hd
    simp only [List.mem_cons] at hx hy
    rcases hx with rfl | hx <;> rcases hy with rfl | hy
    · rfl
    · exact absurd h.symm (hd.1 y hy)
    · exact absurd h (hd.1 x hx)
    · exact ih hd.2 hx hy

theorem contains_eq (m : Tables) (t : Nat) : contains m t = (lookup m t).isSome := rfl

end FontVerif.Sfnt
