/-
Lemmas for the C17 OS/2 / name / post theorems (Props/C17Meta.lean): in-place patching, the stages of
`subsetOs2`, min / max folds, and the string packing of the name table (a packed string is found at its
offset in the storage area).
-/
import FontVerif.Model.SubsetMeta
namespace FontVerif.SubsetMeta
open FontVerif FontVerif.Subset


/-! ### `patch` -/

theorem patch_length (d : Bytes) (pos : Nat) (v : Bytes) (h : pos + v.length ≤ d.length) :
    (patch d pos v).length = d.length := by
  unfold patch
  simp only [List.length_append, List.length_take, List.length_drop]
  omega

theorem patch_get_lt (d : Bytes) (pos : Nat) (v : Bytes) (i : Nat) (h : pos + v.length ≤ d.length) (hi : i < pos) :
    (patch d pos v)[i]? = d[i]? := by
  unfold patch
  rw [List.append_assoc, List.getElem?_append_left (by simp; omega)]
  simp [hi]

theorem patch_get_mid (d : Bytes) (pos : Nat) (v : Bytes) (i : Nat) (h : pos + v.length ≤ d.length)
    (h1 : pos ≤ i) (h2 : i < pos + v.length) : (patch d pos v)[i]? = v[i - pos]? := by
  unfold patch
  rw [List.append_assoc, List.getElem?_append_right (by simp; omega)]
  have : (List.take pos d).length = pos := by simp; omega
  rw [this, List.getElem?_append_left (by omega)]

theorem patch_get_ge (d : Bytes) (pos : Nat) (v : Bytes) (i : Nat) (h : pos + v.length ≤ d.length)
    (hi : pos + v.length ≤ i) : (patch d pos v)[i]? = d[i]? := by
  unfold patch
  rw [List.getElem?_append_right (by simp; omega)]
  have : (List.take pos d ++ v).length = pos + v.length := by simp; omega
  rw [this, List.getElem?_drop]
  congr 1; omega

theorem getD_of_getElem? (a b : Bytes) (i j : Nat) (h : a[i]? = b[j]?) : a.getD i 0 = b.getD j 0 := by
  simp [List.getD_eq_getElem?_getD, h]

theorem u16At_patch_be16 (d : Bytes) (pos v : Nat) (h : pos + 2 ≤ d.length) (hv : v < 65536) :
    u16At (patch d pos (be16 v)) pos = v := by
  unfold u16At
  have hl : (be16 v).length = 2 := rfl
  have e0 := patch_get_mid d pos (be16 v) pos (by rw [hl]; omega) (by omega) (by rw [hl]; omega)
  have e1 := patch_get_mid d pos (be16 v) (pos + 1) (by rw [hl]; omega) (by omega) (by rw [hl]; omega)
  simp only [List.getD_eq_getElem?_getD, e0, e1]
  simp [be16]
  omega


/-! ### OS/2 -/

theorem newRanges_length (us : List Nat) : (newRanges us).length = 4 := by simp [newRanges]

theorem rangeMaskBytes_length (us : List Nat) : (rangeMaskBytes us).length = 16 := by
  unfold rangeMaskBytes
  have h := newRanges_length us
  match hm : newRanges us, h with
  | [a, b, c, d], _ => simp [be32]

/-- the three stages of `subsetOs2` -/
theorem subsetOs2_ok (flags minCp maxCp : Nat) (us : List Nat) (t out : Bytes)
    (h : subsetOs2 flags minCp maxCp us t = .ok out) :
    78 ≤ t.length ∧
    let t2 := patch (patch t 64 (be16 (min minCp 0xFFFF))) 66 (be16 (min maxCp 0xFFFF))
    t2.length = t.length ∧
    (hasFlag flags F_NO_PRUNE_UNICODE_RANGES = true → out = t2) ∧
    (hasFlag flags F_NO_PRUNE_UNICODE_RANGES = false →
      out = patch t2 42 (List.zipWith (fun a b => a &&& b) ((t2.drop 42).take 16) (rangeMaskBytes us))) := by
  unfold subsetOs2 at h
  split at h
  · cases h
  · rename_i hl
    have hl' : 78 ≤ t.length := by omega
    refine ⟨hl', ?_⟩
    intro t2
    have l1 : (patch t 64 (be16 (min minCp 0xFFFF))).length = t.length :=
      patch_length _ _ _ (by simp [be16]; omega)
    have l2 : t2.length = t.length := by
      show (patch _ 66 _).length = _
      rw [patch_length _ _ _ (by rw [l1]; simp [be16]; omega), l1]
    refine ⟨l2, ?_, ?_⟩
    · intro hf
      simp only [hf, ↓reduceIte] at h
      cases h; rfl
    · intro hf
      simp only [hf, Bool.false_eq_true, ↓reduceIte] at h
      cases h; rfl

theorem masked_length (t2 : Bytes) (us : List Nat) (h : 58 ≤ t2.length) :
    (List.zipWith (fun a b => a &&& b) ((t2.drop 42).take 16) (rangeMaskBytes us)).length = 16 := by
  simp [rangeMaskBytes_length]
  omega

theorem foldl_min_spec : ∀ (l : List Nat) (a : Nat), (l.foldl min a = a ∨ l.foldl min a ∈ l) ∧
    l.foldl min a ≤ a ∧ ∀ c ∈ l, l.foldl min a ≤ c := by
  intro l
  induction l with
  | nil => intro a; simp
  | cons x xs ih =>
    intro a
    obtain ⟨h1, h2, h3⟩ := ih (min a x)
    simp only [List.foldl_cons]
    refine ⟨?_, by omega, ?_⟩
    · rcases h1 with h1 | h1
      · rw [h1]
        by_cases hax : a ≤ x
        · left; omega
        · right; simp; left; omega
      · right; simp [h1]
    · intro c hc
      rcases List.mem_cons.mp hc with rfl | hc
      · omega
      · exact h3 c hc

theorem foldl_max_spec : ∀ (l : List Nat) (a : Nat), (l.foldl max a = a ∨ l.foldl max a ∈ l) ∧
    a ≤ l.foldl max a ∧ ∀ c ∈ l, c ≤ l.foldl max a := by
  intro l
  induction l with
  | nil => intro a; simp
  | cons x xs ih =>
    intro a
    obtain ⟨h1, h2, h3⟩ := ih (max a x)
    simp only [List.foldl_cons]
    refine ⟨?_, by omega, ?_⟩
    · rcases h1 with h1 | h1
      · rw [h1]
        by_cases hax : x ≤ a
        · left; omega
        · right; simp; left; omega
      · right; simp [h1]
    · intro c hc
      rcases List.mem_cons.mp hc with rfl | hc
      · omega
      · exact h3 c hc



/-! ### name: the sort -/

theorem nameKeyLe_trans (a b c : NameRec) (h1 : nameKeyLe a b = true) (h2 : nameKeyLe b c = true) :
    nameKeyLe a c = true := by
  simp only [nameKeyLe, decide_eq_true_eq] at *
  exact List.le_trans h1 h2

theorem nameKeyLe_total (a b : NameRec) : nameKeyLe a b = true ∨ nameKeyLe b a = true := by
  simp only [nameKeyLe, decide_eq_true_eq]
  exact List.le_total _ _

theorem insertRec_perm (r : NameRec) : ∀ (l : List NameRec), (insertRec r l).Perm (r :: l) := by
  intro l
  induction l with
  | nil => simp [insertRec]
  | cons x xs ih =>
    unfold insertRec
    split
    · exact List.Perm.refl _
    · exact ((List.Perm.cons x ih).trans (List.Perm.swap r x xs))

theorem sortRecs_perm : ∀ (l : List NameRec), (sortRecs l).Perm l := by
  intro l
  induction l with
  | nil => simp [sortRecs]
  | cons r rest ih =>
    unfold sortRecs
    exact (insertRec_perm r _).trans (List.Perm.cons r ih)

theorem insertRec_sorted (r : NameRec) : ∀ (l : List NameRec), l.Pairwise (fun a b => nameKeyLe a b = true) →
    (insertRec r l).Pairwise (fun a b => nameKeyLe a b = true) := by
  intro l
  induction l with
  | nil => intro _; simp [insertRec]
  | cons x xs ih =>
    intro h
    obtain ⟨hx, hxs⟩ := List.pairwise_cons.mp h
    unfold insertRec
    split
    · rename_i hle
      refine List.pairwise_cons.mpr ⟨?_, h⟩
      intro y hy
      rcases List.mem_cons.mp hy with rfl | hy
      · exact hle
      · exact nameKeyLe_trans r x y hle (hx y hy)
    · rename_i hnle
      have hxr : nameKeyLe x r = true := by
        rcases nameKeyLe_total r x with h1 | h1
        · exact absurd h1 hnle
        · exact h1
      refine List.pairwise_cons.mpr ⟨?_, ih hxs⟩
      intro y hy
      rcases List.mem_cons.mp ((insertRec_perm r xs).mem_iff.mp hy) with rfl | hy
      · exact hxr
      · exact hx y hy

theorem sortRecs_sorted : ∀ (l : List NameRec), (sortRecs l).Pairwise (fun a b => nameKeyLe a b = true) := by
  intro l
  induction l with
  | nil => simp [sortRecs]
  | cons r rest ih => unfold sortRecs; exact insertRec_sorted r _ ih

/-! ### name: packed strings -/

theorem packString_mem (p : Packed) (s : Bytes) : s ∈ packString p s := by
  unfold packString
  split
  · rename_i h; simpa using h
  · simp

theorem packString_mono (p : Packed) (s x : Bytes) (h : x ∈ p) : x ∈ packString p s := by
  unfold packString
  split
  · exact h
  · simp [h]

theorem packString_nodup (p : Packed) (s : Bytes) (h : p.Nodup) : (packString p s).Nodup := by
  unfold packString
  split
  · exact h
  · rename_i hc
    have hc' : s ∉ p := by simpa using hc
    rw [List.nodup_append]
    refine ⟨h, by simp, ?_⟩
    intro a ha b hb
    simp at hb
    subst hb
    intro e; subst e; exact hc' ha

theorem packAll_spec : ∀ (kept : List NameRec) (p p' : Packed), packAll kept p = some p' → p.Nodup →
    p'.Nodup ∧ (∀ x ∈ p, x ∈ p') ∧ ∀ r ∈ kept, r.len ≠ 0 → ∃ s, r.str = some s ∧ s ∈ p' := by
  intro kept
  induction kept with
  | nil => intro p p' h hn; simp [packAll] at h; subst h; exact ⟨hn, fun _ hx => hx, by simp⟩
  | cons r rest ih =>
    intro p p' h hn
    unfold packAll at h
    split at h
    · rename_i hz
      obtain ⟨a, b, c⟩ := ih p p' h hn
      refine ⟨a, b, ?_⟩
      intro r' hr' hne
      rcases List.mem_cons.mp hr' with rfl | hr'
      · exact absurd hz hne
      · exact c r' hr' hne
    · split at h
      · cases h
      · rename_i s hs
        obtain ⟨a, b, c⟩ := ih _ p' h (packString_nodup p s hn)
        refine ⟨a, fun x hx => b x (packString_mono p s x hx), ?_⟩
        intro r' hr' hne
        rcases List.mem_cons.mp hr' with rfl | hr'
        · exact ⟨s, hs, b s (packString_mem p s)⟩
        · exact c r' hr' hne

theorem dropWhile_ne (s : Bytes) : ∀ (a b : List Bytes), (∀ x ∈ a, x ≠ s) →
    (a ++ s :: b).dropWhile (· != s) = s :: b := by
  intro a
  induction a with
  | nil => intro b _; simp [List.dropWhile]
  | cons x xs ih =>
    intro b h
    have hx : x ≠ s := h x (by simp)
    simp only [List.cons_append, List.dropWhile]
    have : (x != s) = true := by simpa using hx
    rw [this]
    exact ih b (fun y hy => h y (by simp [hy]))

theorem foldl_len (b : List Bytes) : ∀ (acc : Nat), b.foldl (fun acc x => acc + x.length) acc =
    acc + (b.reverse.flatMap id).length := by
  induction b with
  | nil => intro acc; simp
  | cons x xs ih =>
    intro acc
    simp only [List.foldl_cons, ih, List.reverse_cons, List.flatMap_append, List.length_append]
    simp
    omega

/-- a packed string is found at its offset in the storage area -/
theorem storage_at (p : Packed) (s : Bytes) (hn : p.Nodup) (hs : s ∈ p) :
    ∃ rest, (storageBytes p).drop (packedOffset p s) = s ++ rest := by
  obtain ⟨a, b, e⟩ := List.append_of_mem hs
  subst e
  have hna : ∀ x ∈ a, x ≠ s := by
    intro x hx hxs
    subst hxs
    rw [List.nodup_append] at hn
    exact hn.2.2 x hx x (by simp) rfl
  unfold packedOffset storageBytes
  rw [dropWhile_ne s a b hna]
  simp only [List.drop_succ_cons, List.drop_zero]
  rw [foldl_len b 0]
  simp only [Nat.zero_add, List.reverse_append, List.reverse_cons, List.flatMap_append, List.append_assoc]
  refine ⟨(a.reverse.flatMap id), ?_⟩
  rw [List.drop_left' rfl]
  simp


/-! ### OS/2: bits of `new_ranges` -/

theorem foldl_or_testBit (w b : Nat) : ∀ (ms : List (Nat × Nat)) (acc : Nat),
    (ms.foldl (fun acc m => if m.1 = w then acc ||| m.2 else acc) acc).testBit b =
      (acc.testBit b || ms.any (fun m => decide (m.1 = w) && m.2.testBit b)) := by
  intro ms
  induction ms with
  | nil => intro acc; simp
  | cons m rest ih =>
    intro acc
    simp only [List.foldl_cons, List.any_cons]
    rw [ih]
    by_cases hm : m.1 = w
    · simp [hm, Nat.testBit_or, Bool.or_assoc]
    · simp [hm]

theorem testBit_one_shiftLeft (k b : Nat) : (1 <<< k).testBit b = decide (k = b) := by
  rw [Nat.one_shiftLeft, Nat.testBit_two_pow]

theorem mem_cpMasks (cp w m : Nat) : (w, m) ∈ cpMasks cp ↔
    (∃ bit, unicodeRangeBit cp = some bit ∧ bit < 128 ∧ w = bit / 32 ∧ m = 1 <<< (bit % 32)) ∨
    (0x10000 ≤ cp ∧ cp ≤ 0x110000 ∧ w = 1 ∧ m = 1 <<< 25) := by
  unfold cpMasks
  rw [List.mem_append]
  constructor
  · rintro (h | h)
    · left
      split at h
      · rename_i bit hb
        split at h
        · rename_i hlt
          simp at h
          exact ⟨bit, hb, hlt, h.1, h.2⟩
        · simp at h
      · simp at h
    · right
      split at h
      · rename_i hc
        simp at h
        exact ⟨hc.1, hc.2, h.1, h.2⟩
      · simp at h
  · rintro (⟨bit, hb, hlt, hw, hm⟩ | ⟨h1, h2, hw, hm⟩)
    · left
      rw [hb]
      simp [hlt, hw, hm]
    · right
      rw [if_pos ⟨h1, h2⟩]
      simp [hw, hm]

/-- which bits of `new_ranges` are set -/
theorem newRanges_bit (us : List Nat) (w b : Nat) (hw : w < 4) :
    ((newRanges us).getD w 0).testBit b = true ↔
      ∃ cp ∈ us, (∃ bit, unicodeRangeBit cp = some bit ∧ bit < 128 ∧ bit / 32 = w ∧ bit % 32 = b) ∨
        (w = 1 ∧ b = 25 ∧ 0x10000 ≤ cp ∧ cp ≤ 0x110000) := by
  have hget : (newRanges us).getD w 0 =
      (us.flatMap cpMasks).foldl (fun acc m => if m.1 = w then acc ||| m.2 else acc) 0 := by
    unfold newRanges
    simp [List.getD_eq_getElem?_getD, hw]
  rw [hget, foldl_or_testBit]
  simp only [Nat.zero_testBit, Bool.false_or, List.any_eq_true, Bool.and_eq_true, decide_eq_true_eq]
  constructor
  · rintro ⟨m, hm, hmw, hmb⟩
    obtain ⟨cp, hcp, hmem⟩ := List.mem_flatMap.mp hm
    refine ⟨cp, hcp, ?_⟩
    have hm' : (m.1, m.2) ∈ cpMasks cp := by simpa using hmem
    rcases (mem_cpMasks cp m.1 m.2).mp hm' with ⟨bit, h1, h2, h3, h4⟩ | ⟨h1, h2, h3, h4⟩
    · left
      rw [h4, testBit_one_shiftLeft] at hmb
      exact ⟨bit, h1, h2, by omega, by simpa using hmb⟩
    · right
      rw [h4, testBit_one_shiftLeft] at hmb
      have hb25 : 25 = b := by simpa using hmb
      exact ⟨by omega, hb25.symm, h1, h2⟩
  · rintro ⟨cp, hcp, (⟨bit, h1, h2, h3, h4⟩ | ⟨h1, h2, h3, h4⟩)⟩
    · refine ⟨(w, 1 <<< b), List.mem_flatMap.mpr ⟨cp, hcp, ?_⟩, rfl, ?_⟩
      · exact (mem_cpMasks cp w _).mpr (Or.inl ⟨bit, h1, h2, h3.symm, by rw [h4]⟩)
      · rw [testBit_one_shiftLeft]; simp
    · refine ⟨(w, 1 <<< b), List.mem_flatMap.mpr ⟨cp, hcp, ?_⟩, rfl, ?_⟩
      · exact (mem_cpMasks cp w _).mpr (Or.inr ⟨h3, h4, h1, by rw [h2]⟩)
      · rw [testBit_one_shiftLeft]; simp


/-! ### Except -/

theorem ok_of_toOption {ε α : Type} (e : Except ε α) (x : α) (h : e.toOption = some x) : e = .ok x := by
  cases e with
  | error _ => simp [Except.toOption] at h
  | ok a => simp [Except.toOption] at h; rw [h]

end FontVerif.SubsetMeta
