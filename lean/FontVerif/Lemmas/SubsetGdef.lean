/-
Helper lemmas for C17 (layout part): the loops of the GDEF sub-table subsetters (`attachGo`,
`ligListGo`, `markSetsGo`) as membership statements, positions of entries in key-sorted lists.
-/
import FontVerif.Model.SubsetGdef
import FontVerif.Lemmas.SubsetLayout
set_option linter.unusedVariables false
namespace FontVerif.SubsetGdef
open FontVerif FontVerif.Layout FontVerif.SubsetLayout

/-! ## entries keyed by new glyph id -/

/-- in a list of entries with distinct keys an entry sits at the position of its key -/
theorem entries_lookup {β : Type} : ∀ (es : List (Nat × β)) (n : Nat) (b : β),
    (es.map (·.1)).Pairwise (· ≠ ·) → (n, b) ∈ es →
    ∃ j, indexIn n (es.map (·.1)) = some j ∧ (es.map (·.2))[j]? = some b := by
  intro es
  induction es with
  | nil => intro n b _ h; cases h
  | cons e rest ih =>
    intro n b hd hm
    obtain ⟨k, v⟩ := e
    simp only [List.map_cons, List.pairwise_cons] at hd
    rcases List.mem_cons.mp hm with e | hm
    · injection e with e1 e2
      subst e1; subst e2
      exact ⟨0, by simp [indexIn], by simp⟩
    · have hk : k ≠ n := hd.1 n (List.mem_map.mpr ⟨(n, b), hm, rfl⟩)
      obtain ⟨j, h1, h2⟩ := ih n b hd.2 hm
      exact ⟨j + 1, by simp [indexIn, hk, h1], by simpa using h2⟩

theorem indexIn_none_of_keys {β : Type} (es : List (Nat × β)) (n : Nat)
    (h : ∀ b, (n, b) ∉ es) : indexIn n (es.map (·.1)) = none := by
  apply indexIn_none
  intro hm
  obtain ⟨e, he, e1⟩ := List.mem_map.mp hm
  exact h e.2 (by rw [← e1]; exact he)

/-! ## `AttachList::subset` -/

theorem attachGo_spec (p : LPlan) (hp : PlanOk p) (points : List (Option (List Nat))) :
    ∀ (items : List (Nat × Nat)) (entries : List (Nat × List Nat)),
    (items.map (·.1)).Pairwise (· < ·) → attachGo p points items = .ok entries →
    (entries.map (·.1)).Pairwise (· < ·) ∧
    ∀ n bs, (n, bs) ∈ entries ↔
      ∃ g idx, (g, idx) ∈ items ∧ p.get g = some n ∧ points[idx]? = some (some bs) := by
  intro items
  induction items with
  | nil =>
    intro entries _ h
    simp only [attachGo, pure, Except.pure, Except.ok.injEq] at h
    subst h; simp
  | cons it rest ih =>
    intro entries hs h
    obtain ⟨g, idx⟩ := it
    simp only [List.map_cons, List.pairwise_cons] at hs
    simp only [attachGo] at h
    cases hg : p.get g with
    | none =>
      simp only [hg] at h
      obtain ⟨h1, h2⟩ := ih entries hs.2 h
      refine ⟨h1, fun n bs => ?_⟩
      rw [h2 n bs]
      constructor
      · rintro ⟨g', i', hm, r⟩; exact ⟨g', i', List.mem_cons_of_mem _ hm, r⟩
      · rintro ⟨g', i', hm, r1, r2⟩
        rcases List.mem_cons.mp hm with e | hm
        · injection e with e1 e2; subst e1; rw [hg] at r1; cases r1
        · exact ⟨g', i', hm, r1, r2⟩
    | some new =>
      simp only [hg] at h
      cases hpt : points[idx]? with
      | none => simp [hpt] at h
      | some o =>
        cases o with
        | none => simp [hpt] at h
        | some bs0 =>
          simp only [hpt] at h
          cases hr : attachGo p points rest with
          | error e => simp [hr, Except.map] at h
          | ok es =>
            simp only [hr, Except.map, Except.ok.injEq] at h
            subst h
            obtain ⟨h1, h2⟩ := ih es hs.2 hr
            constructor
            · simp only [List.map_cons, List.pairwise_cons]
              refine ⟨?_, h1⟩
              intro n' hn'
              obtain ⟨e, he, e1⟩ := List.mem_map.mp hn'
              obtain ⟨g', i', hm, r1, _⟩ := (h2 e.1 e.2).mp he
              have := hs.1 g' (List.mem_map.mpr ⟨(g', i'), hm, rfl⟩)
              rw [← e1]
              exact hp.get_mono this hg r1
            · intro n bs
              simp only [List.mem_cons, Prod.mk.injEq]
              rw [h2 n bs]
              constructor
              · rintro (⟨e1, e2⟩ | ⟨g', i', hm, r⟩)
                · subst e1; subst e2; exact ⟨g, idx, Or.inl ⟨rfl, rfl⟩, hg, hpt⟩
                · exact ⟨g', i', Or.inr hm, r⟩
              · rintro ⟨g', i', hm, r1, r2⟩
                rcases hm with ⟨e1, e2⟩ | hm
                · subst e1; subst e2
                  rw [hg] at r1; injection r1 with r1
                  rw [hpt] at r2; injection r2 with r2; injection r2 with r2
                  left; exact ⟨r1.symm, r2.symm⟩
                · right; exact ⟨g', i', hm, r1, r2⟩

/-- the loop cannot fail when every retained glyph has a readable AttachPoint table -/
theorem attachGo_total (p : LPlan) (points : List (Option (List Nat))) :
    ∀ (items : List (Nat × Nat)),
    (∀ it ∈ items, (p.get it.1).isSome → ∃ bs, points[it.2]? = some (some bs)) →
    ∃ entries, attachGo p points items = .ok entries := by
  intro items
  induction items with
  | nil => intro _; exact ⟨[], rfl⟩
  | cons it rest ih =>
    intro h
    obtain ⟨g, idx⟩ := it
    obtain ⟨es, hes⟩ := ih (fun x hx => h x (List.mem_cons_of_mem _ hx))
    simp only [attachGo]
    cases hg : p.get g with
    | none => exact ⟨es, hes⟩
    | some new =>
      obtain ⟨bs, hb⟩ := h (g, idx) (List.mem_cons_self ..) (by simp [hg])
      simp only [hb, hes, Except.map]
      exact ⟨_, rfl⟩

/-! ## the coverage-indexed item list -/

theorem mem_zipIdx_iff {l : List Nat} {g i : Nat} : (g, i) ∈ l.zipIdx ↔ l[i]? = some g := by
  rw [List.mem_zipIdx_iff_getElem?]

theorem zipIdx_keys_sorted {l : List Nat} (h : l.Pairwise (· < ·)) (k : Nat) :
    (((l.zipIdx).take k).map (·.1)).Pairwise (· < ·) := by
  have : ((l.zipIdx).take k).map (·.1) = l.take k := by
    rw [List.map_take]
    congr 1
    exact List.zipIdx_map_fst 0 l
  rw [this]
  exact h.sublist (List.take_sublist _ _)

/-! ## `LigCaretList::subset` -/

theorem ligListGo_spec (p : LPlan) (hp : PlanOk p) (vmap : List (Nat × Nat)) (ligs : List LigIn) :
    ∀ (items : List (Nat × Nat)) (entries : List (Nat × List CaretOut)),
    (items.map (·.1)).Pairwise (· < ·) → ligListGo p vmap ligs items = .ok entries →
    (entries.map (·.1)).Pairwise (· < ·) ∧
    ∀ n out, (n, out) ∈ entries ↔
      ∃ g idx carets, (g, idx) ∈ items ∧ p.get g = some n ∧ ligs[idx]? = some (.ok carets) ∧
        ligGlyphSem vmap carets = .ok out := by
  intro items
  induction items with
  | nil =>
    intro entries _ h
    simp only [ligListGo, pure, Except.pure, Except.ok.injEq] at h
    subst h; simp
  | cons it rest ih =>
    intro entries hs h
    obtain ⟨g, idx⟩ := it
    simp only [List.map_cons, List.pairwise_cons] at hs
    simp only [ligListGo] at h
    -- an item that contributes nothing
    have skip : ∀ es, ligListGo p vmap ligs rest = .ok es →
        (∀ n out carets, p.get g = some n → ligs[idx]? = some (.ok carets) →
          ligGlyphSem vmap carets ≠ .ok out) →
        (es.map (·.1)).Pairwise (· < ·) ∧
        ∀ n out, (n, out) ∈ es ↔
          ∃ g' idx' carets, (g', idx') ∈ (g, idx) :: rest ∧ p.get g' = some n ∧
            ligs[idx']? = some (.ok carets) ∧ ligGlyphSem vmap carets = .ok out := by
      intro es hes hno
      obtain ⟨h1, h2⟩ := ih es hs.2 hes
      refine ⟨h1, fun n out => ?_⟩
      rw [h2 n out]
      constructor
      · rintro ⟨g', i', cs, hm, r⟩; exact ⟨g', i', cs, List.mem_cons_of_mem _ hm, r⟩
      · rintro ⟨g', i', cs, hm, r1, r2, r3⟩
        rcases List.mem_cons.mp hm with e | hm
        · injection e with e1 e2; subst e1; subst e2
          exact absurd r3 (hno n out cs r1 r2)
        · exact ⟨g', i', cs, hm, r1, r2, r3⟩
    cases hg : p.get g with
    | none =>
      simp only [hg] at h
      exact skip entries h (fun n out cs r1 => by rw [hg] at r1; cases r1)
    | some new =>
      simp only [hg] at h
      cases hl : ligs[idx]? with
      | none => simp [hl] at h
      | some lg =>
        cases lg with
        | bad => simp [hl] at h
        | ok carets =>
          simp only [hl] at h
          cases hsem : ligGlyphSem vmap carets with
          | error e =>
            cases e with
            | empty =>
              simp only [hsem] at h
              apply skip entries h
              intro n out cs _ r2
              rw [hl] at r2; injection r2 with r2; injection r2 with r2
              subst r2; rw [hsem]; intro hh; cases hh
            | soft => simp [hsem] at h
            | hard => simp [hsem] at h
            | trap => simp [hsem] at h
          | ok out0 =>
            simp only [hsem] at h
            cases hr : ligListGo p vmap ligs rest with
            | error e => simp [hr, Except.map] at h
            | ok es =>
              simp only [hr, Except.map, Except.ok.injEq] at h
              subst h
              obtain ⟨h1, h2⟩ := ih es hs.2 hr
              constructor
              · simp only [List.map_cons, List.pairwise_cons]
                refine ⟨?_, h1⟩
                intro n' hn'
                obtain ⟨e, he, e1⟩ := List.mem_map.mp hn'
                obtain ⟨g', i', _, hm, r1, _⟩ := (h2 e.1 e.2).mp he
                have := hs.1 g' (List.mem_map.mpr ⟨(g', i'), hm, rfl⟩)
                rw [← e1]
                exact hp.get_mono this hg r1
              · intro n out
                simp only [List.mem_cons, Prod.mk.injEq]
                rw [h2 n out]
                constructor
                · rintro (⟨e1, e2⟩ | ⟨g', i', cs, hm, r⟩)
                  · subst e1; subst e2; exact ⟨g, idx, carets, Or.inl ⟨rfl, rfl⟩, hg, hl, hsem⟩
                  · exact ⟨g', i', cs, Or.inr hm, r⟩
                · rintro ⟨g', i', cs, hm, r1, r2, r3⟩
                  rcases hm with ⟨e1, e2⟩ | hm
                  · subst e1; subst e2
                    rw [hg] at r1; injection r1 with r1
                    rw [hl] at r2; injection r2 with r2; injection r2 with r2
                    subst r2
                    rw [hsem] at r3; injection r3 with r3
                    left; exact ⟨r1.symm, r3.symm⟩
                  · right; exact ⟨g', i', cs, hm, r1, r2, r3⟩

/-! ## `MarkGlyphSets::subset` -/

/-- the written coverage of one mark glyph set, if it survives -/
def survive (p : LPlan) : Option Coverage → Option CovW
  | none => none
  | some c =>
    match subsetCoverage p c with
    | .ok w => some w
    | .error _ => none

theorem markSetsGo_spec (p : LPlan) : ∀ (sets : List (Option Coverage)) (ws : List CovW),
    markSetsGo p sets = .ok ws → ws = sets.filterMap (survive p) := by
  intro sets
  induction sets with
  | nil =>
    intro ws h
    simp only [markSetsGo, pure, Except.pure, Except.ok.injEq] at h
    subst h; rfl
  | cons c rest ih =>
    intro ws h
    cases c with
    | none => simp [markSetsGo] at h
    | some c =>
      simp only [markSetsGo] at h
      cases hc : subsetCoverage p c with
      | error e =>
        cases e with
        | empty =>
          simp only [hc] at h
          simp [List.filterMap_cons, survive, hc, ih ws h]
        | soft => simp [hc] at h
        | hard => simp [hc] at h
        | trap => simp [hc] at h
      | ok w =>
        simp only [hc] at h
        cases hr : markSetsGo p rest with
        | error e => simp [hr, Except.map] at h
        | ok ws' =>
          simp only [hr, Except.map, Except.ok.injEq] at h
          subst h
          simp [List.filterMap_cons, survive, hc, ih ws' hr]

/-- position of a surviving element in a `filterMap` -/
theorem filterMap_getElem {α β : Type} (f : α → Option β) : ∀ (l : List α) (i : Nat) (a : α) (b : β),
    l[i]? = some a → f a = some b →
    (l.filterMap f)[((l.take i).filterMap f).length]? = some b := by
  intro l
  induction l with
  | nil => intro i a b h; simp at h
  | cons x t ih =>
    intro i a b h hf
    cases i with
    | zero =>
      simp at h; subst h
      simp [List.filterMap_cons, hf]
    | succ j =>
      simp at h
      have := ih j a b h hf
      cases hx : f x with
      | none => simpa [List.filterMap_cons, hx] using this
      | some y => simpa [List.filterMap_cons, hx] using this

/-! ## `used_mark_sets_map` -/

theorem usedGo_lookup (p : LPlan) : ∀ (sets : List (Option Coverage)) (k b i : Nat) (c : Coverage),
    (∀ s ∈ sets, s ≠ none) → sets[i]? = some (some c) → setUsed p (some c) = true →
    ((usedGo p sets k).zipIdx b).lookup (k + i) =
      some (b + ((sets.take i).filter (setUsed p)).length) := by
  intro sets
  induction sets with
  | nil => intro k b i c _ h; simp at h
  | cons s rest ih =>
    intro k b i c hall h hu
    have hrest : ∀ s ∈ rest, s ≠ none := fun s hs => hall s (List.mem_cons_of_mem _ hs)
    cases s with
    | none => exact absurd rfl (hall none (List.mem_cons_self ..))
    | some c0 =>
      cases i with
      | zero =>
        simp at h; subst h
        simp [usedGo, hu, List.zipIdx_cons, List.lookup_cons]
      | succ j =>
        simp at h
        have := ih (k + 1) (b + 1) j c hrest h hu
        have := ih (k + 1) b j c hrest h hu
        by_cases hu0 : setUsed p (some c0) = true
        · have ne : (k + (j + 1) == k) = false := by simp
          have := ih (k + 1) (b + 1) j c hrest h hu
          simp only [usedGo, hu0, ↓reduceIte, List.cons_append, List.nil_append, List.zipIdx_cons,
            List.lookup_cons, ne, List.take_succ_cons, List.filter_cons, List.length_cons]
          rw [show k + (j + 1) = k + 1 + j by omega, this]
          congr 1; omega
        · simp only [usedGo, hu0, Bool.false_eq_true, ↓reduceIte, List.nil_append,
            List.take_succ_cons, List.filter_cons]
          rw [show k + (j + 1) = k + 1 + j by omega, this]

theorem filter_filterMap_length {α β : Type} (q : α → Bool) (f : α → Option β) :
    ∀ (l : List α), (∀ x ∈ l, q x = (f x).isSome) → (l.filter q).length = (l.filterMap f).length := by
  intro l
  induction l with
  | nil => intro _; rfl
  | cons x t ih =>
    intro h
    have hx := h x (List.mem_cons_self ..)
    have := ih (fun y hy => h y (List.mem_cons_of_mem _ hy))
    cases hf : f x with
    | none => simp [List.filter_cons, List.filterMap_cons, hf, hx, this]
    | some y => simp [List.filter_cons, List.filterMap_cons, hf, hx, this]

end FontVerif.SubsetGdef
