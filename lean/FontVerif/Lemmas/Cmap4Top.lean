/-
Helper lemmas for C08: from a mapping (list of pairs) to the index view used by the format-4
lemmas, and `create_format_4` as a whole.
-/
import FontVerif.Model.Cmap
import FontVerif.Lemmas.Cmap4
import FontVerif.Lemmas.Cmap4Seg
set_option linter.unusedVariables false
namespace FontVerif.Cmap
open FontVerif

/-! ## congruence: only indices below `n` matter -/

theorem SegsTile.congr {cp gid cp' gid' : Nat → Nat} {n : Nat}
    (h : ∀ k, k < n → cp k = cp' k ∧ gid k = gid' k) :
    ∀ {segs : List Seg} {lo : Nat}, SegsTile cp gid lo n segs → SegsTile cp' gid' lo n segs := by
  intro segs
  induction segs with
  | nil => intro lo h; exact h
  | cons s rest ih =>
    intro lo ht
    obtain ⟨h1, h2, h3⟩ := ht
    have hle := h3.le
    refine ⟨h1, ⟨h2.le, ?_, ?_⟩, ih h3⟩
    · intro k k1 k2
      have := h2.le
      rw [← (h k (by omega)).1, ← (h s.startIx (by omega)).1]
      exact h2.run k k1 k2
    · intro d hd k k1 k2
      rw [← (h k (by omega)).1, ← (h k (by omega)).2]
      exact h2.delta d hd k k1 k2

/-! ## the BMP prefix of an ascending mapping -/

theorem takeWhile_getElem? {α : Type} (p : α → Bool) : ∀ (l : List α) (k : Nat),
    k < (l.takeWhile p).length → (l.takeWhile p)[k]? = l[k]? := by
  intro l
  induction l with
  | nil => intro k h; simp at h
  | cons x rest ih =>
    intro k h
    by_cases hp : p x = true
    · simp only [List.takeWhile_cons, hp, if_true] at h ⊢
      cases k with
      | zero => rfl
      | succ k' => simpa using ih k' (by simpa using h)
    · simp [hp] at h

theorem bmpPrefix_getElem? (m : Mapping) (k : Nat) (hk : k < (bmpPrefix m).length) :
    (bmpPrefix m)[k]? = m[k]? ∧ k < m.length := by
  have h1 : (bmpPrefix m)[k]? = m[k]? := takeWhile_getElem? _ m k hk
  refine ⟨h1, ?_⟩
  rw [List.getElem?_eq_getElem hk] at h1
  rcases Nat.lt_or_ge k m.length with h | h
  · exact h
  · rw [List.getElem?_eq_none h] at h1; cases h1

theorem mem_bmpPrefix (m : Mapping) (hasc : Ascending m) (x : Nat × Nat) :
    x ∈ bmpPrefix m ↔ x ∈ m ∧ x.1 ≤ 0xFFFF := by
  unfold bmpPrefix
  induction m with
  | nil => simp
  | cons h t ih =>
    have hp := List.pairwise_cons.1 hasc
    by_cases hh : h.1 ≤ 0xFFFF
    · simp only [List.takeWhile_cons, decide_eq_true_eq, hh, if_true, List.mem_cons, ih hp.2]
      constructor
      · rintro (rfl | ⟨h1, h2⟩)
        · exact ⟨Or.inl rfl, hh⟩
        · exact ⟨Or.inr h1, h2⟩
      · rintro ⟨rfl | h1, h2⟩
        · exact Or.inl rfl
        · exact Or.inr ⟨h1, h2⟩
    · simp only [List.takeWhile_cons, decide_eq_true_eq, hh, if_false, List.not_mem_nil, List.mem_cons, false_iff]
      rintro ⟨rfl | h1, h2⟩
      · exact hh h2
      · have := hp.1 x h1
        omega

/-- the index view of an in-domain mapping: `cpAt`/`gidAt` of the full array restricted to the
length of the BMP prefix -/
theorem mapOk_of_inDomain (m : Mapping) (hd : InDomain m) :
    MapOk (cpAt m.toArray) (gidAt m.toArray) (bmpPrefix m).length := by
  have hget : ∀ k (hk : k < (bmpPrefix m).length), ∃ hk' : k < m.length,
      m[k] ∈ bmpPrefix m ∧ cpAt m.toArray k = m[k].1 ∧ gidAt m.toArray k = m[k].2 := by
    intro k hk
    obtain ⟨h1, hk'⟩ := bmpPrefix_getElem? m k hk
    refine ⟨hk', ?_, by simp [cpAt, List.getElem?_eq_getElem hk'], by simp [gidAt, List.getElem?_eq_getElem hk']⟩
    rw [List.getElem?_eq_getElem hk, List.getElem?_eq_getElem hk'] at h1
    have := Option.some.inj h1
    rw [← this]
    exact List.getElem_mem hk
  constructor
  · intro i j hij hj
    obtain ⟨hi', _, ci, _⟩ := hget i (by omega)
    obtain ⟨hj', _, cj, _⟩ := hget j hj
    rw [ci, cj]
    exact (List.pairwise_iff_getElem.1 hd.asc) i j hi' hj' hij
  · intro k hk
    obtain ⟨hk', hmem, ck, _⟩ := hget k hk
    have := ((mem_bmpPrefix m hd.asc _).1 hmem)
    have := hd.cp _ this.1
    omega
  · intro k hk
    obtain ⟨hk', hmem, _, gk⟩ := hget k hk
    have := ((mem_bmpPrefix m hd.asc _).1 hmem)
    have := hd.gid _ this.1
    omega

/-- the prefix array and the full array agree below the prefix length -/
theorem prefix_agree (m : Mapping) (k : Nat) (hk : k < (bmpPrefix m).length) :
    cpAt (bmpPrefix m).toArray k = cpAt m.toArray k ∧ gidAt (bmpPrefix m).toArray k = gidAt m.toArray k := by
  obtain ⟨h1, _⟩ := bmpPrefix_getElem? m k hk
  simp [cpAt, gidAt, h1]

/-- pairs of the BMP part of the mapping = values of the index view -/
theorem mem_iff_index (m : Mapping) (hd : InDomain m) (c v : Nat) :
    ((c, v) ∈ m ∧ c ≤ 0xFFFF) ↔
      ∃ k, k < (bmpPrefix m).length ∧ cpAt m.toArray k = c ∧ gidAt m.toArray k = v := by
  rw [← mem_bmpPrefix m hd.asc (c, v)]
  constructor
  · intro h
    obtain ⟨k, hk, hk2⟩ := List.getElem_of_mem h
    obtain ⟨h1, h2⟩ := prefix_agree m k hk
    refine ⟨k, hk, ?_, ?_⟩
    · rw [← h1]; simp [cpAt, List.getElem?_eq_getElem hk, hk2]
    · rw [← h2]; simp [gidAt, List.getElem?_eq_getElem hk, hk2]
  · rintro ⟨k, hk, h1, h2⟩
    obtain ⟨e1, e2⟩ := prefix_agree m k hk
    rw [← e1] at h1
    rw [← e2] at h2
    simp only [cpAt, gidAt, List.getElem?_toArray, List.getElem?_eq_getElem hk, Option.getD_some] at h1 h2
    have : (bmpPrefix m)[k] = (c, v) := Prod.ext h1 h2
    rw [← this]
    exact List.getElem_mem hk

/-- `Format4SegmentComputer::new(mappings).compute()` is a valid segmentation of the BMP part
(stated over the full array, as `create_format_4` indexes it) -/
theorem segments_tile (m : Mapping) :
    SegsTile (cpAt m.toArray) (gidAt m.toArray) 0 (bmpPrefix m).length (segments m) := by
  have h := computeSegs_tile (bmpPrefix m).toArray
  rw [List.size_toArray] at h
  exact SegsTile.congr (fun k hk => prefix_agree m k hk) h

/-! ## `create_format_4` for any valid segmentation -/

theorem encode4_rows (m : Mapping) (segs : List Seg) (hg : ∀ p ∈ m, p.2 ≤ 0xFFFF) (hne : segs ≠ []) :
    encode4 m segs = .trap ∨
    ∃ rows g, encode4 m segs = .ok (some (Cmap4.ofRows rows g)) ∧
      RowsMatch (cpAt m.toArray) (gidAt m.toArray) segs rows g := by
  unfold encode4
  have h1 : (m.any fun p => decide (p.2 > 0xFFFF)) = false := by
    rw [List.any_eq_false]
    intro p hp
    have := hg p hp
    simp; omega
  have h2 : segs.isEmpty = false := by cases segs <;> simp_all
  simp only [h1, h2, Bool.false_eq_true, if_false]
  cases hr : encRows m.toArray (segs.length + 1) 0 0 segs with
  | none => exact Or.inl rfl
  | some rg =>
    obtain ⟨rows, g⟩ := rg
    refine Or.inr ⟨rows, g, rfl, ?_⟩
    obtain ⟨hl, hs⟩ := encRows_spec m.toArray (segs.length + 1) segs 0 0 rows g hr
    refine ⟨hl, fun j hj => ?_⟩
    obtain ⟨row, hrow, hspec⟩ := hs [] rfl j hj
    exact ⟨row, hrow, by simpa using hspec⟩

/-! ## `create_format_4` does not trap on mappings that fit -/

/-- number of mappings covered by a list of segments -/
def idsTotal : List Seg → Nat
  | [] => 0
  | s :: rest => (s.endIx + 1 - s.startIx) + idsTotal rest

theorem encRows_some (a : Array (Nat × Nat)) (nSeg : Nat) :
    ∀ (segs : List Seg) (i nIds : Nat), (nSeg - i + nIds + idsTotal segs) * 2 ≤ 65535 →
      ∃ rows g, encRows a nSeg i nIds segs = some (rows, g) ∧ g.length ≤ idsTotal segs := by
  intro segs
  induction segs with
  | nil => intro i nIds _; exact ⟨[], [], rfl, Nat.le_refl _⟩
  | cons s rest ih =>
    intro i nIds hb
    simp only [idsTotal] at hb
    unfold encRows
    cases hd : s.idDelta with
    | some d =>
      obtain ⟨rows, g, h1, h2⟩ := ih (i + 1) nIds (by omega)
      refine ⟨_, g, by simp only [h1]; rfl, ?_⟩
      simp only [idsTotal]; omega
    | none =>
      have hoff : ¬ ((nSeg - i + nIds) * 2 > 65535) := by omega
      simp only [hoff, if_false, List.length_map, List.length_range]
      obtain ⟨rows, g, h1, h2⟩ := ih (i + 1) (nIds + (s.endIx + 1 - s.startIx)) (by omega)
      refine ⟨_, _, by simp only [h1]; rfl, ?_⟩
      simp only [idsTotal, List.length_append, List.length_map, List.length_range]
      omega

theorem SegsTile.count {cp gid : Nat → Nat} : ∀ {segs : List Seg} {lo n : Nat}, SegsTile cp gid lo n segs →
    idsTotal segs = n - lo ∧ segs.length ≤ n - lo := by
  intro segs
  induction segs with
  | nil => intro lo n h; cases h; simp [idsTotal]
  | cons s rest ih =>
    intro lo n h
    obtain ⟨h1, h2, h3⟩ := h
    obtain ⟨i1, i2⟩ := ih h3
    have := h3.le
    have := h2.le
    simp only [idsTotal, List.length_cons]
    omega

/-- for any valid segmentation of at most 6551 BMP mappings `create_format_4` succeeds and the
table it returns compiles (`compute_length` fits 16 bits) -/
theorem encode4_ok (m : Mapping) (segs : List Seg) (n : Nat) (hg : ∀ p ∈ m, p.2 ≤ 0xFFFF)
    (ht : SegsTile (cpAt m.toArray) (gidAt m.toArray) 0 n segs) (hn : n ≤ 6551) (hne : segs ≠ []) :
    ∃ t, encode4 m segs = .ok (some t) ∧ t.lengthFits = true := by
  obtain ⟨c1, c2⟩ := ht.count
  obtain ⟨rows, g, h1, h2⟩ := encRows_some m.toArray (segs.length + 1) segs 0 0 (by omega)
  obtain ⟨hl, _⟩ := encRows_spec m.toArray (segs.length + 1) segs 0 0 rows g h1
  unfold encode4
  have e1 : (m.any fun p => decide (p.2 > 0xFFFF)) = false := by
    rw [List.any_eq_false]
    intro p hp
    have := hg p hp
    simp; omega
  have e2 : segs.isEmpty = false := by cases segs <;> simp_all
  simp only [e1, e2, Bool.false_eq_true, if_false, h1]
  refine ⟨_, rfl, ?_⟩
  simp [Cmap4.lengthFits, Cmap4.ofRows]
  omega

end FontVerif.Cmap
