/-
Helper lemmas for C08: from a mapping (list of pairs) to the index view used by the format-4
lemmas, and `create_format_4` as a whole.
-/
import FontVerif.Model.Cmap
import FontVerif.Lemmas.Cmap4
import FontVerif.Lemmas.Cmap4Seg
import FontVerif.Lemmas.Cmap4Iter
set_option linter.unusedVariables false
namespace FontVerif.Cmap
open FontVerif

/-! ## congruence: only indices below `n` matter -/

theorem SegsTile.congr {cp gid cp' gid' : Nat → Nat} {n : Nat}
    (h : ∀ k, k < n → cp k = cp' k ∧ gid k = gid' k) :
    ∀ {segs : List Seg} {lo : Nat}, SegsTile cp gid lo n segs → SegsTile cp' gid' lo n segs := by
  intro segs
  induction segs with
  | nil => intro lo h; exact h
  | cons s rest ih =>
    intro lo ht
    obtain ⟨h1, h2, h3⟩ := ht
    have hle := h3.le
    refine ⟨h1, ⟨h2.le, ?_, ?_⟩, ih h3⟩
    · intro k k1 k2
      have := h2.le
      rw [← (h k (by omega)).1, ← (h s.startIx (by omega)).1]
      exact h2.run k k1 k2
    · intro d hd k k1 k2
      rw [← (h k (by omega)).1, ← (h k (by omega)).2]
      exact h2.delta d hd k k1 k2

/-! ## the BMP prefix of an ascending mapping -/

theorem takeWhile_getElem? {α : Type} (p : α → Bool) : ∀ (l : List α) (k : Nat),
    k < (l.takeWhile p).length → (l.takeWhile p)[k]? = l[k]? := by
  intro l
  induction l with
  | nil => intro k h; simp at h
  | cons x rest ih =>
    intro k h
    by_cases hp : p x = true
    · simp only [List.takeWhile_cons, hp, if_true] at h ⊢
      cases k with
      | zero => rfl
      | succ k' => simpa using ih k' (by simpa using h)
    · simp [hp] at h

theorem bmpPrefix_getElem? (m : Mapping) (k : Nat) (hk : k < (bmpPrefix m).length) :
    (bmpPrefix m)[k]? = m[k]? ∧ k < m.length := by
  have h1 : (bmpPrefix m)[k]? = m[k]? := takeWhile_getElem? _ m k hk
  refine ⟨h1, ?_⟩
  rw [List.getElem?_eq_getElem hk] at h1
  rcases Nat.lt_or_ge k m.length with h | h
  · exact h
  · rw [List.getElem?_eq_none h] at h1; cases h1

theorem mem_bmpPrefix (m : Mapping) (hasc : Ascending m) (x : Nat × Nat) :
    x ∈ bmpPrefix m ↔ x ∈ m ∧ x.1 ≤ 0xFFFF := by
  unfold bmpPrefix
  induction m with
  | nil => simp
  | cons h t ih =>
    have hp := List.pairwise_cons.1 hasc
    by_cases hh : h.1 ≤ 0xFFFF
    · simp only [List.takeWhile_cons, decide_eq_true_eq, hh, if_true, List.mem_cons, ih hp.2]
      constructor
      · rintro (rfl | ⟨h1, h2⟩)
        · exact ⟨Or.inl rfl, hh⟩
        · exact ⟨Or.inr h1, h2⟩
      · rintro ⟨rfl | h1, h2⟩
        · exact Or.inl rfl
        · exact Or.inr ⟨h1, h2⟩
    · simp only [List.takeWhile_cons, decide_eq_true_eq, hh, if_false, List.not_mem_nil, List.mem_cons, false_iff]
      rintro ⟨rfl | h1, h2⟩
      · exact hh h2
      · have := hp.1 x h1
        omega

/-- the index view of an in-domain mapping: `cpAt`/`gidAt` of the full array restricted to the
length of the BMP prefix -/
theorem mapOk_of_inDomain (m : Mapping) (hd : InDomain m) :
    MapOk (cpAt m.toArray) (gidAt m.toArray) (bmpPrefix m).length := by
  have hget : ∀ k (hk : k < (bmpPrefix m).length), ∃ hk' : k < m.length,
      m[k] ∈ bmpPrefix m ∧ cpAt m.toArray k = m[k].1 ∧ gidAt m.toArray k = m[k].2 := by
    intro k hk
    obtain ⟨h1, hk'⟩ := bmpPrefix_getElem? m k hk
    refine ⟨hk', ?_, by simp [cpAt, List.getElem?_eq_getElem hk'], by simp [gidAt, List.getElem?_eq_getElem hk']⟩
    rw [List.getElem?_eq_getElem hk, List.getElem?_eq_getElem hk'] at h1
    have := Option.some.inj h1
    rw [← this]
    exact List.getElem_mem hk
  constructor
  · intro i j hij hj
    obtain ⟨hi', _, ci, _⟩ := hget i (by omega)
    obtain ⟨hj', _, cj, _⟩ := hget j hj
    rw [ci, cj]
    exact (List.pairwise_iff_getElem.1 hd.asc) i j hi' hj' hij
  · intro k hk
    obtain ⟨hk', hmem, ck, _⟩ := hget k hk
    have := ((mem_bmpPrefix m hd.asc _).1 hmem)
    have := hd.cp _ this.1
    omega
  · intro k hk
    obtain ⟨hk', hmem, _, gk⟩ := hget k hk
    have := ((mem_bmpPrefix m hd.asc _).1 hmem)
    have := hd.gid _ this.1
    omega

/-- the prefix array and the full array agree below the prefix length -/
theorem prefix_agree (m : Mapping) (k : Nat) (hk : k < (bmpPrefix m).length) :
    cpAt (bmpPrefix m).toArray k = cpAt m.toArray k ∧ gidAt (bmpPrefix m).toArray k = gidAt m.toArray k := by
  obtain ⟨h1, _⟩ := bmpPrefix_getElem? m k hk
  simp [cpAt, gidAt, h1]

/-- pairs of the BMP part of the mapping = values of the index view -/
theorem mem_iff_index (m : Mapping) (hd : InDomain m) (c v : Nat) :
    ((c, v) ∈ m ∧ c ≤ 0xFFFF) ↔
      ∃ k, k < (bmpPrefix m).length ∧ cpAt m.toArray k = c ∧ gidAt m.toArray k = v := by
  rw [← mem_bmpPrefix m hd.asc (c, v)]
  constructor
  · intro h
    obtain ⟨k, hk, hk2⟩ := List.getElem_of_mem h
    obtain ⟨h1, h2⟩ := prefix_agree m k hk
    refine ⟨k, hk, ?_, ?_⟩
    · rw [← h1]; simp [cpAt, List.getElem?_eq_getElem hk, hk2]
    · rw [← h2]; simp [gidAt, List.getElem?_eq_getElem hk, hk2]
  · rintro ⟨k, hk, h1, h2⟩
    obtain ⟨e1, e2⟩ := prefix_agree m k hk
    rw [← e1] at h1
    rw [← e2] at h2
    simp only [cpAt, gidAt, List.getElem?_toArray, List.getElem?_eq_getElem hk, Option.getD_some] at h1 h2
    have : (bmpPrefix m)[k] = (c, v) := Prod.ext h1 h2
    rw [← this]
    exact List.getElem_mem hk

/-- `Format4SegmentComputer::new(mappings).compute()` is a valid segmentation of the BMP part
(stated over the full array, as `create_format_4` indexes it) -/
theorem segments_tile (m : Mapping) :
    SegsTile (cpAt m.toArray) (gidAt m.toArray) 0 (bmpPrefix m).length (segments m) := by
  have h := computeSegs_tile (bmpPrefix m).toArray
  rw [List.size_toArray] at h
  exact SegsTile.congr (fun k hk => prefix_agree m k hk) h

/-! ## `create_format_4` for any valid segmentation -/

theorem encode4_rows (m : Mapping) (segs : List Seg) (hg : ∀ p ∈ m, p.2 ≤ 0xFFFF) (hne : segs ≠ []) :
    encode4 m segs = .trap ∨
    ∃ rows g, encode4 m segs = .ok (some (Cmap4.ofRows rows g)) ∧
      RowsMatch (cpAt m.toArray) (gidAt m.toArray) segs rows g := by
  unfold encode4
  have h1 : (m.any fun p => decide (p.2 > 0xFFFF)) = false := by
    rw [List.any_eq_false]
    intro p hp
    have := hg p hp
    simp; omega
  have h2 : segs.isEmpty = false := by cases segs <;> simp_all
  simp only [h1, h2, Bool.false_eq_true, if_false]
  cases hr : encRows m.toArray (segs.length + 1) 0 0 segs with
  | none => exact Or.inl rfl
  | some rg =>
    obtain ⟨rows, g⟩ := rg
    refine Or.inr ⟨rows, g, rfl, ?_⟩
    obtain ⟨hl, hs⟩ := encRows_spec m.toArray (segs.length + 1) segs 0 0 rows g hr
    refine ⟨hl, fun j hj => ?_⟩
    obtain ⟨row, hrow, hspec⟩ := hs [] rfl j hj
    exact ⟨row, hrow, by simpa using hspec⟩

/-! ## `create_format_4` does not trap on mappings that fit -/

/-- number of mappings covered by a list of segments -/
def idsTotal : List Seg → Nat
  | [] => 0
  | s :: rest => (s.endIx + 1 - s.startIx) + idsTotal rest

theorem encRows_some (a : Array (Nat × Nat)) (nSeg : Nat) :
    ∀ (segs : List Seg) (i nIds : Nat), (nSeg - i + nIds + idsTotal segs) * 2 ≤ 65535 →
      ∃ rows g, encRows a nSeg i nIds segs = some (rows, g) ∧ g.length ≤ idsTotal segs := by
  intro segs
  induction segs with
  | nil => intro i nIds _; exact ⟨[], [], rfl, Nat.le_refl _⟩
  | cons s rest ih =>
    intro i nIds hb
    simp only [idsTotal] at hb
    unfold encRows
    cases hd : s.idDelta with
    | some d =>
      obtain ⟨rows, g, h1, h2⟩ := ih (i + 1) nIds (by omega)
      refine ⟨_, g, by simp only [h1]; rfl, ?_⟩
      simp only [idsTotal]; omega
    | none =>
      have hoff : ¬ ((nSeg - i + nIds) * 2 > 65535) := by omega
      simp only [hoff, if_false, List.length_map, List.length_range]
      obtain ⟨rows, g, h1, h2⟩ := ih (i + 1) (nIds + (s.endIx + 1 - s.startIx)) (by omega)
      refine ⟨_, _, by simp only [h1]; rfl, ?_⟩
      simp only [idsTotal, List.length_append, List.length_map, List.length_range]
      omega

theorem SegsTile.count {cp gid : Nat → Nat} : ∀ {segs : List Seg} {lo n : Nat}, SegsTile cp gid lo n segs →
    idsTotal segs = n - lo ∧ segs.length ≤ n - lo := by
  intro segs
  induction segs with
  | nil => intro lo n h; cases h; simp [idsTotal]
  | cons s rest ih =>
    intro lo n h
    obtain ⟨h1, h2, h3⟩ := h
    obtain ⟨i1, i2⟩ := ih h3
    have := h3.le
    have := h2.le
    simp only [idsTotal, List.length_cons]
    omega

/-- for any valid segmentation of at most 6551 BMP mappings `create_format_4` succeeds and the
table it returns compiles (`compute_length` fits 16 bits) -/
theorem encode4_ok (m : Mapping) (segs : List Seg) (n : Nat) (hg : ∀ p ∈ m, p.2 ≤ 0xFFFF)
    (ht : SegsTile (cpAt m.toArray) (gidAt m.toArray) 0 n segs) (hn : n ≤ 6551) (hne : segs ≠ []) :
    ∃ t, encode4 m segs = .ok (some t) ∧ t.lengthFits = true := by
  obtain ⟨c1, c2⟩ := ht.count
  obtain ⟨rows, g, h1, h2⟩ := encRows_some m.toArray (segs.length + 1) segs 0 0 (by omega)
  obtain ⟨hl, _⟩ := encRows_spec m.toArray (segs.length + 1) segs 0 0 rows g h1
  unfold encode4
  have e1 : (m.any fun p => decide (p.2 > 0xFFFF)) = false := by
    rw [List.any_eq_false]
    intro p hp
    have := hg p hp
    simp; omega
  have e2 : segs.isEmpty = false := by cases segs <;> simp_all
  simp only [e1, e2, Bool.false_eq_true, if_false, h1]
  refine ⟨_, rfl, ?_⟩
  simp [Cmap4.lengthFits, Cmap4.ofRows]
  omega

/-! ## enumeration -/

theorem pairsFrom_bmpPrefix (m : Mapping) :
    pairsFrom (cpAt m.toArray) (gidAt m.toArray) 0 (bmpPrefix m).length = bmpPrefix m := by
  apply List.ext_getElem
  · simp [pairsFrom]
  · intro k h1 h2
    obtain ⟨e1, e2⟩ := prefix_agree m k h2
    simp only [pairsFrom, List.getElem_map, List.getElem_range', Nat.zero_add, Nat.one_mul]
    rw [← e1, ← e2]
    simp [cpAt, gidAt, List.getElem?_eq_getElem h2]

theorem bmpPrefix_eq_filter (m : Mapping) (hasc : Ascending m) :
    bmpPrefix m = m.filter (fun p => decide (p.1 ≤ 0xFFFF)) := by
  unfold bmpPrefix
  induction m with
  | nil => rfl
  | cons h t ih =>
    have hp := List.pairwise_cons.1 hasc
    by_cases hh : h.1 ≤ 0xFFFF
    · simp only [List.takeWhile_cons, List.filter_cons, decide_eq_true_eq, hh, if_true]
      rw [ih hp.2]
    · simp only [List.takeWhile_cons, List.filter_cons, decide_eq_true_eq, hh, if_false]
      symm
      rw [List.filter_eq_nil_iff]
      intro x hx
      have := hp.1 x hx
      simp only [decide_eq_true_eq]
      omega

/-- `Cmap4::iter()` on the table `create_format_4` returns for a valid segmentation -/
theorem encode4_iter (m : Mapping) (hd : InDomain m) (segs : List Seg)
    (hv : SegsTile (cpAt m.toArray) (gidAt m.toArray) 0 (bmpPrefix m).length segs)
    (t : Cmap4) (h : encode4 m segs = .ok (some t)) :
    iter4 t = bmpPrefix m ++ [(0xFFFF, 0)] := by
  have hm := mapOk_of_inDomain m hd
  have hne : segs ≠ [] := by
    intro h0; subst h0
    unfold encode4 at h
    split at h
    · cases h
    · simp at h
  rcases encode4_rows m segs (fun p hp => (hd.gid p hp).2) hne with htrap | ⟨rows, g, hok, hr⟩
  · rw [htrap] at h; cases h
  rw [hok] at h
  injection h with h
  injection h with h
  subst h
  rw [iter4_ofRows hm hv hr, pairsFrom_bmpPrefix]

/-! ## `create_format_4` + `Cmap4::map_codepoint` -/

theorem encode4_lookup (m : Mapping) (hd : InDomain m) (segs : List Seg)
    (hv : SegsTile (cpAt m.toArray) (gidAt m.toArray) 0 (bmpPrefix m).length segs)
    (t : Cmap4) (h : encode4 m segs = .ok (some t)) (c v : Nat) :
    map4 t c = some v ↔ ((c, v) ∈ m ∧ c ≤ 0xFFFF) ∨ (c = 0xFFFF ∧ v = 0) := by
  have hm := mapOk_of_inDomain m hd
  have hne : segs ≠ [] := by
    intro h0; subst h0
    unfold encode4 at h
    split at h
    · cases h
    · simp at h
  rcases encode4_rows m segs (fun p hp => (hd.gid p hp).2) hne with htrap | ⟨rows, g, hok, hr⟩
  · rw [htrap] at h; cases h
  rw [hok] at h
  injection h with h
  injection h with h
  subst h
  rw [mem_iff_index m hd c v]
  constructor
  · intro hq
    by_cases hc : c = 0xFFFF
    · subst hc
      rw [map4_sentinel hm hv hr] at hq
      exact Or.inr ⟨rfl, (Option.some.inj hq).symm⟩
    · by_cases hex : ∃ k, k < (bmpPrefix m).length ∧ cpAt m.toArray k = c
      · obtain ⟨k, hk, hck⟩ := hex
        rw [← hck, map4_mapped hm hv hr k hk] at hq
        exact Or.inl ⟨k, hk, hck, Option.some.inj hq⟩
      · rw [map4_unmapped hm hv hr c hc (fun k hk hck => hex ⟨k, hk, hck⟩)] at hq
        cases hq
  · rintro (⟨k, hk, hck, hgk⟩ | ⟨rfl, rfl⟩)
    · rw [← hck, ← hgk]
      exact map4_mapped hm hv hr k hk
    · exact map4_sentinel hm hv hr

theorem createFormat4_none_iff (m : Mapping) (hd : InDomain m) :
    createFormat4 m = .ok none ↔ ∀ p ∈ m, p.1 > 0xFFFF := by
  have hsz : segments m = [] ↔ bmpPrefix m = [] := by
    unfold segments
    rw [computeSegs_nil_iff]
    simp
  have hpre : bmpPrefix m = [] ↔ ∀ p ∈ m, p.1 > 0xFFFF := by
    rw [List.eq_nil_iff_forall_not_mem]
    constructor
    · intro h p hp
      have := h p
      rw [mem_bmpPrefix m hd.asc] at this
      rcases Nat.lt_or_ge 0xFFFF p.1 with h' | h'
      · exact h'
      · exact absurd ⟨hp, h'⟩ this
    · intro h p hp
      rw [mem_bmpPrefix m hd.asc] at hp
      have := h p hp.1
      omega
  rw [← hpre, ← hsz]
  constructor
  · intro h
    by_cases hne : segments m = []
    · exact hne
    · rcases encode4_rows m (segments m) (fun p hp => (hd.gid p hp).2) hne with htrap | ⟨rows, g, hok, _⟩
      · rw [createFormat4, htrap] at h; cases h
      · rw [createFormat4, hok] at h; cases h
  · intro h
    unfold createFormat4 encode4
    have e1 : (m.any fun p => decide (p.2 > 0xFFFF)) = false := by
      rw [List.any_eq_false]
      intro p hp
      have := (hd.gid p hp).2
      simp; omega
    simp [e1, h]

theorem createFormat4_ok (m : Mapping) (hd : InDomain m) (hne : bmpPrefix m ≠ [])
    (hn : (bmpPrefix m).length ≤ 6551) : ∃ t, createFormat4 m = .ok (some t) ∧ t.lengthFits = true := by
  have hsegs : segments m ≠ [] := by
    unfold segments
    rw [Ne, computeSegs_nil_iff]
    simpa using hne
  exact encode4_ok m (segments m) _ (fun p hp => (hd.gid p hp).2) (segments_tile m) hn hsegs

end FontVerif.Cmap
