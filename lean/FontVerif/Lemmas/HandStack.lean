/- helper lemmas for Props/C01HandStack.lean: the loops of `Stack::apply_blend` never index outside the
operand window. -/
import FontVerif.Model.HandStack
set_option linter.unusedVariables false
set_option linter.unusedSimpArgs false
namespace FontVerif.HandStack
open FontVerif

theorem innerLoop_some (rc ri start tvc : Nat) (sc : Int) (hri : ri < rc)
    (hmax : rc * tvc ≤ HandRead.MAXU) :
    ∀ (l : List Nat) (vals : List Int), (∀ vi ∈ l, vi < tvc) → start + tvc + rc * tvc ≤ vals.length →
      ∃ v', innerLoop rc ri start tvc sc l vals = some v' ∧ v'.length = vals.length := by
  intro l
  induction l with
  | nil => intro vals _ _; exact ⟨vals, rfl, rfl⟩
  | cons vi rest ih =>
    intro vals hl hb
    have hvi : vi < tvc := hl vi (by simp)
    have hm : rc * (vi + 1) ≤ rc * tvc := Nat.mul_le_mul_left rc hvi
    rw [Nat.mul_succ] at hm
    generalize hp : rc * tvc = p at hm hb hmax
    generalize hq : rc * vi = q at hm
    have h1 : start + tvc + (q + ri) < vals.length := by omega
    have h2 : start + vi < vals.length := by omega
    obtain ⟨v', hv', hlen⟩ := ih (vals.set (start + vi) (wrapI32 (vals[start + vi] + Fixed.mul vals[start + tvc + (q + ri)] sc)))
      (fun x hx => hl x (by simp [hx])) (by simpa [hp] using hb)
    refine ⟨v', ?_, by simpa using hlen⟩
    unfold innerLoop
    simp only [hq]
    have c1 : ¬ (q + ri > HandRead.MAXU) := by omega
    have c2 : q + ri < vals.length - start - tvc := by omega
    simp only [c1, c2, if_false, if_true, List.getElem?_eq_getElem h1, List.getElem?_eq_getElem h2]
    exact hv'

theorem outerLoop_total (rc start tvc : Nat) (hmax : rc * tvc ≤ HandRead.MAXU) :
    ∀ (scalars : List (Option Int)) (ri : Nat) (vals : List Int), ri + scalars.length ≤ rc →
      start + tvc + rc * tvc ≤ vals.length →
      (outerLoop rc start tvc ri scalars vals).1 ≠ .trap ∧
      (outerLoop rc start tvc ri scalars vals).2.length = vals.length := by
  intro scalars
  induction scalars with
  | nil => intro ri vals _ _; simp [outerLoop]
  | cons x rest ih =>
    intro ri vals hr hb
    cases x with
    | none => simp [outerLoop]
    | some sc =>
      simp only [List.length_cons] at hr
      unfold outerLoop
      by_cases h0 : sc = 0
      · simp only [h0, if_true]
        exact ih (ri + 1) vals (by omega) hb
      · simp only [h0, if_false]
        obtain ⟨v', hv', hlen⟩ := innerLoop_some rc ri start tvc sc (by omega) hmax (List.range tvc) vals
          (fun vi hvi => by simpa using hvi) hb
        simp only [hv']
        have := ih (ri + 1) v' (by omega) (by omega)
        exact ⟨this.1, by omega⟩

end FontVerif.HandStack
