/-
Per-step facts (invariants, measures, trap freedom) of the glyf / loca models of Model/HandGlyf.lean from which
Props/C01HandGlyf.lean derives its theorems.
-/
import FontVerif.Model.HandGlyf
import FontVerif.Lemmas.ReadIter
set_option linter.unusedVariables false
set_option linter.unusedSimpArgs false
namespace FontVerif.C01HandGlyf
open FontVerif FontVerif.ReadIter FontVerif.HandRead FontVerif.HandGlyf
open FontVerif.Glyf (hasBit ON_CURVE X_SHORT Y_SHORT REPEAT X_SAME Y_SAME
  ARG_WORDS ARGS_XY HAVE_SCALE MORE_COMPONENTS HAVE_XY_SCALE HAVE_2X2 HAVE_INSTR COMPOSITE_ALL)

/-! ## machine arithmetic -/

theorem addU16_eq {a b : Nat} (h : a + b ≤ 65535) : addU16 a b = some (a + b) := by
  unfold addU16 U16_MAX; simp [h]
theorem addU32_eq {a b : Nat} (h : a + b ≤ 4294967295) : addU32 a b = some (a + b) := by
  unfold addU32 U32_MAX; simp [h]
theorem mulU32_eq {a b : Nat} (h : a * b ≤ 4294967295) : mulU32 a b = some (a * b) := by
  unfold mulU32 U32_MAX; simp [h]
theorem addUsize_eq {a b : Nat} (h : a + b ≤ MAXU) : addUsize a b = some (a + b) := by
  unfold addUsize; simp [h]
theorem subU_eq {a b : Nat} (h : b ≤ a) : subU a b = some (a - b) := by
  unfold subU; simp [h]

/-! ## cursor -/

theorem read_some {d : List Nat} {c c' : Cur} {sz v : Nat} (h : c.read d sz = (some v, c')) :
    c.pos + sz ≤ d.length ∧ c.pos + sz ≤ MAXU ∧ c'.pos = c.pos + sz := by
  simp only [Cur.read, Cur.advanceBy, Prod.mk.injEq] at h
  obtain ⟨h1, h2⟩ := h
  unfold readAt checkedAdd at h1
  by_cases hm : c.pos + sz ≤ MAXU
  · simp only [hm, if_true] at h1
    by_cases hl : c.pos + sz ≤ d.length
    · refine ⟨hl, hm, ?_⟩
      rw [← h2]; simp [satAdd, hm]
    · simp [hl] at h1
  · simp [hm] at h1

theorem read_none {d : List Nat} {c c' : Cur} {sz : Nat} (h : c.read d sz = (none, c')) :
    (d.length < c.pos + sz ∨ MAXU < c.pos + sz) ∧ c'.pos = satAdd c.pos sz := by
  simp only [Cur.read, Cur.advanceBy, Prod.mk.injEq] at h
  obtain ⟨h1, h2⟩ := h
  refine ⟨?_, by rw [← h2]⟩
  unfold readAt checkedAdd at h1
  by_cases hm : c.pos + sz ≤ MAXU
  · simp only [hm, if_true] at h1
    by_cases hl : c.pos + sz ≤ d.length
    · simp [hl] at h1
    · omega
  · omega

theorem satAdd_ge (a b : Nat) (h : a ≤ MAXU) : a ≤ satAdd a b := by
  unfold satAdd; split <;> omega

theorem satAdd_le (a b : Nat) (h : a ≤ MAXU) : satAdd a b ≤ MAXU := by
  unfold satAdd; split <;> omega

/-- a read moves the cursor forward and keeps it a usize -/
theorem read_mono (d : List Nat) (c : Cur) (sz : Nat) (h : c.pos ≤ MAXU) :
    c.pos ≤ (c.read d sz).2.pos ∧ (c.read d sz).2.pos ≤ MAXU := by
  simp only [Cur.read, Cur.advanceBy]
  exact ⟨satAdd_ge _ _ h, satAdd_le _ _ h⟩

/-! ## `resolve_coords_len` -/

/-- a short vector is never also counted as a long one: the two tests of the branchless sum exclude
each other -/
theorem short_not_long (f a b : Nat) (h : (f &&& a) ≠ 0) : (f &&& (a ||| b)) ≠ 0 := by
  intro h0
  rw [Nat.and_or_distrib_left] at h0
  have := Nat.or_eq_zero_iff.mp h0
  exact h this.1

theorem rclAccum_some (f repeats x y left T : Nat) (hT : T ≤ 65535) (hr : repeats ≤ left)
    (hx : x + 2 * left ≤ 2 * T) (hy : y + 2 * left ≤ 2 * T) :
    ∃ x2 y2, rclAccum f repeats x y left = some (x2, y2, left - repeats) ∧
      x2 ≤ x + 2 * repeats ∧ y2 ≤ y + 2 * repeats := by
  unfold rclAccum
  simp only [U32_MAX]
  by_cases h1 : (f &&& X_SHORT) = 0 <;> by_cases h2 : (f &&& (X_SHORT ||| X_SAME)) = 0 <;>
  by_cases h3 : (f &&& Y_SHORT) = 0 <;> by_cases h4 : (f &&& (Y_SHORT ||| Y_SAME)) = 0
  all_goals first
    | exact absurd h2 (short_not_long f X_SHORT X_SAME h1)
    | exact absurd h4 (short_not_long f Y_SHORT Y_SAME h3)
    | (simp only [h1, h2, h3, h4, bne_self_eq_false, beq_self_eq_true, Bool.false_eq_true, if_false, if_true,
        bne_iff_ne, ne_eq, beq_iff_eq, not_true_eq_false, not_false_eq_true, Nat.zero_mul, Nat.one_mul,
        Nat.add_zero, Nat.zero_le]
       simp (disch := omega) only [if_neg]
       refine ⟨_, _, rfl, ?_, ?_⟩ <;> omega)


/-- the data consists of bytes -/
def Bytes (d : List Nat) : Prop := ∀ b ∈ d, b < 256

theorem beAt_lt (d : List Nat) (hb : Bytes d) (pos : Nat) :
    HandRead.beAt d pos 1 < 256 ∧ HandRead.beAt d pos 2 < 65536 := by
  unfold HandRead.beAt beValue
  have hm : ∀ x ∈ d.drop pos, x < 256 := fun x hx => hb x (List.mem_of_mem_drop hx)
  cases hd : d.drop pos with
  | nil => simp
  | cons x t =>
    rw [hd] at hm
    have hx := hm x (by simp)
    cases t with
    | nil => simp; omega
    | cons y t =>
      have hy := hm y (by simp)
      simp; omega

theorem read1_lt {d : List Nat} (hb : Bytes d) {c c' : Cur} {v : Nat} (h : c.read d 1 = (some v, c')) : v < 256 := by
  simp only [Cur.read, Prod.mk.injEq] at h
  have h1 := h.1
  unfold readAt at h1
  split at h1
  · cases h1
  · split at h1
    · injection h1 with h1; rw [← h1]; exact (beAt_lt d hb _).1
    · cases h1

theorem read2_lt {d : List Nat} (hb : Bytes d) {c c' : Cur} {v : Nat} (h : c.read d 2 = (some v, c')) : v < 65536 := by
  simp only [Cur.read, Prod.mk.injEq] at h
  have h1 := h.1
  unfold readAt at h1
  split at h1
  · cases h1
  · split at h1
    · injection h1 with h1; rw [← h1]; exact (beAt_lt d hb _).2
    · cases h1

/-- loop invariant of `resolve_coords_len` for `points_total = T`: the cursor is inside the data and
every counter is bounded by twice the points already accounted for -/
def RInv (d : List Nat) (T : Nat) (s : RclSt) : Prop :=
  s.c.pos ≤ d.length ∧ s.c.pos + 2 * s.left ≤ 2 * T ∧ s.x + 2 * s.left ≤ 2 * T ∧ s.y + 2 * s.left ≤ 2 * T

theorem rclBody_facts (d : List Nat) (hb : Bytes d) (T : Nat) (hT : T ≤ 65535) (s : RclSt) (hi : RInv d T s) :
    (∀ s', rclBody d s = .next s' → RInv d T s' ∧ s.c.pos < s'.c.pos ∧ s'.left < s.left) ∧
    (∀ r, rclBody d s = .ret r → ∃ e, r = .err e) := by
  obtain ⟨hp, hf, hx, hy⟩ := hi
  unfold rclBody
  cases h1 : s.c.read d 1 with
  | mk o c1 =>
    cases o with
    | none => simp
    | some f =>
      have r1 := read_some h1
      dsimp only
      by_cases hrep : hasBit f REPEAT = true
      · simp only [hrep, if_true]
        cases h2 : c1.read d 1 with
        | mk o2 c2 =>
          cases o2 with
          | none => simp
          | some r =>
            have r2 := read_some h2
            have hr := read1_lt hb h2
            have ha : addU32 r 1 = some (r + 1) := by simp [addU32, U32_MAX]; omega
            simp only [ha]
            by_cases hgt : r + 1 > s.left
            · simp [hgt]
            · simp only [hgt, if_false]
              obtain ⟨x2, y2, he, hx2, hy2⟩ := rclAccum_some f (r + 1) s.x s.y s.left T hT (by omega) hx hy
              simp only [he]
              refine ⟨?_, by simp⟩
              intro s' hs'
              injection hs' with hs'
              subst hs'
              simp only [RInv]
              omega
      · simp only [hrep, Bool.false_eq_true, if_false]
        by_cases hgt : 1 > s.left
        · simp [hgt]
        · simp only [hgt, if_false]
          obtain ⟨x2, y2, he, hx2, hy2⟩ := rclAccum_some f 1 s.x s.y s.left T hT (by omega) hx hy
          simp only [he]
          refine ⟨?_, by simp⟩
          intro s' hs'
          injection hs' with hs'
          subst hs'
          simp only [RInv]
          omega


theorem rclFinish_ok (d : List Nat) (T : Nat) (hT : T ≤ 65535) (s : RclSt) (hi : RInv d T s) (h0 : s.left = 0) :
    rclFinish d s = .ok ⟨s.c.pos, s.x, s.y⟩ := by
  obtain ⟨hp, hf, hx, hy⟩ := hi
  unfold rclFinish Cur.position
  simp only [hp, if_true]
  have : s.c.pos % 4294967296 = s.c.pos := Nat.mod_eq_of_lt (by omega)
  rw [this]

/-- `resolve_coords_len` from any state satisfying the invariant: enough fuel, never a trap, and an
`Ok` result is bounded by the data and by twice the point count -/
theorem rclLoop_facts (d : List Nat) (hb : Bytes d) (T : Nat) (hT : T ≤ 65535) :
    ∀ (fuel : Nat) (s : RclSt), RInv d T s → d.length - s.c.pos < fuel →
      (∃ e, rclLoop d fuel s = .err e) ∨
      (∃ l, rclLoop d fuel s = .ok l ∧ s.c.pos ≤ l.flags ∧ l.flags ≤ d.length ∧ l.flags ≤ 2 * T ∧
        l.x ≤ 2 * T ∧ l.y ≤ 2 * T) := by
  intro fuel
  induction fuel with
  | zero => intro s _ h; omega
  | succ fuel ih =>
    intro s hi hf
    unfold rclLoop
    by_cases h0 : s.left = 0
    · simp only [h0, if_true]
      right
      rw [rclFinish_ok d T hT s hi h0]
      obtain ⟨hp, hfl, hx, hy⟩ := hi
      exact ⟨_, rfl, by simp, by simpa using hp, by simp; omega, by simp; omega, by simp; omega⟩
    · simp only [h0, if_false]
      have hbf := rclBody_facts d hb T hT s hi
      cases hbody : rclBody d s with
      | ret r =>
        obtain ⟨e, he⟩ := hbf.2 r hbody
        left; exact ⟨e, by simp [he]⟩
      | next s' =>
        obtain ⟨hi', hpos, hleft⟩ := hbf.1 s' hbody
        dsimp only
        have hp' := hi'.1
        rcases ih s' hi' (by omega) with ⟨e, he⟩ | ⟨l, hl, h1, h2⟩
        · left; exact ⟨e, he⟩
        · right; exact ⟨l, hl, by omega, h2⟩

theorem rinv_init (d : List Nat) (T : Nat) : RInv d T ⟨Cur.init, T, 0, 0⟩ := by
  simp [RInv, Cur.init]


theorem read1_eq {d : List Nat} {c c' : Cur} {v : Nat} (h : c.read d 1 = (some v, c')) : d[c.pos]? = some v := by
  have hs := read_some h
  simp only [Cur.read, Prod.mk.injEq] at h
  have h1 := h.1
  unfold readAt checkedAdd at h1
  have hm : c.pos + 1 ≤ MAXU := hs.2.1
  have hl : c.pos + 1 ≤ d.length := hs.1
  simp only [hm, hl, if_true] at h1
  injection h1 with h1
  rw [← h1]
  unfold HandRead.beAt beValue
  have hlt : c.pos < d.length := by omega
  rw [List.drop_eq_getElem_cons hlt]
  rw [List.getElem?_eq_getElem hlt]
  simp only [List.take_succ_cons, List.take_zero, List.foldl_cons, List.foldl_nil]
  simp

/-- the number of points a sequence of flag bytes stands for: a flag with `REPEAT_FLAG` and its count
byte `r` are `r + 1` points (1 point when the count byte is missing), any other flag is one point -/
def cnt : List Nat → Nat
  | [] => 0
  | [_] => 1
  | f :: r :: rest => if hasBit f REPEAT then r + 1 + cnt rest else 1 + cnt (r :: rest)

theorem cnt_norep (f : Nat) (t : List Nat) (h : hasBit f REPEAT = false) : cnt (f :: t) = 1 + cnt t := by
  cases t with
  | nil => simp [cnt]
  | cons r rest => simp [cnt, h]

theorem cnt_rep (f r : Nat) (t : List Nat) (h : hasBit f REPEAT = true) : cnt (f :: r :: t) = r + 1 + cnt t := by
  simp [cnt, h]

theorem cnt_le (l : List Nat) (hb : Bytes l) : cnt l ≤ 256 * l.length := by
  induction l using cnt.induct with
  | case1 => simp [cnt]
  | case2 f => simp [cnt]
  | case3 f r rest h ih =>
    have hr : r < 256 := hb r (by simp)
    have := ih (fun b hb' => hb b (by simp [hb']))
    simp only [cnt, h, if_true, List.length_cons]; omega
  | case4 f r rest h ih =>
    have := ih (fun b hb' => hb b (List.mem_cons_of_mem _ hb'))
    have h' : hasBit f REPEAT = false := by simpa using h
    rw [cnt_norep f _ h']
    simp only [List.length_cons] at this ⊢; omega

theorem take_drop_cons (d : List Nat) (F p : Nat) (v : Nat) (hv : d[p]? = some v) (hF : p < F) :
    (d.take F).drop p = v :: (d.take F).drop (p + 1) := by
  have hlt : p < d.length := (List.getElem?_eq_some_iff.mp hv).1
  have hlt' : p < (d.take F).length := by simp; omega
  rw [List.drop_eq_getElem_cons hlt']
  congr 1
  rw [List.getElem_take]
  exact (List.getElem?_eq_some_iff.mp hv).2

/-- **the lengths `resolve_coords_len` accepts describe exactly `flags_left` points**: the flag bytes
between the cursor and the returned `flags` length stand for `flags_left` points -/
theorem rclLoop_cnt (d : List Nat) (hb : Bytes d) (T : Nat) (hT : T ≤ 65535) :
    ∀ (fuel : Nat) (s : RclSt) (l : Lens), RInv d T s → d.length - s.c.pos < fuel →
      rclLoop d fuel s = .ok l → cnt ((d.take l.flags).drop s.c.pos) = s.left := by
  intro fuel
  induction fuel with
  | zero => intro s l _ h; omega
  | succ fuel ih =>
    intro s l hi hf hok
    have hfacts := rclLoop_facts d hb T hT (fuel + 1) s hi hf
    unfold rclLoop at hok
    by_cases h0 : s.left = 0
    · simp only [h0, if_true] at hok
      rw [rclFinish_ok d T hT s hi h0] at hok
      injection hok with hok
      subst hok
      simp [h0, cnt]
    · simp only [h0, if_false] at hok
      have hbf := rclBody_facts d hb T hT s hi
      cases hbody : rclBody d s with
      | ret r =>
        rw [hbody] at hok
        dsimp only at hok
        obtain ⟨e, he⟩ := hbf.2 r hbody
        rw [he] at hok; cases hok
      | next s' =>
        rw [hbody] at hok
        dsimp only at hok
        obtain ⟨hi', hpos, hleft⟩ := hbf.1 s' hbody
        have hp' := hi'.1
        have ih' := ih s' l hi' (by omega) hok
        -- the final flags length is at least the position after this trip
        have hge : s'.c.pos ≤ l.flags := by
          rcases rclLoop_facts d hb T hT fuel s' hi' (by omega) with ⟨e, he⟩ | ⟨l', hl', h1, _⟩
          · rw [he] at hok; cases hok
          · rw [hl'] at hok; injection hok with hok; subst hok; exact h1
        -- what the body did
        unfold rclBody at hbody
        cases h1 : s.c.read d 1 with
        | mk o c1 =>
          rw [h1] at hbody
          cases o with
          | none => simp at hbody
          | some f =>
            have r1 := read_some h1
            have e1 := read1_eq h1
            dsimp only at hbody
            by_cases hrep : hasBit f REPEAT = true
            · simp only [hrep, if_true] at hbody
              cases h2 : c1.read d 1 with
              | mk o2 c2 =>
                rw [h2] at hbody
                cases o2 with
                | none => simp at hbody
                | some r =>
                  have r2 := read_some h2
                  have e2 := read1_eq h2
                  have hr := read1_lt hb h2
                  have ha : addU32 r 1 = some (r + 1) := by simp [addU32, U32_MAX]; omega
                  simp only [ha] at hbody
                  by_cases hgt : r + 1 > s.left
                  · simp [hgt] at hbody
                  · simp only [hgt, if_false] at hbody
                    obtain ⟨x2, y2, he, _, _⟩ := rclAccum_some f (r + 1) s.x s.y s.left T hT (by omega) hi.2.2.1 hi.2.2.2
                    simp only [he] at hbody
                    injection hbody with hbody
                    subst hbody
                    dsimp only at ih' hge
                    rw [take_drop_cons d l.flags s.c.pos f e1 (by omega)]
                    rw [r1.2.2] at e2
                    rw [take_drop_cons d l.flags (s.c.pos + 1) r e2 (by omega)]
                    rw [cnt_rep f r _ hrep]
                    have : s.c.pos + 1 + 1 = c2.pos := by omega
                    rw [this, ih']; omega
            · have hrep' : hasBit f REPEAT = false := by simpa using hrep
              simp only [hrep, Bool.false_eq_true, if_false] at hbody
              by_cases hgt : 1 > s.left
              · simp [hgt] at hbody
              · simp only [hgt, if_false] at hbody
                obtain ⟨x2, y2, he, _, _⟩ := rclAccum_some f 1 s.x s.y s.left T hT (by omega) hi.2.2.1 hi.2.2.2
                simp only [he] at hbody
                injection hbody with hbody
                subst hbody
                dsimp only at ih' hge
                rw [take_drop_cons d l.flags s.c.pos f e1 (by omega)]
                rw [cnt_norep f _ hrep']
                have : s.c.pos + 1 = c1.pos := by omega
                rw [this, ih']; omega


/-! ### relation to the list transcription of check C09 -/

/-- the value `rclAccum` computes, in the form Model/Glyf.lean (check C09) writes it -/
theorem rclAccum_exact (f repeats x y left T : Nat) (hT : T ≤ 65535) (hr : repeats ≤ left)
    (hx : x + 2 * left ≤ 2 * T) (hy : y + 2 * left ≤ 2 * T) :
    rclAccum f repeats x y left = some
      (x + (if hasBit f X_SHORT then repeats else 0) + (if (f &&& (X_SHORT ||| X_SAME)) = 0 then repeats * 2 else 0),
       y + (if hasBit f Y_SHORT then repeats else 0) + (if (f &&& (Y_SHORT ||| Y_SAME)) = 0 then repeats * 2 else 0),
       left - repeats) := by
  unfold rclAccum hasBit
  simp only [U32_MAX]
  by_cases h1 : (f &&& X_SHORT) = 0 <;> by_cases h2 : (f &&& (X_SHORT ||| X_SAME)) = 0 <;>
  by_cases h3 : (f &&& Y_SHORT) = 0 <;> by_cases h4 : (f &&& (Y_SHORT ||| Y_SAME)) = 0
  all_goals first
    | exact absurd h2 (short_not_long f X_SHORT X_SAME h1)
    | exact absurd h4 (short_not_long f Y_SHORT Y_SAME h3)
    | (simp only [h1, h2, h3, h4, bne_self_eq_false, beq_self_eq_true, Bool.false_eq_true, if_false, if_true,
        bne_iff_ne, ne_eq, beq_iff_eq, not_true_eq_false, not_false_eq_true, Nat.zero_mul, Nat.one_mul,
        Nat.add_zero, Nat.zero_le]
       simp (disch := omega) only [if_neg])

def lensOpt : R Lens → Option (Nat × Nat × Nat)
  | .ok l => some (l.flags, l.x, l.y)
  | _ => none

/-- **the cursor transcription and the list transcription of `resolve_coords_len` agree**
(Model/HandGlyf.lean `rclLoop` ⇄ Model/Glyf.lean `resolveCoordsLen` of check C09) from every loop
state: same `Ok` lengths, and an `Err` here is a `none` there. -/
theorem rclLoop_eq_glyf (d : List Nat) (hb : Bytes d) (T : Nat) (hT : T ≤ 65535) :
    ∀ (fuel : Nat) (s : RclSt), RInv d T s → d.length - s.c.pos < fuel →
      Glyf.resolveCoordsLen (d.drop s.c.pos) s.c.pos s.left s.x s.y = lensOpt (rclLoop d fuel s) := by
  intro fuel
  induction fuel with
  | zero => intro s _ h; omega
  | succ fuel ih =>
    intro s hi hf
    unfold rclLoop
    by_cases h0 : s.left = 0
    · simp only [h0, if_true]
      rw [rclFinish_ok d T hT s hi h0]
      cases hd : d.drop s.c.pos <;> simp [Glyf.resolveCoordsLen, lensOpt]
    · simp only [h0, if_false]
      have hbf := rclBody_facts d hb T hT s hi
      have hi0 := hi
      obtain ⟨hp, hfl, hx, hy⟩ := hi
      have hmax : s.c.pos + 2 ≤ MAXU := by unfold MAXU; omega
      unfold rclBody at hbf ⊢
      cases h1 : s.c.read d 1 with
      | mk o c1 =>
        rw [h1] at hbf
        cases o with
        | none =>
          have rn := read_none h1
          have hge : d.length ≤ s.c.pos := by omega
          rw [List.drop_eq_nil_of_le hge]
          simp [Glyf.resolveCoordsLen, h0, lensOpt]
        | some f =>
          have r1 := read_some h1
          have e1 := read1_eq h1
          have hlt : s.c.pos < d.length := by omega
          have hd : d.drop s.c.pos = f :: d.drop (s.c.pos + 1) := by
            rw [List.drop_eq_getElem_cons hlt]
            congr 1
            exact (List.getElem?_eq_some_iff.mp e1).2
          rw [hd]
          dsimp only at hbf ⊢
          unfold Glyf.resolveCoordsLen
          simp only [h0, if_false]
          by_cases hrep : hasBit f REPEAT = true
          · simp only [hrep, if_true] at hbf ⊢
            cases h2 : c1.read d 1 with
            | mk o2 c2 =>
              rw [h2] at hbf
              cases o2 with
              | none =>
                have rn := read_none h2
                have hge : d.length ≤ s.c.pos + 1 := by omega
                rw [List.drop_eq_nil_of_le hge]
                simp [lensOpt]
              | some r =>
                have r2 := read_some h2
                have e2 := read1_eq h2
                have hr := read1_lt hb h2
                have hlt2 : s.c.pos + 1 < d.length := by omega
                have hd2 : d.drop (s.c.pos + 1) = r :: d.drop (s.c.pos + 2) := by
                  rw [List.drop_eq_getElem_cons hlt2]
                  congr 1
                  rw [r1.2.2] at e2
                  exact (List.getElem?_eq_some_iff.mp e2).2
                rw [hd2]
                have ha : addU32 r 1 = some (r + 1) := addU32_eq (by omega)
                simp only [ha] at hbf ⊢
                by_cases hgt : r + 1 > s.left
                · simp [hgt, lensOpt]
                · simp only [hgt, if_false] at hbf ⊢
                  have he := rclAccum_exact f (r + 1) s.x s.y s.left T hT (by omega) hx hy
                  rw [he] at hbf ⊢
                  dsimp only at hbf ⊢
                  obtain ⟨hi', _, _⟩ := hbf.1 _ rfl
                  have := ih _ hi' (by dsimp only; omega)
                  dsimp only at this
                  have hc2 : c2.pos = s.c.pos + 2 := by omega
                  rw [hc2] at this
                  exact this
          · simp only [hrep, Bool.false_eq_true, if_false] at hbf ⊢
            by_cases hgt : 1 > s.left
            · omega
            · simp only [hgt, if_false] at hbf ⊢
              have he := rclAccum_exact f 1 s.x s.y s.left T hT (by omega) hx hy
              rw [he] at hbf ⊢
              dsimp only at hbf ⊢
              obtain ⟨hi', _, _⟩ := hbf.1 _ rfl
              have := ih _ hi' (by dsimp only; omega)
              dsimp only at this
              rw [r1.2.2] at this
              exact this

/-! ## `PointIter` -/

def PInv (s : PiSt) : Prop := s.rep ≤ 255 ∧ Bytes s.fd ∧ s.fd.length ≤ MAXU ∧ s.fc.pos ≤ MAXU

/-- the number of points a `PointIter` still yields -/
def phi (s : PiSt) : Nat := s.rep + cnt (s.fd.drop s.fc.pos)

theorem advanceFlags_facts (s : PiSt) (hi : PInv s) :
    (phi s = 0 → ∃ s1, advanceFlags s = .none s1) ∧
    (0 < phi s → ∃ s1, advanceFlags s = .ok s1 ∧ PInv s1 ∧ phi s1 + 1 = phi s ∧ s1.fd = s.fd ∧
      s1.xd = s.xd ∧ s1.yd = s.yd) := by
  obtain ⟨hrep, hb, hlen, hpos⟩ := hi
  unfold advanceFlags
  by_cases h0 : s.rep = 0
  · simp only [h0, if_true]
    cases h1 : s.fc.read s.fd 1 with
    | mk o c1 =>
      cases o with
      | none =>
        have rn := read_none h1
        have hge : s.fd.length ≤ s.fc.pos := by omega
        have hd : s.fd.drop s.fc.pos = [] := List.drop_eq_nil_of_le hge
        refine ⟨fun _ => ⟨_, rfl⟩, ?_⟩
        intro hphi
        simp [phi, h0, hd, cnt] at hphi
      | some f =>
        have r1 := read_some h1
        have e1 := read1_eq h1
        have hlt : s.fc.pos < s.fd.length := by omega
        have hd : s.fd.drop s.fc.pos = f :: s.fd.drop (s.fc.pos + 1) := by
          rw [List.drop_eq_getElem_cons hlt]
          congr 1
          exact (List.getElem?_eq_some_iff.mp e1).2
        dsimp only
        by_cases hr : hasBit f REPEAT = true
        · simp only [hr, if_true]
          cases h2 : c1.read s.fd 1 with
          | mk o2 c2 =>
            cases o2 with
            | some r =>
              have r2 := read_some h2
              have e2 := read1_eq h2
              have hrl := read1_lt hb h2
              have hlt2 : s.fc.pos + 1 < s.fd.length := by omega
              have hd2 : s.fd.drop (s.fc.pos + 1) = r :: s.fd.drop (s.fc.pos + 2) := by
                rw [List.drop_eq_getElem_cons hlt2]
                congr 1
                rw [r1.2.2] at e2
                exact (List.getElem?_eq_some_iff.mp e2).2
              have ha : addU16 r 1 = some (r + 1) := by simp [addU16, U16_MAX]; omega
              have hs : subU (r + 1) 1 = some r := by simp [subU]
              simp only [Option.getD_some, ha, hs]
              have hphi : phi s = r + 1 + cnt (s.fd.drop (s.fc.pos + 2)) := by
                simp only [phi, h0, hd, hd2, Nat.zero_add]; exact cnt_rep f r _ hr
              refine ⟨by omega, ?_⟩
              intro _
              refine ⟨_, rfl, ⟨by simp; omega, hb, hlen, by simp; omega⟩, ?_, rfl, rfl, rfl⟩
              have : c2.pos = s.fc.pos + 2 := by omega
              rw [hphi]
              simp only [phi, this]
              omega
            | none =>
              have rn := read_none h2
              have hle : s.fd.length ≤ s.fc.pos + 1 := by omega
              have hd2 : s.fd.drop (s.fc.pos + 1) = [] := List.drop_eq_nil_of_le hle
              have hc2 : s.fd.length ≤ c2.pos := by
                rw [rn.2]
                have := satAdd_ge c1.pos 1 (by omega)
                omega
              have hd3 : s.fd.drop c2.pos = [] := List.drop_eq_nil_of_le hc2
              have ha : addU16 0 1 = some 1 := by simp [addU16, U16_MAX]
              have hs : subU 1 1 = some 0 := by simp [subU]
              simp only [Option.getD_none, ha, hs]
              have hphi : phi s = 1 := by simp [phi, h0, hd, hd2, cnt]
              refine ⟨by omega, ?_⟩
              intro _
              refine ⟨_, rfl, ⟨by simp, hb, hlen, ?_⟩, ?_, rfl, rfl, rfl⟩
              · simp only [rn.2]; exact satAdd_le _ _ (by omega)
              · rw [hphi]; simp [phi, hd3, cnt]
        · have hr' : hasBit f REPEAT = false := by simpa using hr
          simp only [hr, Bool.false_eq_true, if_false]
          have ha : addU16 0 1 = some 1 := by simp [addU16, U16_MAX]
          have hs : subU 1 1 = some 0 := by simp [subU]
          simp only [ha, hs]
          have hphi : phi s = 1 + cnt (s.fd.drop (s.fc.pos + 1)) := by
            simp only [phi, h0, hd, Nat.zero_add]; exact cnt_norep f _ hr'
          refine ⟨by omega, ?_⟩
          intro _
          refine ⟨_, rfl, ⟨by simp, hb, hlen, by simp; omega⟩, ?_, rfl, rfl, rfl⟩
          rw [hphi]; simp only [phi, r1.2.2]; omega
  · simp only [h0, if_false]
    have hs : subU s.rep 1 = some (s.rep - 1) := by simp [subU]; omega
    simp only [hs]
    refine ⟨fun h => by simp [phi] at h; omega, ?_⟩
    intro _
    refine ⟨_, rfl, ⟨by simp; omega, hb, hlen, hpos⟩, ?_, rfl, rfl, rfl⟩
    simp only [phi]; omega

theorem piStep_facts (s : PiSt) (hi : PInv s) :
    (phi s = 0 → (piStep s).1 = .done) ∧
    (0 < phi s → (∃ p, (piStep s).1 = .yield p) ∧ PInv (piStep s).2 ∧ phi (piStep s).2 + 1 = phi s ∧
      (piStep s).2.fd = s.fd) := by
  have h := advanceFlags_facts s hi
  unfold piStep
  constructor
  · intro h0
    obtain ⟨s1, hs1⟩ := h.1 h0
    simp [hs1]
  · intro hp
    obtain ⟨s1, hs1, hi1, hphi, hfd, _, _⟩ := h.2 hp
    simp only [hs1]
    refine ⟨⟨_, rfl⟩, ?_, ?_, ?_⟩
    · exact hi1
    · simpa [phi, advancePoints] using hphi
    · simpa [advancePoints] using hfd

/-- a `PointIter` yields exactly `phi` points, then `None`; `phi + 1` units of fuel suffice and no
trip traps -/
theorem pi_run : ∀ (fuel : Nat) (s : PiSt), PInv s → phi s < fuel →
    ∃ evs, run piStep fuel s = some evs ∧ evs.length = phi s ∧ (items evs).length = phi s ∧
      trapped evs = false := by
  intro fuel
  induction fuel with
  | zero => intro s _ h; omega
  | succ fuel ih =>
    intro s hi hf
    have hsf := piStep_facts s hi
    unfold run
    by_cases h0 : phi s = 0
    · have hd := hsf.1 h0
      cases hst : piStep s with
      | mk o s' =>
        rw [hst] at hd
        dsimp only at hd
        subst hd
        exact ⟨[], rfl, by simp [h0], by simp [items, h0], rfl⟩
    · obtain ⟨⟨p, hp⟩, hi', hphi, _⟩ := hsf.2 (by omega)
      cases hst : piStep s with
      | mk o s' =>
        rw [hst] at hp hi' hphi
        dsimp only at hp hi' hphi
        subst hp
        obtain ⟨evs, he, h1, h2, h3⟩ := ih s' hi' (by omega)
        refine ⟨.yield p :: evs, by simp [he], by simp; omega, by simp [items]; omega, by simpa [trapped] using h3⟩


/-! ## `points_impl` / `points` -/

/-- the end points are u16 values -/
def U16s (l : List Nat) : Prop := ∀ e ∈ l, e < 65536

theorem resolveCoordsLen_facts (d : List Nat) (hb : Bytes d) (T : Nat) (hT : T ≤ 65535) :
    (∃ e, resolveCoordsLen d T = .err e) ∨
    (∃ l, resolveCoordsLen d T = .ok l ∧ l.flags ≤ d.length ∧ l.flags ≤ 2 * T ∧ l.x ≤ 2 * T ∧ l.y ≤ 2 * T ∧
      cnt (d.take l.flags) = T) := by
  unfold resolveCoordsLen
  have hi := rinv_init d T
  rcases rclLoop_facts d hb T hT (d.length + 1) _ hi (by simp [Cur.init]) with ⟨e, he⟩ | ⟨l, hl, _, h2, h3, h4, h5⟩
  · left; exact ⟨e, he⟩
  · right
    refine ⟨l, hl, h2, h3, h4, h5, ?_⟩
    have := rclLoop_cnt d hb T hT (d.length + 1) _ l hi (by simp [Cur.init]) hl
    simpa [Cur.init] using this

theorem pinv_new (f x y : List Nat) (hb : Bytes f) (hl : f.length ≤ MAXU) : PInv (PiSt.new f x y) := by
  simp [PInv, PiSt.new, Cur.init, hb, hl]

theorem bytes_take {d : List Nat} (hb : Bytes d) (n : Nat) : Bytes (d.take n) :=
  fun b h => hb b (List.mem_of_mem_take h)

theorem pointsImpl_facts (ends gd : List Nat) (hb : Bytes gd) (he : U16s ends) :
    pointsImpl ends gd = .none ∨
    ∃ l last, ends.getLast? = some last ∧ resolveCoordsLen gd (last + 1) = .ok l ∧
      l.flags + l.x + l.y ≤ gd.length ∧
      pointsImpl ends gd = .some (PiSt.new (gd.take l.flags) ((gd.drop l.flags).take l.x) ((gd.drop l.flags).drop l.x)) ∧
      cnt (gd.take l.flags) = last + 1 := by
  unfold pointsImpl
  cases hlast : ends.getLast? with
  | none => left; rfl
  | some last =>
    dsimp only
    by_cases hov : last + 1 > U16_MAX
    · left; simp [hov]
    · simp only [hov, if_false]
      have hT : last + 1 ≤ 65535 := by simp [U16_MAX] at hov; omega
      rcases resolveCoordsLen_facts gd hb (last + 1) hT with ⟨e, he⟩ | ⟨l, hl, h1, h2, h3, h4, h5⟩
      · left; simp [he]
      · simp only [hl]
        have ha1 : addU32 l.flags l.x = some (l.flags + l.x) := addU32_eq (by omega)
        have ha2 : addU32 (l.flags + l.x) l.y = some (l.flags + l.x + l.y) := addU32_eq (by omega)
        simp only [ha1, ha2]
        by_cases hlen : gd.length < l.flags + l.x + l.y
        · left; simp [hlen]
        · right
          simp only [hlen, if_false]
          have hf : ¬ l.flags > gd.length := by omega
          have hx : ¬ l.x > (gd.drop l.flags).length := by simp; omega
          simp only [hf, hx, if_false]
          exact ⟨l, last, rfl, hl, by omega, rfl, h5⟩

theorem numPoints_some (ends : List Nat) (he : U16s ends) :
    ∃ n, numPoints ends = some n ∧ n ≤ 65536 ∧ (ends.getLast? = none → n = 0) ∧
      (∀ last, ends.getLast? = some last → n = last + 1) := by
  unfold numPoints
  cases h : ends.getLast? with
  | none => exact ⟨0, rfl, by omega, fun _ => rfl, fun _ h' => by cases h'⟩
  | some last =>
    have hl : last < 65536 := he last (List.mem_of_getLast? h)
    refine ⟨last + 1, ?_, by omega, fun h' => (by cases h'), fun l h' => (by injection h' with h'; omega)⟩
    exact addUsize_eq (by unfold MAXU; omega)

/-! ## `read_points_fast` -/

theorem fastFlags_facts (n : Nat) (hn : n ≤ MAXU) :
    ∀ (k : Nat) (l : List Nat) (rfb i : Nat) (buf : List Nat), l.length ≤ k → Bytes l → buf.length = n →
      (i < n ∨ l = []) → rfb + l.length ≤ MAXU →
      (fastFlags n l rfb i buf = .err .oob) ∨
      (∃ rfb' buf', fastFlags n l rfb i buf = .ok (rfb', buf') ∧ buf'.length = n ∧ rfb' ≤ rfb + l.length) := by
  intro k
  induction k with
  | zero =>
    intro l rfb i buf hk _ hb _ _
    have : l = [] := List.eq_nil_of_length_eq_zero (by omega)
    subst this
    unfold fastFlags
    by_cases hin : i = n
    · right; exact ⟨rfb, buf, by simp [hin], hb, by simp⟩
    · left; simp [hin]
  | succ k ih =>
    intro l rfb i buf hk hby hb hi hr
    cases l with
    | nil =>
      unfold fastFlags
      by_cases hin : i = n
      · right; exact ⟨rfb, buf, by simp [hin], hb, by simp⟩
      · left; simp [hin]
    | cons f rest =>
      have hin : i < n := by rcases hi with h | h; exact h; cases h
      simp only [List.length_cons] at hk hr
      have hbr : Bytes rest := fun b h => hby b (List.mem_cons_of_mem _ h)
      unfold fastFlags
      rw [addUsize_eq (by omega)]
      dsimp only
      by_cases hrep : hasBit f REPEAT = true
      · simp only [hrep, if_true]
        cases rest with
        | nil => left; rfl
        | cons r rest' =>
          have hr256 : r < 256 := hby r (by simp)
          simp only [List.length_cons] at hk hr
          have hbr' : Bytes rest' := fun b h => hbr b (List.mem_cons_of_mem _ h)
          dsimp only
          rw [addUsize_eq (a := r) (b := 1) (by unfold MAXU; omega), subU_eq (a := n) (b := i) (by omega)]
          dsimp only
          have hcnt : min (r + 1) (n - i) ≤ n - i := Nat.min_le_right _ _
          rw [addUsize_eq (a := rfb + 1) (b := 1) (by omega), addUsize_eq (a := i) (b := min (r + 1) (n - i)) (by omega)]
          dsimp only
          have hcnt : min (r + 1) (n - i) ≤ n - i := Nat.min_le_right _ _
          have hcnt1 : 1 ≤ min (r + 1) (n - i) := by omega
          have he : ¬ (i + min (r + 1) (n - i) > buf.length) := by omega
          simp only [he, if_false]
          have hlen' : (List.take i buf ++ List.replicate (min (r + 1) (n - i)) f ++ List.drop (i + min (r + 1) (n - i)) buf).length = n := by
            simp; omega
          by_cases hend : i + min (r + 1) (n - i) = n
          · right
            rw [hend] at hlen'
            simp only [hend, if_true]
            exact ⟨_, _, rfl, hlen', by simp only [List.length_cons]; omega⟩
          · simp only [hend, if_false]
            rcases ih rest' (rfb + 1 + 1) (i + min (r + 1) (n - i)) _ (by omega) hbr' hlen' (Or.inl (by omega)) (by omega) with h | ⟨a, b, h1, h2, h3⟩
            · left; exact h
            · right; exact ⟨a, b, h1, h2, by simp only [List.length_cons]; omega⟩
      · simp only [hrep, Bool.false_eq_true, if_false]
        have hib : i < buf.length := by omega
        simp only [hib, if_true]
        rw [addUsize_eq (by omega)]
        dsimp only
        by_cases hend : i + 1 = n
        · right
          simp only [hend, if_true]
          exact ⟨_, _, rfl, by simp [hb], by simp only [List.length_cons]; omega⟩
        · simp only [hend, if_false]
          rcases ih rest (rfb + 1) (i + 1) (buf.set i f) (by omega) hbr (by simp [hb]) (Or.inl (by omega)) (by omega) with h | ⟨a, b, h1, h2, h3⟩
          · left; exact h
          · right; exact ⟨a, b, h1, h2, by simp only [List.length_cons]; omega⟩

theorem fastCoords_facts (short same : Nat) (d : List Nat) :
    ∀ (fs : List Nat) (c : Cur) (acc : Int),
      (fastCoords short same d fs c acc = .err .oob) ∨
      (∃ l c', fastCoords short same d fs c acc = .ok (l, c') ∧ l.length = fs.length) := by
  intro fs
  induction fs with
  | nil => intro c acc; right; exact ⟨[], c, rfl, rfl⟩
  | cons f fs ih =>
    intro c acc
    unfold fastCoords
    cases hd : fastDelta (hasBit f short) (hasBit f same) d c with
    | none => left; rfl
    | some p =>
      obtain ⟨dl, c1⟩ := p
      dsimp only
      rcases ih c1 (wrapI32 (acc + dl)) with h | ⟨l, c', h1, h2⟩
      · left; rw [h]
      · right; rw [h1]; exact ⟨_, _, rfl, by simp [h2]⟩

theorem readArray_u8 (d : List Nat) (hl : d.length ≤ MAXU) (c : Cur) (k : Nat) (hk : c.pos + k ≤ d.length) :
    (c.readArray d k 1).1 = .ok k := by
  unfold Cur.readArray checkedMul checkedAdd
  have h1 : k ≤ MAXU := by omega
  have h2 : c.pos + k ≤ MAXU := by omega
  have h3 : c.pos ≤ c.pos + k ∧ c.pos + k ≤ d.length := ⟨by omega, hk⟩
  simp [h1, h2, HandRead.readArray, getRange, h3, Nat.mod_one]

theorem readPointsFast_facts (ends gd : List Nat) (he : U16s ends) (hb : Bytes gd) (hl : gd.length ≤ MAXU)
    (pl : Nat) (flags0 : List Nat) (mask : Nat) :
    readPointsFast ends gd pl flags0 mask = .err .invalidArrayLen ∨
    readPointsFast ends gd pl flags0 mask = .err .oob ∨
    ∃ pts, readPointsFast ends gd pl flags0 mask = .ok pts ∧ numPoints ends = some pts.length ∧
      pl = pts.length ∧ flags0.length = pts.length := by
  obtain ⟨n, hn, hn65, _, _⟩ := numPoints_some ends he
  have hsat : min (2 * n) MAXU = 2 * n := by unfold MAXU; omega
  unfold readPointsFast
  simp only [hn, hsat]
  by_cases hlen : pl ≠ n ∨ flags0.length ≠ n
  · left; simp [hlen]
  · simp only [hlen, if_false]
    have hpl : pl = n := by omega
    have hfl : flags0.length = n := by omega
    have hk : (Cur.init.readArray gd (min (2 * n) (Cur.init.remainingBytes gd)) 1).1
        = .ok (min (2 * n) gd.length) := by
      have : Cur.init.remainingBytes gd = gd.length := by simp [Cur.remainingBytes, Cur.init]
      rw [this]
      exact readArray_u8 gd hl Cur.init _ (by simp [Cur.init]; exact Nat.min_le_right _ _)
    rw [hk]
    dsimp only
    have hn' : n ≤ MAXU := by unfold MAXU; omega
    have hkl : (gd.take (min (2 * n) gd.length)).length = min (2 * n) gd.length := by simp
    rcases fastFlags_facts n hn' _ (gd.take (min (2 * n) gd.length)) 0 0 flags0 (Nat.le_refl _) (bytes_take hb _) hfl
        (by by_cases h0 : n = 0
            · right; simp [h0]
            · left; omega)
        (by rw [hkl]; have := Nat.min_le_right (min (2 * n) MAXU) gd.length; omega) with h | ⟨rfb, buf, h1, h2, _⟩
    · right; left; simp [h]
    · simp only [h1]
      rcases fastCoords_facts X_SHORT X_SAME gd buf (Cur.init.advanceBy rfb) 0 with h | ⟨xs, c1, hx1, hx2⟩
      · right; left; simp [h]
      · simp only [hx1]
        rcases fastCoords_facts Y_SHORT Y_SAME gd buf c1 0 with h | ⟨ys, c2, hy1, hy2⟩
        · right; left; simp [h]
        · right; right
          simp only [hy1]
          refine ⟨_, rfl, ?_, ?_, ?_⟩
          · simp [hx2, hy2, h2]
          · simp [hx2, hy2, h2, hpl]
          · simp [hx2, hy2, h2, hfl]

/-! ## composite glyphs -/

theorem readSeq_some (d : List Nat) : ∀ (sizes : List Nat) (c c' : Cur) (vals : List Nat),
    c.pos ≤ d.length → readSeq d sizes c = (some vals, c') →
      c'.pos = c.pos + sizes.sum ∧ c'.pos ≤ d.length ∧ vals.length = sizes.length := by
  intro sizes
  induction sizes with
  | nil =>
    intro c c' vals hc h
    simp only [readSeq, Prod.mk.injEq, Option.some.injEq] at h
    obtain ⟨h1, h2⟩ := h
    subst h1 h2
    simp [hc]
  | cons sz rest ih =>
    intro c c' vals hc0 h
    unfold readSeq at h
    cases h1 : c.read d sz with
    | mk o c1 =>
      rw [h1] at h
      cases o with
      | none => simp at h
      | some v =>
        dsimp only at h
        have r1 := read_some h1
        cases h2 : readSeq d rest c1 with
        | mk o2 c2 =>
          rw [h2] at h
          cases o2 with
          | none => simp at h
          | some vs =>
            simp only [Prod.mk.injEq, Option.some.injEq] at h
            obtain ⟨hv, hc⟩ := h
            subst hv hc
            have := ih c1 c2 vs (by omega) h2
            simp only [List.sum_cons, List.length_cons]
            omega


theorem argSizes_sum (flags : Nat) : 2 ≤ (argSizes flags).sum ∧ (argSizes flags).length = 2 := by
  unfold argSizes; split <;> simp

/-- one call of `ComponentIter::next`: never a trap; a yielded component consumed at least six bytes,
all of them inside the data -/
theorem compStep_facts (d : List Nat) (s : CSt) :
    (compStep d s).1 ≠ .trap ∧ (compStep d s).1 ≠ .cont ∧
    (∀ a, (compStep d s).1 = .yield a →
      s.c.pos + 6 ≤ (compStep d s).2.c.pos ∧ (compStep d s).2.c.pos ≤ d.length ∧ s.done = false) := by
  unfold compStep
  by_cases hd : s.done = true
  · simp [hd]
  · simp only [hd, Bool.false_eq_true, if_false]
    cases h1 : s.c.read d 2 with
    | mk o c1 =>
      cases o with
      | none => simp
      | some raw =>
        have r1 := read_some h1
        dsimp only
        cases h2 : c1.read d 2 with
        | mk o2 c2 =>
          cases o2 with
          | none => simp
          | some gid =>
            have r2 := read_some h2
            dsimp only
            cases h3 : readSeq d (argSizes (raw &&& COMPOSITE_ALL) ++ transformSizes (raw &&& COMPOSITE_ALL)) c2 with
            | mk o3 c3 =>
              cases o3 with
              | none => simp
              | some vals =>
                have r3 := readSeq_some d _ c2 c3 vals (by omega) h3
                have ha := argSizes_sum (raw &&& COMPOSITE_ALL)
                simp only [List.sum_append] at r3
                refine ⟨by simp, by simp, ?_⟩
                intro a _
                dsimp only
                refine ⟨by omega, r3.2.1, by simp [hd]⟩

theorem satAdd_satAdd (a b c : Nat) : satAdd (satAdd a b) c = satAdd a (b + c) := by
  unfold satAdd
  by_cases h1 : a + b ≤ MAXU
  · simp only [h1, if_true]
    by_cases h2 : a + b + c ≤ MAXU
    · have : a + (b + c) ≤ MAXU := by omega
      simp [h2, this, Nat.add_assoc]
    · have : ¬ a + (b + c) ≤ MAXU := by omega
      simp [h2, this]
  · have h2 : ¬ a + (b + c) ≤ MAXU := by omega
    have h3 : ¬ MAXU + c ≤ MAXU ∨ c = 0 := by omega
    simp only [h1, h2, if_false]
    split <;> omega

/-- the two `advance_by` of `ComponentGlyphIdFlagsIter::next` are one saturating skip of 2..12 bytes -/
theorem gf_skip (c2 : Cur) (flags : Nat) :
    ∃ k, 2 ≤ k ∧ k ≤ 12 ∧
      (if hasBit flags HAVE_SCALE then (c2.advanceBy (if hasBit flags ARG_WORDS then 4 else 2)).advanceBy 2
       else if hasBit flags HAVE_XY_SCALE then (c2.advanceBy (if hasBit flags ARG_WORDS then 4 else 2)).advanceBy 4
       else if hasBit flags HAVE_2X2 then (c2.advanceBy (if hasBit flags ARG_WORDS then 4 else 2)).advanceBy 8
       else c2.advanceBy (if hasBit flags ARG_WORDS then 4 else 2)).pos = satAdd c2.pos k := by
  simp only [Cur.advanceBy]
  by_cases hw : hasBit flags ARG_WORDS = true <;> by_cases h1 : hasBit flags HAVE_SCALE = true <;>
    by_cases h2 : hasBit flags HAVE_XY_SCALE = true <;> by_cases h3 : hasBit flags HAVE_2X2 = true <;>
    simp only [hw, h1, h2, h3, if_true, if_false, Bool.false_eq_true, satAdd_satAdd] <;>
    exact ⟨_, by omega, by omega, rfl⟩

/-- one call of `ComponentGlyphIdFlagsIter::next`: never a trap; a yielded item had its four header
bytes inside the data and moved the cursor by at least six bytes (or to / past the end) -/
theorem gfStep_facts (d : List Nat) (hl : d.length ≤ MAXU) (s : CSt) (hp : s.c.pos ≤ MAXU) :
    (gfStep d s).1 ≠ .trap ∧ (gfStep d s).1 ≠ .cont ∧ (gfStep d s).2.c.pos ≤ MAXU ∧
    s.c.pos ≤ (gfStep d s).2.c.pos ∧
    (∀ a, (gfStep d s).1 = .yield a → s.c.pos + 4 ≤ d.length ∧
      (s.c.pos + 6 ≤ (gfStep d s).2.c.pos ∨ d.length ≤ (gfStep d s).2.c.pos)) := by
  unfold gfStep
  by_cases hd : s.done = true
  · simp [hd, hp]
  · simp only [hd, Bool.false_eq_true, if_false]
    have m1 := read_mono d s.c 2 hp
    cases h1 : s.c.read d 2 with
    | mk o c1 =>
      rw [h1] at m1
      dsimp only at m1
      cases o with
      | none => simp [m1]
      | some raw =>
        have r1 := read_some h1
        dsimp only
        have m2 := read_mono d c1 2 m1.2
        cases h2 : c1.read d 2 with
        | mk o2 c2 =>
          rw [h2] at m2
          dsimp only at m2
          cases o2 with
          | none => simp [m2]; omega
          | some gid =>
            have r2 := read_some h2
            dsimp only
            obtain ⟨k, hk1, hk2, hk⟩ := gf_skip c2 (raw &&& COMPOSITE_ALL)
            rw [hk]
            have g1 := satAdd_le c2.pos k m2.2
            have g2 := satAdd_ge c2.pos k m2.2
            refine ⟨by simp, by simp, g1, by omega, ?_⟩
            intro a _
            refine ⟨by omega, ?_⟩
            unfold satAdd
            split <;> omega


/-- the component-counting loop and the light iterator run in lock step: enough fuel, no trap, the
count is the number of items, at most `(len + 2) / 6` -/
theorem gf_run (d : List Nat) (hl : d.length ≤ MAXU) :
    ∀ (fuel : Nat) (s : CSt) (count : Nat), s.c.pos ≤ MAXU → d.length - s.c.pos < fuel →
      count + (d.length - s.c.pos + 2) / 6 ≤ (d.length + 2) / 6 →
      ∃ evs c' s', run (gfStep d) fuel s = some evs ∧ countLoop d fuel s count = .ok (c', s') ∧
        c' = count + (items evs).length ∧ c' ≤ (d.length + 2) / 6 ∧ trapped evs = false ∧
        evs.length = (items evs).length := by
  intro fuel
  induction fuel with
  | zero => intro s _ _ h; omega
  | succ fuel ih =>
    intro s count hp hf hc
    have hs := gfStep_facts d hl s hp
    unfold run countLoop
    cases hst : gfStep d s with
    | mk o s' =>
      rw [hst] at hs
      dsimp only at hs
      cases o with
      | trap => exact absurd rfl hs.1
      | cont => exact absurd rfl hs.2.1
      | done => exact ⟨[], count, s', rfl, rfl, by simp [items], by omega, rfl, rfl⟩
      | «yield» a =>
        obtain ⟨_, _, hp', hmono, hy⟩ := hs
        obtain ⟨h4, h6⟩ := hy a rfl
        dsimp only
        have hlim : (d.length + 2) / 6 ≤ MAXU := by omega
        have h1 : 1 ≤ (d.length - s.c.pos + 2) / 6 := by omega
        have h2 : (d.length - s'.c.pos + 2) / 6 + 1 ≤ (d.length - s.c.pos + 2) / 6 := by omega
        rw [addUsize_eq (by omega)]
        dsimp only
        obtain ⟨evs, c', s'', he, hcl, hc', hle, ht, hlen⟩ := ih s' (count + 1) hp' (by omega) (by omega)
        refine ⟨.yield a :: evs, c', s'', by simp [he], hcl, ?_, hle, by simpa [trapped] using ht, by simp [items, hlen]⟩
        simp only [items, List.length_cons]; omega

theorem readArray_u8_ok {d : List Nat} {c : Cur} {n k : Nat} (h : (c.readArray d n 1).1 = .ok k) :
    k = n ∧ c.pos + n ≤ d.length := by
  unfold Cur.readArray checkedMul checkedAdd at h
  simp only [Nat.mul_one] at h
  by_cases h1 : n ≤ MAXU
  · simp only [h1, if_true] at h
    by_cases h2 : c.pos + n ≤ MAXU
    · simp only [h2, if_true] at h
      unfold HandRead.readArray getRange at h
      by_cases h3 : c.pos ≤ c.pos + n ∧ c.pos + n ≤ d.length
      · simp [h3, Nat.mod_one] at h
        omega
      · have h4 : ¬ c.pos + n ≤ d.length := by omega
        simp [h4] at h
    · simp [h2] at h
  · simp [h1] at h

/-- `count_and_instructions`: never a panic; the count is the number of items of
`component_glyphs_and_flags()`, at most `(len + 2) / 6`; an instruction slice lies inside the data -/
theorem countAndInstructions_facts (d : List Nat) (hl : d.length ≤ MAXU) :
    ∃ evs count instr, glyphsAndFlags d = some evs ∧ countAndInstructions d = .ok (count, instr) ∧
      count = (items evs).length ∧ count ≤ (d.length + 2) / 6 ∧ trapped evs = false ∧
      evs.length = (items evs).length ∧
      (∀ a k, instr = some (a, k) → a + k ≤ d.length) := by
  obtain ⟨evs, c', s', he, hcl, hc', hle, ht, hlen⟩ :=
    gf_run d hl (d.length + 1) CSt.init 0 (by simp [CSt.init, Cur.init])
      (by simp [CSt.init, Cur.init]) (by simp [CSt.init, Cur.init])
  unfold glyphsAndFlags countAndInstructions
  rw [hcl]
  dsimp only
  by_cases hi : hasBit s'.curFlags HAVE_INSTR = true
  · simp only [hi, if_true]
    cases h1 : s'.c.read d 2 with
    | mk o c1 =>
      cases o with
      | none => exact ⟨evs, c', none, he, rfl, by omega, hle, ht, hlen, fun a k h => by cases h⟩
      | some len =>
        have r1 := read_some h1
        dsimp only
        cases h2 : (c1.readArray d len 1).1 with
        | error e => exact ⟨evs, c', none, he, rfl, by omega, hle, ht, hlen, fun a k h => by cases h⟩
        | ok k =>
          have r2 := readArray_u8_ok h2
          refine ⟨evs, c', some (c1.pos, k), he, rfl, by omega, hle, ht, hlen, ?_⟩
          intro a k' h
          injection h with h
          injection h with ha hk
          subst ha hk
          omega
  · simp only [hi, Bool.false_eq_true, if_false]
    exact ⟨evs, c', none, he, rfl, by omega, hle, ht, hlen, fun a k h => by cases h⟩


/-- `components()`: terminates, at most one component per six bytes, never a trap -/
theorem components_facts (d : List Nat) :
    ∃ evs, components d = some evs ∧ evs.length ≤ d.length ∧ (items evs).length ≤ d.length / 6 ∧
      trapped evs = false := by
  have hf := compStep_facts d
  obtain ⟨evs, he, hl⟩ := run_complete (compStep d) (fun s => d.length - s.c.pos) (fun _ => True)
    (fun _ _ => trivial)
    (by
      intro s _ hnd
      have h := hf s
      cases hst : compStep d s with
      | mk o s' =>
        rw [hst] at h hnd
        dsimp only at h hnd ⊢
        cases o with
        | done => exact absurd rfl hnd
        | trap => exact absurd rfl h.1
        | cont => exact absurd rfl h.2.1
        | «yield» a => have := h.2.2 a rfl; omega)
    (d.length + 1) CSt.init trivial (by simp [CSt.init, Cur.init])
  refine ⟨evs, he, by simpa [CSt.init, Cur.init] using hl, ?_, ?_⟩
  · have := yields_le (compStep d) (fun s => (d.length - s.c.pos) / 6) (fun _ => True) (fun _ _ => trivial)
      (by
        intro s a _ hy
        have h := (hf s).2.2 a hy
        omega)
      (by
        intro s _ hc
        exact absurd hc (hf s).2.1)
      (d.length + 1) CSt.init evs trivial he
    simpa [CSt.init, Cur.init] using this
  · exact not_trapped (compStep d) (fun _ => True) (fun _ _ => trivial) (fun s _ => (hf s).1) _ _ _ trivial he

/-! ## loca -/

/-- the entries of a short loca are u16 values -/
def LocaWf (l : Loca) : Prop := l.long = false → ∀ v ∈ l.entries, v < 65536

theorem locaRead_facts (d : List Nat) (hb : Bytes d) (isLong : Bool) :
    (∃ l, locaRead d isLong = .ok l ∧ l.long = isLong ∧
      l.entries.length * (if isLong then 4 else 2) = d.length ∧ LocaWf l) ∨
    (locaRead d isLong = .error .invalidArrayLen ∧ d.length % (if isLong then 4 else 2) ≠ 0) := by
  unfold locaRead HandRead.readArray getRange
  simp only [Nat.zero_le, Nat.le_refl, and_self, if_true, Nat.sub_zero]
  have hw : (if isLong = true then 4 else 2) ≠ 0 := by split <;> omega
  simp only [hw, if_false]
  by_cases hm : d.length % (if isLong = true then 4 else 2) ≠ 0
  · right; simp [hm]
  · left
    simp only [hm, if_false]
    refine ⟨_, rfl, rfl, ?_, ?_⟩
    · simp only [List.length_map, List.length_range]
      have : d.length % (if isLong = true then 4 else 2) = 0 := by simpa using hm
      exact Nat.div_mul_cancel (Nat.dvd_of_mod_eq_zero this)
    · intro hl v hv
      dsimp only at hl
      subst hl
      simp only [List.mem_map, List.mem_range] at hv
      obtain ⟨i, _, rfl⟩ := hv
      exact (beAt_lt d hb _).2

theorem getRaw_facts (l : Loca) (hw : LocaWf l) (idx : Nat) :
    (idx < l.entries.length → ∃ v, l.getRaw idx = .ok (some v) ∧ (l.long = false → v < 131072)) ∧
    (l.entries.length ≤ idx → l.getRaw idx = .ok none) := by
  unfold Loca.getRaw
  constructor
  · intro h
    have he : l.entries[idx]? = some l.entries[idx] := List.getElem?_eq_getElem h
    rw [he]
    dsimp only
    by_cases hl : l.long = true
    · simp [hl]
    · have hl' : l.long = false := by simpa using hl
      have hv := hw hl' l.entries[idx] (List.getElem_mem h)
      simp only [hl', Bool.false_eq_true, if_false]
      rw [mulU32_eq (by omega)]
      exact ⟨_, rfl, fun _ => by omega⟩
  · intro h
    rw [List.getElem?_eq_none h]

/-- `get_glyf` for a glyph id (a u32): never a panic, the only error is `OutOfBounds`, and a slice
handed to `Glyph::read` is a non-empty range inside the glyf table -/
theorem getGlyf_facts (l : Loca) (hw : LocaWf l) (glyfLen gid : Nat) (hg : gid ≤ 4294967295) :
    l.getGlyf glyfLen gid ≠ .trap ∧ (∀ e, l.getGlyf glyfLen gid = .err e → e = .oob) ∧
    (∀ a b, l.getGlyf glyfLen gid = .slice a b → a < b ∧ b ≤ glyfLen ∧ gid + 1 < l.entries.length) ∧
    (l.getGlyf glyfLen gid = .none → gid + 1 < l.entries.length) := by
  have g0 := getRaw_facts l hw gid
  have g1 := getRaw_facts l hw (gid + 1)
  unfold Loca.getGlyf
  by_cases h0 : gid < l.entries.length
  · obtain ⟨start, hs, _⟩ := g0.1 h0
    rw [hs]
    dsimp only
    rw [addUsize_eq (by unfold MAXU; omega)]
    dsimp only
    by_cases h1 : gid + 1 < l.entries.length
    · obtain ⟨end_, he, _⟩ := g1.1 h1
      rw [he]
      dsimp only
      by_cases heq : start = end_
      · simp [heq, h1]
      · simp only [heq, if_false]
        unfold getRange
        by_cases hr : start ≤ end_ ∧ end_ ≤ glyfLen
        · simp only [hr, and_self, if_true]
          refine ⟨by simp, by simp, ?_, by simp⟩
          intro a b h
          injection h with ha hb
          subst ha hb
          exact ⟨by omega, hr.2, h1⟩
        · simp [hr]
    · rw [g1.2 (by omega)]
      simp
  · rw [g0.2 (by omega)]
    simp

end FontVerif.C01HandGlyf
