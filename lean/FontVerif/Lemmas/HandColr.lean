/-
Helper lemmas for Props/C01HandColr.lean (Model/HandColr.lean): the transcribed
`binary_search_by` returns an in-range index for EVERY comparison function (no sortedness), big-endian
scalars of `n` bytes are below `256^n`, and the step algebra of the COLR v1 closure
(`Step`: what one `dispatch` call may change of the closure context).
-/
import FontVerif.Model.HandColr
set_option linter.unusedVariables false
set_option linter.unusedSimpArgs false
namespace FontVerif.HandColr
open FontVerif FontVerif.ReadIter FontVerif.HandRead FontVerif.Layout

/-! ## binary search without sortedness -/

theorem bsLoop_range (cmpAt : Nat → Ordering) :
    ∀ size base, 1 ≤ size → base ≤ bsLoop cmpAt size base ∧ bsLoop cmpAt size base < base + size := by
  intro size
  induction size using Nat.strongRecOn with
  | _ size ih =>
    intro base h1
    unfold bsLoop
    by_cases hs : size > 1
    · simp only [hs, ↓reduceDIte]
      have hlt : size - size / 2 < size := by omega
      have h1' : 1 ≤ size - size / 2 := by omega
      split
      · have := ih (size - size / 2) hlt base h1'
        omega
      · have := ih (size - size / 2) hlt (base + size / 2) h1'
        omega
    · simp only [hs, ↓reduceDIte]
      omega

/-- `binary_search_by` answers `Ok(i)` only with `i < len` and `f(&self[i]) == Equal`, whatever the
order of the slice -/
theorem bs_ok_lt {n : Nat} {cmpAt : Nat → Ordering} {i : Nat}
    (h : binarySearchBy n cmpAt = .ok i) : i < n ∧ cmpAt i = .eq := by
  unfold binarySearchBy at h
  by_cases hn : n = 0
  · simp [hn] at h
  · simp only [hn, ↓reduceIte] at h
    have hr := bsLoop_range cmpAt n 0 (by omega)
    generalize bsLoop cmpAt n 0 = b at h hr
    cases hc : cmpAt b <;> simp [hc] at h
    subst h
    exact ⟨by omega, hc⟩

/-- `Err(i)` is an insertion point `≤ len` -/
theorem bs_err_le {n : Nat} {cmpAt : Nat → Ordering} {i : Nat}
    (h : binarySearchBy n cmpAt = .err i) : i ≤ n := by
  unfold binarySearchBy at h
  by_cases hn : n = 0
  · simp [hn] at h; omega
  · simp only [hn, ↓reduceIte] at h
    have hr := bsLoop_range cmpAt n 0 (by omega)
    generalize bsLoop cmpAt n 0 = b at h hr
    cases hc : cmpAt b <;> simp [hc] at h <;> omega

/-! ## big-endian scalars -/

theorem foldl_be_lt (l : List Nat) (hb : ∀ x ∈ l, x < 256) :
    ∀ acc, l.foldl (fun a b => a * 256 + b) acc < (acc + 1) * 256 ^ l.length := by
  induction l with
  | nil => intro acc; simp
  | cons x xs ih =>
    intro acc
    simp only [List.foldl_cons, List.length_cons]
    have hx : x < 256 := hb x (by simp)
    have := ih (fun y hy => hb y (by simp [hy])) (acc * 256 + x)
    have h2 : (acc * 256 + x + 1) * 256 ^ xs.length ≤ (acc + 1) * 256 ^ (xs.length + 1) := by
      rw [Nat.pow_succ]
      have : acc * 256 + x + 1 ≤ (acc + 1) * 256 := by omega
      calc (acc * 256 + x + 1) * 256 ^ xs.length ≤ ((acc + 1) * 256) * 256 ^ xs.length :=
            Nat.mul_le_mul_right _ this
        _ = (acc + 1) * (256 ^ xs.length * 256) := by
            rw [Nat.mul_assoc, Nat.mul_comm 256]
    omega

/-- an `n`-byte big-endian scalar is below `256^n` -/
theorem be_lt (d : List Nat) (hb : ∀ x ∈ d, x < 256) (p n : Nat) : be d p n < 256 ^ n := by
  unfold be HandRead.beAt beValue
  have hsub : ∀ x ∈ (d.drop p).take n, x < 256 := by
    intro x hx
    exact hb x (List.mem_of_mem_drop (List.mem_of_mem_take hx))
  have h := foldl_be_lt _ hsub 0
  have hl : ((d.drop p).take n).length ≤ n := by simp [List.length_take]; omega
  have : 256 ^ ((d.drop p).take n).length ≤ 256 ^ n := Nat.pow_le_pow_right (by decide) hl
  omega

theorem be2_lt (d : List Nat) (hb : ∀ x ∈ d, x < 256) (p : Nat) : be d p 2 < 65536 := by
  have := be_lt d hb p 2; simpa using this

theorem be1_lt (d : List Nat) (hb : ∀ x ∈ d, x < 256) (p : Nat) : be d p 1 < 256 := by
  have := be_lt d hb p 1; simpa using this

/-! ## records -/

theorem records_length {α : Type} (f : Nat → α) (a n sz : Nat) : (records f a n sz).length = n := by
  simp [records]

theorem mem_records {α : Type} {f : Nat → α} {a n sz : Nat} {x : α} (h : x ∈ records f a n sz) :
    ∃ i, i < n ∧ x = f (a + i * sz) := by
  simp only [records, List.mem_map, List.mem_range] at h
  obtain ⟨i, hi, rfl⟩ := h
  exact ⟨i, hi, rfl⟩

/-! ## the v1 closure: what a `dispatch` call may change -/

/-- the visited set holds no duplicates and only keys of positions that hold a paint -/
def Vis (G : Graph) (c : Ctx) : Prop :=
  c.visited.Nodup ∧ ∀ v ∈ c.visited, ∃ p, (G.node p).isSome = true ∧ v = p % 4294967296

/-- `c'` is reachable from `c` by `k` `dispatch` calls (and any number of set insertions): the failure
flags and the nesting level are unchanged, the visited set only grows, and the number of `dispatch` calls
made is at most `k` plus 255 per newly visited paint. -/
def Step (G : Graph) (c c' : Ctx) (k : Nat) : Prop :=
  c'.starved = c.starved ∧ c'.trap = c.trap ∧ c'.level = c.level ∧
  (∃ ext, c'.visited = ext ++ c.visited) ∧
  c'.calls + 255 * c.visited.length ≤ c.calls + k + 255 * c'.visited.length ∧
  (Vis G c → Vis G c')

/-- the fields `Step` talks about -/
def core (c : Ctx) : List Nat × Nat × Nat × Bool × Bool := (c.visited, c.level, c.calls, c.trap, c.starved)

theorem step_of_core {G : Graph} {c c' : Ctx} (h : core c' = core c) : Step G c c' 0 := by
  simp only [core, Prod.mk.injEq] at h
  obtain ⟨h1, h2, h3, h4, h5⟩ := h
  refine ⟨h5, h4, h2, ⟨[], by simp [h1]⟩, by rw [h1, h3]; omega, ?_⟩
  intro hv; unfold Vis at *; rw [h1]; exact hv

theorem step_refl {G : Graph} (c : Ctx) : Step G c c 0 := step_of_core rfl

theorem step_trans {G : Graph} {a b c : Ctx} {k1 k2 : Nat} (h1 : Step G a b k1) (h2 : Step G b c k2) :
    Step G a c (k1 + k2) := by
  obtain ⟨a1, a2, a3, ⟨e1, a4⟩, a5, a6⟩ := h1
  obtain ⟨b1, b2, b3, ⟨e2, b4⟩, b5, b6⟩ := h2
  refine ⟨by rw [b1, a1], by rw [b2, a2], by rw [b3, a3], ⟨e2 ++ e1, by rw [b4, a4]; simp⟩, by omega,
    fun hv => b6 (a6 hv)⟩

theorem step_mono {G : Graph} {a b : Ctx} {k k' : Nat} (h : Step G a b k) (hk : k ≤ k') : Step G a b k' := by
  obtain ⟨a1, a2, a3, a4, a5, a6⟩ := h
  exact ⟨a1, a2, a3, a4, by omega, a6⟩

theorem core_addVars (c : Ctx) (b n : Nat) : core (c.addVars b n) = core c := by
  unfold Ctx.addVars; split <;> rfl

theorem core_addVarsOpt (c : Ctx) (v : Option (Nat × Nat)) : core (c.addVarsOpt v) = core c := by
  cases v with
  | none => rfl
  | some p => exact core_addVars c p.1 p.2

theorem core_addStop (c : Ctx) (s : Nat × Option Nat) : core (c.addStop s) = core c := by
  unfold Ctx.addStop
  cases s.2 with
  | none => rfl
  | some b => simp only []; rw [core_addVars]; rfl

theorem core_foldl_addStop (ss : List (Nat × Option Nat)) : ∀ c : Ctx, core (ss.foldl Ctx.addStop c) = core c := by
  induction ss with
  | nil => intro c; rfl
  | cons s ss ih => intro c; simp only [List.foldl_cons]; rw [ih, core_addStop]

/-- consecutive `dispatch` calls at one nesting level -/
theorem dispatchAll_step {G : Graph} {rec : Ctx → Nat → Ctx} {L : Nat}
    (hrec : ∀ c p, c.level = L → Step G c (rec c p) 1) :
    ∀ (ps : List Nat) (c : Ctx), c.level = L → Step G c (dispatchAll rec c ps) ps.length := by
  intro ps
  induction ps with
  | nil => intro c _; exact step_refl c
  | cons p ps ih =>
    intro c hl
    simp only [dispatchAll, List.length_cons]
    have h1 := hrec c p hl
    have h2 := ih (rec c p) (by rw [h1.2.2.1]; exact hl)
    exact step_mono (step_trans h1 h2) (by omega)

/-- `if let Ok(paint) = … { c.dispatch(&paint) }` -/
def optRec (rec : Ctx → Nat → Ctx) (c : Ctx) : Option Nat → Ctx
  | none => c
  | some p => rec c p

theorem layerIndices_length (first last : Nat) : (layerIndices first last).length = last + 1 - first := by
  simp [layerIndices]

/-- one `Paint::v1_closure`: at most 255 `dispatch` calls one level down -/
theorem body_step {G : Graph} {rec : Ctx → Nat → Ctx} {L : Nat}
    (hrec : ∀ c p, c.level = L → Step G c (rec c p) 1) (c : Ctx) (hl : c.level = L) (n : PNode)
    (hnum : ∀ num first, n = .layers num first → num ≤ 255) :
    Step G c (body G rec c n) 255 := by
  cases n with
  | layers num first =>
    simp only [body]
    split
    · exact step_mono (step_refl c) (by omega)
    · rename_i hz
      split
      · exact step_mono (step_refl c) (by omega)
      · rename_i ll hll
        have hn := hnum num first rfl
        have h0 : Step G c { c with layers := (first, min (first + (num - 1)) U32MAX) :: c.layers } 0 :=
          step_of_core rfl
        have h1 := dispatchAll_step hrec
          ((layerIndices first (min (first + (num - 1)) U32MAX)).filterMap (fun i => (ll[i]?).join))
          { c with layers := (first, min (first + (num - 1)) U32MAX) :: c.layers } hl
        have hlen : ((layerIndices first (min (first + (num - 1)) U32MAX)).filterMap (fun i => (ll[i]?).join)).length ≤ 255 := by
          refine Nat.le_trans (List.length_filterMap_le _ _) ?_
          rw [layerIndices_length]
          have : min (first + (num - 1)) U32MAX ≤ first + (num - 1) := Nat.min_le_left _ _
          omega
        exact step_mono (step_trans h0 h1) (by omega)
  | solid pal var =>
    simp only [body]
    cases var with
    | none => exact step_mono (step_of_core rfl) (by omega)
    | some b => exact step_mono (step_of_core (by rw [core_addVars]; rfl)) (by omega)
  | gradient stops var =>
    simp only [body]
    refine step_mono (step_of_core ?_) (by omega)
    rw [core_addVarsOpt]
    cases stops with
    | none => rfl
    | some ss => exact core_foldl_addStop ss c
  | glyph gid child =>
    simp only [body]
    cases child with
    | none => exact step_mono (step_of_core rfl) (by omega)
    | some p =>
      have h0 : Step G c { c with glyphs := gid :: c.glyphs } 0 := step_of_core rfl
      exact step_mono (step_trans h0 (hrec _ p hl)) (by omega)
  | colrGlyph gid =>
    simp only [body]
    split
    · exact step_mono (step_refl c) (by omega)
    · rename_i recs hrecs
      split
      · exact step_mono (step_refl c) (by omega)
      · rename_i ix hix
        have hlt := (bs_ok_lt hix).1
        split
        · rename_i hnone
          rw [List.getElem?_eq_none_iff] at hnone
          omega
        · exact step_mono (step_refl c) (by omega)
        · rename_i g p hsome
          have h0 : Step G c { c with glyphs := gid :: c.glyphs } 0 := step_of_core rfl
          exact step_mono (step_trans h0 (hrec _ p hl)) (by omega)
  | unary child var =>
    simp only [body]
    cases child with
    | none => exact step_mono (step_refl c) (by omega)
    | some p =>
      have h1 := hrec c p hl
      have h2 : Step G (rec c p) ((rec c p).addVarsOpt var) 0 := step_of_core (core_addVarsOpt _ _)
      exact step_mono (step_trans h1 h2) (by omega)
  | composite src backdrop =>
    clear hnum
    have e : body G rec c (.composite src backdrop) = optRec rec (optRec rec c src) backdrop := by
      cases src <;> cases backdrop <;> rfl
    rw [e]
    have h1 : Step G c (optRec rec c src) 1 := by
      cases src with
      | none => exact step_mono (step_refl c) (by omega)
      | some p => exact hrec c p hl
    generalize optRec rec c src = c1 at h1
    cases backdrop with
    | none => exact step_mono h1 (by omega)
    | some p =>
      have h2 : Step G c1 (rec c1 p) 1 := hrec c1 p (by rw [h1.2.2.1]; exact hl)
      exact step_mono (step_trans h1 h2) (by omega)

/-- `dispatch` with fuel above the nesting level: one call, never starved, no `u8` trap -/
theorem dispatch_step {G : Graph}
    (hnum : ∀ p num first, G.node p = some (.layers num first) → num ≤ 255) :
    ∀ (fuel : Nat) (c : Ctx) (p : Nat), c.level ≤ fuel → c.level ≤ 255 →
      Step G c (dispatch G (fuel + 1) c p) 1 := by
  intro fuel
  induction fuel with
  | zero =>
    intro c p hl _
    have hz : c.level = 0 := by omega
    have hcall : Step G c { c with calls := c.calls + 1 } 1 :=
      ⟨rfl, rfl, rfl, ⟨[], rfl⟩, by simp <;> omega, fun h => h⟩
    rw [dispatch]
    simp only []
    split
    · exact hcall
    · rw [if_pos hz]; exact hcall
  | succ f ih =>
    intro c p hl h255
    have hcall : Step G c { c with calls := c.calls + 1 } 1 :=
      ⟨rfl, rfl, rfl, ⟨[], rfl⟩, by simp <;> omega, fun h => h⟩
    rw [dispatch]
    simp only []
    split
    · exact hcall
    · rename_i n hn
      by_cases hz : c.level = 0
      · rw [if_pos hz]; exact hcall
      · rw [if_neg hz]
        by_cases hv : c.visited.contains (p % 4294967296) = true
        · rw [if_pos hv]; exact hcall
        · rw [if_neg hv]
          -- the context the body starts from
          let c2 : Ctx := { c with calls := c.calls + 1, visited := p % 4294967296 :: c.visited, level := c.level - 1 }
          have hrec : ∀ (c' : Ctx) (q : Nat), c'.level = c.level - 1 → Step G c' (dispatch G (f + 1) c' q) 1 := by
            intro c' q hl'
            exact ih c' q (by omega) (by omega)
          have hb := body_step hrec c2 rfl n (fun num first hnf => hnum p num first (by rw [hn, hnf]))
          obtain ⟨b1, b2, b3, ⟨ext, b4⟩, b5, b6⟩ := hb
          have hlev : (body G (dispatch G (f + 1)) c2 n).level + 1 = c.level := by
            rw [b3]; show c.level - 1 + 1 = c.level; omega
          have hnot : ¬ ((body G (dispatch G (f + 1)) c2 n).level + 1 > 255) := by omega
          show Step G c (if (body G (dispatch G (f + 1)) c2 n).level + 1 > 255 then _ else _) 1
          rw [if_neg hnot]
          refine ⟨b1, b2, hlev, ⟨ext ++ [p % 4294967296], ?_⟩, ?_, ?_⟩
          · show (body G (dispatch G (f + 1)) c2 n).visited = _
            rw [b4]; simp [c2]
          · have h1 : c2.visited.length = c.visited.length + 1 := by simp [c2]
            have hc : c2.calls = c.calls + 1 := rfl
            show (body G (dispatch G (f + 1)) c2 n).calls + 255 * c.visited.length ≤
              c.calls + 1 + 255 * (body G (dispatch G (f + 1)) c2 n).visited.length
            omega
          · intro hvis
            have hv2 : Vis G c2 := by
              obtain ⟨hnd, hprov⟩ := hvis
              refine ⟨?_, ?_⟩
              · show (p % 4294967296 :: c.visited).Nodup
                rw [List.nodup_cons]
                refine ⟨?_, hnd⟩
                intro hmem
                apply hv
                simp [List.contains_iff_mem, hmem]
              · intro v hvm
                have hvm' : v ∈ p % 4294967296 :: c.visited := hvm
                rw [List.mem_cons] at hvm'
                rcases hvm' with rfl | hvm'
                · exact ⟨p, by rw [hn]; rfl, rfl⟩
                · exact hprov v hvm'
            exact b6 hv2

/-- a duplicate-free list of naturals below `n` has at most `n` elements -/
theorem nodup_length_le : ∀ (n : Nat) (l : List Nat), l.Nodup → (∀ x ∈ l, x < n) → l.length ≤ n := by
  intro n
  induction n with
  | zero =>
    intro l _ h
    cases l with
    | nil => simp
    | cons x xs => exact absurd (h x (by simp)) (by omega)
  | succ n ih =>
    intro l hnd hlt
    have hnd' : (l.erase n).Nodup := hnd.erase n
    have hlt' : ∀ x ∈ l.erase n, x < n := by
      intro x hx
      have hxl : x ∈ l := List.mem_of_mem_erase hx
      have hne : x ≠ n := by
        intro he; subst he
        exact (List.Nodup.mem_erase_iff hnd).mp hx |>.1 rfl
      have := hlt x hxl
      omega
    have := ih (l.erase n) hnd' hlt'
    have hle : l.length ≤ (l.erase n).length + 1 := by
      rw [List.length_erase]; split <;> omega
    omega

/-! ## helpers moved out of Props/C01HandColr.lean -/

theorem v0LayerLoop_length (t : Colr) (pick : Layer → Nat) (s e : Nat) (acc : List Nat) :
    (v0LayerLoop t pick s e acc).length ≤ acc.length + (e - s) := by
  have key : ∀ (f : List Nat → Nat → List Nat) (hf : ∀ acc i, (f acc i).length ≤ acc.length + 1)
      (l : List Nat) (acc : List Nat), (l.foldl f acc).length ≤ acc.length + l.length := by
    intro f hf l
    induction l with
    | nil => intro acc; simp
    | cons x xs ih =>
      intro acc
      simp only [List.foldl_cons, List.length_cons]
      have h1 := ih (f acc x)
      have h2 := hf acc x
      omega
  unfold v0LayerLoop
  simp only []
  refine Nat.le_trans (key _ ?_ _ _) (by simp)
  intro acc i
  split
  · simp
  · omega

theorem core_clipClosure (c : Ctx) (s e : Nat) (b : Option (Option Nat)) :
    core (clipClosure c s e b) = core c := by
  unfold clipClosure
  cases b with
  | none => rfl
  | some b =>
    simp only []
    split
    · cases b with
      | none => rfl
      | some base => exact core_addVars c base 4
    · rfl

theorem core_v1Clips (cl : List (Nat × Nat × Option (Option Nat))) : ∀ c : Ctx, core (v1Clips c cl) = core c := by
  unfold v1Clips
  induction cl with
  | nil => intro c; rfl
  | cons r rs ih => intro c; simp only [List.foldl_cons]; rw [ih, core_clipClosure]

theorem nodeAt_some_lt (d : List Nat) (p : Nat) (h : (nodeAt d p).isSome = true) : p < d.length := by
  unfold nodeAt at h
  split at h
  · simp at h
  · rename_i fmt hf
    unfold paintRead at hf
    split at hf
    · cases hf
    · rename_i f hr
      unfold readAt checkedAdd at hr
      split at hr
      · cases hr
      · rename_i e he
        split at he
        · injection he with he
          split at hr
          · omega
          · cases hr
        · cases he

theorem checksumLoop_spec : ∀ (d : List Nat) (sum trips : Nat),
    (checksumLoop d sum trips).2.2 = trips + d.length / 4 ∧
    (checksumLoop d sum trips).2.1.length = d.length % 4 ∧
    (sum < 4294967296 → (checksumLoop d sum trips).1 < 4294967296) := by
  intro d sum trips
  fun_induction checksumLoop d sum trips with
  | case1 a b c e rest sum trips ih =>
    obtain ⟨h1, h2, h3⟩ := ih
    refine ⟨by simp only [List.length_cons]; omega, by simp only [List.length_cons]; omega, ?_⟩
    intro _
    exact h3 (Nat.mod_lt _ (by decide))
  | case2 rem sum trips hne =>
    have hl : rem.length < 4 := by
      match rem, hne with
      | [], _ => simp
      | [_], _ => simp
      | [_, _], _ => simp
      | [_, _, _], _ => simp
      | a :: b :: c :: e :: rest, hne => exact absurd rfl (hne a b c e rest)
    refine ⟨by simp only []; omega, by simp only []; omega, fun h => h⟩


/-! ## definitions used by the theorem statements -/

/-- the data is a byte string -/
def Bytes (d : List Nat) : Prop := ∀ x ∈ d, x < 256

/-- `num_layers` of every `PaintColrLayers` is a `u8` -/
def LayersU8 (G : Graph) : Prop := ∀ p num first, G.node p = some (.layers num first) → num ≤ 255

/-- number of base-glyph paint records (`0` when the list does not resolve) -/
def Graph.numRoots (G : Graph) : Nat := match G.baseList with | none => 0 | some recs => recs.length

/-- number of binary digits -/
def bitLen : Nat → Nat
  | 0 => 0
  | n + 1 => bitLen ((n + 1) / 2) + 1
decreasing_by omega

theorem bitLen_le_self : ∀ n, bitLen n ≤ n := by
  intro n
  induction n using Nat.strongRecOn with
  | _ n ih =>
    cases n with
    | zero => simp [bitLen]
    | succ m =>
      rw [bitLen]
      have := ih ((m + 1) / 2) (by omega)
      omega

theorem bitLen_le_of_lt_pow : ∀ k n, n < 2 ^ k → bitLen n ≤ k := by
  intro k
  induction k with
  | zero => intro n h; have : n = 0 := by simpa using h
            subst this; simp [bitLen]
  | succ k ih =>
    intro n h
    cases n with
    | zero => simp [bitLen]
    | succ m =>
      rw [bitLen]
      have : (m + 1) / 2 < 2 ^ k := by rw [Nat.pow_succ] at h; omega
      have := ih _ this
      omega

theorem bitLen_mono_half (n m : Nat) (h : m ≤ n / 2) (hn : 0 < n) : bitLen m + 1 ≤ bitLen n := by
  have hmono : ∀ a b, a ≤ b → bitLen a ≤ bitLen b := by
    intro a
    induction a using Nat.strongRecOn with
    | _ a ih =>
      intro b hab
      cases a with
      | zero => simp [bitLen]
      | succ a' =>
        cases b with
        | zero => omega
        | succ b' =>
          rw [bitLen, bitLen]
          have := ih ((a' + 1) / 2) (by omega) ((b' + 1) / 2) (by omega)
          omega
  cases n with
  | zero => omega
  | succ n' =>
    rw [bitLen.eq_2]
    have := hmono m ((n' + 1) / 2) h
    omega


end FontVerif.HandColr
