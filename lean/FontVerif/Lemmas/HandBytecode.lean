/- helper lemmas for Props/C01HandBytecode.lean -/
import FontVerif.Model.HandBytecode
import FontVerif.Lemmas.ReadIter
set_option linter.unusedVariables false
set_option linter.unusedSimpArgs false
namespace FontVerif.HandBytecode
open FontVerif FontVerif.ReadIter

/-- every entry of `OPCODE_LENGTHS` is −1, −2 or in 1..17 -/
theorem opLen_range (b : Nat) (hb : b < 256) :
    ∃ l, opLen b = some l ∧ (l = -1 ∨ l = -2 ∨ (1 ≤ l ∧ l ≤ 17)) := by
  have hall : (List.range 256).all (fun b => match opLen b with
      | some l => l == -1 || l == -2 || (decide (1 ≤ l) && decide (l ≤ 17))
      | none => false) = true := by decide +kernel
  have := (List.all_eq_true.mp hall) b (List.mem_range.mpr hb)
  cases h : opLen b with
  | none => simp [h] at this
  | some l =>
    simp only [h] at this
    refine ⟨l, rfl, ?_⟩
    simp only [Bool.or_eq_true, Bool.and_eq_true, beq_iff_eq, decide_eq_true_eq] at this
    omega

theorem uadd_small (a b : Nat) (h : a + b ≤ 18446744073709551615) : uadd a b = some (a + b) := by
  simp [uadd, HandRead.checkedAdd, HandRead.MAXU, h]

/-- the facts about one `decode_inner` call at a `pc` inside the bytecode -/
theorem decodeInner_facts (d : List Nat) (pc b : Nat) (hb : b < 256) (hpc : pc < d.length)
    (hlen : d.length ≤ 9223372036854775807) (hbytes : ∀ x ∈ d, x < 256) :
    (decodeInner d pc b).1 ≠ .trap ∧ (decodeInner d pc b).1 ≠ .none ∧
    ((decodeInner d pc b).1 = .err → (decodeInner d pc b).2 = pc) ∧
    (∀ op p st sz w, (decodeInner d pc b).1 = .ok op p st sz w →
      p = pc ∧ pc < (decodeInner d pc b).2 ∧ (decodeInner d pc b).2 ≤ d.length ∧ st + sz ≤ d.length) := by
  obtain ⟨l, hl, hr⟩ := opLen_range b hb
  have hu1 : uadd pc 1 = some (pc + 1) := uadd_small _ _ (by omega)
  unfold decodeInner
  simp only [hl]
  by_cases hneg : l < 0
  · simp only [hneg, if_true, hu1]
    cases hc : d[pc + 1]? with
    | none => simp
    | some cnt =>
      have hcnt : cnt < 256 := hbytes cnt (List.mem_of_getElem? hc)
      have hp1 : pc + 1 < d.length := by
        have := List.getElem?_eq_some_iff.mp hc; exact this.1
      simp only []
      have habs : (-l) = 1 ∨ (-l) = 2 := by omega
      generalize hL : (-l) * (cnt : Int) + 2 = L
      have hLr : 2 ≤ L ∧ L ≤ 512 ∧ (L.toNat : Int) = L := by
        rcases habs with h | h <;> (rw [h] at hL; omega)
      have hle : L ≤ 2147483647 := by omega
      simp only [hle, if_true]
      generalize hn : L.toNat = n at hLr
      have hn2 : 2 ≤ n ∧ n ≤ 512 := by omega
      have e1 : uadd pc n = some (pc + n) := uadd_small _ _ (by omega)
      have e2 : uadd (pc + 1) 1 = some (pc + 2) := by rw [uadd_small _ _ (by omega)]
      simp only [e1, Option.bind_some, e2]
      have e3 : usub (pc + n) (pc + 2) = some (n - 2) := by
        unfold usub; have : pc + 2 ≤ pc + n := by omega
        simp only [this, if_true]; congr 1; omega
      simp only [e3]
      by_cases hs : n - 2 > 0
      · simp only [hs, if_true]
        have e4 : uadd (pc + 2) (n - 2) = some (pc + n) := by
          rw [uadd_small _ _ (by omega)]; congr 1; omega
        simp only [e4]
        by_cases he : pc + n ≤ d.length
        · simp only [he, if_true]
          refine ⟨by simp, by simp, by simp, ?_⟩
          intro op p st sz w h
          injection h with _ h2 h3 h4 _
          subst h2; subst h3; subst h4
          exact ⟨rfl, by omega, by simp [he], by omega⟩
        · simp [he]
      · simp only [hs, if_false]
        refine ⟨by simp, by simp, by simp, ?_⟩
        intro op p st sz w h
        injection h with _ h2 h3 h4 _
        subst h2; subst h3; subst h4
        exact ⟨rfl, by omega, by omega, by omega⟩
  · simp only [hneg, if_false]
    have hpos : 1 ≤ l ∧ l ≤ 17 := by omega
    generalize hn : l.toNat = n
    have hn2 : 1 ≤ n ∧ n ≤ 17 := by omega
    have e1 : uadd pc n = some (pc + n) := uadd_small _ _ (by omega)
    have e2 : uadd (pc + 1) 0 = some (pc + 1) := by rw [uadd_small _ _ (by omega)]
    simp only [e1, hu1, Option.bind_some, e2]
    have e3 : usub (pc + n) (pc + 1) = some (n - 1) := by
      unfold usub; have : pc + 1 ≤ pc + n := by omega
      simp only [this, if_true]; congr 1; omega
    simp only [e3]
    by_cases hs : n - 1 > 0
    · simp only [hs, if_true]
      have e4 : uadd (pc + 1) (n - 1) = some (pc + n) := by
        rw [uadd_small _ _ (by omega)]; congr 1; omega
      simp only [e4]
      by_cases he : pc + n ≤ d.length
      · simp only [he, if_true]
        refine ⟨by simp, by simp, by simp, ?_⟩
        intro op p st sz w h
        injection h with _ h2 h3 h4 _
        subst h2; subst h3; subst h4
        exact ⟨rfl, by omega, by simp [he], by omega⟩
      · simp [he]
    · simp only [hs, if_false]
      refine ⟨by simp, by simp, by simp, ?_⟩
      intro op p st sz w h
      injection h with _ h2 h3 h4 _
      subst h2; subst h3; subst h4
      exact ⟨rfl, by omega, by omega, by omega⟩

end FontVerif.HandBytecode
