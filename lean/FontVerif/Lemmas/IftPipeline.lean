/-
C18 — the front half of `apply_glyph_keyed_patches` (compat checks, header read, tag check, decode,
parse) as a per-patch function, for decoders that are functions of their arguments.

  `Stateless dec`          the decoder's answer does not depend on the call index
  `prepOne font dec ip`    what ONE (info, patch bytes) pair becomes: (info, decoded GlyphPatches), or none
  `prepAll font dec l`     all of them, none if any fails
`applyGlyphKeyed_ok_iff`: with a stateless decoder the whole entry point succeeds with `out` iff every
patch prepares and `applyGlyphPatches` on the prepared list gives `out`.
-/
import FontVerif.Lemmas.IftErrors
set_option linter.unusedVariables false
namespace FontVerif.Ift

def Stateless (dec : Decoder) : Prop := ∀ i j s b m, dec i s b m = dec j s b m

/-- a decoder that is a pure function of (brotli stream, optional dictionary, max length) — what
`SharedBrotliDecoder::decode(&self, encoded, dict, max_len)` of the real brotli decoders is assumed to
be: the call index is ignored -/
def pureDecoder (f : Bytes → Option Bytes → Nat → Except DErr Bytes) : Decoder := fun _ s b m => f s b m

theorem pureDecoder_stateless (f : Bytes → Option Bytes → Nat → Except DErr Bytes) :
    Stateless (pureDecoder f) := fun _ _ _ _ _ => rfl

def prepOne (font : Font) (dec : Decoder) (ip : PatchInfo × Bytes) : Option (PatchInfo × GlyphPatches) :=
  match fontCompatId font ip.1.tag with
  | .error _ => none
  | .ok fontId =>
    if fontId ≠ ip.1.compat then none
    else
      match gkRead ip.2 with
      | .error _ => none
      | .ok h =>
        if fontId ≠ h.compat then none
        else if h.format ≠ TAG_ifgk then none
        else
          match dec 0 h.stream none h.maxLen with
          | .error _ => none
          | .ok raw =>
            match gpRead raw h.wide with
            | .error _ => none
            | .ok gp => some (ip.1, gp)

def prepAll (font : Font) (dec : Decoder) : List (PatchInfo × Bytes) → Option (List (PatchInfo × GlyphPatches))
  | [] => some []
  | x :: xs =>
    match prepOne font dec x, prepAll font dec xs with
    | some y, some ys => some (y :: ys)
    | _, _ => none

/-- the three loops succeed ⇒ every patch prepares, and the prepared list is (infos zipped with the
parsed payloads) -/
theorem loops_to_prepAll (font : Font) (dec : Decoder) (hst : Stateless dec)
    (patches : List (PatchInfo × Bytes)) (hs : List (PatchInfo × GKHeader)) (i : Nat)
    (raws : List Bytes) (gps : List GlyphPatches)
    (hc : checkGlyphKeyed font patches = .ok hs)
    (hd : decodeAll dec (hs.map (·.2)) i = .ok raws)
    (hp : parseAll (List.zip raws (hs.map (·.2))) = .ok gps) :
    ∃ ps, prepAll font dec patches = some ps ∧ ps.map (·.1) = hs.map (·.1) ∧ ps.map (·.2) = gps := by
  induction patches generalizing hs i raws gps with
  | nil =>
    simp only [checkGlyphKeyed, Except.ok.injEq] at hc; subst hc
    simp only [List.map_nil, decodeAll, Except.ok.injEq] at hd; subst hd
    simp only [List.zip_nil_left, parseAll, Except.ok.injEq] at hp; subst hp
    exact ⟨[], rfl, rfl, rfl⟩
  | cons x rest ih =>
    obtain ⟨info, p⟩ := x
    unfold checkGlyphKeyed at hc
    cases hf : fontCompatId font info.tag with
    | error e => rw [hf] at hc; cases hc
    | ok fontId =>
      rw [hf] at hc
      simp only at hc
      by_cases h1 : fontId = info.compat
      · simp only [h1, ne_eq, not_true_eq_false, if_false] at hc
        cases hg : gkRead p with
        | error e => rw [hg] at hc; cases hc
        | ok h =>
          rw [hg] at hc
          simp only at hc
          by_cases h2 : info.compat = h.compat
          · simp only [h2, ne_eq, not_true_eq_false, if_false] at hc
            cases hr : checkGlyphKeyed font rest with
            | error e => rw [hr] at hc; cases hc
            | ok more =>
              rw [hr] at hc
              simp only [Except.ok.injEq] at hc
              subst hc
              simp only [List.map_cons, decodeAll] at hd
              by_cases h3 : h.format = TAG_ifgk
              · simp only [h3, ne_eq, not_true_eq_false, if_false] at hd
                cases hdec : dec i h.stream none h.maxLen with
                | error e => rw [hdec] at hd; cases hd
                | ok raw =>
                  rw [hdec] at hd
                  simp only at hd
                  cases hdr : decodeAll dec (more.map (·.2)) (i + 1) with
                  | error e => rw [hdr] at hd; cases hd
                  | ok raws' =>
                    rw [hdr] at hd
                    simp only [Except.ok.injEq] at hd
                    subst hd
                    simp only [List.map_cons, List.zip_cons_cons, parseAll] at hp
                    cases hgp : gpRead raw h.wide with
                    | error e => rw [hgp] at hp; cases hp
                    | ok gp =>
                      rw [hgp] at hp
                      simp only at hp
                      cases hpr : parseAll (List.zip raws' (more.map (·.2))) with
                      | error e => rw [hpr] at hp; cases hp
                      | ok gps' =>
                        rw [hpr] at hp
                        simp only [Except.ok.injEq] at hp
                        subst hp
                        obtain ⟨ps, i1, i2, i3⟩ := ih more (i + 1) raws' gps' hr hdr hpr
                        have hone : prepOne font dec (info, p) = some (info, gp) := by
                          unfold prepOne
                          simp only [hf, h1, ne_eq, not_true_eq_false, if_false, hg, h2, h3]
                          rw [hst 0 i, hdec]
                          simp only [hgp]
                        refine ⟨(info, gp) :: ps, ?_, by simp [i2], by simp [i3]⟩
                        simp only [prepAll, hone, i1]
              · simp only [ne_eq, h3, not_false_eq_true, if_true] at hd; cases hd
          · simp only [ne_eq, h2, not_false_eq_true, if_true] at hc; cases hc
      · simp only [ne_eq, h1, not_false_eq_true, if_true] at hc; cases hc

/-- every patch prepares ⇒ the three loops succeed with the corresponding lists -/
theorem prepAll_to_loops (font : Font) (dec : Decoder) (hst : Stateless dec)
    (patches : List (PatchInfo × Bytes)) (ps : List (PatchInfo × GlyphPatches)) (i : Nat)
    (h : prepAll font dec patches = some ps) :
    ∃ hs raws, checkGlyphKeyed font patches = .ok hs ∧ decodeAll dec (hs.map (·.2)) i = .ok raws ∧
      parseAll (List.zip raws (hs.map (·.2))) = .ok (ps.map (·.2)) ∧ hs.map (·.1) = ps.map (·.1) := by
  induction patches generalizing ps i with
  | nil =>
    simp only [prepAll, Option.some.injEq] at h; subst h
    exact ⟨[], [], rfl, rfl, rfl, rfl⟩
  | cons x rest ih =>
    obtain ⟨info, p⟩ := x
    simp only [prepAll] at h
    cases hone : prepOne font dec (info, p) with
    | none => rw [hone] at h; simp at h
    | some y =>
      cases hrest : prepAll font dec rest with
      | none => rw [hone, hrest] at h; simp at h
      | some ys =>
        rw [hone, hrest] at h
        simp only [Option.some.injEq] at h
        subst h
        obtain ⟨hs, raws, j1, j2, j3, j4⟩ := ih ys (i + 1) hrest
        -- open prepOne
        unfold prepOne at hone
        simp only at hone
        cases hf : fontCompatId font info.tag with
        | error e => rw [hf] at hone; cases hone
        | ok fontId =>
          rw [hf] at hone
          simp only at hone
          by_cases h1 : fontId = info.compat
          · simp only [h1, ne_eq, not_true_eq_false, if_false] at hone
            cases hg : gkRead p with
            | error e => rw [hg] at hone; cases hone
            | ok hd =>
              rw [hg] at hone
              simp only at hone
              by_cases h2 : info.compat = hd.compat
              · simp only [h2, ne_eq, not_true_eq_false, if_false] at hone
                by_cases h3 : hd.format = TAG_ifgk
                · simp only [h3, ne_eq, not_true_eq_false, if_false] at hone
                  cases hdec : dec 0 hd.stream none hd.maxLen with
                  | error e => rw [hdec] at hone; cases hone
                  | ok raw =>
                    rw [hdec] at hone
                    simp only at hone
                    cases hgp : gpRead raw hd.wide with
                    | error e => rw [hgp] at hone; cases hone
                    | ok gp =>
                      rw [hgp] at hone
                      simp only [Option.some.injEq] at hone
                      subst hone
                      refine ⟨(info, hd) :: hs, raw :: raws, ?_, ?_, ?_, by simp [j4]⟩
                      · unfold checkGlyphKeyed
                        simp only [hf, h1, ne_eq, not_true_eq_false, if_false, hg, h2, j1]
                      · simp only [List.map_cons, decodeAll, h3, ne_eq, not_true_eq_false, if_false]
                        rw [hst i 0, hdec]
                        simp only [j2]
                      · simp only [List.map_cons, List.zip_cons_cons, parseAll, hgp, j3]
                · simp only [ne_eq, h3, not_false_eq_true, if_true] at hone
                  cases hone
              · simp only [ne_eq, h2, not_false_eq_true, if_true] at hone; cases hone
          · simp only [ne_eq, h1, not_false_eq_true, if_true] at hone; cases hone

/-- **the entry point, decomposed** (stateless decoder) -/
theorem applyGlyphKeyed_ok_iff (font : Font) (dec : Decoder) (hst : Stateless dec)
    (patches : List (PatchInfo × Bytes)) (out : Font) :
    applyGlyphKeyed patches font dec = .ok out ↔
      ∃ ps, prepAll font dec patches = some ps ∧
        applyGlyphPatches (ps.map (·.1)) (ps.map (·.2)) font = .ok out := by
  constructor
  · intro h
    unfold applyGlyphKeyed at h
    cases hc : checkGlyphKeyed font patches with
    | error e => rw [hc] at h; cases h
    | ok hs =>
      rw [hc] at h
      simp only at h
      unfold applyGlyphKeyedCore at h
      cases hd : decodeAll dec (hs.map (·.2)) 0 with
      | error e => rw [hd] at h; cases h
      | ok raws =>
        rw [hd] at h
        simp only at h
        cases hp : parseAll (List.zip raws (hs.map (·.2))) with
        | error e => rw [hp] at h; cases h
        | ok gps =>
          rw [hp] at h
          simp only at h
          obtain ⟨ps, i1, i2, i3⟩ := loops_to_prepAll font dec hst patches hs 0 raws gps hc hd hp
          exact ⟨ps, i1, by rw [i2, i3]; exact h⟩
  · rintro ⟨ps, h1, h2⟩
    obtain ⟨hs, raws, j1, j2, j3, j4⟩ := prepAll_to_loops font dec hst patches ps 0 h1
    unfold applyGlyphKeyed
    rw [j1]
    simp only
    unfold applyGlyphKeyedCore
    rw [j2]
    simp only
    rw [j3]
    simp only
    rw [j4]
    exact h2

/-- preparing is per patch: a permutation of the input prepares to a permutation of the output -/
theorem prepAll_perm (font : Font) (dec : Decoder) (l l' : List (PatchInfo × Bytes)) (hp : l.Perm l') :
    ∀ ps, prepAll font dec l = some ps → ∃ ps', prepAll font dec l' = some ps' ∧ ps.Perm ps' := by
  induction hp with
  | nil => intro ps h; exact ⟨ps, h, List.Perm.refl _⟩
  | cons x _ ih =>
    intro ps h
    simp only [prepAll] at h ⊢
    cases hx : prepOne font dec x with
    | none => rw [hx] at h; simp at h
    | some y =>
      rename_i l1 l2 _
      cases h1 : prepAll font dec l1 with
      | none => rw [hx, h1] at h; simp at h
      | some ys =>
        rw [hx, h1] at h
        simp only [Option.some.injEq] at h
        subst h
        obtain ⟨ys', e1, e2⟩ := ih ys h1
        exact ⟨y :: ys', by simp [e1], List.Perm.cons y e2⟩
  | swap x y l =>
    intro ps h
    simp only [prepAll] at h ⊢
    cases hx : prepOne font dec x with
    | none => rw [hx] at h; cases hy : prepOne font dec y <;> simp [hy] at h
    | some x' =>
      cases hy : prepOne font dec y with
      | none => rw [hy] at h; simp at h
      | some y' =>
        cases hl : prepAll font dec l with
        | none => rw [hx, hy, hl] at h; simp at h
        | some ls =>
          rw [hx, hy, hl] at h
          simp only [Option.some.injEq] at h
          subst h
          exact ⟨x' :: y' :: ls, by simp, List.Perm.swap _ _ _⟩
  | trans _ _ ih1 ih2 =>
    intro ps h
    obtain ⟨ps1, e1, p1⟩ := ih1 ps h
    obtain ⟨ps2, e2, p2⟩ := ih2 ps1 e1
    exact ⟨ps2, e2, p1.trans p2⟩

theorem prepAll_append (font : Font) (dec : Decoder) (l1 l2 : List (PatchInfo × Bytes))
    (ps : List (PatchInfo × GlyphPatches)) (h : prepAll font dec (l1 ++ l2) = some ps) :
    ∃ ps1 ps2, prepAll font dec l1 = some ps1 ∧ prepAll font dec l2 = some ps2 ∧ ps = ps1 ++ ps2 := by
  induction l1 generalizing ps with
  | nil => exact ⟨[], ps, rfl, h, rfl⟩
  | cons x xs ih =>
    simp only [List.cons_append, prepAll] at h ⊢
    cases hx : prepOne font dec x with
    | none => rw [hx] at h; simp at h
    | some y =>
      cases hr : prepAll font dec (xs ++ l2) with
      | none => rw [hx, hr] at h; simp at h
      | some ys =>
        rw [hx, hr] at h
        simp only [Option.some.injEq] at h
        subst h
        obtain ⟨p1, p2, e1, e2, e3⟩ := ih ys hr
        exact ⟨y :: p1, p2, by simp [e1], e2, by simp [e3]⟩

/-- what a patch prepares to does not depend on the font (the font only gates by compat id) -/
theorem prepOne_font_indep (font font' : Font) (dec : Decoder) (x : PatchInfo × Bytes)
    (y y' : PatchInfo × GlyphPatches) (h : prepOne font dec x = some y) (h' : prepOne font' dec x = some y') :
    y = y' := by
  have key : ∀ (f : Font) (z : PatchInfo × GlyphPatches), prepOne f dec x = some z →
      ∃ hd raw gp, gkRead x.2 = .ok hd ∧ dec 0 hd.stream none hd.maxLen = .ok raw ∧
        gpRead raw hd.wide = .ok gp ∧ z = (x.1, gp) := by
    intro f z hz
    unfold prepOne at hz
    cases hf : fontCompatId f x.1.tag with
    | error e => rw [hf] at hz; cases hz
    | ok fontId =>
      rw [hf] at hz
      simp only at hz
      split at hz
      · cases hz
      · cases hg : gkRead x.2 with
        | error e => rw [hg] at hz; cases hz
        | ok hd =>
          rw [hg] at hz
          simp only at hz
          split at hz
          · cases hz
          · split at hz
            · cases hz
            · cases hdec : dec 0 hd.stream none hd.maxLen with
              | error e => rw [hdec] at hz; cases hz
              | ok raw =>
                rw [hdec] at hz
                simp only at hz
                cases hgp : gpRead raw hd.wide with
                | error e => rw [hgp] at hz; cases hz
                | ok gp =>
                  rw [hgp] at hz
                  simp only [Option.some.injEq] at hz
                  exact ⟨hd, raw, gp, rfl, hdec, hgp, hz.symm⟩
  obtain ⟨hd, raw, gp, a1, a2, a3, a4⟩ := key font y h
  obtain ⟨hd', raw', gp', b1, b2, b3, b4⟩ := key font' y' h'
  rw [a1] at b1; cases b1
  rw [a2] at b2; cases b2
  rw [a3] at b3; cases b3
  rw [a4, b4]

theorem prepAll_font_indep (font font' : Font) (dec : Decoder) (l : List (PatchInfo × Bytes))
    (ps ps' : List (PatchInfo × GlyphPatches)) (h : prepAll font dec l = some ps)
    (h' : prepAll font' dec l = some ps') : ps = ps' := by
  induction l generalizing ps ps' with
  | nil =>
    simp only [prepAll, Option.some.injEq] at h h'
    rw [← h, ← h']
  | cons x xs ih =>
    simp only [prepAll] at h h'
    cases hx : prepOne font dec x with
    | none => rw [hx] at h; simp at h
    | some y =>
      cases hx' : prepOne font' dec x with
      | none => rw [hx'] at h'; simp at h'
      | some y' =>
        cases hr : prepAll font dec xs with
        | none => rw [hx, hr] at h; simp at h
        | some ys =>
          cases hr' : prepAll font' dec xs with
          | none => rw [hx', hr'] at h'; simp at h'
          | some ys' =>
            rw [hx, hr] at h
            rw [hx', hr'] at h'
            simp only [Option.some.injEq] at h h'
            rw [← h, ← h', prepOne_font_indep font font' dec x y y' hx hx', ih ys ys' hr hr']

end FontVerif.Ift
