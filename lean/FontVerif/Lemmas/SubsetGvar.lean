/-
Lemmas for the C17 gvar subsetting theorems (Props/C17Gvar.lean).

The offsets array of `subset_with_offset_type` is the same function of the kept (new gid, bytes) list as
the loca offsets of `write_glyf_loca` (`Subset.locaOffsetsGo`): the running-offset loop of the model
(`offsetsGo`, `dataGo`, padding decided on the parity of the running `glyph_offset`) is shown equal to it,
and the specification `Subset.offAt` with its lemmas from Lemmas/Subset.lean is reused.
-/
import FontVerif.Model.SubsetGvar
import FontVerif.Lemmas.Subset
namespace FontVerif.SubsetGvar
open FontVerif FontVerif.Subset

/-! ### one loop step -/

theorem stepOffset_eq (short : Bool) (off : Nat) (b : Bytes) (h : short = true → off % 2 = 0) :
    stepOffset short off b = off + slotSize short b := by
  unfold stepOffset slotSize paddedSize
  cases b with
  | nil => cases short <;> simp
  | cons x xs =>
    cases short with
    | false => simp
    | true =>
      have := h rfl
      simp only [List.isEmpty_cons, Bool.false_eq_true, ↓reduceIte, true_and, List.length_cons]
      split <;> omega

theorem stepBytes_eq (short : Bool) (off : Nat) (b : Bytes) (h : short = true → off % 2 = 0) :
    stepBytes short off b = slotBytes short b := by
  unfold stepBytes slotBytes
  cases b with
  | nil => cases short <;> simp
  | cons x xs =>
    cases short with
    | false => simp
    | true =>
      have := h rfl
      simp only [List.isEmpty_cons, Bool.false_eq_true, ↓reduceIte, true_and, List.length_cons]
      have e : (off + (xs.length + 1)) % 2 = 1 ↔ (xs.length + 1) % 2 = 1 := by omega
      simp only [e]

theorem stepOffset_even (short : Bool) (off : Nat) (b : Bytes) (h : short = true → off % 2 = 0) :
    short = true → stepOffset short off b % 2 = 0 := by
  intro hs
  rw [stepOffset_eq short off b h]
  subst hs
  have := h rfl
  unfold slotSize paddedSize
  simp
  omega

/-! ### the loops equal the loca-style functions -/

theorem offsetsGo_eq (short : Bool) (nout : Nat) : ∀ (ks : List (Nat × Bytes)) (last off : Nat),
    (short = true → off % 2 = 0) → offsetsGo short nout ks last off = locaOffsetsGo short nout ks last off := by
  intro ks
  induction ks with
  | nil => intro last off _; simp [offsetsGo, locaOffsetsGo]
  | cons k rest ih =>
    intro last off h
    obtain ⟨gid, b⟩ := k
    simp only [offsetsGo, locaOffsetsGo]
    have e : stepOffset short off b = off + (if short = true then paddedSize b.length else b.length) := by
      rw [stepOffset_eq short off b h]; rfl
    rw [e]
    rw [ih _ _ (by
      intro hs
      have := stepOffset_even short off b h hs
      rw [e] at this
      exact this)]

theorem dataGo_eq (short : Bool) : ∀ (ks : List (Nat × Bytes)) (off : Nat),
    (short = true → off % 2 = 0) → dataGo short ks off = glyfBytes short (ks.map (·.2)) := by
  intro ks
  induction ks with
  | nil => intro off _; simp [dataGo, glyfBytes]
  | cons k rest ih =>
    intro off h
    obtain ⟨gid, b⟩ := k
    simp only [dataGo, List.map_cons]
    rw [stepBytes_eq short off b h, ih _ (stepOffset_even short off b h)]
    simp [glyfBytes, slotBytes]

theorem offsets_eq (short : Bool) (nout : Nat) (ks : List (Nat × Bytes)) :
    offsets short nout ks = locaOffsets short nout ks := by
  unfold offsets locaOffsets
  rw [offsetsGo_eq short nout ks 0 0 (fun _ => rfl)]

/-! ### plans -/

theorem ascBelow_spec (nout : Nat) : ∀ (l : List Nat) (lo : Nat), ascBelow nout l lo = true →
    l.Pairwise (· < ·) ∧ ∀ g ∈ l, lo ≤ g ∧ g < nout := by
  intro l
  induction l with
  | nil => intro lo _; simp
  | cons g rest ih =>
    intro lo h
    simp only [ascBelow, Bool.and_eq_true, decide_eq_true_eq] at h
    obtain ⟨⟨h1, h2⟩, h3⟩ := h
    obtain ⟨p, q⟩ := ih (g + 1) h3
    refine ⟨List.pairwise_cons.mpr ⟨fun x hx => by have := (q x hx).1; omega, p⟩, ?_⟩
    intro x hx
    rcases List.mem_cons.mp hx with rfl | hx
    · exact ⟨h1, h2⟩
    · have := q x hx; omega

theorem keptEntries_keys_sublist (inp : GvarIn) (hlen : inp.n2o.length = inp.slots.length) :
    ((keptEntries inp).map (·.1)).Sublist (inp.n2o.map (·.1)) := by
  unfold keptEntries
  rw [List.map_map]
  have h1 : (List.map ((fun x => x.1) ∘ fun e : (Nat × Nat) × Slot => (e.1.1, e.2.bytes))
      (List.filter (fun e => keeps inp.flags e.1.1) (inp.n2o.zip inp.slots)))
      = ((List.filter (fun e => keeps inp.flags e.1.1) (inp.n2o.zip inp.slots)).map (·.1)).map (·.1) := by
    rw [List.map_map]; rfl
  rw [h1]
  have h2 : ((inp.n2o.zip inp.slots).map (·.1)) = inp.n2o := by
    rw [List.map_fst_zip]; omega
  have h3 : ((List.filter (fun e => keeps inp.flags e.1.1) (inp.n2o.zip inp.slots)).map (·.1)).Sublist inp.n2o := by
    have := (List.filter_sublist (l := inp.n2o.zip inp.slots) (p := fun e => keeps inp.flags e.1.1)).map (·.1)
    rw [h2] at this
    exact this
  exact h3.map _

theorem keptEntries_sorted (inp : GvarIn) (hlen : inp.n2o.length = inp.slots.length)
    (hasc : ascBelow inp.nout (inp.n2o.map (·.1)) 0 = true) :
    ((keptEntries inp).map (·.1)).Pairwise (· < ·) ∧ ∀ p ∈ keptEntries inp, p.1 < inp.nout := by
  obtain ⟨hp, hb⟩ := ascBelow_spec inp.nout _ 0 hasc
  have hsub := keptEntries_keys_sublist inp hlen
  refine ⟨hp.sublist hsub, ?_⟩
  intro p hp'
  exact (hb p.1 (hsub.subset (List.mem_map_of_mem hp'))).2

/-! ### sizes -/

theorem dataSize_eq_total (ks : List (Nat × Bytes)) : dataSize ks = totalSize true ks := by
  unfold dataSize totalSize slotSize paddedSize
  simp

theorem total_false_le_true (ks : List (Nat × Bytes)) : totalSize false ks ≤ totalSize true ks := by
  unfold totalSize
  apply sum_map_le
  intro p
  unfold slotSize paddedSize
  simp

theorem offAt_le_dataSize (short : Bool) (ks : List (Nat × Bytes)) (j : Nat) : offAt short ks j ≤ dataSize ks := by
  rw [dataSize_eq_total]
  have := offAt_le_total short j ks
  cases short
  · have := total_false_le_true ks; omega
  · exact this

/-! ### encoding / decoding of the offsets array -/

theorem decodeShort_encode : ∀ (offs : List Nat), (∀ o ∈ offs, o % 2 = 0 ∧ o < 131072) →
    decodeShort (offs.flatMap (fun o => be16 (o / 2 % 65536))) = offs := by
  intro offs
  induction offs with
  | nil => intro _; simp [decodeShort]
  | cons o tl ih =>
    intro h
    have ho := h o (by simp)
    have ih' := ih (fun x hx => h x (by simp [hx]))
    simp only [be16] at ih'
    simp only [List.flatMap_cons, be16, List.cons_append, List.nil_append, decodeShort]
    rw [ih']
    congr 1
    omega

theorem decodeLong_encode : ∀ (offs : List Nat), (∀ o ∈ offs, o < 4294967296) →
    decodeLong (offs.flatMap (fun o => be32 (o % 4294967296))) = offs := by
  intro offs
  induction offs with
  | nil => intro _; simp [decodeLong]
  | cons o tl ih =>
    intro h
    have ho := h o (by simp)
    have ih' := ih (fun x hx => h x (by simp [hx]))
    simp only [be32] at ih'
    simp only [List.flatMap_cons, be32, List.cons_append, List.nil_append, decodeLong]
    rw [ih']
    congr 1
    omega

theorem encodeOffsets_length (short : Bool) (offs : List Nat) :
    (encodeOffsets short offs).length = offs.length * (if short then 2 else 4) := by
  unfold encodeOffsets
  cases short
  · simp only [Bool.false_eq_true, ↓reduceIte]
    induction offs with
    | nil => simp
    | cons o tl ih =>
      simp only [be32] at ih
      simp only [List.flatMap_cons, List.length_append, be32, List.length_cons, List.length_nil, ih]; omega
  · simp only [↓reduceIte]
    induction offs with
    | nil => simp
    | cons o tl ih =>
      simp only [be16] at ih
      simp only [List.flatMap_cons, List.length_append, be16, List.length_cons, List.length_nil, ih]; omega

/-! ### a successful run of the subsetter -/


theorem emit_ok (inp : GvarIn) (h8 : Bytes) (axis cnt soff : Nat) (lay : Layout) (out : Bytes)
    (h : emit inp h8 axis cnt soff = .ok (lay, out)) :
    planOk inp = true ∧ dataSize (keptEntries inp) < 4294967296 ∧
    lay = layoutOf inp axis cnt soff ∧ lay.dataOff < 4294967296 ∧
    ∃ shared, sharedSource inp cnt soff = some shared ∧ shared.length = sharedSizeOf axis cnt soff ∧
      out = assemble h8 lay inp.nout (keptEntries inp) shared := by
  unfold emit at h
  split at h
  · cases h
  · rename_i h1
    split at h
    · cases h
    · rename_i h2
      split at h
      · cases h
      · rename_i h3
        split at h
        · cases h
        · split at h
          · cases h
          · rename_i shared hsh
            split at h
            · cases h
            · rename_i h5
              split at h
              · cases h
              · simp only [Except.ok.injEq, Prod.mk.injEq] at h
                obtain ⟨hl, ho⟩ := h
                subst hl
                refine ⟨by simpa using h1, by omega, rfl, by omega, shared, hsh, by simpa using h5, ho.symm⟩
/-! ### the reader on the emitted header -/


theorem be16_val (v : Nat) (h : v < 65536) : v / 256 % 256 * 256 + v % 256 = v := by omega
theorem be32_val (v : Nat) (h : v < 4294967296) :
    v / 16777216 % 256 * 16777216 + v / 65536 % 256 * 65536 + v / 256 % 256 * 256 + v % 256 = v := by omega

theorem readGvar_layout (v0 v1 v2 v3 a0 a1 c0 c1 so ng dao : Nat) (long : Bool) (enc rest : Bytes)
    (hng : ng < 65536) (hso : so < 4294967296) (hdao : dao < 4294967296)
    (hlen : enc.length = (ng + 1) * (if long then 4 else 2)) :
    readGvar ([v0, v1, v2, v3, a0, a1, c0, c1] ++ be32 so ++ be16 ng ++ be16 (if long then 1 else 0) ++ be32 dao ++
        enc ++ rest)
      = some { axisCount := a0 * 256 + a1, sharedCount := c0 * 256 + c1, sharedOff := so, glyphCount := ng,
               long := long, dao := dao, offs := if long then decodeLong enc else decodeShort enc } := by
  have e : [v0, v1, v2, v3, a0, a1, c0, c1] ++ be32 so ++ be16 ng ++ be16 (if long then 1 else 0) ++ be32 dao ++
        enc ++ rest
      = v0 :: v1 :: v2 :: v3 :: a0 :: a1 :: c0 :: c1 :: (so / 16777216 % 256) :: (so / 65536 % 256) ::
        (so / 256 % 256) :: (so % 256) :: (ng / 256 % 256) :: (ng % 256) :: 0 :: (if long then 1 else 0) ::
        (dao / 16777216 % 256) :: (dao / 65536 % 256) :: (dao / 256 % 256) :: (dao % 256) :: (enc ++ rest) := by
    cases long <;> simp [be32, be16]
  rw [e]
  have hgc : u16At (v0 :: v1 :: v2 :: v3 :: a0 :: a1 :: c0 :: c1 :: (so / 16777216 % 256) :: (so / 65536 % 256) ::
        (so / 256 % 256) :: (so % 256) :: (ng / 256 % 256) :: (ng % 256) :: 0 :: (if long then 1 else 0) ::
        (dao / 16777216 % 256) :: (dao / 65536 % 256) :: (dao / 256 % 256) :: (dao % 256) :: (enc ++ rest)) 12 = ng := by
    simp [u16At]; omega
  unfold readGvar
  simp only [hgc]
  have hfl : (u16At (v0 :: v1 :: v2 :: v3 :: a0 :: a1 :: c0 :: c1 :: (so / 16777216 % 256) :: (so / 65536 % 256) ::
        (so / 256 % 256) :: (so % 256) :: (ng / 256 % 256) :: (ng % 256) :: 0 :: (if long then 1 else 0) ::
        (dao / 16777216 % 256) :: (dao / 65536 % 256) :: (dao / 256 % 256) :: (dao % 256) :: (enc ++ rest)) 14 % 2 == 1) = long := by
    cases long <;> simp [u16At]
  simp only [hfl]
  have hl : ¬ (v0 :: v1 :: v2 :: v3 :: a0 :: a1 :: c0 :: c1 :: (so / 16777216 % 256) :: (so / 65536 % 256) ::
        (so / 256 % 256) :: (so % 256) :: (ng / 256 % 256) :: (ng % 256) :: 0 :: (if long then 1 else 0) ::
        (dao / 16777216 % 256) :: (dao / 65536 % 256) :: (dao / 256 % 256) :: (dao % 256) :: (enc ++ rest)).length < 20 := by
    simp
  rw [if_neg hl]
  have hl2 : ¬ (v0 :: v1 :: v2 :: v3 :: a0 :: a1 :: c0 :: c1 :: (so / 16777216 % 256) :: (so / 65536 % 256) ::
        (so / 256 % 256) :: (so % 256) :: (ng / 256 % 256) :: (ng % 256) :: 0 :: (if long then 1 else 0) ::
        (dao / 16777216 % 256) :: (dao / 65536 % 256) :: (dao / 256 % 256) :: (dao % 256) :: (enc ++ rest)).length
        < 20 + (ng + 1) * (if long then 4 else 2) := by
    simp only [List.length_cons, List.length_append]
    omega
  rw [if_neg hl2]
  have htk : (List.drop 20 (v0 :: v1 :: v2 :: v3 :: a0 :: a1 :: c0 :: c1 :: (so / 16777216 % 256) :: (so / 65536 % 256) ::
        (so / 256 % 256) :: (so % 256) :: (ng / 256 % 256) :: (ng % 256) :: 0 :: (if long then 1 else 0) ::
        (dao / 16777216 % 256) :: (dao / 65536 % 256) :: (dao / 256 % 256) :: (dao % 256) :: (enc ++ rest))).take
        ((ng + 1) * (if long then 4 else 2)) = enc := by
    simp only [List.drop_succ_cons, List.drop_zero]
    rw [← hlen]
    simp
  rw [htk]
  simp [u16At, u32At]
  refine ⟨?_, ?_⟩ <;> omega
/-! ### the reader on the emitted data -/


theorem drop_front {α : Type} (a b : List α) (n : Nat) : (a ++ b).drop (a.length + n) = b.drop n := by
  induction a with
  | nil => simp
  | cons x xs ih =>
    have : (x :: xs).length + n = (xs.length + n) + 1 := by simp; omega
    rw [this]
    simp [ih]

theorem glyfBytes_length (pad : Bool) (ks : List (Nat × Bytes)) :
    (glyfBytes pad (ks.map (·.2))).length = totalSize pad ks := by
  unfold glyfBytes totalSize
  induction ks with
  | nil => simp
  | cons k rest ih =>
    simp only [List.map_cons, List.flatMap_cons, List.length_append, List.sum_cons, ih]
    have := slotBytes_length pad k.2
    unfold slotBytes at this
    rw [this]

/-- what a reader finds for a glyph whose source data is `b`: nothing for an empty blob, the blob itself,
or (short format, odd length) the blob followed by one zero byte -/
def readBack (short : Bool) (b : Bytes) : Slot := if b.isEmpty then .none else .data (slotBytes short b)

theorem dataForGid_kept (short : Bool) (nout : Nat) (ks : List (Nat × Bytes)) (front : Bytes) (r : Reader)
    (hs : (ks.map (·.1)).Pairwise (· < ·)) (hb : ∀ p ∈ ks, p.1 < nout)
    (hdao : r.dao = front.length) (hoffs : r.offs = locaOffsets short nout ks)
    (hlen : (front ++ glyfBytes short (ks.map (·.2))).length < 4294967296)
    (pre : List (Nat × Bytes)) (gid : Nat) (b : Bytes) (post : List (Nat × Bytes))
    (hks : ks = pre ++ (gid, b) :: post) :
    dataForGid (front ++ glyfBytes short (ks.map (·.2))) r gid = readBack short b := by
  have hlt : gid < nout := hb (gid, b) (by rw [hks]; simp)
  have hA := locaOffsets_getElem short nout ks hs hb gid (by omega)
  have hB := locaOffsets_getElem short nout ks hs hb (gid + 1) (by omega)
  have hres := glyfBytes_resolve short pre gid b post (by rw [← hks]; exact hs)
  rw [← hks] at hres
  obtain ⟨e1, e2⟩ := hres
  have htot := offAt_le_total short (gid + 1) ks
  have hdl := glyfBytes_length short ks
  have hol : (front ++ glyfBytes short (ks.map (·.2))).length = front.length + totalSize short ks := by
    simp [hdl]
  unfold dataForGid dataRange
  rw [hoffs, hA, hB]
  simp only [hdao]
  have hno : ¬ (front.length + offAt short ks gid ≥ 4294967296 ∨ front.length + offAt short ks (gid + 1) ≥ 4294967296) := by
    omega
  rw [if_neg hno]
  simp only []
  unfold readBack
  by_cases hbe : b = []
  · subst hbe
    have : slotSize short [] = 0 := by unfold slotSize paddedSize; cases short <;> simp
    rw [if_pos (by omega)]
    simp
  · have hpos : 0 < slotSize short b := by
      unfold slotSize paddedSize
      have : 0 < b.length := List.length_pos_iff.mpr hbe
      cases short <;> simp <;> omega
    rw [if_neg (by omega), if_pos (by omega)]
    have hne : b.isEmpty = false := by cases b <;> simp_all
    rw [hne]
    simp only [Bool.false_eq_true, ↓reduceIte, Slot.data.injEq]
    rw [drop_front]
    have : front.length + offAt short ks (gid + 1) - (front.length + offAt short ks gid) = slotSize short b := by omega
    rw [this]
    exact e2

theorem dataForGid_unused (short : Bool) (nout : Nat) (ks : List (Nat × Bytes)) (front : Bytes) (r : Reader)
    (hs : (ks.map (·.1)).Pairwise (· < ·)) (hb : ∀ p ∈ ks, p.1 < nout)
    (hdao : r.dao = front.length) (hoffs : r.offs = locaOffsets short nout ks)
    (hlen : (front ++ glyfBytes short (ks.map (·.2))).length < 4294967296)
    (k : Nat) (hk : k < nout) (hne : ∀ p ∈ ks, p.1 ≠ k) :
    dataForGid (front ++ glyfBytes short (ks.map (·.2))) r k = .none := by
  have hA := locaOffsets_getElem short nout ks hs hb k (by omega)
  have hB := locaOffsets_getElem short nout ks hs hb (k + 1) (by omega)
  have heq : offAt short ks (k + 1) = offAt short ks k := by
    unfold offAt
    congr 2
    apply List.filter_congr
    intro p hp
    have := hne p hp
    simp only [decide_eq_decide]
    omega
  have htot := offAt_le_total short k ks
  have hdl := glyfBytes_length short ks
  have hol : (front ++ glyfBytes short (ks.map (·.2))).length = front.length + totalSize short ks := by
    simp [hdl]
  unfold dataForGid dataRange
  rw [hoffs, hA, hB, heq]
  simp only [hdao]
  rw [if_neg (by omega)]
  simp

/-! ### bridge: everything about a successful `subsetGvar` -/

theorem subsetGvar_ok (inp : GvarIn) (lay : Layout) (out : Bytes) (h : subsetGvar inp = .ok (lay, out)) :
    ∃ v0 v1 v2 v3 a0 a1 c0 c1 o0 o1 o2 o3 shared,
      inp.header = [v0, v1, v2, v3, a0, a1, c0, c1, o0, o1, o2, o3] ∧
      planOk inp = true ∧ dataSize (keptEntries inp) < 4294967296 ∧
      lay = layoutOf inp (a0 * 256 + a1) (c0 * 256 + c1) (o0 * 16777216 + o1 * 65536 + o2 * 256 + o3) ∧
      lay.dataOff < 4294967296 ∧
      sharedSource inp (c0 * 256 + c1) (o0 * 16777216 + o1 * 65536 + o2 * 256 + o3) = some shared ∧
      shared.length = sharedSizeOf (a0 * 256 + a1) (c0 * 256 + c1) (o0 * 16777216 + o1 * 65536 + o2 * 256 + o3) ∧
      out = assemble [v0, v1, v2, v3, a0, a1, c0, c1] lay inp.nout (keptEntries inp) shared := by
  unfold subsetGvar at h
  split at h
  · rename_i v0 v1 v2 v3 a0 a1 c0 c1 o0 o1 o2 o3 hh
    obtain ⟨h1, h2, h3, h4, shared, h5, h6, h7⟩ := emit_ok inp _ _ _ _ lay out h
    exact ⟨v0, v1, v2, v3, a0, a1, c0, c1, o0, o1, o2, o3, shared, hh, h1, h2, h3, h4, h5, h6, h7⟩
  · cases h

theorem planOk_spec (inp : GvarIn) (h : planOk inp = true) :
    inp.nout ≤ 0xFFFF ∧ inp.n2o.length = inp.slots.length ∧ ascBelow inp.nout (inp.n2o.map (·.1)) 0 = true := by
  unfold planOk at h
  simp only [Bool.and_eq_true, decide_eq_true_eq] at h
  exact ⟨h.1.1, h.1.2, h.2⟩

theorem mem_locaOffsets (pad : Bool) (nout : Nat) (ks : List (Nat × Bytes))
    (hs : (ks.map (·.1)).Pairwise (· < ·)) (hb : ∀ p ∈ ks, p.1 < nout) :
    ∀ o ∈ locaOffsets pad nout ks, ∃ j, j ≤ nout ∧ o = offAt pad ks j := by
  intro o ho
  obtain ⟨j, hj, hget⟩ := List.getElem_of_mem ho
  have hlenl := locaOffsets_length pad nout ks hs hb
  have hj' : j ≤ nout := by omega
  have := locaOffsets_getElem pad nout ks hs hb j hj'
  rw [List.getElem?_eq_getElem hj] at this
  simp at this
  exact ⟨j, hj', by rw [← hget]; exact this⟩

/-- the stored offsets array decodes (doubling in the short format) to the byte offsets -/
theorem decode_encodeOffsets (long : Bool) (nout : Nat) (ks : List (Nat × Bytes))
    (hs : (ks.map (·.1)).Pairwise (· < ·)) (hb : ∀ p ∈ ks, p.1 < nout)
    (hsz : dataSize ks < 4294967296) (hl : long = decide (dataSize ks > 0x1FFFE)) :
    (if long then decodeLong (encodeOffsets (!long) (locaOffsets (!long) nout ks))
      else decodeShort (encodeOffsets (!long) (locaOffsets (!long) nout ks))) = locaOffsets (!long) nout ks := by
  cases long with
  | true =>
    simp only [Bool.not_true, ↓reduceIte, encodeOffsets, Bool.false_eq_true]
    apply decodeLong_encode
    intro o ho
    obtain ⟨j, _, rfl⟩ := mem_locaOffsets false nout ks hs hb o ho
    have := offAt_le_dataSize false ks j
    omega
  | false =>
    simp only [Bool.not_false, Bool.false_eq_true, ↓reduceIte, encodeOffsets]
    apply decodeShort_encode
    intro o ho
    obtain ⟨j, _, rfl⟩ := mem_locaOffsets true nout ks hs hb o ho
    have h1 := offAt_le_dataSize true ks j
    have h2 := offAt_even j ks
    have h3 : ¬ dataSize ks > 0x1FFFE := by
      intro hc
      have : decide (dataSize ks > 0x1FFFE) = true := decide_eq_true hc
      rw [this] at hl
      cases hl
    omega


theorem kept_sorted_of_ok (inp : GvarIn) (h : planOk inp = true) :
    ((keptEntries inp).map (·.1)).Pairwise (· < ·) ∧ (∀ p ∈ keptEntries inp, p.1 < inp.nout) ∧ inp.nout ≤ 0xFFFF := by
  obtain ⟨h1, h2, h3⟩ := planOk_spec inp h
  obtain ⟨a, b⟩ := keptEntries_sorted inp h2 h3
  exact ⟨a, b, h1⟩

theorem sharedOffOf_le (cnt soff arr : Nat) : sharedOffOf cnt soff arr ≤ 20 + arr := by
  unfold sharedOffOf; split <;> omega

/-- `Gvar::read` accepts the emitted table and finds the fields the subsetter wrote -/
theorem readGvar_subset (inp : GvarIn) (lay : Layout) (out : Bytes) (h : subsetGvar inp = .ok (lay, out)) :
    ∃ r, readGvar out = some r ∧ r.glyphCount = inp.nout ∧ r.long = lay.long ∧ r.dao = lay.dataOff ∧
      r.sharedOff = lay.sharedOff ∧ r.axisCount = u16At inp.header 4 ∧ r.sharedCount = u16At inp.header 6 ∧
      r.offs = offsets (!lay.long) inp.nout (keptEntries inp) := by
  obtain ⟨v0, v1, v2, v3, a0, a1, c0, c1, o0, o1, o2, o3, shared, hh, hp, hsz, hlay, hdo, hsrc, hshl, hout⟩ :=
    subsetGvar_ok inp lay out h
  obtain ⟨hs, hb, hn⟩ := kept_sorted_of_ok inp hp
  have hlong : lay.long = decide (dataSize (keptEntries inp) > 0x1FFFE) := by rw [hlay]; rfl
  have hng : lay.numGlyphs = inp.nout := by rw [hlay]; rfl
  have hso : lay.sharedOff ≤ 20 + arrSize inp.nout lay.long := by
    rw [hlay]; exact sharedOffOf_le _ _ _
  have hdo2 : lay.dataOff = 20 + arrSize inp.nout lay.long +
      sharedSizeOf (a0 * 256 + a1) (c0 * 256 + c1) (o0 * 16777216 + o1 * 65536 + o2 * 256 + o3) := by
    rw [hlay]; rfl
  have hoffs := offsets_eq (!lay.long) inp.nout (keptEntries inp)
  have holen : (offsets (!lay.long) inp.nout (keptEntries inp)).length = inp.nout + 1 := by
    rw [hoffs]; exact locaOffsets_length _ _ _ hs hb
  have henc : (encodeOffsets (!lay.long) (offsets (!lay.long) inp.nout (keptEntries inp))).length =
      (inp.nout + 1) * (if lay.long then 4 else 2) := by
    rw [encodeOffsets_length, holen]
    cases lay.long <;> rfl
  have hdec := decode_encodeOffsets lay.long inp.nout (keptEntries inp) hs hb hsz hlong
  rw [← hoffs] at hdec
  have hrd := readGvar_layout v0 v1 v2 v3 a0 a1 c0 c1 lay.sharedOff inp.nout lay.dataOff lay.long
    (encodeOffsets (!lay.long) (offsets (!lay.long) inp.nout (keptEntries inp)))
    (shared ++ dataGo (!lay.long) (keptEntries inp) 0) (by omega) (by omega) hdo henc
  refine ⟨{ axisCount := a0 * 256 + a1, sharedCount := c0 * 256 + c1, sharedOff := lay.sharedOff,
            glyphCount := inp.nout, long := lay.long, dao := lay.dataOff,
            offs := if lay.long then decodeLong (encodeOffsets (!lay.long) (offsets (!lay.long) inp.nout (keptEntries inp)))
                    else decodeShort (encodeOffsets (!lay.long) (offsets (!lay.long) inp.nout (keptEntries inp))) }, ?_, ?_⟩
  · rw [hout]
    unfold assemble
    rw [hng]
    simp only [List.append_assoc] at hrd ⊢
    exact hrd
  · refine ⟨rfl, rfl, rfl, rfl, ?_, ?_, ?_⟩
    · rw [hh]; simp [u16At]
    · rw [hh]; simp [u16At]
    · exact hdec

/-- the emitted table is a front part of exactly `dataOff` bytes followed by the glyph variation data -/
theorem out_split (inp : GvarIn) (lay : Layout) (out : Bytes) (h : subsetGvar inp = .ok (lay, out)) :
    ∃ front, out = front ++ glyfBytes (!lay.long) ((keptEntries inp).map (·.2)) ∧ front.length = lay.dataOff := by
  obtain ⟨v0, v1, v2, v3, a0, a1, c0, c1, o0, o1, o2, o3, shared, hh, hp, hsz, hlay, hdo, hsrc, hshl, hout⟩ :=
    subsetGvar_ok inp lay out h
  obtain ⟨hs, hb, hn⟩ := kept_sorted_of_ok inp hp
  have hdo2 : lay.dataOff = 20 + arrSize inp.nout lay.long +
      sharedSizeOf (a0 * 256 + a1) (c0 * 256 + c1) (o0 * 16777216 + o1 * 65536 + o2 * 256 + o3) := by
    rw [hlay]; rfl
  have holen : (offsets (!lay.long) inp.nout (keptEntries inp)).length = inp.nout + 1 := by
    rw [offsets_eq]; exact locaOffsets_length _ _ _ hs hb
  have henc : (encodeOffsets (!lay.long) (offsets (!lay.long) inp.nout (keptEntries inp))).length =
      arrSize inp.nout lay.long := by
    rw [encodeOffsets_length, holen]
    unfold arrSize
    cases lay.long <;> rfl
  refine ⟨[v0, v1, v2, v3, a0, a1, c0, c1] ++ be32 lay.sharedOff ++ be16 lay.numGlyphs ++
    be16 (if lay.long then 1 else 0) ++ be32 lay.dataOff ++
    encodeOffsets (!lay.long) (offsets (!lay.long) inp.nout (keptEntries inp)) ++ shared, ?_, ?_⟩
  · rw [hout]
    unfold assemble
    rw [dataGo_eq (!lay.long) (keptEntries inp) 0 (fun _ => rfl)]
  · simp only [List.length_append, henc, hshl, be32, be16, List.length_cons, List.length_nil]
    omega
/-- converse of `emit_ok`: the listed conditions are exactly what a successful run needs -/
theorem emit_of (inp : GvarIn) (h8 : Bytes) (axis cnt soff : Nat) (shared : Bytes)
    (h1 : planOk inp = true) (h2 : dataSize (keptEntries inp) < 4294967296)
    (h3 : (layoutOf inp axis cnt soff).dataOff < 4294967296)
    (h5 : sharedSource inp cnt soff = some shared) (h6 : shared.length = sharedSizeOf axis cnt soff)
    (h7 : (assemble h8 (layoutOf inp axis cnt soff) inp.nout (keptEntries inp) shared).length ≤
      room inp.tableLen inp.srcGlyphs inp.nout)
    (h4 : 20 + arrSize inp.nout (layoutOf inp axis cnt soff).long ≤ room inp.tableLen inp.srcGlyphs inp.nout) :
    emit inp h8 axis cnt soff =
      .ok (layoutOf inp axis cnt soff, assemble h8 (layoutOf inp axis cnt soff) inp.nout (keptEntries inp) shared) := by
  unfold emit
  rw [if_neg (by simp [h1]), if_neg (by omega), if_neg (by omega), if_neg (by omega)]
  simp only [h5]
  rw [if_neg (by simp [h6]), if_neg (by omega)]


theorem ok_of_toOption {ε α : Type} (e : Except ε α) (x : α) (h : e.toOption = some x) : e = .ok x := by
  cases e with
  | error _ => simp [Except.toOption] at h
  | ok a => simp [Except.toOption] at h; rw [h]

/-! ### plan entries and kept entries -/

theorem split_at {α : Type} : ∀ (l : List α) (i : Nat) (x : α), l[i]? = some x →
    ∃ pre post, l = pre ++ x :: post := by
  intro l
  induction l with
  | nil => intro i x h; simp at h
  | cons a t ih =>
    intro i x h
    cases i with
    | zero => simp at h; exact ⟨[], t, by simp [h]⟩
    | succ i =>
      simp at h
      obtain ⟨pre, post, e⟩ := ih i x h
      exact ⟨a :: pre, post, by simp [e]⟩

theorem kept_decomp (inp : GvarIn) (i new old : Nat) (s : Slot)
    (hn : inp.n2o[i]? = some (new, old)) (hsl : inp.slots[i]? = some s) (hk : keeps inp.flags new = true) :
    ∃ pre post, keptEntries inp = pre ++ (new, s.bytes) :: post := by
  have hz : (inp.n2o.zip inp.slots)[i]? = some ((new, old), s) := by
    rw [List.getElem?_zip_eq_some]; exact ⟨hn, hsl⟩
  obtain ⟨pre, post, e⟩ := split_at _ i _ hz
  unfold keptEntries
  rw [e, List.filter_append, List.filter_cons]
  simp only [hk, ↓reduceIte, List.map_append, List.map_cons]
  exact ⟨_, _, rfl⟩

theorem kept_key_keeps (inp : GvarIn) : ∀ p ∈ keptEntries inp, keeps inp.flags p.1 = true ∧
    ∃ q ∈ inp.n2o, q.1 = p.1 := by
  intro p hp
  unfold keptEntries at hp
  obtain ⟨e, he, rfl⟩ := List.mem_map.mp hp
  obtain ⟨hz, hk⟩ := List.mem_filter.mp he
  exact ⟨hk, e.1, (List.of_mem_zip hz).1, rfl⟩


/-! ### an input for the long format (non-vacuity of Props/C17Gvar) -/

def bigIn (b : Bytes) : GvarIn :=
  { flags := 0, nout := 2, tableLen := 140000, srcGlyphs := 2,
    header := [0, 1, 0, 0, 0, 1, 0, 0, 0, 0, 0, 0], sharedSlice := some [],
    n2o := [(0, 0), (1, 1)], slots := [.none, .data b] }

theorem bigIn_kept (b : Bytes) : keptEntries (bigIn b) = [(1, b)] := by
  have h0 : keeps 0 0 = false := by decide
  have h1 : keeps 0 1 = true := by decide
  simp [keptEntries, bigIn, List.filter, h0, h1, Slot.bytes]


end FontVerif.SubsetGvar
