/-
Helper lemmas for C17 (layout part): the plan's glyph map as a monotone partial function, the two
strategies of the coverage subsetters agree, the coverage writer is C16's `iter_for_glyphs`, positions
in filtered lists.
-/
import FontVerif.Model.SubsetLayout
import FontVerif.Lemmas.Layout
import FontVerif.Lemmas.LayoutCov
set_option linter.unusedVariables false
namespace FontVerif.SubsetLayout
open FontVerif FontVerif.Layout

/-! ## the plan -/

/-- what `Plan::new` establishes for the layout subsetters: `glyph_map_gsub` has exactly the glyphs of
`glyphset_gsub` as keys (ascending), its values ascend with the keys (compact renumbering or
retain-gids), every new id fits `u16`, every glyph is below `font_num_glyphs`. -/
structure PlanOk (p : LPlan) : Prop where
  keys : p.gmap.map Prod.fst = p.glyphset
  sorted : p.gmap.Pairwise (fun a b => a.1 < b.1 ∧ a.2 < b.2)
  newLt : ∀ kv ∈ p.gmap, kv.2 < 65536
  keyLt : ∀ kv ∈ p.gmap, kv.1 < p.numGlyphs

theorem lookup_iff {m : List (Nat × Nat)} (h : m.Pairwise (fun a b => a.1 < b.1 ∧ a.2 < b.2))
    (g n : Nat) : m.lookup g = some n ↔ (g, n) ∈ m := by
  induction m with
  | nil => simp
  | cons kv rest ih =>
    obtain ⟨k, v⟩ := kv
    rw [List.pairwise_cons] at h
    simp only [List.lookup_cons]
    by_cases e : g = k
    · subst e
      simp only [beq_self_eq_true, List.mem_cons, Prod.mk.injEq, true_and]
      constructor
      · intro hv; left; injection hv with hv; exact hv.symm
      · rintro (hv | hm)
        · rw [hv]
        · have := (h.1 _ hm).1; simp at this
    · have : (g == k) = false := by simp [e]
      simp only [this, List.mem_cons, Prod.mk.injEq, e, false_and, false_or]
      exact ih h.2

theorem PlanOk.get_iff {p : LPlan} (hp : PlanOk p) (g n : Nat) : p.get g = some n ↔ (g, n) ∈ p.gmap :=
  lookup_iff hp.sorted g n

theorem PlanOk.get_mono {p : LPlan} (hp : PlanOk p) {a a' b b' : Nat} (h : a < a')
    (hb : p.get a = some b) (hb' : p.get a' = some b') : b < b' := by
  have m1 := (hp.get_iff a b).mp hb
  have m2 := (hp.get_iff a' b').mp hb'
  have hpw := hp.sorted
  rw [List.pairwise_iff_getElem] at hpw
  obtain ⟨i, hi, ei⟩ := List.getElem_of_mem m1
  obtain ⟨j, hj, ej⟩ := List.getElem_of_mem m2
  rcases Nat.lt_trichotomy i j with hij | hij | hij
  · have := hpw i j hi hj hij; rw [ei, ej] at this; exact this.2
  · subst hij; rw [ei] at ej; injection ej with e1 e2; omega
  · have := hpw j i hj hi hij; rw [ei, ej] at this; have := this.1; simp at this; omega

theorem PlanOk.get_inj {p : LPlan} (hp : PlanOk p) {a a' b : Nat}
    (hb : p.get a = some b) (hb' : p.get a' = some b) : a = a' := by
  rcases Nat.lt_trichotomy a a' with h | h | h
  · have := hp.get_mono h hb hb'; omega
  · exact h
  · have := hp.get_mono h hb' hb; omega

theorem PlanOk.get_lt {p : LPlan} (hp : PlanOk p) {g n : Nat} (h : p.get g = some n) :
    n < 65536 ∧ g < p.numGlyphs ∧ g ∈ p.glyphset := by
  have m := (hp.get_iff g n).mp h
  refine ⟨hp.newLt _ m, hp.keyLt _ m, ?_⟩
  rw [← hp.keys]
  exact List.mem_map.mpr ⟨(g, n), m, rfl⟩

theorem PlanOk.mem_glyphset {p : LPlan} (hp : PlanOk p) {g : Nat} (h : g ∈ p.glyphset) :
    ∃ n, p.get g = some n := by
  rw [← hp.keys] at h
  obtain ⟨kv, hm, e⟩ := List.mem_map.mp h
  exact ⟨kv.2, (hp.get_iff g kv.2).mpr (by rw [← e]; exact hm)⟩

theorem PlanOk.glyphset_sorted {p : LPlan} (hp : PlanOk p) : p.glyphset.Pairwise (· < ·) := by
  rw [← hp.keys, List.pairwise_map]
  exact hp.sorted.imp (fun h => h.1)

/-! ## strictly ascending lists -/

theorem sorted_ext {l1 l2 : List Nat} (h1 : l1.Pairwise (· < ·)) (h2 : l2.Pairwise (· < ·))
    (h : ∀ a, a ∈ l1 ↔ a ∈ l2) : l1 = l2 := by
  induction l1 generalizing l2 with
  | nil =>
    cases l2 with
    | nil => rfl
    | cons b t => exact absurd ((h b).mpr (List.mem_cons_self ..)) (by simp)
  | cons a s ih =>
    cases l2 with
    | nil => exact absurd ((h a).mp (List.mem_cons_self ..)) (by simp)
    | cons b t =>
      rw [List.pairwise_cons] at h1 h2
      have hab : a = b := by
        have ha := (h a).mp (List.mem_cons_self ..)
        have hb := (h b).mpr (List.mem_cons_self ..)
        rcases List.mem_cons.mp ha with e | ha'
        · exact e
        · rcases List.mem_cons.mp hb with e | hb'
          · exact e.symm
          · have := h2.1 a ha'; have := h1.1 b hb'; omega
      subst hab
      congr 1
      apply ih h1.2 h2.2
      intro x
      constructor
      · intro hx
        have := (h x).mp (List.mem_cons_of_mem _ hx)
        rcases List.mem_cons.mp this with e | hx'
        · have := h1.1 x hx; omega
        · exact hx'
      · intro hx
        have := (h x).mpr (List.mem_cons_of_mem _ hx)
        rcases List.mem_cons.mp this with e | hx'
        · have := h2.1 x hx; omega
        · exact hx'

theorem sorted_length_le_aux {l : List Nat} (h : l.Pairwise (· < ·)) (lo n : Nat)
    (hb : ∀ x ∈ l, lo ≤ x ∧ x < n) : l.length ≤ n - lo := by
  induction l generalizing lo with
  | nil => simp
  | cons a s ih =>
    rw [List.pairwise_cons] at h
    have ha := hb a (List.mem_cons_self ..)
    have := ih h.2 (a + 1) (fun x hx => ⟨h.1 x hx, (hb x (List.mem_cons_of_mem _ hx)).2⟩)
    simp only [List.length_cons]
    omega

theorem sorted_length_le {l : List Nat} (h : l.Pairwise (· < ·)) (n : Nat) (hb : ∀ x ∈ l, x < n) :
    l.length ≤ n := by
  have := sorted_length_le_aux h 0 n (fun x hx => ⟨Nat.zero_le _, hb x hx⟩)
  omega

/-! ## binary search as membership -/

theorem bsFound_iff {n : Nat} {cmpAt : Nat → Ordering} (hm : Mono n cmpAt) :
    bsFound n cmpAt = true ↔ ∃ j, j < n ∧ cmpAt j = .eq := by
  unfold bsFound
  cases hr : binarySearchBy n cmpAt with
  | ok i =>
    have := bs_ok hm hr
    simp only [true_iff]
    exact ⟨i, this.1, this.2⟩
  | err i =>
    have hne := bs_err_no_eq hm hr
    simp only [Bool.false_eq_true, false_iff]
    rintro ⟨j, hj, he⟩
    exact hne j hj he

theorem bsFound_array {xs : List Nat} (hs : xs.Pairwise (· < ·)) (g : Nat) :
    bsFound xs.length (fun i => natCmp (xs.getD i 0) g) = true ↔ g ∈ xs := by
  have hm : Mono xs.length (fun i => natCmp (xs.getD i 0) g) := by
    intro i j hij hj
    apply rank_natCmp_mono
    exact pairwise_lt_getElem?_le hs hij (getElem?_of_lt_getD 0 (by omega)) (getElem?_of_lt_getD 0 hj)
  rw [bsFound_iff hm]
  constructor
  · rintro ⟨j, hj, he⟩
    have := natCmp_eq.mp he
    rw [← this]
    simp only [List.getD, List.getElem?_eq_getElem hj, Option.getD_some]
    exact List.getElem_mem hj
  · intro hmem
    obtain ⟨k, hk, e⟩ := List.getElem_of_mem hmem
    refine ⟨k, hk, ?_⟩
    simp only [List.getD, List.getElem?_eq_getElem hk, Option.getD_some, e]
    exact natCmp_eq.mpr rfl

theorem mem_expandRanges {rs : List RangeRec} {g : Nat} :
    g ∈ expandRanges rs ↔ ∃ r ∈ rs, r.start ≤ g ∧ g ≤ r.end_ := by
  induction rs with
  | nil => simp [expandRanges]
  | cons r0 rest ih =>
    simp only [expandRanges, List.mem_append, ih, RangeRec.glyphs, List.mem_range', List.mem_cons,
      exists_eq_or_imp]
    constructor
    · rintro (⟨i, hi, e⟩ | h)
      · left; omega
      · right; exact h
    · rintro (h | h)
      · left; exact ⟨g - r0.start, by omega, by omega⟩
      · right; exact h

theorem bsFound_ranges {rs : List RangeRec} {c : Nat} (h : WFRanges c rs) (g : Nat) :
    bsFound rs.length (fun i => rangeCmp (rs.getD i default) g) = true ↔ g ∈ expandRanges rs := by
  rw [bsFound_iff (rangeCmp_mono h g), mem_expandRanges]
  constructor
  · rintro ⟨j, hj, he⟩
    have ej : rs.getD j default = rs[j] := by simp [List.getD, List.getElem?_eq_getElem hj]
    rw [ej] at he
    exact ⟨rs[j], List.getElem_mem hj, rangeCmp_eq.mp he⟩
  · rintro ⟨r, hr, hin⟩
    obtain ⟨k, hk, e⟩ := List.getElem_of_mem hr
    refine ⟨k, hk, ?_⟩
    have ek : rs.getD k default = rs[k] := by simp [List.getD, List.getElem?_eq_getElem hk]
    rw [ek, e]
    exact rangeCmp_eq.mpr hin

/-! ## the two strategies agree -/

theorem kept_sorted {p : LPlan} (hp : PlanOk p) {ys : List Nat} (hs : ys.Pairwise (· < ·)) :
    (ys.filterMap p.get).Pairwise (· < ·) := by
  apply List.Pairwise.filterMap p.get _ hs
  intro a a' haa b hb b' hb'
  exact hp.get_mono haa (by simpa using hb) (by simpa using hb')

theorem strategies_agree {p : LPlan} (hp : PlanOk p) {ys : List Nat} (hs : ys.Pairwise (· < ·))
    (mem : Nat → Bool) (hmem : ∀ g, mem g = true ↔ g ∈ ys) :
    p.glyphset.filterMap (fun g => if mem g then p.get g else none) = ys.filterMap p.get := by
  apply sorted_ext
  · apply List.Pairwise.filterMap _ _ hp.glyphset_sorted
    intro a a' haa b hb b' hb'
    by_cases h1 : mem a = true <;> by_cases h2 : mem a' = true <;> simp [h1, h2] at hb hb'
    exact hp.get_mono haa hb hb'
  · exact kept_sorted hp hs
  · intro n
    simp only [List.mem_filterMap]
    constructor
    · rintro ⟨g, hg, e⟩
      by_cases h1 : mem g = true
      · simp only [h1, ↓reduceIte] at e
        exact ⟨g, (hmem g).mp h1, e⟩
      · simp [h1] at e
    · rintro ⟨g, hg, e⟩
      refine ⟨g, (hp.get_lt e).2.2, ?_⟩
      simp [(hmem g).mpr hg, e]

/-- `CoverageFormat1::subset` retains the new ids of the kept covered glyphs, in coverage order,
whichever strategy runs and also when the array is longer than the font has glyphs -/
theorem cov1Retained_eq {p : LPlan} (hp : PlanOk p) {xs : List Nat} (hs : xs.Pairwise (· < ·)) :
    cov1Retained p xs = xs.filterMap p.get := by
  have htake : (xs.take (min xs.length p.numGlyphs)).filterMap p.get = xs.filterMap p.get := by
    conv => rhs; rw [← List.take_append_drop (min xs.length p.numGlyphs) xs]
    rw [List.filterMap_append]
    have : (xs.drop (min xs.length p.numGlyphs)).filterMap p.get = [] := by
      rw [List.filterMap_eq_nil_iff]
      intro g hg
      cases hgg : p.get g with
      | none => rfl
      | some n =>
        exfalso
        have hlt := (hp.get_lt hgg).2.1
        obtain ⟨k, hk, e⟩ := List.getElem_of_mem hg
        rw [List.getElem_drop] at e
        simp only [List.length_drop] at hk
        have hge : min xs.length p.numGlyphs + k ≤ xs[min xs.length p.numGlyphs + k] := by
          have : ∀ (i : Nat) (hi : i < xs.length), i ≤ xs[i] := by
            intro i
            induction i with
            | zero => intro _; exact Nat.zero_le _
            | succ j ih =>
              intro hi
              have := List.pairwise_iff_getElem.mp hs j (j + 1) (by omega) hi (by omega)
              have := ih (by omega)
              omega
          exact this _ _
        omega
    rw [this, List.append_nil]
  have hsub : (xs.take (min xs.length p.numGlyphs)).Pairwise (· < ·) :=
    hs.sublist (List.take_sublist _ _)
  unfold cov1Retained
  simp only []
  split
  · rw [← htake]
    apply strategies_agree hp hsub
    intro g
    exact bsFound_array hsub g
  · exact htake

theorem wf_expand_sorted {c : Nat} {rs : List RangeRec} (h : WFRanges c rs) :
    (expandRanges rs).Pairwise (· < ·) := by
  induction rs generalizing c with
  | nil => simp [expandRanges]
  | cons r0 rest ih =>
    obtain ⟨h1, h2, h3, h4⟩ := h
    simp only [expandRanges, List.pairwise_append]
    refine ⟨?_, ih h4, ?_⟩
    · simp only [RangeRec.glyphs]
      exact List.pairwise_lt_range'
    · intro a ha b hb
      simp only [RangeRec.glyphs, List.mem_range'] at ha
      obtain ⟨r, hr, hin⟩ := mem_expandRanges.mp hb
      have := h3 r hr
      omega

theorem wf_length_le_expand {c : Nat} {rs : List RangeRec} (h : WFRanges c rs) :
    rs.length ≤ (expandRanges rs).length := by
  induction rs generalizing c with
  | nil => simp
  | cons r0 rest ih =>
    obtain ⟨h1, h2, h3, h4⟩ := h
    have := ih h4
    simp only [expandRanges, List.length_append, List.length_cons, RangeRec.glyphs, List.length_range']
    omega

theorem flatMap_filterMap_expand (f : Nat → Option Nat) (rs : List RangeRec) :
    (rs.flatMap fun r => r.glyphs.filterMap f) = (expandRanges rs).filterMap f := by
  induction rs with
  | nil => rfl
  | cons r0 rest ih => simp [List.flatMap_cons, expandRanges, List.filterMap_append, ih]

/-- `CoverageFormat2::subset` likewise (well-formed records of glyphs the font has) -/
theorem cov2Retained_eq {p : LPlan} (hp : PlanOk p) {rs : List RangeRec} (h : WFRanges 0 rs)
    (hb : ∀ g ∈ expandRanges rs, g < p.numGlyphs) :
    cov2Retained p rs = .ok ((expandRanges rs).filterMap p.get) := by
  have hlen : rs.length ≤ p.numGlyphs :=
    Nat.le_trans (wf_length_le_expand h) (sorted_length_le (wf_expand_sorted h) _ hb)
  unfold cov2Retained
  have : ¬ rs.length > p.numGlyphs := by omega
  simp only [this, ↓reduceIte]
  split
  · congr 1
    apply strategies_agree hp (wf_expand_sorted h)
    intro g
    exact bsFound_ranges h g
  · congr 1
    exact flatMap_filterMap_expand _ _

/-! ## the coverage writer -/

theorem areSequential_iff (b g : Nat) : areSequential b g = true ↔ g = b + 1 := by
  unfold areSequential
  simp only [beq_iff_eq]
  omega

theorem rangesGo_length (rest : List Nat) : ∀ (a b len : Nat),
    (rangesGo a b len rest).length = 1 + countBreaks (b :: rest) := by
  induction rest with
  | nil => intro a b len; simp [rangesGo, countBreaks]
  | cons g t ih =>
    intro a b len
    simp only [rangesGo, countBreaks]
    by_cases h : areSequential b g = true
    · have hg := (areSequential_iff b g).mp h
      simp only [h, ↓reduceIte, ih]
      have : ¬ (b + 1 ≠ g) := by omega
      simp [this]
    · have hg : ¬ g = b + 1 := fun e => h ((areSequential_iff b g).mpr e)
      simp only [h, Bool.false_eq_true, ↓reduceIte, List.length_cons, ih]
      have : b + 1 ≠ g := by omega
      simp only [this, ne_eq, not_false_eq_true, ↓reduceIte]
      omega

theorem numRanges_eq {gs : List Nat} (hne : gs ≠ []) :
    1 + countBreaks gs = (iterForGlyphs gs).length := by
  cases gs with
  | nil => exact absurd rfl hne
  | cons g rest => simp [iterForGlyphs, rangesGo_length]

theorem cov2Go_eq (rest : List Nat) : ∀ (a b len idx : Nat), (∀ x ∈ rest, x < 65536) →
    idx = len + (b - a) + 1 → a ≤ b → idx + rest.length ≤ 65536 →
    cov2Go a b len idx rest = rangesGo a b len rest := by
  induction rest with
  | nil => intro a b len idx _ _ _ _; rfl
  | cons g t ih =>
    intro a b len idx hb hidx hab hlen
    have hg := hb g (List.mem_cons_self ..)
    simp only [List.length_cons] at hlen
    simp only [cov2Go, rangesGo]
    by_cases h : areSequential b g = true
    · have e := (areSequential_iff b g).mp h
      have c : b + 1 < 65536 ∧ b + 1 = g := by omega
      rw [if_pos c]
      simp only [h, ↓reduceIte]
      exact ih a g len (idx + 1) (fun x hx => hb x (List.mem_cons_of_mem _ hx)) (by omega) (by omega) (by omega)
    · have e : ¬ g = b + 1 := fun e => h ((areSequential_iff b g).mpr e)
      have c : ¬ (b + 1 < 65536 ∧ b + 1 = g) := by omega
      rw [if_neg c]
      simp only [h, Bool.false_eq_true, ↓reduceIte]
      have hm : idx % 65536 = len + 1 + (b - a) := by omega
      rw [hm]
      congr 1
      exact ih g g (len + 1 + (b - a)) (idx + 1) (fun x hx => hb x (List.mem_cons_of_mem _ hx))
        (by omega) (Nat.le_refl _) (by omega)

theorem cov2Recs_eq {gs : List Nat} (hb : ∀ x ∈ gs, x < 65536) (hlen : gs.length ≤ 65536) :
    cov2Recs gs = iterForGlyphs gs := by
  cases gs with
  | nil => rfl
  | cons g rest =>
    simp only [cov2Recs, iterForGlyphs]
    simp only [List.length_cons] at hlen
    exact cov2Go_eq rest g g 0 1 (fun x hx => hb x (List.mem_cons_of_mem _ hx)) (by omega)
      (Nat.le_refl _) (by omega)

theorem map_mod_id {gs : List Nat} (hb : ∀ x ∈ gs, x < 65536) : gs.map (· % 65536) = gs := by
  induction gs with
  | nil => rfl
  | cons a t ih =>
    simp only [List.map_cons]
    rw [ih (fun x hx => hb x (List.mem_cons_of_mem _ hx))]
    have := hb a (List.mem_cons_self ..)
    congr 1
    omega

/-- the table `CoverageTable::serialize` writes for a non-empty strictly ascending list of `u16`
glyph ids: format 1 holding the list or format 2 holding C16's `iter_for_glyphs` records, by the
code's size rule -/
theorem serializeCoverage_sorted {gs : List Nat} (hne : gs ≠ []) (hb : ∀ x ∈ gs, x < 65536)
    (hlen : gs.length < 65536) :
    serializeCoverage gs = .ok
      (if gs.length ≤ (iterForGlyphs gs).length * 3 then .f1 gs.length gs
       else .f2 (iterForGlyphs gs).length (iterForGlyphs gs)) := by
  unfold serializeCoverage
  have h1 : gs.isEmpty = false := by cases gs <;> simp_all
  simp only [h1, Bool.false_eq_true, ↓reduceIte, numRanges_eq hne, map_mod_id hb]
  have hle : (iterForGlyphs gs).length ≤ gs.length := by
    rw [← numRanges_eq hne]
    have : ∀ (l : List Nat), l ≠ [] → 1 + countBreaks l ≤ l.length := by
      intro l
      induction l with
      | nil => intro h; exact absurd rfl h
      | cons a t ih =>
        intro _
        cases t with
        | nil => simp [countBreaks]
        | cons b u =>
          have := ih (by simp)
          simp only [countBreaks, List.length_cons] at this ⊢
          split <;> omega
    exact this gs hne
  have h2 : ¬ (iterForGlyphs gs).length ≥ 65536 := by omega
  simp only [h2, ↓reduceIte]
  split
  · have : gs.length % 65536 = gs.length := by omega
    rw [this]; rfl
  · rw [cov2Recs_eq hb (by omega)]
    simp
    rfl

theorem serializeCoverage_get {gs : List Nat} (hne : gs ≠ []) (hs : gs.Pairwise (· < ·))
    (hb : ∀ x ∈ gs, x < 65536) (hlen : gs.length < 65536) :
    ∃ w, serializeCoverage gs = .ok w ∧ w.toCoverage.glyphs = gs ∧
      ∀ g, w.toCoverage.get g = indexIn g gs := by
  rw [serializeCoverage_sorted hne hb hlen]
  obtain ⟨wf, ex, en⟩ := iterForGlyphs_spec hs
  split
  · refine ⟨_, rfl, ?_, ?_⟩
    · simp [CovW.toCoverage, Coverage.glyphs]
    · intro g
      simp only [CovW.toCoverage, List.take_length]
      exact get_fmt1 hs hb g
  · refine ⟨_, rfl, ?_, ?_⟩
    · simp [CovW.toCoverage, Coverage.glyphs, ex]
    · intro g
      simp only [CovW.toCoverage, List.take_length]
      rw [get_fmt2 wf (fun r hr => hb _ (en r hr)) g, ex]

/-! ## positions in filtered lists -/

/-- the position of a retained element in the filtered list is the number of retained elements
before it -/
theorem indexIn_filter (q : Nat → Bool) : ∀ (ys : List Nat) (g i : Nat), indexIn g ys = some i →
    q g = true → indexIn g (ys.filter q) = some ((ys.take i).countP q) := by
  intro ys
  induction ys with
  | nil => intro g i h; simp [indexIn] at h
  | cons x xs ih =>
    intro g i h hq
    simp only [indexIn] at h
    by_cases e : x = g
    · subst e
      simp only [↓reduceIte, Option.some.injEq] at h
      subst h
      simp [List.filter, hq, indexIn]
    · simp only [e, ↓reduceIte, Option.map_eq_some_iff] at h
      obtain ⟨j, hj, rfl⟩ := h
      have := ih g j hj hq
      by_cases hx : q x = true
      · simp [List.filter, hx, indexIn, e, this]
      · simp [List.filter, hx, this]

theorem indexIn_filter_none (q : Nat → Bool) (ys : List Nat) (g : Nat) (h : indexIn g ys = none) :
    indexIn g (ys.filter q) = none := by
  apply indexIn_none
  intro hm
  have : g ∈ ys := (List.mem_filter.mp hm).1
  induction ys with
  | nil => simp at this
  | cons x xs ih =>
    simp only [indexIn] at h
    by_cases e : x = g
    · simp [e] at h
    · simp only [e, ↓reduceIte, Option.map_eq_none_iff] at h
      rcases List.mem_cons.mp this with e' | hm'
      · exact e e'.symm
      · exact ih h (List.mem_filter.mpr ⟨hm', (List.mem_filter.mp hm).2⟩) hm'

/-- `filterMap` by a partial function that is injective at `n`: positions agree with the plain filter -/
theorem indexIn_filterMap (f : Nat → Option Nat) (g n : Nat) (hf : f g = some n) :
    ∀ (ys : List Nat), (∀ a ∈ ys, f a = some n → a = g) →
    indexIn n (ys.filterMap f) = indexIn g (ys.filter (fun a => (f a).isSome)) := by
  intro ys
  induction ys with
  | nil => intro _; rfl
  | cons x xs ih =>
    intro hinj
    have ih' := ih (fun a ha => hinj a (List.mem_cons_of_mem _ ha))
    cases hx : f x with
    | none => simp [hx, List.filter, ih']
    | some m =>
      simp only [List.filterMap_cons, hx, List.filter, Option.isSome_some, indexIn]
      by_cases e : m = n
      · subst e
        have := hinj x (List.mem_cons_self ..) hx
        simp [this]
      · have : ¬ x = g := by
          intro e'; subst e'; rw [hf] at hx; injection hx with hx; exact e hx.symm
        simp [e, this, ih']

/-- **parallel arrays stay aligned**: an array indexed by coverage index, restricted by the same
filter as the coverage glyphs, holds at the new position of a retained glyph what the original held
at its old position -/
theorem aligned {α : Type} (q : Nat → Bool) : ∀ (ys : List Nat) (arr : List α) (g i : Nat),
    indexIn g ys = some i → q g = true →
    ((ys.zip arr).filterMap (fun x => if q x.1 then some x.2 else none))[(ys.take i).countP q]? = arr[i]? := by
  intro ys
  induction ys with
  | nil => intro arr g i h; simp [indexIn] at h
  | cons x xs ih =>
    intro arr g i h hq
    cases arr with
    | nil => simp
    | cons a as =>
      simp only [indexIn] at h
      by_cases e : x = g
      · subst e
        simp only [↓reduceIte, Option.some.injEq] at h
        subst h
        simp [hq]
      · simp only [e, ↓reduceIte, Option.map_eq_some_iff] at h
        obtain ⟨j, hj, rfl⟩ := h
        have := ih as g j hj hq
        by_cases hx : q x = true
        · simp [hx, this]
        · simp [hx, this]

/-- positions in a filtered list keep the order of the positions in the original list -/
theorem countP_take_lt (q : Nat → Bool) (ys : List Nat) {i1 i2 : Nat} {g1 : Nat}
    (h1 : ys[i1]? = some g1) (hq : q g1 = true) (hlt : i1 < i2) :
    (ys.take i1).countP q < (ys.take i2).countP q := by
  have hi1 : i1 < ys.length := (List.getElem?_eq_some_iff.mp h1).1
  have : ys.take i2 = ys.take i1 ++ (ys.drop i1).take (i2 - i1) := by
    rw [← List.take_add]
    congr 1; omega
  rw [this, List.countP_append]
  have hd : (ys.drop i1).take (i2 - i1) = g1 :: ((ys.drop (i1 + 1)).take (i2 - i1 - 1)) := by
    have e1 : ys.drop i1 = ys[i1] :: ys.drop (i1 + 1) := (List.drop_eq_getElem_cons hi1)
    have e2 : ys[i1] = g1 := by
      have := List.getElem?_eq_getElem hi1; rw [this] at h1; injection h1
    rw [e1, e2]
    obtain ⟨k, hk⟩ : ∃ k, i2 - i1 = k + 1 := ⟨i2 - i1 - 1, by omega⟩
    rw [hk, List.take_succ_cons]
    simp
  rw [hd, List.countP_cons]
  simp [hq]

theorem indexIn_getElem? {g i : Nat} {xs : List Nat} (h : indexIn g xs = some i) : xs[i]? = some g := by
  induction xs generalizing i with
  | nil => simp [indexIn] at h
  | cons x t ih =>
    simp only [indexIn] at h
    by_cases e : x = g
    · simp only [e, ↓reduceIte, Option.some.injEq] at h
      subst h; simp [e]
    · simp only [e, ↓reduceIte, Option.map_eq_some_iff] at h
      obtain ⟨j, hj, rfl⟩ := h
      simp [ih hj]

end FontVerif.SubsetLayout
