/-
Per-step facts (invariants, measures, trap freedom) of the models of Model/HandVar.lean from which
Props/C01HandVar.lean derives its theorems.
-/
import FontVerif.Lemmas.ReadIterBounds
import FontVerif.Model.HandVar
set_option linter.unusedVariables false
set_option linter.unusedSimpArgs false
namespace FontVerif.C01HandVar
open FontVerif FontVerif.ReadIter FontVerif.HandRead FontVerif.HandVar

/-! ## generic: weighted yield bound -/

/-- total weight of the items of a trace -/
def weight {α : Type} (w : α → Nat) (evs : List (Out α)) : Nat := ((items evs).map w).sum

/-- **weighted yield bound**: if a trip yielding `a` lowers the potential `ν` by at least `w a` and no
other trip raises it, the weights of all items of a run add up to at most `ν s`. -/
theorem weight_le {σ α : Type} (step : σ → Out α × σ) (ν : σ → Nat) (w : α → Nat) (Inv : σ → Prop)
    (hInv : ∀ s, Inv s → Inv (step s).2)
    (hy : ∀ s a, Inv s → (step s).1 = .yield a → ν (step s).2 + w a ≤ ν s)
    (hc : ∀ s, Inv s → (step s).1 = .cont → ν (step s).2 ≤ ν s) :
    ∀ (f : Nat) (s : σ) (evs : List (Out α)), Inv s → run step f s = some evs →
      weight w evs ≤ ν s := by
  intro f
  induction f with
  | zero => intro s evs _ h; simp [run] at h
  | succ f ih =>
    intro s evs hi h
    have hI := hInv s hi
    unfold run at h
    split at h
    · simp at h; subst h; simp [weight, items]
    · simp at h; subst h; simp [weight, items]
    · rename_i s' hs
      cases hr : run step f s' with
      | none => simp [hr] at h
      | some r =>
        simp [hr] at h; subst h
        rw [hs] at hI
        have h1 := ih s' r hI hr
        have h2 := hc s hi (by rw [hs])
        rw [hs] at h2
        have h2 : ν s' ≤ ν s := h2
        simp only [weight, items] at h1 ⊢; omega
    · rename_i a s' hs
      cases hr : run step f s' with
      | none => simp [hr] at h
      | some r =>
        simp [hr] at h; subst h
        rw [hs] at hI
        have h1 := ih s' r hI hr
        have h2 := hy s a hi (by rw [hs])
        rw [hs] at h2
        have h2 : ν s' + w a ≤ ν s := h2
        simp only [weight, items, List.map_cons, List.sum_cons] at h1 ⊢; omega

theorem mem_le_sum (l : List Nat) (x : Nat) (h : x ∈ l) : x ≤ l.sum := by
  induction l with
  | nil => simp at h
  | cons a r ih =>
    simp only [List.mem_cons] at h
    simp only [List.sum_cons]
    rcases h with rfl | h
    · omega
    · have := ih h; omega

/-! ## `TupleVariationHeader` -/

theorem satAdd_exact (a b : Nat) (h : a + b ≤ MAXU) : satAdd a b = a + b := by
  unfold satAdd; simp [h]

theorem tupleLen_le (ti ac f : Nat) : tupleLen ti ac f ≤ ac := by
  unfold tupleLen
  split <;> split <;> simp

theorem tupleLen0 (ti ac : Nat) : tupleLen ti ac 0 = if tiEmbedded ti then ac else 0 := by
  unfold tupleLen; simp; split <;> simp

theorem tupleLen1 (ti ac : Nat) : tupleLen ti ac 1 = if tiInter ti then ac else 0 := by
  unfold tupleLen; simp; split <;> simp

/-- what a successful header read establishes -/
theorem tvhRead_some {d : List Nat} {ac : Nat} {h : Hdr} (hac : ac ≤ 65535) (hr : tvhRead d ac = some h) :
    ∃ ti, readAt d 2 2 = some ti ∧ h.data = d ∧
      h.peakLen = (if tiEmbedded ti then 2 * ac else 0) ∧
      h.isLen = (if tiInter ti then 2 * ac else 0) ∧ h.ieLen = h.isLen ∧
      4 + h.peakLen + h.isLen + h.ieLen ≤ d.length := by
  unfold tvhRead at hr
  cases hti : readAt d 2 2 with
  | none => simp [hti] at hr
  | some ti =>
    refine ⟨ti, rfl, ?_⟩
    simp only [hti] at hr
    have h0 := tupleLen_le ti ac 0
    have h1 := tupleLen_le ti ac 1
    have e0 : checkedMul (tupleLen ti ac 0) 2 = some (tupleLen ti ac 0 * 2) := by
      unfold checkedMul MAXU; rw [if_pos (by omega)]
    have e1 : checkedMul (tupleLen ti ac 1) 2 = some (tupleLen ti ac 1 * 2) := by
      unfold checkedMul MAXU; rw [if_pos (by omega)]
    simp only [e0, e1] at hr
    have es : satAdd (satAdd (satAdd 4 (tupleLen ti ac 0 * 2)) (tupleLen ti ac 1 * 2)) (tupleLen ti ac 1 * 2)
        = 4 + tupleLen ti ac 0 * 2 + tupleLen ti ac 1 * 2 + tupleLen ti ac 1 * 2 := by
      rw [satAdd_exact 4 _ (by unfold MAXU; omega)]
      rw [satAdd_exact (4 + tupleLen ti ac 0 * 2) _ (by unfold MAXU; omega)]
      rw [satAdd_exact _ _ (by unfold MAXU; omega)]
    rw [es] at hr
    split at hr
    · rename_i hle
      injection hr with hr
      subst hr
      rw [tupleLen0, tupleLen1] at *
      refine ⟨rfl, ?_, ?_, rfl, ?_⟩
      · dsimp only; split <;> omega
      · dsimp only; split <;> omega
      · exact hle
    · cases hr

theorem readAt_isSome (d : List Nat) (off sz : Nat) (h : off + sz ≤ d.length) (h2 : off + sz ≤ MAXU) :
    ∃ v, readAt d off sz = some v := by
  unfold readAt checkedAdd
  simp [h, h2]

theorem uadd_some (a b : Nat) (h : a + b ≤ MAXU) : uadd a b = some (a + b) := by
  unfold uadd; simp [h]

theorem umul_some (a b : Nat) (h : a * b ≤ MAXU) : umul a b = some (a * b) := by
  unfold umul; simp [h]

@[simp] theorem tupleVals_length (d : List Nat) (a n : Nat) : (tupleVals d a n).length = n := by
  simp [tupleVals]

/-- `read_array::<F2Dot14>(a..a + 2n)` inside the data never fails -/
theorem tupleAt_some (d : List Nat) (a n : Nat) (h : a + 2 * n ≤ d.length) :
    tupleAt d (some (a, a + 2 * n)) = .some (tupleVals d a n) := by
  unfold tupleAt HandRead.readArray getRange
  simp only []
  rw [if_pos ⟨by omega, h⟩]
  simp only []
  have e1 : a + 2 * n - a = 2 * n := by omega
  rw [e1]
  simp

/-- every unwrapping getter of a successfully read header succeeds, the embedded tuples have
`axis_count` values and lie inside the header's data, `byte_len` is the validated length -/
theorem hdr_getters {d : List Nat} {ac : Nat} {h : Hdr} (hac : ac ≤ 65535) (hr : tvhRead d ac = some h) :
    ∃ ti, h.ti = some ti ∧ (∃ sz, h.size = some sz) ∧ h.data = d ∧
      h.peakLen = (if tiEmbedded ti then 2 * ac else 0) ∧
      h.isLen = (if tiInter ti then 2 * ac else 0) ∧ h.ieLen = h.isLen ∧
      h.peakTuple = (if tiEmbedded ti then .some (tupleVals d 4 ac) else .none) ∧
      h.interStartTuple = (if tiInter ti then .some (tupleVals d (4 + h.peakLen) ac) else .none) ∧
      h.interEndTuple = (if tiInter ti then .some (tupleVals d (4 + h.peakLen + h.isLen) ac) else .none) ∧
      h.interTuples = (if tiInter ti then .some (tupleVals d (4 + h.peakLen) ac)
          (tupleVals d (4 + h.peakLen + h.isLen) ac) else .none) ∧
      h.byteLen ac = some (4 + h.peakLen + h.isLen + h.ieLen) ∧
      4 + h.peakLen + h.isLen + h.ieLen ≤ d.length := by
  obtain ⟨ti, hti, hd, hpk, his, hie, hlen⟩ := tvhRead_some hac hr
  have hTi : h.ti = some ti := by unfold Hdr.ti; rw [hd]; exact hti
  have hpr : h.peakRange = some (4, 4 + h.peakLen) := by
    unfold Hdr.peakRange; rw [uadd_some _ _ (by unfold MAXU; split at hpk <;> omega)]; rfl
  have hisr : h.isRange = some (4 + h.peakLen, 4 + h.peakLen + h.isLen) := by
    unfold Hdr.isRange; rw [hpr]; simp only []
    rw [uadd_some _ _ (by unfold MAXU; split at hpk <;> split at his <;> omega)]; rfl
  have hier : h.ieRange = some (4 + h.peakLen + h.isLen, 4 + h.peakLen + h.isLen + h.ieLen) := by
    unfold Hdr.ieRange; rw [hisr]; simp only []
    rw [uadd_some _ _ (by unfold MAXU; split at hpk <;> split at his <;> omega)]; rfl
  have hIs : tiInter ti = true → tupleAt h.data h.isRange = .some (tupleVals d (4 + h.peakLen) ac) := by
    intro hi
    rw [hisr, hd]
    have e : h.isLen = 2 * ac := by rw [his, if_pos hi]
    rw [e]
    exact tupleAt_some d _ ac (by omega)
  have hIe : tiInter ti = true → tupleAt h.data h.ieRange = .some (tupleVals d (4 + h.peakLen + h.isLen) ac) := by
    intro hi
    rw [hier, hd]
    have e : h.isLen = 2 * ac := by rw [his, if_pos hi]
    have e2 : h.ieLen = 2 * ac := by rw [hie, e]
    rw [e2]
    exact tupleAt_some d _ ac (by omega)
  refine ⟨ti, hTi, ?_, hd, hpk, his, hie, ?_, ?_, ?_, ?_, ?_, hlen⟩
  · obtain ⟨v, hv⟩ := readAt_isSome d 0 2 (by omega) (by unfold MAXU; omega)
    exact ⟨v, by unfold Hdr.size; rw [hd]; exact hv⟩
  · unfold Hdr.peakTuple; rw [hTi]; simp only []
    by_cases he : tiEmbedded ti = true
    · rw [if_pos he, if_pos he, hpr, hd]
      have e : h.peakLen = 2 * ac := by rw [hpk, if_pos he]
      rw [e]
      exact tupleAt_some d 4 ac (by omega)
    · rw [if_neg he, if_neg he]
  · unfold Hdr.interStartTuple; rw [hTi]; simp only []
    by_cases hi : tiInter ti = true
    · rw [if_pos hi, if_pos hi]; exact hIs hi
    · rw [if_neg hi, if_neg hi]
  · unfold Hdr.interEndTuple; rw [hTi]; simp only []
    by_cases hi : tiInter ti = true
    · rw [if_pos hi, if_pos hi]; exact hIe hi
    · rw [if_neg hi, if_neg hi]
  · unfold Hdr.interTuples; rw [hTi]; simp only []
    by_cases hi : tiInter ti = true
    · rw [if_pos hi, if_pos hi, hIs hi, hIe hi]
    · rw [if_neg hi, if_neg hi]
  · unfold Hdr.byteLen; rw [hTi]; simp only []
    rw [umul_some 2 ac (by unfold MAXU; omega)]
    simp only []
    rw [umul_some (2 * ac) 2 (by unfold MAXU; omega)]
    rw [uadd_some 4 _ (by unfold MAXU; split <;> omega)]
    simp only []
    rw [uadd_some _ _ (by unfold MAXU; split <;> split <;> omega)]
    rw [hie, hpk, his]
    congr 1
    by_cases he : tiEmbedded ti = true <;> by_cases hi : tiInter ti = true <;> simp [he, hi] <;> omega

/-! ## generic: exact trip count -/

/-- if the loop ends exactly when `μ = 0`, every other trip lowers `μ` by one and none traps, a run
makes exactly `μ s` trips -/
theorem run_exact {σ α : Type} (step : σ → Out α × σ) (μ : σ → Nat) (Inv : σ → Prop)
    (hInv : ∀ s, Inv s → Inv (step s).2)
    (h0 : ∀ s, Inv s → ((step s).1 = .done ↔ μ s = 0))
    (hdec : ∀ s, Inv s → (step s).1 ≠ .done → μ (step s).2 + 1 = μ s)
    (hnt : ∀ s, Inv s → (step s).1 ≠ .trap) :
    ∀ (f : Nat) (s : σ), Inv s → μ s < f → ∃ evs, run step f s = some evs ∧ evs.length = μ s := by
  intro f
  induction f with
  | zero => intro s _ h; omega
  | succ f ih =>
    intro s hi hf
    have hI := hInv s hi
    have hD := hdec s hi
    have hZ := h0 s hi
    have hT := hnt s hi
    unfold run
    split
    · rename_i s' hs
      rw [hs] at hZ
      exact ⟨[], rfl, by simp; exact (hZ.mp rfl).symm⟩
    · rename_i s' hs
      rw [hs] at hT; exact absurd rfl hT
    · rename_i s' hs
      rw [hs] at hD hI
      have hlt : μ s' + 1 = μ s := hD (by simp)
      obtain ⟨evs, he, hl⟩ := ih s' hI (by omega)
      exact ⟨.cont :: evs, by simp [he], by simp only [List.length_cons]; omega⟩
    · rename_i a s' hs
      rw [hs] at hD hI
      have hlt : μ s' + 1 = μ s := hD (by simp)
      obtain ⟨evs, he, hl⟩ := ih s' hI (by omega)
      exact ⟨.yield a :: evs, by simp [he], by simp only [List.length_cons]; omega⟩

/-! ## `TupleVariationHeaderIter` -/

/-- one call of `TupleVariationHeaderIter::next` -/
theorem tvhNext_facts (n ac : Nat) (hac : ac ≤ 65535) (hn : n ≤ 4095) (s : HSt) (hi : s.current ≤ n) :
    (tvhNext n ac s).2.current ≤ n ∧ (tvhNext n ac s).1 ≠ .trap ∧ (tvhNext n ac s).1 ≠ .cont ∧
    ((tvhNext n ac s).1 = .done ↔ s.current = n) ∧
    ((tvhNext n ac s).1 ≠ .done → (tvhNext n ac s).2.current = s.current + 1) ∧
    (tvhNext n ac s).2.data.length ≤ s.data.length ∧
    (∀ h, (tvhNext n ac s).1 = .yield (some h) →
        tvhRead s.data ac = some h ∧ (tvhNext n ac s).2.data.length + 4 ≤ s.data.length) := by
  unfold tvhNext
  by_cases hc : s.current = n
  · rw [if_pos hc]
    refine ⟨by omega, by simp, by simp, by simp [hc], by simp, Nat.le_refl _, by simp⟩
  · rw [if_neg hc]
    rw [uadd_some _ _ (by unfold MAXU; omega)]
    simp only []
    cases hr : tvhRead s.data ac with
    | none =>
      simp only []
      have : splitOff s.data 0 = some (s.data.length - 0) := by unfold splitOff; simp
      rw [this]
      simp only []
      refine ⟨by omega, by simp, by simp, by simp [hc], by simp, by simp, by simp⟩
    | some h =>
      simp only []
      obtain ⟨ti, hTi, _, hd, _, _, _, _, _, _, _, hbl, hlen⟩ := hdr_getters hac hr
      rw [hbl]
      simp only []
      have : splitOff s.data (4 + h.peakLen + h.isLen + h.ieLen) =
          some (s.data.length - (4 + h.peakLen + h.isLen + h.ieLen)) := by
        unfold splitOff; rw [if_pos hlen]
      rw [this]
      simp only []
      refine ⟨by omega, by simp, by simp, by simp [hc], by simp, by simp, ?_⟩
      intro h' hh
      simp at hh
      subst hh
      refine ⟨rfl, ?_⟩
      simp only [List.length_drop]
      omega

/-! ## `TupleVariationIter` -/

theorem tvcCount_le (b : Nat) : tvcCount b ≤ 4095 := by
  unfold tvcCount; omega

def TInv (p : TVD) (s : TSt) : Prop :=
  s.current ≤ tvcCount p.countBits ∧ s.h.current ≤ tvcCount p.countBits

/-- one call of `TupleVariationIter::next_tuple` -/
theorem tvNext_facts (p : TVD) (hac : p.ac ≤ 65535) (s : TSt) (hi : TInv p s) :
    TInv p (tvNext p s).2 ∧ (tvNext p s).1 ≠ .trap ∧
    ((tvNext p s).1 ≠ .done → (tvNext p s).2.current = s.current + 1 ∧ s.current < tvcCount p.countBits) ∧
    (tvNext p s).2.h.data.length ≤ s.h.data.length ∧ (tvNext p s).2.ser.length ≤ s.ser.length ∧
    (∀ t, (tvNext p s).1 = .yield t →
      tvhRead s.h.data p.ac = some t.hdr ∧
      (tvNext p s).2.h.data.length + 4 ≤ s.h.data.length ∧
      t.varData.length + (tvNext p s).2.ser.length = s.ser.length) := by
  obtain ⟨hi1, hi2⟩ := hi
  have hcnt := tvcCount_le p.countBits
  unfold tvNext
  simp only []
  by_cases hc : tvcCount p.countBits = s.current
  · rw [if_pos hc]
    exact ⟨⟨hi1, hi2⟩, by simp, by simp, Nat.le_refl _, Nat.le_refl _, by simp⟩
  · rw [if_neg hc]
    rw [uadd_some _ _ (by unfold MAXU; omega)]
    simp only []
    have hf := tvhNext_facts (tvcCount p.countBits) p.ac hac hcnt s.h hi2
    generalize tvhNext (tvcCount p.countBits) p.ac s.h = rh at hf
    obtain ⟨o, h'⟩ := rh
    simp only [] at hf
    obtain ⟨f1, f2, f3, f4, f5, f6, f7⟩ := hf
    cases o with
    | trap => exact absurd rfl f2
    | cont => exact absurd rfl f3
    | done =>
      simp only []
      exact ⟨⟨by dsimp only; omega, f1⟩, by simp, by simp, f6, Nat.le_refl _, by simp⟩
    | yield oh =>
      cases oh with
      | none =>
        simp only []
        exact ⟨⟨by dsimp only; omega, f1⟩, by simp, by simp, f6, Nat.le_refl _, by simp⟩
      | some hdr =>
        simp only []
        obtain ⟨hr, hl⟩ := f7 hdr rfl
        obtain ⟨ti, hTi, ⟨sz, hsz⟩, hd, _⟩ := hdr_getters hac hr
        rw [hsz]
        simp only []
        unfold takeUpTo
        by_cases hgt : sz > s.ser.length
        · rw [if_pos hgt]
          simp only []
          exact ⟨⟨by dsimp only; omega, f1⟩, by simp, by simp, f6, Nat.le_refl _, by simp⟩
        · rw [if_neg hgt]
          simp only []
          refine ⟨⟨by dsimp only; omega, f1⟩, by simp, fun _ => ⟨trivial, by omega⟩, f6, by simp, ?_⟩
          intro t ht
          simp at ht
          subst ht
          refine ⟨hr, hl, ?_⟩
          simp only [List.length_take, List.length_drop]
          omega

/-- the header iterator only ever drops a prefix of its data -/
theorem tvhNext_sub (n ac : Nat) (s : HSt) : ∀ b ∈ (tvhNext n ac s).2.data, b ∈ s.data := by
  intro b hb
  unfold tvhNext at hb
  split at hb
  · exact hb
  · split at hb
    · exact hb
    · simp only [] at hb
      cases hr : tvhRead s.data ac with
      | none =>
        rw [hr] at hb
        simp only [] at hb
        split at hb
        · exact hb
        · exact List.mem_of_mem_drop hb
      | some h =>
        rw [hr] at hb
        simp only [] at hb
        cases hbl : h.byteLen ac with
        | none => rw [hbl] at hb; exact hb
        | some k =>
          rw [hbl] at hb
          simp only [] at hb
          split at hb
          · exact hb
          · exact List.mem_of_mem_drop hb

theorem tvNext_sub (p : TVD) (s : TSt) : ∀ b ∈ (tvNext p s).2.h.data, b ∈ s.h.data := by
  intro b hb
  have hsub := tvhNext_sub (tvcCount p.countBits) p.ac s.h
  unfold tvNext at hb
  simp only [] at hb
  split at hb
  · exact hb
  · split at hb
    · exact hb
    · generalize tvhNext (tvcCount p.countBits) p.ac s.h = rh at hb hsub
      obtain ⟨o, h'⟩ := rh
      simp only [] at hsub
      cases o with
      | trap => exact hsub b hb
      | done => exact hsub b hb
      | cont => exact hsub b hb
      | yield oh =>
        cases oh with
        | none => exact hsub b hb
        | some hdr =>
          simp only [] at hb
          split at hb
          · exact hsub b hb
          · split at hb
            · exact hsub b hb
            · exact hsub b hb

/-! ## `TupleVariation` accessors -/

/-- the list holds bytes -/
def Bytes (d : List Nat) : Prop := ∀ b ∈ d, b < 256

def I16 (x : Int) : Prop := -32768 ≤ x ∧ x ≤ 32767

theorem beAt2_lt (d : List Nat) (hb : Bytes d) (pos : Nat) : HandRead.beAt d pos 2 < 65536 := by
  unfold HandRead.beAt
  have hb' : ∀ b ∈ d.drop pos, b < 256 := fun b h => hb b (List.mem_of_mem_drop h)
  generalize d.drop pos = l at hb'
  match l, hb' with
  | [], _ => simp [beValue]
  | [a], h => have := h a (by simp); simp [beValue]; omega
  | a :: b :: r, h =>
    have h1 := h a (by simp)
    have h2 := h b (by simp)
    simp [beValue]; omega

theorem toI16_I16 (v : Nat) (h : v < 65536) : I16 (toI16 v) := by
  unfold toI16 I16; split <;> omega

theorem tupleVals_I16 (d : List Nat) (hb : Bytes d) (a n : Nat) : ∀ v ∈ tupleVals d a n, I16 v := by
  intro v hv
  simp only [tupleVals, List.mem_map, List.mem_range] at hv
  obtain ⟨i, _, rfl⟩ := hv
  exact toI16_I16 _ (beAt2_lt d hb _)

theorem sharedTupleGet_facts (sd : List Nat) (ac idx : Nat) (v : List Int) (h : sharedTupleGet sd ac idx = some v) :
    v.length = ac ∧ (Bytes sd → ∀ x ∈ v, I16 x) ∧
    ∃ off, off + 2 * ac ≤ sd.length ∧ off = idx * (2 * ac) := by
  unfold sharedTupleGet at h
  cases hc : compGet sd.length (2 * ac) idx with
  | none => simp [hc] at h
  | some off =>
    simp [hc] at h
    subst h
    refine ⟨by simp, fun hb => tupleVals_I16 sd hb off ac, off, ?_⟩
    unfold compGet checkedMul at hc
    split at hc
    · cases hc
    · rename_i o ho
      split at ho
      · injection ho with ho
        subst ho
        split at hc
        · injection hc with hc; subst hc; exact ⟨by omega, rfl⟩
        · cases hc
      · cases ho

/-- for a tuple whose header was read successfully: `peak()` does not panic, has 0 or `axis_count`
values, all of them `i16`s -/
theorem peak_facts (p : TVD) (t : TV) (d' : List Nat) (hac : p.ac ≤ 65535) (hr : tvhRead d' p.ac = some t.hdr) :
    ∃ v, t.peak p = some v ∧ (v.length = p.ac ∨ v = []) ∧
      (Bytes d' → (∀ sd, p.shared = some sd → Bytes sd) → ∀ x ∈ v, I16 x) := by
  obtain ⟨ti, hTi, _, hd, hpl, hil, hel, hpk, _⟩ := hdr_getters hac hr
  unfold TV.peak
  rw [hTi]
  simp only []
  cases hfs : peakShared p ti with
  | some v =>
    simp only []
    have : ∃ idx sd, p.shared = some sd ∧ sharedTupleGet sd p.ac idx = some v := by
      unfold peakShared at hfs
      split at hfs
      · rename_i idx sd h1 h2; exact ⟨idx, sd, h2, hfs⟩
      · cases hfs
    obtain ⟨idx, sd, hsd, hg⟩ := this
    obtain ⟨h1, h2, _⟩ := sharedTupleGet_facts sd p.ac idx v hg
    exact ⟨v, rfl, Or.inl h1, fun _ hs => h2 (hs sd hsd)⟩
  | none =>
    simp only []
    rw [hpk]
    by_cases he : tiEmbedded ti = true
    · rw [if_pos he]
      exact ⟨_, rfl, Or.inl (by simp), fun hb _ => tupleVals_I16 d' hb 4 p.ac⟩
    · rw [if_neg he]
      exact ⟨[], rfl, Or.inr rfl, fun _ _ x hx => by simp at hx⟩

theorem splitOffFront_some (d : List Nat) : ∃ r, splitOffFront d = some (d, r) ∧ r.length ≤ d.length := by
  unfold splitOffFront
  obtain ⟨tl, htl⟩ := C01Iter.totalLen_some d
  rw [htl]
  simp only []
  refine ⟨_, rfl, ?_⟩
  split
  · simp
  · simp

/-- the point numbers / packed deltas of a tuple: never a panic, the delta bytes are a suffix of the
tuple's own data -/
theorem pointsAndDeltas_some (p : TVD) (t : TV) (d' : List Nat) (hac : p.ac ≤ 65535)
    (hr : tvhRead d' p.ac = some t.hdr) :
    ∃ pd dd, t.pointsAndDeltas p = some (pd, dd) ∧ dd.length ≤ t.varData.length ∧
      (pd = t.varData ∨ pd = p.sharedPts.getD []) := by
  obtain ⟨ti, hTi, _⟩ := hdr_getters hac hr
  unfold TV.pointsAndDeltas
  rw [hTi]
  simp only []
  split
  · obtain ⟨r, hr', hl⟩ := splitOffFront_some t.varData
    exact ⟨_, r, hr', hl, Or.inl rfl⟩
  · exact ⟨_, _, rfl, Nat.le_refl _, Or.inr rfl⟩

theorem hasAll_some (p : TVD) (t : TV) (d' : List Nat) (hac : p.ac ≤ 65535)
    (hr : tvhRead d' p.ac = some t.hdr) : ∃ b, t.hasDeltasForAllPoints p = some b := by
  obtain ⟨ti, hTi, _⟩ := hdr_getters hac hr
  unfold TV.hasDeltasForAllPoints
  rw [hTi]
  simp only []
  split
  · exact ⟨_, rfl⟩
  · split <;> exact ⟨_, rfl⟩

theorem f32_no_trap (p : TVD) (t : TV) (d' : List Nat) (hac : p.ac ≤ 65535)
    (hr : tvhRead d' p.ac = some t.hdr) (coords : List Int) : ∃ b, t.computeScalarF32 p coords = .ok b := by
  obtain ⟨v, hv, _⟩ := peak_facts p t d' hac hr
  obtain ⟨ti, hTi, _, hd, hpl, hil, hel, hpk, his, hie, _⟩ := hdr_getters hac hr
  unfold TV.computeScalarF32
  rw [hv, his, hie]
  by_cases hi : tiInter ti = true
  · rw [if_pos hi, if_pos hi]
    simp only []
    split <;> exact ⟨_, rfl⟩
  · rw [if_neg hi, if_neg hi]
    simp only []
    split <;> exact ⟨_, rfl⟩

/-- `compute_scalar` hands the arithmetic kernel only `i16` tuples; it panics only if the kernel traps -/
theorem computeScalar_facts (p : TVD) (t : TV) (d' : List Nat) (hac : p.ac ≤ 65535)
    (hr : tvhRead d' p.ac = some t.hdr) (hb : Bytes d') (hs : ∀ sd, p.shared = some sd → Bytes sd)
    (coords : List Int)
    (hk : ∀ (pk : List Int) (inter : Option (List Int × List Int)), (∀ c ∈ pk, I16 c) →
      (∀ q, inter = some q → (∀ c ∈ q.1, I16 c) ∧ (∀ c ∈ q.2, I16 c)) →
      (Checked.tupleScalar pk inter coords).isSome) :
    ∃ r, t.computeScalar p coords = .ok r := by
  obtain ⟨v, hv, _, hvi⟩ := peak_facts p t d' hac hr
  obtain ⟨ti, hTi, _, hd, hpl, hil, hel, hpk, his, hie, hit, _⟩ := hdr_getters hac hr
  unfold TV.computeScalar
  rw [hv]
  simp only []
  split
  · exact ⟨_, rfl⟩
  · rw [hit]
    by_cases hi : tiInter ti = true
    · simp only [hi, if_true]
      have := hk v (some (tupleVals d' (4 + t.hdr.peakLen) p.ac, tupleVals d' (4 + t.hdr.peakLen + t.hdr.isLen) p.ac))
        (hvi hb hs) (by
          intro q hq
          injection hq with hq
          subst hq
          exact ⟨tupleVals_I16 d' hb _ _, tupleVals_I16 d' hb _ _⟩)
      obtain ⟨r, hr⟩ := Option.isSome_iff_exists.mp this
      exact ⟨r, by rw [hr]; rfl⟩
    · simp only [hi, if_false]
      have := hk v none (hvi hb hs) (by intro q hq; cases hq)
      obtain ⟨r, hr⟩ := Option.isSome_iff_exists.mp this
      exact ⟨r, by rw [hr]; rfl⟩

/-! ## `TupleVariation::deltas` with shared point numbers -/

open FontVerif.C01Iter in
theorem tdInit2_some (pd dd : List Nat) (isPoint : Bool) :
    ∃ s, tdInit2 pd dd isPoint = some s ∧ TdInv s ∧ muTd s < tdFuel dd := by
  unfold tdInit2
  simp only []
  have htot : ∃ total, (if pointCount pd = 0 then countAllDeltas dd
        else some (if isPoint then pointCount pd * 2 else pointCount pd)) = some total ∧
        total ≤ 64 * dd.length + 65534 := by
    by_cases hc : pointCount pd = 0
    · rw [if_pos hc]
      obtain ⟨r, hr, hb⟩ := countAllLoop_some dd (dd.length + 1) 0 0 (by omega)
      exact ⟨r, hr, by omega⟩
    · rw [if_neg hc]
      have := count_le pd
      refine ⟨_, rfl, ?_⟩
      unfold pointCount
      split <;> omega
  obtain ⟨total, ht, hb⟩ := htot
  rw [ht]
  simp only []
  have h0 : (ptInit pd).seen ≤ (ptInit pd).count := by simp [ptInit]
  have hf := ptNext_facts pd (ptInit pd) h0
  have hy := ptNext_yield_le pd (ptInit pd)
  have hm := muPt_init_le pd
  generalize ptNext pd (ptInit pd) = first at hf hy
  obtain ⟨o1, p1⟩ := first
  simp only [] at hf hy
  cases hb' : isPoint with
  | true =>
    simp only [if_true]
    obtain ⟨ys, hys⟩ := skipFastLoop_some dd (total / 2) (dd.length + 2) (total / 2)
      (dlInit (some total)) (by simp [dlInit])
    unfold skipFast
    rw [hys]
    simp only []
    refine ⟨_, rfl, ?_, ?_⟩
    · cases o1 with
      | yield v => simp only [TdInv]; exact ⟨hf.1, hy v rfl⟩
      | cont => simp [TdInv, dlInit]
      | done => simp [TdInv, dlInit]
      | trap => simp [TdInv, dlInit]
    · cases o1 with
      | yield v =>
        have := hf.2.2.2 (by simp)
        simp only [muTd, tdFuel]; omega
      | cont => simp only [muTd, tdFuel, muDl, dlInit, Option.getD_some]; omega
      | done => simp only [muTd, tdFuel, muDl, dlInit, Option.getD_some]; omega
      | trap => simp only [muTd, tdFuel, muDl, dlInit, Option.getD_some]; omega
  | false =>
    simp only [Bool.false_eq_true, if_false]
    refine ⟨_, rfl, ?_, ?_⟩
    · cases o1 with
      | yield v => simp only [TdInv]; exact ⟨hf.1, hy v rfl⟩
      | cont => simp [TdInv, dlInit]
      | done => simp [TdInv, dlInit]
      | trap => simp [TdInv, dlInit]
    · cases o1 with
      | yield v =>
        have := hf.2.2.2 (by simp)
        simp only [muTd, tdFuel]; omega
      | cont => simp only [muTd, tdFuel, muDl, dlInit, Option.getD_some]; omega
      | done => simp only [muTd, tdFuel, muDl, dlInit, Option.getD_some]; omega
      | trap => simp only [muTd, tdFuel, muDl, dlInit, Option.getD_some]; omega

open FontVerif.C01Iter in
/-- `tuple.deltas()` over separate point / delta buffers terminates without trapping -/
theorem deltas_run (pd dd : List Nat) (isPoint : Bool) :
    ∃ s evs, tdInit2 pd dd isPoint = some s ∧ run (tdStep pd dd) (tdFuel dd) s = some evs ∧
      evs.length ≤ 128 * dd.length + 131204 ∧ trapped evs = false := by
  obtain ⟨s0, hinit, hinv, hmu⟩ := tdInit2_some pd dd isPoint
  obtain ⟨evs, he, hl⟩ := run_complete (tdStep pd dd) muTd TdInv
    (fun s hi => (tdStep_facts pd dd s hi).1) (fun s hi => (tdStep_facts pd dd s hi).2.2) (tdFuel dd) s0 hinv hmu
  refine ⟨s0, evs, hinit, he, ?_, not_trapped (tdStep pd dd) TdInv (fun s hi => (tdStep_facts pd dd s hi).1)
    (fun s hi => (tdStep_facts pd dd s hi).2.1) _ _ _ hinv he⟩
  unfold tdFuel at hmu
  omega

/-! ## `GlyphVariationData::new`, `Cvar::variation_data` -/

theorem resolveData_facts (d : List Nat) (off : Nat) :
    resolveData d off ≠ .trap ∧ ∀ r, resolveData d off = .ok r → r = d.drop off ∧ off ≤ d.length ∧ 0 < off := by
  unfold resolveData
  split
  · exact ⟨by simp, by simp⟩
  · split
    · refine ⟨by simp, ?_⟩
      intro r hr
      injection hr with hr
      exact ⟨hr.symm, by assumption, by omega⟩
    · exact ⟨by simp, by simp⟩

theorem splitShared_facts (c : Nat) (data : List Nat) :
    ∃ sp ser, splitShared c data = .ok (sp, ser) ∧ ser.length ≤ data.length ∧
      (∀ x, sp = some x → x = data) ∧ (sp.isSome = tvcShared c) := by
  unfold splitShared
  split
  · rename_i hs
    obtain ⟨r, hr, hl⟩ := splitOffFront_some data
    rw [hr]
    exact ⟨some data, r, rfl, hl, by simp, by simp [hs]⟩
  · rename_i hs
    exact ⟨none, data, rfl, Nat.le_refl _, by simp, by simp [hs]⟩

theorem satAdd_sub_le (k n : Nat) (h : k ≤ n) : satAdd k (n - k) ≤ n := by
  unfold satAdd
  split <;> omega

theorem satAdd_sub_gt (k n : Nat) (h : n < k) (hk : k ≤ MAXU) : satAdd k (n - k) > n := by
  unfold satAdd
  have : n - k = 0 := by omega
  rw [this]
  split <;> omega

theorem resolveData_err (d : List Nat) (off : Nat) (e : VErr) (h : resolveData d off = .err e) :
    e = .oob ∨ e = .nullOffset := by
  unfold resolveData at h
  split at h
  · injection h with h; exact Or.inr h.symm
  · split at h
    · cases h
    · injection h with h; exact Or.inl h.symm

/-- `GlyphVariationData::new` never panics; on success the header data is everything behind the four
fixed bytes and the serialized data a suffix of the glyph's data -/
theorem gvdNew_facts (d : List Nat) (ac : Nat) (shared : List Nat) :
    gvdNew d ac shared ≠ .trap ∧ (∀ e, gvdNew d ac shared = .err e → e = .oob ∨ e = .nullOffset) ∧
    ∀ p, gvdNew d ac shared = .ok p →
      p.ac = ac ∧ p.shared = some shared ∧ p.headerData = d.drop 4 ∧ 4 ≤ d.length ∧
      p.ser.length ≤ d.length ∧ (∀ sp, p.sharedPts = some sp → ∃ off, sp = d.drop off) ∧
      readAt d 0 2 = some p.countBits := by
  unfold gvdNew
  simp only []
  by_cases h4 : d.length < 4
  · have := satAdd_sub_gt 4 d.length h4 (by unfold MAXU; omega)
    rw [if_pos this]
    exact ⟨by simp, by simp, by simp⟩
  · have := satAdd_sub_le 4 d.length (by omega)
    rw [if_neg (by omega)]
    have e1 : splitOff d 4 = some (d.length - 4) := by unfold splitOff; rw [if_pos (by omega)]
    obtain ⟨c, hc⟩ := readAt_isSome d 0 2 (by omega) (by unfold MAXU; omega)
    obtain ⟨o, ho⟩ := readAt_isSome d 2 2 (by omega) (by unfold MAXU; omega)
    rw [e1, hc, ho]
    simp only []
    have hres := resolveData_facts d o
    cases hr : resolveData d o with
    | trap => exact absurd hr hres.1
    | err e => exact ⟨by simp, fun e' he' => by injection he' with he'; subst he'; exact resolveData_err d o e hr, by simp⟩
    | ok data =>
      simp only []
      obtain ⟨hdata, hol, _⟩ := hres.2 data hr
      obtain ⟨sp, ser, hs, hl, hsp, _⟩ := splitShared_facts c data
      rw [hs]
      simp only []
      refine ⟨by simp, by simp, ?_⟩
      intro p hp
      injection hp with hp
      subst hp
      refine ⟨rfl, rfl, rfl, by omega, ?_, ?_, rfl⟩
      · simp only []; rw [hdata] at hl; simp only [List.length_drop] at hl; omega
      · intro x hx; exact ⟨o, by rw [hsp x hx, hdata]⟩

/-- `Cvar::read` + `Cvar::variation_data` never panic -/
theorem cvarVariationData_facts (d : List Nat) (ac : Nat) :
    cvarVariationData d ac ≠ .trap ∧ (∀ e, cvarVariationData d ac = .err e → e = .oob ∨ e = .nullOffset) ∧
    ∀ p, cvarVariationData d ac = .ok p →
      p.ac = ac ∧ p.shared = none ∧ p.headerData = d.drop 8 ∧ 8 ≤ d.length ∧
      p.ser.length ≤ d.length ∧ (∀ sp, p.sharedPts = some sp → ∃ off, sp = d.drop off) ∧
      readAt d 4 2 = some p.countBits := by
  unfold cvarVariationData
  simp only []
  by_cases h8 : d.length < 8
  · have := satAdd_sub_gt 8 d.length h8 (by unfold MAXU; omega)
    rw [if_pos this]
    exact ⟨by simp, by simp, by simp⟩
  · have := satAdd_sub_le 8 d.length (by omega)
    rw [if_neg (by omega)]
    have e1 : splitOff d 8 = some (d.length - 8) := by unfold splitOff; rw [if_pos (by omega)]
    obtain ⟨c, hc⟩ := readAt_isSome d 4 2 (by omega) (by unfold MAXU; omega)
    obtain ⟨o, ho⟩ := readAt_isSome d 6 2 (by omega) (by unfold MAXU; omega)
    rw [hc, ho]
    simp only []
    have hres := resolveData_facts d o
    cases hr : resolveData d o with
    | trap => exact absurd hr hres.1
    | err e => exact ⟨by simp, fun e' he' => by injection he' with he'; subst he'; exact resolveData_err d o e hr, by simp⟩
    | ok data =>
      simp only []
      rw [e1]
      simp only []
      obtain ⟨hdata, hol, _⟩ := hres.2 data hr
      obtain ⟨sp, ser, hs, hl, hsp, _⟩ := splitShared_facts c data
      rw [hs]
      simp only []
      refine ⟨by simp, by simp, ?_⟩
      intro p hp
      injection hp with hp
      subst hp
      refine ⟨rfl, rfl, rfl, by omega, ?_, ?_, rfl⟩
      · simp only []; rw [hdata] at hl; simp only [List.length_drop] at hl; omega
      · intro x hx; exact ⟨o, by rw [hsp x hx, hdata]⟩

/-! ## `Gvar` -/

theorem beAt_lt (d : List Nat) (hb : Bytes d) (pos n : Nat) : HandRead.beAt d pos n < 256 ^ n := by
  unfold HandRead.beAt
  have hb' : ∀ b ∈ (d.drop pos).take n, b < 256 :=
    fun b h => hb b (List.mem_of_mem_drop (List.mem_of_mem_take h))
  have hl : ((d.drop pos).take n).length ≤ n := List.length_take_le _ _
  generalize (d.drop pos).take n = l at hb' hl
  have key : ∀ (l : List Nat) (acc : Nat), (∀ b ∈ l, b < 256) →
      l.foldl (fun acc b => acc * 256 + b) acc < (acc + 1) * 256 ^ l.length := by
    intro l
    induction l with
    | nil => intro acc _; simp
    | cons a r ih =>
      intro acc h
      have ha := h a (by simp)
      have := ih (acc * 256 + a) (fun b hb => h b (by simp [hb]))
      simp only [List.foldl_cons, List.length_cons]
      calc _ < (acc * 256 + a + 1) * 256 ^ r.length := this
        _ ≤ ((acc + 1) * 256) * 256 ^ r.length := Nat.mul_le_mul_right _ (by omega)
        _ = (acc + 1) * 256 ^ (r.length + 1) := by rw [Nat.pow_succ, Nat.mul_assoc, Nat.mul_comm 256]
  have := key l 0 hb'
  unfold beValue
  calc _ < (0 + 1) * 256 ^ l.length := this
    _ ≤ 256 ^ n := by simp; exact Nat.pow_le_pow_right (by omega) hl

theorem readAt_lt (d : List Nat) (hb : Bytes d) (off sz v : Nat) (h : readAt d off sz = some v) : v < 256 ^ sz := by
  unfold readAt at h
  split at h
  · cases h
  · split at h
    · injection h with h; subst h; exact beAt_lt d hb off sz
    · cases h

/-- what a successful `Gvar::read` establishes -/
theorem gvarRead_some {d : List Nat} {g : Gv} (hb : Bytes d) (hr : gvarRead d = some g) :
    g.d = d ∧ 20 + g.offsLen ≤ d.length ∧
    ∃ gc fl, readAt d 12 2 = some gc ∧ readAt d 14 2 = some fl ∧
      g.offsLen = (gc + 1) * (if fl % 2 = 1 then 4 else 2) := by
  unfold gvarRead at hr
  cases hgc : readAt d 12 2 with
  | none => simp [hgc] at hr
  | some gc =>
    cases hfl : readAt d 14 2 with
    | none => simp [hgc, hfl] at hr
    | some fl =>
      simp only [hgc, hfl] at hr
      have hgcl := readAt_lt d hb 12 2 gc hgc
      have e1 : satAdd gc 1 = gc + 1 := satAdd_exact _ _ (by unfold MAXU; omega)
      rw [e1] at hr
      have e2 : checkedMul (gc + 1) (if fl % 2 = 1 then 4 else 2) = some ((gc + 1) * (if fl % 2 = 1 then 4 else 2)) := by
        unfold checkedMul MAXU
        rw [if_pos (by split <;> omega)]
      rw [e2] at hr
      simp only [] at hr
      have e3 : satAdd 20 ((gc + 1) * (if fl % 2 = 1 then 4 else 2)) = 20 + (gc + 1) * (if fl % 2 = 1 then 4 else 2) :=
        satAdd_exact _ _ (by unfold MAXU; split <;> omega)
      rw [e3] at hr
      by_cases hle : 20 + (gc + 1) * (if fl % 2 = 1 then 4 else 2) ≤ d.length
      · rw [if_pos hle] at hr
        injection hr with hr
        subst hr
        exact ⟨rfl, hle, gc, fl, rfl, rfl, rfl⟩
      · rw [if_neg hle] at hr
        cases hr

/-- the unwrapping getters of a read `Gvar` -/
theorem gvar_getters {d : List Nat} {g : Gv} (hb : Bytes d) (hr : gvarRead d = some g) :
    (∃ v, g.axisCount = some v ∧ v ≤ 65535) ∧ (∃ v, g.sharedTupleCount = some v ∧ v ≤ 65535) ∧
    (∃ v, g.sharedTuplesOffset = some v) ∧ (∃ v, g.glyphCount = some v) ∧ (∃ v, g.flags = some v ∧ v ≤ 1) ∧
    (∃ v, g.dao = some v) := by
  obtain ⟨hd, hl, gc, fl, _, hfl, _⟩ := gvarRead_some hb hr
  have rd : ∀ off sz, off + sz ≤ 20 → ∃ v, readAt g.d off sz = some v ∧ v < 256 ^ sz := by
    intro off sz h
    rw [hd]
    obtain ⟨v, hv⟩ := readAt_isSome d off sz (by omega) (by unfold MAXU; omega)
    exact ⟨v, hv, readAt_lt d hb off sz v hv⟩
  refine ⟨?_, ?_, ?_, ?_, ?_, ?_⟩
  · obtain ⟨v, h1, h2⟩ := rd 4 2 (by omega); exact ⟨v, h1, by omega⟩
  · obtain ⟨v, h1, h2⟩ := rd 6 2 (by omega); exact ⟨v, h1, by omega⟩
  · obtain ⟨v, h1, h2⟩ := rd 8 4 (by omega); exact ⟨v, h1⟩
  · obtain ⟨v, h1, h2⟩ := rd 12 2 (by omega); exact ⟨v, h1⟩
  · unfold Gv.flags; rw [hd, hfl]; exact ⟨fl % 2, rfl, by omega⟩
  · obtain ⟨v, h1, h2⟩ := rd 16 4 (by omega); exact ⟨v, h1⟩

/-- `shared_tuples()?.tuples()` never panics; the array is a slice of the table -/
theorem sharedTuples_facts {d : List Nat} {g : Gv} (hb : Bytes d) (hr : gvarRead d = some g) :
    g.sharedTuples ≠ .trap ∧
    (∀ e, g.sharedTuples = .err e → e = .oob ∨ e = .nullOffset) ∧
    ∀ sd, g.sharedTuples = .ok sd → ∃ off n, sd = (d.drop off).take n ∧ off + n ≤ d.length := by
  obtain ⟨⟨ac, hac, _⟩, ⟨cnt, hcnt, _⟩, ⟨off, hoff⟩, _⟩ := gvar_getters hb hr
  obtain ⟨hd, _⟩ := gvarRead_some hb hr
  unfold Gv.sharedTuples
  rw [hcnt, hac, hoff]
  simp only []
  have hres := resolveData_facts g.d off
  cases hrd : resolveData g.d off with
  | trap => exact absurd hrd hres.1
  | err e => exact ⟨by simp, fun e' he' => by injection he' with he'; subst he'; exact resolveData_err _ _ _ hrd, by simp⟩
  | ok data =>
    simp only []
    obtain ⟨hdata, hol, _⟩ := hres.2 data hrd
    cases checkedMul ac 2 with
    | none => exact ⟨by simp, fun e he => by injection he with he; exact Or.inl he.symm, by simp⟩
    | some sz =>
      simp only []
      cases hcm : checkedMul cnt sz with
      | none => exact ⟨by simp, fun e he => by injection he with he; exact Or.inl he.symm, by simp⟩
      | some tbl =>
        simp only []
        have htm : tbl ≤ MAXU := by
          unfold checkedMul at hcm
          split at hcm
          · injection hcm with hcm; omega
          · cases hcm
        by_cases hle : satAdd 0 tbl ≤ data.length
        · rw [if_pos hle]
          have htl : tbl ≤ data.length := by
            rw [satAdd_exact 0 tbl (by omega)] at hle; omega
          have : sliceExcl data 0 tbl = some (tbl - 0) := by
            unfold sliceExcl getRange; rw [if_pos ⟨by omega, htl⟩]
          rw [this]
          simp only []
          refine ⟨by simp, by simp, ?_⟩
          intro sd hsd
          injection hsd with hsd
          refine ⟨off, tbl, by rw [← hsd, hdata, hd], ?_⟩
          rw [hdata, hd] at htl
          simp only [List.length_drop] at htl
          rw [hd] at hol
          omega
        · rw [if_neg hle]
          exact ⟨by simp, fun e he => by injection he with he; exact Or.inl he.symm, by simp⟩

/-- `data_for_gid` never panics and hands out a non-empty slice inside the table -/
theorem dataForGid_facts {d : List Nat} {g : Gv} (hb : Bytes d) (hr : gvarRead d = some g) (gid : Nat) :
    g.dataForGid gid ≠ .trap ∧ (∀ e, g.dataForGid gid = .err e → e = .oob) ∧
    ∀ bytes, g.dataForGid gid = .ok (some bytes) →
      ∃ s e, s < e ∧ e ≤ d.length ∧ bytes = (d.drop s).take (e - s) ∧ bytes.length = e - s := by
  obtain ⟨_, _, _, _, ⟨fl, hfl, _⟩, ⟨dao, hdao⟩⟩ := gvar_getters hb hr
  obtain ⟨hd, _⟩ := gvarRead_some hb hr
  unfold Gv.dataForGid
  rw [hfl, hdao]
  simp only []
  cases hg : GvarLayout.dataForGid g.d (decide (fl % 2 = 1)) dao (g.offsets (decide (fl % 2 = 1))) gid with
  | none => exact ⟨by simp, fun e he => by injection he with he; exact he.symm, by simp⟩
  | some r =>
    simp only []
    refine ⟨by simp, by simp, ?_⟩
    intro bytes hbt
    injection hbt with hbt
    subst hbt
    unfold GvarLayout.dataForGid at hg
    split at hg
    · cases hg
    · rename_i s e _
      split at hg
      · cases hg
      · split at hg
        · injection hg with hg
          injection hg with hg
          rw [hd] at hg
          rename_i h1 h2
          rw [hd] at h2
          refine ⟨s, e, by omega, h2, hg.symm, ?_⟩
          rw [← hg]
          simp only [List.length_take, List.length_drop]
          omega
        · cases hg

/-- `glyph_variation_data(gid)` never panics; the variation data it returns was built from a slice of
the table with the table's axis count -/
theorem glyphVariationData_facts {d : List Nat} {g : Gv} (hb : Bytes d) (hr : gvarRead d = some g) (gid : Nat) :
    g.glyphVariationData gid ≠ .trap ∧
    (∀ e, g.glyphVariationData gid = .err e → e = .oob ∨ e = .nullOffset) ∧
    ∀ p, g.glyphVariationData gid = .ok (some p) →
      p.ac ≤ 65535 ∧ g.axisCount = some p.ac ∧
      ∃ bytes shared, gvdNew bytes p.ac shared = .ok p ∧ bytes.length ≤ d.length ∧ Bytes bytes ∧ Bytes shared := by
  obtain ⟨⟨ac, hac, hacl⟩, _⟩ := gvar_getters hb hr
  obtain ⟨hs1, hs2, hs3⟩ := sharedTuples_facts hb hr
  obtain ⟨hd1, hd2, hd3⟩ := dataForGid_facts hb hr gid
  unfold Gv.glyphVariationData
  cases hst : g.sharedTuples with
  | trap => exact absurd hst hs1
  | err e => exact ⟨by simp, fun e' he' => by injection he' with he'; subst he'; exact hs2 e hst, by simp⟩
  | ok shared =>
    simp only []
    rw [hac]
    simp only []
    cases hdg : g.dataForGid gid with
    | trap => exact absurd hdg hd1
    | err e => exact ⟨by simp, fun e' he' => by injection he' with he'; subst he'; exact Or.inl (hd2 e hdg), by simp⟩
    | ok ob =>
      cases ob with
      | none => exact ⟨by simp, by simp, by simp⟩
      | some bytes =>
        simp only []
        obtain ⟨g1, g2, g3⟩ := gvdNew_facts bytes ac shared
        cases hgn : gvdNew bytes ac shared with
        | trap => exact absurd hgn g1
        | err e => exact ⟨by simp, fun e' he' => by injection he' with he'; subst he'; exact g2 e hgn, by simp⟩
        | ok p =>
          simp only []
          refine ⟨by simp, by simp, ?_⟩
          intro p' hp'
          injection hp' with hp'
          injection hp' with hp'
          subst hp'
          obtain ⟨hpa, _⟩ := g3 p hgn
          obtain ⟨s, e, _, hel, hbe, hbl⟩ := hd3 bytes hdg
          obtain ⟨off, n, hsd, _⟩ := hs3 shared hst
          refine ⟨by omega, by rw [hpa], bytes, shared, by rw [hpa]; exact hgn, by omega, ?_, ?_⟩
          · intro b hbm; rw [hbe] at hbm; exact hb b (List.mem_of_mem_drop (List.mem_of_mem_take hbm))
          · intro b hbm; rw [hsd] at hbm; exact hb b (List.mem_of_mem_drop (List.mem_of_mem_take hbm))

/-! ## `Cvar::deltas` -/

theorem applyCvt_length (buf : List Int) (ix : Nat) (v sc : Int) (out : List Int)
    (h : applyCvt buf ix v sc = some out) : out.length = buf.length := by
  unfold applyCvt at h
  split at h
  · injection h with h; rw [← h]
  · split at h
    · cases h
    · split at h
      · cases h
      · injection h with h; rw [← h]; simp

theorem applyCvtAll_length (l : List (Nat × Int × Int)) (sc : Int) :
    ∀ (buf out : List Int), applyCvtAll l sc buf = some out → out.length = buf.length := by
  induction l with
  | nil => intro buf out h; simp [applyCvtAll] at h; rw [← h]
  | cons a r ih =>
    intro buf out h
    obtain ⟨pos, v, w⟩ := a
    unfold applyCvtAll at h
    cases hc : applyCvt buf pos v sc with
    | none => simp [hc] at h
    | some b' =>
      simp only [hc] at h
      rw [ih b' out h, applyCvt_length buf pos v sc b' hc]

theorem cvarDeltasLoop_length (p : TVD) (l : List (TV × Int)) :
    ∀ (buf out : List Int), cvarDeltasLoop p l buf = .ok out → out.length = buf.length := by
  induction l with
  | nil => intro buf out h; simp [cvarDeltasLoop] at h; rw [← h]
  | cons a r ih =>
    intro buf out h
    obtain ⟨t, sc⟩ := a
    unfold cvarDeltasLoop at h
    cases hd : t.deltasTrace p false with
    | none => simp [hd] at h
    | some evs =>
      simp only [hd] at h
      split at h
      · cases h
      · cases ha : applyCvtAll (items evs) sc buf with
        | none => simp [ha] at h
        | some b' =>
          simp only [ha] at h
          rw [ih b' out h, applyCvtAll_length _ sc buf b' ha]

/-! ## `active_tuples_at` -/

theorem computeScalar_some_src (p : TVD) (t : TV) (coords : List Int) (v : Int)
    (h : t.computeScalar p coords = .ok (some v)) :
    ∃ pk inter, Checked.tupleScalar pk inter coords = some (some v) := by
  unfold TV.computeScalar at h
  cases hpk : t.peak p with
  | none => rw [hpk] at h; cases h
  | some pk =>
    rw [hpk] at h
    simp only [] at h
    by_cases hlen : pk.length ≠ p.ac
    · rw [if_pos hlen] at h; cases h
    · rw [if_neg hlen] at h
      cases hit : t.hdr.interTuples with
      | trap => rw [hit] at h; cases h
      | none =>
        rw [hit] at h
        simp only [] at h
        cases hts : Checked.tupleScalar pk none coords with
        | none => rw [hts] at h; cases h
        | some r =>
          rw [hts] at h
          simp only [unwrapR] at h
          injection h with h
          exact ⟨pk, none, by rw [hts, h]⟩
      | some a b =>
        rw [hit] at h
        simp only [] at h
        cases hts : Checked.tupleScalar pk (some (a, b)) coords with
        | none => rw [hts] at h; cases h
        | some r =>
          rw [hts] at h
          simp only [unwrapR] at h
          injection h with h
          exact ⟨pk, some (a, b), by rw [hts, h]⟩



theorem activeFold_ok (p : TVD) (coords : List Int) (ts : List TV)
    (h : ∀ t ∈ ts, ∃ r, t.computeScalar p coords = .ok r) :
    ∃ l, ts.foldr (fun t acc =>
        match t.computeScalar p coords, acc with
        | .trap, _ => R.trap
        | _, .trap => .trap
        | _, .err e => .err e
        | .err e, _ => .err e
        | .ok (some v), .ok l => .ok ((t, v) :: l)
        | .ok none, .ok l => .ok l) (.ok []) = .ok l ∧
      l.length ≤ ts.length ∧ ∀ x ∈ l, x.1 ∈ ts ∧ x.1.computeScalar p coords = .ok (some x.2) := by
  induction ts with
  | nil => exact ⟨[], rfl, by simp, by simp⟩
  | cons t r ih =>
    obtain ⟨l, hl, hlen, hall⟩ := ih (fun t' ht' => h t' (by simp [ht']))
    obtain ⟨res, hres⟩ := h t (by simp)
    simp only [List.foldr_cons]
    rw [hl, hres]
    cases res with
    | none =>
      refine ⟨l, rfl, by simp; omega, ?_⟩
      intro x hx
      obtain ⟨h1, h2⟩ := hall x hx
      exact ⟨by simp [h1], h2⟩
    | some v =>
      refine ⟨(t, v) :: l, rfl, by simp; omega, ?_⟩
      intro x hx
      simp only [List.mem_cons] at hx
      rcases hx with rfl | hx
      · exact ⟨by simp, hres⟩
      · obtain ⟨h1, h2⟩ := hall x hx
        exact ⟨by simp [h1], h2⟩

def I32 (x : Int) : Prop := -2147483648 ≤ x ∧ x ≤ 2147483647

theorem fxFromI32_some (v : Int) : ∃ f, Checked.fxFromI32 v = some f ∧ I32 f := by
  refine ⟨Checked.i32.wrap (v * 2 ^ (16 : Int).toNat), by simp [Checked.fxFromI32, Checked.IntTy.shl, Checked.i32], ?_⟩
  simp only [Checked.IntTy.wrap, Checked.i32, I32]
  omega

theorem applyCvtAll_some (hm : ∀ a b, I32 a → I32 b → (Checked.fxMul a b).isSome) (sc : Int) (hsc : I32 sc)
    (l : List (Nat × Int × Int)) : ∀ buf : List Int, ∃ out, applyCvtAll l sc buf = some out := by
  induction l with
  | nil => intro buf; exact ⟨buf, rfl⟩
  | cons a r ih =>
    intro buf
    obtain ⟨pos, v, w⟩ := a
    unfold applyCvtAll
    have : ∃ b', applyCvt buf pos v sc = some b' := by
      unfold applyCvt
      cases buf[pos]? with
      | none => exact ⟨_, rfl⟩
      | some cur =>
        simp only []
        obtain ⟨f, hf, hfi⟩ := fxFromI32_some v
        rw [hf]
        simp only []
        obtain ⟨pr, hpr⟩ := Option.isSome_iff_exists.mp (hm f sc hfi hsc)
        rw [hpr]
        exact ⟨_, rfl⟩
    obtain ⟨b', hb'⟩ := this
    rw [hb']
    exact ih b'

end FontVerif.C01HandVar
