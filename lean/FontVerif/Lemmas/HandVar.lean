/-
Per-step facts (invariants, measures, trap freedom) of the models of Model/HandVar.lean from which
Props/C01HandVar.lean derives its theorems.
-/
import FontVerif.Lemmas.ReadIterBounds
import FontVerif.Model.HandVar
set_option linter.unusedVariables false
set_option linter.unusedSimpArgs false
namespace FontVerif.C01HandVar
open FontVerif FontVerif.ReadIter FontVerif.HandRead FontVerif.HandVar

/-! ## generic: weighted yield bound -/

/-- total weight of the items of a trace -/
def weight {α : Type} (w : α → Nat) (evs : List (Out α)) : Nat := ((items evs).map w).sum

/-- **weighted yield bound**: if a trip yielding `a` lowers the potential `ν` by at least `w a` and no
other trip raises it, the weights of all items of a run add up to at most `ν s`. -/
theorem weight_le {σ α : Type} (step : σ → Out α × σ) (ν : σ → Nat) (w : α → Nat) (Inv : σ → Prop)
    (hInv : ∀ s, Inv s → Inv (step s).2)
    (hy : ∀ s a, Inv s → (step s).1 = .yield a → ν (step s).2 + w a ≤ ν s)
    (hc : ∀ s, Inv s → (step s).1 = .cont → ν (step s).2 ≤ ν s) :
    ∀ (f : Nat) (s : σ) (evs : List (Out α)), Inv s → run step f s = some evs →
      weight w evs ≤ ν s := by
  intro f
  induction f with
  | zero => intro s evs _ h; simp [run] at h
  | succ f ih =>
    intro s evs hi h
    have hI := hInv s hi
    unfold run at h
    split at h
    · simp at h; subst h; simp [weight, items]
    · simp at h; subst h; simp [weight, items]
    · rename_i s' hs
      cases hr : run step f s' with
      | none => simp [hr] at h
      | some r =>
        simp [hr] at h; subst h
        rw [hs] at hI
        have h1 := ih s' r hI hr
        have h2 := hc s hi (by rw [hs])
        rw [hs] at h2
        have h2 : ν s' ≤ ν s := h2
        simp only [weight, items] at h1 ⊢; omega
    · rename_i a s' hs
      cases hr : run step f s' with
      | none => simp [hr] at h
      | some r =>
        simp [hr] at h; subst h
        rw [hs] at hI
        have h1 := ih s' r hI hr
        have h2 := hy s a hi (by rw [hs])
        rw [hs] at h2
        have h2 : ν s' + w a ≤ ν s := h2
        simp only [weight, items, List.map_cons, List.sum_cons] at h1 ⊢; omega

theorem mem_le_sum (l : List Nat) (x : Nat) (h : x ∈ l) : x ≤ l.sum := by
  induction l with
  | nil => simp at h
  | cons a r ih =>
    simp only [List.mem_cons] at h
    simp only [List.sum_cons]
    rcases h with rfl | h
    · omega
    · have := ih h; omega

/-! ## `TupleVariationHeader` -/

theorem satAdd_exact (a b : Nat) (h : a + b ≤ MAXU) : satAdd a b = a + b := by
  unfold satAdd; simp [h]

theorem tupleLen_le (ti ac f : Nat) : tupleLen ti ac f ≤ ac := by
  unfold tupleLen
  split <;> split <;> simp

theorem tupleLen0 (ti ac : Nat) : tupleLen ti ac 0 = if tiEmbedded ti then ac else 0 := by
  unfold tupleLen; simp; split <;> simp

theorem tupleLen1 (ti ac : Nat) : tupleLen ti ac 1 = if tiInter ti then ac else 0 := by
  unfold tupleLen; simp; split <;> simp

/-- what a successful header read establishes -/
theorem tvhRead_some {d : List Nat} {ac : Nat} {h : Hdr} (hac : ac ≤ 65535) (hr : tvhRead d ac = some h) :
    ∃ ti, readAt d 2 2 = some ti ∧ h.data = d ∧
      h.peakLen = (if tiEmbedded ti then 2 * ac else 0) ∧
      h.isLen = (if tiInter ti then 2 * ac else 0) ∧ h.ieLen = h.isLen ∧
      4 + h.peakLen + h.isLen + h.ieLen ≤ d.length := by
  unfold tvhRead at hr
  cases hti : readAt d 2 2 with
  | none => simp [hti] at hr
  | some ti =>
    refine ⟨ti, rfl, ?_⟩
    simp only [hti] at hr
    have h0 := tupleLen_le ti ac 0
    have h1 := tupleLen_le ti ac 1
    have e0 : checkedMul (tupleLen ti ac 0) 2 = some (tupleLen ti ac 0 * 2) := by
      unfold checkedMul MAXU; rw [if_pos (by omega)]
    have e1 : checkedMul (tupleLen ti ac 1) 2 = some (tupleLen ti ac 1 * 2) := by
      unfold checkedMul MAXU; rw [if_pos (by omega)]
    simp only [e0, e1] at hr
    have es : satAdd (satAdd (satAdd 4 (tupleLen ti ac 0 * 2)) (tupleLen ti ac 1 * 2)) (tupleLen ti ac 1 * 2)
        = 4 + tupleLen ti ac 0 * 2 + tupleLen ti ac 1 * 2 + tupleLen ti ac 1 * 2 := by
      rw [satAdd_exact 4 _ (by unfold MAXU; omega)]
      rw [satAdd_exact (4 + tupleLen ti ac 0 * 2) _ (by unfold MAXU; omega)]
      rw [satAdd_exact _ _ (by unfold MAXU; omega)]
    rw [es] at hr
    split at hr
    · rename_i hle
      injection hr with hr
      subst hr
      rw [tupleLen0, tupleLen1] at *
      refine ⟨rfl, ?_, ?_, rfl, ?_⟩
      · dsimp only; split <;> omega
      · dsimp only; split <;> omega
      · exact hle
    · cases hr

theorem readAt_isSome (d : List Nat) (off sz : Nat) (h : off + sz ≤ d.length) (h2 : off + sz ≤ MAXU) :
    ∃ v, readAt d off sz = some v := by
  unfold readAt checkedAdd
  simp [h, h2]

theorem uadd_some (a b : Nat) (h : a + b ≤ MAXU) : uadd a b = some (a + b) := by
  unfold uadd; simp [h]

theorem umul_some (a b : Nat) (h : a * b ≤ MAXU) : umul a b = some (a * b) := by
  unfold umul; simp [h]

@[simp] theorem tupleVals_length (d : List Nat) (a n : Nat) : (tupleVals d a n).length = n := by
  simp [tupleVals]

/-- `read_array::<F2Dot14>(a..a + 2n)` inside the data never fails -/
theorem tupleAt_some (d : List Nat) (a n : Nat) (h : a + 2 * n ≤ d.length) :
    tupleAt d (some (a, a + 2 * n)) = .some (tupleVals d a n) := by
  unfold tupleAt HandRead.readArray getRange
  simp only []
  rw [if_pos ⟨by omega, h⟩]
  simp only []
  have e1 : a + 2 * n - a = 2 * n := by omega
  rw [e1]
  simp

/-- every unwrapping getter of a successfully read header succeeds, the embedded tuples have
`axis_count` values and lie inside the header's data, `byte_len` is the validated length -/
theorem hdr_getters {d : List Nat} {ac : Nat} {h : Hdr} (hac : ac ≤ 65535) (hr : tvhRead d ac = some h) :
    ∃ ti, h.ti = some ti ∧ (∃ sz, h.size = some sz) ∧ h.data = d ∧
      h.peakLen = (if tiEmbedded ti then 2 * ac else 0) ∧
      h.isLen = (if tiInter ti then 2 * ac else 0) ∧ h.ieLen = h.isLen ∧
      h.peakTuple = (if tiEmbedded ti then .some (tupleVals d 4 ac) else .none) ∧
      h.interStartTuple = (if tiInter ti then .some (tupleVals d (4 + h.peakLen) ac) else .none) ∧
      h.interEndTuple = (if tiInter ti then .some (tupleVals d (4 + h.peakLen + h.isLen) ac) else .none) ∧
      h.interTuples = (if tiInter ti then .some (tupleVals d (4 + h.peakLen) ac)
          (tupleVals d (4 + h.peakLen + h.isLen) ac) else .none) ∧
      h.byteLen ac = some (4 + h.peakLen + h.isLen + h.ieLen) ∧
      4 + h.peakLen + h.isLen + h.ieLen ≤ d.length := by
  obtain ⟨ti, hti, hd, hpk, his, hie, hlen⟩ := tvhRead_some hac hr
  have hTi : h.ti = some ti := by unfold Hdr.ti; rw [hd]; exact hti
  have hpr : h.peakRange = some (4, 4 + h.peakLen) := by
    unfold Hdr.peakRange; rw [uadd_some _ _ (by unfold MAXU; split at hpk <;> omega)]; rfl
  have hisr : h.isRange = some (4 + h.peakLen, 4 + h.peakLen + h.isLen) := by
    unfold Hdr.isRange; rw [hpr]; simp only []
    rw [uadd_some _ _ (by unfold MAXU; split at hpk <;> split at his <;> omega)]; rfl
  have hier : h.ieRange = some (4 + h.peakLen + h.isLen, 4 + h.peakLen + h.isLen + h.ieLen) := by
    unfold Hdr.ieRange; rw [hisr]; simp only []
    rw [uadd_some _ _ (by unfold MAXU; split at hpk <;> split at his <;> omega)]; rfl
  have hIs : tiInter ti = true → tupleAt h.data h.isRange = .some (tupleVals d (4 + h.peakLen) ac) := by
    intro hi
    rw [hisr, hd]
    have e : h.isLen = 2 * ac := by rw [his, if_pos hi]
    rw [e]
    exact tupleAt_some d _ ac (by omega)
  have hIe : tiInter ti = true → tupleAt h.data h.ieRange = .some (tupleVals d (4 + h.peakLen + h.isLen) ac) := by
    intro hi
    rw [hier, hd]
    have e : h.isLen = 2 * ac := by rw [his, if_pos hi]
    have e2 : h.ieLen = 2 * ac := by rw [hie, e]
    rw [e2]
    exact tupleAt_some d _ ac (by omega)
  refine ⟨ti, hTi, ?_, hd, hpk, his, hie, ?_, ?_, ?_, ?_, ?_, hlen⟩
  · obtain ⟨v, hv⟩ := readAt_isSome d 0 2 (by omega) (by unfold MAXU; omega)
    exact ⟨v, by unfold Hdr.size; rw [hd]; exact hv⟩
  · unfold Hdr.peakTuple; rw [hTi]; simp only []
    by_cases he : tiEmbedded ti = true
    · rw [if_pos he, if_pos he, hpr, hd]
      have e : h.peakLen = 2 * ac := by rw [hpk, if_pos he]
      rw [e]
      exact tupleAt_some d 4 ac (by omega)
    · rw [if_neg he, if_neg he]
  · unfold Hdr.interStartTuple; rw [hTi]; simp only []
    by_cases hi : tiInter ti = true
    · rw [if_pos hi, if_pos hi]; exact hIs hi
    · rw [if_neg hi, if_neg hi]
  · unfold Hdr.interEndTuple; rw [hTi]; simp only []
    by_cases hi : tiInter ti = true
    · rw [if_pos hi, if_pos hi]; exact hIe hi
    · rw [if_neg hi, if_neg hi]
  · unfold Hdr.interTuples; rw [hTi]; simp only []
    by_cases hi : tiInter ti = true
    · rw [if_pos hi, if_pos hi, hIs hi, hIe hi]
    · rw [if_neg hi, if_neg hi]
  · unfold Hdr.byteLen; rw [hTi]; simp only []
    rw [umul_some 2 ac (by unfold MAXU; omega)]
    simp only []
    rw [umul_some (2 * ac) 2 (by unfold MAXU; omega)]
    rw [uadd_some 4 _ (by unfold MAXU; split <;> omega)]
    simp only []
    rw [uadd_some _ _ (by unfold MAXU; split <;> split <;> omega)]
    rw [hie, hpk, his]
    congr 1
    by_cases he : tiEmbedded ti = true <;> by_cases hi : tiInter ti = true <;> simp [he, hi] <;> omega

/-! ## generic: exact trip count -/

/-- if the loop ends exactly when `μ = 0`, every other trip lowers `μ` by one and none traps, a run
makes exactly `μ s` trips -/
theorem run_exact {σ α : Type} (step : σ → Out α × σ) (μ : σ → Nat) (Inv : σ → Prop)
    (hInv : ∀ s, Inv s → Inv (step s).2)
    (h0 : ∀ s, Inv s → ((step s).1 = .done ↔ μ s = 0))
    (hdec : ∀ s, Inv s → (step s).1 ≠ .done → μ (step s).2 + 1 = μ s)
    (hnt : ∀ s, Inv s → (step s).1 ≠ .trap) :
    ∀ (f : Nat) (s : σ), Inv s → μ s < f → ∃ evs, run step f s = some evs ∧ evs.length = μ s := by
  intro f
  induction f with
  | zero => intro s _ h; omega
  | succ f ih =>
    intro s hi hf
    have hI := hInv s hi
    have hD := hdec s hi
    have hZ := h0 s hi
    have hT := hnt s hi
    unfold run
    split
    · rename_i s' hs
      rw [hs] at hZ
      exact ⟨[], rfl, by simp; exact (hZ.mp rfl).symm⟩
    · rename_i s' hs
      rw [hs] at hT; exact absurd rfl hT
    · rename_i s' hs
      rw [hs] at hD hI
      have hlt : μ s' + 1 = μ s := hD (by simp)
      obtain ⟨evs, he, hl⟩ := ih s' hI (by omega)
      exact ⟨.cont :: evs, by simp [he], by simp only [List.length_cons]; omega⟩
    · rename_i a s' hs
      rw [hs] at hD hI
      have hlt : μ s' + 1 = μ s := hD (by simp)
      obtain ⟨evs, he, hl⟩ := ih s' hI (by omega)
      exact ⟨.yield a :: evs, by simp [he], by simp only [List.length_cons]; omega⟩

/-! ## `TupleVariationHeaderIter` -/

/-- one call of `TupleVariationHeaderIter::next` -/
theorem tvhNext_facts (n ac : Nat) (hac : ac ≤ 65535) (hn : n ≤ 4095) (s : HSt) (hi : s.current ≤ n) :
    (tvhNext n ac s).2.current ≤ n ∧ (tvhNext n ac s).1 ≠ .trap ∧ (tvhNext n ac s).1 ≠ .cont ∧
    ((tvhNext n ac s).1 = .done ↔ s.current = n) ∧
    ((tvhNext n ac s).1 ≠ .done → (tvhNext n ac s).2.current = s.current + 1) ∧
    (tvhNext n ac s).2.data.length ≤ s.data.length ∧
    (∀ h, (tvhNext n ac s).1 = .yield (some h) →
        tvhRead s.data ac = some h ∧ (tvhNext n ac s).2.data.length + 4 ≤ s.data.length) := by
  unfold tvhNext
  by_cases hc : s.current = n
  · rw [if_pos hc]
    refine ⟨by omega, by simp, by simp, by simp [hc], by simp, Nat.le_refl _, by simp⟩
  · rw [if_neg hc]
    rw [uadd_some _ _ (by unfold MAXU; omega)]
    simp only []
    cases hr : tvhRead s.data ac with
    | none =>
      simp only []
      have : splitOff s.data 0 = some (s.data.length - 0) := by unfold splitOff; simp
      rw [this]
      simp only []
      refine ⟨by omega, by simp, by simp, by simp [hc], by simp, by simp, by simp⟩
    | some h =>
      simp only []
      obtain ⟨ti, hTi, _, hd, _, _, _, _, _, _, _, hbl, hlen⟩ := hdr_getters hac hr
      rw [hbl]
      simp only []
      have : splitOff s.data (4 + h.peakLen + h.isLen + h.ieLen) =
          some (s.data.length - (4 + h.peakLen + h.isLen + h.ieLen)) := by
        unfold splitOff; rw [if_pos hlen]
      rw [this]
      simp only []
      refine ⟨by omega, by simp, by simp, by simp [hc], by simp, by simp, ?_⟩
      intro h' hh
      simp at hh
      subst hh
      refine ⟨rfl, ?_⟩
      simp only [List.length_drop]
      omega

/-! ## `TupleVariationIter` -/

theorem tvcCount_le (b : Nat) : tvcCount b ≤ 4095 := by
  unfold tvcCount; omega

def TInv (p : TVD) (s : TSt) : Prop :=
  s.current ≤ tvcCount p.countBits ∧ s.h.current ≤ tvcCount p.countBits

/-- one call of `TupleVariationIter::next_tuple` -/
theorem tvNext_facts (p : TVD) (hac : p.ac ≤ 65535) (s : TSt) (hi : TInv p s) :
    TInv p (tvNext p s).2 ∧ (tvNext p s).1 ≠ .trap ∧
    ((tvNext p s).1 ≠ .done → (tvNext p s).2.current = s.current + 1 ∧ s.current < tvcCount p.countBits) ∧
    (tvNext p s).2.h.data.length ≤ s.h.data.length ∧ (tvNext p s).2.ser.length ≤ s.ser.length ∧
    (∀ t, (tvNext p s).1 = .yield t →
      tvhRead s.h.data p.ac = some t.hdr ∧
      (tvNext p s).2.h.data.length + 4 ≤ s.h.data.length ∧
      t.varData.length + (tvNext p s).2.ser.length = s.ser.length) := by
  obtain ⟨hi1, hi2⟩ := hi
  have hcnt := tvcCount_le p.countBits
  unfold tvNext
  simp only []
  by_cases hc : tvcCount p.countBits = s.current
  · rw [if_pos hc]
    exact ⟨⟨hi1, hi2⟩, by simp, by simp, Nat.le_refl _, Nat.le_refl _, by simp⟩
  · rw [if_neg hc]
    rw [uadd_some _ _ (by unfold MAXU; omega)]
    simp only []
    have hf := tvhNext_facts (tvcCount p.countBits) p.ac hac hcnt s.h hi2
    generalize tvhNext (tvcCount p.countBits) p.ac s.h = rh at hf
    obtain ⟨o, h'⟩ := rh
    simp only [] at hf
    obtain ⟨f1, f2, f3, f4, f5, f6, f7⟩ := hf
    cases o with
    | trap => exact absurd rfl f2
    | cont => exact absurd rfl f3
    | done =>
      simp only []
      exact ⟨⟨by dsimp only; omega, f1⟩, by simp, by simp, f6, Nat.le_refl _, by simp⟩
    | yield oh =>
      cases oh with
      | none =>
        simp only []
        exact ⟨⟨by dsimp only; omega, f1⟩, by simp, by simp, f6, Nat.le_refl _, by simp⟩
      | some hdr =>
        simp only []
        obtain ⟨hr, hl⟩ := f7 hdr rfl
        obtain ⟨ti, hTi, ⟨sz, hsz⟩, hd, _⟩ := hdr_getters hac hr
        rw [hsz]
        simp only []
        unfold takeUpTo
        by_cases hgt : sz > s.ser.length
        · rw [if_pos hgt]
          simp only []
          exact ⟨⟨by dsimp only; omega, f1⟩, by simp, by simp, f6, Nat.le_refl _, by simp⟩
        · rw [if_neg hgt]
          simp only []
          refine ⟨⟨by dsimp only; omega, f1⟩, by simp, fun _ => ⟨trivial, by omega⟩, f6, by simp, ?_⟩
          intro t ht
          simp at ht
          subst ht
          refine ⟨hr, hl, ?_⟩
          simp only [List.length_take, List.length_drop]
          omega

/-- the header iterator only ever drops a prefix of its data -/
theorem tvhNext_sub (n ac : Nat) (s : HSt) : ∀ b ∈ (tvhNext n ac s).2.data, b ∈ s.data := by
  intro b hb
  unfold tvhNext at hb
  split at hb
  · exact hb
  · split at hb
    · exact hb
    · simp only [] at hb
      cases hr : tvhRead s.data ac with
      | none =>
        rw [hr] at hb
        simp only [] at hb
        split at hb
        · exact hb
        · exact List.mem_of_mem_drop hb
      | some h =>
        rw [hr] at hb
        simp only [] at hb
        cases hbl : h.byteLen ac with
        | none => rw [hbl] at hb; exact hb
        | some k =>
          rw [hbl] at hb
          simp only [] at hb
          split at hb
          · exact hb
          · exact List.mem_of_mem_drop hb

theorem tvNext_sub (p : TVD) (s : TSt) : ∀ b ∈ (tvNext p s).2.h.data, b ∈ s.h.data := by
  intro b hb
  have hsub := tvhNext_sub (tvcCount p.countBits) p.ac s.h
  unfold tvNext at hb
  simp only [] at hb
  split at hb
  · exact hb
  · split at hb
    · exact hb
    · generalize tvhNext (tvcCount p.countBits) p.ac s.h = rh at hb hsub
      obtain ⟨o, h'⟩ := rh
      simp only [] at hsub
      cases o with
      | trap => exact hsub b hb
      | done => exact hsub b hb
      | cont => exact hsub b hb
      | yield oh =>
        cases oh with
        | none => exact hsub b hb
        | some hdr =>
          simp only [] at hb
          split at hb
          · exact hsub b hb
          · split at hb
            · exact hsub b hb
            · exact hsub b hb

/-! ## `TupleVariation` accessors -/

/-- the list holds bytes -/
def Bytes (d : List Nat) : Prop := ∀ b ∈ d, b < 256

def I16 (x : Int) : Prop := -32768 ≤ x ∧ x ≤ 32767

theorem beAt2_lt (d : List Nat) (hb : Bytes d) (pos : Nat) : HandRead.beAt d pos 2 < 65536 := by
  unfold HandRead.beAt
  have hb' : ∀ b ∈ d.drop pos, b < 256 := fun b h => hb b (List.mem_of_mem_drop h)
  generalize d.drop pos = l at hb'
  match l, hb' with
  | [], _ => simp [beValue]
  | [a], h => have := h a (by simp); simp [beValue]; omega
  | a :: b :: r, h =>
    have h1 := h a (by simp)
    have h2 := h b (by simp)
    simp [beValue]; omega

theorem toI16_I16 (v : Nat) (h : v < 65536) : I16 (toI16 v) := by
  unfold toI16 I16; split <;> omega

theorem tupleVals_I16 (d : List Nat) (hb : Bytes d) (a n : Nat) : ∀ v ∈ tupleVals d a n, I16 v := by
  intro v hv
  simp only [tupleVals, List.mem_map, List.mem_range] at hv
  obtain ⟨i, _, rfl⟩ := hv
  exact toI16_I16 _ (beAt2_lt d hb _)

theorem sharedTupleGet_facts (sd : List Nat) (ac idx : Nat) (v : List Int) (h : sharedTupleGet sd ac idx = some v) :
    v.length = ac ∧ (Bytes sd → ∀ x ∈ v, I16 x) ∧
    ∃ off, off + 2 * ac ≤ sd.length ∧ off = idx * (2 * ac) := by
  unfold sharedTupleGet at h
  cases hc : compGet sd.length (2 * ac) idx with
  | none => simp [hc] at h
  | some off =>
    simp [hc] at h
    subst h
    refine ⟨by simp, fun hb => tupleVals_I16 sd hb off ac, off, ?_⟩
    unfold compGet checkedMul at hc
    split at hc
    · cases hc
    · rename_i o ho
      split at ho
      · injection ho with ho
        subst ho
        split at hc
        · injection hc with hc; subst hc; exact ⟨by omega, rfl⟩
        · cases hc
      · cases ho

/-- for a tuple whose header was read successfully: `peak()` does not panic, has 0 or `axis_count`
values, all of them `i16`s -/
theorem peak_facts (p : TVD) (t : TV) (d' : List Nat) (hac : p.ac ≤ 65535) (hr : tvhRead d' p.ac = some t.hdr) :
    ∃ v, t.peak p = some v ∧ (v.length = p.ac ∨ v = []) ∧
      (Bytes d' → (∀ sd, p.shared = some sd → Bytes sd) → ∀ x ∈ v, I16 x) := by
  obtain ⟨ti, hTi, _, hd, hpl, hil, hel, hpk, _⟩ := hdr_getters hac hr
  unfold TV.peak
  rw [hTi]
  simp only []
  cases hfs : peakShared p ti with
  | some v =>
    simp only []
    have : ∃ idx sd, p.shared = some sd ∧ sharedTupleGet sd p.ac idx = some v := by
      unfold peakShared at hfs
      split at hfs
      · rename_i idx sd h1 h2; exact ⟨idx, sd, h2, hfs⟩
      · cases hfs
    obtain ⟨idx, sd, hsd, hg⟩ := this
    obtain ⟨h1, h2, _⟩ := sharedTupleGet_facts sd p.ac idx v hg
    exact ⟨v, rfl, Or.inl h1, fun _ hs => h2 (hs sd hsd)⟩
  | none =>
    simp only []
    rw [hpk]
    by_cases he : tiEmbedded ti = true
    · rw [if_pos he]
      exact ⟨_, rfl, Or.inl (by simp), fun hb _ => tupleVals_I16 d' hb 4 p.ac⟩
    · rw [if_neg he]
      exact ⟨[], rfl, Or.inr rfl, fun _ _ x hx => by simp at hx⟩

theorem splitOffFront_some (d : List Nat) : ∃ r, splitOffFront d = some (d, r) ∧ r.length ≤ d.length := by
  unfold splitOffFront
  obtain ⟨tl, htl⟩ := C01Iter.totalLen_some d
  rw [htl]
  simp only []
  refine ⟨_, rfl, ?_⟩
  split
  · simp
  · simp

/-- the point numbers / packed deltas of a tuple: never a panic, the delta bytes are a suffix of the
tuple's own data -/
theorem pointsAndDeltas_some (p : TVD) (t : TV) (d' : List Nat) (hac : p.ac ≤ 65535)
    (hr : tvhRead d' p.ac = some t.hdr) :
    ∃ pd dd, t.pointsAndDeltas p = some (pd, dd) ∧ dd.length ≤ t.varData.length ∧
      (pd = t.varData ∨ pd = p.sharedPts.getD []) := by
  obtain ⟨ti, hTi, _⟩ := hdr_getters hac hr
  unfold TV.pointsAndDeltas
  rw [hTi]
  simp only []
  split
  · obtain ⟨r, hr', hl⟩ := splitOffFront_some t.varData
    exact ⟨_, r, hr', hl, Or.inl rfl⟩
  · exact ⟨_, _, rfl, Nat.le_refl _, Or.inr rfl⟩

theorem hasAll_some (p : TVD) (t : TV) (d' : List Nat) (hac : p.ac ≤ 65535)
    (hr : tvhRead d' p.ac = some t.hdr) : ∃ b, t.hasDeltasForAllPoints p = some b := by
  obtain ⟨ti, hTi, _⟩ := hdr_getters hac hr
  unfold TV.hasDeltasForAllPoints
  rw [hTi]
  simp only []
  split
  · exact ⟨_, rfl⟩
  · split <;> exact ⟨_, rfl⟩

theorem f32_no_trap (p : TVD) (t : TV) (d' : List Nat) (hac : p.ac ≤ 65535)
    (hr : tvhRead d' p.ac = some t.hdr) (coords : List Int) : ∃ b, t.computeScalarF32 p coords = .ok b := by
  obtain ⟨v, hv, _⟩ := peak_facts p t d' hac hr
  obtain ⟨ti, hTi, _, hd, hpl, hil, hel, hpk, his, hie, _⟩ := hdr_getters hac hr
  unfold TV.computeScalarF32
  rw [hv, his, hie]
  by_cases hi : tiInter ti = true
  · rw [if_pos hi, if_pos hi]
    simp only []
    split <;> exact ⟨_, rfl⟩
  · rw [if_neg hi, if_neg hi]
    simp only []
    split <;> exact ⟨_, rfl⟩

/-- `compute_scalar` hands the arithmetic kernel only `i16` tuples; it panics only if the kernel traps -/
theorem computeScalar_facts (p : TVD) (t : TV) (d' : List Nat) (hac : p.ac ≤ 65535)
    (hr : tvhRead d' p.ac = some t.hdr) (hb : Bytes d') (hs : ∀ sd, p.shared = some sd → Bytes sd)
    (coords : List Int)
    (hk : ∀ (pk : List Int) (inter : Option (List Int × List Int)), (∀ c ∈ pk, I16 c) →
      (∀ q, inter = some q → (∀ c ∈ q.1, I16 c) ∧ (∀ c ∈ q.2, I16 c)) →
      (Checked.tupleScalar pk inter coords).isSome) :
    ∃ r, t.computeScalar p coords = .ok r := by
  obtain ⟨v, hv, _, hvi⟩ := peak_facts p t d' hac hr
  obtain ⟨ti, hTi, _, hd, hpl, hil, hel, hpk, his, hie, hit, _⟩ := hdr_getters hac hr
  unfold TV.computeScalar
  rw [hv]
  simp only []
  split
  · exact ⟨_, rfl⟩
  · rw [hit]
    by_cases hi : tiInter ti = true
    · simp only [hi, if_true]
      have := hk v (some (tupleVals d' (4 + t.hdr.peakLen) p.ac, tupleVals d' (4 + t.hdr.peakLen + t.hdr.isLen) p.ac))
        (hvi hb hs) (by
          intro q hq
          injection hq with hq
          subst hq
          exact ⟨tupleVals_I16 d' hb _ _, tupleVals_I16 d' hb _ _⟩)
      obtain ⟨r, hr⟩ := Option.isSome_iff_exists.mp this
      exact ⟨r, by rw [hr]; rfl⟩
    · simp only [hi, if_false]
      have := hk v none (hvi hb hs) (by intro q hq; cases hq)
      obtain ⟨r, hr⟩ := Option.isSome_iff_exists.mp this
      exact ⟨r, by rw [hr]; rfl⟩

/-! ## `TupleVariation::deltas` with shared point numbers -/

open FontVerif.C01Iter in
theorem tdInit2_some (pd dd : List Nat) (isPoint : Bool) :
    ∃ s, tdInit2 pd dd isPoint = some s ∧ TdInv s ∧ muTd s < tdFuel dd := by
  unfold tdInit2
  simp only []
  have htot : ∃ total, (if pointCount pd = 0 then countAllDeltas dd
        else some (if isPoint then pointCount pd * 2 else pointCount pd)) = some total ∧
        total ≤ 64 * dd.length + 65534 := by
    by_cases hc : pointCount pd = 0
    · rw [if_pos hc]
      obtain ⟨r, hr, hb⟩ := countAllLoop_some dd (dd.length + 1) 0 0 (by omega)
      exact ⟨r, hr, by omega⟩
    · rw [if_neg hc]
      have := count_le pd
      refine ⟨_, rfl, ?_⟩
      unfold pointCount
      split <;> omega
  obtain ⟨total, ht, hb⟩ := htot
  rw [ht]
  simp only []
  have h0 : (ptInit pd).seen ≤ (ptInit pd).count := by simp [ptInit]
  have hf := ptNext_facts pd (ptInit pd) h0
  have hy := ptNext_yield_le pd (ptInit pd)
  have hm := muPt_init_le pd
  generalize ptNext pd (ptInit pd) = first at hf hy
  obtain ⟨o1, p1⟩ := first
  simp only [] at hf hy
  cases hb' : isPoint with
  | true =>
    simp only [if_true]
    obtain ⟨ys, hys⟩ := skipFastLoop_some dd (total / 2) (dd.length + 2) (total / 2)
      (dlInit (some total)) (by simp [dlInit])
    unfold skipFast
    rw [hys]
    simp only []
    refine ⟨_, rfl, ?_, ?_⟩
    · cases o1 with
      | yield v => simp only [TdInv]; exact ⟨hf.1, hy v rfl⟩
      | cont => simp [TdInv, dlInit]
      | done => simp [TdInv, dlInit]
      | trap => simp [TdInv, dlInit]
    · cases o1 with
      | yield v =>
        have := hf.2.2.2 (by simp)
        simp only [muTd, tdFuel]; omega
      | cont => simp only [muTd, tdFuel, muDl, dlInit, Option.getD_some]; omega
      | done => simp only [muTd, tdFuel, muDl, dlInit, Option.getD_some]; omega
      | trap => simp only [muTd, tdFuel, muDl, dlInit, Option.getD_some]; omega
  | false =>
    simp only [Bool.false_eq_true, if_false]
    refine ⟨_, rfl, ?_, ?_⟩
    · cases o1 with
      | yield v => simp only [TdInv]; exact ⟨hf.1, hy v rfl⟩
      | cont => simp [TdInv, dlInit]
      | done => simp [TdInv, dlInit]
      | trap => simp [TdInv, dlInit]
    · cases o1 with
      | yield v =>
        have := hf.2.2.2 (by simp)
        simp only [muTd, tdFuel]; omega
      | cont => simp only [muTd, tdFuel, muDl, dlInit, Option.getD_some]; omega
      | done => simp only [muTd, tdFuel, muDl, dlInit, Option.getD_some]; omega
      | trap => simp only [muTd, tdFuel, muDl, dlInit, Option.getD_some]; omega

open FontVerif.C01Iter in
/-- `tuple.deltas()` over separate point / delta buffers terminates without trapping -/
theorem deltas_run (pd dd : List Nat) (isPoint : Bool) :
    ∃ s evs, tdInit2 pd dd isPoint = some s ∧ run (tdStep pd dd) (tdFuel dd) s = some evs ∧
      evs.length ≤ 128 * dd.length + 131204 ∧ trapped evs = false := by
  obtain ⟨s0, hinit, hinv, hmu⟩ := tdInit2_some pd dd isPoint
  obtain ⟨evs, he, hl⟩ := run_complete (tdStep pd dd) muTd TdInv
    (fun s hi => (tdStep_facts pd dd s hi).1) (fun s hi => (tdStep_facts pd dd s hi).2.2) (tdFuel dd) s0 hinv hmu
  refine ⟨s0, evs, hinit, he, ?_, not_trapped (tdStep pd dd) TdInv (fun s hi => (tdStep_facts pd dd s hi).1)
    (fun s hi => (tdStep_facts pd dd s hi).2.1) _ _ _ hinv he⟩
  unfold tdFuel at hmu
  omega

/-! ## `GlyphVariationData::new`, `Cvar::variation_data` -/

theorem resolveData_facts (d : List Nat) (off : Nat) :
    resolveData d off ≠ .trap ∧ ∀ r, resolveData d off = .ok r → r = d.drop off ∧ off ≤ d.length ∧ 0 < off := by
  unfold resolveData
  split
  · exact ⟨by simp, by simp⟩
  · split
    · refine ⟨by simp, ?_⟩
      intro r hr
      injection hr with hr
      exact ⟨hr.symm, by assumption, by omega⟩
    · exact ⟨by simp, by simp⟩

theorem splitShared_facts (c : Nat) (data : List Nat) :
    ∃ sp ser, splitShared c data = .ok (sp, ser) ∧ ser.length ≤ data.length ∧
      (∀ x, sp = some x → x = data) ∧ (sp.isSome = tvcShared c) := by
  unfold splitShared
  split
  · rename_i hs
    obtain ⟨r, hr, hl⟩ := splitOffFront_some data
    rw [hr]
    exact ⟨some data, r, rfl, hl, by simp, by simp [hs]⟩
  · rename_i hs
    exact ⟨none, data, rfl, Nat.le_refl _, by simp, by simp [hs]⟩

theorem satAdd_sub_le (k n : Nat) (h : k ≤ n) : satAdd k (n - k) ≤ n := by
  unfold satAdd
  split <;> omega

theorem satAdd_sub_gt (k n : Nat) (h : n < k) (hk : k ≤ MAXU) : satAdd k (n - k) > n := by
  unfold satAdd
  have : n - k = 0 := by omega
  rw [this]
  split <;> omega

theorem resolveData_err (d : List Nat) (off : Nat) (e : VErr) (h : resolveData d off = .err e) :
    e = .oob ∨ e = .nullOffset := by
  unfold resolveData at h
  split at h
  · injection h with h; exact Or.inr h.symm
  · split at h
    · cases h
    · injection h with h; exact Or.inl h.symm

/-- `GlyphVariationData::new` never panics; on success the header data is everything behind the four
fixed bytes and the serialized data a suffix of the glyph's data -/
theorem gvdNew_facts (d : List Nat) (ac : Nat) (shared : List Nat) :
    gvdNew d ac shared ≠ .trap ∧ (∀ e, gvdNew d ac shared = .err e → e = .oob ∨ e = .nullOffset) ∧
    ∀ p, gvdNew d ac shared = .ok p →
      p.ac = ac ∧ p.shared = some shared ∧ p.headerData = d.drop 4 ∧ 4 ≤ d.length ∧
      p.ser.length ≤ d.length ∧ (∀ sp, p.sharedPts = some sp → ∃ off, sp = d.drop off) ∧
      readAt d 0 2 = some p.countBits := by
  unfold gvdNew
  simp only []
  by_cases h4 : d.length < 4
  · have := satAdd_sub_gt 4 d.length h4 (by unfold MAXU; omega)
    rw [if_pos this]
    exact ⟨by simp, by simp, by simp⟩
  · have := satAdd_sub_le 4 d.length (by omega)
    rw [if_neg (by omega)]
    have e1 : splitOff d 4 = some (d.length - 4) := by unfold splitOff; rw [if_pos (by omega)]
    obtain ⟨c, hc⟩ := readAt_isSome d 0 2 (by omega) (by unfold MAXU; omega)
    obtain ⟨o, ho⟩ := readAt_isSome d 2 2 (by omega) (by unfold MAXU; omega)
    rw [e1, hc, ho]
    simp only []
    have hres := resolveData_facts d o
    cases hr : resolveData d o with
    | trap => exact absurd hr hres.1
    | err e => exact ⟨by simp, fun e' he' => by injection he' with he'; subst he'; exact resolveData_err d o e hr, by simp⟩
    | ok data =>
      simp only []
      obtain ⟨hdata, hol, _⟩ := hres.2 data hr
      obtain ⟨sp, ser, hs, hl, hsp, _⟩ := splitShared_facts c data
      rw [hs]
      simp only []
      refine ⟨by simp, by simp, ?_⟩
      intro p hp
      injection hp with hp
      subst hp
      refine ⟨rfl, rfl, rfl, by omega, ?_, ?_, rfl⟩
      · simp only []; rw [hdata] at hl; simp only [List.length_drop] at hl; omega
      · intro x hx; exact ⟨o, by rw [hsp x hx, hdata]⟩

/-- `Cvar::read` + `Cvar::variation_data` never panic -/
theorem cvarVariationData_facts (d : List Nat) (ac : Nat) :
    cvarVariationData d ac ≠ .trap ∧ (∀ e, cvarVariationData d ac = .err e → e = .oob ∨ e = .nullOffset) ∧
    ∀ p, cvarVariationData d ac = .ok p →
      p.ac = ac ∧ p.shared = none ∧ p.headerData = d.drop 8 ∧ 8 ≤ d.length ∧
      p.ser.length ≤ d.length ∧ (∀ sp, p.sharedPts = some sp → ∃ off, sp = d.drop off) ∧
      readAt d 4 2 = some p.countBits := by
  unfold cvarVariationData
  simp only []
  by_cases h8 : d.length < 8
  · have := satAdd_sub_gt 8 d.length h8 (by unfold MAXU; omega)
    rw [if_pos this]
    exact ⟨by simp, by simp, by simp⟩
  · have := satAdd_sub_le 8 d.length (by omega)
    rw [if_neg (by omega)]
    have e1 : splitOff d 8 = some (d.length - 8) := by unfold splitOff; rw [if_pos (by omega)]
    obtain ⟨c, hc⟩ := readAt_isSome d 4 2 (by omega) (by unfold MAXU; omega)
    obtain ⟨o, ho⟩ := readAt_isSome d 6 2 (by omega) (by unfold MAXU; omega)
    rw [hc, ho]
    simp only []
    have hres := resolveData_facts d o
    cases hr : resolveData d o with
    | trap => exact absurd hr hres.1
    | err e => exact ⟨by simp, fun e' he' => by injection he' with he'; subst he'; exact resolveData_err d o e hr, by simp⟩
    | ok data =>
      simp only []
      rw [e1]
      simp only []
      obtain ⟨hdata, hol, _⟩ := hres.2 data hr
      obtain ⟨sp, ser, hs, hl, hsp, _⟩ := splitShared_facts c data
      rw [hs]
      simp only []
      refine ⟨by simp, by simp, ?_⟩
      intro p hp
      injection hp with hp
      subst hp
      refine ⟨rfl, rfl, rfl, by omega, ?_, ?_, rfl⟩
      · simp only []; rw [hdata] at hl; simp only [List.length_drop] at hl; omega
      · intro x hx; exact ⟨o, by rw [hsp x hx, hdata]⟩

/-! ## `Gvar` -/

theorem beAt_lt (d : List Nat) (hb : Bytes d) (pos n : Nat) : HandRead.beAt d pos n < 256 ^ n := by
  unfold HandRead.beAt
  have hb' : ∀ b ∈ (d.drop pos).take n, b < 256 :=
    fun b h => hb b (List.mem_of_mem_drop (List.mem_of_mem_take h))
  have hl : ((d.drop pos).take n).length ≤ n := List.length_take_le _ _
  generalize (d.drop pos).take n = l at hb' hl
  have key : ∀ (l : List Nat) (acc : Nat), (∀ b ∈ l, b < 256) →
      l.foldl (fun acc b => acc * 256 + b) acc < (acc + 1) * 256 ^ l.length := by
    intro l
    induction l with
    | nil => intro acc _; simp
    | cons a r ih =>
      intro acc h
      have ha := h a (by simp)
      have := ih (acc * 256 + a) (fun b hb => h b (by simp [hb]))
      simp only [List.foldl_cons, List.length_cons]
      calc _ < (acc * 256 + a + 1) * 256 ^ r.length := this
        _ ≤ ((acc + 1) * 256) * 256 ^ r.length := Nat.mul_le_mul_right _ (by omega)
        _ = (acc + 1) * 256 ^ (r.length + 1) := by rw [Nat.pow_succ, Nat.mul_assoc, Nat.mul_comm 256]
  have := key l 0 hb'
  unfold beValue
  calc _ < (0 + 1) * 256 ^ l.length := this
    _ ≤ 256 ^ n := by simp; exact Nat.pow_le_pow_right (by omega) hl

theorem readAt_lt (d : List Nat) (hb : Bytes d) (off sz v : Nat) (h : readAt d off sz = some v) : v < 256 ^ sz := by
  unfold readAt at h
  split at h
  · cases h
  · split at h
    · injection h with h; subst h; exact beAt_lt d hb off sz
    · cases h

/-- what a successful `Gvar::read` establishes -/
theorem gvarRead_some {d : List Nat} {g : Gv} (hb : Bytes d) (hr : gvarRead d = some g) :
    g.d = d ∧ 20 + g.offsLen ≤ d.length ∧
    ∃ gc fl, readAt d 12 2 = some gc ∧ readAt d 14 2 = some fl ∧
      g.offsLen = (gc + 1) * (if fl % 2 = 1 then 4 else 2) := by
  unfold gvarRead at hr
  cases hgc : readAt d 12 2 with
  | none => simp [hgc] at hr
  | some gc =>
    cases hfl : readAt d 14 2 with
    | none => simp [hgc, hfl] at hr
    | some fl =>
      simp only [hgc, hfl] at hr
      have hgcl := readAt_lt d hb 12 2 gc hgc
      have e1 : satAdd gc 1 = gc + 1 := satAdd_exact _ _ (by unfold MAXU; omega)
      rw [e1] at hr
      have e2 : checkedMul (gc + 1) (if fl % 2 = 1 then 4 else 2) = some ((gc + 1) * (if fl % 2 = 1 then 4 else 2)) := by
        unfold checkedMul MAXU
        rw [if_pos (by split <;> omega)]
      rw [e2] at hr
      simp only [] at hr
      have e3 : satAdd 20 ((gc + 1) * (if fl % 2 = 1 then 4 else 2)) = 20 + (gc + 1) * (if fl % 2 = 1 then 4 else 2) :=
        satAdd_exact _ _ (by unfold MAXU; split <;> omega)
      rw [e3] at hr
      by_cases hle : 20 + (gc + 1) * (if fl % 2 = 1 then 4 else 2) ≤ d.length
      · rw [if_pos hle] at hr
        injection hr with hr
        subst hr
        exact ⟨rfl, hle, gc, fl, rfl, rfl, rfl⟩
      · rw [if_neg hle] at hr
        cases hr

/-- the unwrapping getters of a read `Gvar` -/
theorem gvar_getters {d : List Nat} {g : Gv} (hb : Bytes d) (hr : gvarRead d = some g) :
    (∃ v, g.axisCount = some v ∧ v ≤ 65535) ∧ (∃ v, g.sharedTupleCount = some v ∧ v ≤ 65535) ∧
    (∃ v, g.sharedTuplesOffset = some v) ∧ (∃ v, g.glyphCount = some v) ∧ (∃ v, g.flags = some v ∧ v ≤ 1) ∧
    (∃ v, g.dao = some v) := by
  obtain ⟨hd, hl, gc, fl, _, hfl, _⟩ := gvarRead_some hb hr
  have rd : ∀ off sz, off + sz ≤ 20 → ∃ v, readAt g.d off sz = some v ∧ v < 256 ^ sz := by
    intro off sz h
    rw [hd]
    obtain ⟨v, hv⟩ := readAt_isSome d off sz (by omega) (by unfold MAXU; omega)
    exact ⟨v, hv, readAt_lt d hb off sz v hv⟩
  refine ⟨?_, ?_, ?_, ?_, ?_, ?_⟩
  · obtain ⟨v, h1, h2⟩ := rd 4 2 (by omega); exact ⟨v, h1, by omega⟩
  · obtain ⟨v, h1, h2⟩ := rd 6 2 (by omega); exact ⟨v, h1, by omega⟩
  · obtain ⟨v, h1, h2⟩ := rd 8 4 (by omega); exact ⟨v, h1⟩
  · obtain ⟨v, h1, h2⟩ := rd 12 2 (by omega); exact ⟨v, h1⟩
  · unfold Gv.flags; rw [hd, hfl]; exact ⟨fl % 2, rfl, by omega⟩
  · obtain ⟨v, h1, h2⟩ := rd 16 4 (by omega); exact ⟨v, h1⟩

/-- `shared_tuples()?.tuples()` never panics; the array is a slice of the table -/
theorem sharedTuples_facts {d : List Nat} {g : Gv} (hb : Bytes d) (hr : gvarRead d = some g) :
    g.sharedTuples ≠ .trap ∧
    (∀ e, g.sharedTuples = .err e → e = .oob ∨ e = .nullOffset) ∧
    ∀ sd, g.sharedTuples = .ok sd → ∃ off n, sd = (d.drop off).take n ∧ off + n ≤ d.length := by
  obtain ⟨⟨ac, hac, _⟩, ⟨cnt, hcnt, _⟩, ⟨off, hoff⟩, _⟩ := gvar_getters hb hr
  obtain ⟨hd, _⟩ := gvarRead_some hb hr
  unfold Gv.sharedTuples
  rw [hcnt, hac, hoff]
  simp only []
  have hres := resolveData_facts g.d off
  cases hrd : resolveData g.d off with
  | trap => exact absurd hrd hres.1
  | err e => exact ⟨by simp, fun e' he' => by injection he' with he'; subst he'; exact resolveData_err _ _ _ hrd, by simp⟩
  | ok data =>
    simp only []
    obtain ⟨hdata, hol, _⟩ := hres.2 data hrd
    cases checkedMul ac 2 with
    | none => exact ⟨by simp, fun e he => by injection he with he; exact Or.inl he.symm, by simp⟩
    | some sz =>
      simp only []
      cases hcm : checkedMul cnt sz with
      | none => exact ⟨by simp, fun e he => by injection he with he; exact Or.inl he.symm, by simp⟩
      | some tbl =>
        simp only []
        have htm : tbl ≤ MAXU := by
          unfold checkedMul at hcm
          split at hcm
          · injection hcm with hcm; omega
          · cases hcm
        by_cases hle : satAdd 0 tbl ≤ data.length
        · rw [if_pos hle]
          have htl : tbl ≤ data.length := by
            rw [satAdd_exact 0 tbl (by omega)] at hle; omega
          have : sliceExcl data 0 tbl = some (tbl - 0) := by
            unfold sliceExcl getRange; rw [if_pos ⟨by omega, htl⟩]
          rw [this]
          simp only []
          refine ⟨by simp, by simp, ?_⟩
          intro sd hsd
          injection hsd with hsd
          refine ⟨off, tbl, by rw [← hsd, hdata, hd], ?_⟩
          rw [hdata, hd] at htl
          simp only [List.length_drop] at htl
          rw [hd] at hol
          omega
        · rw [if_neg hle]
          exact ⟨by simp, fun e he => by injection he with he; exact Or.inl he.symm, by simp⟩

/-- `data_for_gid` never panics and hands out a non-empty slice inside the table -/
theorem dataForGid_facts {d : List Nat} {g : Gv} (hb : Bytes d) (hr : gvarRead d = some g) (gid : Nat) :
    g.dataForGid gid ≠ .trap ∧ (∀ e, g.dataForGid gid = .err e → e = .oob) ∧
    ∀ bytes, g.dataForGid gid = .ok (some bytes) →
      ∃ s e, s < e ∧ e ≤ d.length ∧ bytes = (d.drop s).take (e - s) ∧ bytes.length = e - s := by
  obtain ⟨_, _, _, _, ⟨fl, hfl, _⟩, ⟨dao, hdao⟩⟩ := gvar_getters hb hr
  obtain ⟨hd, _⟩ := gvarRead_some hb hr
  unfold Gv.dataForGid
  rw [hfl, hdao]
  simp only []
  cases hg : GvarLayout.dataForGid g.d (decide (fl % 2 = 1)) dao (g.offsets (decide (fl % 2 = 1))) gid with
  | none => exact ⟨by simp, fun e he => by injection he with he; exact he.symm, by simp⟩
  | some r =>
    simp only []
    refine ⟨by simp, by simp, ?_⟩
    intro bytes hbt
    injection hbt with hbt
    subst hbt
    unfold GvarLayout.dataForGid at hg
    split at hg
    · cases hg
    · rename_i s e _
      split at hg
      · cases hg
      · split at hg
        · injection hg with hg
          injection hg with hg
          rw [hd] at hg
          rename_i h1 h2
          rw [hd] at h2
          refine ⟨s, e, by omega, h2, hg.symm, ?_⟩
          rw [← hg]
          simp only [List.length_take, List.length_drop]
          omega
        · cases hg

/-- `glyph_variation_data(gid)` never panics; the variation data it returns was built from a slice of
the table with the table's axis count -/
theorem glyphVariationData_facts {d : List Nat} {g : Gv} (hb : Bytes d) (hr : gvarRead d = some g) (gid : Nat) :
    g.glyphVariationData gid ≠ .trap ∧
    (∀ e, g.glyphVariationData gid = .err e → e = .oob ∨ e = .nullOffset) ∧
    ∀ p, g.glyphVariationData gid = .ok (some p) →
      p.ac ≤ 65535 ∧ g.axisCount = some p.ac ∧
      ∃ bytes shared, gvdNew bytes p.ac shared = .ok p ∧ bytes.length ≤ d.length ∧ Bytes bytes ∧ Bytes shared := by
  obtain ⟨⟨ac, hac, hacl⟩, _⟩ := gvar_getters hb hr
  obtain ⟨hs1, hs2, hs3⟩ := sharedTuples_facts hb hr
  obtain ⟨hd1, hd2, hd3⟩ := dataForGid_facts hb hr gid
  unfold Gv.glyphVariationData
  cases hst : g.sharedTuples with
  | trap => exact absurd hst hs1
  | err e => exact ⟨by simp, fun e' he' => by injection he' with he'; subst he'; exact hs2 e hst, by simp⟩
  | ok shared =>
    simp only []
    rw [hac]
    simp only []
    cases hdg : g.dataForGid gid with
    | trap => exact absurd hdg hd1
    | err e => exact ⟨by simp, fun e' he' => by injection he' with he'; subst he'; exact Or.inl (hd2 e hdg), by simp⟩
    | ok ob =>
      cases ob with
      | none => exact ⟨by simp, by simp, by simp⟩
      | some bytes =>
        simp only []
        obtain ⟨g1, g2, g3⟩ := gvdNew_facts bytes ac shared
        cases hgn : gvdNew bytes ac shared with
        | trap => exact absurd hgn g1
        | err e => exact ⟨by simp, fun e' he' => by injection he' with he'; subst he'; exact g2 e hgn, by simp⟩
        | ok p =>
          simp only []
          refine ⟨by simp, by simp, ?_⟩
          intro p' hp'
          injection hp' with hp'
          injection hp' with hp'
          subst hp'
          obtain ⟨hpa, _⟩ := g3 p hgn
          obtain ⟨s, e, _, hel, hbe, hbl⟩ := hd3 bytes hdg
          obtain ⟨off, n, hsd, _⟩ := hs3 shared hst
          refine ⟨by omega, by rw [hpa], bytes, shared, by rw [hpa]; exact hgn, by omega, ?_, ?_⟩
          · intro b hbm; rw [hbe] at hbm; exact hb b (List.mem_of_mem_drop (List.mem_of_mem_take hbm))
          · intro b hbm; rw [hsd] at hbm; exact hb b (List.mem_of_mem_drop (List.mem_of_mem_take hbm))

/-! ## `Cvar::deltas` -/

theorem applyCvt_length (buf : List Int) (ix : Nat) (v sc : Int) (out : List Int)
    (h : applyCvt buf ix v sc = some out) : out.length = buf.length := by
  unfold applyCvt at h
  split at h
  · injection h with h; rw [← h]
  · split at h
    · cases h
    · split at h
      · cases h
      · injection h with h; rw [← h]; simp

theorem applyCvtAll_length (l : List (Nat × Int × Int)) (sc : Int) :
    ∀ (buf out : List Int), applyCvtAll l sc buf = some out → out.length = buf.length := by
  induction l with
  | nil => intro buf out h; simp [applyCvtAll] at h; rw [← h]
  | cons a r ih =>
    intro buf out h
    obtain ⟨pos, v, w⟩ := a
    unfold applyCvtAll at h
    cases hc : applyCvt buf pos v sc with
    | none => simp [hc] at h
    | some b' =>
      simp only [hc] at h
      rw [ih b' out h, applyCvt_length buf pos v sc b' hc]

theorem cvarDeltasLoop_length (p : TVD) (l : List (TV × Int)) :
    ∀ (buf out : List Int), cvarDeltasLoop p l buf = .ok out → out.length = buf.length := by
  induction l with
  | nil => intro buf out h; simp [cvarDeltasLoop] at h; rw [← h]
  | cons a r ih =>
    intro buf out h
    obtain ⟨t, sc⟩ := a
    unfold cvarDeltasLoop at h
    cases hd : t.deltasTrace p false with
    | none => simp [hd] at h
    | some evs =>
      simp only [hd] at h
      split at h
      · cases h
      · cases ha : applyCvtAll (items evs) sc buf with
        | none => simp [ha] at h
        | some b' =>
          simp only [ha] at h
          rw [ih b' out h, applyCvtAll_length _ sc buf b' ha]

/-! ## `active_tuples_at` -/

theorem computeScalar_some_src (p : TVD) (t : TV) (coords : List Int) (v : Int)
    (h : t.computeScalar p coords = .ok (some v)) :
    ∃ pk inter, Checked.tupleScalar pk inter coords = some (some v) := by
  unfold TV.computeScalar at h
  cases hpk : t.peak p with
  | none => rw [hpk] at h; cases h
  | some pk =>
    rw [hpk] at h
    simp only [] at h
    by_cases hlen : pk.length ≠ p.ac
    · rw [if_pos hlen] at h; cases h
    · rw [if_neg hlen] at h
      cases hit : t.hdr.interTuples with
      | trap => rw [hit] at h; cases h
      | none =>
        rw [hit] at h
        simp only [] at h
        cases hts : Checked.tupleScalar pk none coords with
        | none => rw [hts] at h; cases h
        | some r =>
          rw [hts] at h
          simp only [unwrapR] at h
          injection h with h
          exact ⟨pk, none, by rw [hts, h]⟩
      | some a b =>
        rw [hit] at h
        simp only [] at h
        cases hts : Checked.tupleScalar pk (some (a, b)) coords with
        | none => rw [hts] at h; cases h
        | some r =>
          rw [hts] at h
          simp only [unwrapR] at h
          injection h with h
          exact ⟨pk, some (a, b), by rw [hts, h]⟩



theorem activeFold_ok (p : TVD) (coords : List Int) (ts : List TV)
    (h : ∀ t ∈ ts, ∃ r, t.computeScalar p coords = .ok r) :
    ∃ l, ts.foldr (fun t acc =>
        match t.computeScalar p coords, acc with
        | .trap, _ => R.trap
        | _, .trap => .trap
        | _, .err e => .err e
        | .err e, _ => .err e
        | .ok (some v), .ok l => .ok ((t, v) :: l)
        | .ok none, .ok l => .ok l) (.ok []) = .ok l ∧
      l.length ≤ ts.length ∧ ∀ x ∈ l, x.1 ∈ ts ∧ x.1.computeScalar p coords = .ok (some x.2) := by
  induction ts with
  | nil => exact ⟨[], rfl, by simp, by simp⟩
  | cons t r ih =>
    obtain ⟨l, hl, hlen, hall⟩ := ih (fun t' ht' => h t' (by simp [ht']))
    obtain ⟨res, hres⟩ := h t (by simp)
    simp only [List.foldr_cons]
    rw [hl, hres]
    cases res with
    | none =>
      refine ⟨l, rfl, by simp; omega, ?_⟩
      intro x hx
      obtain ⟨h1, h2⟩ := hall x hx
      exact ⟨by simp [h1], h2⟩
    | some v =>
      refine ⟨(t, v) :: l, rfl, by simp; omega, ?_⟩
      intro x hx
      simp only [List.mem_cons] at hx
      rcases hx with rfl | hx
      · exact ⟨by simp, hres⟩
      · obtain ⟨h1, h2⟩ := hall x hx
        exact ⟨by simp [h1], h2⟩

def I32 (x : Int) : Prop := -2147483648 ≤ x ∧ x ≤ 2147483647

theorem fxFromI32_some (v : Int) : ∃ f, Checked.fxFromI32 v = some f ∧ I32 f := by
  refine ⟨Checked.i32.wrap (v * 2 ^ (16 : Int).toNat), by simp [Checked.fxFromI32, Checked.IntTy.shl, Checked.i32], ?_⟩
  simp only [Checked.IntTy.wrap, Checked.i32, I32]
  omega

theorem applyCvtAll_some (hm : ∀ a b, I32 a → I32 b → (Checked.fxMul a b).isSome) (sc : Int) (hsc : I32 sc)
    (l : List (Nat × Int × Int)) : ∀ buf : List Int, ∃ out, applyCvtAll l sc buf = some out := by
  induction l with
  | nil => intro buf; exact ⟨buf, rfl⟩
  | cons a r ih =>
    intro buf
    obtain ⟨pos, v, w⟩ := a
    unfold applyCvtAll
    have : ∃ b', applyCvt buf pos v sc = some b' := by
      unfold applyCvt
      cases buf[pos]? with
      | none => exact ⟨_, rfl⟩
      | some cur =>
        simp only []
        obtain ⟨f, hf, hfi⟩ := fxFromI32_some v
        rw [hf]
        simp only []
        obtain ⟨pr, hpr⟩ := Option.isSome_iff_exists.mp (hm f sc hfi hsc)
        rw [hpr]
        exact ⟨_, rfl⟩
    obtain ⟨b', hb'⟩ := this
    rw [hb']
    exact ih b'

/-! ## `DeltaSetIndexMap` -/

theorem entrySize_range (ef : Nat) : 1 ≤ entrySize ef ∧ entrySize ef ≤ 4 := by
  unfold entrySize; omega

theorem bitCount_range (ef : Nat) : 1 ≤ bitCount ef ∧ bitCount ef ≤ 16 := by
  unfold bitCount; omega

theorem readAt_some_le {d : List Nat} {off sz v : Nat} (h : readAt d off sz = some v) : off + sz ≤ d.length := by
  unfold readAt checkedAdd at h
  split at h
  · cases h
  · rename_i e he
    split at he
    · injection he with he; subst he
      split at h
      · assumption
      · cases h
    · cases he

/-- what a successful `DeltaSetIndexMap::read` establishes -/
theorem dsimRead_ok {d : List Nat} {m : Dsim} (hb : Bytes d) (h : dsimRead d = .ok m) :
    m.d = d ∧ (m.format = 0 ∨ m.format = 1) ∧ m.hdr = (if m.format = 0 then 4 else 6) ∧
    m.hdr + m.mapLen ≤ d.length ∧
    ∃ ef mc, readAt d 1 1 = some ef ∧ readAt d 2 (if m.format = 0 then 2 else 4) = some mc ∧
      m.mapLen = entrySize ef * mc ∧ mc < 4294967296 ∧ ef < 256 := by
  unfold dsimRead at h
  cases hf : readAt d 0 1 with
  | none => rw [hf] at h; cases h
  | some fmt =>
    rw [hf] at h
    simp only [] at h
    by_cases hfm : fmt = 0 ∨ fmt = 1
    · rw [if_pos hfm] at h
      cases hef : readAt d 1 1 with
      | none => rw [hef] at h; cases h
      | some ef =>
        cases hmc : readAt d 2 (if fmt = 0 then 2 else 4) with
        | none => rw [hef, hmc] at h; cases h
        | some mc =>
          rw [hef, hmc] at h
          simp only [] at h
          have hmcl : mc < 4294967296 := by
            have := readAt_lt d hb 2 _ mc hmc
            split at this <;> omega
          have hefl : ef < 256 := by have := readAt_lt d hb 1 1 ef hef; omega
          have hes := entrySize_range ef
          have hmul : entrySize ef * mc ≤ 4 * 4294967296 := by
            calc entrySize ef * mc ≤ 4 * mc := Nat.mul_le_mul_right _ hes.2
              _ ≤ 4 * 4294967296 := by omega
          have e1 : mapSize ef mc = some (entrySize ef * mc) := by
            unfold mapSize; exact umul_some _ _ (by unfold MAXU; omega)
          rw [e1] at h
          simp only [] at h
          have e2 : checkedMul (entrySize ef * mc) 1 = some (entrySize ef * mc) := by
            unfold checkedMul; rw [if_pos (by unfold MAXU; omega)]; simp
          rw [e2] at h
          simp only [] at h
          have e3 : satAdd (2 + if fmt = 0 then 2 else 4) (entrySize ef * mc) =
              (2 + if fmt = 0 then 2 else 4) + entrySize ef * mc :=
            satAdd_exact _ _ (by unfold MAXU; split <;> omega)
          rw [e3] at h
          by_cases hle : (2 + if fmt = 0 then 2 else 4) + entrySize ef * mc ≤ d.length
          · rw [if_pos hle] at h
            injection h with h
            subst h
            refine ⟨rfl, hfm, ?_, hle, ef, mc, rfl, hmc, rfl, hmcl, hefl⟩
            dsimp only
            split <;> rfl
          · rw [if_neg hle] at h; cases h
    · rw [if_neg hfm] at h; cases h

theorem dsimRead_no_trap (d : List Nat) (hb : Bytes d) : dsimRead d ≠ .trap := by
  unfold dsimRead
  cases hf : readAt d 0 1 with
  | none => simp
  | some fmt =>
    simp only []
    by_cases hfm : fmt = 0 ∨ fmt = 1
    · rw [if_pos hfm]
      cases hef : readAt d 1 1 with
      | none => simp
      | some ef =>
        cases hmc : readAt d 2 (if fmt = 0 then 2 else 4) with
        | none => simp
        | some mc =>
          simp only []
          have hmcl : mc < 4294967296 := by
            have := readAt_lt d hb 2 _ mc hmc
            split at this <;> omega
          have hes := entrySize_range ef
          have hmul : entrySize ef * mc ≤ 4 * 4294967296 := by
            calc entrySize ef * mc ≤ 4 * mc := Nat.mul_le_mul_right _ hes.2
              _ ≤ 4 * 4294967296 := by omega
          have e1 : mapSize ef mc = some (entrySize ef * mc) := by
            unfold mapSize; exact umul_some _ _ (by unfold MAXU; omega)
          rw [e1]
          simp only []
          cases checkedMul (entrySize ef * mc) 1 with
          | none => simp
          | some len => simp only []; split <;> split <;> simp
    · rw [if_neg hfm]; simp

/-- `DeltaSetIndexMap::get`: no panic, the entry is read inside `map_data`, both indices are `u16`s,
and the result is the one of C10's `Tent.dsimGet` -/
theorem dsimGet_facts {d : List Nat} {m : Dsim} (hb : Bytes d) (h : dsimRead d = .ok m) (index : Nat)
    (hidx : index < 4294967296) :
    ∃ ef mc data, m.entryFormat = some ef ∧ m.mapCount = some mc ∧ m.mapData = some data ∧
      data.length = m.mapLen ∧ data = (d.drop m.hdr).take m.mapLen ∧
      m.get index ≠ .trap ∧ (∀ e, m.get index = .err e → e = .oob) ∧
      (∀ o i, m.get index = .ok (o, i) →
        o < 65536 ∧ i < 65536 ∧ min index (mc - 1) * entrySize ef + entrySize ef ≤ data.length ∧
        Tent.dsimGet ef mc data index = some (o, i)) ∧
      (m.get index = .err .oob → Tent.dsimGet ef mc data index = none) := by
  obtain ⟨hd, hfmt, hhdr, hlen, ef0, mc, hef, hmc, hml, hmcl, hefl⟩ := dsimRead_ok hb h
  have hEf : m.entryFormat = some (ef0 % 64) := by unfold Dsim.entryFormat; rw [hd, hef]; rfl
  have hMc : m.mapCount = some mc := by unfold Dsim.mapCount; rw [hd]; exact hmc
  have hes0 : entrySize (ef0 % 64) = entrySize ef0 := by unfold entrySize; omega
  have hMd : m.mapData = some ((d.drop m.hdr).take m.mapLen) := by
    unfold Dsim.mapData
    have hbound : m.hdr + m.mapLen ≤ MAXU := by
      have h1 : entrySize ef0 * mc ≤ 4 * 4294967296 := by
        calc entrySize ef0 * mc ≤ 4 * mc := Nat.mul_le_mul_right _ (entrySize_range ef0).2
          _ ≤ 4 * 4294967296 := by omega
      unfold MAXU
      rw [hml]
      split at hhdr <;> omega
    rw [uadd_some _ _ hbound]
    simp only []
    unfold HandRead.readArray getRange
    rw [hd, if_pos ⟨by omega, hlen⟩]
    simp only []
    have : m.hdr + m.mapLen - m.hdr = m.mapLen := by omega
    rw [this]
    simp [Nat.mod_one]
  have hdl : ((d.drop m.hdr).take m.mapLen).length = m.mapLen := by
    simp only [List.length_take, List.length_drop]; omega
  refine ⟨ef0 % 64, mc, _, hEf, hMc, hMd, hdl, rfl, ?_⟩
  have hes := entrySize_range (ef0 % 64)
  have hbc := bitCount_range (ef0 % 64)
  have hidxm : min index (mc - 1) < 4294967296 := by omega
  have hmul : min index (mc - 1) * entrySize (ef0 % 64) ≤ 4294967296 * 4 := by
    calc min index (mc - 1) * entrySize (ef0 % 64) ≤ 4294967296 * entrySize (ef0 % 64) :=
          Nat.mul_le_mul_right _ (by omega)
      _ ≤ 4294967296 * 4 := Nat.mul_le_mul_left _ hes.2
  have hget : m.get index =
      match readAt ((d.drop m.hdr).take m.mapLen) (min index (mc - 1) * entrySize (ef0 % 64)) (entrySize (ef0 % 64)) with
      | none => .err .oob
      | some entry => .ok (entry / 2 ^ bitCount (ef0 % 64) % 65536, entry % 2 ^ bitCount (ef0 % 64) % 65536) := by
    unfold Dsim.get
    rw [hEf, hMc, hMd]
    simp only []
    rw [umul_some _ _ (by unfold MAXU; omega)]
    simp only []
    rw [if_pos hes]
    cases readAt ((d.drop m.hdr).take m.mapLen) (min index (mc - 1) * entrySize (ef0 % 64)) (entrySize (ef0 % 64)) with
    | none => rfl
    | some entry =>
      simp only []
      rw [if_pos (by omega)]
      have : 2 ^ bitCount (ef0 % 64) - 1 < 2 ^ bitCount (ef0 % 64) := by
        have : 0 < 2 ^ bitCount (ef0 % 64) := Nat.pow_pos (by omega)
        omega
      rw [if_pos this]
  rw [hget]
  have htent : Tent.dsimGet (ef0 % 64) mc ((d.drop m.hdr).take m.mapLen) index =
      if min index (mc - 1) * entrySize (ef0 % 64) + entrySize (ef0 % 64) ≤ ((d.drop m.hdr).take m.mapLen).length then
        some ((beValue ((((d.drop m.hdr).take m.mapLen).drop (min index (mc - 1) * entrySize (ef0 % 64))).take (entrySize (ef0 % 64)))
            / 2 ^ bitCount (ef0 % 64)) % 65536,
          beValue ((((d.drop m.hdr).take m.mapLen).drop (min index (mc - 1) * entrySize (ef0 % 64))).take (entrySize (ef0 % 64)))
            % 2 ^ bitCount (ef0 % 64) % 65536)
      else none := by
    unfold Tent.dsimGet entrySize bitCount
    rfl
  cases hra : readAt ((d.drop m.hdr).take m.mapLen) (min index (mc - 1) * entrySize (ef0 % 64)) (entrySize (ef0 % 64)) with
  | none =>
    simp only []
    refine ⟨by simp, fun e he => by injection he with he; exact he.symm, by simp, fun _ => ?_⟩
    rw [htent]
    have : ¬ (min index (mc - 1) * entrySize (ef0 % 64) + entrySize (ef0 % 64) ≤ ((d.drop m.hdr).take m.mapLen).length) := by
      intro hle
      obtain ⟨v, hv⟩ := readAt_isSome _ _ _ hle (by unfold MAXU; omega)
      rw [hv] at hra; cases hra
    rw [if_neg this]
  | some entry =>
    simp only []
    have hle := readAt_some_le hra
    refine ⟨by simp, by simp, ?_, by simp⟩
    intro o i hoi
    injection hoi with hoi
    injection hoi with ho hi
    have hpow : 2 ^ bitCount (ef0 % 64) ≤ 65536 := by
      calc 2 ^ bitCount (ef0 % 64) ≤ 2 ^ 16 := Nat.pow_le_pow_right (by omega) hbc.2
        _ = 65536 := by decide
    refine ⟨by omega, by omega, hle, ?_⟩
    rw [htent, if_pos hle]
    unfold readAt checkedAdd at hra
    rw [if_pos (by unfold MAXU; omega)] at hra
    simp only [] at hra
    rw [if_pos hle] at hra
    injection hra with hra
    unfold HandRead.beAt at hra
    rw [hra, ho, hi]

/-! ## `ItemVariationData` -/

/-- `delta_row_len` never overflows for `u16` arguments and is at most `4 · 65535` -/
theorem deltaRowLen_some (wdc ric : Nat) (hw : wdc < 65536) (hr : ric < 65536) :
    ∃ r, deltaRowLen wdc ric = some r ∧ r ≤ 262140 ∧ r = Tent.deltaRowLen wdc ric := by
  unfold deltaRowLen Tent.deltaRowLen
  simp only []
  by_cases hl : wdc / 32768 % 2 = 1
  · simp only [hl, decide_true, if_true]
    rw [umul_some _ _ (by unfold MAXU; omega), umul_some _ _ (by unfold MAXU; omega)]
    simp only []
    rw [uadd_some _ _ (by unfold MAXU; omega)]
    exact ⟨_, rfl, by omega, rfl⟩
  · simp only [hl, decide_false, Bool.false_eq_true, if_false]
    rw [umul_some _ _ (by unfold MAXU; omega), umul_some _ _ (by unfold MAXU; omega)]
    simp only []
    rw [uadd_some _ _ (by unfold MAXU; omega)]
    exact ⟨_, rfl, by omega, rfl⟩

theorem deltaSetsLen_some (ic wdc ric : Nat) (hi : ic < 65536) (hw : wdc < 65536) (hr : ric < 65536) :
    ∃ n, deltaSetsLen ic wdc ric = some n ∧ n ≤ 262140 * 65535 := by
  obtain ⟨r, hr1, hr2, _⟩ := deltaRowLen_some wdc ric hw hr
  unfold deltaSetsLen
  rw [hr1]
  simp only []
  have : r * ic ≤ 262140 * 65535 := Nat.mul_le_mul hr2 (by omega)
  rw [umul_some _ _ (by unfold MAXU; omega)]
  exact ⟨_, rfl, this⟩

/-- what a successful `ItemVariationData::read` establishes -/
theorem ivdRead_facts (d : List Nat) (hb : Bytes d) :
    ivdRead d ≠ .trap ∧ (∀ e, ivdRead d = .err e → e = .oob) ∧
    ∀ v, ivdRead d = .ok v →
      v.d = d ∧ 6 + v.riLen + v.dsLen ≤ d.length ∧
      ∃ ic wdc ric row, readAt d 0 2 = some ic ∧ readAt d 2 2 = some wdc ∧ readAt d 4 2 = some ric ∧
        ic < 65536 ∧ wdc < 65536 ∧ ric < 65536 ∧ v.riLen = ric * 2 ∧
        deltaRowLen wdc ric = some row ∧ v.dsLen = row * ic := by
  unfold ivdRead
  cases h0 : readAt d 0 2 with
  | none => exact ⟨by simp, fun e he => by injection he with he; exact he.symm, by simp⟩
  | some ic =>
    cases h2 : readAt d 2 2 with
    | none => exact ⟨by simp, fun e he => by injection he with he; exact he.symm, by simp⟩
    | some wdc =>
      cases h4 : readAt d 4 2 with
      | none => exact ⟨by simp, fun e he => by injection he with he; exact he.symm, by simp⟩
      | some ric =>
        simp only []
        have hic : ic < 65536 := by have := readAt_lt d hb 0 2 ic h0; omega
        have hwdc : wdc < 65536 := by have := readAt_lt d hb 2 2 wdc h2; omega
        have hric : ric < 65536 := by have := readAt_lt d hb 4 2 ric h4; omega
        have e1 : checkedMul ric 2 = some (ric * 2) := by unfold checkedMul; rw [if_pos (by unfold MAXU; omega)]
        rw [e1]
        simp only []
        obtain ⟨row, hrow, hrl, _⟩ := deltaRowLen_some wdc ric hwdc hric
        have hmul : row * ic ≤ 262140 * 65535 := Nat.mul_le_mul hrl (by omega)
        have e2 : deltaSetsLen ic wdc ric = some (row * ic) := by
          unfold deltaSetsLen; rw [hrow]; simp only []; exact umul_some _ _ (by unfold MAXU; omega)
        rw [e2]
        simp only []
        have e3 : checkedMul (row * ic) 1 = some (row * ic) := by
          unfold checkedMul; rw [if_pos (by unfold MAXU; omega)]; simp
        rw [e3]
        simp only []
        have e4 : satAdd (satAdd 6 (ric * 2)) (row * ic) = 6 + ric * 2 + row * ic := by
          rw [satAdd_exact 6 _ (by unfold MAXU; omega)]
          exact satAdd_exact _ _ (by unfold MAXU; omega)
        rw [e4]
        by_cases hle : 6 + ric * 2 + row * ic ≤ d.length
        · rw [if_pos hle]
          refine ⟨by simp, by simp, ?_⟩
          intro v hv
          injection hv with hv
          subst hv
          exact ⟨rfl, hle, ic, wdc, ric, row, rfl, rfl, rfl, hic, hwdc, hric, rfl, hrow, rfl⟩
        · rw [if_neg hle]
          exact ⟨by simp, fun e he => by injection he with he; exact he.symm, by simp⟩

/-- `ItemDeltas` yields at most `len − pos` values and never overflows its `u16` position -/
theorem itemDeltasGo_some (wdcLow : Nat) (long : Bool) (len : Nat) (hlen : len ≤ 65535) :
    ∀ (fuel pos : Nat) (bytes : List Nat), ∃ l, itemDeltasGo wdcLow long len fuel pos bytes = some l ∧
      l.length ≤ len - pos ∧ l.length ≤ fuel := by
  intro fuel
  induction fuel with
  | zero => intro pos bytes; exact ⟨[], rfl, by simp, by simp⟩
  | succ f ih =>
    intro pos bytes
    unfold itemDeltasGo
    by_cases hp : pos ≥ len
    · rw [if_pos hp]; exact ⟨[], rfl, by simp, by simp⟩
    · rw [if_neg hp, if_neg (by omega)]
      cases Tent.readW (Tent.colWidth wdcLow long pos) bytes with
      | none => exact ⟨[], rfl, by simp, by simp⟩
      | some vr =>
        obtain ⟨v, rest⟩ := vr
        simp only []
        obtain ⟨l, hl, h1, h2⟩ := ih (pos + 1) rest
        rw [hl]
        exact ⟨v :: l, rfl, by simp only [List.length_cons]; omega, by simp only [List.length_cons]; omega⟩

/-- the getters and `delta_set` of a read `ItemVariationData`: no panic, `region_index_count` region
indices, at most that many deltas, and the row offset `row_len · inner` is used only inside the delta
sets (a row beyond them is empty) -/
theorem ivd_getters {d : List Nat} {v : Ivd} (hb : Bytes d) (h : ivdRead d = .ok v) (inner : Nat)
    (hin : inner < 65536) :
    ∃ ris ds, v.regionIndexes = some ris ∧ v.deltaSet inner = some ds ∧ ds.length ≤ ris.length ∧
      ris.length < 65536 ∧ (∀ x ∈ ris, x < 65536) := by
  obtain ⟨_, _, hok⟩ := ivdRead_facts d hb
  obtain ⟨hd, hlen, ic, wdc, ric, row, h0, h2, h4, hic, hwdc, hric, hril, hrow, hdsl⟩ := hok v h
  obtain ⟨_, _, hrl, _⟩ := deltaRowLen_some wdc ric hwdc hric
  have hrowl : row ≤ 262140 := by rw [hrow] at *; rename_i r0 h' _; injection h' with h'; omega
  have hmul : row * ic ≤ 262140 * 65535 := Nat.mul_le_mul hrowl (by omega)
  have hRi : v.regionIndexes = some ((List.range ric).map (fun i => HandRead.beAt v.d (6 + 2 * i) 2)) := by
    unfold Ivd.regionIndexes
    rw [uadd_some _ _ (by unfold MAXU; omega)]
    simp only []
    unfold HandRead.readArray getRange
    rw [hd, if_pos ⟨by omega, by omega⟩]
    simp only []
    have : 6 + v.riLen - 6 = ric * 2 := by omega
    rw [this]
    simp
  have hDs : v.deltaSets = some ((v.d.drop (6 + v.riLen)).take v.dsLen) := by
    unfold Ivd.deltaSets
    rw [uadd_some _ _ (by unfold MAXU; omega)]
    simp only []
    rw [uadd_some _ _ (by unfold MAXU; omega)]
    simp only []
    unfold HandRead.readArray getRange
    rw [hd, if_pos ⟨by omega, by omega⟩]
    simp only []
    have : 6 + v.riLen + v.dsLen - (6 + v.riLen) = v.dsLen := by omega
    rw [this]
    simp [Nat.mod_one]
  have hmul2 : row * inner ≤ 262140 * 65535 := Nat.mul_le_mul hrowl (by omega)
  obtain ⟨l, hl, hl1, _⟩ := itemDeltasGo_some (wdc % 32768) (decide (wdc / 32768 % 2 = 1)) ric (by omega) ric 0
    (if row * inner ≤ ((v.d.drop (6 + v.riLen)).take v.dsLen).length
      then ((v.d.drop (6 + v.riLen)).take v.dsLen).drop (row * inner) else [])
  refine ⟨_, l, hRi, ?_, by simp; omega, by simp; omega, ?_⟩
  · unfold Ivd.deltaSet Ivd.wordDeltaCount Ivd.regionIndexCount
    rw [hd, h2, h4, hDs]
    simp only []
    rw [hrow]
    simp only []
    rw [umul_some _ _ (by unfold MAXU; omega)]
    exact hl
  · intro x hx
    simp only [List.mem_map, List.mem_range] at hx
    obtain ⟨i, _, rfl⟩ := hx
    rw [hd]
    exact beAt2_lt d hb _

/-! ## `ItemVariationStore` -/

theorem bytes_drop {d : List Nat} (hb : Bytes d) (n : Nat) : Bytes (d.drop n) :=
  fun b h => hb b (List.mem_of_mem_drop h)

theorem ivsRead_some {d : List Nat} {s : Ivs} (hb : Bytes d) (h : ivsRead d = some s) :
    s.d = d ∧ 8 + s.offsLen ≤ d.length ∧ s.offsLen % 4 = 0 ∧ s.offsLen ≤ 262140 := by
  unfold ivsRead at h
  cases hc : readAt d 6 2 with
  | none => rw [hc] at h; cases h
  | some cnt =>
    rw [hc] at h
    simp only [] at h
    have hcl : cnt < 65536 := by have := readAt_lt d hb 6 2 cnt hc; omega
    have e1 : checkedMul cnt 4 = some (cnt * 4) := by unfold checkedMul; rw [if_pos (by unfold MAXU; omega)]
    rw [e1] at h
    simp only [] at h
    rw [satAdd_exact 8 _ (by unfold MAXU; omega)] at h
    by_cases hle : 8 + cnt * 4 ≤ d.length
    · rw [if_pos hle] at h
      injection h with h
      subst h
      exact ⟨rfl, hle, by simp, by simp only []; omega⟩
    · rw [if_neg hle] at h; cases h

/-- `item_variation_data().get(outer)`: no panic (the offsets array was validated by the reader); a
subtable is read from a suffix of the store -/
theorem itemData_facts {d : List Nat} {s : Ivs} (hb : Bytes d) (h : ivsRead d = some s) (outer : Nat) :
    s.itemData outer ≠ .trap ∧
    (∀ e, s.itemData outer = .err e → e = .oob ∨ e = .invalidIndex outer) ∧
    ∀ v, s.itemData outer = .ok (some v) → ∃ d', ivdRead d' = .ok v ∧ Bytes d' ∧ d'.length ≤ d.length := by
  obtain ⟨hd, hlen, hm4, hol⟩ := ivsRead_some hb h
  unfold Ivs.itemData
  rw [uadd_some _ _ (by unfold MAXU; omega)]
  simp only []
  have hra : HandRead.readArray s.d 8 (8 + s.offsLen) 4 = .ok (s.offsLen / 4) := by
    unfold HandRead.readArray getRange
    rw [hd, if_pos ⟨by omega, hlen⟩]
    simp only []
    have : 8 + s.offsLen - 8 = s.offsLen := by omega
    rw [this]
    simp [hm4]
  rw [hra]
  simp only []
  by_cases ho : outer < s.offsLen / 4
  · rw [if_pos ho]
    split
    · exact ⟨by simp, by simp, by simp⟩
    · split
      · rename_i hoff
        have hfacts := ivdRead_facts (s.d.drop (HandRead.beAt s.d (8 + 4 * outer) 4)) (by rw [hd]; exact bytes_drop hb _)
        cases hr : ivdRead (s.d.drop (HandRead.beAt s.d (8 + 4 * outer) 4)) with
        | trap => exact absurd hr hfacts.1
        | err e => exact ⟨by simp, fun e' he' => by injection he' with he'; subst he'; exact Or.inl (hfacts.2.1 e hr), by simp⟩
        | ok v =>
          refine ⟨by simp, by simp, ?_⟩
          intro v' hv'
          injection hv' with hv'
          injection hv' with hv'
          subst hv'
          refine ⟨_, hr, by rw [hd]; exact bytes_drop hb _, ?_⟩
          rw [hd]; simp
      · exact ⟨by simp, fun e he => by injection he with he; exact Or.inl he.symm, by simp⟩
  · rw [if_neg ho]
    exact ⟨by simp, fun e he => by injection he with he; exact Or.inr he.symm, by simp⟩

/-- `variation_region_list()`: no panic -/
theorem regionList_facts {d : List Nat} {s : Ivs} (hb : Bytes d) (h : ivsRead d = some s) :
    s.regionList ≠ .trap ∧ (∀ e, s.regionList = .err e → e = .oob ∨ e = .nullOffset) ∧
    ∀ rl, s.regionList = .ok rl → Bytes rl.d ∧ 4 + rl.regLen ≤ rl.d.length ∧
      ∃ ac rc, rl.axisCount = some ac ∧ ac < 65536 ∧ rc < 65536 ∧ rl.regLen = rc * (ac * 6) := by
  obtain ⟨hd, hlen, _, _⟩ := ivsRead_some hb h
  unfold Ivs.regionList
  obtain ⟨off, hoff⟩ := readAt_isSome s.d 2 4 (by rw [hd]; omega) (by unfold MAXU; omega)
  rw [hoff]
  simp only []
  have hres := resolveData_facts s.d off
  cases hrd : resolveData s.d off with
  | trap => exact absurd hrd hres.1
  | err e => exact ⟨by simp, fun e' he' => by injection he' with he'; subst he'; exact resolveData_err _ _ _ hrd, by simp⟩
  | ok data =>
    simp only []
    obtain ⟨hdata, _, _⟩ := hres.2 data hrd
    have hbd : Bytes data := by rw [hdata, hd]; exact bytes_drop hb _
    cases ha : readAt data 0 2 with
    | none => exact ⟨by simp, fun e he => by injection he with he; exact Or.inl he.symm, by simp⟩
    | some ac =>
      cases hc : readAt data 2 2 with
      | none => exact ⟨by simp, fun e he => by injection he with he; exact Or.inl he.symm, by simp⟩
      | some rc =>
        simp only []
        have hacl : ac < 65536 := by have := readAt_lt data hbd 0 2 ac ha; omega
        have hrcl : rc < 65536 := by have := readAt_lt data hbd 2 2 rc hc; omega
        have e1 : checkedMul ac 6 = some (ac * 6) := by unfold checkedMul; rw [if_pos (by unfold MAXU; omega)]
        rw [e1]
        simp only []
        have hmul : rc * (ac * 6) ≤ 65535 * (65535 * 6) := Nat.mul_le_mul (by omega) (by omega)
        have e2 : checkedMul rc (ac * 6) = some (rc * (ac * 6)) := by
          unfold checkedMul; rw [if_pos (by unfold MAXU; omega)]
        rw [e2]
        simp only []
        rw [satAdd_exact 4 _ (by unfold MAXU; omega)]
        by_cases hle : 4 + rc * (ac * 6) ≤ data.length
        · rw [if_pos hle]
          refine ⟨by simp, by simp, ?_⟩
          intro rl hrl
          injection hrl with hrl
          subst hrl
          exact ⟨hbd, hle, ac, rc, ha, hacl, hrcl, rfl⟩
        · rw [if_neg hle]
          exact ⟨by simp, fun e he => by injection he with he; exact Or.inl he.symm, by simp⟩

theorem regionAxes_facts (d : List Nat) (hb : Bytes d) (a n : Nat) :
    (regionAxes d a n).length = n ∧ ∀ x ∈ regionAxes d a n, I16 x.1 ∧ I16 x.2.1 ∧ I16 x.2.2 := by
  refine ⟨by simp [regionAxes], ?_⟩
  intro x hx
  simp only [regionAxes, List.mem_map, List.mem_range] at hx
  obtain ⟨i, _, rfl⟩ := hx
  exact ⟨toI16_I16 _ (beAt2_lt d hb _), toI16_I16 _ (beAt2_lt d hb _), toI16_I16 _ (beAt2_lt d hb _)⟩

/-- `variation_regions().get(idx)`: no panic; a region that is answered lies inside the region array
and has `axis_count` `i16` triples -/
theorem region_facts (rl : Vrl) (hb : Bytes rl.d) (hlen : 4 + rl.regLen ≤ rl.d.length) (ac : Nat)
    (hac : rl.axisCount = some ac) (hacl : ac < 65536) (hrl : rl.regLen ≤ 65535 * (65535 * 6)) (idx : Nat) :
    rl.region idx ≠ .trap ∧ (∀ e, rl.region idx = .err e → e = .oob) ∧
    ∀ axes, rl.region idx = .ok axes → axes.length = ac ∧ idx * (6 * ac) + 6 * ac ≤ rl.regLen ∧
      ∀ x ∈ axes, I16 x.1 ∧ I16 x.2.1 ∧ I16 x.2.2 := by
  unfold Vrl.region
  rw [hac, uadd_some _ _ (by unfold MAXU; omega)]
  simp only []
  have : sliceExcl rl.d 4 (4 + rl.regLen) = some (4 + rl.regLen - 4) := by
    unfold sliceExcl getRange; rw [if_pos ⟨by omega, hlen⟩]
  rw [this]
  simp only []
  cases hc : compGet rl.regLen (6 * ac) idx with
  | none => exact ⟨by simp, fun e he => by injection he with he; exact he.symm, by simp⟩
  | some off =>
    simp only []
    refine ⟨by simp, by simp, ?_⟩
    intro axes ha
    injection ha with ha
    subst ha
    obtain ⟨h1, h2⟩ := regionAxes_facts rl.d hb (4 + off) ac
    refine ⟨h1, ?_, h2⟩
    unfold compGet checkedMul at hc
    split at hc
    · cases hc
    · rename_i o ho
      split at ho
      · injection ho with ho
        subst ho
        split at hc
        · injection hc with hc
        · cases hc
      · cases ho

/-- the delta / region pairing: with at most as many deltas as region indices the `MalformedData`
exit is never taken, nothing panics, and every delta keeps its position -/
theorem deltaRegions_facts (rl : Vrl) (hb : Bytes rl.d) (hlen : 4 + rl.regLen ≤ rl.d.length) (ac : Nat)
    (hac : rl.axisCount = some ac) (hacl : ac < 65536) (hrl : rl.regLen ≤ 65535 * (65535 * 6)) :
    ∀ (ds : List Int) (ris : List Nat), ds.length ≤ ris.length →
      deltaRegions rl ds ris ≠ .trap ∧ (∀ e, deltaRegions rl ds ris = .err e → e = .oob) ∧
      ∀ l, deltaRegions rl ds ris = .ok l → l.map (·.1) = ds ∧
        ∀ x ∈ l, x.2.length = ac ∧ ∀ y ∈ x.2, I16 y.1 ∧ I16 y.2.1 ∧ I16 y.2.2 := by
  intro ds
  induction ds with
  | nil => intro ris _; exact ⟨by simp [deltaRegions], by simp [deltaRegions], by simp [deltaRegions]⟩
  | cons dl rest ih =>
    intro ris hl
    cases ris with
    | nil => simp at hl
    | cons ri ris' =>
      unfold deltaRegions
      obtain ⟨r1, r2, r3⟩ := region_facts rl hb hlen ac hac hacl hrl ri
      cases hr : rl.region ri with
      | trap => exact absurd hr r1
      | err e => exact ⟨by simp, fun e' he' => by injection he' with he'; subst he'; exact r2 e hr, by simp⟩
      | ok axes =>
        simp only []
        obtain ⟨i1, i2, i3⟩ := ih ris' (by simp at hl; omega)
        cases hrest : deltaRegions rl rest ris' with
        | trap => exact absurd hrest i1
        | err e => exact ⟨by simp, fun e' he' => by injection he' with he'; subst he'; exact i2 e hrest, by simp⟩
        | ok l' =>
          refine ⟨by simp, by simp, ?_⟩
          intro l hl'
          injection hl' with hl'
          subst hl'
          obtain ⟨j1, j2⟩ := i3 l' hrest
          obtain ⟨k1, _, k3⟩ := r3 axes hr
          refine ⟨by simp [j1], ?_⟩
          intro x hx
          simp only [List.mem_cons] at hx
          rcases hx with rfl | hx
          · exact ⟨k1, k3⟩
          · exact j2 x hx

theorem readW_I32 (w : Nat) (bytes : List Nat) (hb : Bytes bytes) (v : Int) (rest : List Nat)
    (h : Tent.readW w bytes = some (v, rest)) : I32 v ∧ Bytes rest := by
  unfold Tent.readW at h
  split at h
  · unfold Tent.readS1 at h
    match bytes, hb, h with
    | b :: r, hb, h =>
      simp only [Option.some.injEq, Prod.mk.injEq] at h
      have hb0 := hb b (by simp)
      obtain ⟨h1, h2⟩ := h
      subst h2
      refine ⟨?_, fun x hx => hb x (by simp [hx])⟩
      unfold I32; rw [← h1]; split <;> omega
  · split at h
    · unfold Tent.readS2 at h
      match bytes, hb, h with
      | a :: b :: r, hb, h =>
        simp only [Option.some.injEq, Prod.mk.injEq] at h
        have ha := hb a (by simp)
        have hb0 := hb b (by simp)
        obtain ⟨h1, h2⟩ := h
        subst h2
        refine ⟨?_, fun x hx => hb x (by simp [hx])⟩
        unfold I32; rw [← h1]; split <;> omega
    · unfold Tent.readS4 at h
      match bytes, hb, h with
      | a :: b :: c :: e :: r, hb, h =>
        simp only [Option.some.injEq, Prod.mk.injEq] at h
        have ha := hb a (by simp)
        have hb0 := hb b (by simp)
        have hc := hb c (by simp)
        have he := hb e (by simp)
        obtain ⟨h1, h2⟩ := h
        subst h2
        refine ⟨?_, fun x hx => hb x (by simp [hx])⟩
        unfold I32; rw [← h1]; split <;> omega

theorem itemDeltasGo_I32 (wdcLow : Nat) (long : Bool) (len : Nat) :
    ∀ (fuel pos : Nat) (bytes : List Nat) (l : List Int), Bytes bytes →
      itemDeltasGo wdcLow long len fuel pos bytes = some l → ∀ x ∈ l, I32 x := by
  intro fuel
  induction fuel with
  | zero => intro pos bytes l _ h; simp [itemDeltasGo] at h; subst h; simp
  | succ f ih =>
    intro pos bytes l hb h
    unfold itemDeltasGo at h
    split at h
    · injection h with h; subst h; simp
    · split at h
      · cases h
      · cases hr : Tent.readW (Tent.colWidth wdcLow long pos) bytes with
        | none => rw [hr] at h; injection h with h; subst h; simp
        | some vr =>
          obtain ⟨v, rest⟩ := vr
          rw [hr] at h
          simp only [] at h
          obtain ⟨hv, hrest⟩ := readW_I32 _ bytes hb v rest hr
          cases hg : itemDeltasGo wdcLow long len f (pos + 1) rest with
          | none => rw [hg] at h; cases h
          | some l' =>
            rw [hg] at h
            simp only [Option.map_some] at h
            injection h with h
            subst h
            intro x hx
            simp only [List.mem_cons] at hx
            rcases hx with rfl | hx
            · exact hv
            · exact ih (pos + 1) rest l' hrest hg x hx

/-- all deltas of a row are `i32`s -/
theorem deltaSet_I32 {d : List Nat} {v : Ivd} (hb : Bytes d) (h : ivdRead d = .ok v) (inner : Nat)
    (ds : List Int) (hds : v.deltaSet inner = some ds) : ∀ x ∈ ds, I32 x := by
  obtain ⟨_, _, hok⟩ := ivdRead_facts d hb
  obtain ⟨hd, _⟩ := hok v h
  unfold Ivd.deltaSet at hds
  split at hds
  · rename_i wdc ric dsb _ _ hdsb
    split at hds
    · cases hds
    · split at hds
      · cases hds
      · have hbb : Bytes dsb := by
          unfold Ivd.deltaSets at hdsb
          split at hdsb
          · cases hdsb
          · split at hdsb
            · cases hdsb
            · split at hdsb
              · injection hdsb with hdsb
                rw [← hdsb, hd]
                intro b hbm
                exact hb b (List.mem_of_mem_drop (List.mem_of_mem_take hbm))
              · cases hdsb
        refine itemDeltasGo_I32 _ _ _ _ _ _ ds ?_ hds
        split
        · exact bytes_drop hbb _
        · intro b hbm; simp at hbm
  · cases hds

/-- the walk in front of the arithmetic of `compute_delta` / `compute_float_delta`: no panic, the
`MalformedData` exit is dead, and the kernel gets at most 65535 `i32` deltas with `i16` regions -/
theorem deltaWalk_facts {d : List Nat} {s : Ivs} (hb : Bytes d) (h : ivsRead d = some s) (outer inner : Nat)
    (hin : inner < 65536) (ce : Bool) :
    s.deltaWalk outer inner ce ≠ .trap ∧
    (∀ e, s.deltaWalk outer inner ce = .err e → e = .oob ∨ e = .nullOffset ∨ e = .invalidIndex outer) ∧
    ∀ l, s.deltaWalk outer inner ce = .ok (some l) → l.length ≤ 65535 ∧
      ∀ x ∈ l, I32 x.1 ∧ ∀ y ∈ x.2, I16 y.1 ∧ I16 y.2.1 ∧ I16 y.2.2 := by
  unfold Ivs.deltaWalk
  cases ce with
  | true => exact ⟨by simp, by simp, by simp⟩
  | false =>
    simp only [Bool.false_eq_true, if_false]
    obtain ⟨i1, i2, i3⟩ := itemData_facts hb h outer
    cases hid : s.itemData outer with
    | trap => exact absurd hid i1
    | err e =>
      refine ⟨by simp, fun e' he' => ?_, by simp⟩
      injection he' with he'; subst he'
      rcases i2 e hid with h1 | h1
      · exact Or.inl h1
      · exact Or.inr (Or.inr h1)
    | ok ov =>
      cases ov with
      | none => exact ⟨by simp, by simp, by simp⟩
      | some v =>
        simp only []
        obtain ⟨d', hrd, hbd', _⟩ := i3 v hid
        obtain ⟨r1, r2, r3⟩ := regionList_facts hb h
        cases hrl : s.regionList with
        | trap => exact absurd hrl r1
        | err e =>
          refine ⟨by simp, fun e' he' => ?_, by simp⟩
          injection he' with he'; subst he'
          rcases r2 e hrl with h1 | h1
          · exact Or.inl h1
          · exact Or.inr (Or.inl h1)
        | ok rl =>
          simp only []
          obtain ⟨hbr, hlen, ac, rc, hac, hacl, hrc, hreg⟩ := r3 rl hrl
          obtain ⟨ris, ds, hris, hds, hdl, hrisl, _⟩ := ivd_getters hbd' hrd inner hin
          rw [hris, hds]
          simp only []
          have hregl : rl.regLen ≤ 65535 * (65535 * 6) := by
            rw [hreg]
            exact Nat.mul_le_mul (by omega) (by omega)
          obtain ⟨g1, g2, g3⟩ := deltaRegions_facts rl hbr hlen ac hac hacl hregl ds ris hdl
          cases hdr : deltaRegions rl ds ris with
          | trap => exact absurd hdr g1
          | err e =>
            refine ⟨by simp, fun e' he' => ?_, by simp⟩
            injection he' with he'; subst he'
            exact Or.inl (g2 e hdr)
          | ok l =>
            refine ⟨by simp, by simp, ?_⟩
            intro l' hl'
            injection hl' with hl'
            injection hl' with hl'
            subst hl'
            obtain ⟨k1, k2⟩ := g3 l hdr
            have hll : l.length = ds.length := by rw [← k1]; simp
            refine ⟨by omega, ?_⟩
            intro x hx
            refine ⟨?_, (k2 x hx).2⟩
            have : x.1 ∈ ds := by rw [← k1]; exact List.mem_map.mpr ⟨x, hx, rfl⟩
            exact deltaSet_I32 hbd' hrd inner ds hds x.1 this

/-! ## `Mvar::metric_delta`: the binary search -/

/-- the search never indexes outside the records, never overflows, and needs at most `hi − lo` trips -/
theorem mvarSearch_facts (tags : List Nat) (tag : Nat) (hn : tags.length ≤ 65535) :
    ∀ (fuel lo hi : Nat), hi ≤ tags.length → hi - lo < fuel →
      ∃ r, mvarSearch tags tag fuel lo hi = .ok r ∧ (∀ i, r = some i → lo ≤ i ∧ i < hi ∧ tags[i]? = some tag) := by
  intro fuel
  induction fuel with
  | zero => intro lo hi _ h; omega
  | succ f ih =>
    intro lo hi hhi hf
    unfold mvarSearch
    by_cases hlt : lo < hi
    · rw [if_pos hlt]
      rw [uadd_some _ _ (by unfold MAXU; omega)]
      simp only []
      have hi_lt : (lo + hi) / 2 < tags.length := by omega
      rw [List.getElem?_eq_getElem hi_lt]
      simp only []
      by_cases h1 : tag < tags[(lo + hi) / 2]
      · rw [if_pos h1]
        obtain ⟨r, hr, hp⟩ := ih lo ((lo + hi) / 2) (by omega) (by omega)
        exact ⟨r, hr, fun i hi' => by obtain ⟨a, b, c⟩ := hp i hi'; exact ⟨a, by omega, c⟩⟩
      · rw [if_neg h1]
        by_cases h2 : tag > tags[(lo + hi) / 2]
        · rw [if_pos h2]
          rw [uadd_some _ _ (by unfold MAXU; omega)]
          simp only []
          obtain ⟨r, hr, hp⟩ := ih ((lo + hi) / 2 + 1) hi hhi (by omega)
          exact ⟨r, hr, fun i hi' => by obtain ⟨a, b, c⟩ := hp i hi'; exact ⟨by omega, b, c⟩⟩
        · rw [if_neg h2]
          refine ⟨some ((lo + hi) / 2), rfl, ?_⟩
          intro i hi'
          injection hi' with hi'
          subst hi'
          refine ⟨by omega, by omega, ?_⟩
          rw [List.getElem?_eq_getElem hi_lt]
          congr 1
          omega
    · rw [if_neg hlt]
      exact ⟨none, rfl, fun i hi' => by cases hi'⟩

/-! ## `compute_delta`, `advance_delta`, `item_delta`, `metric_delta`, `SegmentMaps::apply` -/

/-- the statement of C20's `computeDelta_no_trap` for fixed coordinates -/
def DeltaKernelTotal (coords : List Int) : Prop :=
  ∀ cols : List (List (Int × Int × Int) × Int),
    (∀ col ∈ cols, (∀ a ∈ col.1, I16 a.1 ∧ I16 a.2.1 ∧ I16 a.2.2) ∧ I32 col.2) → cols.length ≤ 65535 →
    (Checked.computeDelta cols coords).isSome

theorem computeDelta_facts {d : List Nat} {s : Ivs} (hb : Bytes d) (h : ivsRead d = some s) (outer inner : Nat)
    (hin : inner < 65536) (coords : List Int) (hk : DeltaKernelTotal coords) :
    s.computeDelta outer inner coords ≠ .trap ∧ s.computeFloatDelta outer inner coords ≠ .trap ∧
    (∀ e, s.computeDelta outer inner coords = .err e → e = .oob ∨ e = .nullOffset ∨ e = .invalidIndex outer) := by
  obtain ⟨w1, w2, w3⟩ := deltaWalk_facts hb h outer inner hin coords.isEmpty
  unfold Ivs.computeDelta Ivs.computeFloatDelta
  cases hw : s.deltaWalk outer inner coords.isEmpty with
  | trap => exact absurd hw w1
  | err e => exact ⟨by simp, by simp, fun e' he' => by injection he' with he'; subst he'; exact w2 e hw⟩
  | ok ol =>
    cases ol with
    | none => exact ⟨by simp, by simp, by simp⟩
    | some l =>
      simp only []
      obtain ⟨hl, hall⟩ := w3 l hw
      have := hk (l.map (fun x => (x.2, x.1))) (by
        intro col hcol
        simp only [List.mem_map] at hcol
        obtain ⟨x, hx, rfl⟩ := hcol
        exact ⟨(hall x hx).2, (hall x hx).1⟩) (by simpa using hl)
      obtain ⟨r, hr⟩ := Option.isSome_iff_exists.mp this
      rw [hr]
      exact ⟨by simp [unwrapR], by simp, by simp [unwrapR]⟩

theorem deltaAsFixed_no_trap (ivs : R Ivs) (hivs : ivs ≠ .trap)
    (hsrc : ∀ s, ivs = .ok s → ∃ d, Bytes d ∧ ivsRead d = some s) (ix : Nat × Nat) (hin : ix.2 < 65536)
    (coords : List Int) (hk : DeltaKernelTotal coords) : deltaAsFixed ivs ix coords ≠ .trap := by
  unfold deltaAsFixed
  cases hi : ivs with
  | trap => exact absurd hi hivs
  | err e => simp
  | ok s =>
    simp only []
    obtain ⟨d, hb, hr⟩ := hsrc s hi
    obtain ⟨c1, _, _⟩ := computeDelta_facts hb hr ix.1 ix.2 hin coords hk
    cases hc : s.computeDelta ix.1 ix.2 coords with
    | trap => exact absurd hc c1
    | err e => simp
    | ok v =>
      simp only []
      obtain ⟨f, hf, _⟩ := fxFromI32_some v
      rw [hf]
      simp [unwrapR]

theorem resolveIvs_facts (d : List Nat) (hb : Bytes d) (off : Nat) :
    resolveIvs d off ≠ .trap ∧ ∀ s, resolveIvs d off = .ok s → ∃ d', Bytes d' ∧ ivsRead d' = some s := by
  unfold resolveIvs
  have hres := resolveData_facts d off
  cases hr : resolveData d off with
  | trap => exact absurd hr hres.1
  | err e => exact ⟨by simp, by simp⟩
  | ok data =>
    simp only []
    obtain ⟨hdata, _, _⟩ := hres.2 data hr
    cases hi : ivsRead data with
    | none => exact ⟨by simp [okOr], by simp [okOr]⟩
    | some s =>
      refine ⟨by simp [okOr], ?_⟩
      intro s' hs'
      simp only [okOr] at hs'
      injection hs' with hs'
      subst hs'
      exact ⟨data, by rw [hdata]; exact bytes_drop hb _, hi⟩

theorem resolveDsim_facts (d : List Nat) (hb : Bytes d) (off : Nat) :
    resolveDsim d off ≠ some .trap ∧ ∀ m, resolveDsim d off = some (.ok m) → ∃ d', Bytes d' ∧ dsimRead d' = .ok m := by
  unfold resolveDsim
  split
  · exact ⟨by simp, by simp⟩
  · split
    · refine ⟨?_, ?_⟩
      · intro hc
        injection hc with hc
        exact dsimRead_no_trap _ (bytes_drop hb _) hc
      · intro m hm
        injection hm with hm
        exact ⟨_, bytes_drop hb _, hm⟩
    · exact ⟨by simp, by simp⟩

theorem advanceItem_no_trap (dsim : Option (R Dsim)) (ivs : R Ivs) (hd : dsim ≠ some .trap) (hivs : ivs ≠ .trap)
    (hdsrc : ∀ m, dsim = some (.ok m) → ∃ d, Bytes d ∧ dsimRead d = .ok m)
    (hsrc : ∀ s, ivs = .ok s → ∃ d, Bytes d ∧ ivsRead d = some s) (gid : Nat) (hg : gid < 4294967296)
    (coords : List Int) (hk : DeltaKernelTotal coords) :
    advanceDelta dsim ivs gid coords ≠ .trap ∧ itemDelta dsim ivs gid coords ≠ .trap := by
  have hmap : ∀ m, dsim = some (.ok m) →
      (match m.get gid with
        | .err e => R.err e
        | .trap => .trap
        | .ok ix => deltaAsFixed ivs ix coords) ≠ .trap := by
    intro m hm
    obtain ⟨d, hb, hr⟩ := hdsrc m hm
    obtain ⟨ef, mc, data, _, _, _, _, _, g1, _, g3, _⟩ := dsimGet_facts hb hr gid hg
    cases hgm : m.get gid with
    | trap => exact absurd hgm g1
    | err e => simp
    | ok ix =>
      simp only []
      obtain ⟨o, i⟩ := ix
      obtain ⟨_, hi, _⟩ := g3 o i hgm
      exact deltaAsFixed_no_trap ivs hivs hsrc (o, i) hi coords hk
  have himp := deltaAsFixed_no_trap ivs hivs hsrc (0, gid % 65536) (by simp; omega) coords hk
  constructor
  · unfold advanceDelta
    cases dsim with
    | none =>
      cases ivs with
      | trap => exact absurd rfl hivs
      | err e => simp only []; split <;> first | exact himp | simp
      | ok s => simp only []; split <;> first | exact himp | simp
    | some rm =>
      cases rm with
      | trap => exact absurd rfl hd
      | err e =>
        cases ivs with
        | trap => exact absurd rfl hivs
        | err e' => simp only []; split <;> first | exact himp | simp
        | ok s => simp only []; split <;> first | exact himp | simp
      | ok m =>
        cases ivs with
        | trap => exact absurd rfl hivs
        | err e' => simp only []; split <;> first | exact hmap m rfl | simp
        | ok s => simp only []; split <;> first | exact hmap m rfl | simp
  · unfold itemDelta
    cases dsim with
    | none =>
      cases ivs with
      | trap => exact absurd rfl hivs
      | err e => simp only []; split <;> simp
      | ok s => simp only []; split <;> simp
    | some rm =>
      cases rm with
      | trap => exact absurd rfl hd
      | err e =>
        cases ivs with
        | trap => exact absurd rfl hivs
        | err e' => simp only []; split <;> simp
        | ok s => simp only []; split <;> simp
      | ok m =>
        cases ivs with
        | trap => exact absurd rfl hivs
        | err e' => simp only []; split <;> first | exact hmap m rfl | simp
        | ok s => simp only []; split <;> first | exact hmap m rfl | simp

theorem metricsDelta_no_trap (d : List Nat) (hb : Bytes d) (vvar : Bool) (which gid : Nat)
    (hw : which ≤ (if vvar then 3 else 2)) (hg : gid < 4294967296) (coords : List Int)
    (hk : DeltaKernelTotal coords) : metricsDelta d vvar which gid coords ≠ .trap := by
  unfold metricsDelta
  by_cases hl : d.length < (if vvar then 24 else 20)
  · rw [if_pos hl]; simp
  · rw [if_neg hl]
    obtain ⟨so, hso⟩ := readAt_isSome d 4 4 (by split at hl <;> omega) (by unfold MAXU; omega)
    obtain ⟨mo, hmo⟩ := readAt_isSome d (8 + 4 * which) 4 (by split at hl <;> split at hw <;> simp_all <;> omega)
      (by unfold MAXU; split at hw <;> omega)
    rw [hso, hmo]
    simp only []
    obtain ⟨d1, d2⟩ := resolveDsim_facts d hb mo
    obtain ⟨i1, i2⟩ := resolveIvs_facts d hb so
    obtain ⟨a1, a2⟩ := advanceItem_no_trap (resolveDsim d mo) (resolveIvs d so) d1 i1 d2 i2 gid hg coords hk
    split
    · exact a1
    · exact a2

theorem mvarMetricDelta_no_trap (d : List Nat) (hb : Bytes d) (tag : Nat) (coords : List Int)
    (hk : DeltaKernelTotal coords) : mvarMetricDelta d tag coords ≠ .trap := by
  unfold mvarMetricDelta
  cases hc : readAt d 8 2 with
  | none => simp
  | some count =>
    simp only []
    have hcl : count < 65536 := by have := readAt_lt d hb 8 2 count hc; omega
    have e1 : checkedMul count 8 = some (count * 8) := by unfold checkedMul; rw [if_pos (by unfold MAXU; omega)]
    rw [e1]
    simp only []
    rw [satAdd_exact 12 _ (by unfold MAXU; omega)]
    by_cases hle : 12 + count * 8 ≤ d.length
    · rw [if_pos hle, uadd_some _ _ (by unfold MAXU; omega)]
      simp only []
      have hra : HandRead.readArray d 12 (12 + count * 8) 8 = .ok count := by
        unfold HandRead.readArray getRange
        rw [if_pos ⟨by omega, hle⟩]
        simp only []
        have : 12 + count * 8 - 12 = count * 8 := by omega
        rw [this]
        simp
      rw [hra]
      simp only []
      obtain ⟨r, hr, hp⟩ := mvarSearch_facts ((List.range count).map (fun i => HandRead.beAt d (12 + 8 * i) 4)) tag
        (by simp; omega) (count + 1) 0 count (by simp) (by omega)
      rw [hr]
      cases r with
      | none => simp
      | some i =>
        simp only []
        obtain ⟨so, hso⟩ := readAt_isSome d 10 2 (by omega) (by unfold MAXU; omega)
        rw [hso]
        simp only []
        split
        · simp
        · refine deltaAsFixed_no_trap _ ?_ ?_ _ (by simp only []; exact beAt2_lt d hb _) coords hk
          · split
            · cases ivsRead (d.drop so) <;> simp [okOr]
            · simp
          · intro s hs
            split at hs
            · cases hi : ivsRead (d.drop so) with
              | none => rw [hi] at hs; simp [okOr] at hs
              | some s' =>
                rw [hi] at hs
                simp only [okOr] at hs
                injection hs with hs
                subst hs
                exact ⟨_, bytes_drop hb _, hi⟩
            · cases hs
    · rw [if_neg hle]; simp

/-- the statement of C20's `avarApply_no_trap` for a fixed coordinate -/
def AvarKernelTotal (coord : Int) : Prop :=
  ∀ maps : List (Int × Int), (∀ m ∈ maps, I16 m.1 ∧ I16 m.2) → (Checked.avarApply maps coord).isSome

theorem segmentMapsApply_no_trap (d : List Nat) (hb : Bytes d) (coord : Int) (hk : AvarKernelTotal coord) :
    segmentMapsApply d coord ≠ .trap := by
  unfold segmentMapsApply
  cases readAt d 0 2 with
  | none => simp
  | some count =>
    simp only []
    cases (Cur.readArray d ⟨2⟩ count 4).1 with
    | error e => simp
    | ok n =>
      simp only []
      have := hk ((List.range n).map (fun i =>
        (toI16 (HandRead.beAt d (2 + 4 * i) 2), toI16 (HandRead.beAt d (2 + 4 * i + 2) 2)))) (by
        intro m hm
        simp only [List.mem_map, List.mem_range] at hm
        obtain ⟨i, _, rfl⟩ := hm
        exact ⟨toI16_I16 _ (beAt2_lt d hb _), toI16_I16 _ (beAt2_lt d hb _)⟩)
      obtain ⟨r, hr⟩ := Option.isSome_iff_exists.mp this
      rw [hr]
      simp [unwrapR]

theorem dsimRead_err (d : List Nat) (e : VErr) (h : dsimRead d = .err e) : e = .oob ∨ ∃ n, e = .invalidFormat n := by
  unfold dsimRead at h
  cases hf : readAt d 0 1 with
  | none => rw [hf] at h; injection h with h; exact Or.inl h.symm
  | some fmt =>
    rw [hf] at h
    simp only [] at h
    by_cases hfm : fmt = 0 ∨ fmt = 1
    · rw [if_pos hfm] at h
      cases hef : readAt d 1 1 with
      | none => rw [hef] at h; injection h with h; exact Or.inl h.symm
      | some ef =>
        cases hmc : readAt d 2 (if fmt = 0 then 2 else 4) with
        | none => rw [hef, hmc] at h; injection h with h; exact Or.inl h.symm
        | some mc =>
          rw [hef, hmc] at h
          simp only [] at h
          cases hms : mapSize ef mc with
          | none => rw [hms] at h; cases h
          | some ms =>
            rw [hms] at h
            simp only [] at h
            cases hcm : checkedMul ms 1 with
            | none => rw [hcm] at h; injection h with h; exact Or.inl h.symm
            | some len =>
              rw [hcm] at h
              simp only [] at h
              by_cases hle : satAdd (2 + if fmt = 0 then 2 else 4) len ≤ d.length
              · rw [if_pos hle] at h; cases h
              · rw [if_neg hle] at h; injection h with h; exact Or.inl h.symm
    · rw [if_neg hfm] at h
      injection h with h
      exact Or.inr ⟨fmt, h.symm⟩

/-! ## `read_dense_deltas`, `read_sparse_deltas` -/

/-- the coordinate arithmetic of the instantiation cannot trap -/
def ArithTotal (k : DKind) (scalar : Int) : Prop :=
  (∀ v, (deltaTerm k scalar v).isSome) ∧ (∀ a b, (k.addAssign a b).isSome)

theorem addAt_some (k : DKind) (scalar : Int) (ha : ArithTotal k scalar) (buf : List Int) (ix : Nat) (t : Int)
    (h : ix < buf.length) : ∃ b', addAt k buf ix t = some b' ∧ b'.length = buf.length := by
  unfold addAt
  rw [List.getElem?_eq_getElem h]
  simp only []
  obtain ⟨r, hr⟩ := Option.isSome_iff_exists.mp (ha.2 buf[ix] t)
  rw [hr]
  exact ⟨_, rfl, by simp⟩

theorem addAt_length (k : DKind) (buf : List Int) (ix : Nat) (t : Int) (b' : List Int)
    (h : addAt k buf ix t = some b') : b'.length = buf.length := by
  unfold addAt at h
  split at h
  · cases h
  · cases hk : k.addAssign _ t with
    | none => rw [hk] at h; cases h
    | some r => rw [hk] at h; simp at h; rw [← h]; simp

theorem denseApply_length (k : DKind) (scalar : Int) : ∀ (vals : List Int) (ix : Nat) (buf b' : List Int),
    denseApply k scalar vals ix buf = some b' → b'.length = buf.length := by
  intro vals
  induction vals with
  | nil => intro ix buf b' h; simp [denseApply] at h; rw [← h]
  | cons v r ih =>
    intro ix buf b' h
    unfold denseApply at h
    cases ht : deltaTerm k scalar v with
    | none => rw [ht] at h; cases h
    | some t =>
      rw [ht] at h
      simp only [] at h
      cases hb1 : addAt k buf ix t with
      | none => rw [hb1] at h; cases h
      | some b1 =>
        rw [hb1] at h
        simp only [] at h
        rw [ih _ _ _ h, addAt_length k buf ix t b1 hb1]

theorem denseApply_some (k : DKind) (scalar : Int) (ha : ArithTotal k scalar) :
    ∀ (vals : List Int) (ix : Nat) (buf : List Int), ix + vals.length ≤ buf.length →
      ∃ b', denseApply k scalar vals ix buf = some b' := by
  intro vals
  induction vals with
  | nil => intro ix buf _; exact ⟨buf, rfl⟩
  | cons v r ih =>
    intro ix buf h
    simp only [List.length_cons] at h
    unfold denseApply
    obtain ⟨t, ht⟩ := Option.isSome_iff_exists.mp (ha.1 v)
    rw [ht]
    simp only []
    obtain ⟨b1, hb1, hl1⟩ := addAt_some k scalar ha buf ix t (by omega)
    rw [hb1]
    simp only []
    exact ih (ix + 1) b1 (by omega)

@[simp] theorem runValues_length (d : List Nat) (vsize pos n : Nat) : (runValues d vsize pos n).length = n := by
  simp [runValues]

/-- `read_dense_deltas`: terminates within `count − cur` trips, keeps the buffer length, and panics only
through the coordinate arithmetic -/
theorem readDense_facts (k : DKind) (scalar : Int) (d : List Nat) :
    ∀ (fuel pos cur : Nat) (buf : List Int), buf.length - cur < fuel → buf.length ≤ 4294967296 →
      (ArithTotal k scalar → readDense k scalar d fuel pos cur buf ≠ .trap) ∧
      (∀ e, readDense k scalar d fuel pos cur buf = .err e → e = .oob) ∧
      ∀ b' p', readDense k scalar d fuel pos cur buf = .ok (b', p') → b'.length = buf.length := by
  intro fuel
  induction fuel with
  | zero => intro pos cur buf h; omega
  | succ f ih =>
    intro pos cur buf hf hbl
    unfold readDense
    by_cases hc : cur < buf.length
    · rw [if_pos hc]
      cases hu : u8At d pos with
      | none => exact ⟨fun _ => by simp, fun e he => by injection he with he; exact he.symm, by simp⟩
      | some control =>
        simp only []
        rw [uadd_some _ _ (by unfold MAXU; omega)]
        simp only []
        by_cases he : cur + (control % 64 + 1) ≤ buf.length
        · rw [if_pos he]
          by_cases hz : runTypeSize control = 0
          · rw [if_pos hz]
            exact ih (pos + 1) _ buf (by omega) hbl
          · rw [if_neg hz]
            cases hra : (Cur.readArray d ⟨pos + 1⟩ (control % 64 + 1) (runTypeSize control)).1 with
            | error e' => exact ⟨fun _ => by simp, fun e he' => by injection he' with he'; exact he'.symm, by simp⟩
            | ok n =>
              simp only []
              cases hda : denseApply k scalar (runValues d (runTypeSize control) (pos + 1) (control % 64 + 1)) cur buf with
              | none =>
                refine ⟨fun ha => ?_, by simp, by simp⟩
                obtain ⟨b', hb'⟩ := denseApply_some k scalar ha (runValues d (runTypeSize control) (pos + 1) (control % 64 + 1)) cur buf (by simp; omega)
                rw [hb'] at hda; cases hda
              | some b1 =>
                simp only []
                have hl1 := denseApply_length k scalar _ _ _ _ hda
                obtain ⟨i1, i2, i3⟩ := ih (pos + 1 + (control % 64 + 1) * runTypeSize control) (cur + (control % 64 + 1)) b1
                  (by omega) (by omega)
                exact ⟨i1, i2, fun b' p' hb' => by rw [i3 b' p' hb', hl1]⟩
        · rw [if_neg he]
          exact ⟨fun _ => by simp, fun e he' => by injection he' with he'; exact he'.symm, by simp⟩
    · rw [if_neg hc]
      refine ⟨fun _ => by simp, by simp, ?_⟩
      intro b' p' h
      injection h with h
      injection h with h1 h2
      rw [← h1]

theorem accumulateDense_facts (k : DKind) (scalar : Int) (dd : List Nat) (xs ys : List Int)
    (hx : xs.length ≤ 4294967296) (hy : ys.length ≤ 4294967296) :
    (ArithTotal k scalar → accumulateDense k scalar dd xs ys ≠ .trap) ∧
    (∀ e, accumulateDense k scalar dd xs ys = .err e → e = .oob) ∧
    ∀ xs' ys', accumulateDense k scalar dd xs ys = .ok (xs', ys') → xs'.length = xs.length ∧ ys'.length = ys.length := by
  unfold accumulateDense
  obtain ⟨a1, a2, a3⟩ := readDense_facts k scalar dd (xs.length + 1) 0 0 xs (by omega) hx
  cases hr : readDense k scalar dd (xs.length + 1) 0 0 xs with
  | trap => exact ⟨fun ha => absurd hr (a1 ha), by simp, by simp⟩
  | err e => exact ⟨fun _ => by simp, fun e' he' => by injection he' with he'; subst he'; exact a2 e hr, by simp⟩
  | ok r =>
    obtain ⟨xs1, pos⟩ := r
    simp only []
    obtain ⟨b1, b2, b3⟩ := readDense_facts k scalar dd (ys.length + 1) pos 0 ys (by omega) hy
    cases hr2 : readDense k scalar dd (ys.length + 1) pos 0 ys with
    | trap => exact ⟨fun ha => absurd hr2 (b1 ha), by simp, by simp⟩
    | err e => exact ⟨fun _ => by simp, fun e' he' => by injection he' with he'; subst he'; exact b2 e hr2, by simp⟩
    | ok r2 =>
      obtain ⟨ys1, pos2⟩ := r2
      refine ⟨fun _ => by simp, by simp, ?_⟩
      intro xs' ys' h
      injection h with h
      injection h with h1 h2
      subst h1; subst h2
      exact ⟨a3 _ _ hr, b3 _ _ hr2⟩

theorem sparseAt_facts (k : DKind) (scalar : Int) (limit : Nat) (mark : Bool) (ix : Nat) (v : Int)
    (buf : List Int) (flags : List Bool) (hl : limit ≤ buf.length) :
    (ArithTotal k scalar → ∃ r, sparseAt k scalar limit mark ix v buf flags = some r) ∧
    ∀ b' f', sparseAt k scalar limit mark ix v buf flags = some (b', f') →
      b'.length = buf.length ∧ f'.length = flags.length := by
  unfold sparseAt
  by_cases hix : ix < limit
  · rw [if_pos hix]
    constructor
    · intro ha
      obtain ⟨t, ht⟩ := Option.isSome_iff_exists.mp (ha.1 v)
      rw [ht]
      simp only []
      obtain ⟨b1, hb1, _⟩ := addAt_some k scalar ha buf ix t (by omega)
      rw [hb1]
      exact ⟨_, rfl⟩
    · intro b' f' h
      cases ht : deltaTerm k scalar v with
      | none => rw [ht] at h; cases h
      | some t =>
        rw [ht] at h
        simp only [] at h
        cases hb1 : addAt k buf ix t with
        | none => rw [hb1] at h; cases h
        | some b1 =>
          rw [hb1] at h
          simp only [Option.some.injEq, Prod.mk.injEq] at h
          obtain ⟨h1, h2⟩ := h
          rw [← h1, ← h2]
          refine ⟨addAt_length k buf ix t b1 hb1, ?_⟩
          split <;> simp
  · rw [if_neg hix]
    refine ⟨fun _ => ⟨_, rfl⟩, ?_⟩
    intro b' f' h
    simp only [Option.some.injEq, Prod.mk.injEq] at h
    rw [← h.1, ← h.2]
    exact ⟨rfl, rfl⟩

theorem sparseZip_facts (pd : List Nat) (k : DKind) (scalar : Int) (limit : Nat) (mark : Bool) :
    ∀ (vals : List Int) (s : PtSt) (buf : List Int) (flags : List Bool), limit ≤ buf.length →
      (ArithTotal k scalar → ∃ r, sparseZip pd k scalar limit mark vals s buf flags = some r) ∧
      ∀ b' f' s', sparseZip pd k scalar limit mark vals s buf flags = some (b', f', s') →
        b'.length = buf.length ∧ f'.length = flags.length := by
  intro vals
  induction vals with
  | nil =>
    intro s buf flags _
    refine ⟨fun _ => ⟨_, rfl⟩, ?_⟩
    intro b' f' s' h
    simp only [sparseZip, Option.some.injEq, Prod.mk.injEq] at h
    rw [← h.1, ← h.2.1]; exact ⟨rfl, rfl⟩
  | cons v r ih =>
    intro s buf flags hl
    unfold sparseZip
    generalize ptNext pd s = pn
    obtain ⟨o, s1⟩ := pn
    cases o with
    | yield ix =>
      simp only []
      obtain ⟨a1, a2⟩ := sparseAt_facts k scalar limit mark ix v buf flags hl
      cases hsa : sparseAt k scalar limit mark ix v buf flags with
      | none =>
        refine ⟨fun ha => ?_, by simp⟩
        obtain ⟨r', hr'⟩ := a1 ha
        rw [hr'] at hsa; cases hsa
      | some bf =>
        obtain ⟨b1, f1⟩ := bf
        simp only []
        obtain ⟨l1, l2⟩ := a2 b1 f1 hsa
        obtain ⟨i1, i2⟩ := ih s1 b1 f1 (by omega)
        exact ⟨i1, fun b' f' s' h => by obtain ⟨x, y⟩ := i2 b' f' s' h; exact ⟨by omega, by omega⟩⟩
    | cont => simp only []; exact ⟨fun _ => ⟨_, rfl⟩, fun b' f' s' h => by
        simp only [Option.some.injEq, Prod.mk.injEq] at h; rw [← h.1, ← h.2.1]; exact ⟨rfl, rfl⟩⟩
    | done => simp only []; exact ⟨fun _ => ⟨_, rfl⟩, fun b' f' s' h => by
        simp only [Option.some.injEq, Prod.mk.injEq] at h; rw [← h.1, ← h.2.1]; exact ⟨rfl, rfl⟩⟩
    | trap => simp only []; exact ⟨fun _ => ⟨_, rfl⟩, fun b' f' s' h => by
        simp only [Option.some.injEq, Prod.mk.injEq] at h; rw [← h.1, ← h.2.1]; exact ⟨rfl, rfl⟩⟩

theorem sparseZero_facts (pd : List Nat) (k : DKind) (scalar : Int) (limit : Nat) (mark : Bool) :
    ∀ (n : Nat) (s : PtSt) (buf : List Int) (flags : List Bool), limit ≤ buf.length →
      (ArithTotal k scalar → sparseZero pd k scalar limit mark n s buf flags ≠ .trap) ∧
      (∀ e, sparseZero pd k scalar limit mark n s buf flags = .err e → e = .oob) ∧
      ∀ b' f' s', sparseZero pd k scalar limit mark n s buf flags = .ok (b', f', s') →
        b'.length = buf.length ∧ f'.length = flags.length := by
  intro n
  induction n with
  | zero =>
    intro s buf flags _
    refine ⟨fun _ => by simp [sparseZero], by simp [sparseZero], ?_⟩
    intro b' f' s' h
    simp only [sparseZero, R.ok.injEq, Prod.mk.injEq] at h
    rw [← h.1, ← h.2.1]; exact ⟨rfl, rfl⟩
  | succ n ih =>
    intro s buf flags hl
    unfold sparseZero
    generalize ptNext pd s = pn
    obtain ⟨o, s1⟩ := pn
    cases o with
    | yield ix =>
      simp only []
      obtain ⟨a1, a2⟩ := sparseAt_facts k scalar limit mark ix 0 buf flags hl
      cases hsa : sparseAt k scalar limit mark ix 0 buf flags with
      | none =>
        refine ⟨fun ha => ?_, by simp, by simp⟩
        obtain ⟨r', hr'⟩ := a1 ha
        rw [hr'] at hsa; cases hsa
      | some bf =>
        obtain ⟨b1, f1⟩ := bf
        simp only []
        obtain ⟨l1, l2⟩ := a2 b1 f1 hsa
        obtain ⟨i1, i2, i3⟩ := ih s1 b1 f1 (by omega)
        exact ⟨i1, i2, fun b' f' s' h => by obtain ⟨x, y⟩ := i3 b' f' s' h; exact ⟨by omega, by omega⟩⟩
    | cont => simp only []; exact ⟨fun _ => by simp, fun e he => by injection he with he; exact he.symm, by simp⟩
    | done => simp only []; exact ⟨fun _ => by simp, fun e he => by injection he with he; exact he.symm, by simp⟩
    | trap => simp only []; exact ⟨fun _ => by simp, fun e he => by injection he with he; exact he.symm, by simp⟩

/-- `read_sparse_deltas`: terminates within `count − cur` trips, keeps the buffer lengths, and panics
only through the coordinate arithmetic -/
theorem readSparse_facts (pd dd : List Nat) (k : DKind) (scalar : Int) (limit : Nat) (mark : Bool) (count : Nat)
    (hcount : count ≤ 65535) :
    ∀ (fuel pos cur : Nat) (s : PtSt) (buf : List Int) (flags : List Bool), count - cur < fuel → cur ≤ count + 64 →
      limit ≤ buf.length →
      (ArithTotal k scalar → readSparse pd dd k scalar limit mark count fuel pos cur s buf flags ≠ .trap) ∧
      (∀ e, readSparse pd dd k scalar limit mark count fuel pos cur s buf flags = .err e → e = .oob) ∧
      ∀ b' f' p', readSparse pd dd k scalar limit mark count fuel pos cur s buf flags = .ok (b', f', p') →
        b'.length = buf.length ∧ f'.length = flags.length := by
  intro fuel
  induction fuel with
  | zero => intro pos cur s buf flags h; omega
  | succ f ih =>
    intro pos cur s buf flags hf hcur hl
    unfold readSparse
    by_cases hc : cur < count
    · rw [if_pos hc]
      cases hu : u8At dd pos with
      | none => exact ⟨fun _ => by simp, fun e he => by injection he with he; exact he.symm, by simp⟩
      | some control =>
        simp only []
        rw [uadd_some _ _ (by unfold MAXU; omega)]
        simp only []
        by_cases hz : runTypeSize control = 0
        · rw [if_pos hz]
          obtain ⟨z1, z2, z3⟩ := sparseZero_facts pd k scalar limit mark (control % 64 + 1) s buf flags hl
          cases hsz : sparseZero pd k scalar limit mark (control % 64 + 1) s buf flags with
          | trap => exact ⟨fun ha => absurd hsz (z1 ha), by simp, by simp⟩
          | err e => exact ⟨fun _ => by simp, fun e' he' => by injection he' with he'; subst he'; exact z2 e hsz, by simp⟩
          | ok r =>
            obtain ⟨b1, f1, s1⟩ := r
            simp only []
            obtain ⟨l1, l2⟩ := z3 b1 f1 s1 hsz
            obtain ⟨i1, i2, i3⟩ := ih (pos + 1) (cur + (control % 64 + 1)) s1 b1 f1 (by omega) (by omega) (by omega)
            exact ⟨i1, i2, fun b' f' p' h => by obtain ⟨x, y⟩ := i3 b' f' p' h; exact ⟨by omega, by omega⟩⟩
        · rw [if_neg hz]
          cases hra : (Cur.readArray dd ⟨pos + 1⟩ (control % 64 + 1) (runTypeSize control)).1 with
          | error e' => exact ⟨fun _ => by simp, fun e he' => by injection he' with he'; exact he'.symm, by simp⟩
          | ok n =>
            simp only []
            obtain ⟨z1, z2⟩ := sparseZip_facts pd k scalar limit mark
              (runValues dd (runTypeSize control) (pos + 1) (control % 64 + 1)) s buf flags hl
            cases hsz : sparseZip pd k scalar limit mark (runValues dd (runTypeSize control) (pos + 1) (control % 64 + 1)) s buf flags with
            | none =>
              refine ⟨fun ha => ?_, by simp, by simp⟩
              obtain ⟨r', hr'⟩ := z1 ha
              rw [hr'] at hsz; cases hsz
            | some r =>
              obtain ⟨b1, f1, s1⟩ := r
              simp only []
              obtain ⟨l1, l2⟩ := z2 b1 f1 s1 hsz
              obtain ⟨i1, i2, i3⟩ := ih (pos + 1 + (control % 64 + 1) * runTypeSize control) (cur + (control % 64 + 1)) s1 b1 f1
                (by omega) (by omega) (by omega)
              exact ⟨i1, i2, fun b' f' p' h => by obtain ⟨x, y⟩ := i3 b' f' p' h; exact ⟨by omega, by omega⟩⟩
    · rw [if_neg hc]
      refine ⟨fun _ => by simp, by simp, ?_⟩
      intro b' f' p' h
      simp only [R.ok.injEq, Prod.mk.injEq] at h
      rw [← h.1, ← h.2.1]; exact ⟨rfl, rfl⟩

theorem accumulateSparse_facts (k : DKind) (scalar : Int) (pd dd : List Nat) (xs ys : List Int) (flags : List Bool)
    (hxy : xs.length = ys.length) :
    (ArithTotal k scalar → accumulateSparse k scalar pd dd xs ys flags ≠ .trap) ∧
    (∀ e, accumulateSparse k scalar pd dd xs ys flags = .err e → e = .oob) ∧
    ∀ xs' ys' f', accumulateSparse k scalar pd dd xs ys flags = .ok (xs', ys', f') →
      xs'.length = xs.length ∧ ys'.length = ys.length ∧ f'.length = flags.length := by
  have hcount : pointCount pd ≤ 65535 := by have := C01Iter.count_le pd; unfold pointCount; omega
  unfold accumulateSparse
  simp only []
  obtain ⟨a1, a2, a3⟩ := readSparse_facts pd dd k scalar (min xs.length flags.length) true (pointCount pd) hcount
    (pointCount pd + 1) 0 0 (ptInit pd) xs flags (by omega) (by omega) (Nat.min_le_left _ _)
  cases hr : readSparse pd dd k scalar (min xs.length flags.length) true (pointCount pd) (pointCount pd + 1) 0 0 (ptInit pd) xs flags with
  | trap => exact ⟨fun ha => absurd hr (a1 ha), by simp, by simp⟩
  | err e => exact ⟨fun _ => by simp, fun e' he' => by injection he' with he'; subst he'; exact a2 e hr, by simp⟩
  | ok r =>
    obtain ⟨xs1, f1, pos⟩ := r
    simp only []
    obtain ⟨lx, lf⟩ := a3 xs1 f1 pos hr
    obtain ⟨b1, b2, b3⟩ := readSparse_facts pd dd k scalar ys.length false (pointCount pd) hcount
      (pointCount pd + 1) pos 0 (ptInit pd) ys f1 (by omega) (by omega) (Nat.le_refl _)
    cases hr2 : readSparse pd dd k scalar ys.length false (pointCount pd) (pointCount pd + 1) pos 0 (ptInit pd) ys f1 with
    | trap => exact ⟨fun ha => absurd hr2 (b1 ha), by simp, by simp⟩
    | err e => exact ⟨fun _ => by simp, fun e' he' => by injection he' with he'; subst he'; exact b2 e hr2, by simp⟩
    | ok r2 =>
      obtain ⟨ys1, f2, pos2⟩ := r2
      refine ⟨fun _ => by simp, by simp, ?_⟩
      intro xs' ys' f' h
      simp only [R.ok.injEq, Prod.mk.injEq] at h
      obtain ⟨h1, h2, h3⟩ := h
      rw [← h1, ← h2, ← h3]
      exact ⟨lx, (b3 ys1 f2 pos2 hr2).1, lf⟩

/-- the wrapping instantiations with `scalar == Fixed::ONE` have total arithmetic -/
theorem arithTotal_one (k : DKind) (hk : k ≠ .int) : ArithTotal k 65536 := by
  constructor
  · intro v
    unfold deltaTerm
    rw [if_pos rfl]
    cases k with
    | fixed => simp [DKind.fromI32, Checked.fxFromI32, Checked.IntTy.shl, Checked.i32]
    | f26dot6 => simp [DKind.fromI32, Checked.f26FromI32, Checked.IntTy.shl, Checked.i32]
    | int => exact absurd rfl hk
  · intro a b
    cases k with
    | fixed => simp [DKind.addAssign]
    | f26dot6 => simp [DKind.addAssign]
    | int => exact absurd rfl hk

/-- … and with any `i32` scalar, given C20's `fxMul_no_trap` -/
theorem arithTotal_scaled (k : DKind) (hk : k ≠ .int) (scalar : Int) (hs : I32 scalar)
    (hm : ∀ a b, I32 a → I32 b → (Checked.fxMul a b).isSome) : ArithTotal k scalar := by
  constructor
  · intro v
    unfold deltaTerm
    split
    · rename_i h1; rw [h1] at *; exact (arithTotal_one k hk).1 v |> fun h => by
        unfold deltaTerm at h; rw [if_pos rfl] at h; exact h
    · obtain ⟨f, hf, hfi⟩ := fxFromI32_some v
      rw [hf]
      simp only []
      obtain ⟨p, hp⟩ := Option.isSome_iff_exists.mp (hm f scalar hfi hs)
      rw [hp]
      simp only []
      cases k with
      | fixed => simp [DKind.fromFixed]
      | f26dot6 => simp [DKind.fromFixed, Checked.fxToF26Dot6, Checked.IntTy.shr, Checked.i32]
      | int => exact absurd rfl hk
  · exact (arithTotal_one k hk).2

/-! ## `find_glyph_and_point_count`, `phantom_point_deltas` -/

theorem firstMetrics_facts : ∀ (comps : List (Bool × Nat)) (count : Nat), count + comps.length ≤ MAXU →
    ∃ c t, firstMetrics comps count = some (c, t) ∧ c ≤ count + comps.length := by
  intro comps
  induction comps with
  | nil => intro count _; exact ⟨count, none, rfl, by simp⟩
  | cons x r ih =>
    intro count h
    obtain ⟨flag, g⟩ := x
    simp only [List.length_cons] at h
    unfold firstMetrics
    rw [uadd_some _ _ (by omega)]
    simp only []
    split
    · exact ⟨count + 1, some g, rfl, by simp only [List.length_cons]; omega⟩
    · obtain ⟨c, t, hc, hl⟩ := ih (count + 1) (by omega)
      exact ⟨c, t, hc, by simp only [List.length_cons]; omega⟩

/-- glyph tables whose composite glyphs have at most `B` components -/
def CompsBounded (glyph : Nat → GR) (B : Nat) : Prop :=
  ∀ gid comps, glyph gid = .composite comps → comps.length ≤ B

/-- `find_glyph_and_point_count`: at most `66 − depth` nested calls, no panic, a composite answers with
at most its component count, errors are the glyph's own or the nesting limit -/
theorem findGlyph_facts (glyph : Nat → GR) (B : Nat) (hB : CompsBounded glyph B) (hBm : B ≤ 4294967296) :
    ∀ (fuel gid depth : Nat), 65 - depth < fuel →
      findGlyph glyph fuel gid depth ≠ .trap ∧
      (∀ e, findGlyph glyph fuel gid depth = .err e → e = .malformed ∨ ∃ g, glyph g = .err e) ∧
      ∀ g n, findGlyph glyph fuel gid depth = .ok (g, n) →
        n ≤ B ∨ ∃ k, glyph g = .simple k ∧ n = k := by
  intro fuel
  induction fuel with
  | zero => intro gid depth h; omega
  | succ f ih =>
    intro gid depth hf
    unfold findGlyph
    by_cases hd : depth > 64
    · rw [if_pos hd]
      exact ⟨by simp, fun e he => by injection he with he; exact Or.inl he.symm, by simp⟩
    · rw [if_neg hd]
      cases hg : glyph gid with
      | err e => exact ⟨by simp, fun e' he' => by injection he' with he'; subst he'; exact Or.inr ⟨gid, hg⟩, by simp⟩
      | none =>
        refine ⟨by simp, by simp, ?_⟩
        intro g n h
        simp only [R.ok.injEq, Prod.mk.injEq] at h
        exact Or.inl (by omega)
      | simple k =>
        refine ⟨by simp, by simp, ?_⟩
        intro g n h
        simp only [R.ok.injEq, Prod.mk.injEq] at h
        exact Or.inr ⟨k, by rw [← h.1]; exact hg, h.2.symm⟩
      | composite comps =>
        simp only []
        have hcl := hB gid comps hg
        obtain ⟨c, t, hc, hcb⟩ := firstMetrics_facts comps 0 (by unfold MAXU; omega)
        rw [hc]
        cases t with
        | none =>
          refine ⟨by simp, by simp, ?_⟩
          intro g n h
          simp only [R.ok.injEq, Prod.mk.injEq] at h
          exact Or.inl (by omega)
        | some g' =>
          simp only []
          rw [uadd_some _ _ (by unfold MAXU; omega)]
          exact ih g' (depth + 1) (by omega)

theorem phantomApply_facts (pc : Nat) (scalar : Int)
    (hm : ∀ x y, (applyScalarFixed x y scalar).isSome) :
    ∀ (l : List (Nat × Int × Int)) (ph : List (Int × Int)), ph.length = 4 →
      ∃ ph', phantomApply pc (pc + 4) scalar l ph = some ph' ∧ ph'.length = 4 := by
  intro l
  induction l with
  | nil => intro ph h; exact ⟨ph, rfl, h⟩
  | cons a r ih =>
    intro ph h
    obtain ⟨ix, x, y⟩ := a
    unfold phantomApply
    by_cases hin : pc ≤ ix ∧ ix < pc + 4
    · rw [if_pos hin]
      have hlt : ix - pc < ph.length := by omega
      rw [List.getElem?_eq_getElem hlt]
      obtain ⟨d, hd⟩ := Option.isSome_iff_exists.mp (hm x y)
      rw [hd]
      simp only []
      exact ih _ (by simp [h])
    · rw [if_neg hin]
      exact ih ph h

theorem phantomLoop_facts (p : TVD) (pc : Nat) (l : List (TV × Int))
    (hdel : ∀ x ∈ l, ∃ evs, x.1.deltasTrace p true = some evs ∧ trapped evs = false)
    (hm : ∀ x ∈ l, ∀ a b, (applyScalarFixed a b x.2).isSome) :
    ∀ ph : List (Int × Int), ph.length = 4 →
      ∃ ph', phantomLoop p pc (pc + 4) l ph = .ok ph' ∧ ph'.length = 4 := by
  induction l with
  | nil => intro ph h; exact ⟨ph, rfl, h⟩
  | cons a r ih =>
    intro ph h
    obtain ⟨t, sc⟩ := a
    unfold phantomLoop
    obtain ⟨evs, he, ht⟩ := hdel (t, sc) (by simp)
    rw [he]
    simp only [ht]
    obtain ⟨ph1, h1, h2⟩ := phantomApply_facts pc sc (hm (t, sc) (by simp)) (items evs) ph h
    rw [h1]
    exact ih (fun x hx => hdel x (by simp [hx])) (fun x hx => hm x (by simp [hx])) ph1 h2

/-! ## support for the statements and examples of Props/C01HandVar.lean -/

/-- number of `Ok` headers in a trace -/
def okHeaders (evs : List (Out (Option Hdr))) : Nat := ((items evs).filter (·.isSome)).length

/-- a cvar table with one tuple (embedded peak, private points "all", two byte deltas) -/
def exCvar : List Nat := [0, 1, 0, 0, 0, 1, 0, 14, 0, 4, 0xA0, 0, 0x40, 0, 0, 1, 5, 6]

def exCvarWalk : Option (List (List Int × List (Nat × Int × Int))) :=
  match cvarVariationData exCvar 1 with
  | .ok p => (tvTrace p).map (fun evs => (items evs).map (fun t =>
      ((t.peak p).getD [], ((t.deltasTrace p false).map items).getD [])))
  | _ => none

/-- a one-glyph gvar (long offsets, one axis, one shared tuple): the glyph's tuple refers to shared
tuple 0 and carries deltas for "all points" -/
def exGvar : List Nat :=
  [0, 1, 0, 0, 0, 1, 0, 1, 0, 0, 0, 28, 0, 1, 0, 1, 0, 0, 0, 30,
   0, 0, 0, 0, 0, 0, 0, 12,
   0x40, 0,
   0, 1, 0, 8, 0, 4, 0, 0, 0, 1, 1, 3]

def exGvarWalk : Option (List (List Int × List (Nat × Int × Int))) :=
  match gvarRead exGvar with
  | none => none
  | some g =>
    match g.glyphVariationData 0 with
    | .ok (some p) => (tvTrace p).map (fun evs => (items evs).map (fun t =>
        ((t.peak p).getD [], ((t.deltasTrace p true).map items).getD [])))
    | _ => none

end FontVerif.C01HandVar
