/-
Lemmas for C17 drawn-outline preservation, part 12: bytes after a completely read component list are never looked at
(the alignment byte klippa appends to an odd-length composite in the short loca format).
-/
import FontVerif.Lemmas.SubsetOutline11
set_option linter.unusedVariables false
set_option linter.unusedSimpArgs false
namespace FontVerif.SubsetOutline
open FontVerif FontVerif.Subset

/-- bytes after a completely read component list are never looked at -/
theorem readComponents_append : ∀ (F : Nat) (cur extra : List Nat), complete (Glyf.readComponents F cur) →
    Glyf.readComponents F (cur ++ extra) = Glyf.readComponents F cur
  | 0, cur, extra, hc => by
    obtain ⟨c, h1, _⟩ := hc
    simp [Glyf.readComponents] at h1
  | F + 1, cur, extra, hc => by
    unfold Glyf.readComponents at hc ⊢
    cases hr : Glyf.readComponent cur with
    | none =>
      rw [hr] at hc
      obtain ⟨c, h1, _⟩ := hc
      simp at h1
    | some p =>
      obtain ⟨c, cur'⟩ := p
      rw [hr] at hc
      simp only at hc ⊢
      have hcons := readComponent_consumes _ _ _ hr
      match cur, hr, hcons with
      | a0 :: a1 :: a2 :: a3 :: A4, hr, _ =>
        rw [readComponent_cons] at hr
        cases ht : tailRead ((a0 * 256 + a1) &&& Glyf.COMPOSITE_ALL) A4 with
        | none => rw [ht] at hr; cases hr
        | some q =>
          rw [ht] at hr
          simp only [Option.map_some, Option.some.injEq, Prod.mk.injEq] at hr
          obtain ⟨hc_eq, hcur⟩ := hr
          have hlen : tailSz ((a0 * 256 + a1) &&& Glyf.COMPOSITE_ALL) ≤ A4.length := by
            by_cases hs : A4.length < tailSz ((a0 * 256 + a1) &&& Glyf.COMPOSITE_ALL)
            · rw [tail_short _ _ hs] at ht; cases ht
            · omega
          obtain ⟨v, hv⟩ := tail_enough _ A4 hlen
          have h1 := hv (A4.drop (tailSz ((a0 * 256 + a1) &&& Glyf.COMPOSITE_ALL)))
          rw [List.take_append_drop, ht] at h1
          simp only [Option.some.injEq, Prod.mk.injEq] at h1
          have h2 := hv (A4.drop (tailSz ((a0 * 256 + a1) &&& Glyf.COMPOSITE_ALL)) ++ extra)
          rw [← List.append_assoc, List.take_append_drop] at h2
          have hcons2 : (a0 :: a1 :: a2 :: a3 :: A4) ++ extra = a0 :: a1 :: a2 :: a3 :: (A4 ++ extra) := rfl
          rw [hcons2, readComponent_cons, h2]
          simp only [Option.map_some]
          subst h1
          simp only at hc_eq hcur
          subst hc_eq
          subst hcur
          simp only at hc ⊢
          split
          · rename_i hm
            simp only [hm, if_true] at hc
            have hc' : complete (Glyf.readComponents F (A4.drop (tailSz ((a0 * 256 + a1) &&& Glyf.COMPOSITE_ALL)))) := by
              obtain ⟨cl, hcl1, hcl2⟩ := hc
              cases hrc : Glyf.readComponents F (A4.drop (tailSz ((a0 * 256 + a1) &&& Glyf.COMPOSITE_ALL))) with
              | nil =>
                rw [hrc] at hcl1
                simp only [List.getLast?_singleton, Option.some.injEq] at hcl1
                rw [← hcl1] at hcl2
                simp only [hm] at hcl2
                cases hcl2
              | cons a l =>
                rw [hrc] at hcl1
                rw [List.getLast?_cons_cons] at hcl1
                exact ⟨cl, hcl1, hcl2⟩
            rw [readComponents_append F _ extra hc']
          · rfl


/-- a rewritten composite followed by padding (klippa's alignment byte) reads like the record itself, provided its
component list is complete -/
theorem composite_padded (out pad : Bytes) (h10 : 10 ≤ out.length)
    (hc : complete (Glyf.readComponents ((out.drop 10).length + 1) (out.drop 10))) :
    ∃ v v', Glyf.readComposite out = some v ∧ Glyf.readComposite (out ++ pad) = some v' ∧
      v'.xMin = v.xMin ∧ v'.yMin = v.yMin ∧ v'.xMax = v.xMax ∧ v'.yMax = v.yMax ∧ v'.components = v.components := by
  have hvd : ∀ (x : Bytes), ¬ (x.length < 10) → Glyf.readComposite x = some
      { xMin := (Glyf.i16At x 2).getD 0, yMin := (Glyf.i16At x 4).getD 0,
        xMax := (Glyf.i16At x 6).getD 0, yMax := (Glyf.i16At x 8).getD 0,
        components := Glyf.readComponents ((x.drop 10).length + 1) (x.drop 10),
        count := (Glyf.countAndInstructions (x.drop 10)).1,
        instructions := (Glyf.countAndInstructions (x.drop 10)).2 } := by
    intro x hx
    unfold Glyf.readComposite
    simp only [hx, if_false]
  have hl2 : ¬ ((out ++ pad).length < 10) := by simp; omega
  refine ⟨_, _, hvd out (by omega), hvd (out ++ pad) hl2, ?_, ?_, ?_, ?_, ?_⟩
  · simp only; rw [gI16At_append_left out pad 2 (by omega)]
  · simp only; rw [gI16At_append_left out pad 4 (by omega)]
  · simp only; rw [gI16At_append_left out pad 6 (by omega)]
  · simp only; rw [gI16At_append_left out pad 8 (by omega)]
  · simp only
    have hd : (out ++ pad).drop 10 = out.drop 10 ++ pad := List.drop_append_of_le_length h10
    rw [hd]
    have hk : (out.drop 10 ++ pad).length + 1 = ((out.drop 10).length + 1) + pad.length := by simp; omega
    rw [hk]
    have hfuel := readComponents_fuel ((out.drop 10).length + 1) (out.drop 10) (by omega) pad.length
    rw [readComponents_append _ _ pad (by rw [hfuel]; exact hc), hfuel]

end FontVerif.SubsetOutline
