/-
Lemmas for C17 drawn-outline preservation, part 11: the second run of the component walk; re-subsetting a rewritten
composite glyph changes nothing.
-/
import FontVerif.Lemmas.SubsetOutline10
set_option linter.unusedVariables false
set_option linter.unusedSimpArgs false
namespace FontVerif.SubsetOutline
open FontVerif FontVerif.Subset

theorem set_self (L : Bytes) (i : Nat) (h : i < L.length) : L.set i (L.getD i 0) = L := by
  apply List.ext_getElem?
  intro n
  by_cases hn : n = i
  · subst hn
    simp [List.getElem?_set, h, List.getD_eq_getElem?_getD, List.getElem?_eq_getElem h]
  · simp [List.getElem?_set, Ne.symm hn]

/-- storing a 16-bit value over its own canonical bytes changes nothing -/
theorem putU16_self (L : Bytes) (i v : Nat) (hi : i + 1 < L.length)
    (h0 : L.getD i 0 = v / 256) (h1 : L.getD (i + 1) 0 = v % 256) : putU16 L i v = L := by
  unfold putU16
  rw [← h0, set_self L i (by omega), ← h1, set_self L (i + 1) hi]

theorem putU16_bytes (L : Bytes) (i v : Nat) (hi : i + 1 < L.length) :
    (putU16 L i v).getD i 0 = v / 256 ∧ (putU16 L i v).getD (i + 1) 0 = v % 256 := by
  unfold putU16
  constructor
  · rw [getD_set_ne _ _ _ _ (by omega), getD_set_eq _ _ _ (by omega)]
  · rw [getD_set_eq _ _ _ (by simp; omega)]

/-- the flag rewrite is idempotent -/
theorem compFlags_idem (flags i x : Nat) :
    compFlags flags i (compFlags flags i (x &&& COMPOSITE_KNOWN_BITS)) = compFlags flags i (x &&& COMPOSITE_KNOWN_BITS) := by
  generalize x &&& COMPOSITE_KNOWN_BITS = f
  unfold compFlags
  simp only
  by_cases hA : (f &&& 0x0100 != 0) ∧ hasFlag flags F_NO_HINTING = true <;>
  by_cases hB : hasFlag flags F_SET_OVERLAPS = true ∧ i = 10
  · simp only [hA, hB, and_self, if_true]
    have e1 : ((f &&& 0x1EEF) ||| 0x0400) &&& 0x0100 = 0 := by
      rw [Nat.and_or_distrib_right, Nat.and_assoc]; simp
    simp only [e1]
    simp
    rw [Nat.or_assoc]; simp
  · simp only [hA, hB, and_self, if_true, if_false]
    have e1 : (f &&& 0x1EEF) &&& 0x0100 = 0 := by rw [Nat.and_assoc]; simp
    simp [e1]
  · simp only [hA, hB, and_self, if_true, if_false]
    by_cases hh : hasFlag flags F_NO_HINTING = true
    · have hf : (f &&& 0x0100 != 0) = false := by
        cases hc : (f &&& 0x0100 != 0) with
        | true => exact absurd ⟨hc, hh⟩ hA
        | false => rfl
      have hf0 : f &&& 0x0100 = 0 := by simpa using hf
      have e1 : (f ||| 0x0400) &&& 0x0100 = 0 := by rw [Nat.and_or_distrib_right, hf0]; simp
      simp [e1, hh]
      rw [Nat.or_assoc]; simp
    · simp [hh]
      rw [Nat.or_assoc]; simp
  · simp only [hA, hB, if_false]

/-- the second run's flag rewrite finds nothing to do -/
theorem compWriteFlags_second (flags i f0 : Nat) (Y : Bytes) (hi : i + 1 < Y.length)
    (hk : f0 = f0 &&& COMPOSITE_KNOWN_BITS)
    (hcanon : hasFlag flags F_SET_OVERLAPS = true ∧ i = 10 →
      Y.getD i 0 = compFlags flags i f0 / 256 ∧ Y.getD (i + 1) 0 = compFlags flags i f0 % 256) :
    compWriteFlags flags i (compFlags flags i f0) Y = Y := by
  have hidem : compFlags flags i (compFlags flags i f0) = compFlags flags i f0 := by
    rw [hk]; exact compFlags_idem flags i f0
  unfold compWriteFlags
  have hA' : ¬ ((compFlags flags i f0 &&& 0x0100 != 0) ∧ hasFlag flags F_NO_HINTING = true) := by
    intro ⟨h1, h2⟩
    have : compFlags flags i f0 &&& 0x0100 = 0 := by
      unfold compFlags
      simp only
      by_cases hA : (f0 &&& 0x0100 != 0) ∧ hasFlag flags F_NO_HINTING = true
      · simp only [hA, and_self, if_true]
        split
        · rw [Nat.and_or_distrib_right, Nat.and_assoc]; simp
        · rw [Nat.and_assoc]; simp
      · have hf : f0 &&& 0x0100 = 0 := by
          cases hc : (f0 &&& 0x0100 != 0) with
          | true => exact absurd ⟨hc, h2⟩ hA
          | false => simpa using hc
        simp only [hA, if_false]
        split
        · rw [Nat.and_or_distrib_right, hf]; simp
        · exact hf
    simp [this] at h1
  simp only [hA', if_false]
  split
  · rename_i hB
    obtain ⟨c0, c1⟩ := hcanon hB
    rw [hidem]
    exact putU16_self Y i _ hi c0 c1
  · rfl

/-- **the second run of the component walk**: on the output of a first run (cut anywhere after the last component) with a
glyph map that fixes the first run's images, the walk writes nothing new and ends at the same position -/
theorem compLoop_second (flags : Nat) (gmap gmap' : Nat → Option Nat) (len : Nat)
    (hid : ∀ o n, gmap o = some n → gmap' (n % 65536) = some (n % 65536)) :
    ∀ (fuel : Nat) (X : Bytes) (i : Nat) (whi : Bool) (res : Bytes × Nat × Bool),
      X.length = len → 10 ≤ i → compLoop flags gmap len fuel X i whi = some res →
      ∀ cut, res.2.1 ≤ cut → ∀ fuel2, res.2.1 ≤ i + 6 * fuel2 → ∀ whi', ∃ whi2,
        compLoop flags gmap' (res.1.take cut).length fuel2 (res.1.take cut) i whi' = some (res.1.take cut, res.2.1, whi2) ∧
        (hasFlag flags F_NO_HINTING = false → whi' = whi → whi2 = res.2.2) := by
  intro fuel
  induction fuel with
  | zero => intro X i whi res hlen h10 h; simp [compLoop] at h
  | succ fuel ih =>
    intro X i whi res hlen h10 h cut hcut fuel2 hf2 whi'
    have hiend := compLoop_iend flags gmap len (fuel + 1) X i whi res h
    obtain ⟨hfl, hbelow, _⟩ := compLoop_spec flags gmap len (fuel + 1) X i whi res (by omega) h
    unfold compLoop at h
    split at h
    · cases h
    rename_i hbound
    simp only at h
    have hi1 : i + 1 < X.length := by omega
    generalize hf0 : u16At X i &&& COMPOSITE_KNOWN_BITS = f0 at h
    generalize hout2 : compWriteFlags flags i f0 X = out2 at h
    have hlen2 : out2.length = X.length := by rw [← hout2]; exact compWriteFlags_length _ _ _ _
    have hgid : u16At out2 (i + 2) = u16At X (i + 2) := by
      rw [← hout2]
      exact u16At_congr _ _ _ (compWriteFlags_getD_ne _ _ _ _ _ (by omega) (by omega))
        (compWriteFlags_getD_ne _ _ _ _ _ (by omega) (by omega))
    have hread : u16At out2 i &&& COMPOSITE_KNOWN_BITS = compFlags flags i f0 := by
      rw [← hout2, ← hf0]; exact compWriteFlags_read flags i X hi1
    split at h
    · cases h
    rename_i new hnew
    generalize hout3 : putU16 out2 (i + 2) (new % 65536) = out3 at h
    have hlen3 : out3.length = X.length := by rw [← hout3, putU16_length, hlen2]
    have h3flagbytes : out3.getD i 0 = out2.getD i 0 ∧ out3.getD (i + 1) 0 = out2.getD (i + 1) 0 := by
      rw [← hout3]
      exact ⟨putU16_getD_ne _ _ _ _ (by omega) (by omega), putU16_getD_ne _ _ _ _ (by omega) (by omega)⟩
    have h3flag : u16At out3 i &&& COMPOSITE_KNOWN_BITS = compFlags flags i f0 := by
      have e : u16At out3 i = u16At out2 i := u16At_congr _ _ _ h3flagbytes.1 h3flagbytes.2
      rw [e, hread]
    have h3gidbytes := putU16_bytes out2 (i + 2) (new % 65536) (by omega)
    rw [hout3] at h3gidbytes
    have hf0k : f0 = f0 &&& COMPOSITE_KNOWN_BITS := by
      have hkk : COMPOSITE_KNOWN_BITS &&& COMPOSITE_KNOWN_BITS = COMPOSITE_KNOWN_BITS := by decide
      rw [← hf0, Nat.and_assoc, hkk]
    generalize hi' : i + 4 + (if compFlags flags i f0 &&& 0x0001 != 0 then 4 else 2) +
        (if compFlags flags i f0 &&& 0x0008 != 0 then 2 else if compFlags flags i f0 &&& 0x0040 != 0 then 4
         else if compFlags flags i f0 &&& 0x0080 != 0 then 8 else 0) = i' at h
    have hi'ge : i + 6 ≤ i' := by rw [← hi']; split <;> split <;> omega
    -- `full` below i'
    have hfull : res.1.length = X.length ∧ (∀ j, j < i' → res.1.getD j 0 = out3.getD j 0) ∧ i' ≤ res.2.1 := by
      split at h
      · obtain ⟨a, b, _⟩ := compLoop_spec flags gmap len fuel out3 i' _ res (by omega) h
        have c := compLoop_iend flags gmap len fuel out3 i' _ res h
        exact ⟨by omega, b, by omega⟩
      · simp only [Option.some.injEq] at h
        subst h
        exact ⟨hlen3, fun _ _ => rfl, Nat.le_refl _⟩
    obtain ⟨hfl', hfb, hi'le⟩ := hfull
    generalize hY : res.1.take cut = Y
    have hYlen : Y.length = min cut X.length := by rw [← hY]; simp [hfl']
    have hYget : ∀ j, j < i' → Y.getD j 0 = out3.getD j 0 := by
      intro j hj
      rw [← hY, getD_take _ _ _ (by omega), hfb j hj]
    have hYflag : u16At Y i &&& COMPOSITE_KNOWN_BITS = compFlags flags i f0 := by
      have e : u16At Y i = u16At out3 i := u16At_congr _ _ _ (hYget i (by omega)) (hYget (i + 1) (by omega))
      rw [e, h3flag]
    -- canonical flag bytes when the first run rewrote them for the overlap bit
    have hcanon : hasFlag flags F_SET_OVERLAPS = true ∧ i = 10 →
        Y.getD i 0 = compFlags flags i f0 / 256 ∧ Y.getD (i + 1) 0 = compFlags flags i f0 % 256 := by
      intro hB
      have : out2 = putU16 (if (f0 &&& 0x0100 != 0) ∧ hasFlag flags F_NO_HINTING = true then putU16 X i (f0 &&& 0x1EEF) else X) i
          (compFlags flags i f0) := by
        rw [← hout2]; unfold compWriteFlags; simp only [hB, and_self, if_true]
      have hl1 : (if (f0 &&& 0x0100 != 0) ∧ hasFlag flags F_NO_HINTING = true then putU16 X i (f0 &&& 0x1EEF) else X).length = X.length := by
        split
        · exact putU16_length _ _ _
        · rfl
      have hb := putU16_bytes (if (f0 &&& 0x0100 != 0) ∧ hasFlag flags F_NO_HINTING = true then putU16 X i (f0 &&& 0x1EEF) else X) i
        (compFlags flags i f0) (by rw [hl1]; omega)
      rw [← this] at hb
      rw [hYget i (by omega), hYget (i + 1) (by omega), h3flagbytes.1, h3flagbytes.2]
      exact hb
    -- unfold the second run
    cases fuel2 with
    | zero => omega
    | succ k =>
    unfold compLoop
    have hguard : ¬ (i + 3 ≥ Y.length) := by rw [hYlen]; omega
    simp only [hguard, if_false]
    rw [hYflag]
    rw [compWriteFlags_second flags i f0 Y (by rw [hYlen]; omega) hf0k hcanon]
    have hYgid : u16At Y (i + 2) = new % 65536 := by
      have := h3gidbytes
      unfold u16At
      rw [hYget (i + 2) (by omega), hYget (i + 2 + 1) (by omega), this.1, this.2]
      omega
    rw [hYgid, hid _ _ hnew]
    simp only
    have hput : putU16 Y (i + 2) (new % 65536 % 65536) = Y := by
      rw [Nat.mod_mod]
      apply putU16_self Y (i + 2) _ (by rw [hYlen]; omega)
      · rw [hYget (i + 2) (by omega)]; exact h3gidbytes.1
      · rw [hYget (i + 2 + 1) (by omega)]; exact h3gidbytes.2
    rw [hput]
    have hidem : compFlags flags i (compFlags flags i f0) = compFlags flags i f0 := by
      rw [hf0k]; exact compFlags_idem flags i f0
    rw [hidem, hi']
    split at h
    · rename_i hmore
      simp only [hmore, if_true]
      obtain ⟨whi2, hw1, hw2⟩ := ih out3 i' _ res (by omega) (by omega) h cut hcut k (by omega) (whi' || (compFlags flags i f0 &&& 0x0100 != 0))
      rw [hY] at hw1
      refine ⟨whi2, hw1, ?_⟩
      intro hnh hww
      apply hw2 hnh
      have : compFlags flags i f0 &&& 0x0100 = f0 &&& 0x0100 := by
        unfold compFlags
        simp only [hnh, Bool.false_eq_true, and_false, if_false]
        split
        · rw [Nat.and_or_distrib_right]; simp
        · rfl
      rw [hww, this]
    · rename_i hmore
      simp only [hmore, Bool.false_eq_true, if_false]
      simp only [Option.some.injEq] at h
      subst h
      refine ⟨_, rfl, ?_⟩
      intro hnh hww
      have : compFlags flags i f0 &&& 0x0100 = f0 &&& 0x0100 := by
        unfold compFlags
        simp only [hnh, Bool.false_eq_true, and_false, if_false]
        split
        · rw [Nat.and_or_distrib_right]; simp
        · rfl
      simp only [hww, this]


theorem compLoop_iend_le (flags : Nat) (gmap : Nat → Option Nat) (len : Nat) :
    ∀ (fuel : Nat) (out : Bytes) (i : Nat) (whi : Bool) (res : Bytes × Nat × Bool),
      compLoop flags gmap len fuel out i whi = some res → res.2.1 ≤ len + 12 := by
  intro fuel
  induction fuel with
  | zero => intro out i whi res h; simp [compLoop] at h
  | succ n ih =>
    intro out i whi res h
    unfold compLoop at h
    split at h
    · cases h
    · simp only at h
      split at h
      · cases h
      · split at h
        · exact ih _ _ _ _ h
        · simp only [Option.some.injEq] at h
          subst h
          simp only
          split <;> split <;> (try split) <;> (try split) <;> omega

theorem take_take_self (L : Bytes) (c : Nat) : (L.take c).take c = L.take c := by
  rw [List.take_take]; simp

/-- **re-subsetting a rewritten composite glyph changes nothing**, for every glyph map of the second run that fixes
the new glyph ids the first run wrote -/
theorem composite_resubset_idempotent (flags : Nat) (gmap gmap' : Nat → Option Nat) (d out : Bytes)
    (hs : ¬ u16At d 0 < 32768) (h : subsetGlyphBytes flags gmap d = .bytes out) (hne : out ≠ [])
    (hid : ∀ o n, gmap o = some n → gmap' (n % 65536) = some (n % 65536)) :
    subsetGlyphBytes flags gmap' out = .bytes out := by
  obtain ⟨_, _, _, _, _, _, _, _, _, hget, hol10⟩ := composite_decodes_equal flags gmap d out hs h hne
  unfold subsetGlyphBytes at h
  split at h
  · cases h
  simp only [hs, if_false] at h
  split at h
  · cases h
  rename_i hl2 hl10
  simp only [GlyphRes.bytes.injEq] at h
  unfold subsetComposite at h
  simp only at h
  split at h
  · exact absurd h.symm hne
  rename_i full i whi hloop
  have hiend := compLoop_iend _ _ _ _ _ _ _ _ hloop
  have hiend2 := compLoop_iend_le _ _ _ _ _ _ _ _ hloop
  obtain ⟨hfl, hbelow, _⟩ := compLoop_spec flags gmap d.length (d.length + 1) d 10 false _ (Nat.le_refl _) hloop
  simp only at hiend hiend2 hfl hbelow
  have hs' : ¬ (u16At out 0 < 32768) := by rw [u16At_head out d hget]; exact hs
  -- the cut of the first run
  have hcut : ∃ cut, i ≤ cut ∧ out = full.take cut ∧
      ((whi = true ∧ hasFlag flags F_NO_HINTING = false) → (i + 1 ≥ d.length ∧ cut = i) ∨ (i + 1 < d.length ∧ cut = i + 2 + u16At full i)) ∧
      (¬ (whi = true ∧ hasFlag flags F_NO_HINTING = false) → cut = i) := by
    by_cases hc : whi = true ∧ hasFlag flags F_NO_HINTING = false
    · have hc' : (whi = true ∧ (!hasFlag flags F_NO_HINTING) = true) := by simp [hc.1, hc.2]
      simp only [hc', and_self, if_true] at h
      by_cases hge : i + 1 ≥ d.length
      · simp only [hge, if_true] at h
        exact ⟨i, Nat.le_refl _, h.symm, fun _ => Or.inl ⟨hge, rfl⟩, fun hn => absurd hc hn⟩
      · simp only [hge, if_false] at h
        exact ⟨_, by omega, h.symm, fun _ => Or.inr ⟨by omega, rfl⟩, fun hn => absurd hc hn⟩
    · have hc' : ¬ (whi = true ∧ (!hasFlag flags F_NO_HINTING) = true) := by
        intro ⟨a, b⟩; exact hc ⟨a, by simpa using b⟩
      simp only [hc', if_false] at h
      exact ⟨i, Nat.le_refl _, h.symm, fun hh => absurd hh hc, fun _ => rfl⟩
  obtain ⟨cut, hcut1, hout, hcA, hcB⟩ := hcut
  have holen : out.length = min cut d.length := by rw [hout]; simp [hfl]
  have hf2 : i ≤ 10 + 6 * (out.length + 1) := by omega
  obtain ⟨whi2, hrun, hwhi⟩ := compLoop_second flags gmap gmap' d.length hid (d.length + 1) d 10 false _ rfl (Nat.le_refl _)
    hloop cut hcut1 (out.length + 1) hf2 false
  simp only at hrun hwhi
  rw [← hout] at hrun
  unfold subsetGlyphBytes
  have c1 : ¬ (out.length < 2) := by omega
  have c2 : ¬ (out.length < 10) := by omega
  simp only [c1, hs', c2, if_false]
  congr 1
  unfold subsetComposite
  simp only [hrun]
  have htake_i : cut = i → out.take i = out := by
    intro hc; rw [hout, hc]; exact take_take_self _ _
  by_cases hnh : hasFlag flags F_NO_HINTING = true
  · have : ¬ (whi2 = true ∧ (!hasFlag flags F_NO_HINTING) = true) := by simp [hnh]
    simp only [this, if_false]
    exact htake_i (hcB (by simp [hnh]))
  · have hnh' : hasFlag flags F_NO_HINTING = false := by simpa using hnh
    have hw := hwhi hnh' trivial
    rw [hw]
    by_cases hwt : whi = true
    · have hc' : (whi = true ∧ (!hasFlag flags F_NO_HINTING) = true) := by simp [hwt, hnh']
      simp only [hc', and_self, if_true]
      rcases hcA ⟨hwt, hnh'⟩ with ⟨hge, hc⟩ | ⟨hlt, hc⟩
      · have : i + 1 ≥ out.length := by omega
        simp only [this, if_true]
        exact htake_i hc
      · have : ¬ (i + 1 ≥ out.length) := by omega
        simp only [this, if_false]
        have hu : u16At out i = u16At full i := by
          rw [hout]
          exact u16At_congr _ _ _ (getD_take _ _ _ (by omega)) (getD_take _ _ _ (by omega))
        rw [hu, ← hc, hout]
        exact take_take_self _ _
    · have hc' : ¬ (whi = true ∧ (!hasFlag flags F_NO_HINTING) = true) := by simp [hwt]
      simp only [hc', if_false]
      exact htake_i (hcB (by simp [hwt]))

end FontVerif.SubsetOutline
