/-
C02 core 1b — lemmas about Model/InterpLoops.lean: how many iterations each loop skeleton performs.
-/
import FontVerif.Model.InterpLoops
namespace FontVerif.InterpLoopsLemmas
open FontVerif FontVerif.Interp FontVerif.InterpLoops
set_option linter.unusedVariables false

/-- a successful `for _ in 0..count` pop loop performed exactly `count` iterations and popped at most `count` values -/
theorem popLoop_ok (ped : Bool) (body : Nat → Except Err Unit) :
    ∀ (n : Nat) (vs vs' : List Int) (k k' : Nat), popLoop ped body n vs k = .ok (vs', k') →
      k' = k + n ∧ vs'.length ≤ vs.length := by
  intro n
  induction n with
  | zero => intro vs vs' k k' h; simp [popLoop] at h; obtain ⟨h1, h2⟩ := h; subst h1; subst h2; simp
  | succ n ih =>
    intro vs vs' k k' h
    unfold popLoop at h
    split at h
    · simp at h
    · rename_i v vs1 hp
      split at h
      · simp at h
      · have ⟨h1, h2⟩ := ih _ _ _ _ h
        have : vs1.length ≤ vs.length := by
          unfold pop at hp
          split at hp
          · simp at hp; obtain ⟨_, h3⟩ := hp; subst h3; simp
          · split at hp <;> simp at hp
            obtain ⟨_, h3⟩ := hp; subst h3; simp
        omega

/-- in pedantic mode an empty stack ends the loop: a successful loop of `count` iterations needs `count` values -/
theorem popLoop_pedantic (body : Nat → Except Err Unit) :
    ∀ (n : Nat) (vs vs' : List Int) (k k' : Nat), popLoop true body n vs k = .ok (vs', k') → n ≤ vs.length := by
  intro n
  induction n with
  | zero => intro vs vs' k k' h; omega
  | succ n ih =>
    intro vs vs' k k' h
    unfold popLoop at h
    split at h
    · simp at h
    · rename_i v vs1 hp
      split at h
      · simp at h
      · have := ih _ _ _ _ h
        unfold pop at hp
        split at hp
        · simp at hp; obtain ⟨_, h3⟩ := hp; subst h3; simp; omega
        · simp at hp

theorem rangeLoop_ok (body : Nat → Except Err Unit) (skip : Option Nat) :
    ∀ (n i k k' : Nat), rangeLoop body skip n i k = .ok k' → k' = k + n := by
  intro n
  induction n with
  | zero => intro i k k' h; simp [rangeLoop] at h; omega
  | succ n ih =>
    intro i k k' h
    unfold rangeLoop at h
    split at h
    · simp at h
    · have := ih _ _ _ h; omega

/-- a range loop over checked point indices that succeeded stayed inside the zone (except for the skipped point) -/
theorem rangeLoop_in_zone (g : G) (z : Nat) (skip : Option Nat) :
    ∀ (n i k k' : Nat), rangeLoop (fun i => checkPoint g z i) skip n i k = .ok k' → n ≤ (g.zoneLen z - i) + 1 := by
  intro n
  induction n with
  | zero => intro i k k' h; omega
  | succ n ih =>
    intro i k k' h
    unfold rangeLoop at h
    split at h
    · simp at h
    · rename_i u hb
      have h2 := ih _ _ _ h
      by_cases hs : skip = some i
      · -- the skipped point: the rest of the range must be in the zone or empty
        cases n with
        | zero => omega
        | succ m =>
          unfold rangeLoop at h
          split at h
          · simp at h
          · rename_i u2 hb2
            have hne : skip ≠ some (i + 1) := by rw [hs]; simp
            rw [if_neg hne] at hb2
            unfold checkPoint at hb2
            split at hb2
            · omega
            · simp at hb2
      · rw [if_neg hs] at hb
        unfold checkPoint at hb
        split at hb
        · omega
        · simp at hb

theorem deltaLoop_ok (ped : Bool) (body : Int → Nat → Except Err Unit) :
    ∀ (n : Nat) (vs vs' : List Int) (k k' : Nat), deltaLoop ped body n vs k = .ok (vs', k') → k' = k + n := by
  intro n
  induction n with
  | zero => intro vs vs' k k' h; simp [deltaLoop] at h; omega
  | succ n ih =>
    intro vs vs' k k' h
    unfold deltaLoop at h
    split at h
    · simp at h
    · split at h
      · simp at h
      · split at h
        · simp at h
        · have := ih _ _ _ _ h; omega

/-- the first scan of `iup` over one contour: it moves `point` forward by exactly the number of iterations,
    never past `end_point + 1` -/
theorem iupContour_spec (touched : Nat → Bool) (e : Nat) :
    ∀ (fuel point k : Nat), fuel = e + 1 - point →
      let r := iupContour touched e fuel point k
      point ≤ r.1 ∧ r.2 - k = r.1 - point ∧ k ≤ r.2 ∧ (r.1 ≤ e + 1 ∨ r.1 = point) := by
  intro fuel
  induction fuel with
  | zero => intro point k h; simp [iupContour]
  | succ f ih =>
    intro point k h
    unfold iupContour
    split
    · have := ih (point + 1) (k + 1) (by omega)
      simp only [] at this ⊢
      omega
    · simp

/-- `Zone::iup`: the scans and the interpolation writes together are linear in the number of points
    (`1 ≤ n`: a glyph zone that has a contour has its four phantom points) -/
theorem iup_le (touched : Nat → Bool) (n : Nat) (hn : 1 ≤ n) :
    ∀ (cs : List Nat) (point k : Nat), point ≤ n → iup touched n cs point k ≤ k + 4 * (n - point) := by
  intro cs
  induction cs with
  | nil => intro point k h; simp [iup]
  | cons c rest ih =>
    intro point k h
    unfold iup
    simp only []
    generalize he : (if c ≥ n then n - 1 else c) = e
    have hen : e + 1 ≤ n := by
      rw [← he]; split <;> omega
    have hs := iupContour_spec touched e (e + 1 - point) point k rfl
    simp only [] at hs
    generalize iupContour touched e (e + 1 - point) point k = r at hs
    obtain ⟨p1, k1⟩ := r
    simp only [] at hs ⊢
    split
    · rename_i hle
      have := ih (e + 1) (k1 + (e + 1 - p1) + 2 * (e + 1 - point)) (by omega)
      omega
    · rename_i hgt
      have : p1 ≤ n := by omega
      have := ih p1 k1 this
      omega

end FontVerif.InterpLoopsLemmas
