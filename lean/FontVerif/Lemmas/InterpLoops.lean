/-
C02 core 1b — lemmas about Model/InterpLoops.lean: how many iterations each loop skeleton performs.
-/
import FontVerif.Model.InterpLoops
namespace FontVerif.InterpLoopsLemmas
open FontVerif FontVerif.Interp FontVerif.InterpLoops
set_option linter.unusedVariables false

/-- a successful `for _ in 0..count` pop loop performed exactly `count` iterations and popped at most `count` values -/
theorem popLoop_ok (ped : Bool) (body : Nat → Except Err Unit) :
    ∀ (n : Nat) (vs vs' : List Int) (k k' : Nat), popLoop ped body n vs k = .ok (vs', k') →
      k' = k + n ∧ vs'.length ≤ vs.length := by
  intro n
  induction n with
  | zero => intro vs vs' k k' h; simp [popLoop] at h; obtain ⟨h1, h2⟩ := h; subst h1; subst h2; simp
  | succ n ih =>
    intro vs vs' k k' h
    unfold popLoop at h
    split at h
    · simp at h
    · rename_i v vs1 hp
      split at h
      · simp at h
      · have ⟨h1, h2⟩ := ih _ _ _ _ h
        have : vs1.length ≤ vs.length := by
          unfold pop at hp
          split at hp
          · simp at hp; obtain ⟨_, h3⟩ := hp; subst h3; simp
          · split at hp <;> simp at hp
            obtain ⟨_, h3⟩ := hp; subst h3; simp
        omega

/-- in pedantic mode an empty stack ends the loop: a successful loop of `count` iterations needs `count` values -/
theorem popLoop_pedantic (body : Nat → Except Err Unit) :
    ∀ (n : Nat) (vs vs' : List Int) (k k' : Nat), popLoop true body n vs k = .ok (vs', k') → n ≤ vs.length := by
  intro n
  induction n with
  | zero => intro vs vs' k k' h; omega
  | succ n ih =>
    intro vs vs' k k' h
    unfold popLoop at h
    split at h
    · simp at h
    · rename_i v vs1 hp
      split at h
      · simp at h
      · have := ih _ _ _ _ h
        unfold pop at hp
        split at hp
        · simp at hp; obtain ⟨_, h3⟩ := hp; subst h3; simp; omega
        · simp at hp

theorem rangeLoop_ok (body : Nat → Except Err Unit) (skip : Option Nat) :
    ∀ (n i k k' : Nat), rangeLoop body skip n i k = .ok k' → k' = k + n := by
  intro n
  induction n with
  | zero => intro i k k' h; simp [rangeLoop] at h; omega
  | succ n ih =>
    intro i k k' h
    unfold rangeLoop at h
    split at h
    · simp at h
    · have := ih _ _ _ h; omega

/-- a range loop over checked point indices that succeeded stayed inside the zone (except for the skipped point) -/
theorem rangeLoop_in_zone (g : G) (z : Nat) (skip : Option Nat) :
    ∀ (n i k k' : Nat), rangeLoop (fun i => checkPoint g z i) skip n i k = .ok k' → n ≤ (g.zoneLen z - i) + 1 := by
  intro n
  induction n with
  | zero => intro i k k' h; omega
  | succ n ih =>
    intro i k k' h
    unfold rangeLoop at h
    split at h
    · simp at h
    · rename_i u hb
      have h2 := ih _ _ _ h
      by_cases hs : skip = some i
      · -- the skipped point: the rest of the range must be in the zone or empty
        cases n with
        | zero => omega
        | succ m =>
          unfold rangeLoop at h
          split at h
          · simp at h
          · rename_i u2 hb2
            have hne : skip ≠ some (i + 1) := by rw [hs]; simp
            rw [if_neg hne] at hb2
            unfold checkPoint at hb2
            split at hb2
            · omega
            · simp at hb2
      · rw [if_neg hs] at hb
        unfold checkPoint at hb
        split at hb
        · omega
        · simp at hb

theorem deltaLoop_ok (ped : Bool) (body : Int → Nat → Except Err Unit) :
    ∀ (n : Nat) (vs vs' : List Int) (k k' : Nat), deltaLoop ped body n vs k = .ok (vs', k') → k' = k + n := by
  intro n
  induction n with
  | zero => intro vs vs' k k' h; simp [deltaLoop] at h; omega
  | succ n ih =>
    intro vs vs' k k' h
    unfold deltaLoop at h
    split at h
    · simp at h
    · split at h
      · simp at h
      · split at h
        · simp at h
        · have := ih _ _ _ _ h; omega

/-- the first scan of `iup` over one contour: it moves `point` forward by exactly the number of iterations,
    never past `end_point + 1` -/
theorem iupContour_spec (touched : Nat → Bool) (e : Nat) :
    ∀ (fuel point k : Nat), fuel = e + 1 - point →
      let r := iupContour touched e fuel point k
      point ≤ r.1 ∧ r.2 - k = r.1 - point ∧ k ≤ r.2 ∧ (r.1 ≤ e + 1 ∨ r.1 = point) := by
  intro fuel
  induction fuel with
  | zero => intro point k h; simp [iupContour]
  | succ f ih =>
    intro point k h
    unfold iupContour
    split
    · have := ih (point + 1) (k + 1) (by omega)
      simp only [] at this ⊢
      omega
    · simp

/-- `Zone::iup`: the scans and the interpolation writes together are linear in the number of points
    (`1 ≤ n`: a glyph zone that has a contour has its four phantom points) -/
theorem iup_le (touched : Nat → Bool) (n : Nat) (hn : 1 ≤ n) :
    ∀ (cs : List Nat) (point k : Nat), point ≤ n → iup touched n cs point k ≤ k + 4 * (n - point) := by
  intro cs
  induction cs with
  | nil => intro point k h; simp [iup]
  | cons c rest ih =>
    intro point k h
    unfold iup
    simp only []
    generalize he : (if c ≥ n then n - 1 else c) = e
    have hen : e + 1 ≤ n := by
      rw [← he]; split <;> omega
    have hs := iupContour_spec touched e (e + 1 - point) point k rfl
    simp only [] at hs
    generalize iupContour touched e (e + 1 - point) point k = r at hs
    obtain ⟨p1, k1⟩ := r
    simp only [] at hs ⊢
    split
    · rename_i hle
      have := ih (e + 1) (k1 + (e + 1 - p1) + 2 * (e + 1 - point)) (by omega)
      omega
    · rename_i hgt
      have : p1 ≤ n := by omega
      have := ih p1 k1 this
      omega


/-! ### no loop-carrying opcode grows the value stack -/

theorem pop_length_le' {ped : Bool} {vs vs' : List Int} {v : Int} (h : pop ped vs = .ok (v, vs')) :
    vs'.length ≤ vs.length := by
  unfold pop at h
  split at h
  · simp at h; obtain ⟨_, h2⟩ := h; subst h2; simp
  · split at h <;> simp at h
    obtain ⟨_, h2⟩ := h; subst h2; simp

theorem deltaLoop_len (ped : Bool) (body : Int → Nat → Except Err Unit) :
    ∀ (n : Nat) (vs vs' : List Int) (k k' : Nat), deltaLoop ped body n vs k = .ok (vs', k') → vs'.length ≤ vs.length := by
  intro n
  induction n with
  | zero => intro vs vs' k k' h; simp [deltaLoop] at h; obtain ⟨h1, _⟩ := h; subst h1; exact Nat.le_refl _
  | succ n ih =>
    intro vs vs' k k' h
    unfold deltaLoop at h
    split at h
    · simp at h
    · rename_i hp1
      split at h
      · simp at h
      · rename_i hp2
        split at h
        · simp at h
        · have := ih _ _ _ _ h
          have := pop_length_le' hp1
          have := pop_length_le' hp2
          omega

theorem popThen_len {ped : Bool} {vs vs' : List Int} {g' : G} {f : Int → List Int → OpR}
    (hf : ∀ v vs1, f v vs1 = .ok (vs', g') → vs'.length ≤ vs1.length) (h : popThen ped vs f = .ok (vs', g')) :
    vs'.length ≤ vs.length := by
  unfold popThen at h
  split at h
  · simp at h
  · rename_i v vs1 hp
    exact Nat.le_trans (hf _ _ h) (pop_length_le' hp)

theorem counted_len {ped : Bool} {vs vs' : List Int} {g g' : G} {body : Nat → Except Err Unit}
    (h : counted ped vs g body = .ok (vs', g')) : vs'.length ≤ vs.length := by
  unfold counted at h
  split at h
  · simp at h
  · rename_i vs1 k hp
    have := (popLoop_ok ped body _ _ _ _ _ hp).2
    simp at h; obtain ⟨h1, _⟩ := h; subst h1; exact this

/-- **the loop-carrying opcodes never grow the value stack** (they only pop; CINDEX replaces the top, MINDEX removes
    one element) -/
theorem semLoopOp_len (ped : Bool) (op : Nat) (vs vs' : List Int) (g g' : G)
    (h : semLoopOp ped op vs g = some (.ok (vs', g'))) : vs'.length ≤ vs.length := by
  unfold semLoopOp at h
  by_cases hc0 : op = 0x17
  · rw [if_pos hc0] at h
    refine popThen_len ?_ (Option.some.inj h)
    intro v vs1 hf; split at hf <;> simp at hf; obtain ⟨h1, _⟩ := hf; subst h1; exact Nat.le_refl _
  rw [if_neg hc0] at h
  have hsrp : ∀ w, opSrp ped w vs g = .ok (vs', g') → vs'.length ≤ vs.length := by
    intro w hh
    refine popThen_len ?_ hh
    intro v vs1 hf; simp at hf; obtain ⟨h1, _⟩ := hf; subst h1; exact Nat.le_refl _
  have hszp : ∀ w, opSzp ped w vs g = .ok (vs', g') → vs'.length ≤ vs.length := by
    intro w hh
    refine popThen_len ?_ hh
    intro v vs1 hf; split at hf <;> simp at hf; obtain ⟨h1, _⟩ := hf; subst h1; exact Nat.le_refl _
  by_cases hc1 : op = 0x10
  · rw [if_pos hc1] at h; exact hsrp _ (Option.some.inj h)
  rw [if_neg hc1] at h
  by_cases hc2 : op = 0x11
  · rw [if_pos hc2] at h; exact hsrp _ (Option.some.inj h)
  rw [if_neg hc2] at h
  by_cases hc3 : op = 0x12
  · rw [if_pos hc3] at h; exact hsrp _ (Option.some.inj h)
  rw [if_neg hc3] at h
  by_cases hc4 : op = 0x13
  · rw [if_pos hc4] at h; exact hszp _ (Option.some.inj h)
  rw [if_neg hc4] at h
  by_cases hc5 : op = 0x14
  · rw [if_pos hc5] at h; exact hszp _ (Option.some.inj h)
  rw [if_neg hc5] at h
  by_cases hc6 : op = 0x15
  · rw [if_pos hc6] at h; exact hszp _ (Option.some.inj h)
  rw [if_neg hc6] at h
  by_cases hc7 : op = 0x16
  · rw [if_pos hc7] at h; exact hszp _ (Option.some.inj h)
  rw [if_neg hc7] at h
  by_cases hc8 : op = 0x80
  · rw [if_pos hc8] at h
    split at h
    · have h := Option.some.inj h
      simp at h; obtain ⟨h1, _⟩ := h; subst h1; exact Nat.le_refl _
    · exact counted_len (Option.some.inj h)
  rw [if_neg hc8] at h
  by_cases hc9 : op = 0x81 ∨ op = 0x82
  · rw [if_pos hc9] at h
    have h := Option.some.inj h
    unfold opFlipRange at h
    refine popThen_len ?_ h
    intro v vs1 hf
    refine popThen_len ?_ hf
    intro v2 vs2 hf2
    simp only [] at hf2
    repeat' split at hf2
    all_goals first | (simp at hf2; done) | (simp at hf2; obtain ⟨h1, _⟩ := hf2; subst h1; exact Nat.le_refl _)
  rw [if_neg hc9] at h
  by_cases hc10 : op = 0x32 ∨ op = 0x33
  · rw [if_pos hc10] at h
    have h := Option.some.inj h
    unfold opShp at h
    split at h
    · simp at h
    · exact counted_len h
  rw [if_neg hc10] at h
  by_cases hc11 : op = 0x34 ∨ op = 0x35
  · rw [if_pos hc11] at h
    have h := Option.some.inj h
    unfold opShc at h
    refine popThen_len ?_ h
    intro v vs1 hf
    simp only [] at hf
    repeat' split at hf
    all_goals first | (simp at hf; done) | (simp at hf; obtain ⟨h1, _⟩ := hf; subst h1; exact Nat.le_refl _)
  rw [if_neg hc11] at h
  by_cases hc12 : op = 0x36 ∨ op = 0x37
  · rw [if_pos hc12] at h
    have h := Option.some.inj h
    unfold opShz at h
    refine popThen_len ?_ h
    intro v vs1 hf
    repeat' split at hf
    all_goals first | (simp at hf; done) | (simp at hf; obtain ⟨h1, _⟩ := hf; subst h1; exact Nat.le_refl _)
  rw [if_neg hc12] at h
  by_cases hc13 : op = 0x38
  · rw [if_pos hc13] at h
    refine popThen_len ?_ (Option.some.inj h)
    intro v vs1 hf; exact counted_len hf
  rw [if_neg hc13] at h
  by_cases hc14 : op = 0x39
  · rw [if_pos hc14] at h
    have h := Option.some.inj h
    unfold opIp at h
    simp only [] at h
    split at h
    · simp at h; obtain ⟨h1, _⟩ := h; subst h1; exact Nat.le_refl _
    · split at h
      · simp at h
      · split at h
        · simp at h
        · split at h
          · simp at h
          · rename_i vs1 k hp
            have := (popLoop_ok ped _ _ _ _ _ _ hp).2
            simp at h; obtain ⟨h1, _⟩ := h; subst h1; exact this
  rw [if_neg hc14] at h
  by_cases hc15 : op = 0x3C
  · rw [if_pos hc15] at h; exact counted_len (Option.some.inj h)
  rw [if_neg hc15] at h
  by_cases hc16 : op = 0x5D ∨ op = 0x71 ∨ op = 0x72 ∨ op = 0x73 ∨ op = 0x74 ∨ op = 0x75
  · rw [if_pos hc16] at h
    have h := Option.some.inj h
    unfold opDelta at h
    refine popThen_len ?_ h
    intro v vs1 hf
    simp only [] at hf
    split at hf
    · simp at hf
    · split at hf
      · simp at hf
      · rename_i vs2 k hk
        have := deltaLoop_len ped _ _ _ _ _ _ hk
        simp at hf; obtain ⟨h1, _⟩ := hf; subst h1; exact this
  rw [if_neg hc16] at h
  by_cases hc17 : op = 0x25
  · rw [if_pos hc17] at h
    have h := Option.some.inj h
    unfold opCindex at h
    split at h
    · simp at h
    · split at h
      · simp at h
      · simp at h; obtain ⟨h1, _⟩ := h; subst h1; simp
  rw [if_neg hc17] at h
  by_cases hc18 : op = 0x26
  · rw [if_pos hc18] at h
    have h := Option.some.inj h
    unfold opMindex at h
    split at h
    · simp at h
    · simp only [] at h
      split at h
      · simp at h
      · split at h
        · simp at h
        · simp at h; obtain ⟨h1, _⟩ := h; subst h1
          simp [List.length_eraseIdx]; split <;> omega
  rw [if_neg hc18] at h
  by_cases hc19 : op = 0x30 ∨ op = 0x31
  · rw [if_pos hc19] at h
    have h := Option.some.inj h
    simp at h; obtain ⟨h1, _⟩ := h; subst h1; exact Nat.le_refl _
  rw [if_neg hc19] at h
  by_cases hc20 : op = 0x00 ∨ op = 0x04
  · rw [if_pos hc20] at h
    have h := Option.some.inj h
    simp at h; obtain ⟨h1, _⟩ := h; subst h1; exact Nat.le_refl _
  rw [if_neg hc20] at h
  by_cases hc21 : op = 0x01 ∨ op = 0x05
  · rw [if_pos hc21] at h
    have h := Option.some.inj h
    simp at h; obtain ⟨h1, _⟩ := h; subst h1; exact Nat.le_refl _
  rw [if_neg hc21] at h
  simp at h

end FontVerif.InterpLoopsLemmas
