/-
Helper lemmas for C17 (HVAR/VVAR subsetting, Model/SubsetHvar.lean).
-/
import FontVerif.Model.SubsetHvar
import FontVerif.Lemmas.IvsLemmas
import FontVerif.Lemmas.DeltaLemmas
import FontVerif.Lemmas.BuiltDelta
import FontVerif.Lemmas.MetricsLemmas
import FontVerif.Lemmas.DsimLemmas
namespace FontVerif.SubsetHvar
open FontVerif FontVerif.Tent FontVerif.Ivs

/-! ## A. IncBiMap / IntSet -/

theorem mem_bmAdd {m : List Nat} {x y : Nat} : y ∈ bmAdd m x ↔ y ∈ m ∨ y = x := by
  unfold bmAdd
  split
  · constructor
    · intro h; exact Or.inl h
    · rintro (h | rfl)
      · exact h
      · assumption
  · simp

theorem mem_foldl_bmAdd (xs : List Nat) : ∀ (m : List Nat) (y : Nat),
    y ∈ xs.foldl bmAdd m ↔ y ∈ m ∨ y ∈ xs := by
  induction xs with
  | nil => intro m y; simp
  | cons x xs ih =>
    intro m y
    simp only [List.foldl_cons, ih, mem_bmAdd, List.mem_cons]
    constructor
    · rintro ((h | h) | h)
      · exact Or.inl h
      · exact Or.inr (Or.inl h)
      · exact Or.inr (Or.inr h)
    · rintro (h | h | h)
      · exact Or.inl (Or.inl h)
      · exact Or.inl (Or.inr h)
      · exact Or.inr h

theorem mem_bmFrom {xs : List Nat} {y : Nat} : y ∈ bmFrom xs ↔ y ∈ xs := by
  unfold bmFrom; rw [mem_foldl_bmAdd]; simp

/-- `get` followed by `get_backward` is the identity. -/
theorem bmGet_some {m : List Nat} {x i : Nat} (h : bmGet m x = some i) :
    x ∈ m ∧ i = m.idxOf x ∧ m[i]? = some x := by
  unfold bmGet at h
  split at h
  · rename_i hm
    simp only [Option.some.injEq] at h
    subst h
    have hl : m.idxOf x < m.length := List.idxOf_lt_length_iff.mpr hm
    refine ⟨hm, rfl, ?_⟩
    rw [List.getElem?_eq_getElem hl, List.getElem_idxOf hl]
  · cases h

theorem bmGet_of_mem {m : List Nat} {x : Nat} (h : x ∈ m) : bmGet m x = some (m.idxOf x) := by
  unfold bmGet; simp [h]

theorem mem_setInsert {x y : Nat} : ∀ {s : List Nat}, y ∈ setInsert x s ↔ y = x ∨ y ∈ s := by
  intro s
  induction s with
  | nil => simp [setInsert]
  | cons a s ih =>
    unfold setInsert
    split
    · simp
    · split
      · rename_i h1 h2; subst h2; simp
      · simp only [List.mem_cons, ih]
        constructor
        · rintro (h | h | h)
          · exact Or.inr (Or.inl h)
          · exact Or.inl h
          · exact Or.inr (Or.inr h)
        · rintro (h | h | h)
          · exact Or.inr (Or.inl h)
          · exact Or.inl h
          · exact Or.inr (Or.inr h)

theorem sorted_setInsert (x : Nat) : ∀ {s : List Nat}, s.Pairwise (· < ·) →
    (setInsert x s).Pairwise (· < ·) := by
  intro s
  induction s with
  | nil => intro _; simp [setInsert]
  | cons a s ih =>
    intro hs
    have ⟨ha, hs'⟩ := List.pairwise_cons.mp hs
    unfold setInsert
    split
    · rename_i hlt
      refine List.pairwise_cons.mpr ⟨?_, hs⟩
      intro b hb
      rcases List.mem_cons.mp hb with rfl | hb
      · exact hlt
      · exact Nat.lt_trans hlt (ha b hb)
    · split
      · exact hs
      · rename_i h1 h2
        refine List.pairwise_cons.mpr ⟨?_, ih hs'⟩
        intro b hb
        rcases mem_setInsert.mp hb with rfl | hb
        · omega
        · exact ha b hb

theorem mem_setAddAll (xs : List Nat) : ∀ (s : List Nat) (y : Nat),
    y ∈ setAddAll s xs ↔ y ∈ s ∨ y ∈ xs := by
  unfold setAddAll
  induction xs with
  | nil => intro s y; simp
  | cons x xs ih =>
    intro s y
    simp only [List.foldl_cons, ih, mem_setInsert, List.mem_cons]
    constructor
    · rintro ((h | h) | h)
      · exact Or.inr (Or.inl h)
      · exact Or.inl h
      · exact Or.inr (Or.inr h)
    · rintro (h | h | h)
      · exact Or.inl (Or.inr h)
      · exact Or.inl (Or.inl h)
      · exact Or.inr h

theorem sorted_setAddAll (xs : List Nat) : ∀ (s : List Nat), s.Pairwise (· < ·) →
    (setAddAll s xs).Pairwise (· < ·) := by
  unfold setAddAll
  induction xs with
  | nil => intro s h; simpa using h
  | cons x xs ih => intro s h; simp only [List.foldl_cons]; exact ih _ (sorted_setInsert x h)

theorem mem_bmSort {m : List Nat} {y : Nat} : y ∈ bmSort m ↔ y ∈ m := by
  unfold bmSort; rw [mem_setAddAll]; simp

theorem sorted_bmSort (m : List Nat) : (bmSort m).Pairwise (· < ·) :=
  sorted_setAddAll m [] List.Pairwise.nil

/-- in a strictly ascending list of naturals the element at position `i` is at least `i`. -/
theorem idxOf_le_of_sorted : ∀ {s : List Nat}, s.Pairwise (· < ·) → ∀ {x : Nat}, x ∈ s →
    s.idxOf x ≤ x := by
  intro s
  induction s with
  | nil => intro _ x hx; cases hx
  | cons a s ih =>
    intro hs x hx
    have ⟨ha, hs'⟩ := List.pairwise_cons.mp hs
    rw [List.idxOf_cons]
    by_cases hax : a = x
    · simp [hax]
    · have hx' : x ∈ s := by
        rcases List.mem_cons.mp hx with h | h
        · exact absurd h.symm hax
        · exact h
      have : (a == x) = false := by simp [hax]
      rw [this]
      simp only [cond_false]
      -- every element of `s` exceeds `a`, so shifting by one keeps the bound
      have h1 := ha x hx'
      -- positions inside `s` are bounded by value − (a+1): prove the stronger statement
      have key : ∀ {t : List Nat} (b : Nat), t.Pairwise (· < ·) → (∀ y ∈ t, b < y) → ∀ {z : Nat}, z ∈ t →
          t.idxOf z + b + 1 ≤ z := by
        intro t
        induction t with
        | nil => intro b _ _ z hz; cases hz
        | cons c t iht =>
          intro b ht hb z hz
          have ⟨hc, ht'⟩ := List.pairwise_cons.mp ht
          rw [List.idxOf_cons]
          by_cases hcz : c = z
          · subst hcz; simp; exact hb c (by simp)
          · have : (c == z) = false := by simp [hcz]
            rw [this]; simp only [cond_false]
            have hz' : z ∈ t := by
              rcases List.mem_cons.mp hz with h | h
              · exact absurd h.symm hcz
              · exact h
            have := iht c ht' hc hz'
            have := hb c (by simp)
            omega
      have := key a hs' ha hx'
      omega

/-- two strictly ascending lists with the same members are equal. -/
theorem sorted_ext : ∀ {s t : List Nat}, s.Pairwise (· < ·) → t.Pairwise (· < ·) →
    (∀ x, x ∈ s ↔ x ∈ t) → s = t := by
  intro s
  induction s with
  | nil =>
    intro t _ _ h
    cases t with
    | nil => rfl
    | cons b t => exact absurd ((h b).mpr (by simp)) (by simp)
  | cons a s ih =>
    intro t hs ht h
    cases t with
    | nil => exact absurd ((h a).mp (by simp)) (by simp)
    | cons b t =>
      have ⟨ha, hs'⟩ := List.pairwise_cons.mp hs
      have ⟨hb, ht'⟩ := List.pairwise_cons.mp ht
      have hab : a = b := by
        have h1 : a ∈ b :: t := (h a).mp (by simp)
        have h2 : b ∈ a :: s := (h b).mpr (by simp)
        rcases List.mem_cons.mp h1 with e | h1
        · exact e
        · rcases List.mem_cons.mp h2 with e | h2
          · exact e.symm
          · have := hb a h1; have := ha b h2; omega
      subst hab
      congr 1
      apply ih hs' ht'
      intro x
      constructor
      · intro hx
        have : x ∈ a :: t := (h x).mp (by simp [hx])
        rcases List.mem_cons.mp this with e | h1
        · subst e; exact absurd (ha x hx) (by omega)
        · exact h1
      · intro hx
        have : x ∈ a :: s := (h x).mpr (by simp [hx])
        rcases List.mem_cons.mp this with e | h1
        · subst e; exact absurd (hb x hx) (by omega)
        · exact h1

/-! ## generic: `mapM` in `Except` -/

theorem mapM_ok {α β} (f : α → R β) : ∀ (l : List α) (rs : List β), l.mapM f = .ok rs →
    rs.length = l.length ∧ ∀ i (hi : i < l.length), ∃ (hj : i < rs.length), f l[i] = .ok rs[i] := by
  intro l
  induction l with
  | nil =>
    intro rs h
    simp [List.mapM_nil, pure, Except.pure] at h
    subst h; simp
  | cons a l ih =>
    intro rs h
    rw [List.mapM_cons] at h
    cases hfa : f a with
    | error e => rw [hfa] at h; simp [bind, Except.bind] at h
    | ok b =>
      rw [hfa] at h
      cases hl : l.mapM f with
      | error e => rw [hl] at h; simp [bind, Except.bind] at h
      | ok bs =>
        rw [hl] at h
        simp [bind, Except.bind, pure, Except.pure] at h
        subst h
        have := ih bs hl
        refine ⟨by simp [this.1], ?_⟩
        intro i hi
        cases i with
        | zero => exact ⟨by simp, by simpa using hfa⟩
        | succ i =>
          have hi' : i < l.length := by simpa using hi
          obtain ⟨hj, hf⟩ := this.2 i hi'
          exact ⟨by simp; omega, by simpa using hf⟩


/-! ## B. `get_item_delta` reads what the reader's `ItemDeltas` iterator yields -/

theorem readW_some {w : Nat} (hw : w = 1 ∨ w = 2 ∨ w = 4) {bs : List Nat} (h : w ≤ bs.length) :
    ∃ v, readW w bs = some (v, bs.drop w) := by
  rcases hw with rfl | rfl | rfl
  · match bs, h with
    | a :: rest, _ => exact ⟨_, rfl⟩
  · match bs, h with
    | a :: b :: rest, _ => exact ⟨_, rfl⟩
  · match bs, h with
    | a :: b :: c :: d :: rest, _ => exact ⟨_, rfl⟩

theorem colWidth_cases (wc : Nat) (long : Bool) (pos : Nat) :
    colWidth wc long pos = 1 ∨ colWidth wc long pos = 2 ∨ colWidth wc long pos = 4 := by
  rw [colWidth_eq]; unfold wideW narrowW
  split <;> cases long <;> simp

/-- byte offset of column `pos + k` relative to column `pos`. -/
def colOff (wc : Nat) (long : Bool) : Nat → Nat → Nat
  | _, 0 => 0
  | pos, k + 1 => colWidth wc long pos + colOff wc long (pos + 1) k

theorem rdAt_drop (bs : List Nat) (w a b : Nat) : rdAt (bs.drop a) w b = rdAt bs w (a + b) := by
  unfold rdAt; rw [List.drop_drop]

theorem itemDeltas_get (wc : Nat) (long : Bool) (len : Nat) : ∀ (k pos : Nat) (bs : List Nat),
    pos + k < len → colOff wc long pos (k + 1) ≤ bs.length →
    (itemDeltas wc long len pos bs)[k]? =
      some (rdAt bs (colWidth wc long (pos + k)) (colOff wc long pos k)) := by
  intro k
  induction k with
  | zero =>
    intro pos bs hp hb
    simp only [colOff, Nat.add_zero] at hb ⊢
    obtain ⟨v, hv⟩ := readW_some (colWidth_cases wc long pos) (bs := bs) (by omega)
    rw [itemDeltas]
    have : ¬ pos ≥ len := by omega
    simp only [this, dite_false, hv]
    simp [rdAt, hv]
  | succ k ih =>
    intro pos bs hp hb
    have hb' : colWidth wc long pos + colOff wc long (pos + 1) (k + 1) ≤ bs.length := by
      simpa [colOff] using hb
    obtain ⟨v, hv⟩ := readW_some (colWidth_cases wc long pos) (bs := bs) (by omega)
    rw [itemDeltas]
    have : ¬ pos ≥ len := by omega
    simp only [this, dite_false, hv, List.getElem?_cons_succ]
    rw [ih (pos + 1) (bs.drop (colWidth wc long pos)) (by omega) (by simp; omega)]
    rw [rdAt_drop]
    have e1 : pos + 1 + k = pos + (k + 1) := by omega
    rw [e1]
    simp [colOff]

theorem itemDeltas_length (wc : Nat) (long : Bool) (len : Nat) : ∀ (n pos : Nat) (bs : List Nat),
    pos + n = len → colOff wc long pos n ≤ bs.length →
    (itemDeltas wc long len pos bs).length = n := by
  intro n
  induction n with
  | zero =>
    intro pos bs hp _
    rw [itemDeltas]
    have : pos ≥ len := by omega
    simp [this]
  | succ n ih =>
    intro pos bs hp hb
    have hb' : colWidth wc long pos + colOff wc long (pos + 1) n ≤ bs.length := by
      simpa [colOff] using hb
    obtain ⟨v, hv⟩ := readW_some (colWidth_cases wc long pos) (bs := bs) (by omega)
    rw [itemDeltas]
    have : ¬ pos ≥ len := by omega
    simp only [this, dite_false, hv, List.length_cons]
    rw [ih (pos + 1) _ (by omega) (by simp; omega)]

theorem colOff_wide (wc : Nat) (long : Bool) : ∀ (k pos : Nat), pos + k ≤ wc →
    colOff wc long pos k = k * wideW long := by
  intro k
  induction k with
  | zero => intro pos _; simp [colOff]
  | succ k ih =>
    intro pos h
    rw [colOff, ih (pos + 1) (by omega), colWidth_eq]
    have : pos < wc := by omega
    simp only [this, if_true]
    rw [Nat.add_mul]; omega

theorem colOff_narrow (wc : Nat) (long : Bool) : ∀ (k pos : Nat), wc ≤ pos →
    colOff wc long pos k = k * narrowW long := by
  intro k
  induction k with
  | zero => intro pos _; simp [colOff]
  | succ k ih =>
    intro pos h
    rw [colOff, ih (pos + 1) (by omega), colWidth_eq]
    have : ¬ pos < wc := by omega
    simp only [this, if_false]
    rw [Nat.add_mul]; omega

theorem colOff_add (wc : Nat) (long : Bool) : ∀ (a pos b : Nat),
    colOff wc long pos (a + b) = colOff wc long pos a + colOff wc long (pos + a) b := by
  intro a
  induction a with
  | zero => intro pos b; simp [colOff]
  | succ a ih =>
    intro pos b
    have e : a + 1 + b = (a + b) + 1 := by omega
    rw [e, colOff, colOff, ih (pos + 1) b]
    have e2 : pos + 1 + a = pos + (a + 1) := by omega
    rw [e2]; omega

/-- offset of column `r` in a row. -/
theorem colOff_zero (wc : Nat) (long : Bool) (r : Nat) :
    colOff wc long 0 r =
      if r ≤ wc then r * wideW long else wc * wideW long + (r - wc) * narrowW long := by
  split
  · exact colOff_wide wc long r 0 (by omega)
  · rename_i h
    have e : r = wc + (r - wc) := by omega
    conv => lhs; rw [e]
    rw [colOff_add, colOff_wide wc long wc 0 (by omega), colOff_narrow wc long _ _ (by omega)]

theorem wideW_pos (long : Bool) : 0 < wideW long := by unfold wideW; cases long <;> simp
theorem narrowW_le_wideW (long : Bool) : narrowW long ≤ wideW long := by
  unfold wideW narrowW; cases long <;> simp

theorem deltaRowLen_eq' (wdc ric : Nat) :
    deltaRowLen wdc ric =
      (wdc % 32768) * wideW (decide (wdc / 32768 % 2 = 1)) +
        (ric - wdc % 32768) * narrowW (decide (wdc / 32768 % 2 = 1)) := by
  unfold deltaRowLen wideW narrowW
  by_cases h : wdc / 32768 % 2 = 1 <;> simp [h]

/-- all `ric` columns of a row lie inside `deltaRowLen` bytes. -/
theorem colOff_le_rowLen (wdc ric r : Nat) (hr : r ≤ ric) :
    colOff (wdc % 32768) (decide (wdc / 32768 % 2 = 1)) 0 r ≤ deltaRowLen wdc ric := by
  rw [colOff_zero, deltaRowLen_eq']
  generalize wdc % 32768 = wc
  generalize decide (wdc / 32768 % 2 = 1) = long
  have hw := wideW_pos long
  have hn := narrowW_le_wideW long
  split
  · rename_i h
    have : r * wideW long ≤ wc * wideW long := Nat.mul_le_mul_right _ h
    omega
  · rename_i h
    have : (r - wc) * narrowW long ≤ (ric - wc) * narrowW long := Nat.mul_le_mul_right _ (by omega)
    omega

/-- the model's `SubTable` is what `ItemVariationData::read` accepted: the delta sets are there. -/
def SubOk (st : SubTable) : Prop :=
  deltaRowLen st.wordDeltaCount st.regionIndexes.length * st.itemCount ≤ st.data.length

/-- **random access = sequential read**: for a row inside the table, `get_item_delta` returns the
`region`-th value the reader's iterator yields for that row, and the iterator yields one value
per region index. -/
theorem getItemDelta_eq (st : SubTable) (hok : SubOk st) (item : Nat) (hi : item < st.itemCount) :
    (decodedRow st item).length = st.regionIndexes.length ∧
    ∀ r, r < st.regionIndexes.length → (decodedRow st item)[r]? = some (getItemDelta st item r) := by
  unfold SubOk at hok
  have hdec0 : decodedRow st item =
      itemDeltas (st.wordDeltaCount % 32768) (decide (st.wordDeltaCount / 32768 % 2 = 1))
        st.regionIndexes.length 0
        (if deltaRowLen st.wordDeltaCount st.regionIndexes.length * item ≤
            (st.data.take (deltaRowLen st.wordDeltaCount st.regionIndexes.length * st.itemCount)).length
          then (st.data.take (deltaRowLen st.wordDeltaCount st.regionIndexes.length * st.itemCount)).drop
            (deltaRowLen st.wordDeltaCount st.regionIndexes.length * item) else []) := by
    unfold decodedRow deltaSet; rfl
  have hg : ∀ r, getItemDelta st item r =
      if item ≥ st.itemCount ∨ r ≥ st.regionIndexes.length then 0 else
      if st.wordDeltaCount / 32768 % 2 = 1 then
        if r < st.wordDeltaCount % 32768 then
          rdAt (st.data.take (deltaRowLen st.wordDeltaCount st.regionIndexes.length * st.itemCount)) 4
            (item * deltaRowLen st.wordDeltaCount st.regionIndexes.length + r * 4)
        else rdAt (st.data.take (deltaRowLen st.wordDeltaCount st.regionIndexes.length * st.itemCount)) 2
            (item * deltaRowLen st.wordDeltaCount st.regionIndexes.length + 4 * (st.wordDeltaCount % 32768) +
              2 * (r - st.wordDeltaCount % 32768))
      else
        if r < st.wordDeltaCount % 32768 then
          rdAt (st.data.take (deltaRowLen st.wordDeltaCount st.regionIndexes.length * st.itemCount)) 2
            (item * deltaRowLen st.wordDeltaCount st.regionIndexes.length + r * 2)
        else rdAt (st.data.take (deltaRowLen st.wordDeltaCount st.regionIndexes.length * st.itemCount)) 1
            (item * deltaRowLen st.wordDeltaCount st.regionIndexes.length + 2 * (st.wordDeltaCount % 32768) +
              (r - st.wordDeltaCount % 32768)) := by
    intro r; unfold getItemDelta; simp only [decide_eq_true_eq]
  have hcol := colOff_le_rowLen st.wordDeltaCount st.regionIndexes.length
  generalize st.regionIndexes.length = ric at *
  generalize hL : deltaRowLen st.wordDeltaCount ric = L at *
  have hblen : (st.data.take (L * st.itemCount)).length = L * st.itemCount := by
    rw [List.length_take]; omega
  generalize st.data.take (L * st.itemCount) = bytes at *
  have hrow : L * item + L ≤ bytes.length := by
    rw [hblen]
    have : L * (item + 1) ≤ L * st.itemCount := Nat.mul_le_mul_left _ (by omega)
    rw [Nat.mul_add] at this; omega
  have hle : L * item ≤ bytes.length := by omega
  rw [if_pos hle] at hdec0
  have hdl : (bytes.drop (L * item)).length ≥ L := by simp; omega
  constructor
  · rw [hdec0]
    apply itemDeltas_length _ _ _ ric 0 _ (by omega)
    have := hcol ric (Nat.le_refl _)
    omega
  · intro r hr
    rw [hdec0, itemDeltas_get _ _ _ r 0 _ (by omega)
      (by have := hcol (r + 1) (by omega); omega)]
    congr 1
    rw [rdAt_drop, Nat.zero_add, colOff_zero, colWidth_eq, hg r]
    have h1 : ¬ (item ≥ st.itemCount ∨ r ≥ ric) := by omega
    simp only [h1, if_false]
    have hm : item * L = L * item := Nat.mul_comm _ _
    generalize st.wordDeltaCount % 32768 = wc
    by_cases hlong : st.wordDeltaCount / 32768 % 2 = 1
    · simp only [hlong, decide_true, if_true, wideW, narrowW]
      by_cases hrw : r < wc
      · have : r ≤ wc := by omega
        simp only [hrw, this, if_true, hm]
      · by_cases h : r ≤ wc
        · have : r = wc := by omega
          subst this; simp only [hrw, h, if_true, if_false, hm]; congr 1; omega
        · simp only [hrw, h, if_false, hm]; congr 1; omega
    · simp only [hlong, decide_false, if_false, wideW, narrowW, Bool.false_eq_true]
      by_cases hrw : r < wc
      · have : r ≤ wc := by omega
        simp only [hrw, this, if_true, hm]
      · by_cases h : r ≤ wc
        · have : r = wc := by omega
          subst this; simp only [hrw, h, if_true, if_false, hm]; congr 1; omega
        · simp only [hrw, h, if_false, hm]; congr 1; omega

/-- beyond the item count (or the region index count) `get_item_delta` is 0. -/
theorem getItemDelta_oob (st : SubTable) (item r : Nat)
    (h : st.itemCount ≤ item ∨ st.regionIndexes.length ≤ r) : getItemDelta st item r = 0 := by
  unfold getItemDelta
  have : item ≥ st.itemCount ∨ r ≥ st.regionIndexes.length := h
  simp [this]

/-- ... and the reader decodes no delta at all for such a row. -/
theorem decodedRow_oob (st : SubTable) (item : Nat) (h : st.itemCount ≤ item) :
    decodedRow st item = [] := by
  unfold decodedRow deltaSet
  simp only []
  generalize st.regionIndexes.length = ric
  generalize deltaRowLen st.wordDeltaCount ric = L
  have hbl : (st.data.take (L * st.itemCount)).length ≤ L * st.itemCount := by
    rw [List.length_take]; omega
  generalize st.data.take (L * st.itemCount) = bytes at *
  have hle : L * st.itemCount ≤ L * item := Nat.mul_le_mul_left _ h
  have hs : (if L * item ≤ bytes.length then bytes.drop (L * item) else []) = [] := by
    split
    · apply List.drop_of_length_le; omega
    · rfl
  rw [hs, itemDeltas]
  split
  · rfl
  · have hw := colWidth_cases (st.wordDeltaCount % 32768) (decide (st.wordDeltaCount / 32768 % 2 = 1)) 0
    have : readW (colWidth (st.wordDeltaCount % 32768) (decide (st.wordDeltaCount / 32768 % 2 = 1)) 0) [] = none := by
      rcases hw with h | h | h <;> rw [h] <;> rfl
    rw [this]


/-! ## C. column classification -/

theorem fitsW_zero (w : Nat) : FitsW w 0 := by
  unfold FitsW inI8 inI16 inI32
  split
  · omega
  · split <;> omega

theorem readW_fits {w : Nat} (hw : w = 1 ∨ w = 2 ∨ w = 4) {bytes : List Nat} {v : Int} {rest : List Nat}
    (hb : ∀ b ∈ bytes, b < 256) (h : readW w bytes = some (v, rest)) : FitsW w v := by
  rcases hw with rfl | rfl | rfl
  · match bytes, h with
    | a :: r, h =>
      simp only [readW, if_true, readS1, Option.some.injEq, Prod.mk.injEq] at h
      have := hb a (by simp)
      rw [← h.1]; unfold FitsW inI8; simp only [if_true]; split <;> omega
  · match bytes, h with
    | a :: b :: r, h =>
      simp only [readW, readS2, Option.some.injEq, Prod.mk.injEq] at h
      have := hb a (by simp); have := hb b (by simp)
      simp at h
      rw [← h.1]; unfold FitsW inI16; simp; split <;> omega
  · match bytes, h with
    | a :: b :: c :: d :: r, h =>
      simp only [readW, readS4, Option.some.injEq, Prod.mk.injEq] at h
      have := hb a (by simp); have := hb b (by simp); have := hb c (by simp); have := hb d (by simp)
      simp at h
      rw [← h.1]; unfold FitsW inI32; simp; split <;> omega

theorem rdAt_fits {bytes : List Nat} (hb : ∀ b ∈ bytes, b < 256) {w : Nat} (hw : w = 1 ∨ w = 2 ∨ w = 4)
    (pos : Nat) : FitsW w (rdAt bytes w pos) := by
  unfold rdAt
  split
  · rename_i v rest h
    exact readW_fits hw (fun b hbm => hb b (List.mem_of_mem_drop hbm)) h
  · exact fitsW_zero w

/-- a delta of the source table fits the width of its source column. -/
theorem getItemDelta_fits (st : SubTable) (hb : ∀ b ∈ st.data, b < 256) (item r : Nat) :
    FitsW (colWidth (st.wordDeltaCount % 32768) (decide (st.wordDeltaCount / 32768 % 2 = 1)) r)
      (getItemDelta st item r) := by
  have hb' : ∀ b ∈ st.data.take (deltaRowLen st.wordDeltaCount st.regionIndexes.length * st.itemCount),
      b < 256 := fun b hbm => hb b (List.mem_of_mem_take hbm)
  unfold getItemDelta
  simp only []
  split
  · exact fitsW_zero _
  · rw [colWidth_eq]
    by_cases hl : st.wordDeltaCount / 32768 % 2 = 1
    · simp only [hl, decide_true, if_true, wideW, narrowW]
      split
      · exact rdAt_fits hb' (by simp) _
      · exact rdAt_fits hb' (by simp) _
    · simp only [hl, decide_false, wideW, narrowW, Bool.false_eq_true, if_false]
      split
      · exact rdAt_fits hb' (by simp) _
      · exact rdAt_fits hb' (by simp) _

theorem fitsW_mono {a b : Nat} (ha : a = 1 ∨ a = 2 ∨ a = 4) (hb : b = 1 ∨ b = 2 ∨ b = 4) (h : a ≤ b)
    {x : Int} (hx : FitsW a x) : FitsW b x := by
  unfold FitsW inI8 inI16 inI32 at *
  rcases ha with rfl | rfl | rfl <;> rcases hb with rfl | rfl | rfl <;> simp at * <;> omega

theorem classifyGo_range (gd : Nat → Int) (minT maxT : Int) (sc : Bool) : ∀ (keys : List Nat) (s0 : Nat),
    s0 ≤ 2 → classifyGo gd minT maxT sc keys s0 ≤ 2 := by
  intro keys
  induction keys with
  | nil => intro s0 h; simpa [classifyGo] using h
  | cons k keys ih =>
    intro s0 h
    rw [classifyGo]
    split
    · omega
    · split
      · split
        · omega
        · exact ih 1 (by omega)
      · exact ih s0 h

theorem classifyGo_zero (gd : Nat → Int) (minT maxT : Int) (sc : Bool) : ∀ (keys : List Nat) (s0 : Nat),
    classifyGo gd minT maxT sc keys s0 = 0 → s0 = 0 ∧ ∀ item ∈ keys, gd item = 0 := by
  intro keys
  induction keys with
  | nil => intro s0 h; simp [classifyGo] at h; simp [h]
  | cons k keys ih =>
    intro s0 h
    rw [classifyGo] at h
    split at h
    · omega
    · split at h
      · split at h
        · omega
        · have := (ih 1 h).1; omega
      · rename_i h1 h2
        have := ih s0 h
        refine ⟨this.1, ?_⟩
        intro item hi
        rcases List.mem_cons.mp hi with rfl | hi
        · simpa using h2
        · exact this.2 item hi

theorem classifyGo_one (gd : Nat → Int) (minT maxT : Int) : ∀ (keys : List Nat) (s0 : Nat), s0 ≠ 2 →
    classifyGo gd minT maxT false keys s0 = 1 → ∀ item ∈ keys, minT ≤ gd item ∧ gd item ≤ maxT := by
  intro keys
  induction keys with
  | nil => intro s0 _ _ item hi; cases hi
  | cons k keys ih =>
    intro s0 hs h
    rw [classifyGo] at h
    split at h
    · omega
    · rename_i h1
      have hk : minT ≤ gd k ∧ gd k ≤ maxT := by omega
      split at h
      · simp only [Bool.false_eq_true, if_false] at h
        intro item hi
        rcases List.mem_cons.mp hi with rfl | hi
        · exact hk
        · exact ih 1 (by omega) h item hi
      · intro item hi
        rcases List.mem_cons.mp hi with rfl | hi
        · exact hk
        · exact ih s0 hs h item hi

/-- facts about `delta_sz`, `has_long` for a table whose bytes are bytes. -/
theorem deltaSizes_spec (st : SubTable) (hb : ∀ b ∈ st.data, b < 256) (keys : List Nat) :
    (deltaSizes st keys).length = st.regionIndexes.length ∧
    ShapeOk (deltaSizes st keys) ∧ (∀ b ∈ deltaSizes st keys, b ≠ 4) ∧
    (∀ r, (deltaSizes st keys)[r]? = some 0 → ∀ item ∈ keys, getItemDelta st item r = 0) ∧
    (∀ r, (deltaSizes st keys)[r]? = some 1 → ∀ item ∈ keys,
      FitsW (narrowW (hasLong st keys)) (getItemDelta st item r)) ∧
    (∀ r, (deltaSizes st keys)[r]? = some 2 → ∀ item ∈ keys,
      FitsW (wideW (hasLong st keys)) (getItemDelta st item r)) := by
  have hlen : (deltaSizes st keys).length = st.regionIndexes.length := by simp [deltaSizes]
  have hget : ∀ r b, (deltaSizes st keys)[r]? = some b → r < st.regionIndexes.length ∧
      b = classifyGo (fun item => getItemDelta st item r)
        (if hasLong st keys then -32768 else -128) (if hasLong st keys then 32767 else 127)
        ((decide (st.wordDeltaCount / 32768 % 2 = 1) == hasLong st keys) &&
          decide (st.wordDeltaCount % 32768 ≤ r)) keys 0 := by
    intro r b h
    unfold deltaSizes at h
    simp only [] at h
    rw [List.getElem?_map] at h
    by_cases hr : r < st.regionIndexes.length
    · rw [List.getElem?_range hr] at h
      simp only [Option.map_some, Option.some.injEq] at h
      exact ⟨hr, h.symm⟩
    · rw [List.getElem?_eq_none (by simp; omega)] at h; cases h
  have hrange : ∀ b ∈ deltaSizes st keys, b ≤ 2 := by
    intro b hbm
    obtain ⟨r, hr⟩ := List.getElem?_of_mem hbm
    rw [(hget r b hr).2]
    exact classifyGo_range _ _ _ _ _ _ (by omega)
  refine ⟨hlen, ?_, ?_, ?_, ?_, ?_⟩
  · intro b hbm; have := hrange b hbm; omega
  · intro b hbm; have := hrange b hbm; omega
  · intro r h item hi
    have := (hget r 0 h).2
    exact (classifyGo_zero _ _ _ _ _ _ this.symm).2 item hi
  · intro r h item hi
    have hc := (hget r 1 h).2
    have hf := getItemDelta_fits st hb item r
    rw [colWidth_eq] at hf
    by_cases hsc : ((decide (st.wordDeltaCount / 32768 % 2 = 1) == hasLong st keys) &&
          decide (st.wordDeltaCount % 32768 ≤ r)) = true
    · -- short circuit: the source column is narrow and the LONG_WORDS mode is unchanged
      simp only [Bool.and_eq_true, beq_iff_eq, decide_eq_true_eq] at hsc
      have : ¬ r < st.wordDeltaCount % 32768 := by omega
      simp only [this, if_false] at hf
      rw [← hsc.1]; exact hf
    · have hsc' : ((decide (st.wordDeltaCount / 32768 % 2 = 1) == hasLong st keys) &&
          decide (st.wordDeltaCount % 32768 ≤ r)) = false := by simpa using hsc
      rw [hsc'] at hc
      have := classifyGo_one _ _ _ _ 0 (by omega) hc.symm item hi
      unfold FitsW narrowW inI8 inI16
      cases hl : hasLong st keys <;> rw [hl] at this <;> simp at this ⊢ <;> omega
  · intro r h item hi
    have hf := getItemDelta_fits st hb item r
    have hcw := colWidth_cases (st.wordDeltaCount % 32768) (decide (st.wordDeltaCount / 32768 % 2 = 1)) r
    by_cases hl : hasLong st keys = true
    · rw [hl]
      exact fitsW_mono hcw (by simp [wideW]) (by rcases hcw with h | h | h <;> simp [h, wideW]) hf
    · have hl' : hasLong st keys = false := by simpa using hl
      rw [hl']
      unfold hasLong at hl'
      simp only [] at hl'
      rw [colWidth_eq] at hf
      by_cases hsl : st.wordDeltaCount / 32768 % 2 = 1
      · simp only [hsl, decide_true, Bool.true_and] at hl'
        by_cases hrw : r < st.wordDeltaCount % 32768
        · -- a source word column of a LONG_WORDS table: checked by the `has_long` scan
          rw [List.any_eq_false] at hl'
          have h1 := hl' r (by simp [hrw])
          have h2 : ¬ (decide ¬(-32768 ≤ getItemDelta st item r ∧ getItemDelta st item r ≤ 32767)) = true :=
            fun hc => h1 (List.any_eq_true.mpr ⟨item, hi, hc⟩)
          simp only [decide_eq_true_eq, Decidable.not_not] at h2
          unfold FitsW wideW inI16; simp; omega
        · simp only [hrw, if_false, hsl, decide_true, narrowW, if_true] at hf
          simpa [wideW] using hf
      · simp only [hsl, decide_false, Bool.false_eq_true, wideW, narrowW, if_false] at hf ⊢
        split at hf
        · exact hf
        · exact fitsW_mono (by simp) (by simp) (by omega) hf

theorem idxWith_take_drop (sz : List Nat) :
    (riMap sz).take (count 2 sz) = idxWith 2 sz ∧ (riMap sz).drop (count 2 sz) = idxWith 1 sz := by
  unfold riMap
  rw [← idxWith_length 2 sz]
  simp

/-- **(b) the classification never truncates**: every value of every retained row passes the
`try_from` of the cell `set_item_delta` writes it to. -/
theorem rowFits_always (st : SubTable) (hb : ∀ b ∈ st.data, b < 256) (keys : List Nat) (oldI : Nat)
    (hi : oldI ∈ keys) :
    rowFits (hasLong st keys) (count 2 (deltaSizes st keys))
      ((riMap (deltaSizes st keys)).map fun c => getItemDelta st oldI c) = true := by
  obtain ⟨_, _, _, _, h1, h2⟩ := deltaSizes_spec st hb keys
  have ⟨ht, hd⟩ := idxWith_take_drop (deltaSizes st keys)
  have hwide : ∀ d ∈ ((riMap (deltaSizes st keys)).map fun c => getItemDelta st oldI c).take
      (count 2 (deltaSizes st keys)), FitsW (wideW (hasLong st keys)) d := by
    intro d hd'
    rw [← List.map_take, ht] at hd'
    obtain ⟨c, hc, rfl⟩ := List.mem_map.mp hd'
    exact h2 c (mem_idxWith.mp hc) oldI hi
  have hnarrow : ∀ d ∈ ((riMap (deltaSizes st keys)).map fun c => getItemDelta st oldI c).drop
      (count 2 (deltaSizes st keys)), FitsW (narrowW (hasLong st keys)) d := by
    intro d hd'
    rw [← List.map_drop, hd] at hd'
    obtain ⟨c, hc, rfl⟩ := List.mem_map.mp hd'
    exact h1 c (mem_idxWith.mp hc) oldI hi
  unfold rowFits
  cases hl : hasLong st keys
  · rw [hl] at hwide hnarrow
    simp only [Bool.false_eq_true, if_false, Bool.and_eq_true, List.all_eq_true, decide_eq_true_eq]
    exact ⟨fun d hd => by simpa [FitsW, wideW] using hwide d hd,
           fun d hd => by simpa [FitsW, narrowW] using hnarrow d hd⟩
  · rw [hl] at hnarrow
    simp only [if_true, List.all_eq_true, decide_eq_true_eq]
    exact fun d hd => by simpa [FitsW, narrowW] using hnarrow d hd


/-! ## D. `ItemVariationData::subset`: what an `Ok` tells, and how the reader decodes the result -/

/-- the facts recorded by a successful `subsetVarData`. -/
structure VarDataOk (st : SubTable) (im rm : List Nat) (o : SubTable) : Prop where
  itemCount : o.itemCount = im.length % 65536
  wdc : o.wordDeltaCount =
    if hasLong st im then count 2 (deltaSizes st im) ||| 32768 else count 2 (deltaSizes st im)
  risLen : o.regionIndexes.length = (riMap (deltaSizes st im)).length
  ris : ∀ k (hk : k < (riMap (deltaSizes st im)).length), ∃ oldR,
    st.regionIndexes[(riMap (deltaSizes st im))[k]]? = some oldR ∧ oldR ∈ rm ∧
    o.regionIndexes[k]? = some (rm.idxOf oldR % 65536)
  rows : ∃ rows : List (List Nat), o.data = rows.flatten ∧ rows.length = im.length % 65536 ∧
    ∀ i (hi : i < im.length % 65536), ∃ oldI, im[i]? = some oldI ∧
      rowFits (hasLong st im) (count 2 (deltaSizes st im))
        ((riMap (deltaSizes st im)).map fun c => getItemDelta st oldI c) = true ∧
      rows[i]? = some (encodeWords (hasLong st im) (count 2 (deltaSizes st im))
        ((riMap (deltaSizes st im)).map fun c => getItemDelta st oldI c))

theorem subsetVarData_ok {st : SubTable} {im rm : List Nat} {o : SubTable}
    (h : subsetVarData st im rm = .ok o) : VarDataOk st im rm o := by
  unfold subsetVarData at h
  simp only [bind, Except.bind] at h
  split at h
  · cases h
  · rename_i newRis hris
    split at h
    · cases h
    · rename_i rows hrows
      simp only [pure, Except.pure, Except.ok.injEq] at h
      subst h
      have h1 := mapM_ok _ _ _ hris
      have h2 := mapM_ok _ _ _ hrows
      refine ⟨rfl, rfl, h1.1, ?_, ⟨rows, rfl, by simpa using h2.1, ?_⟩⟩
      · intro k hk
        obtain ⟨hj, hf⟩ := h1.2 k hk
        split at hf
        · cases hf
        · rename_i oldR hold
          split at hf
          · cases hf
          · rename_i r hr
            simp only [pure, Except.pure, Except.ok.injEq] at hf
            obtain ⟨hm, hidx, _⟩ := bmGet_some hr
            refine ⟨oldR, hold, hm, ?_⟩
            rw [List.getElem?_eq_getElem hj, ← hf, hidx]
      · intro i hi
        have hi' : i < (List.range (im.length % 65536)).length := by simpa using hi
        obtain ⟨hj, hf⟩ := h2.2 i hi'
        simp only [List.getElem_range] at hf
        split at hf
        · cases hf
        · rename_i oldI hold
          split at hf
          · rename_i hfit
            simp only [pure, Except.pure, Except.ok.injEq] at hf
            refine ⟨oldI, hold, hfit, ?_⟩
            rw [List.getElem?_eq_getElem hj, ← hf]
          · cases hf


theorem fitsW_inI32 {w : Nat} {x : Int} (h : FitsW w x) : inI32 x := by
  unfold FitsW inI8 inI16 at h; unfold inI32
  split at h
  · omega
  · split at h
    · omega
    · exact h

theorem rowFits_fits {hl : Bool} {wc : Nat} {raw : List Int} (h : rowFits hl wc raw = true)
    (h32 : ∀ x ∈ raw, inI32 x) :
    (∀ x ∈ raw.take wc, FitsW (wideW hl) x) ∧ (∀ x ∈ raw.drop wc, FitsW (narrowW hl) x) := by
  unfold rowFits at h
  cases hl
  · simp only [Bool.false_eq_true, if_false, Bool.and_eq_true, List.all_eq_true, decide_eq_true_eq] at h
    exact ⟨fun x hx => by simpa [FitsW, wideW] using h.1 x hx,
           fun x hx => by simpa [FitsW, narrowW] using h.2 x hx⟩
  · simp only [if_true, List.all_eq_true, decide_eq_true_eq] at h
    exact ⟨fun x hx => by simpa [FitsW, wideW] using h32 x (List.mem_of_mem_take hx),
           fun x hx => by simpa [FitsW, narrowW] using h x hx⟩

theorem riMap_length_le (sz : List Nat) : count 2 sz ≤ (riMap sz).length ∧ (riMap sz).length ≤ sz.length := by
  unfold riMap
  rw [List.length_append, idxWith_length, idxWith_length]
  have := counts_le sz
  omega

theorem wdc_decode (hl : Bool) (wc : Nat) (h : wc < 32768) :
    (if hl then wc ||| 32768 else wc) % 32768 = wc ∧
    decide ((if hl then wc ||| 32768 else wc) / 32768 % 2 = 1) = hl := by
  cases hl
  · simp; omega
  · have e : wc ||| 32768 = 1 * 2 ^ 15 + wc := by
      rw [mul_add_eq_or (k := 15) (by omega) 1, Nat.or_comm]
    simp only [↓reduceIte, e, decide_eq_true_eq]
    omega

theorem mem_riMap {sz : List Nat} {c : Nat} : c ∈ riMap sz ↔ sz[c]? = some 2 ∨ sz[c]? = some 1 := by
  unfold riMap; rw [List.mem_append, mem_idxWith, mem_idxWith]

/-- the reader decodes row `i` of the written table as the retained columns of the old row. -/
theorem decodedRow_subset {st : SubTable} {im rm : List Nat} {o : SubTable}
    (hok : VarDataOk st im rm o) (hb : ∀ b ∈ st.data, b < 256)
    (hric : st.regionIndexes.length < 32768) (him : im.length < 65536) :
    SubOk o ∧ ∀ i (hi : i < im.length),
      decodedRow o i = (riMap (deltaSizes st im)).map fun c => getItemDelta st im[i] c := by
  obtain ⟨hic, hwdc, hrl, _, rows, hdata, hrlen, hrows⟩ := hok
  have him' : im.length % 65536 = im.length := Nat.mod_eq_of_lt him
  rw [him'] at hic hrlen hrows
  have hszl := (deltaSizes_spec st hb im).1
  have ⟨hc1, hc2⟩ := riMap_length_le (deltaSizes st im)
  have hwc : count 2 (deltaSizes st im) < 32768 := by omega
  have ⟨hw1, hw2⟩ := wdc_decode (hasLong st im) _ hwc
  rw [← hwdc] at hw1 hw2
  -- row length
  have hL : deltaRowLen o.wordDeltaCount o.regionIndexes.length =
      count 2 (deltaSizes st im) * wideW (hasLong st im) +
        ((riMap (deltaSizes st im)).length - count 2 (deltaSizes st im)) * narrowW (hasLong st im) := by
    rw [deltaRowLen_eq', hw1, hw2, hrl]
  have hrowlen : ∀ r ∈ rows, (id r : List Nat).length =
      deltaRowLen o.wordDeltaCount o.regionIndexes.length := by
    intro r hr
    obtain ⟨i, hi, rfl⟩ := List.getElem_of_mem hr
    obtain ⟨oldI, _, _, hrow⟩ := hrows i (by omega)
    rw [List.getElem?_eq_getElem hi] at hrow
    simp only [Option.some.injEq] at hrow
    rw [id, hrow, encodeWords_length _ _ _ (by simpa using hc1), hL]
    simp
  have hflat : o.data = rows.flatMap id := by rw [hdata, List.flatMap_id]
  have htot := flatMap_uniform_length id _ rows hrowlen
  have hsub : SubOk o := by
    unfold SubOk; rw [hflat, htot, hic, hrlen]; exact Nat.le_refl _
  refine ⟨hsub, ?_⟩
  intro i hi
  obtain ⟨oldI, hold, hfit, hrow⟩ := hrows i hi
  have hir : i < rows.length := by omega
  rw [List.getElem?_eq_getElem hi] at hold
  simp only [Option.some.injEq] at hold
  subst hold
  rw [List.getElem?_eq_getElem hir] at hrow
  simp only [Option.some.injEq] at hrow
  unfold decodedRow deltaSet
  simp only []
  rw [hw1, hw2, hflat, hic, ← hrlen, ← htot, List.take_length]
  have hle : deltaRowLen o.wordDeltaCount o.regionIndexes.length * i ≤ (rows.flatMap id).length := by
    rw [htot]; exact Nat.mul_le_mul_left _ (by omega)
  rw [if_pos hle, flatMap_uniform_drop id _ rows i hir hrowlen, id, hrow, hrl]
  have h32 : ∀ x ∈ (riMap (deltaSizes st im)).map (fun c => getItemDelta st im[i] c), inI32 x := by
    intro x hx
    obtain ⟨c, _, rfl⟩ := List.mem_map.mp hx
    exact fitsW_inI32 (getItemDelta_fits st hb im[i] c)
  have ⟨hwf, hnf⟩ := rowFits_fits hfit h32
  have := itemDeltas_encodeWords (hasLong st im) (count 2 (deltaSizes st im))
    ((riMap (deltaSizes st im)).map fun c => getItemDelta st im[i] c)
    ((rows.drop (i + 1)).flatMap id) (by simpa using hc1) hwf hnf
  simpa using this


/-! ## E. one row: pruned columns and renumbered regions leave the weighted sum unchanged -/

theorem sumOver_eq_zero (h : Nat → Int) : ∀ (l : List Nat), (∀ r ∈ l, h r = 0) → sumOver h l = 0 := by
  intro l
  induction l with
  | nil => intro _; rfl
  | cons r l ih =>
    intro hh
    simp only [sumOver, hh r (by simp), ih (fun x hx => hh x (by simp [hx]))]; rfl

theorem natList_eq_map_range (l : List Nat) : l = (List.range l.length).map (fun r => l.getD r 0) := by
  apply List.ext_getElem?
  intro i
  rw [List.getElem?_map]
  by_cases hi : i < l.length
  · rw [List.getElem?_range hi, List.getElem?_eq_getElem hi]
    simp [List.getD_eq_getElem?_getD, List.getElem?_eq_getElem hi]
  · rw [List.getElem?_eq_none (by omega), List.getElem?_eq_none (by simp; omega)]; rfl

theorem idxWith4_nil {sz : List Nat} (h : ∀ b ∈ sz, b ≠ 4) : idxWith 4 sz = [] := by
  apply List.eq_nil_iff_forall_not_mem.mpr
  intro r hr
  have := mem_idxWith.mp hr
  exact h 4 (List.mem_of_getElem? this) rfl

theorem riMap_eq_indices {sz : List Nat} (h : ∀ b ∈ sz, b ≠ 4) : riMap sz = indices sz := by
  unfold riMap indices; rw [idxWith4_nil h]; simp

theorem getD_map_idxOf {β} (rm : List Nat) (f : Nat → β) (d : β) {x : Nat} (hx : x ∈ rm) :
    (rm.map f).getD (rm.idxOf x) d = f x := by
  have hl : rm.idxOf x < rm.length := List.idxOf_lt_length_iff.mpr hx
  rw [List.getD_eq_getElem?_getD, List.getElem?_map, List.getElem?_eq_getElem hl, List.getElem_idxOf hl]
  rfl

theorem row_sum_eq {st : SubTable} {im rm : List Nat} {o : SubTable}
    (hok : VarDataOk st im rm o) (hb : ∀ b ∈ st.data, b < 256)
    (hric : st.regionIndexes.length < 32768) (him : im.length < 65536) (hsok : SubOk st)
    (regions : List (List (Int × Int × Int))) (hsorted : rm.Pairwise (· < ·))
    (hrm : ∀ x ∈ rm, x < regions.length) (hreg : regions.length ≤ 65536)
    (coords : List Int) (i : Nat) (hi : i < im.length) :
    specSum (rm.map fun r => regions.getD r []) coords (decodedRow o i) o.regionIndexes =
      specSum regions coords (decodedRow st im[i]) st.regionIndexes := by
  obtain ⟨hszl, hshape, hno4, hz, _, _⟩ := deltaSizes_spec st hb im
  have hdec := (decodedRow_subset hok hb hric him).2 i hi
  -- the new region indexes as a map over the retained columns
  have hris : o.regionIndexes = (riMap (deltaSizes st im)).map
      (fun c => rm.idxOf (st.regionIndexes.getD c 0) % 65536) := by
    apply List.ext_getElem?
    intro k
    rw [List.getElem?_map]
    by_cases hk : k < (riMap (deltaSizes st im)).length
    · obtain ⟨oldR, h1, _, h3⟩ := hok.ris k hk
      rw [h3, List.getElem?_eq_getElem hk]
      simp [List.getD_eq_getElem?_getD, h1]
    · rw [List.getElem?_eq_none (by rw [hok.risLen]; omega), List.getElem?_eq_none (by omega)]; rfl
  have hmem : ∀ c ∈ riMap (deltaSizes st im), st.regionIndexes.getD c 0 ∈ rm := by
    intro c hc
    obtain ⟨k, hk, rfl⟩ := List.getElem_of_mem hc
    obtain ⟨oldR, h1, h2, _⟩ := hok.ris k hk
    simpa [List.getD_eq_getElem?_getD, h1] using h2
  rw [hdec, hris, specSum_map]
  -- every retained column refers to the same region as before
  rw [sumOver_congr _ (fun c => getItemDelta st im[i] c *
      computeScalar (regions.getD (st.regionIndexes.getD c 0) []) coords)]
  · rw [riMap_eq_indices hno4, sumOver_indices _ _ hshape]
    · rw [hszl]
      by_cases hin : im[i] < st.itemCount
      · have ⟨hl, hg⟩ := getItemDelta_eq st hsok im[i] hin
        have hrow : decodedRow st im[i] =
            (List.range st.regionIndexes.length).map (fun c => getItemDelta st im[i] c) := by
          apply List.ext_getElem?
          intro k
          rw [List.getElem?_map]
          by_cases hk : k < st.regionIndexes.length
          · rw [hg k hk, List.getElem?_range hk]; rfl
          · rw [List.getElem?_eq_none (by omega), List.getElem?_eq_none (by simp; omega)]; rfl
        rw [hrow]
        conv => rhs; arg 4; rw [natList_eq_map_range st.regionIndexes]
        rw [specSum_map]
      · rw [decodedRow_oob st im[i] (by omega)]
        have : specSum regions coords [] st.regionIndexes = 0 := by
          cases st.regionIndexes <;> rfl
        rw [this]
        apply sumOver_eq_zero
        intro c _
        rw [getItemDelta_oob st im[i] c (Or.inl (by omega))]; simp
    · intro c hc h0
      have := hz c (by rw [List.getElem?_eq_getElem hc, h0]) im[i] (List.getElem_mem hi)
      rw [this]; simp
  · intro c hc
    have hx := hmem c hc
    have hle := idxOf_le_of_sorted hsorted hx
    have hlt := hrm _ hx
    rw [Nat.mod_eq_of_lt (by omega), getD_map_idxOf rm (fun r => regions.getD r []) [] hx]

/-! ## F. `compute_delta` on one retained subtable -/

theorem computeDelta_of_loopOk (regions : List (List (Int × Int × Int)))
    (subs : List (Option SubTable)) (outer inner : Nat) (coords : List Int) (st : SubTable)
    (hne : coords ≠ []) (hst : subs[outer]? = some (some st)) (hok : SubOk st)
    (hloop : LoopOk regions (decodedRow st inner) st.regionIndexes) :
    computeDelta regions subs outer inner coords =
      .ok (roundAccum (specSum regions coords (decodedRow st inner) st.regionIndexes)) := by
  unfold computeDelta
  have e : coords.isEmpty = false := by cases coords <;> simp_all
  unfold SubOk at hok
  have hlen : ¬ st.data.length < deltaRowLen st.wordDeltaCount st.regionIndexes.length * st.itemCount := by
    omega
  simp only [e, Bool.false_eq_true, if_false, hst, hlen]
  have := (deltaLoop_spec regions coords (decodedRow st inner) st.regionIndexes 0).1 hloop
  unfold decodedRow at this
  rw [this]
  simp [decodedRow]

theorem decodedRow_length_le (st : SubTable) (hb : ∀ b ∈ st.data, b < 256) (inner : Nat) :
    (decodedRow st inner).length ≤ st.regionIndexes.length := by
  unfold decodedRow
  exact (deltaSet_inI32 _ _ _ inner (fun b hbm => hb b (List.mem_of_mem_take hbm))).2

/-- **one subtable**: the reader's `compute_delta` on the written subtable at the new inner index
equals `compute_delta` on the original at the old inner index, for all coordinates. -/
theorem computeDelta_subtable {st : SubTable} {im rm : List Nat} {o : SubTable}
    (hok : VarDataOk st im rm o) (hb : ∀ b ∈ st.data, b < 256)
    (hric : st.regionIndexes.length < 32768) (him : im.length < 65536) (hsok : SubOk st)
    (regions : List (List (Int × Int × Int))) (hsorted : rm.Pairwise (· < ·))
    (hrm : ∀ x ∈ rm, x < regions.length) (hreg : regions.length ≤ 65536)
    (hsri : ∀ ri ∈ st.regionIndexes, ri < regions.length)
    (newSubs oldSubs : List (Option SubTable)) (no outer : Nat)
    (hnew : newSubs[no]? = some (some o)) (hold : oldSubs[outer]? = some (some st))
    (coords : List Int) (i : Nat) (hi : i < im.length) :
    computeDelta (rm.map fun r => regions.getD r []) newSubs no i coords =
      computeDelta regions oldSubs outer im[i] coords := by
  by_cases hne : coords = []
  · subst hne; simp [computeDelta]
  · have ⟨hsubo, hdec⟩ := decodedRow_subset hok hb hric him
    have hloopOld : LoopOk regions (decodedRow st im[i]) st.regionIndexes :=
      loopOk_of_lt regions _ _ (decodedRow_length_le st hb _) hsri
    have hloopNew : LoopOk (rm.map fun r => regions.getD r []) (decodedRow o i) o.regionIndexes := by
      apply loopOk_of_lt
      · rw [hdec i hi, hok.risLen]; simp
      · intro ri hri
        obtain ⟨k, hk, rfl⟩ := List.getElem_of_mem hri
        obtain ⟨oldR, _, h2, h3⟩ := hok.ris k (by rw [← hok.risLen]; exact hk)
        rw [List.getElem?_eq_getElem hk] at h3
        simp only [Option.some.injEq] at h3
        rw [h3]
        have : rm.idxOf oldR < rm.length := List.idxOf_lt_length_iff.mpr h2
        have : rm.idxOf oldR % 65536 ≤ rm.idxOf oldR := Nat.mod_le _ _
        simp; omega
    rw [computeDelta_of_loopOk _ _ _ _ _ o hne hnew hsubo hloopNew,
        computeDelta_of_loopOk _ _ _ _ _ st hne hold hsok hloopOld,
        row_sum_eq hok hb hric him hsok regions hsorted hrm hreg coords i hi]


/-! ## G. the rewritten DeltaSetIndexMap -/

/-- `map_count = (last_gid + 1) as u16` (0 when nothing is retained). -/
def mapCountOf (lastGid : Option Nat) : Nat :=
  match lastGid with
  | none => 0
  | some lg => (lg + 1) % 65536

/-- `outer_bit_count = entry_size * 8 - bit_count` of the source map (format 1 = 1 byte, 2 inner
bits when there is none). -/
def outerBitsOf (m : Option MapIn) : Nat :=
  match m with
  | some mm => ((mm.entryFormat % 64) / 16 % 4 + 1) * 8 - ((mm.entryFormat % 64) % 16 + 1)
  | none => 6

/-- the scan with a current candidate: it walks over a prefix `a` of equal entries. -/
theorem scanBack_some (m : Option MapIn) : ∀ (rev : List (Nat × Nat)) (lg : Nat) (lv : Nat × Nat)
    (r : Option Nat), scanBack m rev (some (lg, lv)) = .ok r →
    ∃ a b, rev = a ++ b ∧ (∀ p ∈ a, mapGet m p.2 = some lv) ∧
      r = some ((a.getLast?.map (·.1)).getD lg) := by
  intro rev
  induction rev with
  | nil =>
    intro lg lv r h
    simp only [scanBack, pure, Except.pure, Except.ok.injEq, Option.map_some] at h
    exact ⟨[], [], rfl, by simp, by simp [← h]⟩
  | cons x rest ih =>
    intro lg lv r h
    obtain ⟨gid, old⟩ := x
    rw [scanBack] at h
    split at h
    · cases h
    · rename_i val hval
      simp only [] at h
      split at h
      · rename_i hne
        simp only [pure, Except.pure, Except.ok.injEq] at h
        exact ⟨[], (gid, old) :: rest, rfl, by simp, by simp [← h]⟩
      · rename_i heq
        have heq' : val = lv := by simpa using heq
        obtain ⟨a, b, hab, ha, hr⟩ := ih gid lv r h
        refine ⟨(gid, old) :: a, b, by simp [hab], ?_, ?_⟩
        · intro p hp
          rcases List.mem_cons.mp hp with rfl | hp
          · simpa [heq'] using hval
          · exact ha p hp
        · rw [hr]
          cases a with
          | nil => simp
          | cons y ys =>
            rw [List.getLast?_cons_cons]
            cases hgl : (y :: ys).getLast? with
            | none => simp at hgl
            | some z => simp

/-- **map_count trimming**: `last_gid` is the new gid of the first element of a suffix of
`new_to_old_gid_list` on which the map is constant. -/
theorem scanBack_spec (m : Option MapIn) (l : List (Nat × Nat)) (r : Option Nat)
    (h : scanBack m l.reverse none = .ok r) :
    (l = [] ∧ r = none) ∨
    ∃ pre x suf val, l = pre ++ x :: suf ∧ r = some x.1 ∧
      (∀ p ∈ x :: suf, mapGet m p.2 = some val) := by
  rcases List.eq_nil_or_concat l with rfl | ⟨init, z, rfl⟩
  · left; simp [scanBack, pure, Except.pure] at h; exact ⟨rfl, h.symm⟩
  · right
    rw [List.concat_eq_append, List.reverse_append] at h
    simp only [List.reverse_cons, List.reverse_nil, List.nil_append, List.singleton_append] at h
    obtain ⟨gid, old⟩ := z
    rw [scanBack] at h
    split at h
    · cases h
    · rename_i val hval
      simp only [] at h
      obtain ⟨a, b, hab, ha, hr⟩ := scanBack_some m _ gid val r h
      have hinit : init = b.reverse ++ a.reverse := by
        have := congrArg List.reverse hab
        simpa using this
      rcases List.eq_nil_or_concat a with rfl | ⟨a', y, rfl⟩
      · refine ⟨init, (gid, old), [], val, by simp, by simpa using hr, ?_⟩
        intro p hp; simp at hp; subst hp; exact hval
      · refine ⟨b.reverse, y, a'.reverse ++ [(gid, old)], val, ?_, ?_, ?_⟩
        · rw [List.concat_eq_append, hinit, List.concat_eq_append]; simp
        · rw [hr, List.concat_eq_append]; simp
        · intro p hp
          simp only [List.mem_cons, List.mem_append, List.mem_reverse, List.mem_singleton,
            List.not_mem_nil, or_false] at hp
          rcases hp with rfl | hp | rfl
          · exact ha _ (by simp [List.concat_eq_append])
          · exact ha _ (by simp [List.concat_eq_append, hp])
          · exact hval

/-- where an entry of `output_map` comes from. -/
def Src (m : Option MapIn) (outerMap : List Nat) (innerMaps : List (List Nat)) (l : List (Nat × Nat))
    (g v : Nat) : Prop :=
  ∃ old outer inner, (g, old) ∈ l ∧ mapGet m old = some (outer, inner) ∧
    outer ∈ outerMap ∧ inner ∈ innerMaps.getD outer [] ∧
    v = outerMap.idxOf outer * 65536 ||| (innerMaps.getD outer []).idxOf inner

theorem low16_or_le (a b : Nat) : (a * 65536 ||| b) % 65536 ≤ b := by
  have h16 : (65536 : Nat) = 2 ^ 16 := by decide
  rw [h16, Nat.or_mod_two_pow]
  have : a * 2 ^ 16 % 2 ^ 16 = 0 := Nat.mul_mod_left _ _
  rw [this, Nat.zero_or]
  exact Nat.mod_le _ _

theorem lookup_cons_ne {k g v : Nat} {out : List (Nat × Nat)} (h : k ≠ g) :
    List.lookup g ((k, v) :: out) = List.lookup g out := by
  simp [List.lookup, beq_false_of_ne (Ne.symm h)]

/-- the `remap` loop on a list that stays below `map_count` (no `break`). -/
theorem remapGo_spec (m : Option MapIn) (mc : Nat) (om : List Nat) (ims : List (List Nat)) :
    ∀ (l : List (Nat × Nat)) (out : List (Nat × Nat)) (mx : Nat) (out' : List (Nat × Nat)) (mx' : Nat),
    l.Pairwise (fun a b => a.1 < b.1) → (∀ p ∈ l, p.1 % 65536 < mc) →
    remapGo m mc om ims l out mx = .ok (out', mx') →
    mx ≤ mx' ∧
    (∀ g v, out'.lookup g = some v → out.lookup g = some v ∨
      (Src m om ims l g v ∧ v % 65536 ≤ mx')) ∧
    (∀ g, (∀ p ∈ l, p.1 ≠ g) → out'.lookup g = out.lookup g) ∧
    (∀ p ∈ l, ∀ outer inner, mapGet m p.2 = some (outer, inner) → outer < ims.length →
      outer ∈ om ∧ inner ∈ ims.getD outer [] ∧
      (ims.getD outer []).idxOf inner ≤ mx' ∧
      out'.lookup p.1 = some (om.idxOf outer * 65536 ||| (ims.getD outer []).idxOf inner)) ∧
    (∀ p ∈ l, ∃ outer inner, mapGet m p.2 = some (outer, inner)) := by
  intro l
  induction l with
  | nil =>
    intro out mx out' mx' _ _ h
    simp only [remapGo, pure, Except.pure, Except.ok.injEq, Prod.mk.injEq] at h
    obtain ⟨rfl, rfl⟩ := h
    exact ⟨Nat.le_refl _, fun g v hv => Or.inl hv, fun g _ => rfl, (fun p hp => by cases hp),
      (fun p hp => by cases hp)⟩
  | cons x rest ih =>
    intro out mx out' mx' hpw hlt h
    obtain ⟨new, old⟩ := x
    have ⟨hx, hpw'⟩ := List.pairwise_cons.mp hpw
    have hnew := hlt (new, old) (by simp)
    have hlt' : ∀ p ∈ rest, p.1 % 65536 < mc := fun p hp => hlt p (by simp [hp])
    rw [remapGo] at h
    have : ¬ new % 65536 ≥ mc := by simpa using hnew
    simp only [this, if_false] at h
    split at h
    · cases h
    · rename_i outer inner hget
      split at h
      · -- an outer index without subtable: skipped
        rename_i hout
        have := ih out mx out' mx' hpw' hlt' h
        refine ⟨this.1, ?_, ?_, ?_, ?_⟩
        · intro g v hv
          rcases this.2.1 g v hv with h1 | h1
          · exact Or.inl h1
          · right
            obtain ⟨⟨o, ou, inn, h2, h3⟩, h4⟩ := h1
            exact ⟨⟨o, ou, inn, by simp [h2], h3⟩, h4⟩
        · intro g hg
          exact this.2.2.1 g (fun p hp => hg p (by simp [hp]))
        · intro p hp ou inn hm hou
          rcases List.mem_cons.mp hp with rfl | hp
          · simp only [] at hm
            rw [hget] at hm
            simp only [Option.some.injEq, Prod.mk.injEq] at hm
            omega
          · exact this.2.2.2.1 p hp ou inn hm hou
        · intro p hp
          rcases List.mem_cons.mp hp with rfl | hp
          · exact ⟨outer, inner, hget⟩
          · exact this.2.2.2.2 p hp
      · rename_i hout
        split at h
        · rename_i no ni hno hni
          obtain ⟨hmo, hio, _⟩ := bmGet_some hno
          obtain ⟨hmi, hii, _⟩ := bmGet_some hni
          have := ih _ _ out' mx' hpw' hlt' h
          refine ⟨by have := this.1; omega, ?_, ?_, ?_, ?_⟩
          · intro g v hv
            rcases this.2.1 g v hv with h1 | h1
            · by_cases hg : new = g
              · subst hg
                simp only [List.lookup, beq_self_eq_true, Option.some.injEq] at h1
                right
                refine ⟨⟨old, outer, inner, by simp, hget, hmo, hmi, by rw [← h1, hio, hii]⟩, ?_⟩
                rw [← h1]
                have hmxle : max mx ni ≤ mx' := this.1
                have : (no * 65536 ||| ni) % 65536 ≤ ni := low16_or_le no ni
                omega
              · rw [lookup_cons_ne hg] at h1; exact Or.inl h1
            · right
              obtain ⟨⟨o, ou, inn, h2, h3⟩, h4⟩ := h1
              exact ⟨⟨o, ou, inn, by simp [h2], h3⟩, h4⟩
          · intro g hg
            rw [this.2.2.1 g (fun p hp => hg p (by simp [hp]))]
            exact lookup_cons_ne (hg (new, old) (by simp))
          · intro p hp ou inn hm hou
            rcases List.mem_cons.mp hp with rfl | hp
            · simp only [] at hm
              rw [hget] at hm
              simp only [Option.some.injEq, Prod.mk.injEq] at hm
              obtain ⟨rfl, rfl⟩ := hm
              refine ⟨hmo, hmi, by rw [← hii]; have := this.1; omega, ?_⟩
              rw [this.2.2.1 new (fun q hq => by have := hx q hq; simp at this; omega)]
              simp [List.lookup, hio, hii]
            · exact this.2.2.2.1 p hp ou inn hm hou
          · intro p hp
            rcases List.mem_cons.mp hp with rfl | hp
            · exact ⟨outer, inner, hget⟩
            · exact this.2.2.2.2 p hp
        · cases h


/-- the loop stops at the first glyph at or beyond `map_count`: only the prefix below it matters. -/
theorem remapGo_prefix (m : Option MapIn) (mc : Nat) (om : List Nat) (ims : List (List Nat))
    (rest : List (Nat × Nat)) (hrest : ∀ x ∈ rest.head?, x.1 % 65536 ≥ mc) :
    ∀ (proc : List (Nat × Nat)) (out : List (Nat × Nat)) (mx : Nat),
    (∀ p ∈ proc, p.1 % 65536 < mc) →
    remapGo m mc om ims (proc ++ rest) out mx = remapGo m mc om ims proc out mx := by
  intro proc
  induction proc with
  | nil =>
    intro out mx _
    cases rest with
    | nil => rfl
    | cons x r =>
      obtain ⟨new, old⟩ := x
      have := hrest (new, old) (by simp)
      simp only [List.nil_append, remapGo]
      simp [this]
  | cons x proc ih =>
    intro out mx hlt
    obtain ⟨new, old⟩ := x
    have hlt' : ∀ p ∈ proc, p.1 % 65536 < mc := fun p hp => hlt p (by simp [hp])
    simp only [List.cons_append, remapGo]
    split
    · rfl
    · split
      · rfl
      · split
        · exact ih _ _ hlt'
        · split
          · exact ih _ _ hlt'
          · rfl

theorem or_decode (no ni : Nat) (hni : ni < 65536) :
    (no * 65536 ||| ni) / 65536 = no ∧ (no * 65536 ||| ni) % 65536 = ni := by
  have e : no * 65536 ||| ni = no * 2 ^ 16 + ni := by
    rw [mul_add_eq_or (k := 16) (by omega) no]
  rw [e]; omega

theorem beBytes_zero (n : Nat) : beBytes n 0 = List.replicate n 0 := by
  unfold beBytes
  apply List.ext_getElem?
  intro i
  by_cases hi : i < n
  · simp [hi]
  · simp [hi]

theorem pow256 (w : Nat) : 256 ^ w = 2 ^ (8 * w) := by
  rw [Nat.pow_mul]

/-- an outer index read from a map fits the map's outer bits (`entry_size * 8 - bit_count`). -/
theorem dsimGet_outer_lt (ef mc : Nat) (data : List Nat) (hb : ∀ b ∈ data, b < 256) (idx outer inner : Nat)
    (h : dsimGet ef mc data idx = some (outer, inner)) :
    outer < 2 ^ ((ef / 16 % 4 + 1) * 8 - (ef % 16 + 1)) ∧ outer < 65536 ∧ inner < 65536 := by
  unfold dsimGet at h
  simp only [] at h
  split at h
  · simp only [Option.some.injEq, Prod.mk.injEq] at h
    obtain ⟨rfl, rfl⟩ := h
    refine ⟨?_, Nat.mod_lt _ (by omega), Nat.mod_lt _ (by omega)⟩
    generalize hes : ef / 16 % 4 + 1 = es
    generalize hbc : ef % 16 + 1 = bc
    -- the entry is below 256 ^ es
    have hval : ∀ (l : List Nat), (∀ b ∈ l, b < 256) → beValue l < 256 ^ l.length := by
      intro l
      unfold beValue
      have : ∀ (l : List Nat) (acc : Nat), (∀ b ∈ l, b < 256) →
          l.foldl (fun acc b => acc * 256 + b) acc < (acc + 1) * 256 ^ l.length := by
        intro l
        induction l with
        | nil => intro acc _; simp
        | cons a l ih =>
          intro acc hl
          simp only [List.foldl_cons, List.length_cons]
          have ha := hl a (by simp)
          have := ih (acc * 256 + a) (fun b hb' => hl b (by simp [hb']))
          have h1 : acc * 256 + a + 1 ≤ (acc + 1) * 256 := by omega
          have h2 : (acc * 256 + a + 1) * 256 ^ l.length ≤ (acc + 1) * 256 * 256 ^ l.length :=
            Nat.mul_le_mul_right _ h1
          have h3 : (acc + 1) * 256 * 256 ^ l.length = (acc + 1) * 256 ^ (l.length + 1) := by
            rw [Nat.pow_succ, Nat.mul_assoc, Nat.mul_comm 256]
          omega
      intro hl
      have := this l 0 hl
      simpa using this
    have hlen : ((data.drop (min idx (mc - 1) * es)).take es).length ≤ es := by
      simp [List.length_take]; omega
    have hbv := hval ((data.drop (min idx (mc - 1) * es)).take es)
      (fun b hbm => hb b (List.mem_of_mem_drop (List.mem_of_mem_take hbm)))
    have hle : 256 ^ ((data.drop (min idx (mc - 1) * es)).take es).length ≤ 256 ^ es :=
      Nat.pow_le_pow_right (by omega) hlen
    generalize beValue ((data.drop (min idx (mc - 1) * es)).take es) = entry at *
    have hent : entry < 2 ^ (8 * es) := by rw [← pow256]; omega
    have : entry / 2 ^ bc % 65536 ≤ entry / 2 ^ bc := Nat.mod_le _ _
    by_cases hcmp : bc ≤ es * 8
    · have : entry / 2 ^ bc < 2 ^ (es * 8 - bc) := by
        rw [Nat.div_lt_iff_lt_mul (Nat.two_pow_pos _), ← Nat.pow_add]
        have : es * 8 - bc + bc = 8 * es := by omega
        rw [this]; exact hent
      omega
    · have h0 : es * 8 - bc = 0 := by omega
      rw [h0]
      have : 2 ^ (8 * es) ≤ 2 ^ bc := Nat.pow_le_pow_right (by omega) (by omega)
      have : entry / 2 ^ bc = 0 := Nat.div_eq_of_lt (by omega)
      omega
  · cases h


theorem flatMap_map' {α β γ} (g : α → β) (h : β → List γ) : ∀ (l : List α),
    (l.map g).flatMap h = l.flatMap (fun i => h (g i)) := by
  intro l
  induction l with
  | nil => rfl
  | cons a l ih => simp [ih]

theorem serializeMap_ok {p : MapPlan} {mo : MapOut} (h : serializeMap p = .ok mo) (hmc : 0 < p.mapCount) :
    p.innerBits ≠ 0 ∧ (p.innerBits - 1) / 16 = 0 ∧ (mapWidth p - 1) / 4 = 0 ∧
    mo.entryFormat = ((mapWidth p - 1) * 16 % 256) ||| (p.innerBits - 1) ∧ mo.mapCount = p.mapCount ∧
    mo.data = (List.range p.mapCount).flatMap (fun i =>
      match p.output.lookup i with
      | none => List.replicate (mapWidth p) 0
      | some v => beBytes (mapWidth p) ((v / 65536 * 2 ^ p.innerBits ||| v % 65536) % 4294967296)) := by
  unfold serializeMap at h
  have hpos : p.mapCount > 0 := hmc
  simp [hpos, bind, Except.bind, throw, throwThe, MonadExceptOf.throw, pure, Except.pure] at h
  split at h
  · cases h
  · rename_i h1
    split at h
    · cases h
    · rename_i h2
      simp only [Except.ok.injEq] at h
      subst h
      refine ⟨h1, by omega, by omega, rfl, rfl, rfl⟩

theorem entry_ok (om : List Nat) (ims : List (List Nat)) (hom : om.Pairwise (· < ·))
    (hims : ∀ im ∈ ims, im.length ≤ 65536) (ob ib width mx : Nat) (hib : ib = max (bitLen mx) 1)
    (hw : ob + ib ≤ 8 * width) (hw4 : width ≤ 4)
    (outer inner : Nat) (ho : outer ∈ om) (hi : inner ∈ ims.getD outer []) (hol : outer < ims.length)
    (hob : outer < 2 ^ ob) (ho16 : outer < 65536) (v : Nat)
    (hv : v = om.idxOf outer * 65536 ||| (ims.getD outer []).idxOf inner) (hmx : v % 65536 ≤ mx) :
    v / 65536 = om.idxOf outer ∧ v % 65536 = (ims.getD outer []).idxOf inner ∧
    v % 65536 < 2 ^ ib ∧ v / 65536 < 65536 ∧ v / 65536 * 2 ^ ib + v % 65536 < 256 ^ width ∧
    (v / 65536 * 2 ^ ib ||| v % 65536) % 4294967296 = v / 65536 * 2 ^ ib + v % 65536 := by
  have hmem : ims.getD outer [] ∈ ims := by
    rw [List.getD_eq_getElem?_getD, List.getElem?_eq_getElem hol]; simp
  have hni : (ims.getD outer []).idxOf inner < 65536 := by
    have := List.idxOf_lt_length_iff.mpr hi
    have := hims _ hmem
    omega
  have ⟨d1, d2⟩ := or_decode (om.idxOf outer) _ hni
  rw [← hv] at d1 d2
  have hno : om.idxOf outer ≤ outer := idxOf_le_of_sorted hom ho
  have hlt : v % 65536 < 2 ^ ib := by
    have h1 := lt_two_pow_bitLen mx
    have h2 : 2 ^ bitLen mx ≤ 2 ^ ib := Nat.pow_le_pow_right (by omega) (by omega)
    omega
  have hsum : v / 65536 * 2 ^ ib + v % 65536 < 2 ^ (ob + ib) := by
    rw [Nat.pow_add]
    have h1 : v / 65536 + 1 ≤ 2 ^ ob := by omega
    have h2 : (v / 65536 + 1) * 2 ^ ib ≤ 2 ^ ob * 2 ^ ib := Nat.mul_le_mul_right _ h1
    rw [Nat.add_mul] at h2
    omega
  have hpw : 2 ^ (ob + ib) ≤ 2 ^ (8 * width) := Nat.pow_le_pow_right (by omega) hw
  have hpw2 : 2 ^ (8 * width) ≤ 2 ^ 32 := Nat.pow_le_pow_right (by omega) (by omega)
  refine ⟨d1, d2, hlt, by omega, by rw [pow256]; omega, ?_⟩
  rw [← mul_add_eq_or hlt, Nat.mod_eq_of_lt (by omega)]

/-- what one call of `remap` establishes (the list is split at `last_gid`). -/
theorem remap_facts (m : Option MapIn) (n2o : List (Nat × Nat)) (om : List Nat) (ims : List (List Nat))
    (p p' : MapPlan) (lastGid : Option Nat)
    (hpw : n2o.Pairwise (fun a b => a.1 < b.1)) (hnew : ∀ q ∈ n2o, q.1 < 65535)
    (hscan : scanBack m n2o.reverse none = .ok lastGid)
    (hmc : p.mapCount = mapCountOf lastGid)
    (hremap : remap p m n2o om ims = .ok p') (hne : n2o ≠ []) :
    ∃ pre x suf val out mx, n2o = pre ++ x :: suf ∧ p.mapCount = x.1 + 1 ∧
      p' = { p with output := out, innerBits := max (bitLen mx) 1 } ∧
      (∀ a ∈ pre, a.1 < x.1) ∧ (∀ b ∈ suf, x.1 < b.1) ∧
      (∀ q ∈ x :: suf, mapGet m q.2 = some val) ∧
      (∀ g v, out.lookup g = some v → Src m om ims (pre ++ [x]) g v ∧ v % 65536 ≤ mx) ∧
      (∀ a ∈ pre ++ [x], ∃ o i, mapGet m a.2 = some (o, i)) ∧
      (∀ a ∈ pre ++ [x], ∀ o i, mapGet m a.2 = some (o, i) → o < ims.length →
        o ∈ om ∧ i ∈ ims.getD o [] ∧
        out.lookup a.1 = some (om.idxOf o * 65536 ||| (ims.getD o []).idxOf i)) := by
  rcases scanBack_spec m n2o lastGid hscan with ⟨rfl, _⟩ | ⟨pre, x, suf, val, hl, hr, hval⟩
  · exact absurd rfl hne
  subst hr
  have hx65 : x.1 < 65535 := hnew x (by rw [hl]; simp)
  have hmc' : p.mapCount = x.1 + 1 := by rw [hmc]; simp only [mapCountOf]; omega
  rw [hl] at hpw
  have hpw1 := List.pairwise_append.mp hpw
  have hpre : ∀ a ∈ pre, a.1 < x.1 := fun a ha => hpw1.2.2 a ha x (by simp)
  have hsuf : ∀ b ∈ suf, x.1 < b.1 := fun b hb => (List.pairwise_cons.mp hpw1.2.1).1 b hb
  unfold remap at hremap
  simp only [bind, Except.bind] at hremap
  split at hremap
  · cases hremap
  rename_i res hgo
  obtain ⟨out, mx⟩ := res
  simp only [pure, Except.pure, Except.ok.injEq] at hremap
  have hall : ∀ a ∈ pre ++ [x], a.1 % 65536 < p.mapCount := by
    intro a ha
    rcases List.mem_append.mp ha with h | h
    · have := hpre a h; rw [Nat.mod_eq_of_lt (by omega)]; omega
    · simp at h; subst h; rw [Nat.mod_eq_of_lt (by omega)]; omega
  have hrest : ∀ y ∈ suf.head?, y.1 % 65536 ≥ p.mapCount := by
    intro y hy
    have hys : y ∈ suf := List.mem_of_mem_head? hy
    have := hsuf y hys
    have := hnew y (by rw [hl]; simp [hys])
    rw [Nat.mod_eq_of_lt (by omega)]; omega
  have hsplit : n2o = (pre ++ [x]) ++ suf := by rw [hl]; simp
  have hproc : remapGo m p.mapCount om ims (pre ++ [x]) [] 0 = .ok (out, mx) := by
    rw [← remapGo_prefix m p.mapCount om ims suf hrest (pre ++ [x]) [] 0 hall, ← hsplit]; exact hgo
  have hpwproc : (pre ++ [x]).Pairwise (fun a b => a.1 < b.1) := by
    have : ((pre ++ [x]) ++ suf).Pairwise (fun a b => a.1 < b.1) := by simpa using hpw
    exact (List.pairwise_append.mp this).1
  obtain ⟨_, hsrc, _, hlook, hsome⟩ :=
    remapGo_spec m p.mapCount om ims (pre ++ [x]) [] 0 out mx hpwproc hall hproc
  refine ⟨pre, x, suf, val, out, mx, hl, hmc', hremap.symm, hpre, hsuf, hval, ?_, hsome, ?_⟩
  · intro g v hv
    rcases hsrc g v hv with h0 | h1
    · simp at h0
    · exact h1
  · intro a ha o i hga hol
    obtain ⟨h1, h2, _, h4⟩ := hlook a ha o i hga hol
    exact ⟨h1, h2, h4⟩

/-- the original index of every kept glyph exists (otherwise `new` returned a read error or `remap`
hit its `unwrap`), and `output_map` is not empty. -/
theorem remap_defined (m : Option MapIn) (n2o : List (Nat × Nat)) (om : List Nat) (ims : List (List Nat))
    (p p' : MapPlan) (lastGid : Option Nat)
    (hpw : n2o.Pairwise (fun a b => a.1 < b.1)) (hnew : ∀ q ∈ n2o, q.1 < 65535)
    (hscan : scanBack m n2o.reverse none = .ok lastGid)
    (hmc : p.mapCount = mapCountOf lastGid)
    (hremap : remap p m n2o om ims = .ok p') :
    (∀ q ∈ n2o, ∃ o i, mapGet m q.2 = some (o, i)) ∧
    (n2o ≠ [] → (∀ q ∈ n2o, ∀ o i, mapGet m q.2 = some (o, i) → o < ims.length) → p'.output ≠ []) := by
  by_cases hne : n2o = []
  · subst hne; exact ⟨(fun q hq => by cases hq), fun h => absurd rfl h⟩
  obtain ⟨pre, x, suf, val, out, mx, hl, _, hp', _, _, hval, _, hsome, hlook⟩ :=
    remap_facts m n2o om ims p p' lastGid hpw hnew hscan hmc hremap hne
  constructor
  · intro q hq
    rw [hl] at hq
    rcases List.mem_append.mp hq with h | h
    · exact hsome q (by simp [h])
    · exact ⟨val.1, val.2, hval q h⟩
  · intro _ hol
    obtain ⟨o, i, hx⟩ := hsome x (by simp)
    have := (hlook x (by simp) o i hx (hol x (by rw [hl]; simp) o i hx)).2.2
    rw [hp']
    intro he
    simp only [] at he
    rw [he] at this
    simp at this

/-- **(d) the DeltaSetIndexMap rewrite**: reading the written map at the new gid of any kept glyph
gives `(outer_map[o], inner_maps[o][i])` where `(o, i)` is what the original map (or the implicit
`gid ↦ (0, gid)` rule) gives for the old gid — including the glyphs beyond the trimmed `map_count`,
which reuse the last written entry. -/
theorem map_rewrite (m : Option MapIn) (n2o : List (Nat × Nat)) (om : List Nat) (ims : List (List Nat))
    (p p' : MapPlan) (mo : MapOut) (lastGid : Option Nat)
    (hpw : n2o.Pairwise (fun a b => a.1 < b.1)) (hnew : ∀ q ∈ n2o, q.1 < 65535)
    (hscan : scanBack m n2o.reverse none = .ok lastGid)
    (hmc : p.mapCount = mapCountOf lastGid)
    (hremap : remap p m n2o om ims = .ok p') (hser : serializeMap p' = .ok mo)
    (hom : om.Pairwise (· < ·))
    (houter : ∀ q ∈ n2o, ∀ outer inner, mapGet m q.2 = some (outer, inner) →
      outer < ims.length ∧ outer < 2 ^ p.outerBits ∧ outer < 65536)
    (hims : ∀ im ∈ ims, im.length ≤ 65536) :
    ∀ q ∈ n2o, ∀ outer inner, mapGet m q.2 = some (outer, inner) →
      outer ∈ om ∧ inner ∈ ims.getD outer [] ∧
      dsimGet mo.entryFormat mo.mapCount mo.data q.1 =
        some (om.idxOf outer, (ims.getD outer []).idxOf inner) := by
  intro q hq outer inner hget
  have hne : n2o ≠ [] := List.ne_nil_of_mem hq
  obtain ⟨pre, x, suf, val, out, mx, hl, hmc', hp', hpre, hsuf, hval, hsrc, _, hlook⟩ :=
    remap_facts m n2o om ims p p' lastGid hpw hnew hscan hmc hremap hne
  subst hp'
  have hx65 : x.1 < 65535 := hnew x (by rw [hl]; simp)
  have hsub : ∀ a ∈ pre ++ [x], a ∈ n2o := by
    intro a ha; rw [hl]
    rcases List.mem_append.mp ha with h | h
    · simp [h]
    · simp at h; simp [h]
  -- serialisation
  have hmcpos : 0 < ({ p with output := out, innerBits := max (bitLen mx) 1 } : MapPlan).mapCount := by
    simp [hmc']
  obtain ⟨_, hib16, hw4, hef, hmcount, hdata⟩ := serializeMap_ok hser hmcpos
  simp only [mapWidth] at hib16 hw4 hef hdata
  generalize hib : max (bitLen mx) 1 = ib at *
  generalize hwd : (p.outerBits + ib + 7) / 8 = width at *
  have hib1 : 1 ≤ ib := by omega
  have hib2 : ib ≤ 16 := by omega
  have hw1 : 1 ≤ width := by omega
  have hw2 : width ≤ 4 := by omega
  have hw8 : p.outerBits + ib ≤ 8 * width := by omega
  -- every written entry comes from a processed glyph
  have hentry : ∀ g v, out.lookup g = some v →
      v % 65536 < 2 ^ ib ∧ v / 65536 < 65536 ∧ v / 65536 * 2 ^ ib + v % 65536 < 256 ^ width ∧
      (v / 65536 * 2 ^ ib ||| v % 65536) % 4294967296 = v / 65536 * 2 ^ ib + v % 65536 := by
    intro g v hv
    obtain ⟨⟨old, outer', inner', hmem, hmg, ho, hi, hveq⟩, hmxv⟩ := hsrc g v hv
    have ⟨h1, h2, h3⟩ := houter (g, old) (hsub _ hmem) outer' inner' hmg
    have := entry_ok om ims hom hims p.outerBits ib width mx hib.symm hw8 hw2 outer' inner' ho hi h1 h2 h3 v hveq hmxv
    exact ⟨this.2.2.1, this.2.2.2.1, this.2.2.2.2.1, this.2.2.2.2.2⟩
  let dec : Nat → Nat × Nat := fun i =>
    match out.lookup i with
    | none => (0, 0)
    | some v => (v / 65536, v % 65536)
  have hdata' : mo.data = ((List.range p.mapCount).map dec).flatMap
      (fun e => beBytes width (e.1 * 2 ^ ib + e.2)) := by
    rw [hdata, flatMap_map']
    apply flatMap_congr'
    intro i _
    simp only [dec]
    cases hlk : out.lookup i with
    | none => simp [beBytes_zero]
    | some v =>
      obtain ⟨_, _, _, h8⟩ := hentry i v hlk
      simp only [h8]
  have hfit : ∀ e ∈ (List.range p.mapCount).map dec,
      e.2 < 2 ^ ib ∧ e.1 < 65536 ∧ e.1 * 2 ^ ib + e.2 < 256 ^ width := by
    intro e he
    obtain ⟨i, _, rfl⟩ := List.mem_map.mp he
    simp only [dec]
    cases hlk : out.lookup i with
    | none => simp; exact ⟨Nat.two_pow_pos _, Nat.pow_pos (by omega)⟩
    | some v =>
      obtain ⟨h5, h6, h7, _⟩ := hentry i v hlk
      exact ⟨h5, h6, h7⟩
  have hefmt : mo.entryFormat = (width - 1) * 16 + (ib - 1) := by
    rw [hef, Nat.mod_eq_of_lt (by omega)]
    have := mul_add_eq_or (k := 4) (b := ib - 1) (by omega) (width - 1)
    simpa using this.symm
  have hlen : ((List.range p.mapCount).map dec).length = p.mapCount := by simp
  have hmcount2 : mo.mapCount = p.mapCount := hmcount
  have hget' := dsimGet_packed width ib (by omega) hib1 hib2 ((List.range p.mapCount).map dec) hfit q.1
    (by rw [hlen]; omega)
  rw [hlen] at hget'
  have hgoal : dsimGet mo.entryFormat mo.mapCount mo.data q.1 =
      ((List.range p.mapCount).map dec)[min q.1 (p.mapCount - 1)]? := by
    rw [hefmt, hmcount2, hdata']; exact hget'
  rw [hgoal]
  -- which entry is read
  have hread : ∀ (a : Nat × Nat), a ∈ pre ++ [x] → mapGet m a.2 = some (outer, inner) →
      outer ∈ om ∧ inner ∈ ims.getD outer [] ∧
      ((List.range p.mapCount).map dec)[a.1]? = some (om.idxOf outer, (ims.getD outer []).idxOf inner) := by
    intro a ha hga
    have ⟨h1, _, _⟩ := houter a (hsub a ha) outer inner hga
    obtain ⟨ho, hi, hlk⟩ := hlook a ha outer inner hga h1
    have ha1 : a.1 < p.mapCount := by
      rcases List.mem_append.mp ha with h | h
      · have := hpre a h; omega
      · simp at h; subst h; omega
    refine ⟨ho, hi, ?_⟩
    rw [List.getElem?_map, List.getElem?_range ha1]
    simp only [Option.map_some, dec, hlk]
    have hmem : ims.getD outer [] ∈ ims := by
      rw [List.getD_eq_getElem?_getD, List.getElem?_eq_getElem h1]; simp
    have hni : (ims.getD outer []).idxOf inner < 65536 := by
      have := List.idxOf_lt_length_iff.mpr hi
      have := hims _ hmem
      omega
    have ⟨d1, d2⟩ := or_decode (om.idxOf outer) _ hni
    rw [d1, d2]
  rw [hl] at hq
  rcases List.mem_append.mp hq with hqp | hqx
  · have hq1 := hpre q hqp
    have : min q.1 (p.mapCount - 1) = q.1 := by omega
    rw [this]
    exact hread q (by simp [hqp]) hget
  · rcases List.mem_cons.mp hqx with rfl | hqs
    · have : min q.1 (p.mapCount - 1) = q.1 := by omega
      rw [this]
      exact hread q (by simp) hget
    · have hq1 := hsuf q hqs
      have : min q.1 (p.mapCount - 1) = x.1 := by omega
      rw [this]
      have hvx := hval x (by simp)
      have hvq := hval q (by simp [hqs])
      rw [hget] at hvq
      rw [← hvq] at hvx
      exact hread x (by simp) hvx


/-! ## S. `ItemVariationStore::subset` -/

theorem collectRegionRefs_sorted (st : SubTable) (keys : List Nat) (acc : List Nat)
    (h : acc.Pairwise (· < ·)) : (collectRegionRefs st keys acc).Pairwise (· < ·) := by
  unfold collectRegionRefs
  split
  · exact h
  · generalize st.regionIndexes.zipIdx = l
    induction l generalizing acc with
    | nil => simpa using h
    | cons x l ih =>
      simp only [List.foldl_cons]
      apply ih
      split
      · exact h
      · split
        · exact sorted_setInsert _ h
        · exact h

theorem collectAll_sorted : ∀ (subs : List SubIn) (ims : List (List Nat)) (acc r : List Nat),
    acc.Pairwise (· < ·) → collectAll subs ims acc = .ok r → r.Pairwise (· < ·) := by
  intro subs ims
  induction ims generalizing subs with
  | nil =>
    intro acc r h hr
    simp only [collectAll, pure, Except.pure, Except.ok.injEq] at hr
    subst hr; exact h
  | cons im ims ih =>
    intro acc r h hr
    cases subs with
    | nil => simp [collectAll] at hr
    | cons s ss =>
      cases s with
      | ok st =>
        simp only [collectAll] at hr
        exact ih ss _ r (collectRegionRefs_sorted st im acc h) hr
      | null =>
        simp only [collectAll] at hr
        exact ih ss _ r h hr
      | bad => simp [collectAll] at hr

theorem subsetStore_ok {axisCount : Nat} {regions : List (List (Int × Int × Int))} {subs : List SubIn}
    {ims : List (List Nat)} {so : StoreOut} (h : subsetStore axisCount regions subs ims = .ok so) :
    so.regionMap.Pairwise (· < ·) ∧ (∀ x ∈ so.regionMap, x < regions.length) ∧
    so.regions = so.regionMap.map (fun r => regions.getD r []) ∧
    subsetSubs so.regionMap subs ims = .ok so.subs := by
  unfold subsetStore at h
  by_cases c0 : ims.isEmpty = true
  · simp [c0, bind, Except.bind, throw, throwThe, MonadExceptOf.throw] at h
  · simp only [c0, bind, Except.bind, pure, Except.pure, Bool.false_eq_true, if_false] at h
    cases hrefs : collectAll subs ims [] with
    | error e => rw [hrefs] at h; cases h
    | ok refs =>
      rw [hrefs] at h
      simp only [] at h
      by_cases c1 : (refs.filter (· < regions.length)).isEmpty = true
      · simp [c1, throw, throwThe, MonadExceptOf.throw] at h
      · simp only [c1, Bool.false_eq_true, if_false] at h
        cases hsubs : subsetSubs (refs.filter (· < regions.length)) subs ims with
        | error e => rw [hsubs] at h; cases h
        | ok outSubs =>
          rw [hsubs] at h
          simp only [] at h
          by_cases c2 : outSubs.isEmpty = true
          · simp [c2, throw, throwThe, MonadExceptOf.throw] at h
          · simp only [c2, Bool.false_eq_true, if_false, Except.ok.injEq] at h
            subst h
            have hs := collectAll_sorted subs ims [] refs List.Pairwise.nil hrefs
            refine ⟨List.Pairwise.filter _ hs, ?_, rfl, hsubs⟩
            intro x hx
            simpa using (List.mem_filter.mp hx).2

/-- the number of retained subtables before subtable `j`. -/
def usedBefore : List (List Nat) → Nat → Nat
  | _, 0 => 0
  | [], _ + 1 => 0
  | im :: ims, j + 1 => (if im.length = 0 then 0 else 1) + usedBefore ims j

/-- the outer indices of the retained subtables, ascending (shifted by `k`). -/
def usedList : List (List Nat) → Nat → List Nat
  | [], _ => []
  | im :: ims, k => if im.length = 0 then usedList ims (k + 1) else k :: usedList ims (k + 1)

theorem mem_usedList : ∀ (ims : List (List Nat)) (k j : Nat),
    j ∈ usedList ims k ↔ k ≤ j ∧ j - k < ims.length ∧ (ims.getD (j - k) []).length ≠ 0 := by
  intro ims
  induction ims with
  | nil => intro k j; simp [usedList]
  | cons im ims ih =>
    intro k j
    unfold usedList
    have hrec := ih (k + 1) j
    by_cases him : im.length = 0
    · simp only [him, if_true, hrec]
      constructor
      · rintro ⟨h1, h2, h3⟩
        have e : j - k = (j - (k + 1)) + 1 := by omega
        refine ⟨by omega, by simp; omega, ?_⟩
        rw [e]; simpa using h3
      · rintro ⟨h1, h2, h3⟩
        have hne : j ≠ k := by
          intro e; subst e; simp [him] at h3
        have e : j - k = (j - (k + 1)) + 1 := by omega
        rw [e] at h3 h2
        exact ⟨by omega, by simpa using h2, by simpa using h3⟩
    · simp only [him, if_false, List.mem_cons, hrec]
      constructor
      · rintro (rfl | ⟨h1, h2, h3⟩)
        · simp [him]
        · have e : j - k = (j - (k + 1)) + 1 := by omega
          refine ⟨by omega, by simp; omega, ?_⟩
          rw [e]; simpa using h3
      · rintro ⟨h1, h2, h3⟩
        by_cases hjk : j = k
        · exact Or.inl hjk
        · right
          have e : j - k = (j - (k + 1)) + 1 := by omega
          rw [e] at h3 h2
          exact ⟨by omega, by simpa using h2, by simpa using h3⟩

theorem usedList_sorted : ∀ (ims : List (List Nat)) (k : Nat), (usedList ims k).Pairwise (· < ·) := by
  intro ims
  induction ims with
  | nil => intro k; simp [usedList]
  | cons im ims ih =>
    intro k
    unfold usedList
    split
    · exact ih (k + 1)
    · refine List.pairwise_cons.mpr ⟨?_, ih (k + 1)⟩
      intro b hb
      have := (mem_usedList ims (k + 1) b).mp hb
      omega

theorem idxOf_usedList : ∀ (ims : List (List Nat)) (k j : Nat), j ∈ usedList ims k →
    (usedList ims k).idxOf j = usedBefore ims (j - k) := by
  intro ims
  induction ims with
  | nil => intro k j h; simp [usedList] at h
  | cons im ims ih =>
    intro k j h
    have hm := (mem_usedList (im :: ims) k j).mp h
    unfold usedList at h ⊢
    by_cases him : im.length = 0
    · simp only [him, if_true] at h ⊢
      have hk := (mem_usedList ims (k + 1) j).mp h
      have e : j - k = (j - (k + 1)) + 1 := by omega
      rw [ih (k + 1) j h, e, usedBefore]; simp [him]
    · simp only [him, if_false] at h ⊢
      rw [List.idxOf_cons]
      by_cases hjk : k = j
      · subst hjk; simp [usedBefore]
      · have hb : (k == j) = false := by simp [hjk]
        rw [hb]; simp only [cond_false]
        have h' : j ∈ usedList ims (k + 1) := by
          rcases List.mem_cons.mp h with e | h'
          · exact absurd e.symm hjk
          · exact h'
        have hk := (mem_usedList ims (k + 1) j).mp h'
        have e : j - k = (j - (k + 1)) + 1 := by omega
        rw [ih (k + 1) j h', e, usedBefore]; simp [him]; omega

/-- **(c) outer renumbering**: a sorted outer map whose members are exactly the subtables with a
non-empty inner map sends each of them to its position in the written array. -/
theorem idxOf_eq_usedBefore (om : List Nat) (ims : List (List Nat)) (hs : om.Pairwise (· < ·))
    (hm : ∀ j, j ∈ om ↔ j < ims.length ∧ (ims.getD j []).length ≠ 0) (j : Nat) (hj : j ∈ om) :
    om.idxOf j = usedBefore ims j := by
  have e : om = usedList ims 0 := by
    apply sorted_ext hs (usedList_sorted ims 0)
    intro x
    rw [hm, mem_usedList]; simp
  rw [e] at hj ⊢
  have := idxOf_usedList ims 0 j hj
  simpa using this

/-- which written subtable an old subtable with a non-empty inner map becomes. -/
theorem subsetSubs_get (rm : List Nat) : ∀ (ims : List (List Nat)) (subs : List SubIn)
    (outs : List SubTable), subsetSubs rm subs ims = .ok outs →
    ∀ j im, ims[j]? = some im → im.length ≠ 0 →
      ∃ st o, subs[j]? = some (SubIn.ok st) ∧ subsetVarData st im rm = .ok o ∧
        outs[usedBefore ims j]? = some o := by
  intro ims
  induction ims with
  | nil => intro subs outs _ j im h; simp at h
  | cons i0 ims ih =>
    intro subs outs h j im hj him
    cases subs with
    | nil =>
      rw [subsetSubs] at h
      split at h
      · rename_i h0
        cases j with
        | zero => simp at hj; subst hj; exact absurd h0 him
        | succ j =>
          obtain ⟨st, o, h1, _⟩ := ih [] outs h j im (by simpa using hj) him
          simp at h1
      · cases h
    | cons s ss =>
      have hskip : i0.length = 0 → subsetSubs rm ss ims = .ok outs := by
        intro h0
        cases s <;> simpa [subsetSubs, h0] using h
      by_cases h0 : i0.length = 0
      · cases j with
        | zero => simp at hj; subst hj; exact absurd h0 him
        | succ j =>
          obtain ⟨st, o, h1, h2, h3⟩ := ih ss outs (hskip h0) j im (by simpa using hj) him
          refine ⟨st, o, by simpa using h1, h2, ?_⟩
          rw [usedBefore]; simp [h0, h3]
      · cases s with
        | ok st =>
          simp only [subsetSubs, h0, if_false, bind, Except.bind, pure, Except.pure] at h
          split at h
          · cases h
          · rename_i o ho
            split at h
            · cases h
            · rename_i rest hrest
              simp only [Except.ok.injEq] at h
              subst h
              cases j with
              | zero =>
                simp at hj; subst hj
                exact ⟨st, o, by simp, ho, by simp [usedBefore]⟩
              | succ j =>
                obtain ⟨st', o', h1, h2, h3⟩ := ih ss rest hrest j im (by simpa using hj) him
                refine ⟨st', o', by simpa using h1, h2, ?_⟩
                rw [usedBefore]; simp only [h0, if_false]
                rw [Nat.add_comm]; simpa using h3
        | null => simp [subsetSubs, h0, throw, throwThe, MonadExceptOf.throw] at h
        | bad => simp [subsetSubs, h0, throw, throwThe, MonadExceptOf.throw] at h


/-! ## P. `HvarVvarSubsetPlan::new`: the outer map names exactly the subtables with retained rows -/

def AccInv (acc : Acc) : Prop := ∀ j, j ∈ acc.outerMap ↔ acc.innerSets.getD j [] ≠ []

theorem getD_modify (l : List (List Nat)) (i j : Nat) (f : List Nat → List Nat) (hi : i < l.length) :
    (l.modify i f).getD j [] = if i = j then f (l.getD i []) else l.getD j [] := by
  rw [List.getD_eq_getElem?_getD, List.getElem?_modify]
  by_cases hij : i = j
  · subst hij
    simp [List.getD_eq_getElem?_getD, List.getElem?_eq_getElem hi]
  · simp only [hij, if_false]
    rw [List.getD_eq_getElem?_getD]
    cases l[j]? <;> simp

theorem setInsert_ne_nil (x : Nat) (s : List Nat) : setInsert x s ≠ [] := by
  intro h
  have : x ∈ setInsert x s := mem_setInsert.mpr (Or.inl rfl)
  rw [h] at this; cases this

theorem collectFwd_inv (m : MapIn) (mc : Nat) : ∀ (l : List (Nat × Nat)) (acc : Acc) (mi : List Nat)
    (acc' : Acc) (mi' : List Nat), AccInv acc → mi.length = acc.innerSets.length →
    collectFwd m mc l acc mi = .ok (acc', mi') →
    AccInv acc' ∧ acc'.innerSets.length = acc.innerSets.length ∧
      (∀ j ∈ acc.outerMap, j ∈ acc'.outerMap) := by
  intro l
  induction l with
  | nil =>
    intro acc mi acc' mi' hinv hlen h
    simp only [collectFwd, pure, Except.pure, Except.ok.injEq, Prod.mk.injEq] at h
    obtain ⟨rfl, rfl⟩ := h
    exact ⟨hinv, rfl, fun j hj => hj⟩
  | cons x rest ih =>
    intro acc mi acc' mi' hinv hlen h
    obtain ⟨new, old⟩ := x
    rw [collectFwd] at h
    split at h
    · simp only [pure, Except.pure, Except.ok.injEq, Prod.mk.injEq] at h
      obtain ⟨rfl, rfl⟩ := h
      exact ⟨hinv, rfl, fun j hj => hj⟩
    · split at h
      · cases h
      · rename_i outer inner hget
        split at h
        · simp only [pure, Except.pure, Except.ok.injEq, Prod.mk.injEq] at h
          obtain ⟨rfl, rfl⟩ := h
          exact ⟨hinv, rfl, fun j hj => hj⟩
        · rename_i hout
          have hol : outer < acc.innerSets.length := by omega
          have hinv' : AccInv (⟨bmAdd acc.outerMap outer,
              acc.innerSets.modify outer (setInsert inner)⟩ : Acc) := by
            intro j
            simp only [mem_bmAdd]
            rw [getD_modify _ _ _ _ hol]
            by_cases hj : outer = j
            · subst hj
              simp only [if_true]
              constructor
              · intro _; exact setInsert_ne_nil _ _
              · intro _; exact Or.inr trivial
            · simp only [hj, if_false]
              rw [← hinv j]
              constructor
              · rintro (h1 | h1)
                · exact h1
                · exact absurd h1.symm hj
              · intro h1; exact Or.inl h1
          have := ih _ _ acc' mi' hinv' (by simp [List.length_modify]; omega) h
          refine ⟨this.1, by rw [this.2.1]; simp [List.length_modify], ?_⟩
          intro j hj
          exact this.2.2 j (mem_bmAdd.mpr (Or.inl hj))

/-- what `new` fixes about the plan of one map. -/
def PlanFacts (m : Option MapIn) (n2o : List (Nat × Nat)) (bypass : Bool) (p : MapPlan) : Prop :=
  (bypass = true ∧ m = none ∧ p.mapCount = 0 ∧ p.output = []) ∨
  (¬ (bypass = true ∧ m = none) ∧ ∃ lastGid, scanBack m n2o.reverse none = .ok lastGid ∧
    p.mapCount = mapCountOf lastGid ∧ p.outerBits = outerBitsOf m ∧ p.output = [])

theorem scanBack_none_ne (n2o : List (Nat × Nat)) (hne : n2o ≠ []) (r : Option Nat)
    (h : scanBack none n2o.reverse none = .ok r) : r ≠ none := by
  rcases scanBack_spec none n2o r h with ⟨h1, _⟩ | ⟨_, x, _, _, _, hr, _⟩
  · exact absurd h1 hne
  · rw [hr]; simp

theorem planNew_inv (m : Option MapIn) (n2o : List (Nat × Nat)) (glyphset : List Nat) (bypass : Bool)
    (acc : Acc) (p : MapPlan) (acc' : Acc) (hinv : AccInv acc) (hgs : n2o ≠ [] → glyphset ≠ [])
    (h : planNew m n2o glyphset bypass acc = .ok (p, acc')) :
    AccInv acc' ∧ acc'.innerSets.length = acc.innerSets.length ∧
    (∀ j ∈ acc.outerMap, j ∈ acc'.outerMap) ∧ PlanFacts m n2o bypass p ∧
    (m = none → bypass = false → n2o ≠ [] → 0 ∈ acc'.outerMap) := by
  unfold planNew at h
  split at h
  · rename_i hb
    simp only [pure, Except.pure, Except.ok.injEq, Prod.mk.injEq] at h
    obtain ⟨rfl, rfl⟩ := h
    simp only [Bool.and_eq_true, Option.isNone_iff_eq_none] at hb
    refine ⟨hinv, rfl, fun j hj => hj, Or.inl ⟨hb.1, hb.2, rfl, rfl⟩, ?_⟩
    intro _ hb2; rw [hb.1] at hb2; cases hb2
  · rename_i hnb0
    have hexcl : ¬ (bypass = true ∧ m = none) := by
      intro hc; apply hnb0; simp [hc.1, hc.2]
    simp only [] at h
    split at h
    · cases h
    · -- nothing retained
      rename_i hscan
      simp only [pure, Except.pure, Except.ok.injEq, Prod.mk.injEq] at h
      obtain ⟨rfl, rfl⟩ := h
      refine ⟨hinv, rfl, fun j hj => hj, Or.inr ⟨hexcl, none, hscan, rfl, ?_, rfl⟩, ?_⟩
      · cases m <;> rfl
      · intro hm _ hne
        subst hm
        exact absurd rfl (scanBack_none_ne n2o hne none hscan)
    · rename_i lg hscan
      split at h
      · -- implicit advance map
        split at h
        · rename_i s0 ss last hsets hlast
          simp only [pure, Except.pure, Except.ok.injEq, Prod.mk.injEq] at h
          obtain ⟨rfl, rfl⟩ := h
          have hne : n2o ≠ [] := by
            intro e; subst e; simp at hlast
          have hg := hgs hne
          refine ⟨?_, by simp [hsets], fun j hj => mem_bmAdd.mpr (Or.inl hj),
            Or.inr ⟨hexcl, some lg, hscan, rfl, rfl, rfl⟩, fun _ _ _ => mem_bmAdd.mpr (Or.inr rfl)⟩
          intro j
          simp only [mem_bmAdd]
          cases j with
          | zero =>
            simp only [List.getD_cons_zero]
            constructor
            · intro _ he
              obtain ⟨g, l', gs⟩ := List.exists_cons_of_ne_nil hg
              have : g % 65536 ∈ setAddAll s0 (glyphset.map (· % 65536)) := by
                rw [mem_setAddAll]; right; rw [gs]; simp
              rw [he] at this; cases this
            · intro _; simp
          | succ j =>
            have := hinv (j + 1)
            rw [hsets] at this
            simp only [List.getD_cons_succ] at this ⊢
            rw [← this]
            constructor
            · rintro (h1 | h1)
              · exact h1
              · cases h1
            · intro h1; exact Or.inl h1
        · cases h
      · rename_i mm
        split at h
        · cases h
        · rename_i acc2 mi hcf
          simp only [pure, Except.pure, Except.ok.injEq, Prod.mk.injEq] at h
          obtain ⟨rfl, rfl⟩ := h
          have := collectFwd_inv mm _ n2o acc _ acc2 mi hinv (by simp) hcf
          refine ⟨this.1, this.2.1, this.2.2, Or.inr ⟨hexcl, some lg, hscan, rfl, rfl, rfl⟩, ?_⟩
          intro hm; cases hm

theorem planRest_inv (n2o : List (Nat × Nat)) (glyphset : List Nat) (hgs : n2o ≠ [] → glyphset ≠ []) :
    ∀ (ms : List (Option MapIn)) (acc : Acc) (ps : List MapPlan) (acc' : Acc), AccInv acc →
    planRest n2o glyphset ms acc = .ok (ps, acc') →
    AccInv acc' ∧ acc'.innerSets.length = acc.innerSets.length ∧
    (∀ j ∈ acc.outerMap, j ∈ acc'.outerMap) ∧ ps.length = ms.length ∧
    (∀ (k : Nat) (m : Option MapIn) (p : MapPlan), ms[k]? = some m → ps[k]? = some p →
      PlanFacts m n2o true p) := by
  intro ms
  induction ms with
  | nil =>
    intro acc ps acc' hinv h
    simp only [planRest, pure, Except.pure, Except.ok.injEq, Prod.mk.injEq] at h
    obtain ⟨rfl, rfl⟩ := h
    exact ⟨hinv, rfl, fun j hj => hj, rfl, fun k m p hm => by simp at hm⟩
  | cons m ms ih =>
    intro acc ps acc' hinv h
    rw [planRest] at h
    split at h
    · cases h
    · rename_i p acc1 hp
      split at h
      · cases h
      · rename_i ps' acc2 hrest
        simp only [pure, Except.pure, Except.ok.injEq, Prod.mk.injEq] at h
        obtain ⟨rfl, rfl⟩ := h
        have h1 := planNew_inv m n2o glyphset true acc p acc1 hinv hgs hp
        have h2 := ih acc1 ps' acc2 h1.1 hrest
        refine ⟨h2.1, by rw [h2.2.1, h1.2.1], fun j hj => h2.2.2.1 j (h1.2.2.1 j hj),
          by simp [h2.2.2.2.1], ?_⟩
        intro k m' p' hm hp'
        cases k with
        | zero =>
          simp at hm hp'; subst hm; subst hp'
          exact h1.2.2.2.1
        | succ k => exact h2.2.2.2.2 k m' p' (by simpa using hm) (by simpa using hp')

theorem remapAll_get (n2o : List (Nat × Nat)) (om : List Nat) (ims : List (List Nat)) :
    ∀ (ps : List MapPlan) (ms : List (Option MapIn)) (out : List MapPlan),
    remapAll n2o om ims ps ms = .ok out → ps.length = ms.length →
    out.length = ps.length ∧
    ∀ (k : Nat) (p : MapPlan) (m : Option MapIn), ps[k]? = some p → ms[k]? = some m →
      ∃ p', remap p m n2o om ims = .ok p' ∧ out[k]? = some p' := by
  intro ps
  induction ps with
  | nil =>
    intro ms out h _
    simp only [remapAll, pure, Except.pure, Except.ok.injEq] at h
    subst h; exact ⟨rfl, fun k p m hp => by simp at hp⟩
  | cons p ps ih =>
    intro ms out h hlen
    cases ms with
    | nil => simp at hlen
    | cons m ms =>
      rw [remapAll] at h
      split at h
      · cases h
      · rename_i p' hp'
        split at h
        · cases h
        · rename_i ps' hps'
          simp only [pure, Except.pure, Except.ok.injEq] at h
          subst h
          have := ih ms ps' hps' (by simpa using hlen)
          refine ⟨by simp [this.1], ?_⟩
          intro k q mm hq hmm
          cases k with
          | zero =>
            simp at hq hmm; subst hq; subst hmm
            exact ⟨p', hp', by simp⟩
          | succ k =>
            obtain ⟨q', h1, h2⟩ := this.2 k q mm (by simpa using hq) (by simpa using hmm)
            exact ⟨q', h1, by simpa using h2⟩

theorem serializeMaps_get : ∀ (ps : List MapPlan) (out : List (Option MapOut)),
    serializeMaps ps = .ok out → out.length = ps.length ∧
    ∀ (k : Nat) (p : MapPlan), ps[k]? = some p →
      (p.output = [] ∧ out[k]? = some none) ∨
      (p.output ≠ [] ∧ ∃ mo, serializeMap p = .ok mo ∧ out[k]? = some (some mo)) := by
  intro ps
  induction ps with
  | nil =>
    intro out h
    simp only [serializeMaps, pure, Except.pure, Except.ok.injEq] at h
    subst h; exact ⟨rfl, fun k p hp => by simp at hp⟩
  | cons p ps ih =>
    intro out h
    rw [serializeMaps] at h
    split at h
    · rename_i hemp
      cases hrest : serializeMaps ps with
      | error e => rw [hrest] at h; cases h
      | ok rest =>
        rw [hrest] at h
        simp only [Except.map, Except.ok.injEq] at h
        subst h
        have := ih rest hrest
        refine ⟨by simp [this.1], ?_⟩
        intro k q hq
        cases k with
        | zero =>
          simp at hq; subst hq
          exact Or.inl ⟨by simpa using hemp, by simp⟩
        | succ k =>
          rcases this.2 k q (by simpa using hq) with h1 | ⟨h1, mo, h2, h3⟩
          · exact Or.inl ⟨h1.1, by simpa using h1.2⟩
          · exact Or.inr ⟨h1, mo, h2, by simpa using h3⟩
    · rename_i hemp
      split at h
      · cases h
      · rename_i mo hmo
        cases hrest : serializeMaps ps with
        | error e => rw [hrest] at h; cases h
        | ok rest =>
          rw [hrest] at h
          simp only [Except.map, Except.ok.injEq] at h
          subst h
          have := ih rest hrest
          refine ⟨by simp [this.1], ?_⟩
          intro k q hq
          cases k with
          | zero =>
            simp at hq; subst hq
            exact Or.inr ⟨by simpa using hemp, mo, hmo, by simp⟩
          | succ k =>
            rcases this.2 k q (by simpa using hq) with h1 | ⟨h1, mo', h2, h3⟩
            · exact Or.inl ⟨h1.1, by simpa using h1.2⟩
            · exact Or.inr ⟨h1, mo', h2, by simpa using h3⟩


theorem bmFrom_eq_nil {s : List Nat} : bmFrom s = [] ↔ s = [] := by
  constructor
  · intro h
    cases s with
    | nil => rfl
    | cons a s =>
      have : a ∈ bmFrom (a :: s) := mem_bmFrom.mpr (by simp)
      rw [h] at this; cases this
  · intro h; subst h; rfl

theorem ne_nil_iff_exists_mem {l : List Nat} : l ≠ [] ↔ ∃ x, x ∈ l := by
  cases l with
  | nil => simp
  | cons a l => simp

theorem remap_zero {p p' : MapPlan} {m : Option MapIn} {n2o : List (Nat × Nat)} {om : List Nat}
    {ims : List (List Nat)} (h0 : p.mapCount = 0) (hout : p.output = [])
    (h : remap p m n2o om ims = .ok p') : p'.output = [] := by
  unfold remap at h
  have : remapGo m p.mapCount om ims n2o [] 0 = .ok ([], 0) := by
    cases n2o with
    | nil => rfl
    | cons x r => obtain ⟨a, b⟩ := x; simp [remapGo, h0, pure, Except.pure]
  rw [this] at h
  simp only [bind, Except.bind, pure, Except.pure, Except.ok.injEq] at h
  rw [← h]

/-- what a successful `HvarVvarSubsetPlan::new` provides. -/
theorem subsetPlan_ok {vc : Nat} {maps : List (Option MapIn)} {n2o : List (Nat × Nat)}
    {glyphset : List Nat} {retain : Bool} {sp : SubsetPlan}
    (h : subsetPlan vc maps n2o glyphset retain = .ok sp) (hgs : n2o ≠ [] → glyphset ≠ []) :
    0 < vc ∧ sp.innerMaps.length = vc ∧ sp.outerMap.Pairwise (· < ·) ∧
    (∀ j, j ∈ sp.outerMap ↔ j < sp.innerMaps.length ∧ (sp.innerMaps.getD j []).length ≠ 0) ∧
    (∀ (k : Nat) (m : Option MapIn), maps[k]? = some m →
      ∃ p p', PlanFacts m n2o (k != 0) p ∧ remap p m n2o sp.outerMap sp.innerMaps = .ok p' ∧
        sp.plans[k]? = some p') := by
  unfold subsetPlan at h
  by_cases hvc : vc = 0
  · simp [hvc, throw, throwThe, MonadExceptOf.throw] at h
  simp only [hvc, if_false] at h
  cases maps with
  | nil => simp [throw, throwThe, MonadExceptOf.throw] at h
  | cons m0 ms =>
  simp only [] at h
  cases hp0 : planNew m0 n2o glyphset false ⟨[], List.replicate vc []⟩ with
  | error e => rw [hp0] at h; cases h
  | ok r0 =>
  obtain ⟨p0, acc1⟩ := r0
  rw [hp0] at h
  simp only [] at h
  cases hps : planRest n2o glyphset ms acc1 with
  | error e => rw [hps] at h; cases h
  | ok r1 =>
  obtain ⟨ps, acc2⟩ := r1
  rw [hps] at h
  simp only [] at h
  cases hplans : remapAll n2o (bmSort acc2.outerMap)
      ((if (m0.isNone && retain) = true then
          (acc2.innerSets.headD []).foldl bmAdd (bmFrom (n2o.map (·.2)))
        else (setSubtract (acc2.innerSets.headD [])
            (if m0.isNone = true then acc1.innerSets.headD [] else [])).foldl bmAdd
          (bmFrom (if m0.isNone = true then acc1.innerSets.headD [] else []))) ::
        acc2.innerSets.tail.map bmFrom) (p0 :: ps) (m0 :: ms) with
  | error e => rw [hplans] at h; cases h
  | ok plans =>
  rw [hplans] at h
  simp only [pure, Except.pure, Except.ok.injEq] at h
  subst h
  simp only []
  -- invariants
  have hinv0 : AccInv ⟨[], List.replicate vc []⟩ := by
    intro j
    have e : (List.replicate vc ([] : List Nat)).getD j [] = [] := by
      rw [List.getD_eq_getElem?_getD, List.getElem?_replicate]
      split <;> rfl
    constructor
    · intro hc; cases hc
    · intro hc; exact absurd e hc
  obtain ⟨hinv1, hlen1, _, hpf0, hzero1⟩ := planNew_inv m0 n2o glyphset false _ p0 acc1 hinv0 hgs hp0
  obtain ⟨hinv2, hlen2, hmono2, hpslen, hpfs⟩ := planRest_inv n2o glyphset hgs ms acc1 ps acc2 hinv1 hps
  have hl2 : acc2.innerSets.length = vc := by rw [hlen2, hlen1]; simp
  obtain ⟨s0, ss, hsets⟩ : ∃ s0 ss, acc2.innerSets = s0 :: ss := by
    cases hc : acc2.innerSets with
    | nil => rw [hc] at hl2; simp at hl2; omega
    | cons a b => exact ⟨a, b, rfl⟩
  have hset0 : acc2.innerSets.headD [] = s0 := by rw [hsets]; rfl
  have hin0 : 0 ∈ acc2.outerMap ↔ s0 ≠ [] := by
    have := hinv2 0; rw [hsets] at this; simpa using this
  refine ⟨by omega, by simp [hsets] at hl2 ⊢; omega, sorted_bmSort _, ?_, ?_⟩
  · -- membership
    intro j
    rw [mem_bmSort]
    cases j with
    | zero =>
      simp only [List.getD_cons_zero, List.length_cons, Nat.zero_lt_succ, true_and]
      rw [hin0, hset0]
      rw [show ∀ (l : List Nat), (l.length ≠ 0 ↔ l ≠ []) from fun l => by cases l <;> simp]
      rw [ne_nil_iff_exists_mem, ne_nil_iff_exists_mem]
      constructor
      · rintro ⟨x, hx⟩
        refine ⟨x, ?_⟩
        split
        · rw [mem_foldl_bmAdd]; exact Or.inr hx
        · rw [mem_foldl_bmAdd, mem_bmFrom]
          by_cases hxa : x ∈ (if m0.isNone = true then acc1.innerSets.headD [] else [])
          · exact Or.inl hxa
          · right; unfold setSubtract
            exact List.mem_filter.mpr ⟨hx, decide_eq_true hxa⟩
      · rintro ⟨x, hx⟩
        split at hx
        · rename_i hcond
          simp only [Bool.and_eq_true, Option.isNone_iff_eq_none] at hcond
          rw [mem_foldl_bmAdd, mem_bmFrom] at hx
          rcases hx with hx | hx
          · -- an old gid: the implicit advance map put subtable 0 into the outer map
            have hne : n2o ≠ [] := by
              intro e; subst e; simp at hx
            have h0 := hmono2 0 (hzero1 hcond.1 rfl hne)
            exact ne_nil_iff_exists_mem.mp (hin0.mp h0)
          · exact ⟨x, hx⟩
        · rw [mem_foldl_bmAdd, mem_bmFrom] at hx
          rcases hx with hx | hx
          · split at hx
            · have h1 : acc1.innerSets.getD 0 [] ≠ [] := by
                have : acc1.innerSets.headD [] = acc1.innerSets.getD 0 [] := by
                  cases acc1.innerSets <;> rfl
                rw [← this]; exact List.ne_nil_of_mem hx
              have h0 := hmono2 0 ((hinv1 0).mpr h1)
              exact ne_nil_iff_exists_mem.mp (hin0.mp h0)
            · cases hx
          · unfold setSubtract at hx
            exact ⟨x, (List.mem_filter.mp hx).1⟩
    | succ i =>
      have hI := hinv2 (i + 1)
      rw [hsets] at hI
      simp only [List.getD_cons_succ] at hI
      rw [hI, hsets]
      simp only [List.tail_cons, List.getD_cons_succ, List.length_cons, List.length_map]
      rw [List.getD_eq_getElem?_getD, List.getD_eq_getElem?_getD, List.getElem?_map]
      by_cases hi : i < ss.length
      · rw [List.getElem?_eq_getElem hi]
        simp only [Option.map_some, Option.getD_some]
        rw [show ∀ (l : List Nat), (l.length ≠ 0 ↔ l ≠ []) from fun l => by cases l <;> simp]
        rw [ne_eq, ne_eq, bmFrom_eq_nil]
        constructor
        · intro h1; exact ⟨by omega, h1⟩
        · intro h1; exact h1.2
      · rw [List.getElem?_eq_none (by omega)]
        simp
  · -- the plans
    have hlen : (p0 :: ps).length = (m0 :: ms).length := by simp [hpslen]
    have hrem := remapAll_get n2o _ _ (p0 :: ps) (m0 :: ms) plans hplans hlen
    intro k m hm
    cases k with
    | zero =>
      simp at hm; subst hm
      obtain ⟨p', h1, h2⟩ := hrem.2 0 p0 m0 (by simp) (by simp)
      exact ⟨p0, p', by simpa using hpf0, h1, h2⟩
    | succ k =>
      have hmk : ms[k]? = some m := by simpa using hm
      have hk : k < ps.length := by
        rw [hpslen]
        rcases Nat.lt_or_ge k ms.length with hc | hc
        · exact hc
        · rw [List.getElem?_eq_none hc] at hmk; cases hmk
      obtain ⟨p', h1, h2⟩ := hrem.2 (k + 1) ps[k] m (by simp [hk]) hm
      refine ⟨ps[k], p', ?_, h1, h2⟩
      have := hpfs k m ps[k] hmk (by simp [hk])
      simpa using this


/-! ## H. composition -/

/-- a readable ItemVariationData holds its delta sets, consists of bytes, has fewer than 2¹⁵ region
indexes, all of them inside the region list. -/
def SubWf (nregions : Nat) : SubIn → Prop
  | .ok st => SubOk st ∧ (∀ b ∈ st.data, b < 256) ∧ st.regionIndexes.length < 32768 ∧
      ∀ ri ∈ st.regionIndexes, ri < nregions
  | _ => True

def outerOk (nsubs : Nat) : Option (Nat × Nat) → Prop
  | some (o, _) => o < nsubs
  | none => True

instance (n : Nat) (r : Option (Nat × Nat)) : Decidable (outerOk n r) := by
  cases r with
  | none => unfold outerOk; infer_instance
  | some p => obtain ⟨o, i⟩ := p; unfold outerOk; infer_instance

/-- a map consists of bytes and its entries for the retained glyphs name existing subtables. -/
def MapWf (nsubs : Nat) (n2o : List (Nat × Nat)) : Option MapIn → Prop
  | some mm => (∀ b ∈ mm.data, b < 256) ∧
      ∀ q ∈ n2o, outerOk nsubs (dsimGet mm.entryFormat mm.mapCount mm.data q.2)
  | none => True

instance (n : Nat) (s : SubIn) : Decidable (SubWf n s) := by
  cases s <;> unfold SubWf <;> try unfold SubOk
  all_goals infer_instance

instance (n : Nat) (l : List (Nat × Nat)) (m : Option MapIn) : Decidable (MapWf n l m) := by
  cases m <;> unfold MapWf <;> infer_instance

/-- the references inside the table resolve and the plan is a plan. -/
structure WellFormed (t : TableIn) : Prop where
  /-- `new_to_old_gid_list` is ascending in the new glyph id -/
  n2oSorted : t.n2o.Pairwise (fun a b => a.1 < b.1)
  newLt : ∀ q ∈ t.n2o, q.1 < 65535
  oldLt : ∀ q ∈ t.n2o, q.2 < 65536
  /-- every retained glyph is in `plan.glyphset` -/
  glyphset : ∀ q ∈ t.n2o, q.2 ∈ t.glyphset
  regions : t.regions.length ≤ 65536
  subs : ∀ s ∈ t.subs, SubWf t.regions.length s
  maps : ∀ m ∈ t.maps, MapWf t.subs.length t.n2o m

/-- no subtable of the subset gets 65536 or more delta sets (its u16 item count does not wrap). -/
def planRowsOkB (t : TableIn) : Bool :=
  match subsetPlan t.subs.length t.maps t.n2o t.glyphset t.retainGids with
  | .ok sp => sp.innerMaps.all (fun im => decide (im.length < 65536))
  | .error _ => true

theorem planRowsOk_of (t : TableIn) (h : planRowsOkB t = true) (sp : SubsetPlan)
    (hsp : subsetPlan t.subs.length t.maps t.n2o t.glyphset t.retainGids = .ok sp) :
    ∀ im ∈ sp.innerMaps, im.length < 65536 := by
  unfold planRowsOkB at h
  rw [hsp] at h
  simp only [List.all_eq_true, decide_eq_true_eq] at h
  exact h

theorem mapGet_bounds (t : TableIn) (wf : WellFormed t) (m : Option MapIn) (hm : m ∈ t.maps)
    (hvc : 0 < t.subs.length) (ob : Nat) (hob : ob = outerBitsOf m) :
    ∀ q ∈ t.n2o, ∀ o i, mapGet m q.2 = some (o, i) → o < t.subs.length ∧ o < 2 ^ ob ∧ o < 65536 := by
  intro q hq o i hg
  cases m with
  | none =>
    simp only [mapGet, Option.some.injEq, Prod.mk.injEq] at hg
    have := wf.oldLt q hq
    have : o = 0 := by omega
    subst this
    exact ⟨hvc, Nat.two_pow_pos _, by omega⟩
  | some mm =>
    simp only [mapGet] at hg
    have hw := wf.maps (some mm) hm
    unfold MapWf at hw
    have h1 : o < t.subs.length := by
      have := hw.2 q hq
      rw [hg] at this
      simpa [outerOk] using this
    have h2 := dsimGet_outer_lt _ _ _ hw.1 _ _ _ hg
    refine ⟨h1, ?_, h2.2.1⟩
    rw [hob]
    simp only [outerBitsOf]
    have e1 : mm.entryFormat % 64 / 16 % 4 = mm.entryFormat / 16 % 4 := by omega
    have e2 : mm.entryFormat % 64 % 16 = mm.entryFormat % 16 := by omega
    rw [e1, e2]; exact h2.1

/-- **(e) end to end**: for a well-formed table and plan, whenever the subsetter produces a table,
every delta the reader computes on it for a retained glyph at its new id — through the rewritten
map, the renumbered subtables, the repacked rows and the pruned region list — equals the delta the
reader computes on the original for the old id, for every map (advance: `advance_delta`, the
others: `item_delta`) and every coordinate vector. -/
theorem subset_preserves_deltas (t : TableIn) (out : TableOut) (h : subsetTable t = .ok out)
    (wf : WellFormed t)
    (hcount : planRowsOkB t = true)
    (k : Nat) (hk : k < t.maps.length) (q : Nat × Nat) (hq : q ∈ t.n2o) (coords : List Int) :
    readerDelta out.store.regions (out.store.subs.map some)
        ((out.maps.getD k none).map MapOut.triple) (k == 0) q.1 coords =
      readerDelta t.regions (t.subs.map SubIn.toReader)
        ((t.maps.getD k none).map MapIn.triple) (k == 0) q.2 coords := by
  unfold subsetTable at h
  cases hsp : subsetPlan t.subs.length t.maps t.n2o t.glyphset t.retainGids with
  | error e => rw [hsp] at h; cases h
  | ok sp =>
  rw [hsp] at h
  simp only [] at h
  cases hso : subsetStore t.axisCount t.regions t.subs sp.innerMaps with
  | error e => rw [hso] at h; cases h
  | ok so =>
  rw [hso] at h
  simp only [] at h
  cases hmos : serializeMaps sp.plans with
  | error e => rw [hmos] at h; cases h
  | ok mos =>
  rw [hmos] at h
  simp only [pure, Except.pure, Except.ok.injEq] at h
  subst h
  simp only []
  have hne : t.n2o ≠ [] := List.ne_nil_of_mem hq
  have hgs : t.n2o ≠ [] → t.glyphset ≠ [] := fun _ => List.ne_nil_of_mem (wf.glyphset q hq)
  obtain ⟨hvc, himl, homs, hommem, hplans⟩ := subsetPlan_ok hsp hgs
  obtain ⟨hrms, hrmlt, hregs, hsubs⟩ := subsetStore_ok hso
  have hcnt := planRowsOk_of t hcount sp hsp
  -- the map
  have hmk : t.maps[k]? = some t.maps[k] := List.getElem?_eq_getElem hk
  obtain ⟨p, p', hpf, hremap, hplan⟩ := hplans k t.maps[k] hmk
  have hmem : t.maps[k] ∈ t.maps := List.getElem_mem hk
  have hgetD : t.maps.getD k none = t.maps[k] := by
    rw [List.getD_eq_getElem?_getD, hmk]; rfl
  rw [hgetD]
  obtain ⟨_, hser⟩ := serializeMaps_get sp.plans mos hmos
  rcases hpf with ⟨hb, hmn, hmc0, hout0⟩ | ⟨hexcl, lastGid, hscan, hmc, hob, hout0⟩
  · -- a side bearing map that does not exist: none in the subset either
    have hp'out := remap_zero hmc0 hout0 hremap
    rcases hser k p' hplan with ⟨_, hmo⟩ | ⟨hne', _⟩
    · have : mos.getD k none = none := by rw [List.getD_eq_getElem?_getD, hmo]; rfl
      rw [this, hmn]
      have hk0 : (k == 0) = false := by simpa using hb
      simp [readerDelta, hk0]
    · exact absurd hp'out hne'
  · have hbounds := mapGet_bounds t wf t.maps[k] hmem hvc p.outerBits hob
    have hlen' : ∀ q ∈ t.n2o, ∀ o i, mapGet t.maps[k] q.2 = some (o, i) → o < sp.innerMaps.length := by
      intro q hq o i hg; rw [himl]; exact (hbounds q hq o i hg).1
    obtain ⟨hdef, hnonempty⟩ := remap_defined t.maps[k] t.n2o sp.outerMap sp.innerMaps p p' lastGid
      wf.n2oSorted wf.newLt hscan hmc hremap
    have hp'ne := hnonempty hne hlen'
    rcases hser k p' hplan with ⟨he, _⟩ | ⟨_, mo, hsermo, hmo⟩
    · exact absurd he hp'ne
    obtain ⟨o, i, hoi⟩ := hdef q hq
    have houter : ∀ q ∈ t.n2o, ∀ outer inner, mapGet t.maps[k] q.2 = some (outer, inner) →
        outer < sp.innerMaps.length ∧ outer < 2 ^ p.outerBits ∧ outer < 65536 := by
      intro q hq o i hg
      have := hbounds q hq o i hg
      exact ⟨by rw [himl]; exact this.1, this.2⟩
    obtain ⟨hoom, hiim, hget⟩ := map_rewrite t.maps[k] t.n2o sp.outerMap sp.innerMaps p p' mo lastGid
      wf.n2oSorted wf.newLt hscan hmc hremap hsermo homs houter
      (fun im him => Nat.le_of_lt (hcnt im him)) q hq o i hoi
    have hmosk : mos.getD k none = some mo := by rw [List.getD_eq_getElem?_getD, hmo]; rfl
    rw [hmosk]
    -- the subtable
    have hol : o < sp.innerMaps.length := (houter q hq o i hoi).1
    have himo : sp.innerMaps[o]? = some (sp.innerMaps.getD o []) := by
      rw [List.getD_eq_getElem?_getD, List.getElem?_eq_getElem hol]; rfl
    have hnz : (sp.innerMaps.getD o []).length ≠ 0 := by
      intro h0
      have : sp.innerMaps.getD o [] = [] := List.length_eq_zero_iff.mp h0
      rw [this] at hiim; cases hiim
    obtain ⟨st, ov, hst, hvd, hov⟩ := subsetSubs_get so.regionMap sp.innerMaps t.subs so.subs hsubs o _ himo hnz
    have hno : sp.outerMap.idxOf o = usedBefore sp.innerMaps o :=
      idxOf_eq_usedBefore sp.outerMap sp.innerMaps homs hommem o hoom
    have hstmem : SubIn.ok st ∈ t.subs := List.mem_of_getElem? hst
    obtain ⟨hsok, hbytes, hric, hsri⟩ : SubWf t.regions.length (SubIn.ok st) := wf.subs _ hstmem
    have hmemim : sp.innerMaps.getD o [] ∈ sp.innerMaps := by
      rw [List.getD_eq_getElem?_getD, List.getElem?_eq_getElem hol]; simp
    have him := hcnt _ hmemim
    have hil : (sp.innerMaps.getD o []).idxOf i < (sp.innerMaps.getD o []).length :=
      List.idxOf_lt_length_iff.mpr hiim
    have hback : (sp.innerMaps.getD o [])[(sp.innerMaps.getD o []).idxOf i] = i := List.getElem_idxOf hil
    have hcd := computeDelta_subtable (subsetVarData_ok hvd) hbytes hric him hsok t.regions hrms hrmlt
      wf.regions hsri (so.subs.map some) (t.subs.map SubIn.toReader) (usedBefore sp.innerMaps o) o
      (by rw [List.getElem?_map, hov]; rfl) (by rw [List.getElem?_map, hst]; rfl) coords _ hil
    rw [hback, ← hregs, ← hno] at hcd
    -- both readers
    unfold readerDelta
    by_cases hce : coords.isEmpty = true
    · simp [hce]
    · simp only [hce, Bool.false_eq_true, if_false, Option.map_some, MapOut.triple, hget]
      cases hmm : t.maps[k] with
      | none =>
        have hk0 : (k == 0) = true := by
          cases hkb : (k == 0) with
          | true => rfl
          | false =>
            exfalso; apply hexcl
            have : (k != 0) = true := by simp [bne, hkb]
            exact ⟨this, hmm⟩
        rw [hmm] at hoi
        simp only [mapGet, Option.some.injEq, Prod.mk.injEq] at hoi
        have hlt := wf.oldLt q hq
        have e : implicitIndex q.2 = (o, i) := by
          unfold implicitIndex
          rw [Prod.mk.injEq]; omega
        simp only [Option.map_none, hk0, if_true, e]
        rw [hcd]
      | some mm =>
        rw [hmm] at hoi
        simp only [mapGet] at hoi
        simp only [Option.map_some, MapIn.triple, hoi]
        rw [hcd]


end FontVerif.SubsetHvar
