/-
C18 — glyph-keyed patching of gvar (Model/GvarKeyed.lean): what a successful `gvarPatch` produces,
read back with the same reader (`gvarRead`).
-/
import FontVerif.Model.GvarKeyed
import FontVerif.Lemmas.IftPipeline
set_option linter.unusedVariables false
namespace FontVerif.Ift

theorem beBytes4 (v : Nat) : beBytes 4 v = [v / 16777216 % 256, v / 65536 % 256, v / 256 % 256, v % 256] := by
  simp [beBytes, List.range, List.range.loop]

theorem or_one_mod_two (f : Nat) : (f ||| 1) % 2 = 1 := by
  have := @Nat.or_mod_two_pow f 1 1
  simp only [Nat.pow_one] at this
  rw [this]
  rcases Nat.mod_two_eq_zero_or_one f with h | h <;> rw [h] <;> decide

theorem and_254_mod_two (f : Nat) : (f &&& 254) % 2 = 0 := by
  have := @Nat.and_mod_two_pow f 254 1
  simp only [Nat.pow_one] at this
  rw [this]
  simp

theorem exists_prefix16 (b : Bytes) (h : 16 ≤ b.length) :
    ∃ b0 b1 b2 b3 b4 b5 b6 b7 b8 b9 b10 b11 b12 b13 b14 b15 rest,
      b = b0 :: b1 :: b2 :: b3 :: b4 :: b5 :: b6 :: b7 :: b8 :: b9 :: b10 :: b11 :: b12 :: b13 :: b14 :: b15 :: rest := by
  match b, h with
  | b0 :: b1 :: b2 :: b3 :: b4 :: b5 :: b6 :: b7 :: b8 :: b9 :: b10 :: b11 :: b12 :: b13 :: b14 :: b15 :: rest, _ =>
    exact ⟨b0, b1, b2, b3, b4, b5, b6, b7, b8, b9, b10, b11, b12, b13, b14, b15, rest, rfl⟩

theorem gvarAssemble_ok (b : Bytes) (v : GvarView) (t : OffsetType) (data offs out : Bytes)
    (h : gvarAssemble b v t data offs = .ok out) :
    ∃ tuples, gvarSharedTuples b v = .ok tuples ∧ data.length ≠ 0 ∧ out = gvarEmit b t offs tuples data ∧
      (t = gvarCurType v → offs.length = (v.glyphCount + 1) * v.width) := by
  unfold gvarAssemble at h
  split at h
  · cases h
  · rename_i hlen
    split at h
    · cases h
    · rename_i hdata
      cases ht : gvarSharedTuples b v with
      | error e => rw [ht] at h; cases h
      | ok tuples =>
        rw [ht] at h
        simp only at h
        split at h
        · cases h
        · simp only [Except.ok.injEq] at h
          refine ⟨tuples, rfl, hdata, h.symm, ?_⟩
          intro hte
          apply Classical.byContradiction
          intro hne
          exact hlen ⟨hte, hne⟩

theorem gvarPatch_ok (b : Bytes) (gps : List GlyphPatches) (m : Nat) (out : Bytes)
    (h : gvarPatch (some b) gps m = .ok out) :
    ∃ v repl t data offs, gvarRead b = some v ∧ dedup TAG_gvar gps = .ok repl ∧
      patchOffsetArray (gvarArray b v) repl m = .ok (t, data, offs) ∧
      gvarAssemble b v t data offs = .ok out := by
  unfold gvarPatch at h
  cases hr : gvarRead b with
  | none => simp [hr] at h
  | some v =>
    simp only [hr, Option.bind_some, Option.map_some] at h
    cases hd : dedup TAG_gvar gps with
    | error e => rw [hd] at h; cases h
    | ok repl =>
      rw [hd] at h
      simp only at h
      cases hp : patchOffsetArray (gvarArray b v) repl m with
      | error e => rw [hp] at h; cases h
      | ok r =>
        obtain ⟨t, data, offs⟩ := r
        rw [hp] at h
        exact ⟨v, repl, t, data, offs, rfl, rfl, hp, h⟩

theorem gvarRead_some (b : Bytes) (v : GvarView) (h : gvarRead b = some v) :
    16 ≤ b.length ∧
    v.axisCount = beValue (sliceLen b 4 2) ∧ v.sharedTupleCount = beValue (sliceLen b 6 2) ∧
    v.glyphCount = beValue (sliceLen b 12 2) ∧ v.long = (beValue (sliceLen b 14 2) % 2 == 1) ∧
    v.offsets = gvarOffsets v.long (beArray (gvarWidth v.long) (v.glyphCount + 1) (b.drop 20)) := by
  unfold gvarRead at h
  split at h
  · cases h
  · split at h
    · cases h
    · simp only [Option.some.injEq] at h
      subst h
      exact ⟨by omega, rfl, rfl, rfl, rfl, rfl⟩

/-- reading back the emitted bytes: same header counts, the new flag, the new offsets -/
theorem gvar_readback (b : Bytes) (v : GvarView) (hr : gvarRead b = some v) (t : OffsetType)
    (ht : t = .long ∨ t = .shortDivByTwo) (os : List Nat) (tuples data : Bytes)
    (hlen : os.length = v.glyphCount + 1)
    (hdiv : ∀ o ∈ os, o % t.divisor = 0) (hb : ∀ o ∈ os, o / t.divisor < 2 ^ (t.width * 8))
    (hsz : 20 + (encodeOffs t os).length + tuples.length < 2 ^ 32) :
    ∃ v', gvarRead (gvarEmit b t (encodeOffs t os) tuples data) = some v' ∧
      v'.axisCount = v.axisCount ∧ v'.sharedTupleCount = v.sharedTupleCount ∧
      v'.glyphCount = v.glyphCount ∧ v'.long = decide (t = .long) ∧ v'.offsets = os ∧
      v'.arrayOffset = 20 + (encodeOffs t os).length + tuples.length ∧
      v'.sharedTuplesOffset = (if tuples.length = 0 then 20 + (encodeOffs t os).length + tuples.length
                               else 20 + (encodeOffs t os).length) ∧
      (gvarEmit b t (encodeOffs t os) tuples data).length = 20 + (encodeOffs t os).length + tuples.length + data.length ∧
      (gvarEmit b t (encodeOffs t os) tuples data).drop (20 + (encodeOffs t os).length + tuples.length) = data ∧
      sliceLen (gvarEmit b t (encodeOffs t os) tuples data) (20 + (encodeOffs t os).length) tuples.length = tuples := by
  have hpow : ∀ w : Nat, 2 ^ (w * 8) = 256 ^ w := fun w => by rw [Nat.mul_comm, Nat.pow_mul]
  obtain ⟨h16, hac, hsc, hgc, hlong, _⟩ := gvarRead_some b v hr
  obtain ⟨b0, b1, b2, b3, b4, b5, b6, b7, b8, b9, b10, b11, b12, b13, b14, b15, rest, hbe⟩ :=
    exists_prefix16 b h16
  have henc : (encodeOffs t os).length = os.length * t.width := by
    rw [encodeOffs_as_flatMap, flatMap_beBytes_length, List.length_map]
  have hencf : encodeOffs t os = (os.map (fun o => o / t.divisor + t.bias)).flatMap (beBytes t.width) :=
    encodeOffs_as_flatMap t os
  generalize hE : encodeOffs t os = E at *
  generalize htp : (if tuples.length = 0 then 20 + E.length + tuples.length else 20 + E.length) = tp
  generalize hdp : 20 + E.length + tuples.length = dp at *
  have htp_le : tp ≤ dp := by rw [← htp, ← hdp]; split <;> omega
  -- the emitted bytes, explicitly
  have hout : gvarEmit b t E tuples data =
      b0 :: b1 :: b2 :: b3 :: b4 :: b5 :: b6 :: b7 ::
      (tp / 16777216 % 256) :: (tp / 65536 % 256) :: (tp / 256 % 256) :: (tp % 256) ::
      b12 :: b13 :: b14 :: gvarFlagByte b t ::
      (dp / 16777216 % 256) :: (dp / 65536 % 256) :: (dp / 256 % 256) :: (dp % 256) :: (E ++ tuples ++ data) := by
    unfold gvarEmit
    rw [hdp, htp]
    generalize gvarFlagByte b t = f
    rw [hbe]
    simp [sliceLen, beBytes4]
  have hflag : gvarFlagByte b t % 2 = if t = .long then 1 else 0 := by
    unfold gvarFlagByte
    rcases ht with e | e <;> subst e
    · simp [OffsetType.width, or_one_mod_two]
    · simp [OffsetType.width, and_254_mod_two]
  have hw : gvarWidth (decide (t = .long)) = t.width := by
    rcases ht with e | e <;> subst e <;> simp [gvarWidth, OffsetType.width]
  have hbytes : ∀ x : Nat, x < 2 ^ 32 →
      ((x / 16777216 % 256 * 256 + x / 65536 % 256) * 256 + x / 256 % 256) * 256 + x % 256 = x := by
    intro x hx; omega
  -- the fields read back
  have f12 : beValue (sliceLen (gvarEmit b t E tuples data) 12 2) = beValue (sliceLen b 12 2) := by
    rw [hout, hbe]; simp [sliceLen, beValue]
  have f14 : (beValue (sliceLen (gvarEmit b t E tuples data) 14 2) % 2 == 1) = decide (t = .long) := by
    rw [hout]
    simp only [sliceLen, List.drop_succ_cons, List.drop_zero, List.take_succ_cons, List.take_zero, beValue,
      List.foldl_cons, List.foldl_nil]
    have : (0 * 256 + b14) * 256 + gvarFlagByte b t = b14 * 256 + gvarFlagByte b t := by omega
    rw [this, Nat.add_mod, Nat.mul_mod, hflag]
    rcases ht with e | e <;> subst e <;> simp
  have f4 : beValue (sliceLen (gvarEmit b t E tuples data) 4 2) = beValue (sliceLen b 4 2) := by
    rw [hout, hbe]; simp [sliceLen, beValue]
  have f6 : beValue (sliceLen (gvarEmit b t E tuples data) 6 2) = beValue (sliceLen b 6 2) := by
    rw [hout, hbe]; simp [sliceLen, beValue]
  have f8 : beValue (sliceLen (gvarEmit b t E tuples data) 8 4) = tp := by
    rw [hout]
    have := hbytes tp (by omega)
    simp [sliceLen, beValue]
    omega
  have f16 : beValue (sliceLen (gvarEmit b t E tuples data) 16 4) = dp := by
    rw [hout]
    have := hbytes dp (by omega)
    simp [sliceLen, beValue]
    omega
  have fdrop : (gvarEmit b t E tuples data).drop 20 = E ++ tuples ++ data := by
    rw [hout]; simp
  have flen : (gvarEmit b t E tuples data).length = 20 + E.length + tuples.length + data.length := by
    rw [hout]; simp; omega
  -- the offsets array read back
  have hdivb : t.divisor = 1 ∨ t.divisor = 2 := by
    rcases ht with e | e <;> subst e <;> simp [OffsetType.divisor]
  have hbias : t.bias = 0 := by rcases ht with e | e <;> subst e <;> rfl
  have hraw : beArray t.width (v.glyphCount + 1) (E ++ tuples ++ data) = os.map (· / t.divisor) := by
    rw [hencf, List.append_assoc]
    have hb' : ∀ x ∈ os.map (fun o => o / t.divisor + t.bias), x < 256 ^ t.width := by
      intro x hx
      obtain ⟨o, ho, hxe⟩ := List.mem_map.mp hx
      have := hb o ho
      rw [hpow] at this
      rw [← hxe, hbias]; omega
    have := beArray_flatMap t.width (os.map (fun o => o / t.divisor + t.bias)) (tuples ++ data) hb'
    rw [List.length_map, hlen] at this
    rw [this]
    apply List.map_congr_left
    intro o _; rw [hbias]; rfl
  have hoffs : gvarOffsets (decide (t = .long)) (os.map (· / t.divisor)) = os := by
    rcases ht with e | e <;> subst e
    · simp [gvarOffsets, OffsetType.divisor]
    · simp only [gvarOffsets, OffsetType.divisor, reduceCtorEq, decide_false, Bool.false_eq_true, if_false,
        List.map_map]
      conv => rhs; rw [← List.map_id os]
      apply List.map_congr_left
      intro o ho
      have := hdiv o ho
      simp only [OffsetType.divisor] at this
      simp only [Function.comp, id]; omega
  -- assemble
  unfold gvarRead
  rw [if_neg (by rw [flen]; omega)]
  rw [f12, f14, hw]
  rw [if_neg (by rw [flen, ← hgc, henc, hlen]; omega)]
  refine ⟨_, rfl, ?_, ?_, ?_, ?_, ?_, ?_, ?_, ?_, ?_, ?_⟩
  · simp only; rw [f4, hac]
  · simp only; rw [f6, hsc]
  · simp only; rw [hgc]
  · rfl
  · simp only; rw [fdrop, ← hgc, hraw, hoffs]
  · simp only; rw [f16]
  · simp only; rw [f8]
  · rw [flen, ← hdp]
  · rw [← hdp, show 20 + E.length + tuples.length = 20 + (E.length + tuples.length) by omega,
      ← List.drop_drop, fdrop, List.append_assoc]
    rw [← List.append_assoc, List.drop_left' (by simp)]
  · unfold sliceLen
    rw [← List.drop_drop, fdrop, List.append_assoc, List.drop_left' rfl, List.take_left' rfl]

theorem gvarPatch_perm (g : Option Bytes) (gps gps' : List GlyphPatches) (m : Nat) (out : Bytes)
    (hp : gps.Perm gps') (ha : Agree TAG_gvar gps) (h : gvarPatch g gps m = .ok out) :
    gvarPatch g gps' m = .ok out := by
  unfold gvarPatch at h ⊢
  cases hg : g.bind (fun b => (gvarRead b).map (fun v => (b, v))) with
  | none => rw [hg] at h; cases h
  | some bv =>
    obtain ⟨b, v⟩ := bv
    rw [hg] at h
    simp only at h ⊢
    cases hd : dedup TAG_gvar gps with
    | error e => rw [hd] at h; cases h
    | ok repl =>
      rw [hd] at h
      rw [dedup_perm TAG_gvar gps gps' hp ha repl hd]
      exact h

theorem gvarSharedTuples_len (b : Bytes) (v : GvarView) (tuples : Bytes) (h : gvarSharedTuples b v = .ok tuples) :
    tuples.length = v.sharedTupleCount * (v.axisCount * 2) := by
  unfold gvarSharedTuples at h
  split at h
  · cases h
  · split at h
    · cases h
    · simp only at h
      split at h
      · cases h
      · simp only [Except.ok.injEq] at h
        rw [← h]
        exact sliceLen_length _ _ _ (by omega)

/-- a widened / kept offset type of a gvar is one of the two gvar types, and short only if it was short -/
theorem gvar_type (b : Bytes) (v : GvarView) (total : Nat) (t : OffsetType)
    (h : chooseOffsetType (gvarArray b v) total = .ok t) :
    (t = .long ∨ t = .shortDivByTwo) ∧ (t = .shortDivByTwo → v.long = false) := by
  obtain ⟨c1, c2, c3⟩ := chooseOffsetType_spec _ total t h
  simp only [gvarArray] at c2 c3
  by_cases hfit : total ≤ (gvarCurType v).maxRepresentable
  · have := c2 hfit
    subst this
    cases hl : v.long <;> simp [gvarCurType, hl]
  · obtain ⟨hm, _⟩ := c3 (by omega)
    simp only [List.mem_cons, List.not_mem_nil, or_false] at hm
    refine ⟨hm.symm, ?_⟩
    intro hs
    subst hs
    cases hl : v.long with
    | false => rfl
    | true =>
      exfalso
      simp only [gvarCurType, hl, if_true] at hfit
      have : OffsetType.shortDivByTwo.maxRepresentable ≤ OffsetType.long.maxRepresentable := by decide
      omega

/-- **gvar splice**: a successful `gvarPatch` on a gvar whose glyph count matches maxp reads back with
the same axis / tuple / glyph counts and the same shared tuples; its offsets are ascending from 0 to
the data length, and every glyph's data is the padded first-wins patch data or the old data. -/
theorem gvarPatch_spec (b : Bytes) (gps : List GlyphPatches) (m : Nat) (out : Bytes)
    (h : gvarPatch (some b) gps m = .ok out) (hsz : out.length < 2 ^ 32) :
    ∃ v t, gvarRead b = some v ∧ (t = .long ∨ t = .shortDivByTwo) ∧
      (∃ repl total, dedup TAG_gvar gps = .ok repl ∧ totalDataSize (gvarArray b v) repl m = .ok total ∧
          total ≤ t.maxRepresentable ∧ (total ≤ (gvarCurType v).maxRepresentable → t = gvarCurType v)) ∧
      (v.glyphCount = m + 1 →
        ∃ v', gvarRead out = some v' ∧ v'.axisCount = v.axisCount ∧ v'.sharedTupleCount = v.sharedTupleCount ∧
          v'.glyphCount = v.glyphCount ∧ v'.long = decide (t = .long) ∧
          gvarSharedTuples out v' = gvarSharedTuples b v ∧
          v'.offsets.length = m + 2 ∧ v'.offsets.getD 0 0 = 0 ∧
          v'.offsets.getD (m + 1) 0 = (out.drop v'.arrayOffset).length ∧
          v'.offsets.Pairwise (· ≤ ·) ∧
          (∀ g d, firstWins TAG_gvar gps g = some d → g ≤ m) ∧
          ∀ g, g ≤ m → glyphAt v'.offsets (out.drop v'.arrayOffset) g =
            match firstWins TAG_gvar gps g with
            | some d => padTo t d
            | none => glyphAt v.offsets (b.drop v.arrayOffset) g) := by
  obtain ⟨v, repl, t, data, offs, hr, hd, hp, hasm⟩ := gvarPatch_ok b gps m out h
  obtain ⟨hsort, _, hlk⟩ := dedup_spec TAG_gvar gps repl hd
  obtain ⟨e1, e2⟩ := patchOffsetArray_eq _ repl m hsort t data offs hp
  obtain ⟨f1, f2, f3, f4⟩ := patchOffsetArray_facts _ repl m hsort t data offs hp
  obtain ⟨total, ht1, ht2, _, _⟩ := patchOffsetArray_ok _ repl m t data offs hp
  obtain ⟨htype, hshort⟩ := gvar_type b v total t ht2
  obtain ⟨c1, c2, _⟩ := chooseOffsetType_spec _ total t ht2
  obtain ⟨tuples, hst, hdne, hout, _⟩ := gvarAssemble_ok b v t data offs out hasm
  refine ⟨v, t, hr, htype, ⟨repl, total, hd, ht1, c1, c2⟩, ?_⟩
  intro hgc
  generalize hcs : chunks (gvarArray b v) t repl m = cs at e1 e2 f2
  have hcslen : cs.length = m + 1 := by rw [← hcs, chunks_length]
  have hdivb : t.divisor = 1 ∨ t.divisor = 2 := by
    rcases htype with e | e <;> subst e <;> simp [OffsetType.divisor]
  have hbias : t.bias = 0 := by rcases htype with e | e <;> subst e <;> rfl
  have hpw := ascending_pairwise _ f1
  -- old offsets are multiples of the divisor
  have hodiv : ∀ o ∈ (gvarArray b v).offsets, o % t.divisor = 0 := by
    intro o ho
    rcases htype with e | e
    · subst e; simp [OffsetType.divisor, Nat.mod_one]
    · subst e
      have hl := hshort rfl
      obtain ⟨_, _, _, _, _, hoffs⟩ := gvarRead_some b v hr
      simp only [gvarArray] at ho
      rw [hoffs, hl] at ho
      simp only [gvarOffsets, Bool.false_eq_true, if_false, List.mem_map] at ho
      obtain ⟨r, _, hre⟩ := ho
      subst hre
      simp [OffsetType.divisor]
  have hcsdiv : ∀ c ∈ cs, c.length % t.divisor = 0 := by
    intro c hc
    obtain ⟨g, hg', he⟩ := List.mem_iff_getElem.mp hc
    subst hcs
    rw [chunks_getElem] at he
    rw [← he]
    rw [chunks_length] at hg'
    exact chunk_len_div _ t repl m g hdivb hodiv hpw f3 (by omega)
  have hos_div := newOffsets_div t.divisor cs hcsdiv
  have hos_b : ∀ o ∈ newOffsets cs, o / t.divisor < 2 ^ (t.width * 8) := by
    intro o ho
    have h1 := newOffsets_le_last cs o ho
    rw [hbias, Nat.add_zero] at f2
    have hpos : 0 < t.divisor := by rcases hdivb with e | e <;> omega
    exact Nat.lt_of_le_of_lt (Nat.div_le_div_right h1) f2
  rw [e2] at hout
  have hrb := gvar_readback b v hr t htype (newOffsets cs) tuples data
    (by rw [newOffsets_length, hcslen, hgc]) hos_div hos_b
  -- size of the emitted table
  have hsize : 20 + (encodeOffs t (newOffsets cs)).length + tuples.length < 2 ^ 32 := by
    have hl : out.length = 20 + (encodeOffs t (newOffsets cs)).length + tuples.length + data.length := by
      rw [hout]
      obtain ⟨h16, _⟩ := gvarRead_some b v hr
      obtain ⟨b0, b1, b2, b3, b4, b5, b6, b7, b8, b9, b10, b11, b12, b13, b14, b15, rest, hbe⟩ :=
        exists_prefix16 b h16
      unfold gvarEmit
      rw [hbe]
      simp [sliceLen, beBytes4]
      omega
    omega
  obtain ⟨v', r0, r1, r2, r3, r4, r5, r6, r7, r8, r9, r10⟩ := hrb hsize
  rw [← hout] at r0 r8 r9 r10
  have htl := gvarSharedTuples_len b v tuples hst
  refine ⟨v', r0, r1, r2, r3, r4, ?_, ?_, ?_, ?_, ?_, ?_, ?_⟩
  · -- shared tuples preserved
    rw [hst]
    unfold gvarSharedTuples
    rw [r7, r1, r2, ← htl]
    by_cases htz : tuples.length = 0
    · have : tuples = [] := List.eq_nil_of_length_eq_zero htz
      subst this
      simp only [List.length_nil, if_true, Nat.add_zero]
      rw [if_neg (by omega), if_neg (by rw [r8]; simp), if_neg (by omega)]
      simp [sliceLen]
    · simp only [htz, if_false]
      rw [if_neg (by omega), if_neg (by rw [r8]; omega), if_neg (by rw [r8]; omega), r10]
  · rw [r5, newOffsets_length, hcslen]
  · rw [r5]; exact newOffsets_first cs
  · rw [r5, r6, r9, e1]
    have := newOffsets_last cs
    rw [hcslen] at this; exact this
  · rw [r5]; exact newOffsets_pairwise cs
  · intro g d hfw
    rw [← hlk g] at hfw
    exact f4 _ (lookup_some_mem repl g d hfw)
  · intro g hg
    rw [r5, r6, r9, e1, newOffsets_glyphAt cs g (by rw [hcslen]; omega)]
    subst hcs
    rw [chunks_getElem]
    unfold chunkFor
    rw [hlk g]
    cases firstWins TAG_gvar gps g <;> rfl

end FontVerif.Ift
