/-
C18 — glyph-keyed patching of gvar (Model/GvarKeyed.lean): what a successful `gvarPatch` produces,
read back with the same reader (`gvarRead`).
-/
import FontVerif.Model.GvarKeyed
import FontVerif.Lemmas.IftPipeline
set_option linter.unusedVariables false
namespace FontVerif.Ift

theorem beBytes4 (v : Nat) : beBytes 4 v = [v / 16777216 % 256, v / 65536 % 256, v / 256 % 256, v % 256] := by
  simp [beBytes, List.range, List.range.loop]

theorem or_one_mod_two (f : Nat) : (f ||| 1) % 2 = 1 := by
  have := @Nat.or_mod_two_pow f 1 1
  simp only [Nat.pow_one] at this
  rw [this]
  rcases Nat.mod_two_eq_zero_or_one f with h | h <;> rw [h] <;> decide

theorem and_254_mod_two (f : Nat) : (f &&& 254) % 2 = 0 := by
  have := @Nat.and_mod_two_pow f 254 1
  simp only [Nat.pow_one] at this
  rw [this]
  simp

theorem exists_prefix16 (b : Bytes) (h : 16 ≤ b.length) :
    ∃ b0 b1 b2 b3 b4 b5 b6 b7 b8 b9 b10 b11 b12 b13 b14 b15 rest,
      b = b0 :: b1 :: b2 :: b3 :: b4 :: b5 :: b6 :: b7 :: b8 :: b9 :: b10 :: b11 :: b12 :: b13 :: b14 :: b15 :: rest := by
  match b, h with
  | b0 :: b1 :: b2 :: b3 :: b4 :: b5 :: b6 :: b7 :: b8 :: b9 :: b10 :: b11 :: b12 :: b13 :: b14 :: b15 :: rest, _ =>
    exact ⟨b0, b1, b2, b3, b4, b5, b6, b7, b8, b9, b10, b11, b12, b13, b14, b15, rest, rfl⟩

theorem gvarAssemble_ok (b : Bytes) (v : GvarView) (t : OffsetType) (data offs out : Bytes)
    (h : gvarAssemble b v t data offs = .ok out) :
    ∃ tuples, gvarSharedTuples b v = .ok tuples ∧ data.length ≠ 0 ∧ out = gvarEmit b t offs tuples data ∧
      (t = gvarCurType v → offs.length = (v.glyphCount + 1) * v.width) := by
  unfold gvarAssemble at h
  split at h
  · cases h
  · rename_i hlen
    split at h
    · cases h
    · rename_i hdata
      cases ht : gvarSharedTuples b v with
      | error e => rw [ht] at h; cases h
      | ok tuples =>
        rw [ht] at h
        simp only at h
        split at h
        · cases h
        · simp only [Except.ok.injEq] at h
          refine ⟨tuples, rfl, hdata, h.symm, ?_⟩
          intro hte
          apply Classical.byContradiction
          intro hne
          exact hlen ⟨hte, hne⟩

theorem gvarPatch_ok (b : Bytes) (gps : List GlyphPatches) (m : Nat) (out : Bytes)
    (h : gvarPatch (some b) gps m = .ok out) :
    ∃ v repl t data offs, gvarRead b = some v ∧ dedup TAG_gvar gps = .ok repl ∧
      patchOffsetArray (gvarArray b v) repl m = .ok (t, data, offs) ∧
      gvarAssemble b v t data offs = .ok out := by
  unfold gvarPatch at h
  cases hr : gvarRead b with
  | none => simp [hr] at h
  | some v =>
    simp only [hr, Option.bind_some, Option.map_some] at h
    cases hd : dedup TAG_gvar gps with
    | error e => rw [hd] at h; cases h
    | ok repl =>
      rw [hd] at h
      simp only at h
      cases hp : patchOffsetArray (gvarArray b v) repl m with
      | error e => rw [hp] at h; cases h
      | ok r =>
        obtain ⟨t, data, offs⟩ := r
        rw [hp] at h
        exact ⟨v, repl, t, data, offs, rfl, rfl, hp, h⟩

theorem gvarRead_some (b : Bytes) (v : GvarView) (h : gvarRead b = some v) :
    16 ≤ b.length ∧
    v.axisCount = beValue (sliceLen b 4 2) ∧ v.sharedTupleCount = beValue (sliceLen b 6 2) ∧
    v.glyphCount = beValue (sliceLen b 12 2) ∧ v.long = (beValue (sliceLen b 14 2) % 2 == 1) ∧
    v.offsets = gvarOffsets v.long (beArray (gvarWidth v.long) (v.glyphCount + 1) (b.drop 20)) := by
  unfold gvarRead at h
  split at h
  · cases h
  · split at h
    · cases h
    · simp only [Option.some.injEq] at h
      subst h
      exact ⟨by omega, rfl, rfl, rfl, rfl, rfl⟩

/-- reading back the emitted bytes: same header counts, the new flag, the new offsets -/
theorem gvar_readback (b : Bytes) (v : GvarView) (hr : gvarRead b = some v) (t : OffsetType)
    (ht : t = .long ∨ t = .shortDivByTwo) (os : List Nat) (tuples data : Bytes)
    (hlen : os.length = v.glyphCount + 1)
    (hdiv : ∀ o ∈ os, o % t.divisor = 0) (hb : ∀ o ∈ os, o / t.divisor < 2 ^ (t.width * 8))
    (hsz : 20 + (encodeOffs t os).length + tuples.length < 2 ^ 32) :
    ∃ v', gvarRead (gvarEmit b t (encodeOffs t os) tuples data) = some v' ∧
      v'.axisCount = v.axisCount ∧ v'.sharedTupleCount = v.sharedTupleCount ∧
      v'.glyphCount = v.glyphCount ∧ v'.long = decide (t = .long) ∧ v'.offsets = os ∧
      v'.arrayOffset = 20 + (encodeOffs t os).length + tuples.length ∧
      v'.sharedTuplesOffset = (if tuples.length = 0 then 20 + (encodeOffs t os).length + tuples.length
                               else 20 + (encodeOffs t os).length) ∧
      (gvarEmit b t (encodeOffs t os) tuples data).length = 20 + (encodeOffs t os).length + tuples.length + data.length ∧
      (gvarEmit b t (encodeOffs t os) tuples data).drop (20 + (encodeOffs t os).length + tuples.length) = data ∧
      sliceLen (gvarEmit b t (encodeOffs t os) tuples data) (20 + (encodeOffs t os).length) tuples.length = tuples := by
  have hpow : ∀ w : Nat, 2 ^ (w * 8) = 256 ^ w := fun w => by rw [Nat.mul_comm, Nat.pow_mul]
  obtain ⟨h16, hac, hsc, hgc, hlong, _⟩ := gvarRead_some b v hr
  obtain ⟨b0, b1, b2, b3, b4, b5, b6, b7, b8, b9, b10, b11, b12, b13, b14, b15, rest, hbe⟩ :=
    exists_prefix16 b h16
  have henc : (encodeOffs t os).length = os.length * t.width := by
    rw [encodeOffs_as_flatMap, flatMap_beBytes_length, List.length_map]
  have hencf : encodeOffs t os = (os.map (fun o => o / t.divisor + t.bias)).flatMap (beBytes t.width) :=
    encodeOffs_as_flatMap t os
  generalize hE : encodeOffs t os = E at *
  generalize htp : (if tuples.length = 0 then 20 + E.length + tuples.length else 20 + E.length) = tp
  generalize hdp : 20 + E.length + tuples.length = dp at *
  have htp_le : tp ≤ dp := by rw [← htp, ← hdp]; split <;> omega
  -- the emitted bytes, explicitly
  have hout : gvarEmit b t E tuples data =
      b0 :: b1 :: b2 :: b3 :: b4 :: b5 :: b6 :: b7 ::
      (tp / 16777216 % 256) :: (tp / 65536 % 256) :: (tp / 256 % 256) :: (tp % 256) ::
      b12 :: b13 :: b14 :: gvarFlagByte b t ::
      (dp / 16777216 % 256) :: (dp / 65536 % 256) :: (dp / 256 % 256) :: (dp % 256) :: (E ++ tuples ++ data) := by
    unfold gvarEmit
    rw [hdp, htp]
    generalize gvarFlagByte b t = f
    rw [hbe]
    simp [sliceLen, beBytes4]
  have hflag : gvarFlagByte b t % 2 = if t = .long then 1 else 0 := by
    unfold gvarFlagByte
    rcases ht with e | e <;> subst e
    · simp [OffsetType.width, or_one_mod_two]
    · simp [OffsetType.width, and_254_mod_two]
  have hw : gvarWidth (decide (t = .long)) = t.width := by
    rcases ht with e | e <;> subst e <;> simp [gvarWidth, OffsetType.width]
  have hbytes : ∀ x : Nat, x < 2 ^ 32 →
      ((x / 16777216 % 256 * 256 + x / 65536 % 256) * 256 + x / 256 % 256) * 256 + x % 256 = x := by
    intro x hx; omega
  -- the fields read back
  have f12 : beValue (sliceLen (gvarEmit b t E tuples data) 12 2) = beValue (sliceLen b 12 2) := by
    rw [hout, hbe]; simp [sliceLen, beValue]
  have f14 : (beValue (sliceLen (gvarEmit b t E tuples data) 14 2) % 2 == 1) = decide (t = .long) := by
    rw [hout]
    simp only [sliceLen, List.drop_succ_cons, List.drop_zero, List.take_succ_cons, List.take_zero, beValue,
      List.foldl_cons, List.foldl_nil]
    have : (0 * 256 + b14) * 256 + gvarFlagByte b t = b14 * 256 + gvarFlagByte b t := by omega
    rw [this, Nat.add_mod, Nat.mul_mod, hflag]
    rcases ht with e | e <;> subst e <;> simp
  have f4 : beValue (sliceLen (gvarEmit b t E tuples data) 4 2) = beValue (sliceLen b 4 2) := by
    rw [hout, hbe]; simp [sliceLen, beValue]
  have f6 : beValue (sliceLen (gvarEmit b t E tuples data) 6 2) = beValue (sliceLen b 6 2) := by
    rw [hout, hbe]; simp [sliceLen, beValue]
  have f8 : beValue (sliceLen (gvarEmit b t E tuples data) 8 4) = tp := by
    rw [hout]
    have := hbytes tp (by omega)
    simp [sliceLen, beValue]
    omega
  have f16 : beValue (sliceLen (gvarEmit b t E tuples data) 16 4) = dp := by
    rw [hout]
    have := hbytes dp (by omega)
    simp [sliceLen, beValue]
    omega
  have fdrop : (gvarEmit b t E tuples data).drop 20 = E ++ tuples ++ data := by
    rw [hout]; simp
  have flen : (gvarEmit b t E tuples data).length = 20 + E.length + tuples.length + data.length := by
    rw [hout]; simp; omega
  -- the offsets array read back
  have hdivb : t.divisor = 1 ∨ t.divisor = 2 := by
    rcases ht with e | e <;> subst e <;> simp [OffsetType.divisor]
  have hbias : t.bias = 0 := by rcases ht with e | e <;> subst e <;> rfl
  have hraw : beArray t.width (v.glyphCount + 1) (E ++ tuples ++ data) = os.map (· / t.divisor) := by
    rw [hencf, List.append_assoc]
    have hb' : ∀ x ∈ os.map (fun o => o / t.divisor + t.bias), x < 256 ^ t.width := by
      intro x hx
      obtain ⟨o, ho, hxe⟩ := List.mem_map.mp hx
      have := hb o ho
      rw [hpow] at this
      rw [← hxe, hbias]; omega
    have := beArray_flatMap t.width (os.map (fun o => o / t.divisor + t.bias)) (tuples ++ data) hb'
    rw [List.length_map, hlen] at this
    rw [this]
    apply List.map_congr_left
    intro o _; rw [hbias]; rfl
  have hoffs : gvarOffsets (decide (t = .long)) (os.map (· / t.divisor)) = os := by
    rcases ht with e | e <;> subst e
    · simp [gvarOffsets, OffsetType.divisor]
    · simp only [gvarOffsets, OffsetType.divisor, reduceCtorEq, decide_false, Bool.false_eq_true, if_false,
        List.map_map]
      conv => rhs; rw [← List.map_id os]
      apply List.map_congr_left
      intro o ho
      have := hdiv o ho
      simp only [OffsetType.divisor] at this
      simp only [Function.comp, id]; omega
  -- assemble
  unfold gvarRead
  rw [if_neg (by rw [flen]; omega)]
  rw [f12, f14, hw]
  rw [if_neg (by rw [flen, ← hgc, henc, hlen]; omega)]
  refine ⟨_, rfl, ?_, ?_, ?_, ?_, ?_, ?_, ?_, ?_, ?_, ?_⟩
  · simp only; rw [f4, hac]
  · simp only; rw [f6, hsc]
  · simp only; rw [hgc]
  · rfl
  · simp only; rw [fdrop, ← hgc, hraw, hoffs]
  · simp only; rw [f16]
  · simp only; rw [f8]
  · rw [flen, ← hdp]
  · rw [← hdp, show 20 + E.length + tuples.length = 20 + (E.length + tuples.length) by omega,
      ← List.drop_drop, fdrop, List.append_assoc]
    rw [← List.append_assoc, List.drop_left' (by simp)]
  · unfold sliceLen
    rw [← List.drop_drop, fdrop, List.append_assoc, List.drop_left' rfl, List.take_left' rfl]

theorem gvarPatch_perm (g : Option Bytes) (gps gps' : List GlyphPatches) (m : Nat) (out : Bytes)
    (hp : gps.Perm gps') (ha : Agree TAG_gvar gps) (h : gvarPatch g gps m = .ok out) :
    gvarPatch g gps' m = .ok out := by
  unfold gvarPatch at h ⊢
  cases hg : g.bind (fun b => (gvarRead b).map (fun v => (b, v))) with
  | none => rw [hg] at h; cases h
  | some bv =>
    obtain ⟨b, v⟩ := bv
    rw [hg] at h
    simp only at h ⊢
    cases hd : dedup TAG_gvar gps with
    | error e => rw [hd] at h; cases h
    | ok repl =>
      rw [hd] at h
      rw [dedup_perm TAG_gvar gps gps' hp ha repl hd]
      exact h

theorem gvarSharedTuples_len (b : Bytes) (v : GvarView) (tuples : Bytes) (h : gvarSharedTuples b v = .ok tuples) :
    tuples.length = v.sharedTupleCount * (v.axisCount * 2) := by
  unfold gvarSharedTuples at h
  split at h
  · cases h
  · split at h
    · cases h
    · simp only at h
      split at h
      · cases h
      · simp only [Except.ok.injEq] at h
        rw [← h]
        exact sliceLen_length _ _ _ (by omega)

/-- a widened / kept offset type of a gvar is one of the two gvar types, and short only if it was short -/
theorem gvar_type (b : Bytes) (v : GvarView) (total : Nat) (t : OffsetType)
    (h : chooseOffsetType (gvarArray b v) total = .ok t) :
    (t = .long ∨ t = .shortDivByTwo) ∧ (t = .shortDivByTwo → v.long = false) := by
  obtain ⟨c1, c2, c3⟩ := chooseOffsetType_spec _ total t h
  simp only [gvarArray] at c2 c3
  by_cases hfit : total ≤ (gvarCurType v).maxRepresentable
  · have := c2 hfit
    subst this
    cases hl : v.long <;> simp [gvarCurType, hl]
  · obtain ⟨hm, _⟩ := c3 (by omega)
    simp only [List.mem_cons, List.not_mem_nil, or_false] at hm
    refine ⟨hm.symm, ?_⟩
    intro hs
    subst hs
    cases hl : v.long with
    | false => rfl
    | true =>
      exfalso
      simp only [gvarCurType, hl, if_true] at hfit
      have : OffsetType.shortDivByTwo.maxRepresentable ≤ OffsetType.long.maxRepresentable := by decide
      omega

theorem gvarArray_ascSound (b : Bytes) (v : GvarView) : (gvarArray b v).AscSound := fun h => h

/-- **gvar splice**: a successful `gvarPatch` on a gvar whose glyph count matches maxp reads back with
the same axis / tuple / glyph counts and the same shared tuples; its offsets are ascending from 0 to
the data length, and every glyph's data is the padded first-wins patch data or the old data. -/
theorem gvarPatch_spec (b : Bytes) (gps : List GlyphPatches) (m : Nat) (out : Bytes)
    (h : gvarPatch (some b) gps m = .ok out) (hsz : out.length < 2 ^ 32) :
    ∃ v t, gvarRead b = some v ∧ (t = .long ∨ t = .shortDivByTwo) ∧
      (∃ repl total, dedup TAG_gvar gps = .ok repl ∧ totalDataSize (gvarArray b v) repl m = .ok total ∧
          total ≤ t.maxRepresentable ∧ (total ≤ (gvarCurType v).maxRepresentable → t = gvarCurType v)) ∧
      (v.glyphCount = m + 1 →
        ∃ v', gvarRead out = some v' ∧ v'.axisCount = v.axisCount ∧ v'.sharedTupleCount = v.sharedTupleCount ∧
          v'.glyphCount = v.glyphCount ∧ v'.long = decide (t = .long) ∧
          gvarSharedTuples out v' = gvarSharedTuples b v ∧
          v'.offsets.length = m + 2 ∧ v'.offsets.getD 0 0 = 0 ∧
          v'.offsets.getD (m + 1) 0 = (out.drop v'.arrayOffset).length ∧
          v'.offsets.Pairwise (· ≤ ·) ∧
          (∀ g d, firstWins TAG_gvar gps g = some d → g ≤ m) ∧
          ∀ g, g ≤ m → glyphAt v'.offsets (out.drop v'.arrayOffset) g =
            match firstWins TAG_gvar gps g with
            | some d => padTo t d
            | none => glyphAt v.offsets (b.drop v.arrayOffset) g) := by
  obtain ⟨v, repl, t, data, offs, hr, hd, hp, hasm⟩ := gvarPatch_ok b gps m out h
  obtain ⟨hsort, _, hlk⟩ := dedup_spec TAG_gvar gps repl hd
  obtain ⟨e1, e2⟩ := patchOffsetArray_eq _ repl m (gvarArray_ascSound b v) hsort t data offs hp
  obtain ⟨f1, f2, f3, f4⟩ := patchOffsetArray_facts _ repl m (gvarArray_ascSound b v) hsort t data offs hp
  obtain ⟨total, ht1, ht2, _, _⟩ := patchOffsetArray_ok _ repl m t data offs hp
  obtain ⟨htype, hshort⟩ := gvar_type b v total t ht2
  obtain ⟨c1, c2, _⟩ := chooseOffsetType_spec _ total t ht2
  obtain ⟨tuples, hst, hdne, hout, _⟩ := gvarAssemble_ok b v t data offs out hasm
  refine ⟨v, t, hr, htype, ⟨repl, total, hd, ht1, c1, c2⟩, ?_⟩
  intro hgc
  generalize hcs : chunks (gvarArray b v) t repl m = cs at e1 e2 f2
  have hcslen : cs.length = m + 1 := by rw [← hcs, chunks_length]
  have hdivb : t.divisor = 1 ∨ t.divisor = 2 := by
    rcases htype with e | e <;> subst e <;> simp [OffsetType.divisor]
  have hbias : t.bias = 0 := by rcases htype with e | e <;> subst e <;> rfl
  have hpw := ascending_pairwise _ f1
  -- old offsets are multiples of the divisor
  have hodiv : ∀ o ∈ (gvarArray b v).offsets, o % t.divisor = 0 := by
    intro o ho
    rcases htype with e | e
    · subst e; simp [OffsetType.divisor, Nat.mod_one]
    · subst e
      have hl := hshort rfl
      obtain ⟨_, _, _, _, _, hoffs⟩ := gvarRead_some b v hr
      simp only [gvarArray] at ho
      rw [hoffs, hl] at ho
      simp only [gvarOffsets, Bool.false_eq_true, if_false, List.mem_map] at ho
      obtain ⟨r, _, hre⟩ := ho
      subst hre
      simp [OffsetType.divisor]
  have hcsdiv : ∀ c ∈ cs, c.length % t.divisor = 0 := by
    intro c hc
    obtain ⟨g, hg', he⟩ := List.mem_iff_getElem.mp hc
    subst hcs
    rw [chunks_getElem] at he
    rw [← he]
    rw [chunks_length] at hg'
    exact chunk_len_div _ t repl m g hdivb hodiv hpw f3 (by omega)
  have hos_div := newOffsets_div t.divisor cs hcsdiv
  have hos_b : ∀ o ∈ newOffsets cs, o / t.divisor < 2 ^ (t.width * 8) := by
    intro o ho
    have h1 := newOffsets_le_last cs o ho
    rw [hbias, Nat.add_zero] at f2
    have hpos : 0 < t.divisor := by rcases hdivb with e | e <;> omega
    exact Nat.lt_of_le_of_lt (Nat.div_le_div_right h1) f2
  rw [e2] at hout
  have hrb := gvar_readback b v hr t htype (newOffsets cs) tuples data
    (by rw [newOffsets_length, hcslen, hgc]) hos_div hos_b
  -- size of the emitted table
  have hsize : 20 + (encodeOffs t (newOffsets cs)).length + tuples.length < 2 ^ 32 := by
    have hl : out.length = 20 + (encodeOffs t (newOffsets cs)).length + tuples.length + data.length := by
      rw [hout]
      obtain ⟨h16, _⟩ := gvarRead_some b v hr
      obtain ⟨b0, b1, b2, b3, b4, b5, b6, b7, b8, b9, b10, b11, b12, b13, b14, b15, rest, hbe⟩ :=
        exists_prefix16 b h16
      unfold gvarEmit
      rw [hbe]
      simp [sliceLen, beBytes4]
      omega
    omega
  obtain ⟨v', r0, r1, r2, r3, r4, r5, r6, r7, r8, r9, r10⟩ := hrb hsize
  rw [← hout] at r0 r8 r9 r10
  have htl := gvarSharedTuples_len b v tuples hst
  refine ⟨v', r0, r1, r2, r3, r4, ?_, ?_, ?_, ?_, ?_, ?_, ?_⟩
  · -- shared tuples preserved
    rw [hst]
    unfold gvarSharedTuples
    rw [r7, r1, r2, ← htl]
    by_cases htz : tuples.length = 0
    · have : tuples = [] := List.eq_nil_of_length_eq_zero htz
      subst this
      simp only [List.length_nil, if_true, Nat.add_zero]
      rw [if_neg (by omega), if_neg (by rw [r8]; simp), if_neg (by omega)]
      simp [sliceLen]
    · simp only [htz, if_false]
      rw [if_neg (by omega), if_neg (by rw [r8]; omega), if_neg (by rw [r8]; omega), r10]
  · rw [r5, newOffsets_length, hcslen]
  · rw [r5]; exact newOffsets_first cs
  · rw [r5, r6, r9, e1]
    have := newOffsets_last cs
    rw [hcslen] at this; exact this
  · rw [r5]; exact newOffsets_pairwise cs
  · intro g d hfw
    rw [← hlk g] at hfw
    exact f4 _ (lookup_some_mem repl g d hfw)
  · intro g hg
    rw [r5, r6, r9, e1, newOffsets_glyphAt cs g (by rw [hcslen]; omega)]
    subst hcs
    rw [chunks_getElem]
    unfold chunkFor
    rw [hlk g]
    cases firstWins TAG_gvar gps g <;> rfl

/-! ## grouping: apply some patches to the table, then the rest to the result -/

/-- the pieces of a successful gvar arm -/
theorem gvarPatch_parts (b : Bytes) (gps : List GlyphPatches) (m : Nat) (out : Bytes)
    (h : gvarPatch (some b) gps m = .ok out) :
    ∃ v repl t tuples, gvarRead b = some v ∧ dedup TAG_gvar gps = .ok repl ∧
      (t = .long ∨ t = .shortDivByTwo) ∧ gvarSharedTuples b v = .ok tuples ∧
      out = gvarEmit b t (encodeOffs t (newOffsets (chunks (gvarArray b v) t repl m))) tuples
        (chunks (gvarArray b v) t repl m).flatten ∧
      (∀ o ∈ newOffsets (chunks (gvarArray b v) t repl m), o % t.divisor = 0) ∧
      (∀ o ∈ newOffsets (chunks (gvarArray b v) t repl m), o / t.divisor < 2 ^ (t.width * 8)) := by
  obtain ⟨v, repl, t, data, offs, hr, hd, hp, hasm⟩ := gvarPatch_ok b gps m out h
  obtain ⟨hsort, _, hlk⟩ := dedup_spec TAG_gvar gps repl hd
  obtain ⟨e1, e2⟩ := patchOffsetArray_eq _ repl m (gvarArray_ascSound b v) hsort t data offs hp
  obtain ⟨f1, f2, f3, f4⟩ := patchOffsetArray_facts _ repl m (gvarArray_ascSound b v) hsort t data offs hp
  obtain ⟨total, ht1, ht2, _, _⟩ := patchOffsetArray_ok _ repl m t data offs hp
  obtain ⟨htype, hshort⟩ := gvar_type b v total t ht2
  obtain ⟨tuples, hst, hdne, hout, _⟩ := gvarAssemble_ok b v t data offs out hasm
  refine ⟨v, repl, t, tuples, hr, hd, htype, hst, ?_⟩
  generalize hcs : chunks (gvarArray b v) t repl m = cs at e1 e2 f2 ⊢
  have hdivb : t.divisor = 1 ∨ t.divisor = 2 := by
    rcases htype with e | e <;> subst e <;> simp [OffsetType.divisor]
  have hbias : t.bias = 0 := by rcases htype with e | e <;> subst e <;> rfl
  have hpw := ascending_pairwise _ f1
  have hodiv : ∀ o ∈ (gvarArray b v).offsets, o % t.divisor = 0 := by
    intro o ho
    rcases htype with e | e
    · subst e; simp [OffsetType.divisor, Nat.mod_one]
    · subst e
      have hl := hshort rfl
      obtain ⟨_, _, _, _, _, hoffs⟩ := gvarRead_some b v hr
      simp only [gvarArray] at ho
      rw [hoffs, hl] at ho
      simp only [gvarOffsets, Bool.false_eq_true, if_false, List.mem_map] at ho
      obtain ⟨r, _, hre⟩ := ho
      subst hre
      simp [OffsetType.divisor]
  have hcsdiv : ∀ c ∈ cs, c.length % t.divisor = 0 := by
    intro c hc
    obtain ⟨g, hg', he⟩ := List.mem_iff_getElem.mp hc
    subst hcs
    rw [chunks_getElem] at he
    rw [← he]
    rw [chunks_length] at hg'
    exact chunk_len_div _ t repl m g hdivb hodiv hpw f3 (by omega)
  have hos_div := newOffsets_div t.divisor cs hcsdiv
  have hos_b : ∀ o ∈ newOffsets cs, o / t.divisor < 2 ^ (t.width * 8) := by
    intro o ho
    have h1 := newOffsets_le_last cs o ho
    rw [hbias, Nat.add_zero] at f2
    have hpos : 0 < t.divisor := by rcases hdivb with e | e <;> omega
    exact Nat.lt_of_le_of_lt (Nat.div_le_div_right h1) f2
  refine ⟨?_, hos_div, hos_b⟩
  rw [hout, e1, e2]

/-- the emitted table read back as the view the next application starts from -/
theorem gvar_readback_view (b : Bytes) (v : GvarView) (hr : gvarRead b = some v) (t : OffsetType)
    (ht : t = .long ∨ t = .shortDivByTwo) (cs : List Bytes) (tuples : Bytes)
    (hst : gvarSharedTuples b v = .ok tuples) (hlen : cs.length = v.glyphCount)
    (hdiv : ∀ o ∈ newOffsets cs, o % t.divisor = 0)
    (hb : ∀ o ∈ newOffsets cs, o / t.divisor < 2 ^ (t.width * 8))
    (hsz : (gvarEmit b t (encodeOffs t (newOffsets cs)) tuples cs.flatten).length < 2 ^ 32) :
    ∃ v', gvarRead (gvarEmit b t (encodeOffs t (newOffsets cs)) tuples cs.flatten) = some v' ∧
      v'.glyphCount = v.glyphCount ∧ v'.long = decide (t = .long) ∧ v'.offsets = newOffsets cs ∧
      (gvarEmit b t (encodeOffs t (newOffsets cs)) tuples cs.flatten).drop v'.arrayOffset = cs.flatten ∧
      gvarSharedTuples (gvarEmit b t (encodeOffs t (newOffsets cs)) tuples cs.flatten) v' = .ok tuples := by
  have hnl : (newOffsets cs).length = v.glyphCount + 1 := by rw [newOffsets_length, hlen]
  have hsize : 20 + (encodeOffs t (newOffsets cs)).length + tuples.length < 2 ^ 32 := by
    have hl : (gvarEmit b t (encodeOffs t (newOffsets cs)) tuples cs.flatten).length
        = 20 + (encodeOffs t (newOffsets cs)).length + tuples.length + cs.flatten.length := by
      obtain ⟨h16, _⟩ := gvarRead_some b v hr
      obtain ⟨b0, b1, b2, b3, b4, b5, b6, b7, b8, b9, b10, b11, b12, b13, b14, b15, rest, hbe⟩ :=
        exists_prefix16 b h16
      unfold gvarEmit
      rw [hbe]
      simp [sliceLen, beBytes4]
      omega
    omega
  obtain ⟨v', r0, r1, r2, r3, r4, r5, r6, r7, r8, r9, r10⟩ :=
    gvar_readback b v hr t ht (newOffsets cs) tuples cs.flatten hnl hdiv hb hsize
  have htl := gvarSharedTuples_len b v tuples hst
  refine ⟨v', r0, r3, r4, r5, by rw [r6]; exact r9, ?_⟩
  unfold gvarSharedTuples
  rw [r7, r1, r2, ← htl]
  by_cases htz : tuples.length = 0
  · have : tuples = [] := List.eq_nil_of_length_eq_zero htz
    subst this
    simp only [List.length_nil, if_true, Nat.add_zero]
    rw [if_neg (by omega), if_neg (by rw [r8]; simp), if_neg (by omega)]
    simp [sliceLen]
  · simp only [htz, if_false]
    rw [if_neg (by omega), if_neg (by rw [r8]; omega), if_neg (by rw [r8]; omega), r10]

/-- bit 0 of the flags field of a gvar table: 1 = long offsets -/
def gvarLongBit (x : Bytes) : Nat := (x.drop 15).headD 0 % 2

/-- the header bytes the next application copies, in the emitted table -/
theorem gvarEmit_header (b : Bytes) (t : OffsetType) (offs tuples data : Bytes) (h : 15 ≤ b.length) :
    (gvarEmit b t offs tuples data).take 8 = b.take 8 ∧
    sliceLen (gvarEmit b t offs tuples data) 12 3 = sliceLen b 12 3 ∧
    ((gvarEmit b t offs tuples data).drop 15).headD 0 = gvarFlagByte b t := by
  have hA : (b.take 8).length = 8 := by simp; omega
  have hC : (sliceLen b 12 3).length = 3 := sliceLen_length b 12 3 (by omega)
  unfold gvarEmit
  generalize b.take 8 = A at hA
  generalize sliceLen b 12 3 = C at hC
  generalize hB : beBytes 4 (if tuples.length = 0 then 20 + offs.length + tuples.length else 20 + offs.length) = B
  have hBl : B.length = 4 := by rw [← hB, beBytes_len]
  generalize beBytes 4 (20 + offs.length + tuples.length) = B'
  generalize gvarFlagByte b t = f
  have e : A ++ B ++ C ++ [f] ++ B' ++ offs ++ tuples ++ data
      = A ++ (B ++ (C ++ (f :: (B' ++ offs ++ tuples ++ data)))) := by
    simp only [List.append_assoc, List.singleton_append, List.cons_append, List.nil_append]
  rw [e]
  refine ⟨List.take_left' hA, ?_, ?_⟩
  · unfold sliceLen
    rw [show (12 : Nat) = A.length + B.length by omega, ← List.drop_drop, List.drop_left' rfl,
      List.drop_left' rfl]
    exact List.take_left' hC
  · rw [show (15 : Nat) = A.length + (B.length + C.length) by omega, ← List.drop_drop, List.drop_left' rfl,
      ← List.drop_drop, List.drop_left' rfl, List.drop_left' rfl]
    rfl

theorem gvarFlagByte_longBit (b : Bytes) (t : OffsetType) (ht : t = .long ∨ t = .shortDivByTwo) :
    gvarFlagByte b t % 2 = if t = .long then 1 else 0 := by
  unfold gvarFlagByte
  rcases ht with e | e <;> subst e
  · simp only [OffsetType.width, if_true]; exact or_one_mod_two _
  · simp only [OffsetType.width, show ¬ (2 = 4) by decide, if_false, reduceCtorEq]; exact and_254_mod_two _

/-- re-emitting an emitted gvar with the same offset type copies the same header -/
theorem gvarEmit_emit (b : Bytes) (t : OffsetType) (offs tuples data offs' tuples' data' : Bytes)
    (h : 16 ≤ b.length) :
    gvarEmit (gvarEmit b t offs tuples data) t offs' tuples' data' = gvarEmit b t offs' tuples' data' := by
  obtain ⟨h1, h2, h3⟩ := gvarEmit_header b t offs tuples data (by omega)
  have hf : gvarFlagByte (gvarEmit b t offs tuples data) t = gvarFlagByte b t := by
    conv => lhs; unfold gvarFlagByte
    rw [h3]
    unfold gvarFlagByte
    by_cases hw : t.width = 4
    · simp only [hw, if_true, Nat.or_assoc]; rfl
    · simp only [hw, if_false, Nat.and_assoc]; rfl
  unfold gvarEmit at *
  rw [h1, h2, hf]

/-- **grouping of the gvar arm.**  If the intermediate table and the two final tables use the same
offset width (long-offsets flag), patching with `gps1` and then patching the result with `gps2`
yields byte for byte the table that patching with `gps1 ++ gps2` in one go yields.  (Without the
width condition the tables can differ in the flag, the offset encoding and the zero pad byte short
offsets force after odd-length data — known finding C18-offset-width-history-dependent.) -/
theorem gvarPatch_two_step (b : Bytes) (gps1 gps2 : List GlyphPatches) (m : Nat) (out1 out2 out12 : Bytes)
    (hgc : ∀ v, gvarRead b = some v → v.glyphCount = m + 1) (hsz : out1.length < 2 ^ 32)
    (hagree : Agree TAG_gvar (gps1 ++ gps2))
    (h1 : gvarPatch (some b) gps1 m = .ok out1)
    (h2 : gvarPatch (some out1) gps2 m = .ok out2)
    (h12 : gvarPatch (some b) (gps1 ++ gps2) m = .ok out12)
    (hw1 : gvarLongBit out1 = gvarLongBit out12) (hw2 : gvarLongBit out2 = gvarLongBit out12) :
    out2 = out12 := by
  obtain ⟨v, repl1, t1, tuples, hr, hd1, ht1, hst, e1, hdiv1, hb1⟩ := gvarPatch_parts b gps1 m out1 h1
  obtain ⟨v1, repl2, t2, tuples2, hr1, hd2, ht2, hst2, e2, _, _⟩ := gvarPatch_parts out1 gps2 m out2 h2
  obtain ⟨v', repl12, t12, tuples', hr', hd12, ht12, hst', e12, _, _⟩ :=
    gvarPatch_parts b (gps1 ++ gps2) m out12 h12
  rw [hr] at hr'; cases hr'
  rw [hst] at hst'; cases hst'
  obtain ⟨h16, _⟩ := gvarRead_some b v hr
  have hvg := hgc v hr
  generalize hcs1 : chunks (gvarArray b v) t1 repl1 m = cs1 at e1 hdiv1 hb1
  have hcs1len : cs1.length = v.glyphCount := by rw [← hcs1, chunks_length, hvg]
  -- the widths agree
  have hbit : ∀ (x : Bytes) (t : OffsetType) (o tu d : Bytes), 16 ≤ x.length → (t = .long ∨ t = .shortDivByTwo) →
      gvarLongBit (gvarEmit x t o tu d) = if t = .long then 1 else 0 := by
    intro x t o tu d hx ht
    unfold gvarLongBit
    rw [(gvarEmit_header x t o tu d (by omega)).2.2]
    exact gvarFlagByte_longBit x t ht
  have h16' : 16 ≤ out1.length := (gvarRead_some out1 v1 hr1).1
  have ht1_12 : t1 = t12 := by
    rw [e1, e12, hbit b t1 _ _ _ h16 ht1, hbit b t12 _ _ _ h16 ht12] at hw1
    rcases ht1 with a | a <;> rcases ht12 with c | c <;> subst a c <;> simp at hw1 ⊢
  have ht2_12 : t2 = t12 := by
    rw [e2, e12, hbit out1 t2 _ _ _ h16' ht2, hbit b t12 _ _ _ h16 ht12] at hw2
    rcases ht2 with a | a <;> rcases ht12 with c | c <;> subst a c <;> simp at hw2 ⊢
  subst t12
  subst t2
  -- the intermediate table as the second application sees it
  obtain ⟨w, rw0, rw1, rw2, rw3, rw4, rw5⟩ :=
    gvar_readback_view b v hr t1 ht1 cs1 tuples hst hcs1len hdiv1 hb1 (by rw [← e1]; exact hsz)
  rw [← e1] at rw0 rw4 rw5
  rw [hr1] at rw0; cases rw0
  rw [rw5] at hst2; cases hst2
  -- both routes build the same chunks
  obtain ⟨_, _, lk1⟩ := dedup_spec TAG_gvar gps1 repl1 hd1
  obtain ⟨_, _, lk2⟩ := dedup_spec TAG_gvar gps2 repl2 hd2
  obtain ⟨_, _, lk12⟩ := dedup_spec TAG_gvar (gps1 ++ gps2) repl12 hd12
  have hchunks : chunks (gvarArray out1 v1) t1 repl2 m = chunks (gvarArray b v) t1 repl12 m := by
    apply List.ext_getElem
    · rw [chunks_length, chunks_length]
    · intro g hga hgb
      rw [chunks_getElem, chunks_getElem]
      rw [chunks_length] at hga
      apply chunkFor_two_step (gvarArray b v) _ t1 repl1 repl2 repl12 m g hga
      · show v1.offsets = _
        rw [rw3, hcs1]
      · show out1.drop v1.arrayOffset = _
        rw [rw4, hcs1]
      · rw [lk12 g, lk1 g, lk2 g, firstWins_append]
      · intro d1 d2 hf1 hf2
        rw [lk1 g] at hf1
        rw [lk2 g] at hf2
        have m1 : (g, d1) ∈ (gps1 ++ gps2).flatMap (patchData TAG_gvar) := by
          rw [List.flatMap_append]; exact List.mem_append_left _ (lookup_some_mem _ g d1 hf1)
        have m2 : (g, d2) ∈ (gps1 ++ gps2).flatMap (patchData TAG_gvar) := by
          rw [List.flatMap_append]; exact List.mem_append_right _ (lookup_some_mem _ g d2 hf2)
        exact agree_flat TAG_gvar _ hagree g d1 d2 m1 m2
  rw [e2, e12, hchunks]
  conv => lhs; rw [e1]
  exact gvarEmit_emit b t1 _ _ _ _ _ _ h16

end FontVerif.Ift
