/-
C04 ⇄ C05, DSL lift, part 3: a nested write (`emitN`) whose value tree is found in the output at `hd` (`TableAt`) is a
run of `emitAt` that reproduces the table's own bytes of the output, and every non-null offset it finds there leads to
the child table.
-/
import FontVerif.Lemmas.FieldNested2
set_option linter.unusedVariables false
set_option linter.unusedSimpArgs false
namespace FontVerif.FieldNested
open FontVerif FontVerif.Field FontVerif.TableWriter FontVerif.C04

theorem take_split (S : List Nat) (len a n : Nat) :
    (S.drop len).take (a + n) = (S.drop len).take a ++ (S.drop (len + a)).take n := by
  rw [List.take_add, List.drop_drop]

theorem adjAfter_zero (fs : Fields) : adjAfter fs 0 = 0 := by
  induction fs with
  | nil => rfl
  | bytes b r ih => exact ih
  | null w r ih => exact ih
  | link w ty c r ihc ihr => simp only [adjAfter, ihc, ihr]
  | adjust n b r _ ihr => simp only [adjAfter, ihr]
  | pad2 r ih => exact ih

theorem emitField_view (ext : Ext) (o : Obj) (v1 v2 : View) (w : WF) (h : condHolds v1 w.cond = condHolds v2 w.cond) :
    emitField ext o v1 w = emitField ext o v2 w := by
  unfold emitField
  rw [h]

theorem numAt_of_lookup (v : View) (f n : Nat) (h : v.lookup f = some (.num n)) : numAt v f = n := by
  simp only [numAt, h]

/-- the kids found by one run: for every offset statement that is present, a null child reads 0 and a non-null child
is the table at `hd + offset` -/
def KidsAt (slots : Slots) (kids : Kids) (out : List Nat) (hd : Nat) (ws : List WF) (vA : View) : Prop :=
  ∀ w ∈ ws, ∀ width, slotW slots w.id = some width → condHolds vA w.cond = true →
    match kids w.id with
    | none => numAt vA w.id = 0
    | some (_, c) => TableAt out (hd + numAt vA w.id) c 0

theorem emitN_emitAt (ext : Ext) (o : Obj) (slots : Slots) (kids : Kids) (out : List Nat) (hd : Nat) :
    ∀ (ws pre : List WF) (vN vA : View) (len : Nat) (fs : Fields) (vN' : View),
      emitN ext o slots kids ws vN = some (fs, vN') → wfW pre ws = true → slotOK slots ws = true →
      AgreeOff slots vN vA → SegAgrees (out.drop hd) fs len → ReadsAs out hd fs len 0 → len + lenN fs < U32 →
      ∃ vA', emitAt ext o slots (out.drop hd) ws vA len = some (((out.drop hd).drop len).take (lenN fs), vA') ∧
        AgreeOff slots vN' vA' ∧ KidsAt slots kids out hd ws vA' := by
  intro ws
  induction ws with
  | nil =>
    intro pre vN vA len fs vN' h _ _ hag _ _ _
    simp only [emitN, Option.some.injEq, Prod.mk.injEq] at h
    obtain ⟨h1, h2⟩ := h
    subst h1 h2
    exact ⟨vA, by simp [emitAt, lenN], hag, fun w hw => by cases hw⟩
  | cons w ws ih =>
    intro pre vN vA len fs vN' h hwf hok hag hseg hread hlen
    obtain ⟨hok1, hokr⟩ := slotOK_cons slots w ws hok
    have hwf' := hwf
    simp only [wfW, Bool.and_eq_true, Bool.not_eq_true'] at hwf'
    obtain ⟨⟨hfreshPre, hcok⟩, hwfr⟩ := hwf'
    have F1 : ∀ w' ∈ ws, w'.id ≠ w.id := fun w' hw' he =>
      wfW_fresh ws (w :: pre) hwfr w' hw' w List.mem_cons_self he.symm
    have F2 : ∀ vf cc, w.cond = some (vf, cc) → vf ≠ w.id ∧ ∀ w' ∈ ws, w'.id ≠ vf := by
      intro vf cc hc
      rw [hc] at hcok
      simp only [condOk, List.any_eq_true, beq_iff_eq] at hcok
      obtain ⟨p, hp, hpid⟩ := hcok
      constructor
      · intro he
        have : pre.any (fun p => p.id == w.id) = true := by
          simp only [List.any_eq_true, beq_iff_eq]
          exact ⟨p, hp, by rw [hpid, he]⟩
        rw [hfreshPre] at this
        cases this
      · intro w' hw' he
        exact wfW_fresh ws (w :: pre) hwfr w' hw' p (List.mem_cons_of_mem _ hp) (by rw [hpid, he])
    have hcondeq : condHolds vN w.cond = condHolds vA w.cond :=
      condHolds_agree slots vN vA w.cond hag (slotOK_cond slots w hok1)
    -- the condition of `w` evaluated on any final view of a run of the remaining statements
    have hcondfin : ∀ (e : Nat × Val) (bs : Bytes) (vF : View) (len' : Nat), e.1 = w.id →
        emitAt ext o slots (out.drop hd) ws (e :: vA) len' = some (bs, vF) →
        condHolds vF w.cond = condHolds vA w.cond := by
      intro e bs vF len' he hrun
      apply condHolds_congr
      intro vf cc hc
      obtain ⟨g1, g2⟩ := F2 vf cc hc
      rw [emitAt_lookup ext o slots _ ws _ _ _ _ hrun vf g2]
      obtain ⟨e1, e2⟩ := e
      simp only [] at he
      subst he
      exact lookup_cons_ne vA _ vf e2 g1
    simp only [emitN] at h
    simp only [emitAt]
    split at h
    · rename_i width hs
      obtain ⟨hitem, hw⟩ := slotOK_slot slots w width hok1 hs
      obtain ⟨e1, e2⟩ := lenOf_simple width hw
      simp only [hs]
      split at h
      · rename_i hc
        rw [hcondeq] at hc
        rw [if_pos hc]
        split at h
        · -- null child
          rename_i hk
          split at h
          · rename_i fs' v' hrec
            simp only [Option.some.injEq, Prod.mk.injEq] at h
            obtain ⟨h1, h2⟩ := h
            subst h1 h2
            obtain ⟨hz, hsegr⟩ := hseg
            simp only [lenN] at hlen
            have hx : beVal (((out.drop hd).drop len).take width) = 0 := by rw [hz, beVal_replicate_zero]
            obtain ⟨vA', hrun, hag', hkids⟩ := ih (w :: pre) _ ((w.id, .num 0) :: vA) (len + width) fs' v' hrec hwfr
              hokr (AgreeOff.cons_same slots vN vA _ hag) hsegr hread (by omega)
            refine ⟨vA', ?_, hag', ?_⟩
            · rw [hx, if_pos (Nat.pow_pos (by omega)), hrun]
              simp only [lenN, Option.some.injEq, Prod.mk.injEq, and_true]
              rw [take_split, be_zero, hz]
            · intro w' hw' width' hs' hc'
              rcases List.mem_cons.mp hw' with rfl | hw'
              · rw [hk]
                simp only []
                apply numAt_of_lookup
                rw [emitAt_lookup ext o slots _ ws _ _ _ _ hrun w'.id F1]
                simp [List.lookup]
              · exact hkids w' hw' width' hs' hc'
          · cases h
        · -- non-null child
          rename_i ty c hk
          split at h
          · rename_i fs' v' hrec
            simp only [Option.some.injEq, Prod.mk.injEq] at h
            obtain ⟨h1, h2⟩ := h
            subst h1 h2
            obtain ⟨⟨x0, hx0, hslot⟩, hsegr⟩ := hseg
            simp only [lenN] at hlen
            have hx : beVal (((out.drop hd).drop len).take width) = x0 := by rw [hslot, beVal_be _ _ hx0]
            obtain ⟨_, _, hcopy, hchild, hrest⟩ := hread
            rw [adjAfter_zero, e1, Nat.mod_eq_of_lt (by omega : len < U32), Nat.add_zero] at hcopy hchild
            rw [adjAfter_zero, e2] at hrest
            have hval : beValue ((out.drop (hd + len)).take width) = x0 := by
              rw [← hx, List.drop_drop]; rfl
            rw [hval] at hcopy hchild
            obtain ⟨vA', hrun, hag', hkids⟩ := ih (w :: pre) _ ((w.id, .num x0) :: vA) (len + width) fs' v' hrec hwfr
              hokr (AgreeOff.cons_slot slots vN vA w.id _ _ (by rw [hs]; simp) hag) hsegr hrest (by omega)
            refine ⟨vA', ?_, hag', ?_⟩
            · rw [hx, if_pos hx0, hrun]
              simp only [lenN, Option.some.injEq, Prod.mk.injEq, and_true]
              rw [take_split, hslot]
            · intro w' hw' width' hs' hc'
              rcases List.mem_cons.mp hw' with rfl | hw'
              · rw [hk]
                simp only []
                have : numAt vA' w'.id = x0 := by
                  apply numAt_of_lookup
                  rw [emitAt_lookup ext o slots _ ws _ _ _ _ hrun w'.id F1]
                  simp [List.lookup]
                rw [this]
                exact ⟨hcopy, hchild⟩
              · exact hkids w' hw' width' hs' hc'
          · cases h
      · rename_i hc
        rw [hcondeq] at hc
        rw [if_neg hc]
        obtain ⟨vA', hrun, hag', hkids⟩ := ih (w :: pre) _ ((w.id, .absent) :: vA) len fs vN' h hwfr hokr
          (AgreeOff.cons_same slots vN vA _ hag) hseg hread hlen
        refine ⟨vA', hrun, hag', ?_⟩
        intro w' hw' width' hs' hc'
        rcases List.mem_cons.mp hw' with rfl | hw'
        · rw [hcondfin (w'.id, .absent) _ vA' len rfl hrun] at hc'
          exact absurd hc' hc
        · exact hkids w' hw' width' hs' hc'
    · rename_i hs
      simp only [hs]
      rw [← emitField_view ext o vN vA w hcondeq]
      split at h
      · cases h
      · rename_i b v hf
        split at h
        · rename_i fs' v' hrec
          simp only [Option.some.injEq, Prod.mk.injEq] at h
          obtain ⟨h1, h2⟩ := h
          subst h1 h2
          obtain ⟨hb, hsegr⟩ := hseg
          simp only [lenN] at hlen
          obtain ⟨vA', hrun, hag', hkids⟩ := ih (w :: pre) _ ((w.id, v) :: vA) (len + b.length) fs' v' hrec hwfr
            hokr (AgreeOff.cons_same slots vN vA _ hag) hsegr hread (by omega)
          refine ⟨vA', ?_, hag', ?_⟩
          · rw [hf]
            simp only [hrun, lenN, Option.some.injEq, Prod.mk.injEq, and_true]
            rw [take_split, hb]
          · intro w' hw' width' hs' hc'
            rcases List.mem_cons.mp hw' with rfl | hw'
            · rw [hs] at hs'; cases hs'
            · exact hkids w' hw' width' hs' hc'
        · cases h

/-! ### the owned value with the offsets the packer stored -/

/-- the owned value whose offset scalars are the offsets found in the output: `o` with the offset fields replaced by
the entries of `vA` -/
def patchObj (slots : Slots) (o : Obj) (vA : View) : Obj :=
  vA.filter (fun e => (slotW slots e.1).isSome) ++ o

theorem lookup_filter_slot (slots : Slots) (vA : View) (f : Nat) :
    (vA.filter (fun e => (slotW slots e.1).isSome)).lookup f = if (slotW slots f).isSome then vA.lookup f else none := by
  induction vA with
  | nil => simp [List.lookup]
  | cons e rest ih =>
    obtain ⟨k, v⟩ := e
    simp only [List.filter]
    cases hk : (slotW slots k).isSome with
    | true =>
      simp only [List.lookup]
      by_cases hf : f = k
      · subst hf; simp [hk]
      · have : (f == k) = false := by simpa using hf
        simp only [this, ih]
    | false =>
      simp only [List.lookup]
      by_cases hf : f = k
      · subst hf; simp [hk, ih]
      · have : (f == k) = false := by simpa using hf
        simp only [this, ih]

theorem patch_get_nonslot (slots : Slots) (o : Obj) (vA : View) (f : Nat) (h : slotW slots f = none) :
    (patchObj slots o vA).get f = o.get f := by
  unfold patchObj Obj.get
  rw [List.lookup_append, lookup_filter_slot, h]
  simp

theorem patch_get_slot (slots : Slots) (o : Obj) (vA : View) (f x : Nat) (h : slotW slots f ≠ none)
    (hl : vA.lookup f = some (.num x)) : (patchObj slots o vA).get f = .num x := by
  unfold patchObj Obj.get
  have : (slotW slots f).isSome = true := by
    cases hs : slotW slots f with
    | none => exact absurd hs h
    | some _ => rfl
  rw [List.lookup_append, lookup_filter_slot, this, if_pos rfl, hl]
  simp

/-- the offset fields of `Gdef` (write-fonts generated_gdef.rs): glyph class def, attach list, lig caret list, mark attach
class def (16-bit), mark glyph sets (16-bit, version ≥ 1.2), item variation store (32-bit, version ≥ 1.3) -/
def gdefSlots : Slots := [(1, 2), (2, 2), (3, 2), (4, 2), (5, 2), (6, 4)]

end FontVerif.FieldNested
