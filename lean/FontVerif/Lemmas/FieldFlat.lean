/- C04: a record's own writer program writes exactly the flat element its parent's array item describes
(`wShape`, `emitVals`, `shapeWidths` of Model/Field.lean) -/
import FontVerif.Lemmas.Field
set_option linter.unusedVariables false

namespace FontVerif.Field

theorem emitRec_append : ∀ (s1 x1 : List Nat) (a : Bytes) (s2 x2 : List Nat) (b : Bytes),
    emitRec s1 x1 = some a → emitRec s2 x2 = some b → emitRec (s1 ++ s2) (x1 ++ x2) = some (a ++ b)
  | [], [], a, s2, x2, b, h1, h2 => by simp [emitRec] at h1; simp [h1, h2]
  | [], _ :: _, a, s2, x2, b, h1, h2 => by simp [emitRec] at h1
  | _ :: _, [], a, s2, x2, b, h1, h2 => by simp [emitRec] at h1
  | s :: s1, x :: x1, a, s2, x2, b, h1, h2 => by
    simp only [emitRec] at h1
    split at h1
    · rename_i hx
      split at h1
      · rename_i a' ha'
        injection h1 with h1
        subst h1
        have ih := emitRec_append s1 x1 a' s2 x2 b ha' h2
        simp only [List.cons_append, emitRec, if_pos hx, ih, List.append_assoc]
      · cases h1
    · cases h1

/-- an array of fixed-size records is the flat list of its scalars written with the repeated widths -/
theorem emitRecs_flat (elem : List Nat) : ∀ (xs : List (List Nat)) (b : Bytes), emitRecs elem xs = some b →
    emitRec (repGroup xs.length elem) xs.flatten = some b
  | [], b, h => by simp [emitRecs] at h; simp [h, repGroup, emitRec]
  | r :: rs, b, h => by
    simp only [emitRecs] at h
    split at h
    · rename_i a b' ha hb
      injection h with h
      subst h
      have ih := emitRecs_flat elem rs b' hb
      simp only [List.length_cons, repGroup, List.flatten_cons]
      exact emitRec_append elem r a _ _ b' ha ih
    · cases h

theorem emitRecsV_flat (pre : List Nat) (tail : Nat) (hp : pre.all (· == tail) = true) :
    ∀ (xs : List (List Nat)) (b : Bytes), emitRecsV pre tail xs = some b →
    emitRec (List.replicate xs.flatten.length tail) xs.flatten = some b
  | [], b, h => by simp [emitRecsV] at h; simp [h, emitRec]
  | r :: rs, b, h => by
    simp only [emitRecsV] at h
    split at h
    · rename_i hle
      split at h
      · rename_i a b' ha hb
        injection h with h
        subst h
        have ih := emitRecsV_flat pre tail hp rs b' hb
        have hpre : pre = List.replicate pre.length tail := by
          apply List.eq_replicate_iff.mpr
          refine ⟨rfl, ?_⟩
          intro x hx
          have := List.all_eq_true.mp hp x hx
          simpa using this
        have hw : wWidths pre tail r.length = List.replicate r.length tail := by
          unfold wWidths
          rw [hpre, List.length_replicate, List.replicate_append_replicate]
          congr 1
          omega
        rw [hw] at ha
        simp only [List.flatten_cons, List.length_append, ← List.replicate_append_replicate]
        exact emitRec_append _ r a _ _ b' ha ih
      · cases h
    · cases h

theorem repGroup_length (elem : List Nat) : ∀ n, (repGroup n elem).length = n * elem.length
  | 0 => by simp [repGroup]
  | n + 1 => by simp [repGroup, repGroup_length elem n, Nat.succ_mul]; omega

/-- one unconditional statement: its bytes are its scalars written with the widths of its flat layout -/
theorem itemShape_emit (ext : Ext) (o : Obj) (view : View) (w : WF) (b : Bytes) (v : Val) (sh : FlatShape)
    (hc : w.cond = none) (hs : itemShape w.item = some sh) (he : emitField ext o view w = some (b, v)) :
    emitRec (shapeWidths sh (itemVals v).length) (itemVals v) = some b ∧ sh.1.length ≤ (itemVals v).length ∧
      (sh.2 = none → (itemVals v).length = sh.1.length) := by
  unfold emitField at he
  rw [hc] at he
  simp only [condHolds, if_true] at he
  cases hw : w.item with
  | scalar src sz =>
    rw [hw] at he hs
    simp only [itemShape] at hs
    injection hs with hs
    subst hs
    simp only at he
    split at he
    · rename_i n hn
      split at he
      · rename_i hlt
        injection he with he
        injection he with he1 he2
        subst he1 he2
        simp [shapeWidths, itemVals, emitRec, hlt]
      · cases he
    · cases he
  | array elem fixed =>
    rw [hw] at he hs
    simp only at he
    split at he
    · rename_i xs hxs
      split at he
      · rename_i hfix
        split at he
        · rename_i bb hbb
          injection he with he
          injection he with he1 he2
          subst he1 he2
          have hflat := emitRecs_flat elem xs bb hbb
          have hlen := emitRec_widths_length _ _ _ hflat
          cases fixed with
          | some n =>
            simp only [itemShape] at hs
            injection hs with hs
            subst hs
            simp only [fixedOk, beq_iff_eq] at hfix
            subst hfix
            refine ⟨by simpa [shapeWidths, itemVals] using hflat, ?_, ?_⟩
            · simp only [itemVals]; omega
            · intro _; simp only [itemVals]; exact hlen
          | none =>
            cases elem with
            | nil => simp [itemShape] at hs
            | cons t r =>
              simp only [itemShape] at hs
              split at hs
              · rename_i hall
                injection hs with hs
                subst hs
                have hall' : (t :: r).all (· == t) = true := by simp [hall]
                have hrep := repGroup_all t (t :: r) hall' xs.length
                have hl2 := repGroup_length (t :: r) xs.length
                simp only [shapeWidths, wWidths, itemVals, List.nil_append, List.length_nil, Nat.sub_zero]
                rw [hlen, hl2, ← hrep]
                exact ⟨hflat, by simp, by intro h; cases h⟩
              · cases hs
        · cases he
      · cases he
    · cases he
  | arrayV pre tail fixed =>
    rw [hw] at he hs
    simp only at he
    split at he
    · rename_i xs hxs
      split at he
      · rename_i hfix
        split at he
        · rename_i bb hbb
          injection he with he
          injection he with he1 he2
          subst he1 he2
          by_cases h1 : fixed = some 1
          · subst h1
            simp only [itemShape] at hs
            injection hs with hs
            subst hs
            simp only [fixedOk, beq_iff_eq] at hfix
            match xs, hfix, hbb with
            | [x], _, hbb =>
              simp only [emitRecsV] at hbb
              split at hbb
              · rename_i hle
                split at hbb
                · rename_i a b' ha hb'
                  injection hb' with hb'
                  subst hb'
                  injection hbb with hbb
                  subst hbb
                  simp only [shapeWidths, itemVals, List.flatten_cons, List.flatten_nil, List.append_nil]
                  exact ⟨ha, hle, by intro h; cases h⟩
                · cases hbb
              · cases hbb
          · have hs' : (if pre.all (· == tail) then some (([] : List Nat), some tail) else none) = some sh := by
              cases fixed with
              | none => simpa [itemShape] using hs
              | some n =>
                cases n with
                | zero => simpa [itemShape] using hs
                | succ m =>
                  cases m with
                  | zero => exact absurd rfl h1
                  | succ m' => simpa [itemShape] using hs
            split at hs'
            · rename_i hall
              injection hs' with hs'
              subst hs'
              have := emitRecsV_flat pre tail hall xs bb hbb
              simp only [shapeWidths, wWidths, itemVals, List.nil_append, List.length_nil, Nat.sub_zero]
              exact ⟨this, by simp, by intro h; cases h⟩
            · cases hs'
        · cases he
      · cases he
    · cases he
  | arrayL hw' item =>
    rw [hw] at hs
    simp [itemShape] at hs

/-- **A record's writer program writes the flat element.**  If `wShape ws = some sh` (kernel-checked per record by the
generated `…_elem` obligations), then whenever the record's `write_into` succeeds, its bytes are exactly the scalars
it wrote, in order, written with the widths the flat layout `sh` gives to that many scalars — i.e. the element the
parent table's `WItem.array elem` (`sh = (elem, none)`) / `WItem.arrayV pre tail` (`sh = (pre, some tail)`) writes. -/
theorem wShape_emit (ext : Ext) (o : Obj) : ∀ (ws : List WF) (view : View) (sh : FlatShape) (bytes : Bytes) (view' : View),
    wShape ws = some sh → emit ext o ws view = some (bytes, view') →
    ∃ vals, emitVals ext o ws view = some vals ∧ emitRec (shapeWidths sh vals.length) vals = some bytes ∧
      sh.1.length ≤ vals.length ∧ (sh.2 = none → vals.length = sh.1.length)
  | [], view, sh, bytes, view', hs, he => by
    simp only [wShape] at hs
    injection hs with hs
    subst hs
    simp only [emit] at he
    injection he with he
    injection he with he1 _
    subst he1
    exact ⟨[], rfl, by simp [shapeWidths, emitRec], by simp, by simp⟩
  | w :: ws, view, sh, bytes, view', hs, he => by
    simp only [wShape] at hs
    split at hs
    · cases hs
    · rename_i hcond
      have hc : w.cond = none := by
        cases h : w.cond with
        | none => rfl
        | some _ => simp [h] at hcond
      split at hs
      · rename_i a b ha hb
        simp only [emit] at he
        split at he
        · cases he
        · rename_i bb v hf
          split at he
          · cases he
          · rename_i bs view'' hrec
            injection he with he
            injection he with he1 _
            subst he1
            obtain ⟨h1, h2, h3⟩ := itemShape_emit ext o view w bb v a hc ha hf
            obtain ⟨vs, hv, h4, h5, h6⟩ := wShape_emit ext o ws ((w.id, v) :: view) b bs view'' hb hrec
            refine ⟨itemVals v ++ vs, by simp only [emitVals, hf, hv], ?_⟩
            obtain ⟨p1, t1⟩ := a
            obtain ⟨p2, t2⟩ := b
            cases t1 with
            | none =>
              simp only [shapeCat] at hs
              injection hs with hs
              subst hs
              have hl1 := h3 rfl
              simp only at hl1 h2 h5 h6
              refine ⟨?_, by simp only [List.length_append]; omega, ?_⟩
              · cases t2 with
                | none =>
                  simp only [shapeWidths] at h1 h4 ⊢
                  exact emitRec_append _ _ _ _ _ _ h1 h4
                | some t =>
                  simp only [shapeWidths, wWidths] at h1 h4 ⊢
                  have := emitRec_append _ _ _ _ _ _ h1 h4
                  rw [List.append_assoc]
                  rw [show (itemVals v ++ vs).length - (p1 ++ p2).length = vs.length - p2.length by
                    simp only [List.length_append]; omega]
                  exact this
              · intro ht
                have := h6 ht
                simp only [List.length_append]
                omega
            | some t =>
              have hrep : ∀ (p : List Nat), p.all (· == t) = true → p = List.replicate p.length t := by
                intro p hp
                apply List.eq_replicate_iff.mpr
                refine ⟨rfl, ?_⟩
                intro x hx
                have := List.all_eq_true.mp hp x hx
                simpa using this
              simp only at h2 h5
              have key : ∀ (w2 : List Nat), w2 = List.replicate vs.length t → emitRec w2 vs = some bs →
                  emitRec (shapeWidths (p1, some t) (itemVals v ++ vs).length) (itemVals v ++ vs) = some (bb ++ bs) := by
                intro w2 hw2 hem
                simp only [shapeWidths, wWidths] at h1 ⊢
                have := emitRec_append _ _ _ _ _ _ h1 hem
                rw [hw2, List.append_assoc, List.replicate_append_replicate] at this
                rw [show (itemVals v ++ vs).length - p1.length = (itemVals v).length - p1.length + vs.length by
                  simp only [List.length_append]; omega]
                exact this
              cases t2 with
              | none =>
                simp only [shapeCat] at hs
                split at hs
                · rename_i hall
                  injection hs with hs
                  subst hs
                  have hl2 := h6 rfl
                  simp only at hl2
                  refine ⟨key p2 (by rw [hl2]; exact hrep p2 hall) (by simpa [shapeWidths] using h4), ?_, ?_⟩
                  · simp only [List.length_append]; omega
                  · intro h; cases h
                · cases hs
              | some t' =>
                simp only [shapeCat] at hs
                split at hs
                · rename_i hall
                  simp only [Bool.and_eq_true, beq_iff_eq] at hall
                  obtain ⟨htt, hall⟩ := hall
                  subst htt
                  injection hs with hs
                  subst hs
                  refine ⟨key (wWidths p2 t vs.length) ?_ (by simpa [shapeWidths] using h4), ?_, ?_⟩
                  · unfold wWidths
                    rw [hrep p2 hall, List.length_replicate, List.replicate_append_replicate]
                    congr 1
                    omega
                  · simp only [List.length_append]; omega
                  · intro h; cases h
                · cases hs
      · cases hs

/-! ## fixed-size records on the read side -/

/-- the view after reading the scalar fields `ids` with values `xs` -/
def pushNums : List Nat → List Nat → View → View
  | i :: is, x :: xs, v => pushNums is xs ((i, .num x) :: v)
  | _, _, v => v

/-- **A fixed-size record's reader layout reads the flat element**: if `rFixed rs = some ws` (kernel-checked per record
by the generated `…_elem` obligations), reading the record is reading the scalars of widths `ws` in order. -/
theorem rFixed_parse : ∀ (rs : List RF) (view : View) (bs : Bytes) (ws : List Nat), rFixed rs = some ws →
    parse rs view bs =
      match parseRec ws bs with
      | none => none
      | some (xs, rest) => some (pushNums (rs.map (·.id)) xs view, rest)
  | [], view, bs, ws, h => by
    simp only [rFixed] at h
    injection h with h
    subst h
    simp [parse, parseRec, pushNums]
  | r :: rs, view, bs, ws, h => by
    simp only [rFixed] at h
    split at h
    · rename_i sz ws' hc hi hr
      injection h with h
      subst h
      simp only [parse, parseField, hc, condHolds, if_true, hi, parseRec]
      by_cases hl : bs.length < sz
      · simp [hl]
      · simp only [hl, if_false]
        rw [rFixed_parse rs _ _ ws' hr]
        cases parseRec ws' (bs.drop sz) with
        | none => rfl
        | some p =>
          obtain ⟨xs, rest⟩ := p
          simp [pushNums]
    · cases h

end FontVerif.Field
