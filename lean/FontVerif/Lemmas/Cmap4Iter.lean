/-
Helper lemmas for C08: `Cmap4Iter` on a table compiled from a valid segmentation enumerates the
BMP part of the mapping in order, followed by the `(0xFFFF, 0)` item of the final segment.
-/
import FontVerif.Model.Cmap
import FontVerif.Lemmas.Cmap4
set_option linter.unusedVariables false
namespace FontVerif.Cmap
open FontVerif

/-- the final phase of the lookup, for index `k` of the mapping lying in segment `j` -/
theorem lookup_row {cp gid : Nat → Nat} {n : Nat} {segs : List Seg} {rows : List Row} {g : List Nat}
    (hm : MapOk cp gid n) (ht : SegsTile cp gid 0 n segs) (hr : RowsMatch cp gid segs rows g)
    (j : Nat) (hj : j < segs.length) (k : Nat) (hj1 : segs[j].startIx ≤ k) (hj2 : k ≤ segs[j].endIx) :
    lookupGlyphId (Cmap4.ofRows rows g) (cp k) j (cp segs[j].startIx) = some (gid k) := by
  obtain ⟨p1, p2, p3⟩ := ht.pointwise
  obtain ⟨hlen, hrows⟩ := hr
  obtain ⟨_, hok, hn⟩ := p1 j hj
  have hk : k < n := by omega
  have hcpk := hok.run k hj1 hj2
  have hck := hm.cpLt k hk
  have hgk := hm.gidOk k hk
  obtain ⟨row, hrow, _, _, hspec⟩ := hrows j hj
  obtain ⟨_, _, hδ, hoffs⟩ := ofRows_row rows g j row hrow
  cases hd : segs[j].idDelta with
  | some d =>
    simp only [hd] at hspec
    rw [lookupGlyphId_delta _ _ _ _ _ (hspec.1 ▸ hδ) (hspec.2 ▸ hoffs)]
    have hdk := hok.delta d hd k hj1 hj2
    congr 1
    subst hdk
    unfold wrapU16 wrapI16
    simp only []
    split <;> omega
  | none =>
    simp only [hd] at hspec
    obtain ⟨h0, p, hp, _, hg⟩ := hspec
    have hsz := (ofRows_size rows g).2.2
    have hgv := hg (k - segs[j].startIx) (by omega)
    have hidx : p + (cp k - cp segs[j].startIx) = p + (k - segs[j].startIx) := by omega
    have hkk : segs[j].startIx + (k - segs[j].startIx) = k := by omega
    rw [lookupGlyphId_offset _ _ _ _ p (gid k) _ (h0 ▸ hδ)
      (by rw [hoffs, hp, hsz, hlen]) (by omega)
      (by simp only [Cmap4.ofRows, List.getElem?_toArray]; rw [hidx, hgv, hkk]) (by omega)]
    congr 1
    unfold wrapU16
    omega

/-- the pairs of the mapping with index in `[lo, hi)` -/
def pairsFrom (cp gid : Nat → Nat) (lo hi : Nat) : Mapping :=
  (List.range' lo (hi - lo)).map (fun k => (cp k, gid k))

theorem pairsFrom_append (cp gid : Nat → Nat) (lo mid hi : Nat) (h1 : lo ≤ mid) (h2 : mid ≤ hi) :
    pairsFrom cp gid lo mid ++ pairsFrom cp gid mid hi = pairsFrom cp gid lo hi := by
  unfold pairsFrom
  rw [← List.map_append]
  congr 1
  have : mid = lo + 1 * (mid - lo) := by omega
  conv => lhs; arg 2; rw [this]
  rw [List.range'_append]
  congr 1
  omega

theorem filterMap_range'_reindex {β : Type} (f : Nat → Option β) (h : Nat → β) :
    ∀ (L a b : Nat), (∀ i, i < L → f (a + i) = some (h (b + i))) →
      (List.range' a L).filterMap f = (List.range' b L).map h := by
  intro L
  induction L with
  | zero => intro a b _; rfl
  | succ L ih =>
    intro a b hf
    rw [List.range'_succ, List.range'_succ, List.filterMap_cons, List.map_cons]
    have h0 := hf 0 (by omega)
    simp only [Nat.add_zero] at h0
    rw [h0]
    simp only
    congr 1
    exact ih (a + 1) (b + 1) (fun i hi => by
      have := hf (i + 1) (by omega)
      rw [show a + 1 + i = a + (i + 1) by omega, show b + 1 + i = b + (i + 1) by omega]
      exact this)

theorem iter4Seg_row {cp gid : Nat → Nat} {n : Nat} {segs : List Seg} {rows : List Row} {g : List Nat}
    (hm : MapOk cp gid n) (ht : SegsTile cp gid 0 n segs) (hr : RowsMatch cp gid segs rows g)
    (j : Nat) (hj : j < segs.length) :
    iter4Seg (Cmap4.ofRows rows g) j (cp segs[j].startIx) (cp segs[j].endIx + 1) =
      pairsFrom cp gid segs[j].startIx (segs[j].endIx + 1) := by
  obtain ⟨p1, p2, p3⟩ := ht.pointwise
  obtain ⟨_, hok, hn⟩ := p1 j hj
  have hle := hok.le
  have hcpe := hok.run segs[j].endIx hok.le (Nat.le_refl _)
  unfold iter4Seg pairsFrom
  have hL : cp segs[j].endIx + 1 - cp segs[j].startIx = segs[j].endIx + 1 - segs[j].startIx := by omega
  rw [hL]
  apply filterMap_range'_reindex
  intro i hi
  have hrun := hok.run (segs[j].startIx + i) (by omega) (by omega)
  have hlt := hm.cpLt (segs[j].startIx + i) (by omega)
  have hlt0 := hm.cpLt segs[j].startIx (by omega)
  have e1 : (cp segs[j].startIx + i) % 65536 = cp (segs[j].startIx + i) := by omega
  have e2 : cp segs[j].startIx % 65536 = cp segs[j].startIx := by omega
  rw [e1, e2, lookup_row hm ht hr j hj (segs[j].startIx + i) (by omega) (by omega)]
  simp only [Option.map_some]
  congr 2
  omega

theorem iter4Seg_sentinel (rows : List Row) (g : List Nat) :
    iter4Seg (Cmap4.ofRows rows g) rows.length 0xFFFF 0x10000 = [(0xFFFF, 0)] := by
  obtain ⟨_, _, hδ, hoffs⟩ := ofRows_last rows g
  unfold iter4Seg
  have : (0x10000 : Nat) - 0xFFFF = 1 := by decide
  rw [this]
  simp only [List.range'_one, List.filterMap_cons, List.filterMap_nil]
  rw [lookupGlyphId_delta _ _ _ _ _ hδ hoffs]
  decide

theorem codeRange_row {cp gid : Nat → Nat} {n : Nat} {segs : List Seg} {rows : List Row} {g : List Nat}
    (hm : MapOk cp gid n) (ht : SegsTile cp gid 0 n segs) (hr : RowsMatch cp gid segs rows g) (i : Nat) :
    codeRange (Cmap4.ofRows rows g) i =
      if i < segs.length + 1 then some (sRow cp segs i, eRow cp segs i + 1) else none := by
  obtain ⟨hsc, hec⟩ := rows_codes hm ht hr
  unfold codeRange
  by_cases h : i < segs.length + 1
  · simp [h, hsc i h, hec i h]
  · have h1 : (Cmap4.ofRows rows g).startCode[i]? = none := by
      have := (ofRows_size rows g).2.1
      have := hr.1
      simp only [Array.getElem?_eq_none_iff]; omega
    simp [h, h1]

/-- `Cmap4Iter::next` from row `pre.length` on, where `segs = pre ++ suf` -/
theorem iter4From_suffix {cp gid : Nat → Nat} {n : Nat} {segs : List Seg} {rows : List Row} {g : List Nat}
    (hm : MapOk cp gid n) (ht : SegsTile cp gid 0 n segs) (hr : RowsMatch cp gid segs rows g) :
    ∀ (suf pre : List Seg) (lo fuel curEnd : Nat), segs = pre ++ suf → SegsTile cp gid lo n suf →
      suf.length + 1 ≤ fuel → curEnd ≤ sRow cp segs pre.length →
      iter4From (Cmap4.ofRows rows g) fuel pre.length curEnd = pairsFrom cp gid lo n ++ [(0xFFFF, 0)] := by
  have hsorted := rows_sorted hm ht
  intro suf
  induction suf with
  | nil =>
    intro pre lo fuel curEnd hsegs htile hfuel hcur
    cases htile
    have hlen : pre.length = segs.length := by rw [hsegs]; simp
    obtain ⟨f, rfl⟩ : ∃ f, fuel = f + 1 := ⟨fuel - 1, by simp at hfuel; omega⟩
    unfold iter4From
    rw [codeRange_row hm ht hr, hlen]
    simp only [Nat.lt_succ_self, if_true, sRow, eRow, Nat.lt_irrefl, dite_false]
    rw [hlen] at hcur
    simp only [sRow, Nat.lt_irrefl, dite_false] at hcur
    have e1 : max 0xFFFF curEnd = 0xFFFF := by omega
    have e2 : max (0xFFFF + 1) curEnd = 0x10000 := by omega
    rw [e1, e2]
    have : segs.length = rows.length := hr.1.symm
    rw [this, iter4Seg_sentinel]
    -- the iterator stops: there is no row after the sentinel
    have hstop : iter4From (Cmap4.ofRows rows g) f (rows.length + 1) 0x10000 = [] := by
      cases f with
      | zero => rfl
      | succ f' =>
        unfold iter4From
        rw [codeRange_row hm ht hr]
        simp [hr.1]
    rw [hstop]
    simp [pairsFrom]
  | cons s rest ih =>
    intro pre lo fuel curEnd hsegs htile hfuel hcur
    obtain ⟨hs1, hs2, hs3⟩ := htile
    have hj : pre.length < segs.length := by rw [hsegs]; simp
    have hsj : segs[pre.length] = s := by
      simp [hsegs]
    obtain ⟨f, rfl⟩ : ∃ f, fuel = f + 1 := ⟨fuel - 1, by simp at hfuel; omega⟩
    unfold iter4From
    rw [codeRange_row hm ht hr]
    have hlt : pre.length < segs.length + 1 := by omega
    simp only [hlt, if_true]
    have hsr : sRow cp segs pre.length = cp s.startIx := by simp [sRow, hj, hsj]
    have her : eRow cp segs pre.length = cp s.endIx := by simp [eRow, hj, hsj]
    have hle := hsorted.le pre.length hlt
    rw [hsr] at hcur
    rw [hsr, her] at hle ⊢
    have e1 : max (cp s.startIx) curEnd = cp s.startIx := by omega
    have e2 : max (cp s.endIx + 1) curEnd = cp s.endIx + 1 := by omega
    rw [e1, e2]
    have hseg := iter4Seg_row hm ht hr pre.length hj
    rw [hsj] at hseg
    rw [hseg]
    have hnext : cp s.endIx + 1 ≤ sRow cp segs (pre ++ [s]).length := by
      have := hsorted.lt pre.length (pre.length + 1) (by omega) (by omega)
      rw [her] at this
      simp only [List.length_append, List.length_cons, List.length_nil, Nat.zero_add]
      omega
    have := ih (pre ++ [s]) (s.endIx + 1) f (cp s.endIx + 1) (by simp [hsegs]) hs3
      (by simp at hfuel ⊢; omega) hnext
    simp only [List.length_append, List.length_cons, List.length_nil, Nat.zero_add] at this
    have happ := pairsFrom_append cp gid s.startIx (s.endIx + 1) n (by have := hs2.le; omega) hs3.le
    rw [this, ← List.append_assoc, happ, hs1]

/-- `Cmap4::iter()` on a table compiled from a valid segmentation -/
theorem iter4_ofRows {cp gid : Nat → Nat} {n : Nat} {segs : List Seg} {rows : List Row} {g : List Nat}
    (hm : MapOk cp gid n) (ht : SegsTile cp gid 0 n segs) (hr : RowsMatch cp gid segs rows g) :
    iter4 (Cmap4.ofRows rows g) = pairsFrom cp gid 0 n ++ [(0xFFFF, 0)] := by
  have hsorted := rows_sorted hm ht
  unfold iter4
  rw [codeRange_row hm ht hr]
  simp only [Nat.zero_lt_succ, if_true]
  cases segs with
  | nil =>
    cases ht
    have hrl : rows.length = 0 := hr.1
    simp only [sRow, eRow, List.length_nil, Nat.lt_irrefl, dite_false]
    have h0 : (0 : Nat) = rows.length := hrl.symm
    have := iter4Seg_sentinel rows g
    rw [← h0] at this
    rw [show (0xFFFF : Nat) + 1 = 0x10000 from rfl, this]
    have hsz := (ofRows_size rows g).2.1
    rw [hsz, hrl]
    have hstop : iter4From (Cmap4.ofRows rows g) (0 + 1) 1 0x10000 = [] := by
      unfold iter4From
      rw [codeRange_row hm (show SegsTile cp gid 0 0 [] from rfl) hr]
      simp
    rw [hstop]
    simp [pairsFrom]
  | cons s rest =>
    obtain ⟨hs1, hs2, hs3⟩ := ht
    have ht' : SegsTile cp gid 0 n (s :: rest) := ⟨hs1, hs2, hs3⟩
    have hseg := iter4Seg_row hm ht' hr 0 (by simp)
    simp only [List.getElem_cons_zero] at hseg
    simp only [sRow, eRow, List.length_cons, Nat.zero_lt_succ, dite_true, List.getElem_cons_zero]
    rw [hseg]
    have hsz := (ofRows_size rows g).2.1
    have hnext : cp s.endIx + 1 ≤ sRow cp (s :: rest) [s].length := by
      have := hsorted.lt 0 1 (by omega) (by simp)
      simp only [eRow, List.length_cons, Nat.zero_lt_succ, dite_true, List.getElem_cons_zero] at this
      simp only [List.length_cons, List.length_nil, Nat.zero_add]
      omega
    have := iter4From_suffix hm ht' hr rest [s] (s.endIx + 1) (Cmap4.ofRows rows g).startCode.size
      (cp s.endIx + 1) rfl hs3 (by rw [hsz, hr.1]; simp) hnext
    simp only [List.length_cons, List.length_nil, Nat.zero_add] at this
    have happ := pairsFrom_append cp gid s.startIx (s.endIx + 1) n (by have := hs2.le; omega) hs3.le
    rw [this, ← List.append_assoc, happ, hs1]

/-! ## any well-formed format-4 table: the iterator and the lookup agree -/

/-- start / end code arrays as total functions -/
def sCode (t : Cmap4) (i : Nat) : Nat := (t.startCode[i]?).getD 0
def eCode (t : Cmap4) (i : Nat) : Nat := (t.endCode[i]?).getD 0

/-- segment arrays of equal length holding ascending, disjoint, 16-bit ranges -/
structure Wf4 (t : Cmap4) : Prop where
  size : t.endCode.size = t.startCode.size
  sorted : RangesSorted (sCode t) (eCode t) t.startCode.size
  u16 : ∀ i, i < t.startCode.size → eCode t i ≤ 0xFFFF

theorem mem_iter4Seg (t : Cmap4) (ix lo hi c g : Nat) :
    (c, g) ∈ iter4Seg t ix lo hi ↔
      lo ≤ c ∧ c < hi ∧ lookupGlyphId t (c % 65536) ix (lo % 65536) = some g := by
  unfold iter4Seg
  simp only [List.mem_filterMap, List.mem_range'_1, Option.map_eq_some_iff, Prod.mk.injEq]
  constructor
  · rintro ⟨a, ⟨h1, h2⟩, b, hb, rfl, rfl⟩
    exact ⟨h1, by omega, hb⟩
  · rintro ⟨h1, h2, h3⟩
    exact ⟨c, ⟨h1, by omega⟩, g, h3, rfl, rfl⟩

theorem wf4_codeRange (t : Cmap4) (hw : Wf4 t) (i : Nat) :
    codeRange t i = if i < t.startCode.size then some (sCode t i, eCode t i + 1) else none := by
  unfold codeRange sCode eCode
  by_cases h : i < t.startCode.size
  · have h' : i < t.endCode.size := by rw [hw.size]; exact h
    simp [h, h']
  · have h1 : t.startCode[i]? = none := by simp only [Array.getElem?_eq_none_iff]; omega
    simp [h, h1]

theorem mem_iter4From (t : Cmap4) (hw : Wf4 t) (c g : Nat) :
    ∀ fuel ix curEnd, t.startCode.size - ix ≤ fuel → (ix < t.startCode.size → curEnd ≤ sCode t ix) →
      ((c, g) ∈ iter4From t fuel ix curEnd ↔
        ∃ i, ix ≤ i ∧ i < t.startCode.size ∧ sCode t i ≤ c ∧ c ≤ eCode t i ∧
          lookupGlyphId t c i (sCode t i) = some g) := by
  intro fuel
  induction fuel with
  | zero =>
    intro ix curEnd hf _
    simp only [iter4From, List.not_mem_nil, false_iff]
    rintro ⟨i, h1, h2, _⟩
    omega
  | succ f ih =>
    intro ix curEnd hf hcur
    unfold iter4From
    rw [wf4_codeRange t hw]
    by_cases hix : ix < t.startCode.size
    · simp only [hix, if_true]
      have hle := hw.sorted.le ix hix
      have hu := hw.u16 ix hix
      have hc := hcur hix
      have e1 : max (sCode t ix) curEnd = sCode t ix := by omega
      have e2 : max (eCode t ix + 1) curEnd = eCode t ix + 1 := by omega
      rw [e1, e2, List.mem_append, mem_iter4Seg,
        ih (ix + 1) (eCode t ix + 1) (by omega) (fun h => by
          have := hw.sorted.lt ix (ix + 1) (by omega) h; omega)]
      constructor
      · rintro (⟨h1, h2, h3⟩ | ⟨i, h1, h2, h3⟩)
        · have m1 : c % 65536 = c := by omega
          have m2 : sCode t ix % 65536 = sCode t ix := by omega
          rw [m1, m2] at h3
          exact ⟨ix, Nat.le_refl _, hix, h1, by omega, h3⟩
        · exact ⟨i, by omega, h2, h3⟩
      · rintro ⟨i, h1, h2, h3, h4, h5⟩
        by_cases hi : i = ix
        · subst hi
          left
          have m1 : c % 65536 = c := by omega
          have m2 : sCode t i % 65536 = sCode t i := by omega
          rw [m1, m2]
          exact ⟨h3, by omega, h5⟩
        · right
          exact ⟨i, by omega, h2, h3, h4, h5⟩
    · simp only [hix, if_false, List.not_mem_nil, false_iff]
      rintro ⟨i, h1, h2, _⟩
      omega

/-- For every well-formed format-4 table (not only those write-fonts builds): `Cmap4::iter()` yields
`(c, g)` exactly when `Cmap4::map_codepoint(c)` returns `g` -/
theorem iter4_mem_iff_map4 (t : Cmap4) (hw : Wf4 t) (c g : Nat) :
    (c, g) ∈ iter4 t ↔ map4 t c = some g := by
  have hs : ∀ i, i < t.startCode.size → (fun i => t.startCode[i]?) i = some (sCode t i) := by
    intro i hi; simp [sCode, hi]
  have he : ∀ i, i < t.startCode.size → (fun i => t.endCode[i]?) i = some (eCode t i) := by
    intro i hi
    have : i < t.endCode.size := by rw [hw.size]; exact hi
    simp [eCode, this]
  -- the iterator, as a set
  have hiter : (c, g) ∈ iter4 t ↔ ∃ i, i < t.startCode.size ∧ sCode t i ≤ c ∧ c ≤ eCode t i ∧
      lookupGlyphId t c i (sCode t i) = some g := by
    unfold iter4
    rw [wf4_codeRange t hw]
    by_cases h0 : 0 < t.startCode.size
    · simp only [h0, if_true]
      have hu := hw.u16 0 h0
      have hle := hw.sorted.le 0 h0
      rw [List.mem_append, mem_iter4Seg, mem_iter4From t hw c g _ 1 (eCode t 0 + 1) (by omega)
        (fun h => by have := hw.sorted.lt 0 1 (by omega) h; omega)]
      constructor
      · rintro (⟨h1, h2, h3⟩ | ⟨i, h1, h2, h3⟩)
        · have m1 : c % 65536 = c := by omega
          have m2 : sCode t 0 % 65536 = sCode t 0 := by omega
          rw [m1, m2] at h3
          exact ⟨0, h0, h1, by omega, h3⟩
        · exact ⟨i, h2, h3⟩
      · rintro ⟨i, h2, h3, h4, h5⟩
        by_cases hi : i = 0
        · subst hi
          left
          have m1 : c % 65536 = c := by omega
          have m2 : sCode t 0 % 65536 = sCode t 0 := by omega
          rw [m1, m2]
          exact ⟨h3, by omega, h5⟩
        · right
          exact ⟨i, by omega, h2, h3, h4, h5⟩
    · simp only [h0, if_false, List.not_mem_nil, false_iff]
      rintro ⟨i, h1, _⟩
      omega
  rw [hiter]
  unfold map4 map4With
  rw [hw.size]
  by_cases hex : ∃ i, i < t.startCode.size ∧ sCode t i ≤ c ∧ c ≤ eCode t i
  · obtain ⟨i, hi, h1, h2⟩ := hex
    have hu := hw.u16 i hi
    have hnot : ¬ (c > 0xFFFF) := by omega
    rw [if_neg hnot, segSearch_found _ _ (sCode t) (eCode t) _ c i hs he hw.sorted hi h1 h2]
    simp only [hs i hi]
    constructor
    · rintro ⟨j, hj, j1, j2, j3⟩
      have : j = i := by
        rcases Nat.lt_trichotomy j i with h | h | h
        · have := hw.sorted.lt j i h hi; omega
        · exact h
        · have := hw.sorted.lt i j h hj; omega
      subst this
      exact j3
    · intro h
      exact ⟨i, hi, h1, h2, h⟩
  · have hno : ∀ i, i < t.startCode.size → ¬ (sCode t i ≤ c ∧ c ≤ eCode t i) :=
      fun i hi h => hex ⟨i, hi, h.1, h.2⟩
    constructor
    · rintro ⟨i, hi, h1, h2, _⟩
      exact absurd ⟨h1, h2⟩ (hno i hi)
    · intro h
      exfalso
      by_cases hbig : c > 0xFFFF
      · rw [if_pos hbig] at h; cases h
      · rw [if_neg hbig, segSearch_none _ _ (sCode t) (eCode t) _ c hs he hw.sorted hno] at h
        cases h

end FontVerif.Cmap
