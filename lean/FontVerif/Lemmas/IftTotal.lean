/-
C18 — `total_data_size` of `patch_offset_array` (step 1) is exactly the length of the data that step 2
builds when the offset type is not changed: the sum of the per-glyph chunk lengths.  Used to compare
the offset widths chosen by the two routes of a grouping.
-/
import FontVerif.Lemmas.IftDedup
set_option linter.unusedVariables false
namespace FontVerif.Ift

/-- `f s + f (s+1) + … + f (s+c-1)` -/
def sumRange (f : Nat → Nat) : Nat → Nat → Nat
  | _, 0 => 0
  | s, c + 1 => f s + sumRange f (s + 1) c

theorem sumRange_add (f : Nat → Nat) (s c1 c2 : Nat) :
    sumRange f s (c1 + c2) = sumRange f s c1 + sumRange f (s + c1) c2 := by
  induction c1 generalizing s with
  | zero => simp [sumRange]
  | succ c ih =>
    rw [show c + 1 + c2 = (c + c2) + 1 by omega]
    simp only [sumRange]
    rw [ih (s + 1), show s + 1 + c = s + (c + 1) by omega]
    omega

theorem sumRange_congr (f g : Nat → Nat) (s c : Nat) (h : ∀ i, i < c → f (s + i) = g (s + i)) :
    sumRange f s c = sumRange g s c := by
  induction c generalizing s with
  | zero => rfl
  | succ c ih =>
    simp only [sumRange]
    have h0 := h 0 (by omega)
    simp only [Nat.add_zero] at h0
    rw [h0, ih (s + 1) (fun i hi => by have := h (i + 1) (by omega); rwa [show s + (i + 1) = s + 1 + i by omega] at this)]

theorem sumRange_zero (f : Nat → Nat) (s c : Nat) (h : ∀ i, i < c → f (s + i) = 0) : sumRange f s c = 0 := by
  induction c generalizing s with
  | zero => rfl
  | succ c ih =>
    simp only [sumRange]
    have h0 := h 0 (by omega)
    simp only [Nat.add_zero] at h0
    rw [h0, ih (s + 1) (fun i hi => by have := h (i + 1) (by omega); rwa [show s + (i + 1) = s + 1 + i by omega] at this)]

theorem sumRange_plus (f g : Nat → Nat) (s c : Nat) :
    sumRange (fun i => f i + g i) s c = sumRange f s c + sumRange g s c := by
  induction c generalizing s with
  | zero => rfl
  | succ c ih => simp only [sumRange]; rw [ih (s + 1)]; omega

/-- a function that vanishes except at `k`, summed over a range containing `k` -/
theorem sumRange_single (f : Nat → Nat) (s c k : Nat) (hk : s ≤ k ∧ k < s + c)
    (h : ∀ i, i ≠ k → f i = 0) : sumRange f s c = f k := by
  induction c generalizing s with
  | zero => omega
  | succ c ih =>
    simp only [sumRange]
    by_cases e : s = k
    · subst e
      rw [sumRange_zero f (s + 1) c (fun i hi => h _ (by omega)), Nat.add_zero]
    · rw [h s e, ih (s + 1) (by omega)]
      omega

theorem flatten_map_length (h : Nat → Bytes) (s c : Nat) :
    ((List.range' s c).map h).flatten.length = sumRange (fun g => (h g).length) s c := by
  induction c generalizing s with
  | zero => rfl
  | succ c ih =>
    simp only [List.range'_succ, List.map_cons, List.flatten_cons, List.length_append, sumRange]
    rw [ih (s + 1)]

/-- telescoping differences of an ascending list -/
theorem sumRange_telescope (l : List Nat) (hp : l.Pairwise (· ≤ ·)) (s c : Nat) (hl : s + c < l.length) :
    sumRange (fun i => l.getD (i + 1) 0 - l.getD i 0) s c = l.getD (s + c) 0 - l.getD s 0 := by
  induction c generalizing s with
  | zero => simp [sumRange]
  | succ c ih =>
    simp only [sumRange]
    rw [ih (s + 1) (by omega)]
    have h1 := getD_mono l hp s (s + 1) (by omega) (by omega)
    have h2 := getD_mono l hp (s + 1) (s + 1 + c) (by omega) (by omega)
    rw [show s + (c + 1) = s + 1 + c by omega]
    omega

/-- bytes a kept glyph contributes (0 for a replaced one) -/
def keptLen (a : OffsetArray) (repl : List (Nat × Bytes)) (g : Nat) : Nat :=
  if isReplaced repl g then 0 else a.offsets.getD (g + 1) 0 - a.offsets.getD g 0

/-- bytes a replaced glyph contributes (padded; 0 for a kept one) -/
def replLen (t : OffsetType) (repl : List (Nat × Bytes)) (g : Nat) : Nat :=
  match repl.lookup g with
  | some d => paddedLen t d
  | none => 0

/-- `retained_glyphs_total_size` sums the kept glyphs -/
theorem retainedSize_eq (a : OffsetArray) (repl : List (Nat × Bytes)) (hp : a.offsets.Pairwise (· ≤ ·))
    (runs : List (Bool × Nat × Nat)) (g R : Nat) (hr : RunsOK (isReplaced repl) g runs)
    (h : retainedSize a runs = .ok R) : R = sumRange (keptLen a repl) g (runsCount runs) := by
  induction runs generalizing g R with
  | nil => simp only [retainedSize, Except.ok.injEq] at h; subst h; rfl
  | cons run rest ih =>
    obtain ⟨b, s, c⟩ := run
    obtain ⟨hs, hconst, hrest⟩ := hr
    subst hs
    simp only [runsCount]
    rw [sumRange_add]
    cases b with
    | true =>
      simp only [retainedSize] at h
      rw [sumRange_zero (keptLen a repl) s c (fun i hi => by simp [keptLen, hconst i hi]), Nat.zero_add]
      exact ih (s + c) R hrest h
    | false =>
      simp only [retainedSize] at h
      cases h1 : a.offsetFor s with
      | error e => rw [h1] at h; cases h
      | ok so =>
        rw [h1] at h
        simp only at h
        cases h2 : a.offsetFor (s + c) with
        | error e => rw [h2] at h; cases h
        | ok eo =>
          rw [h2] at h
          simp only at h
          split at h
          · cases h
          · rename_i hge
            cases h3 : retainedSize a rest with
            | error e => rw [h3] at h; cases h
            | ok R' =>
              rw [h3] at h
              simp only [Except.ok.injEq] at h
              obtain ⟨l1, g1⟩ := offsetFor_ok a s so h1
              obtain ⟨l2, g2⟩ := offsetFor_ok a (s + c) eo h2
              have := ih (s + c) R' hrest h3
              rw [← h, this]
              congr 1
              rw [sumRange_congr (keptLen a repl) (fun i => a.offsets.getD (i + 1) 0 - a.offsets.getD i 0) s c
                (fun i hi => by simp [keptLen, hconst i hi])]
              rw [sumRange_telescope a.offsets hp s c l2, g1, g2]

/-- the padded replacement sizes, summed over the (sorted, in range) replacement list = summed over gids -/
theorem foldl_padded_eq (t : OffsetType) (repl : List (Nat × Bytes)) (hs : SortedGids repl) (n r : Nat)
    (hle : ∀ x ∈ repl, x.1 < n) :
    repl.foldl (fun s gd => s + paddedLen t gd.2) r = r + sumRange (replLen t repl) 0 n := by
  induction repl generalizing r with
  | nil =>
    simp only [List.foldl_nil]
    rw [sumRange_zero _ 0 n (fun i _ => by simp [replLen, List.lookup])]
    rfl
  | cons x xs ih =>
    obtain ⟨k, v⟩ := x
    simp only [List.foldl_cons]
    rw [ih (sorted_tail hs) _ (fun y hy => hle y (List.mem_cons_of_mem _ hy))]
    have hk : k < n := hle (k, v) (by simp)
    have hxk : xs.lookup k = none := sorted_lookup_below k v xs hs k (Nat.le_refl _)
    have hsplit : ∀ i, replLen t ((k, v) :: xs) i = (if i = k then paddedLen t v else 0) + replLen t xs i := by
      intro i
      unfold replLen
      by_cases e : i = k
      · subst e; simp [List.lookup, hxk]
      · have : (i == k) = false := by simp [e]
        simp [List.lookup, this, e]
    rw [sumRange_congr (replLen t ((k, v) :: xs)) (fun i => (if i = k then paddedLen t v else 0) + replLen t xs i) 0 n
      (fun i _ => hsplit _), sumRange_plus]
    rw [sumRange_single (fun i => if i = k then paddedLen t v else 0) 0 n k (by omega)
      (fun i hi => by simp [hi])]
    simp only [if_true]
    omega

theorem lookup_isReplaced (repl : List (Nat × Bytes)) (g : Nat) :
    isReplaced repl g = (repl.lookup g).isSome := by
  cases hl : repl.lookup g with
  | none => simp [lookup_none_isReplaced repl g hl]
  | some d =>
    cases hr : isReplaced repl g with
    | true => rfl
    | false => rw [isReplaced_false_lookup repl g hr] at hl; cases hl

/-- **`total_data_size` = the length of the spliced data under the CURRENT offset type** -/
theorem totalDataSize_eq (a : OffsetArray) (repl : List (Nat × Bytes)) (m total : Nat)
    (hp : a.offsets.Pairwise (· ≤ ·)) (hs : SortedGids repl) (hle : ∀ x ∈ repl, x.1 ≤ m)
    (hk : KeptInBounds a repl m) (h : totalDataSize a repl m = .ok total) :
    total = (chunks a a.offsetType repl m).flatten.length := by
  unfold totalDataSize at h
  cases hr : retainedSize a (runsFor repl m) with
  | error e => rw [hr] at h; cases h
  | ok R =>
    rw [hr] at h
    simp only [Except.ok.injEq] at h
    have hruns := groupRuns_ok (isReplaced repl) (m + 1) 0
    have hrange : runsFor repl m = groupRuns 0 ((List.range' 0 (m + 1)).map (isReplaced repl)) := by
      simp [runsFor, List.range_eq_range']
    rw [hrange] at hr
    have hR := retainedSize_eq a repl hp _ 0 R hruns.1 hr
    rw [hruns.2] at hR
    rw [foldl_padded_eq a.offsetType repl hs (m + 1) R (fun x hx => by have := hle x hx; omega)] at h
    rw [← h, hR]
    unfold chunks
    rw [flatten_map_length, ← sumRange_plus]
    apply sumRange_congr
    intro i hi
    simp only [Nat.zero_add]
    unfold keptLen replLen chunkFor
    rw [lookup_isReplaced]
    cases hl : repl.lookup i with
    | some d => simp [padTo_length]
    | none =>
      simp only [Option.isSome_none, Bool.false_eq_true, if_false, Nat.add_zero]
      obtain ⟨k1, k2⟩ := hk i (by omega) hl
      rw [glyphAt_length a.offsets a.data hp i k1 k2]

end FontVerif.Ift
