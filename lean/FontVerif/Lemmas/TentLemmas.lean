/-
Helper lemmas for C11 (tent arithmetic): `Fixed.mulDiv` on non-negative operands.
-/
import FontVerif.Model.Tent
import FontVerif.Lemmas.Round
namespace FontVerif.Tent
open FontVerif

theorem wrapI32_id {x : Int} (h : inI32 x) : wrapI32 x = x := by
  unfold inI32 at h; unfold wrapI32; simp only []; split <;> omega

theorem mulDiv_nonneg {s a b : Int} (hs : 0 ≤ s) (ha : 0 ≤ a) (hb : 0 < b)
    (h64 : s * a + b / 2 < 18446744073709551616) (h31 : (s * a + b / 2) / b < 2147483648) :
    Fixed.mulDiv s a b = (s * a + b / 2) / b := by
  have hp : 0 ≤ s * a := Int.mul_nonneg hs ha
  have hq : 0 ≤ (s * a + b / 2) / b := Int.ediv_nonneg (by omega) (by omega)
  unfold Fixed.mulDiv iabs
  have e1 : (s < 0) = False := by simp; omega
  have e2 : (a < 0) = False := by simp; omega
  have e3 : (b < 0) = False := by simp; omega
  simp only [e1, e2, e3, if_false]
  generalize s * a = p at *
  have w1 : wrapU64 p = p := by unfold wrapU64; omega
  rw [w1]
  have w2 : wrapU64 (p + b / 2) = p + b / 2 := by unfold wrapU64; omega
  rw [w2]
  simp only [hb, if_true]
  generalize (p + b / 2) / b = q at *
  simp
  unfold wrapI32; simp only []; split <;> omega

/-- the tent factor applied to a scalar in `[0, ONE]`: numerator `0 ≤ n ≤ d`, `0 < d ≤ 2^19`. -/
theorem mulDiv_tent {s n d : Int} (hs0 : 0 ≤ s) (hs1 : s ≤ 65536) (hn0 : 0 ≤ n) (hnd : n ≤ d)
    (hd0 : 0 < d) (hd1 : d ≤ 524288) :
    Fixed.mulDiv s n d = (s * n + d / 2) / d ∧ 0 ≤ (s * n + d / 2) / d ∧ (s * n + d / 2) / d ≤ s := by
  have hp0 : 0 ≤ s * n := Int.mul_nonneg hs0 hn0
  have hp1 : s * n ≤ s * d := Int.mul_le_mul_of_nonneg_left hnd hs0
  have hp2 : s * d ≤ 65536 * d := Int.mul_le_mul_of_nonneg_right hs1 (by omega)
  have hq0 : 0 ≤ (s * n + d / 2) / d := Int.ediv_nonneg (by omega) (by omega)
  have hq1 : (s * n + d / 2) / d ≤ s := by
    have : s * n + d / 2 < (s + 1) * d := by
      have : (s + 1) * d = s * d + d := by rw [Int.add_mul]; omega
      omega
    have := Int.ediv_lt_of_lt_mul hd0 this
    omega
  refine ⟨mulDiv_nonneg hs0 hn0 hd0 (by omega) (by omega), hq0, hq1⟩

/-- a `Fixed` value obtained from an `F2Dot14` (`to_fixed` = `× 4`). -/
def inF (x : Int) : Prop := -131072 ≤ x ∧ x ≤ 131068

theorem inF_of_f2dot14 {x : Int} (h : inI16 x) : inF (Fixed.f2dot14ToFixed x) := by
  unfold inI16 at h; unfold inF Fixed.f2dot14ToFixed; omega

theorem fsub_id {a b : Int} (ha : inF a) (hb : inF b) : fsub a b = a - b := by
  unfold inF at *; unfold fsub; apply wrapI32_id; unfold inI32; omega

/-- the axis is skipped by `compute_scalar` (first `if`). -/
def Ignored (start peak end_ : Int) : Prop :=
  start > peak ∨ peak > end_ ∨ peak = 0 ∨ (start < 0 ∧ end_ > 0)

instance (s p e : Int) : Decidable (Ignored s p e) := by unfold Ignored; infer_instance

end FontVerif.Tent
