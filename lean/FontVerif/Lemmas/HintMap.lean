/-
Helper lemmas for Props/C02HintMap.lean: the checked array accesses of Model/HintMap.lean succeed inside the
96-slot array, the index search and the make-room loop stay in bounds.
-/
import FontVerif.Model.HintMap
set_option linter.unusedVariables false
namespace FontVerif.HintMap

theorem setAt_ok {l : List Hint} {i : Nat} (h : Hint) (hi : i < l.length) :
    setAt l i h = some (l.set i h) := by
  simp [setAt, hi]

theorem getAt_ok {l : List Hint} {i : Nat} (hi : i < l.length) : ∃ v, getAt l i = some v := by
  exact ⟨l[i], by simp [getAt, hi]⟩

theorem findIx_ok (edges : List Hint) (len : Nat) (cs : Int) (hlen : len ≤ edges.length) :
    ∀ (fuel ix : Nat), ix + fuel = len → ∃ r, findIx edges len cs ix fuel = some r ∧ ix ≤ r ∧ r ≤ len := by
  intro fuel
  induction fuel with
  | zero => intro ix h; exact ⟨ix, by simp [findIx], Nat.le_refl _, by omega⟩
  | succ f ih =>
    intro ix h
    have hix : ix < len := by omega
    obtain ⟨v, hv⟩ := getAt_ok (l := edges) (i := ix) (by omega)
    simp only [findIx, hix, if_true, hv]
    by_cases hc : v.cs ≥ cs
    · simp only [hc, if_true]; exact ⟨ix, rfl, Nat.le_refl _, by omega⟩
    · simp only [hc, if_false]
      obtain ⟨r, hr, h1, h2⟩ := ih (ix + 1) (by omega)
      exact ⟨r, hr, by omega, h2⟩

theorem shiftUp_ok (ix cnt : Nat) :
    ∀ (d : Nat) (edges : List Hint), ix + d + cnt < edges.length →
      ∃ e, shiftUp edges ix cnt d = some e ∧ e.length = edges.length := by
  intro d
  induction d with
  | zero =>
    intro edges h
    obtain ⟨v, hv⟩ := getAt_ok (l := edges) (i := ix) (by omega)
    simp only [shiftUp, hv]
    refine ⟨edges.set (ix + cnt) v, setAt_ok v (by omega), by simp⟩
  | succ d ih =>
    intro edges h
    obtain ⟨v, hv⟩ := getAt_ok (l := edges) (i := ix + (d + 1)) (by omega)
    have hs := setAt_ok (l := edges) (i := ix + (d + 1) + cnt) v (by omega)
    simp only [shiftUp, hv, hs]
    obtain ⟨e, he, hl⟩ := ih (edges.set (ix + (d + 1) + cnt) v) (by simp; omega)
    exact ⟨e, he, by simpa using hl⟩

/-- the representation invariant of `HintMap`: 96 slots, at most 96 of them active -/
def WF (m : Map) : Prop := m.edges.length = MAX_HINTS ∧ m.len ≤ MAX_HINTS

/-- what one `insert` may do to a well-formed map: it returns (no index panic), the map stays well formed and
    grows by 0, 1 or 2 edges -/
def Step (m m' : Map) : Prop := WF m' ∧ m.len ≤ m'.len ∧ m'.len ≤ m.len + 2

theorem step_refl {m : Map} (h : WF m) : Step m m := ⟨h, Nat.le_refl _, by omega⟩

theorem discard_ok (m : Map) (first second : Hint) (isPair : Bool) (ix : Nat) (h : WF m) (hix : ix ≤ m.len) :
    ∃ b, discard m first second isPair ix = some b := by
  obtain ⟨hl, hn⟩ := h
  unfold discard
  by_cases hlt : ix < m.len
  · obtain ⟨cur, hcur⟩ := getAt_ok (l := m.edges) (i := ix) (by omega)
    by_cases hpos : ix > 0
    · obtain ⟨prev, hprev⟩ := getAt_ok (l := m.edges) (i := ix - 1) (by omega)
      simp only [hlt, hpos, if_true, hcur, hprev]
      split
      · rename_i hx; cases hx
      · exact ⟨_, rfl⟩
      · split
        · rename_i hx; cases hx
        · exact ⟨_, rfl⟩
        · exact ⟨_, rfl⟩
    · simp only [hlt, hpos, if_true, if_false, hcur]
      split
      · rename_i hx; cases hx
      · exact ⟨_, rfl⟩
      · exact ⟨_, rfl⟩
  · by_cases hpos : ix > 0
    · obtain ⟨prev, hprev⟩ := getAt_ok (l := m.edges) (i := ix - 1) (by omega)
      simp only [hlt, hpos, if_true, if_false, hprev]
      split
      · rename_i hx; cases hx
      · exact ⟨_, rfl⟩
      · exact ⟨_, rfl⟩
    · simp only [hlt, hpos, if_false]
      exact ⟨_, rfl⟩

theorem place_ok (m : Map) (first second : Hint) (isPair : Bool) (cnt ix : Nat) (h : WF m) (hix : ix ≤ m.len)
    (hroom : m.len + cnt ≤ MAX_HINTS) (hc1 : 1 ≤ cnt) (hc2 : cnt ≤ 2) (hp : isPair = true → cnt = 2) :
    ∃ m', place m first second isPair cnt ix = some m' ∧ Step m m' := by
  obtain ⟨hl, hn⟩ := h
  unfold place
  by_cases hne : ix = m.len
  · have hb : (ix != m.len) = false := by simp [hne]
    simp only [hb]
    have hs2 := setAt_ok (l := m.edges) (i := ix) first (by omega)
    simp only [hs2, Bool.false_eq_true, if_false]
    cases isPair with
    | true =>
      have := hp rfl
      have hs3 := setAt_ok (l := m.edges.set ix first) (i := ix + 1) second (by simp; omega)
      simp only [hs3, if_true]
      exact ⟨_, rfl, ⟨by simp [hl], hroom⟩, by simp, by simp; omega⟩
    | false =>
      simp only [Bool.false_eq_true, if_false]
      exact ⟨_, rfl, ⟨by simp [hl], hroom⟩, by simp, by simp; omega⟩
  · have hb : (ix != m.len) = true := by simp [hne]
    obtain ⟨e1, he1, hl1⟩ := shiftUp_ok ix cnt (m.len - 1 - ix) m.edges (by omega)
    simp only [hb, if_true, he1]
    have hs2 := setAt_ok (l := e1) (i := ix) first (by omega)
    simp only [hs2]
    cases isPair with
    | true =>
      have := hp rfl
      have hs3 := setAt_ok (l := e1.set ix first) (i := ix + 1) second (by simp; omega)
      simp only [hs3, if_true]
      exact ⟨_, rfl, ⟨by simp [hl1, hl], hroom⟩, by simp, by simp; omega⟩
    | false =>
      simp only [Bool.false_eq_true, if_false]
      exact ⟨_, rfl, ⟨by simp [hl1, hl], hroom⟩, by simp, by simp; omega⟩

end FontVerif.HintMap
