/-
Helper lemmas for C19, part 3: format 1 (glyph map + feature map).  Closed form of the feature
record two-pointer loop, key sets of the entry map, monotonicity of the offer.
-/
import FontVerif.Lemmas.PatchMap
set_option linter.unusedVariables false
set_option linter.unusedSimpArgs false
namespace FontVerif.PatchMap
open FontVerif

/-! ## format 1: which feature records are used -/

/-- closed form of the two-pointer loop: a feature record is used iff its tag is requested and it
is a strict running maximum of the record tags so far (the specification's "records must be sorted,
out-of-order / duplicate records are skipped") -/
def optLt (M : Option Nat) (x : Nat) : Bool :=
  match M with | none => true | some m => decide (m < x)

def optMax (M : Option Nat) (x : Nat) : Nat :=
  match M with | none => x | some m => max m x

def recHigh (p : Nat → Bool) : List FeatRec → Nat → Option Nat → List (FeatRec × Nat)
  | [], _, _ => []
  | r :: rs, cum, M =>
    (if p r.tag && optLt M r.tag then [(r, cum)] else [])
      ++ recHigh p rs (cum + r.count) (some (optMax M r.tag))

theorem recHigh_false (recs : List FeatRec) (cum : Nat) (M : Option Nat) :
    recHigh (fun _ => false) recs cum M = [] := by
  induction recs generalizing cum M with
  | nil => rfl
  | cons r rs ih => simp [recHigh, ih]

/-- only the predicate's values above the running maximum and at or above the next record's tag matter -/
theorem recHigh_congr (p p' : Nat → Bool) : ∀ (recs : List FeatRec) (cum : Nat) (M : Option Nat),
    (∀ x, (∀ m, M = some m → m < x) → (∀ r rs, recs = r :: rs → r.tag ≤ x) → p x = p' x) →
    recHigh p recs cum M = recHigh p' recs cum M := by
  intro recs
  induction recs with
  | nil => intro cum M _; rfl
  | cons r rs ih =>
    intro cum M h
    simp only [recHigh]
    congr 1
    · cases hM : optLt M r.tag with
      | false => simp
      | true =>
        have : p r.tag = p' r.tag := by
          apply h r.tag
          · intro m hm; subst hm; simpa [optLt] using hM
          · intro r' rs' he; cases he; exact Nat.le_refl _
        simp [this]
    · apply ih
      intro x hx hhead
      apply h x
      · intro m hm; subst hm
        have := hx _ rfl
        simp only [optMax] at this
        omega
      · intro r' rs' he; cases he
        have := hx _ rfl
        cases M with
        | none => simp only [optMax] at this; omega
        | some m => simp only [optMax] at this; omega

theorem recHigh_mono (p p' : Nat → Bool) (hp : ∀ x, p x = true → p' x = true) :
    ∀ (recs : List FeatRec) (cum : Nat) (M : Option Nat) (x : FeatRec × Nat),
      x ∈ recHigh p recs cum M → x ∈ recHigh p' recs cum M := by
  intro recs
  induction recs with
  | nil => intro cum M x hx; cases hx
  | cons r rs ih =>
    intro cum M x hx
    simp only [recHigh, List.mem_append] at hx ⊢
    rcases hx with hx | hx
    · left
      by_cases hc : (p r.tag && optLt M r.tag) = true
      · rw [if_pos hc] at hx
        rw [Bool.and_eq_true] at hc
        rw [if_pos (by rw [Bool.and_eq_true]; exact ⟨hp _ hc.1, hc.2⟩)]
        exact hx
      · rw [if_neg hc] at hx; cases hx
    · right; exact ih _ _ x hx

theorem featLoopAll_eq (recs : List FeatRec) (cum : Nat) (L : Option Nat) :
    featLoopAll recs cum L = recHigh (fun _ => true) recs cum L := by
  induction recs generalizing cum L with
  | nil => rfl
  | cons r rs ih =>
    simp only [featLoopAll, recHigh, Bool.true_and, optLt, optMax]
    cases L with
    | none => simp [ih]
    | some l =>
      by_cases h : r.tag ≤ l
      · simp only [h, decide_true, ↓reduceIte, show ¬ l < r.tag by omega, decide_false,
          Bool.false_eq_true, List.nil_append]
        rw [ih, show max l r.tag = l by omega]
      · simp only [h, decide_false, Bool.false_eq_true, ↓reduceIte, show l < r.tag by omega,
          decide_true, List.singleton_append, List.cons.injEq, true_and]
        rw [ih, show max l r.tag = r.tag by omega]

/-- loop invariant of the explicit-tag-set loop -/
structure FInv (ts : List Nat) (L M : Option Nat) : Prop where
  sorted : ts.Pairwise (· < ·)
  aboveM : ∀ x, x ∈ ts → ∀ m, M = some m → m ≤ x
  aboveL : ∀ x, x ∈ ts → ∀ l, L = some l → l ≤ x
  head : ∀ t rest, ts = t :: rest → (L = some t ↔ M = some t)

theorem featLoopSet_eq : ∀ (ts : List Nat) (recs : List FeatRec) (cum : Nat) (L M : Option Nat),
    FInv ts L M → featLoopSet ts recs cum L = recHigh (fun x => decide (x ∈ ts)) recs cum M := by
  intro ts recs cum L
  fun_induction featLoopSet ts recs cum L with
  | case1 recs cum L => intro M _; simp [recHigh_false]
  | case2 t ts cum L => intro M _; rfl
  | case3 t ts r rs cum L hgt ih =>
    intro M inv
    have hnot : ¬ r.tag ∈ t :: ts := by
      intro hm
      rcases List.mem_cons.1 hm with h | h
      · omega
      · have := (List.pairwise_cons.1 inv.sorted).1 _ h; omega
    simp only [recHigh, hnot, decide_false, Bool.false_and, Bool.false_eq_true, ↓reduceIte,
      List.nil_append]
    apply ih
    constructor
    · exact inv.sorted
    · intro x hx m hm
      cases hm
      have hxt : t ≤ x := by
        rcases List.mem_cons.1 hx with h | h
        · omega
        · have := (List.pairwise_cons.1 inv.sorted).1 _ h; omega
      cases M with
      | none => simp only [optMax]; omega
      | some m0 => have := inv.aboveM x hx m0 rfl; simp only [optMax]; omega
    · exact inv.aboveL
    · intro t' rest he
      cases he
      have hh := inv.head t ts rfl
      constructor
      · intro hl
        have hm := hh.1 hl
        subst hm
        simp only [optMax, Option.some.injEq]; omega
      · intro hm
        cases M with
        | none => simp only [optMax, Option.some.injEq] at hm; omega
        | some m0 =>
          simp only [optMax, Option.some.injEq] at hm
          have := inv.aboveM t List.mem_cons_self m0 rfl
          have : m0 = t := by omega
          subst this
          exact hh.2 rfl
  | case4 t ts r rs cum L hgt hL ih =>
    intro M inv
    -- the tag was matched already (`largest = t`): drop it
    obtain ⟨l, rfl, hle⟩ : ∃ l, L = some l ∧ t ≤ l := by
      cases L with
      | none => simp at hL
      | some l => exact ⟨l, rfl, by simpa using hL⟩
    have hlt : l = t := by
      have := inv.aboveL t List.mem_cons_self l rfl; omega
    subst hlt
    have hM : M = some l := (inv.head l ts rfl).1 rfl
    rw [ih M]
    · apply recHigh_congr
      intro x hx _
      have := hx l hM
      have hne : x ≠ l := by omega
      simp [hne]
    · have hs := List.pairwise_cons.1 inv.sorted
      constructor
      · exact hs.2
      · intro x hx m hm; exact inv.aboveM x (List.mem_cons_of_mem _ hx) m hm
      · intro x hx l' hl'; cases hl'; have := hs.1 x hx; omega
      · intro t' rest he
        subst he
        have := hs.1 t' List.mem_cons_self
        constructor
        · intro h; simp only [Option.some.injEq] at h; omega
        · intro h; rw [hM] at h; simp only [Option.some.injEq] at h; omega
  | case5 t ts r rs cum L hgt hL hlt ih =>
    intro M inv
    rw [ih M]
    · apply recHigh_congr
      intro x _ hhead
      have := hhead r rs rfl
      have hne : x ≠ t := by omega
      simp [hne]
    · have hs := List.pairwise_cons.1 inv.sorted
      constructor
      · exact hs.2
      · intro x hx m hm; exact inv.aboveM x (List.mem_cons_of_mem _ hx) m hm
      · intro x hx l' hl'; cases hl'; have := hs.1 x hx; omega
      · intro t' rest he
        subst he
        have h1 := hs.1 t' List.mem_cons_self
        constructor
        · intro h; simp only [Option.some.injEq] at h; omega
        · intro h
          have := inv.aboveM t List.mem_cons_self t' h
          omega
  | case6 t ts r rs cum L hgt hL hlt ih =>
    intro M inv
    have heq : t = r.tag := by omega
    subst heq
    have hLne : L ≠ some r.tag := by
      intro h; subst h; simp at hL
    have hMne : M ≠ some r.tag := fun h => hLne ((inv.head _ ts rfl).2 h)
    have hMlt : optLt M r.tag = true := by
      cases M with
      | none => rfl
      | some m =>
        have := inv.aboveM r.tag List.mem_cons_self m rfl
        have : m ≠ r.tag := fun h => hMne (by rw [h])
        simp only [optLt, decide_eq_true_eq]; omega
    have hM' : optMax M r.tag = r.tag := by
      cases M with
      | none => rfl
      | some m => have := inv.aboveM r.tag List.mem_cons_self m rfl; simp only [optMax]; omega
    have hmem : decide (r.tag ∈ r.tag :: ts) = true := by simp
    simp only [recHigh, hmem, hMlt, Bool.and_self, ↓reduceIte,
      List.singleton_append, List.cons.injEq, true_and, hM']
    apply ih
    constructor
    · exact inv.sorted
    · intro x hx m hm
      cases hm
      rcases List.mem_cons.1 hx with h | h
      · omega
      · have := (List.pairwise_cons.1 inv.sorted).1 _ h; omega
    · intro x hx l hl
      cases hl
      rcases List.mem_cons.1 hx with h | h
      · omega
      · have := (List.pairwise_cons.1 inv.sorted).1 _ h; omega
    · intro t' rest he; cases he; exact ⟨fun _ => rfl, fun _ => rfl⟩


/-! ## format 1: key sets of the entry map -/

def hasKey (m : List (Nat × SubsetDef)) (k : Nat) : Prop := ∃ p, p ∈ m ∧ p.1 = k

theorem hasKey_emUpdate (k : Nat) (f : SubsetDef → SubsetDef) (m : List (Nat × SubsetDef)) (x : Nat) :
    hasKey (emUpdate k f m) x ↔ x = k ∨ hasKey m x := by
  induction m with
  | nil => simp [emUpdate, hasKey]; exact eq_comm
  | cons a rest ih =>
    obtain ⟨i, sd⟩ := a
    simp only [emUpdate]
    split
    · simp only [hasKey, List.mem_cons]
      constructor
      · rintro ⟨p, hp | hp, rfl⟩
        · left; rw [hp]
        · right; exact ⟨p, hp, rfl⟩
      · rintro (rfl | ⟨p, hp, rfl⟩)
        · exact ⟨_, Or.inl rfl, rfl⟩
        · exact ⟨p, Or.inr hp, rfl⟩
    · split
      · next _ hk =>
        subst hk
        simp only [hasKey, List.mem_cons]
        constructor
        · rintro ⟨p, hp | hp, rfl⟩
          · left; rw [hp]
          · right; exact ⟨p, Or.inr hp, rfl⟩
        · rintro (rfl | ⟨p, hp | hp, rfl⟩)
          · exact ⟨_, Or.inl rfl, rfl⟩
          · exact ⟨_, Or.inl rfl, by rw [hp]⟩
          · exact ⟨p, Or.inr hp, rfl⟩
      · have ih' := ih
        simp only [hasKey, List.mem_cons] at ih' ⊢
        constructor
        · rintro ⟨p, hp | hp, rfl⟩
          · right; exact ⟨p, Or.inl hp, rfl⟩
          · rcases ih'.1 ⟨p, hp, rfl⟩ with h | ⟨q, hq, hqk⟩
            · left; exact h
            · right; exact ⟨q, Or.inr hq, hqk⟩
        · rintro (rfl | ⟨p, hp | hp, rfl⟩)
          · obtain ⟨q, hq, hqk⟩ := ih'.2 (Or.inl rfl)
            exact ⟨q, Or.inr hq, hqk⟩
          · exact ⟨p, Or.inl hp, rfl⟩
          · obtain ⟨q, hq, hqk⟩ := ih'.2 (Or.inr ⟨p, hp, rfl⟩)
            exact ⟨q, Or.inr hq, hqk⟩

/-- the entry a (codepoint, glyph) pair contributes to -/
def glyphKey (t : F1Table) (pairs : List (Nat × Nat)) (x : Nat) : Prop :=
  ∃ p, p ∈ pairs ∧ ((p.2 < t.firstGid ∧ x = 0) ∨
    (¬ p.2 < t.firstGid ∧ t.entryIndex[p.2 - t.firstGid]? = some x ∧ x ≤ t.maxGm))

theorem glyphMapLoop_keys (t : F1Table) (record : Bool) :
    ∀ (pairs : List (Nat × Nat)) (acc out : List (Nat × SubsetDef)),
      glyphMapLoop t record pairs acc = .ok out →
      ∀ x, hasKey out x ↔ hasKey acc x ∨ glyphKey t pairs x := by
  intro pairs
  induction pairs with
  | nil =>
    intro acc out h x
    simp only [glyphMapLoop] at h; cases h
    simp [glyphKey]
  | cons pr rest ih =>
    intro acc out h x
    obtain ⟨cp, gid⟩ := pr
    simp only [glyphMapLoop] at h
    split at h
    · next hlt =>
      rw [ih _ _ h x, hasKey_emUpdate]
      simp only [glyphKey, List.mem_cons]
      constructor
      · rintro ((rfl | hk) | ⟨p, hp, hq⟩)
        · exact Or.inr ⟨(cp, gid), Or.inl rfl, Or.inl ⟨hlt, rfl⟩⟩
        · exact Or.inl hk
        · exact Or.inr ⟨p, Or.inr hp, hq⟩
      · rintro (hk | ⟨p, rfl | hp, hq⟩)
        · exact Or.inl (Or.inr hk)
        · rcases hq with ⟨_, rfl⟩ | ⟨hn, _⟩
          · exact Or.inl (Or.inl rfl)
          · exact absurd hlt hn
        · exact Or.inr ⟨p, hp, hq⟩
    · next hlt =>
      split at h
      · cases h
      · next ei hei =>
        split at h
        · next hgt =>
          rw [ih _ _ h x]
          simp only [glyphKey, List.mem_cons]
          constructor
          · rintro (hk | ⟨p, hp, hq⟩)
            · exact Or.inl hk
            · exact Or.inr ⟨p, Or.inr hp, hq⟩
          · rintro (hk | ⟨p, rfl | hp, hq⟩)
            · exact Or.inl hk
            · rcases hq with ⟨hl, _⟩ | ⟨_, he, hle⟩
              · exact absurd hl hlt
              · simp only at he; rw [hei] at he; cases he; omega
            · exact Or.inr ⟨p, hp, hq⟩
        · next hgt =>
          rw [ih _ _ h x, hasKey_emUpdate]
          simp only [glyphKey, List.mem_cons]
          constructor
          · rintro ((rfl | hk) | ⟨p, hp, hq⟩)
            · exact Or.inr ⟨(cp, gid), Or.inl rfl, Or.inr ⟨hlt, hei, by omega⟩⟩
            · exact Or.inl hk
            · exact Or.inr ⟨p, Or.inr hp, hq⟩
          · rintro (hk | ⟨p, rfl | hp, hq⟩)
            · exact Or.inl (Or.inr hk)
            · rcases hq with ⟨hl, _⟩ | ⟨_, he, _⟩
              · exact absurd hl hlt
              · simp only at he; rw [hei] at he; cases he; exact Or.inl (Or.inl rfl)
            · exact Or.inr ⟨p, hp, hq⟩

theorem glyphKey_mono (t : F1Table) {a b : List (Nat × Nat)} (h : ∀ p, p ∈ a → p ∈ b) (x : Nat) :
    glyphKey t a x → glyphKey t b x := by
  rintro ⟨p, hp, hq⟩; exact ⟨p, h p hp, hq⟩

theorem hasKey_merge (record : Bool) (first last mapped tag : Nat) (es : List (Nat × SubsetDef))
    (x : Nat) :
    hasKey (mergeIntersecting record first last mapped tag es) x ↔
      hasKey es x ∨ (x = mapped ∧ ∃ k, hasKey es k ∧ first ≤ k ∧ k ≤ last) := by
  unfold mergeIntersecting
  simp only []
  split
  · next hemp =>
    have hno : ¬ ∃ k, hasKey es k ∧ first ≤ k ∧ k ≤ last := by
      rintro ⟨k, ⟨p, hp, rfl⟩, h1, h2⟩
      have : p ∈ es.filter fun (p : Nat × SubsetDef) => decide (first ≤ p.1) && decide (p.1 ≤ last) :=
        List.mem_filter.2 ⟨hp, by simp [h1, h2]⟩
      rw [List.isEmpty_iff.1 hemp] at this
      cases this
    constructor
    · exact Or.inl
    · rintro (h | ⟨_, h⟩)
      · exact h
      · exact absurd h hno
  · next hne =>
    rw [hasKey_emUpdate]
    have hyes : ∃ k, hasKey es k ∧ first ≤ k ∧ k ≤ last := by
      cases hf : es.filter fun (p : Nat × SubsetDef) => decide (first ≤ p.1) && decide (p.1 ≤ last) with
      | nil => rw [hf] at hne; simp at hne
      | cons p rest =>
        have hp : p ∈ es.filter fun (p : Nat × SubsetDef) => decide (first ≤ p.1) && decide (p.1 ≤ last) := by
          rw [hf]; exact List.mem_cons_self
        obtain ⟨h1, h2⟩ := List.mem_filter.1 hp
        simp only [Bool.and_eq_true, decide_eq_true_eq] at h2
        exact ⟨p.1, ⟨p, h1, rfl⟩, h2.1, h2.2⟩
    constructor
    · rintro (rfl | h)
      · exact Or.inr ⟨rfl, hyes⟩
      · exact Or.inl h
    · rintro (h | ⟨rfl, _⟩)
      · exact Or.inr h
      · exact Or.inl rfl

/-- entry-map record `i` of feature record `r` adds entry `x` -/
def fires (t : F1Table) (G : Nat → Prop) (r : FeatRec) (cum i x : Nat) : Prop :=
  ∃ first last, t.entryMaps[i + cum]? = some (first, last) ∧
    ¬ (first > last ∨ first > t.maxGm ∨ last > t.maxGm ∨ r.firstNew + i ≤ t.maxGm ∨
        r.firstNew + i > t.maxEntry) ∧
    x = r.firstNew + i ∧ ∃ k, G k ∧ first ≤ k ∧ k ≤ last

theorem fires_mono (t : F1Table) {G G' : Nat → Prop} (h : ∀ k, G k → G' k) (r : FeatRec)
    (cum i x : Nat) : fires t G r cum i x → fires t G' r cum i x := by
  rintro ⟨f, l, h1, h2, h3, k, hk, h4⟩
  exact ⟨f, l, h1, h2, h3, k, h k hk, h4⟩

/-- the entries at or below `max_glyph_map_entry_index` are exactly the glyph-map ones -/
def Low (t : F1Table) (G : Nat → Prop) (acc : List (Nat × SubsetDef)) : Prop :=
  ∀ k, k ≤ t.maxGm → (hasKey acc k ↔ G k)

theorem entryMapLoop_keys (t : F1Table) (record : Bool) (G : Nat → Prop) (r : FeatRec) (cum : Nat) :
    ∀ (is : List Nat) (acc out : List (Nat × SubsetDef)),
      entryMapLoop t record r cum is acc = .ok out → Low t G acc →
      Low t G out ∧ ∀ x, hasKey out x ↔ hasKey acc x ∨ ∃ i, i ∈ is ∧ fires t G r cum i x := by
  intro is
  induction is with
  | nil =>
    intro acc out h hl
    simp only [entryMapLoop] at h; cases h
    exact ⟨hl, fun x => by simp⟩
  | cons i is ih =>
    intro acc out h hl
    simp only [entryMapLoop] at h
    split at h
    · cases h
    · next first last hem =>
      split at h
      · next hinv =>
        obtain ⟨h1, h2⟩ := ih acc out h hl
        refine ⟨h1, fun x => ?_⟩
        rw [h2 x]
        have hnf : ¬ fires t G r cum i x := by
          rintro ⟨f, l, he, hv, _⟩
          rw [hem] at he; cases he
          apply hv
          simpa [Bool.or_eq_true, decide_eq_true_eq, or_assoc] using hinv
        simp only [List.mem_cons]
        constructor
        · rintro (h | ⟨j, hj, hf⟩)
          · exact Or.inl h
          · exact Or.inr ⟨j, Or.inr hj, hf⟩
        · rintro (h | ⟨j, rfl | hj, hf⟩)
          · exact Or.inl h
          · exact absurd hf hnf
          · exact Or.inr ⟨j, hj, hf⟩
      · next hinv =>
        have hv : ¬ (first > last ∨ first > t.maxGm ∨ last > t.maxGm ∨ r.firstNew + i ≤ t.maxGm ∨
            r.firstNew + i > t.maxEntry) := by
          simpa [Bool.or_eq_true, decide_eq_true_eq, or_assoc] using hinv
        have hl' : Low t G (mergeIntersecting record first last (r.firstNew + i) r.tag acc) := by
          intro k hk
          rw [hasKey_merge, ← hl k hk]
          constructor
          · rintro (h | ⟨rfl, _⟩)
            · exact h
            · omega
          · exact Or.inl
        obtain ⟨h1, h2⟩ := ih _ out h hl'
        refine ⟨h1, fun x => ?_⟩
        rw [h2 x, hasKey_merge]
        simp only [List.mem_cons]
        constructor
        · rintro ((h | ⟨rfl, k, hk, hk1, hk2⟩) | ⟨j, hj, hf⟩)
          · exact Or.inl h
          · exact Or.inr ⟨i, Or.inl rfl, first, last, hem, hv, rfl, k, (hl k (by omega)).1 hk, hk1, hk2⟩
          · exact Or.inr ⟨j, Or.inr hj, hf⟩
        · rintro (h | ⟨j, rfl | hj, hf⟩)
          · exact Or.inl (Or.inl h)
          · obtain ⟨f, l, he, _, hx, k, hk, hk1, hk2⟩ := hf
            rw [hem] at he; cases he
            exact Or.inl (Or.inr ⟨hx, k, (hl k (by omega)).2 hk, hk1, hk2⟩)
          · exact Or.inr ⟨j, hj, hf⟩

theorem processSelected_keys (t : F1Table) (record : Bool) (G : Nat → Prop) :
    ∀ (sel : List (FeatRec × Nat)) (acc out : List (Nat × SubsetDef)),
      processSelected t record sel acc = .ok out → Low t G acc →
      Low t G out ∧ ∀ x, hasKey out x ↔
        hasKey acc x ∨ ∃ q, q ∈ sel ∧ ∃ i, i ∈ List.range q.1.count ∧ fires t G q.1 q.2 i x := by
  intro sel
  induction sel with
  | nil =>
    intro acc out h hl
    simp only [processSelected] at h; cases h
    exact ⟨hl, fun x => by simp⟩
  | cons q sel ih =>
    intro acc out h hl
    obtain ⟨r, cum⟩ := q
    simp only [processSelected] at h
    split at h
    · cases h
    · next acc' hacc =>
      obtain ⟨hl1, hk1⟩ := entryMapLoop_keys t record G r cum _ acc acc' hacc hl
      obtain ⟨hl2, hk2⟩ := ih acc' out h hl1
      refine ⟨hl2, fun x => ?_⟩
      rw [hk2 x, hk1 x]
      simp only [List.mem_cons]
      constructor
      · rintro ((h | ⟨i, hi, hf⟩) | ⟨q, hq, hf⟩)
        · exact Or.inl h
        · exact Or.inr ⟨(r, cum), Or.inl rfl, i, hi, hf⟩
        · exact Or.inr ⟨q, Or.inr hq, hf⟩
      · rintro (h | ⟨q, rfl | hq, hf⟩)
        · exact Or.inl (Or.inl h)
        · obtain ⟨i, hi, hf⟩ := hf; exact Or.inl (Or.inr ⟨i, hi, hf⟩)
        · exact Or.inr ⟨q, hq, hf⟩

/-- the feature records the loop uses for a feature set -/
def selectedRecs (t : F1Table) : FeatureSet → List (FeatRec × Nat)
  | .all => featLoopAll t.featRecs 0 none
  | .set tags => featLoopSet tags t.featRecs 0 none

/-- `BTreeSet<Tag>` iterates in strictly ascending order -/
def FeatureSet.sorted : FeatureSet → Prop
  | .all => True
  | .set tags => tags.Pairwise (· < ·)

theorem selectedRecs_mono (t : F1Table) {f f' : FeatureSet} (hle : FeatureSet.le f f')
    (hs : f.sorted) (hs' : f'.sorted) (q : FeatRec × Nat) :
    q ∈ selectedRecs t f → q ∈ selectedRecs t f' := by
  have hinv : ∀ tags : List Nat, tags.Pairwise (· < ·) → FInv tags none none := by
    intro tags h
    constructor
    · exact h
    · intro _ _ m hm; cases hm
    · intro _ _ l hl; cases hl
    · intro _ _ _; constructor <;> intro h <;> cases h
  cases f with
  | all =>
    cases f' with
    | all => exact id
    | set b => simp [FeatureSet.le] at hle
  | set a =>
    cases f' with
    | all =>
      simp only [selectedRecs]
      rw [featLoopSet_eq a _ 0 none none (hinv a hs), featLoopAll_eq]
      exact recHigh_mono _ _ (fun _ _ => rfl) _ _ _ q
    | set b =>
      simp only [selectedRecs]
      rw [featLoopSet_eq a _ 0 none none (hinv a hs), featLoopSet_eq b _ 0 none none (hinv b hs')]
      apply recHigh_mono
      intro x hx
      simp only [decide_eq_true_eq] at hx ⊢
      exact hle x hx

theorem featureMap_keys (t : F1Table) (record : Bool) (feats : FeatureSet)
    (gm out : List (Nat × SubsetDef)) (h : featureMap t record feats gm = .ok out) (x : Nat) :
    hasKey out x ↔ hasKey gm x ∨ (t.hasFeatureMap = true ∧ ∃ q, q ∈ selectedRecs t feats ∧
      ∃ i, i ∈ List.range q.1.count ∧ fires t (hasKey gm) q.1 q.2 i x) := by
  unfold featureMap at h
  split at h
  · next hno =>
    cases h
    simp only [Bool.not_eq_true'] at hno
    simp [hno]
  · next hyes =>
    simp only [Bool.not_eq_true', Bool.not_eq_false] at hyes
    split at h
    · cases h
    · simp only [] at h
      have h' : processSelected t record (selectedRecs t feats) gm = .ok out := by
        cases feats <;> exact h
      obtain ⟨_, hk⟩ := processSelected_keys t record (hasKey gm) _ gm out h' (fun _ _ => Iff.rfl)
      rw [hk x]
      simp [hyes]


/-- an offered uri without the recorded intersection size -/
def PatchUri.strip (u : PatchUri) : PatchUri := { u with info := IntersectionInfo.zero }

/-- anatomy of a successful `add_intersecting_format1_patches` -/
theorem intersectF1_ok {tag : TableTag} {t : F1Table} {d : SubsetDef} {us : List PatchUri}
    (h : intersectF1 tag t d = .ok us) :
    ∃ enc gm entries, PatchFormat.ofNumber t.patchFormat = some enc ∧
      glyphMapLoop t enc.isInvalidating
        (t.cmap.filter fun (p : Nat × Nat) => rMem (p.1 : Int) d.cps) [] = .ok gm ∧
      featureMap t enc.isInvalidating d.feats gm = .ok entries ∧
      ∀ u, u ∈ us ↔ ∃ p, p ∈ entries ∧ p.1 > 0 ∧ isEntryApplied t.bitmap p.1 = false ∧
        u.strip = { template := t.template, id := .num p.1, enc := enc, table := tag,
                    compat := t.compat, bit := t.bitmapStart * 8 + p.1,
                    info := IntersectionInfo.zero } ∧
        u.info = (if enc.isInvalidating then IntersectionInfo.fromSubset p.2 p.1
                  else IntersectionInfo.zero) := by
  unfold intersectF1 at h
  split at h
  · cases h
  · split at h
    · cases h
    · split at h
      · cases h
      · split at h
        · cases h
        · next enc henc =>
          simp only [] at h
          split at h
          · cases h
          · next gm hgm =>
            split at h
            · cases h
            · next entries hent =>
              cases h
              refine ⟨enc, gm, entries, henc, hgm, hent, ?_⟩
              intro u
              simp only [List.mem_map, List.mem_filter, Bool.and_eq_true, decide_eq_true_eq,
                Bool.not_eq_true']
              constructor
              · rintro ⟨p, ⟨hp, h1, h2⟩, rfl⟩
                exact ⟨p, hp, h1, h2, rfl, rfl⟩
              · rintro ⟨p, hp, h1, h2, h3, h4⟩
                refine ⟨p, ⟨hp, h1, h2⟩, ?_⟩
                cases u
                simp only [PatchUri.strip, PatchUri.mk.injEq] at h3
                simp only at h4
                simp only [PatchUri.mk.injEq]
                exact ⟨h3.1.symm, h3.2.1.symm, h3.2.2.1.symm, h3.2.2.2.1.symm, h3.2.2.2.2.1.symm,
                  h3.2.2.2.2.2.1.symm, h4.symm⟩

/-- **format 1 offers are monotone** in the codepoints and features of the definition (when both
calls succeed: a larger definition can reach a glyph whose glyph-map lookup is out of bounds) -/
theorem intersectF1_mono (tag : TableTag) (t : F1Table) (d d' : SubsetDef) (hle : SubsetDef.le d d')
    (hs : d.feats.sorted) (hs' : d'.feats.sorted) (us us' : List PatchUri)
    (h : intersectF1 tag t d = .ok us) (h' : intersectF1 tag t d' = .ok us') :
    ∀ u, u ∈ us → ∃ u', u' ∈ us' ∧ u'.strip = u.strip := by
  obtain ⟨enc, gm, entries, henc, hgm, hent, hus⟩ := intersectF1_ok h
  obtain ⟨enc', gm', entries', henc', hgm', hent', hus'⟩ := intersectF1_ok h'
  rw [henc] at henc'; cases henc'
  intro u hu
  obtain ⟨p, hp, hp0, hpa, hstrip, _⟩ := (hus u).1 hu
  have hkey : hasKey entries p.1 := ⟨p, hp, rfl⟩
  -- glyph-map keys grow
  have hG : ∀ k, hasKey gm k → hasKey gm' k := by
    intro k hk
    rw [glyphMapLoop_keys t _ _ [] gm hgm k] at hk
    rw [glyphMapLoop_keys t _ _ [] gm' hgm' k]
    rcases hk with hk | hk
    · exact Or.inl hk
    · refine Or.inr (glyphKey_mono t ?_ k hk)
      intro q hq
      obtain ⟨hq1, hq2⟩ := List.mem_filter.1 hq
      exact List.mem_filter.2 ⟨hq1, hle.1 _ hq2⟩
  have hkey' : hasKey entries' p.1 := by
    rw [featureMap_keys t _ _ gm entries hent] at hkey
    rw [featureMap_keys t _ _ gm' entries' hent']
    rcases hkey with hk | ⟨hfm, q, hq, i, hi, hf⟩
    · exact Or.inl (hG _ hk)
    · exact Or.inr ⟨hfm, q, selectedRecs_mono t hle.2.1 hs hs' q hq, i, hi,
        fires_mono t hG _ _ _ _ hf⟩
  obtain ⟨p', hp', hpk⟩ := hkey'
  let u' : PatchUri :=
    { template := t.template, id := .num p'.1, enc := enc, table := tag, compat := t.compat,
      bit := t.bitmapStart * 8 + p'.1,
      info := if enc.isInvalidating then IntersectionInfo.fromSubset p'.2 p'.1
              else IntersectionInfo.zero }
  refine ⟨u', (hus' u').2 ⟨p', hp', by omega, by rw [hpk]; exact hpa, rfl, rfl⟩, ?_⟩
  rw [hstrip]
  simp only [u', PatchUri.strip, hpk]

end FontVerif.PatchMap
