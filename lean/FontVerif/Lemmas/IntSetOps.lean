/- C14 / IntSet helper lemmas, part 4: the `IntSet` mode tables and operation histories. -/
import FontVerif.Lemmas.IntSetProcess
set_option linter.unusedVariables false
set_option linter.unusedSimpArgs false
namespace FontVerif.IntSet

/-! ### invariants at the `IntSet` level -/

/-- representation invariant of `IntSet` (either membership mode) -/
def IInv (s : IntSet) : Prop := BInv s.set

/-- the stored values (members for `Inclusive`, non-members for `Exclusive`) are values of the
element domain — guaranteed in the Rust by the element type `T` -/
def InDom (d : Domain) (s : IntSet) : Prop := ∀ x, s.set.contains x = true → d.contains x = true

/-- invariant + stored values are domain values -/
def IInvD (d : Domain) (s : IntSet) : Prop := IInv s ∧ InDom d s

theorem iInv_empty : IInv IntSet.empty := bInv_empty
theorem iInv_all : IInv IntSet.all := bInv_empty

theorem BitSet.empty_contains (x : Nat) : BitSet.empty.contains x = false := rfl

theorem inDom_empty (d : Domain) : InDom d IntSet.empty := by
  intro x hx; simp [IntSet.empty, BitSet.empty_contains] at hx
theorem inDom_all (d : Domain) : InDom d IntSet.all := by
  intro x hx; simp [IntSet.all, BitSet.empty_contains] at hx

theorem IntSet.contains_eq (s : IntSet) (x : Nat) :
    s.contains x = (s.inverted ^^ s.set.contains x) := by
  unfold IntSet.contains
  cases s.inverted <;> simp

/-! ### expand / clipRanges / Domain.contains -/

theorem mem_expand {rs : List (Nat × Nat)} {x : Nat} :
    x ∈ expand rs ↔ ∃ r ∈ rs, r.1 ≤ x ∧ x ≤ r.2 := by
  unfold expand
  simp only [List.mem_flatMap, List.mem_map, List.mem_range]
  constructor
  · rintro ⟨r, hr, i, hi, rfl⟩
    exact ⟨r, hr, by omega, by omega⟩
  · rintro ⟨r, hr, h1, h2⟩
    exact ⟨r, hr, x - r.1, by omega, by omega⟩

theorem mem_clipRanges {rs : List (Nat × Nat)} {lo hi : Nat} {q : Nat × Nat} :
    q ∈ clipRanges rs lo hi ↔ ∃ r ∈ rs, max r.1 lo ≤ min r.2 hi ∧ q = (max r.1 lo, min r.2 hi) := by
  unfold clipRanges
  simp only [List.mem_filterMap]
  constructor
  · rintro ⟨r, hr, h⟩
    split at h
    · rename_i hle
      simp at h
      exact ⟨r, hr, hle, h.symm⟩
    · simp at h
  · rintro ⟨r, hr, hle, rfl⟩
    exact ⟨r, hr, by simp [hle]⟩

theorem Domain.contains_iff {d : Domain} {x : Nat} :
    d.contains x = true ↔ ∃ r ∈ d.ranges, r.1 ≤ x ∧ x ≤ r.2 := by
  unfold Domain.contains
  simp [List.any_eq_true]

theorem mem_expand_rangeValues {d : Domain} {a b x : Nat} :
    x ∈ expand (d.rangeValues a b) ↔ a ≤ x ∧ x ≤ b ∧ d.contains x = true := by
  rw [mem_expand, Domain.contains_iff]
  unfold Domain.rangeValues
  constructor
  · rintro ⟨q, hq, h1, h2⟩
    rw [mem_clipRanges] at hq
    obtain ⟨r, hr, hle, rfl⟩ := hq
    simp only at h1 h2
    exact ⟨by omega, by omega, r, hr, by omega, by omega⟩
  · rintro ⟨h1, h2, r, hr, h3, h4⟩
    refine ⟨(max r.1 a, min r.2 b), ?_, by simp only; omega, by simp only; omega⟩
    rw [mem_clipRanges]
    exact ⟨r, hr, by omega, rfl⟩

theorem decide_mem_rangeValues (d : Domain) (a b x : Nat) :
    decide (x ∈ expand (d.rangeValues a b)) = (decide (a ≤ x) && decide (x ≤ b) && d.contains x) := by
  by_cases h : x ∈ expand (d.rangeValues a b)
  · have := mem_expand_rangeValues.1 h
    simp [h, this.1, this.2.1, this.2.2]
  · have h' := h
    rw [mem_expand_rangeValues] at h'
    by_cases h1 : a ≤ x <;> by_cases h2 : x ≤ b <;> cases h3 : d.contains x <;> simp [h, h1, h2]
    exact h' ⟨h1, h2, h3⟩

/-! ### insert / remove -/

theorem IntSet.insert_inv (s : IntSet) (v : Nat) (h : IInv s) : IInv (s.insert v).1 := by
  unfold IntSet.insert
  split
  · exact BitSet.remove_inv _ _ h
  · exact BitSet.insert_inv _ _ h

theorem IntSet.insert_contains (s : IntSet) (v x : Nat) (h : IInv s) :
    (s.insert v).1.contains x = (decide (x = v) || s.contains x) := by
  unfold IntSet.insert
  split
  · rename_i hi
    simp only [IntSet.contains, hi, if_true, BitSet.remove_contains _ _ _ h]
    cases decide (x = v) <;> cases s.set.contains x <;> rfl
  · rename_i hi
    simp only [IntSet.contains, hi, BitSet.insert_contains _ _ _ h]
    simp

theorem IntSet.insert_snd (s : IntSet) (v : Nat) (h : IInv s) :
    (s.insert v).2 = !s.contains v := by
  unfold IntSet.insert
  split
  · rename_i hi
    simp only [IntSet.contains, hi, if_true, BitSet.remove_snd, Bool.not_not]
  · rename_i hi
    simp only [IntSet.contains, hi, BitSet.insert_snd _ _ h]
    simp

theorem IntSet.insert_inDom (d : Domain) (s : IntSet) (v : Nat) (h : IInv s) (hd : InDom d s)
    (hv : d.contains v = true) : InDom d (s.insert v).1 := by
  unfold IntSet.insert
  intro x hx
  split at hx
  · simp only [BitSet.remove_contains _ _ _ h] at hx
    simp only [Bool.and_eq_true] at hx
    exact hd x hx.2
  · simp only [BitSet.insert_contains _ _ _ h] at hx
    simp only [Bool.or_eq_true, decide_eq_true_eq] at hx
    rcases hx with rfl | hx
    · exact hv
    · exact hd x hx

theorem IntSet.remove_inv (s : IntSet) (v : Nat) (h : IInv s) : IInv (s.remove v).1 := by
  unfold IntSet.remove
  split
  · exact BitSet.insert_inv _ _ h
  · exact BitSet.remove_inv _ _ h

theorem IntSet.remove_contains (s : IntSet) (v x : Nat) (h : IInv s) :
    (s.remove v).1.contains x = (!decide (x = v) && s.contains x) := by
  unfold IntSet.remove
  split
  · rename_i hi
    simp only [IntSet.contains, hi, if_true, BitSet.insert_contains _ _ _ h]
    cases decide (x = v) <;> cases s.set.contains x <;> rfl
  · rename_i hi
    simp only [IntSet.contains, hi, BitSet.remove_contains _ _ _ h]
    simp

theorem IntSet.remove_snd (s : IntSet) (v : Nat) (h : IInv s) :
    (s.remove v).2 = s.contains v := by
  unfold IntSet.remove
  split
  · rename_i hi
    simp only [IntSet.contains, hi, if_true, BitSet.insert_snd _ _ h]
  · rename_i hi
    simp only [IntSet.contains, hi, BitSet.remove_snd]
    simp

theorem IntSet.remove_inDom (d : Domain) (s : IntSet) (v : Nat) (h : IInv s) (hd : InDom d s)
    (hv : d.contains v = true) : InDom d (s.remove v).1 := by
  unfold IntSet.remove
  intro x hx
  split at hx
  · simp only [BitSet.insert_contains _ _ _ h] at hx
    simp only [Bool.or_eq_true, decide_eq_true_eq] at hx
    rcases hx with rfl | hx
    · exact hv
    · exact hd x hx
  · simp only [BitSet.remove_contains _ _ _ h] at hx
    simp only [Bool.and_eq_true] at hx
    exact hd x hx.2

/-! ### extend / removeAll -/

theorem IntSet.extend_inv (s : IntSet) (vs : List Nat) (h : IInv s) : IInv (s.extend vs) := by
  unfold IntSet.extend
  split
  · exact (BitSet.removeAll_spec _ _ h).1
  · exact (BitSet.extend_spec _ _ h).1

theorem IntSet.extend_contains (s : IntSet) (vs : List Nat) (x : Nat) (h : IInv s) :
    (s.extend vs).contains x = (decide (x ∈ vs) || s.contains x) := by
  unfold IntSet.extend
  split
  · rename_i hi
    simp only [IntSet.contains, hi, if_true, (BitSet.removeAll_spec _ _ h).2]
    cases decide (x ∈ vs) <;> cases s.set.contains x <;> rfl
  · rename_i hi
    simp only [IntSet.contains, hi, (BitSet.extend_spec _ _ h).2]
    simp

theorem IntSet.extend_inDom (d : Domain) (s : IntSet) (vs : List Nat) (h : IInv s) (hd : InDom d s)
    (hv : ∀ v ∈ vs, d.contains v = true) : InDom d (s.extend vs) := by
  unfold IntSet.extend
  intro x hx
  split at hx
  · simp only [(BitSet.removeAll_spec _ _ h).2, Bool.and_eq_true] at hx
    exact hd x hx.2
  · simp only [(BitSet.extend_spec _ _ h).2, Bool.or_eq_true, decide_eq_true_eq] at hx
    rcases hx with hx | hx
    · exact hv x hx
    · exact hd x hx

theorem IntSet.removeAll_inv (s : IntSet) (vs : List Nat) (h : IInv s) : IInv (s.removeAll vs) := by
  unfold IntSet.removeAll
  split
  · exact (BitSet.extend_spec _ _ h).1
  · exact (BitSet.removeAll_spec _ _ h).1

theorem IntSet.removeAll_contains (s : IntSet) (vs : List Nat) (x : Nat) (h : IInv s) :
    (s.removeAll vs).contains x = (!decide (x ∈ vs) && s.contains x) := by
  unfold IntSet.removeAll
  split
  · rename_i hi
    simp only [IntSet.contains, hi, if_true, (BitSet.extend_spec _ _ h).2]
    cases decide (x ∈ vs) <;> cases s.set.contains x <;> rfl
  · rename_i hi
    simp only [IntSet.contains, hi, (BitSet.removeAll_spec _ _ h).2]
    simp

theorem IntSet.removeAll_inDom (d : Domain) (s : IntSet) (vs : List Nat) (h : IInv s)
    (hd : InDom d s) (hv : ∀ v ∈ vs, d.contains v = true) : InDom d (s.removeAll vs) := by
  unfold IntSet.removeAll
  intro x hx
  split at hx
  · simp only [(BitSet.extend_spec _ _ h).2, Bool.or_eq_true, decide_eq_true_eq] at hx
    rcases hx with hx | hx
    · exact hv x hx
    · exact hd x hx
  · simp only [(BitSet.removeAll_spec _ _ h).2, Bool.and_eq_true] at hx
    exact hd x hx.2

/-! ### insertRange / removeRange -/

/-- the values `insert_range(a..=b)` adds: the whole interval for a continuous domain, the
domain values inside it otherwise (`ordered_values_range`) -/
def inRange (d : Domain) (a b x : Nat) : Bool :=
  decide (a ≤ x) && decide (x ≤ b) && (d.continuous || d.contains x)

theorem IntSet.insertRange_inv (d : Domain) (s : IntSet) (a b : Nat) (h : IInv s) :
    IInv (s.insertRange d a b) := by
  unfold IntSet.insertRange
  split
  · split
    · exact (BitSet.removeRange_spec _ _ _ h).1
    · exact (BitSet.insertRange_spec _ _ _ h).1
  · split
    · exact (BitSet.removeAll_spec _ _ h).1
    · exact (BitSet.extend_spec _ _ h).1

theorem IntSet.insertRange_contains (d : Domain) (s : IntSet) (a b x : Nat) (h : IInv s) :
    (s.insertRange d a b).contains x = (s.contains x || inRange d a b x) := by
  unfold IntSet.insertRange inRange
  split
  · rename_i hc
    split
    · rename_i hi
      simp only [IntSet.contains, hi, if_true, (BitSet.removeRange_spec _ _ _ h).2, hc]
      cases s.set.contains x <;> cases decide (a ≤ x) <;> cases decide (x ≤ b) <;> rfl
    · rename_i hi
      simp only [IntSet.contains, hi, (BitSet.insertRange_spec _ _ _ h).2, hc]
      simp
  · rename_i hc
    simp only [Bool.not_eq_true] at hc
    split
    · rename_i hi
      simp only [IntSet.contains, hi, if_true, (BitSet.removeAll_spec _ _ h).2,
        decide_mem_rangeValues, hc]
      cases s.set.contains x <;> cases decide (a ≤ x) <;> cases decide (x ≤ b) <;>
        cases d.contains x <;> rfl
    · rename_i hi
      simp only [IntSet.contains, hi, (BitSet.extend_spec _ _ h).2, decide_mem_rangeValues, hc]
      cases s.set.contains x <;> cases decide (a ≤ x) <;> cases decide (x ≤ b) <;>
        cases d.contains x <;> rfl

theorem IntSet.removeRange_inv (d : Domain) (s : IntSet) (a b : Nat) (h : IInv s) :
    IInv (s.removeRange d a b) := by
  unfold IntSet.removeRange
  split
  · split
    · exact (BitSet.insertRange_spec _ _ _ h).1
    · exact (BitSet.removeRange_spec _ _ _ h).1
  · split
    · exact (BitSet.extend_spec _ _ h).1
    · exact (BitSet.removeAll_spec _ _ h).1

theorem IntSet.removeRange_contains (d : Domain) (s : IntSet) (a b x : Nat) (h : IInv s) :
    (s.removeRange d a b).contains x = (s.contains x && !inRange d a b x) := by
  unfold IntSet.removeRange inRange
  split
  · rename_i hc
    split
    · rename_i hi
      simp only [IntSet.contains, hi, if_true, (BitSet.insertRange_spec _ _ _ h).2, hc]
      cases s.set.contains x <;> cases decide (a ≤ x) <;> cases decide (x ≤ b) <;> rfl
    · rename_i hi
      simp only [IntSet.contains, hi, (BitSet.removeRange_spec _ _ _ h).2, hc]
      simp
  · rename_i hc
    simp only [Bool.not_eq_true] at hc
    split
    · rename_i hi
      simp only [IntSet.contains, hi, if_true, (BitSet.extend_spec _ _ h).2,
        decide_mem_rangeValues, hc]
      cases s.set.contains x <;> cases decide (a ≤ x) <;> cases decide (x ≤ b) <;>
        cases d.contains x <;> rfl
    · rename_i hi
      simp only [IntSet.contains, hi, (BitSet.removeAll_spec _ _ h).2, decide_mem_rangeValues, hc]
      cases s.set.contains x <;> cases decide (a ≤ x) <;> cases decide (x ≤ b) <;>
        cases d.contains x <;> rfl

/-- the interval handed to a range operation consists of domain values (automatic for
discontinuous domains, where only `ordered_values_range` is touched; for a continuous domain it
says the end points are values of `T`) -/
def RangeInDom (d : Domain) (a b : Nat) : Prop :=
  d.continuous = true → ∀ x, a ≤ x → x ≤ b → d.contains x = true

theorem inRange_inDom {d : Domain} {a b x : Nat} (hr : RangeInDom d a b)
    (h : inRange d a b x = true) : d.contains x = true := by
  unfold inRange at h
  simp only [Bool.and_eq_true, decide_eq_true_eq, Bool.or_eq_true] at h
  rcases h.2 with hc | hc
  · exact hr hc x h.1.1 h.1.2
  · exact hc

theorem IntSet.insertRange_inDom (d : Domain) (s : IntSet) (a b : Nat) (h : IInv s)
    (hd : InDom d s) (hr : RangeInDom d a b) : InDom d (s.insertRange d a b) := by
  intro x hx
  have hc := IntSet.insertRange_contains d s a b x h
  have hi : (s.insertRange d a b).inverted = s.inverted := by
    unfold IntSet.insertRange; split <;> split <;> simp [*]
  rw [IntSet.contains_eq, IntSet.contains_eq, hi, hx] at hc
  cases hinv : s.inverted <;> rw [hinv] at hc <;> simp at hc
  · rcases hc with hc | hc
    · exact hd x hc
    · exact inRange_inDom hr hc
  · exact hd x hc.1

theorem IntSet.removeRange_inDom (d : Domain) (s : IntSet) (a b : Nat) (h : IInv s)
    (hd : InDom d s) (hr : RangeInDom d a b) : InDom d (s.removeRange d a b) := by
  intro x hx
  have hc := IntSet.removeRange_contains d s a b x h
  have hi : (s.removeRange d a b).inverted = s.inverted := by
    unfold IntSet.removeRange; split <;> split <;> simp [*]
  rw [IntSet.contains_eq, IntSet.contains_eq, hi, hx] at hc
  cases hinv : s.inverted <;> rw [hinv] at hc <;> simp at hc
  · exact hd x hc.1
  · by_cases hs : s.set.contains x = true
    · exact hd x hs
    · simp only [Bool.not_eq_true] at hs
      exact inRange_inDom hr (hc hs)

/-! ### invert / clear -/

theorem IntSet.invert_inv (s : IntSet) (h : IInv s) : IInv s.invert := h
theorem IntSet.invert_contains (s : IntSet) (x : Nat) : s.invert.contains x = !s.contains x := by
  unfold IntSet.invert IntSet.contains
  cases s.inverted <;> simp
theorem IntSet.invert_inDom (d : Domain) (s : IntSet) (hd : InDom d s) : InDom d s.invert := hd
theorem IntSet.clear_inv (s : IntSet) : IInv s.clear := iInv_empty
theorem IntSet.clear_contains (s : IntSet) (x : Nat) : s.clear.contains x = false := rfl
theorem IntSet.clear_inDom (d : Domain) (s : IntSet) : InDom d s.clear := inDom_empty d

/-! ### union / intersect / subtract: the mode tables -/

theorem BitSet.union_spec (a b : BitSet) (ha : BInv a) (hb : BInv b) :
    BInv (a.union b) ∧ ∀ x, (a.union b).contains x = (a.contains x || b.contains x) :=
  ⟨BitSet.process_inv bitwise_union a b ha hb, BitSet.process_contains bitwise_union a b ha hb⟩
theorem BitSet.intersect_spec (a b : BitSet) (ha : BInv a) (hb : BInv b) :
    BInv (a.intersect b) ∧ ∀ x, (a.intersect b).contains x = (a.contains x && b.contains x) :=
  ⟨BitSet.process_inv bitwise_intersect a b ha hb,
    BitSet.process_contains bitwise_intersect a b ha hb⟩
theorem BitSet.subtract_spec (a b : BitSet) (ha : BInv a) (hb : BInv b) :
    BInv (a.subtract b) ∧ ∀ x, (a.subtract b).contains x = (a.contains x && !b.contains x) :=
  ⟨BitSet.process_inv bitwise_subtract a b ha hb,
    BitSet.process_contains bitwise_subtract a b ha hb⟩
theorem BitSet.reversedSubtract_spec (a b : BitSet) (ha : BInv a) (hb : BInv b) :
    BInv (a.reversedSubtract b) ∧
      ∀ x, (a.reversedSubtract b).contains x = (!a.contains x && b.contains x) :=
  ⟨BitSet.process_inv bitwise_revSubtract a b ha hb,
    BitSet.process_contains bitwise_revSubtract a b ha hb⟩

theorem IntSet.union_inv (a b : IntSet) (ha : IInv a) (hb : IInv b) : IInv (a.union b) := by
  unfold IntSet.union
  split
  · exact (BitSet.union_spec _ _ ha hb).1
  · exact (BitSet.reversedSubtract_spec _ _ ha hb).1
  · exact (BitSet.subtract_spec _ _ ha hb).1
  · exact (BitSet.intersect_spec _ _ ha hb).1

theorem IntSet.union_contains (a b : IntSet) (x : Nat) (ha : IInv a) (hb : IInv b) :
    (a.union b).contains x = (a.contains x || b.contains x) := by
  unfold IntSet.union
  split <;> rename_i h1 h2 <;>
    simp only [IntSet.contains, IntSet.invert, h1, h2, if_true, Bool.not_false, Bool.not_true,
      (BitSet.union_spec _ _ ha hb).2, (BitSet.reversedSubtract_spec _ _ ha hb).2,
      (BitSet.subtract_spec _ _ ha hb).2, (BitSet.intersect_spec _ _ ha hb).2] <;>
    cases a.set.contains x <;> cases b.set.contains x <;> rfl

theorem IntSet.intersect_inv (a b : IntSet) (ha : IInv a) (hb : IInv b) :
    IInv (a.intersect b) := by
  unfold IntSet.intersect
  split
  · exact (BitSet.intersect_spec _ _ ha hb).1
  · exact (BitSet.subtract_spec _ _ ha hb).1
  · exact (BitSet.reversedSubtract_spec _ _ ha hb).1
  · exact (BitSet.union_spec _ _ ha hb).1

theorem IntSet.intersect_contains (a b : IntSet) (x : Nat) (ha : IInv a) (hb : IInv b) :
    (a.intersect b).contains x = (a.contains x && b.contains x) := by
  unfold IntSet.intersect
  split <;> rename_i h1 h2 <;>
    simp only [IntSet.contains, IntSet.invert, h1, h2, if_true, Bool.not_false, Bool.not_true,
      (BitSet.union_spec _ _ ha hb).2, (BitSet.reversedSubtract_spec _ _ ha hb).2,
      (BitSet.subtract_spec _ _ ha hb).2, (BitSet.intersect_spec _ _ ha hb).2] <;>
    cases a.set.contains x <;> cases b.set.contains x <;> rfl

theorem IntSet.subtract_inv (a b : IntSet) (ha : IInv a) (hb : IInv b) :
    IInv (a.subtract b) := by
  unfold IntSet.subtract
  split
  · exact (BitSet.subtract_spec _ _ ha hb).1
  · exact (BitSet.intersect_spec _ _ ha hb).1
  · exact (BitSet.union_spec _ _ ha hb).1
  · exact (BitSet.reversedSubtract_spec _ _ ha hb).1

theorem IntSet.subtract_contains (a b : IntSet) (x : Nat) (ha : IInv a) (hb : IInv b) :
    (a.subtract b).contains x = (a.contains x && !b.contains x) := by
  unfold IntSet.subtract
  split <;> rename_i h1 h2 <;>
    simp only [IntSet.contains, IntSet.invert, h1, h2, if_true, Bool.not_false, Bool.not_true,
      (BitSet.union_spec _ _ ha hb).2, (BitSet.reversedSubtract_spec _ _ ha hb).2,
      (BitSet.subtract_spec _ _ ha hb).2, (BitSet.intersect_spec _ _ ha hb).2] <;>
    cases a.set.contains x <;> cases b.set.contains x <;> rfl

/-- every page-merge result only stores values stored by one of its inputs -/
theorem process_stored {op f} (hop : BitwiseOp op f) (a b : BitSet) (ha : BInv a) (hb : BInv b)
    (x : Nat) (h : (BitSet.process op a b).contains x = true) :
    a.contains x = true ∨ b.contains x = true := by
  rw [BitSet.process_contains hop a b ha hb] at h
  cases h1 : a.contains x <;> cases h2 : b.contains x <;> simp_all [hop.ff]

theorem IntSet.union_inDom (d : Domain) (a b : IntSet) (ha : IInv a) (hb : IInv b)
    (hda : InDom d a) (hdb : InDom d b) : InDom d (a.union b) := by
  intro x hx
  unfold IntSet.union at hx
  have key : ∀ {op f}, BitwiseOp op f → (BitSet.process op a.set b.set).contains x = true →
      d.contains x = true := fun hop h =>
    (process_stored hop _ _ ha hb x h).elim (hda x) (hdb x)
  split at hx
  · exact key bitwise_union hx
  · exact key bitwise_revSubtract hx
  · exact key bitwise_subtract hx
  · exact key bitwise_intersect hx

theorem IntSet.intersect_inDom (d : Domain) (a b : IntSet) (ha : IInv a) (hb : IInv b)
    (hda : InDom d a) (hdb : InDom d b) : InDom d (a.intersect b) := by
  intro x hx
  unfold IntSet.intersect at hx
  have key : ∀ {op f}, BitwiseOp op f → (BitSet.process op a.set b.set).contains x = true →
      d.contains x = true := fun hop h =>
    (process_stored hop _ _ ha hb x h).elim (hda x) (hdb x)
  split at hx
  · exact key bitwise_intersect hx
  · exact key bitwise_subtract hx
  · exact key bitwise_revSubtract hx
  · exact key bitwise_union hx

theorem IntSet.subtract_inDom (d : Domain) (a b : IntSet) (ha : IInv a) (hb : IInv b)
    (hda : InDom d a) (hdb : InDom d b) : InDom d (a.subtract b) := by
  intro x hx
  unfold IntSet.subtract at hx
  have key : ∀ {op f}, BitwiseOp op f → (BitSet.process op a.set b.set).contains x = true →
      d.contains x = true := fun hop h =>
    (process_stored hop _ _ ha hb x h).elim (hda x) (hdb x)
  split at hx
  · exact key bitwise_subtract hx
  · exact key bitwise_intersect hx
  · exact key bitwise_union hx
  · exact key bitwise_revSubtract hx

/-! ### histories -/

/-- an operation history: how a set was built (a tree, because the binary operations take a
previously built set as their argument) -/
inductive Hist where
  | empty
  | all
  | insert (h : Hist) (v : Nat)
  | remove (h : Hist) (v : Nat)
  | insertRange (h : Hist) (a b : Nat)
  | removeRange (h : Hist) (a b : Nat)
  | extend (h : Hist) (vs : List Nat)
  | removeAll (h : Hist) (vs : List Nat)
  | invert (h : Hist)
  | clear (h : Hist)
  | union (h other : Hist)
  | intersect (h other : Hist)
  | subtract (h other : Hist)

/-- run the history on the model -/
def Hist.run (d : Domain) : Hist → IntSet
  | .empty => IntSet.empty
  | .all => IntSet.all
  | .insert h v => ((h.run d).insert v).1
  | .remove h v => ((h.run d).remove v).1
  | .insertRange h a b => (h.run d).insertRange d a b
  | .removeRange h a b => (h.run d).removeRange d a b
  | .extend h vs => (h.run d).extend vs
  | .removeAll h vs => (h.run d).removeAll vs
  | .invert h => (h.run d).invert
  | .clear h => (h.run d).clear
  | .union h o => (h.run d).union (o.run d)
  | .intersect h o => (h.run d).intersect (o.run d)
  | .subtract h o => (h.run d).subtract (o.run d)

/-- the mathematical set the history denotes, as a characteristic function -/
def Hist.spec (d : Domain) : Hist → Nat → Bool
  | .empty => fun _ => false
  | .all => fun _ => true
  | .insert h v => fun x => decide (x = v) || h.spec d x
  | .remove h v => fun x => !decide (x = v) && h.spec d x
  | .insertRange h a b => fun x => h.spec d x || inRange d a b x
  | .removeRange h a b => fun x => h.spec d x && !inRange d a b x
  | .extend h vs => fun x => decide (x ∈ vs) || h.spec d x
  | .removeAll h vs => fun x => !decide (x ∈ vs) && h.spec d x
  | .invert h => fun x => !h.spec d x
  | .clear _ => fun _ => false
  | .union h o => fun x => h.spec d x || o.spec d x
  | .intersect h o => fun x => h.spec d x && o.spec d x
  | .subtract h o => fun x => h.spec d x && !o.spec d x

/-- every argument of every operation is a value of the domain (what the element type `T`
guarantees in the Rust) -/
def Hist.WF (d : Domain) : Hist → Prop
  | .empty => True
  | .all => True
  | .insert h v => h.WF d ∧ d.contains v = true
  | .remove h v => h.WF d ∧ d.contains v = true
  | .insertRange h a b => h.WF d ∧ RangeInDom d a b
  | .removeRange h a b => h.WF d ∧ RangeInDom d a b
  | .extend h vs => h.WF d ∧ ∀ v ∈ vs, d.contains v = true
  | .removeAll h vs => h.WF d ∧ ∀ v ∈ vs, d.contains v = true
  | .invert h => h.WF d
  | .clear h => h.WF d
  | .union h o => h.WF d ∧ o.WF d
  | .intersect h o => h.WF d ∧ o.WF d
  | .subtract h o => h.WF d ∧ o.WF d

theorem Hist.run_spec (d : Domain) (h : Hist) :
    IInv (h.run d) ∧ ∀ x, (h.run d).contains x = h.spec d x := by
  induction h with
  | empty => exact ⟨iInv_empty, fun _ => rfl⟩
  | all => exact ⟨iInv_all, fun _ => rfl⟩
  | insert h v ih =>
    exact ⟨IntSet.insert_inv _ v ih.1, fun x => by
      simp only [Hist.run, Hist.spec, IntSet.insert_contains _ _ _ ih.1, ih.2]⟩
  | remove h v ih =>
    exact ⟨IntSet.remove_inv _ v ih.1, fun x => by
      simp only [Hist.run, Hist.spec, IntSet.remove_contains _ _ _ ih.1, ih.2]⟩
  | insertRange h a b ih =>
    exact ⟨IntSet.insertRange_inv d _ a b ih.1, fun x => by
      simp only [Hist.run, Hist.spec, IntSet.insertRange_contains d _ _ _ _ ih.1, ih.2]⟩
  | removeRange h a b ih =>
    exact ⟨IntSet.removeRange_inv d _ a b ih.1, fun x => by
      simp only [Hist.run, Hist.spec, IntSet.removeRange_contains d _ _ _ _ ih.1, ih.2]⟩
  | extend h vs ih =>
    exact ⟨IntSet.extend_inv _ vs ih.1, fun x => by
      simp only [Hist.run, Hist.spec, IntSet.extend_contains _ _ _ ih.1, ih.2]⟩
  | removeAll h vs ih =>
    exact ⟨IntSet.removeAll_inv _ vs ih.1, fun x => by
      simp only [Hist.run, Hist.spec, IntSet.removeAll_contains _ _ _ ih.1, ih.2]⟩
  | invert h ih =>
    exact ⟨IntSet.invert_inv _ ih.1, fun x => by
      simp only [Hist.run, Hist.spec, IntSet.invert_contains, ih.2]⟩
  | clear h ih => exact ⟨IntSet.clear_inv _, fun x => rfl⟩
  | union h o ih1 ih2 =>
    exact ⟨IntSet.union_inv _ _ ih1.1 ih2.1, fun x => by
      simp only [Hist.run, Hist.spec, IntSet.union_contains _ _ _ ih1.1 ih2.1, ih1.2, ih2.2]⟩
  | intersect h o ih1 ih2 =>
    exact ⟨IntSet.intersect_inv _ _ ih1.1 ih2.1, fun x => by
      simp only [Hist.run, Hist.spec, IntSet.intersect_contains _ _ _ ih1.1 ih2.1, ih1.2, ih2.2]⟩
  | subtract h o ih1 ih2 =>
    exact ⟨IntSet.subtract_inv _ _ ih1.1 ih2.1, fun x => by
      simp only [Hist.run, Hist.spec, IntSet.subtract_contains _ _ _ ih1.1 ih2.1, ih1.2, ih2.2]⟩

theorem Hist.run_inDom (d : Domain) (h : Hist) (hw : h.WF d) : InDom d (h.run d) := by
  induction h with
  | empty => exact inDom_empty d
  | all => exact inDom_all d
  | insert h v ih => exact IntSet.insert_inDom d _ v (Hist.run_spec d h).1 (ih hw.1) hw.2
  | remove h v ih => exact IntSet.remove_inDom d _ v (Hist.run_spec d h).1 (ih hw.1) hw.2
  | insertRange h a b ih =>
    exact IntSet.insertRange_inDom d _ a b (Hist.run_spec d h).1 (ih hw.1) hw.2
  | removeRange h a b ih =>
    exact IntSet.removeRange_inDom d _ a b (Hist.run_spec d h).1 (ih hw.1) hw.2
  | extend h vs ih => exact IntSet.extend_inDom d _ vs (Hist.run_spec d h).1 (ih hw.1) hw.2
  | removeAll h vs ih => exact IntSet.removeAll_inDom d _ vs (Hist.run_spec d h).1 (ih hw.1) hw.2
  | invert h ih => exact IntSet.invert_inDom d _ (ih hw)
  | clear h ih => exact IntSet.clear_inDom d _
  | union h o ih1 ih2 =>
    exact IntSet.union_inDom d _ _ (Hist.run_spec d h).1 (Hist.run_spec d o).1 (ih1 hw.1) (ih2 hw.2)
  | intersect h o ih1 ih2 =>
    exact IntSet.intersect_inDom d _ _ (Hist.run_spec d h).1 (Hist.run_spec d o).1 (ih1 hw.1)
      (ih2 hw.2)
  | subtract h o ih1 ih2 =>
    exact IntSet.subtract_inDom d _ _ (Hist.run_spec d h).1 (Hist.run_spec d o).1 (ih1 hw.1)
      (ih2 hw.2)

/-! ### the same as a flat operation list -/

/-- one step of a linear history; the argument of a binary operation is any previously built
set, given by its own history -/
inductive Op where
  | insert (v : Nat)
  | remove (v : Nat)
  | insertRange (a b : Nat)
  | removeRange (a b : Nat)
  | extend (vs : List Nat)
  | removeAll (vs : List Nat)
  | invert
  | clear
  | union (other : Hist)
  | intersect (other : Hist)
  | subtract (other : Hist)

def Op.apply (d : Domain) (s : IntSet) : Op → IntSet
  | .insert v => (s.insert v).1
  | .remove v => (s.remove v).1
  | .insertRange a b => s.insertRange d a b
  | .removeRange a b => s.removeRange d a b
  | .extend vs => s.extend vs
  | .removeAll vs => s.removeAll vs
  | .invert => s.invert
  | .clear => s.clear
  | .union o => s.union (o.run d)
  | .intersect o => s.intersect (o.run d)
  | .subtract o => s.subtract (o.run d)

def Op.specStep (d : Domain) (f : Nat → Bool) : Op → Nat → Bool
  | .insert v => fun x => decide (x = v) || f x
  | .remove v => fun x => !decide (x = v) && f x
  | .insertRange a b => fun x => f x || inRange d a b x
  | .removeRange a b => fun x => f x && !inRange d a b x
  | .extend vs => fun x => decide (x ∈ vs) || f x
  | .removeAll vs => fun x => !decide (x ∈ vs) && f x
  | .invert => fun x => !f x
  | .clear => fun _ => false
  | .union o => fun x => f x || o.spec d x
  | .intersect o => fun x => f x && o.spec d x
  | .subtract o => fun x => f x && !o.spec d x

def Op.WF (d : Domain) : Op → Prop
  | .insert v => d.contains v = true
  | .remove v => d.contains v = true
  | .insertRange a b => RangeInDom d a b
  | .removeRange a b => RangeInDom d a b
  | .extend vs => ∀ v ∈ vs, d.contains v = true
  | .removeAll vs => ∀ v ∈ vs, d.contains v = true
  | .invert => True
  | .clear => True
  | .union o => o.WF d
  | .intersect o => o.WF d
  | .subtract o => o.WF d

/-- run a list of operations, left to right -/
def runOps (d : Domain) (ops : List Op) (s : IntSet) : IntSet := ops.foldl (Op.apply d) s
/-- the set the list denotes -/
def specOps (d : Domain) (ops : List Op) (f : Nat → Bool) : Nat → Bool :=
  ops.foldl (Op.specStep d) f

theorem Op.apply_spec (d : Domain) (s : IntSet) (f : Nat → Bool) (op : Op) (h : IInv s)
    (hf : ∀ x, s.contains x = f x) :
    IInv (op.apply d s) ∧ ∀ x, (op.apply d s).contains x = op.specStep d f x := by
  cases op with
  | insert v =>
    exact ⟨IntSet.insert_inv _ v h, fun x => by
      simp only [Op.apply, Op.specStep, IntSet.insert_contains _ _ _ h, hf]⟩
  | remove v =>
    exact ⟨IntSet.remove_inv _ v h, fun x => by
      simp only [Op.apply, Op.specStep, IntSet.remove_contains _ _ _ h, hf]⟩
  | insertRange a b =>
    exact ⟨IntSet.insertRange_inv d _ a b h, fun x => by
      simp only [Op.apply, Op.specStep, IntSet.insertRange_contains d _ _ _ _ h, hf]⟩
  | removeRange a b =>
    exact ⟨IntSet.removeRange_inv d _ a b h, fun x => by
      simp only [Op.apply, Op.specStep, IntSet.removeRange_contains d _ _ _ _ h, hf]⟩
  | extend vs =>
    exact ⟨IntSet.extend_inv _ vs h, fun x => by
      simp only [Op.apply, Op.specStep, IntSet.extend_contains _ _ _ h, hf]⟩
  | removeAll vs =>
    exact ⟨IntSet.removeAll_inv _ vs h, fun x => by
      simp only [Op.apply, Op.specStep, IntSet.removeAll_contains _ _ _ h, hf]⟩
  | invert =>
    exact ⟨IntSet.invert_inv _ h, fun x => by
      simp only [Op.apply, Op.specStep, IntSet.invert_contains, hf]⟩
  | clear => exact ⟨IntSet.clear_inv s, fun x => rfl⟩
  | union o =>
    have ho := Hist.run_spec d o
    exact ⟨IntSet.union_inv _ _ h ho.1, fun x => by
      simp only [Op.apply, Op.specStep, IntSet.union_contains _ _ _ h ho.1, hf, ho.2]⟩
  | intersect o =>
    have ho := Hist.run_spec d o
    exact ⟨IntSet.intersect_inv _ _ h ho.1, fun x => by
      simp only [Op.apply, Op.specStep, IntSet.intersect_contains _ _ _ h ho.1, hf, ho.2]⟩
  | subtract o =>
    have ho := Hist.run_spec d o
    exact ⟨IntSet.subtract_inv _ _ h ho.1, fun x => by
      simp only [Op.apply, Op.specStep, IntSet.subtract_contains _ _ _ h ho.1, hf, ho.2]⟩

theorem Op.apply_inDom (d : Domain) (s : IntSet) (op : Op) (h : IInv s) (hd : InDom d s)
    (hw : op.WF d) : InDom d (op.apply d s) := by
  cases op with
  | insert v => exact IntSet.insert_inDom d _ v h hd hw
  | remove v => exact IntSet.remove_inDom d _ v h hd hw
  | insertRange a b => exact IntSet.insertRange_inDom d _ a b h hd hw
  | removeRange a b => exact IntSet.removeRange_inDom d _ a b h hd hw
  | extend vs => exact IntSet.extend_inDom d _ vs h hd hw
  | removeAll vs => exact IntSet.removeAll_inDom d _ vs h hd hw
  | invert => exact IntSet.invert_inDom d _ hd
  | clear => exact IntSet.clear_inDom d s
  | union o =>
    exact IntSet.union_inDom d _ _ h (Hist.run_spec d o).1 hd (Hist.run_inDom d o hw)
  | intersect o =>
    exact IntSet.intersect_inDom d _ _ h (Hist.run_spec d o).1 hd (Hist.run_inDom d o hw)
  | subtract o =>
    exact IntSet.subtract_inDom d _ _ h (Hist.run_spec d o).1 hd (Hist.run_inDom d o hw)

theorem runOps_spec (d : Domain) (ops : List Op) (s : IntSet) (f : Nat → Bool) (h : IInv s)
    (hf : ∀ x, s.contains x = f x) :
    IInv (runOps d ops s) ∧ ∀ x, (runOps d ops s).contains x = specOps d ops f x := by
  induction ops generalizing s f with
  | nil => exact ⟨h, hf⟩
  | cons op ops ih =>
    obtain ⟨h1, h2⟩ := Op.apply_spec d s f op h hf
    exact ih _ _ h1 h2

theorem runOps_inDom (d : Domain) (ops : List Op) (s : IntSet) (h : IInv s) (hd : InDom d s)
    (hw : ∀ op ∈ ops, op.WF d) : InDom d (runOps d ops s) := by
  induction ops generalizing s with
  | nil => exact hd
  | cons op ops ih =>
    have h1 := (Op.apply_spec d s s.contains op h (fun _ => rfl)).1
    exact ih _ h1 (Op.apply_inDom d s op h hd (hw op (by simp)))
      (fun o ho => hw o (by simp [ho]))

end FontVerif.IntSet
