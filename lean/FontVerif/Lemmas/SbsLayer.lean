/-
Sparse-bit-set codec, encoder: what one `create_layer` call computes.  The loop is described by
an invariant over the set `D` of values processed so far (they arrive in descending order, so
the parent index of the node under construction is a lower bound `lb` of all parent indices
seen); `commit_current_node` is one step of it.
-/
import FontVerif.Lemmas.SbsHeight
set_option linter.unusedVariables false
namespace FontVerif.SparseBitSet

/-! ### arithmetic helpers -/

theorem div_mod_unique {bf : Nat} (hbf : 0 < bf) {q i v : Nat} (hi : i < bf) :
    q * bf + i = v ↔ v / bf = q ∧ v % bf = i := by
  constructor
  · rintro rfl
    constructor
    · rw [Nat.add_comm, Nat.add_mul_div_right _ _ hbf, Nat.div_eq_of_lt hi, Nat.zero_add]
    · rw [Nat.add_comm, Nat.add_mul_mod_self_right, Nat.mod_eq_of_lt hi]
  · rintro ⟨rfl, rfl⟩
    rw [Nat.mul_comm]; exact Nat.div_add_mod v bf

theorem div_eq_iff_range {bf : Nat} (hbf : 0 < bf) (a p : Nat) :
    (a ≥ p * bf ∧ a < (p + 1) * bf) ↔ a / bf = p := by
  constructor
  · rintro ⟨h1, h2⟩
    have a1 : p ≤ a / bf := (Nat.le_div_iff_mul_le hbf).mpr h1
    have a2 : a / bf < p + 1 := (Nat.div_lt_iff_lt_mul hbf).mpr h2
    omega
  · rintro rfl
    exact ⟨Nat.div_mul_le_self a bf, (Nat.div_lt_iff_lt_mul hbf).mp (Nat.lt_succ_self _)⟩

/-- a number whose set bits are all below `bf` equals the mask iff all `bf` bits are set -/
theorem eq_mask_iff {bf x : Nat} (hx : ∀ i, x.testBit i = true → i < bf) :
    x = u32Mask bf ↔ ∀ i, i < bf → x.testBit i = true := by
  simp only [u32Mask]
  constructor
  · rintro rfl i hi; simp [hi]
  · intro h
    apply Nat.eq_of_testBit_eq
    intro i
    rw [Nat.testBit_two_pow_sub_one]
    by_cases hi : i < bf
    · simp [hi, h i hi]
    · simp only [hi, decide_false]
      cases hb : x.testBit i
      · rfl
      · exact absurd (hx i hb) hi

/-! ### marking the children of a filled node -/

/-- final form of the marking done by `commit_current_node` over a whole layer: a node of the
previous layer is skipped iff its parent is in the filled list -/
def markBy (bf : Nat) (uf : List Nat) (c : Node) : Node :=
  if c.parentIndex / bf ∈ uf then { c with nodeType := .skip } else c

theorem zipIdx_map_out {f : Node → Node} {P : Node → Prop} [DecidablePred P] (lo hi : Nat) :
    ∀ (l : List Node) (k : Nat), k + l.length ≤ lo ∨ hi ≤ k →
      (l.zipIdx k).map (fun (x : Node × Nat) => if lo ≤ x.2 ∧ x.2 < hi ∧ P x.1 then f x.1 else x.1)
        = l
  | [], k, _ => by simp
  | c :: l, k, h => by
    simp only [List.zipIdx_cons, List.map_cons, List.length_cons] at h ⊢
    rw [zipIdx_map_out lo hi l (k + 1) (by omega), if_neg (by omega)]

theorem zipIdx_map_in {f : Node → Node} {P : Node → Prop} [DecidablePred P] (lo hi : Nat) :
    ∀ (l : List Node) (k : Nat), lo ≤ k → k + l.length ≤ hi →
      (l.zipIdx k).map (fun (x : Node × Nat) => if lo ≤ x.2 ∧ x.2 < hi ∧ P x.1 then f x.1 else x.1)
        = l.map (fun c => if P c then f c else c)
  | [], k, _, _ => by simp
  | c :: l, k, h1, h2 => by
    simp only [List.zipIdx_cons, List.map_cons, List.length_cons] at h2 ⊢
    rw [zipIdx_map_in lo hi l (k + 1) (by omega) (by omega)]
    have : lo ≤ k ∧ k < hi := by omega
    simp [this]

/-- the marking loop of `commit_current_node` on `old ++ last ++ new` touches only `last` -/
theorem mark_slice {f : Node → Node} {P : Node → Prop} [DecidablePred P]
    (old last new : List Node) :
    ((old ++ last ++ new).zipIdx).map
        (fun (x : Node × Nat) =>
          if old.length ≤ x.2 ∧ x.2 < old.length + last.length ∧ P x.1 then f x.1 else x.1)
      = old ++ last.map (fun c => if P c then f c else c) ++ new := by
  rw [List.zipIdx_append, List.zipIdx_append, List.map_append, List.map_append]
  rw [zipIdx_map_out (f := f) (P := P) old.length (old.length + last.length) old 0 (by omega),
    zipIdx_map_in (f := f) (P := P) old.length (old.length + last.length) last _ (by omega)
      (by omega),
    zipIdx_map_out (f := f) (P := P) old.length (old.length + last.length) new _
      (by simp only [List.length_append]; omega)]

theorem mark_markBy {bf : Nat} (hbf : 0 < bf) (uf : List Nat) (p : Nat) (c : Node) :
    (if (markBy bf uf c).parentIndex ≥ p * bf ∧ (markBy bf uf c).parentIndex < (p + 1) * bf
      then { markBy bf uf c with nodeType := NodeType.skip } else markBy bf uf c)
      = markBy bf (p :: uf) c := by
  have hpi : (markBy bf uf c).parentIndex = c.parentIndex := by
    simp only [markBy]; split <;> rfl
  rw [hpi]
  simp only [div_eq_iff_range hbf, markBy, List.mem_cons]
  by_cases h1 : c.parentIndex / bf = p
  · subst h1
    by_cases h2 : c.parentIndex / bf ∈ uf <;> simp [h2]
  · by_cases h2 : c.parentIndex / bf ∈ uf <;> simp [h1, h2]

/-- the `nodes` update of a filled commit -/
theorem mark_nodes {bf : Nat} (hbf : 0 < bf) (cnt : Nat) (old last new : List Node)
    (hl : last.length = cnt ∨ (old = [] ∧ last = [])) (uf : List Nat) (p : Nat) :
    (if old.length + last.length ≥ cnt then
        (old ++ last.map (markBy bf uf) ++ new).zipIdx.map (fun (c, i) =>
          if old.length + last.length - cnt ≤ i ∧ i < old.length + last.length ∧
              c.parentIndex ≥ p * bf ∧ c.parentIndex < (p + 1) * bf
          then { c with nodeType := NodeType.skip } else c)
      else old ++ last.map (markBy bf uf) ++ new)
      = old ++ last.map (markBy bf (p :: uf)) ++ new := by
  rcases hl with hl | ⟨rfl, rfl⟩
  · rw [if_pos (by omega)]
    have e : old.length + last.length - cnt = old.length := by omega
    rw [e]
    have hlen : (last.map (markBy bf uf)).length = last.length := by simp
    have := mark_slice (f := fun c => { c with nodeType := NodeType.skip })
      (P := fun c => c.parentIndex ≥ p * bf ∧ c.parentIndex < (p + 1) * bf)
      old (last.map (markBy bf uf)) new
    rw [hlen] at this
    rw [show (fun (x : Node × Nat) => match x with
        | (c, i) => if old.length ≤ i ∧ i < old.length + last.length ∧
              c.parentIndex ≥ p * bf ∧ c.parentIndex < (p + 1) * bf
            then { c with nodeType := NodeType.skip } else c)
        = (fun (x : Node × Nat) =>
          if old.length ≤ x.2 ∧ x.2 < old.length + last.length ∧
              (x.1.parentIndex ≥ p * bf ∧ x.1.parentIndex < (p + 1) * bf)
          then { x.1 with nodeType := NodeType.skip } else x.1) from by
      funext x; cases x; rfl]
    rw [this, List.map_map]
    congr 2
    apply List.map_congr_left
    intro c _
    exact mark_markBy hbf uf p c
  · simp only [List.length_nil, Nat.add_zero, List.map_nil, List.nil_append, List.append_nil]
    split
    · have := zipIdx_map_out (f := fun c => { c with nodeType := NodeType.skip })
        (P := fun c => c.parentIndex ≥ p * bf ∧ c.parentIndex < (p + 1) * bf) (0 - cnt) 0 new 0
        (Or.inr (Nat.le_refl _))
      refine Eq.trans ?_ this
      congr 1
    · rfl

/-! ### the loop invariant -/

/-- `filled_values.contains(v)`; `none` is `IntSet::all()` -/
def isF (filled : Option (List Nat)) (v : Nat) : Bool :=
  match filled with
  | none => true
  | some f => f.contains v

/-- the nodes pushed so far by this `create_layer` call -/
structure NewOK (bf : Nat) (D upper uf : List Nat) (new : List Node) : Prop where
  ids : new.map (·.parentIndex) = upper.reverse
  bits : ∀ n ∈ new, ∀ i, n.bits.testBit i = true ↔ (i < bf ∧ n.parentIndex * bf + i ∈ D)
  types : ∀ n ∈ new,
    n.nodeType = if n.parentIndex ∈ uf then NodeType.filled else NodeType.standard

/-- invariant of the `for v in values.iter().rev()` loop after the values `D` (all with parent
index `≥ lb`) have been seen -/
structure Inv (bf : Nat) (filled : Option (List Nat)) (old last : List Node) (D : List Nat)
    (lb : Nat) (s : LayerState) : Prop where
  lbD : ∀ d ∈ D, lb ≤ d / bf
  cur : ∀ n, s.current = some n →
    n.parentIndex = lb ∧ n.nodeType = NodeType.standard ∧ (∃ d ∈ D, d / bf = lb) ∧
    (∀ i, n.bits.testBit i = true ↔ (i < bf ∧ lb * bf + i ∈ D)) ∧
    (∀ i, s.currentFilledBits.testBit i = true ↔
      (i < bf ∧ lb * bf + i ∈ D ∧ isF filled (lb * bf + i) = true))
  curNone : s.current = none → s.currentFilledBits = 0
  upSorted : s.upper.Pairwise (· < ·)
  upMem : ∀ p, p ∈ s.upper ↔ (∃ d ∈ D, d / bf = p) ∧ (s.current ≠ none → p ≠ lb)
  ufSorted : s.upperFilled.Pairwise (· < ·)
  ufMem : ∀ p, p ∈ s.upperFilled ↔
    p ∈ s.upper ∧ ∀ j, j < bf → (p * bf + j ∈ D ∧ isF filled (p * bf + j) = true)
  nodes : ∃ new, s.nodes = old ++ last.map (markBy bf s.upperFilled) ++ new ∧
    NewOK bf D s.upper s.upperFilled new

theorem head?_ne_of_lt {l : List Nat} {p : Nat} (h : ∀ x ∈ l, p < x) : l.head? ≠ some p := by
  intro hc
  have := h p (List.mem_of_mem_head? hc)
  omega

theorem pairwise_cons_of_lt {l : List Nat} {p : Nat} (h : ∀ x ∈ l, p < x)
    (hl : l.Pairwise (· < ·)) : (p :: l).Pairwise (· < ·) :=
  List.pairwise_cons.mpr ⟨h, hl⟩

/-- `commit_current_node` keeps the invariant and leaves no current node -/
theorem commit_inv {bf : Nat} (hbf : 0 < bf) (filled : Option (List Nat)) (cnt : Nat)
    (old last : List Node) (hl : last.length = cnt ∨ (old = [] ∧ last = []))
    (D : List Nat) (lb : Nat) (s : LayerState) (h : Inv bf filled old last D lb s) :
    Inv bf filled old last D lb (commit bf cnt (old.length + last.length) s) ∧
      (commit bf cnt (old.length + last.length) s).current = none := by
  cases hc : s.current with
  | none =>
    have : commit bf cnt (old.length + last.length) s = s := by simp [commit, hc]
    rw [this]; exact ⟨h, hc⟩
  | some n =>
    obtain ⟨hpi, hty, ⟨d0, hd0, hd0lb⟩, hbits, hfb⟩ := h.cur n hc
    have hupper_lt : ∀ x ∈ s.upper, lb < x := by
      intro x hx
      obtain ⟨⟨d, hd, hdx⟩, hne⟩ := (h.upMem x).mp hx
      have := h.lbD d hd
      have := hne (by simp [hc])
      omega
    have huf_lt : ∀ x ∈ s.upperFilled, lb < x := fun x hx =>
      hupper_lt x ((h.ufMem x).mp hx).1
    have hup : (if s.upper.head? = some n.parentIndex then s.upper else n.parentIndex :: s.upper)
        = lb :: s.upper := by
      rw [hpi, if_neg (head?_ne_of_lt hupper_lt)]
    have huf : (if s.upperFilled.head? = some n.parentIndex then s.upperFilled
        else n.parentIndex :: s.upperFilled) = lb :: s.upperFilled := by
      rw [hpi, if_neg (head?_ne_of_lt huf_lt)]
    have hmask : s.currentFilledBits = u32Mask bf ↔
        ∀ j, j < bf → (lb * bf + j ∈ D ∧ isF filled (lb * bf + j) = true) := by
      rw [eq_mask_iff (fun i hi => ((hfb i).mp hi).1)]
      constructor
      · intro hh j hj; exact ((hfb j).mp (hh j hj)).2
      · intro hh j hj; exact (hfb j).mpr ⟨hj, hh j hj⟩
    obtain ⟨new, hnodes, hnew⟩ := h.nodes
    have hupMem' : ∀ p, p ∈ lb :: s.upper ↔ (∃ d ∈ D, d / bf = p) := by
      intro p
      simp only [List.mem_cons, h.upMem p]
      constructor
      · rintro (rfl | ⟨hh, _⟩)
        · exact ⟨d0, hd0, hd0lb⟩
        · exact hh
      · intro hh
        by_cases hp : p = lb
        · exact Or.inl hp
        · exact Or.inr ⟨hh, fun _ => hp⟩
    by_cases hfill : s.currentFilledBits = u32Mask bf
    · -- filled node
      have hall := hmask.mp hfill
      have hcommit : commit bf cnt (old.length + last.length) s =
          { upper := lb :: s.upper, upperFilled := lb :: s.upperFilled, current := none,
            currentFilledBits := 0,
            nodes := old ++ last.map (markBy bf (lb :: s.upperFilled)) ++
              (new ++ [{ n with nodeType := NodeType.filled }]) } := by
        simp only [commit, hc, hfill, if_true, hup, huf]
        rw [hnodes, hpi, mark_nodes hbf cnt old last new hl s.upperFilled lb, List.append_assoc]
      rw [hcommit]
      refine ⟨?_, rfl⟩
      refine ⟨h.lbD, by simp, by simp, pairwise_cons_of_lt hupper_lt h.upSorted, ?_,
        pairwise_cons_of_lt huf_lt h.ufSorted, ?_, ?_⟩
      · intro p; simp only [hupMem' p]; simp
      · intro p
        simp only [List.mem_cons, h.ufMem p]
        constructor
        · rintro (rfl | ⟨hh1, hh2⟩)
          · exact ⟨Or.inl rfl, hall⟩
          · exact ⟨Or.inr hh1, hh2⟩
        · rintro ⟨rfl | hh1, hh2⟩
          · exact Or.inl rfl
          · exact Or.inr ⟨hh1, hh2⟩
      · refine ⟨new ++ [{ n with nodeType := NodeType.filled }], rfl, ?_, ?_, ?_⟩
        · simp [hnew.ids, hpi]
        · intro m hm i
          rcases List.mem_append.mp hm with hm | hm
          · exact hnew.bits m hm i
          · simp only [List.mem_singleton] at hm; subst hm
            simp only [hpi]; exact hbits i
        · intro m hm
          rcases List.mem_append.mp hm with hm | hm
          · have hmu : m.parentIndex ∈ s.upper := by
              have : m.parentIndex ∈ new.map (·.parentIndex) := List.mem_map_of_mem hm
              rw [hnew.ids] at this; simpa using this
            have := hupper_lt _ hmu
            rw [hnew.types m hm]
            simp only [List.mem_cons]
            have hne : m.parentIndex ≠ lb := by omega
            simp [hne]
          · simp only [List.mem_singleton] at hm; subst hm
            simp [hpi]
    · -- standard node
      have hnall : ¬ ∀ j, j < bf → (lb * bf + j ∈ D ∧ isF filled (lb * bf + j) = true) :=
        fun hh => hfill (hmask.mpr hh)
      have hcommit : commit bf cnt (old.length + last.length) s =
          { upper := lb :: s.upper, upperFilled := s.upperFilled, current := none,
            currentFilledBits := 0,
            nodes := old ++ last.map (markBy bf s.upperFilled) ++ (new ++ [n]) } := by
        simp only [commit, hc, hfill, if_false, hup]
        rw [hnodes, List.append_assoc]
      rw [hcommit]
      refine ⟨?_, rfl⟩
      refine ⟨h.lbD, by simp, by simp, pairwise_cons_of_lt hupper_lt h.upSorted, ?_,
        h.ufSorted, ?_, ?_⟩
      · intro p; simp only [hupMem' p]; simp
      · intro p
        simp only [List.mem_cons, h.ufMem p]
        constructor
        · rintro ⟨hh1, hh2⟩; exact ⟨Or.inr hh1, hh2⟩
        · rintro ⟨rfl | hh1, hh2⟩
          · exact absurd hh2 hnall
          · exact ⟨hh1, hh2⟩
      · refine ⟨new ++ [n], rfl, ?_, ?_, ?_⟩
        · simp [hnew.ids, hpi]
        · intro m hm i
          rcases List.mem_append.mp hm with hm | hm
          · exact hnew.bits m hm i
          · simp only [List.mem_singleton] at hm; subst hm
            simp only [hpi]; exact hbits i
        · intro m hm
          rcases List.mem_append.mp hm with hm | hm
          · exact hnew.types m hm
          · simp only [List.mem_singleton] at hm; subst hm
            have : m.parentIndex ∉ s.upperFilled := by
              intro hin; have := huf_lt _ hin; omega
            rw [hty, if_neg this]

/-! ### one value -/

/-- the part of the loop body after the conditional commit -/
def addV (bf : Nat) (filled : Option (List Nat)) (v : Nat) (s : LayerState) : LayerState :=
  let cur : Node := match s.current with
    | some n => n
    | none => { bits := 0, parentIndex := v / bf, nodeType := .standard }
  { s with current := some { cur with bits := cur.bits ||| 2 ^ (v % bf) },
           currentFilledBits := if isF filled v then s.currentFilledBits ||| 2 ^ (v % bf)
                                else s.currentFilledBits }

theorem layerLoop_cons (bf cnt initLen : Nat) (filled : Option (List Nat)) (v : Nat)
    (rest : List Nat) (s : LayerState) :
    layerLoop bf cnt initLen filled (v :: rest) s =
      layerLoop bf cnt initLen filled rest (addV bf filled v
        (if (match s.current with
              | some n => n.parentIndex
              | none => v / bf) ≠ v / bf then commit bf cnt initLen s else s)) := by
  rfl

theorem mem_cons_other {bf : Nat} (hbf : 0 < bf) {v p j : Nat} {D : List Nat} (hp : p ≠ v / bf)
    (hj : j < bf) : p * bf + j ∈ v :: D ↔ p * bf + j ∈ D := by
  simp only [List.mem_cons]
  constructor
  · rintro (h | h)
    · exact absurd ((div_mod_unique hbf hj).mp h).1.symm hp
    · exact h
  · exact Or.inr

theorem mem_cons_same {bf : Nat} (hbf : 0 < bf) {v i : Nat} {D : List Nat} (hi : i < bf) :
    v / bf * bf + i ∈ v :: D ↔ (v % bf = i ∨ v / bf * bf + i ∈ D) := by
  simp only [List.mem_cons]
  constructor
  · rintro (h | h)
    · exact Or.inl ((div_mod_unique hbf hi).mp h).2
    · exact Or.inr h
  · rintro (h | h)
    · exact Or.inl ((div_mod_unique hbf hi).mpr ⟨rfl, h⟩)
    · exact Or.inr h

theorem testBit_or_two_pow (x k i : Nat) :
    (x ||| 2 ^ k).testBit i = true ↔ (x.testBit i = true ∨ k = i) := by
  rw [Nat.testBit_or, Nat.testBit_two_pow]
  simp

/-- adding one value to the current node (or starting a new node) keeps the invariant -/
theorem add_inv {bf : Nat} (hbf : 0 < bf) (filled : Option (List Nat)) (old last : List Node)
    (D : List Nat) (lb v : Nat) (s : LayerState) (h : Inv bf filled old last D lb s)
    (hsome : ∀ n, s.current = some n → v / bf = lb)
    (hnone : s.current = none → ∀ d ∈ D, v / bf < d / bf) :
    Inv bf filled old last (v :: D) (v / bf) (addV bf filled v s) := by
  have hmodlt : v % bf < bf := Nat.mod_lt _ hbf
  -- parent indices already committed differ from the one of `v`
  have hU : ∀ p ∈ s.upper, p ≠ v / bf := by
    intro p hp
    obtain ⟨⟨d, hd, hdp⟩, hne⟩ := (h.upMem p).mp hp
    cases hc : s.current with
    | none => have := hnone hc d hd; omega
    | some n => have := hne (by simp [hc]); have := hsome n hc; omega
  have hup' : (addV bf filled v s).upper = s.upper := rfl
  have huf' : (addV bf filled v s).upperFilled = s.upperFilled := rfl
  have hnodes' : (addV bf filled v s).nodes = s.nodes := rfl
  have hlbD : ∀ d ∈ v :: D, v / bf ≤ d / bf := by
    intro d hd
    simp only [List.mem_cons] at hd
    rcases hd with rfl | hd
    · exact Nat.le_refl _
    · cases hc : s.current with
      | none => exact Nat.le_of_lt (hnone hc d hd)
      | some n => rw [hsome n hc]; exact h.lbD d hd
  have hupMem : ∀ p, p ∈ s.upper ↔ (∃ d ∈ v :: D, d / bf = p) ∧ p ≠ v / bf := by
    intro p
    rw [h.upMem p]
    constructor
    · rintro ⟨⟨d, hd, hdp⟩, hne⟩
      refine ⟨⟨d, by simp [hd], hdp⟩, ?_⟩
      exact hU p ((h.upMem p).mpr ⟨⟨d, hd, hdp⟩, hne⟩)
    · rintro ⟨⟨d, hd, hdp⟩, hne⟩
      simp only [List.mem_cons] at hd
      rcases hd with rfl | hd
      · exact absurd hdp.symm hne
      · refine ⟨⟨d, hd, hdp⟩, fun hcur => ?_⟩
        cases hc : s.current with
        | none => exact absurd hc hcur
        | some n => rw [← hsome n hc]; exact hne
  refine ⟨hlbD, ?_, by simp [addV], by rw [hup']; exact h.upSorted, ?_,
    by rw [huf']; exact h.ufSorted, ?_, ?_⟩
  · -- the current node
    intro n' hn'
    cases hc : s.current with
    | some n =>
      obtain ⟨hpi, hty, _, hbits, hfb⟩ := h.cur n hc
      have hv := hsome n hc
      simp only [addV, hc, Option.some.injEq] at hn'
      subst hn'
      refine ⟨by simp [hpi, hv], hty, ⟨v, by simp, rfl⟩, ?_, ?_⟩
      · intro i
        simp only [testBit_or_two_pow, hbits i, ← hv]
        constructor
        · rintro (⟨hi, hm⟩ | rfl)
          · exact ⟨hi, (mem_cons_same hbf hi).mpr (Or.inr hm)⟩
          · exact ⟨hmodlt, (mem_cons_same hbf hmodlt).mpr (Or.inl rfl)⟩
        · rintro ⟨hi, hm⟩
          rcases (mem_cons_same hbf hi).mp hm with hm | hm
          · exact Or.inr hm
          · exact Or.inl ⟨hi, hm⟩
      · intro i
        simp only [addV]
        by_cases hfv : isF filled v = true
        · rw [if_pos hfv]
          simp only [testBit_or_two_pow, hfb i, ← hv]
          constructor
          · rintro (⟨hi, hm, hf⟩ | rfl)
            · exact ⟨hi, (mem_cons_same hbf hi).mpr (Or.inr hm), hf⟩
            · refine ⟨hmodlt, (mem_cons_same hbf hmodlt).mpr (Or.inl rfl), ?_⟩
              rw [(div_mod_unique hbf hmodlt).mpr ⟨rfl, rfl⟩]; exact hfv
          · rintro ⟨hi, hm, hf⟩
            rcases (mem_cons_same hbf hi).mp hm with hm | hm
            · exact Or.inr hm
            · exact Or.inl ⟨hi, hm, hf⟩
        · rw [if_neg hfv]
          simp only [hfb i, ← hv]
          constructor
          · rintro ⟨hi, hm, hf⟩
            exact ⟨hi, (mem_cons_same hbf hi).mpr (Or.inr hm), hf⟩
          · rintro ⟨hi, hm, hf⟩
            rcases (mem_cons_same hbf hi).mp hm with hm | hm
            · rw [(div_mod_unique hbf hi).mpr ⟨rfl, hm⟩] at hf
              exact absurd hf hfv
            · exact ⟨hi, hm, hf⟩
    | none =>
      have hfb0 := h.curNone hc
      have hD : ∀ i, i < bf → v / bf * bf + i ∉ D := by
        intro i hi hm
        have := hnone hc _ hm
        rw [((div_mod_unique hbf hi).mp rfl).1] at this
        omega
      simp only [addV, hc, Option.some.injEq] at hn'
      subst hn'
      refine ⟨rfl, rfl, ⟨v, by simp, rfl⟩, ?_, ?_⟩
      · intro i
        simp only [testBit_or_two_pow, Nat.zero_testBit, Bool.false_eq_true, false_or]
        constructor
        · rintro rfl
          exact ⟨hmodlt, (mem_cons_same hbf hmodlt).mpr (Or.inl rfl)⟩
        · rintro ⟨hi, hm⟩
          rcases (mem_cons_same hbf hi).mp hm with hm | hm
          · exact hm
          · exact absurd hm (hD i hi)
      · intro i
        simp only [addV, hfb0]
        by_cases hfv : isF filled v = true
        · rw [if_pos hfv]
          simp only [testBit_or_two_pow, Nat.zero_testBit, Bool.false_eq_true, false_or]
          constructor
          · rintro rfl
            refine ⟨hmodlt, (mem_cons_same hbf hmodlt).mpr (Or.inl rfl), ?_⟩
            rw [(div_mod_unique hbf hmodlt).mpr ⟨rfl, rfl⟩]; exact hfv
          · rintro ⟨hi, hm, _⟩
            rcases (mem_cons_same hbf hi).mp hm with hm | hm
            · exact hm
            · exact absurd hm (hD i hi)
        · rw [if_neg hfv]
          simp only [Nat.zero_testBit, Bool.false_eq_true, false_iff]
          rintro ⟨hi, hm, hf⟩
          rcases (mem_cons_same hbf hi).mp hm with hm | hm
          · rw [(div_mod_unique hbf hi).mpr ⟨rfl, hm⟩] at hf
            exact hfv hf
          · exact hD i hi hm
  · intro p
    rw [hup', hupMem p]
    have : (addV bf filled v s).current ≠ none := by simp [addV]
    simp [this]
  · intro p
    rw [huf', hup', h.ufMem p]
    constructor
    · rintro ⟨hp, hall⟩
      exact ⟨hp, fun j hj => ⟨(mem_cons_other hbf (hU p hp) hj).mpr (hall j hj).1, (hall j hj).2⟩⟩
    · rintro ⟨hp, hall⟩
      exact ⟨hp, fun j hj => ⟨(mem_cons_other hbf (hU p hp) hj).mp (hall j hj).1, (hall j hj).2⟩⟩
  · obtain ⟨new, hn, hnew⟩ := h.nodes
    refine ⟨new, by rw [hnodes', huf', hn], ?_⟩
    rw [hup', huf']
    refine ⟨hnew.ids, ?_, hnew.types⟩
    intro m hm i
    have hmu : m.parentIndex ∈ s.upper := by
      have : m.parentIndex ∈ new.map (·.parentIndex) := List.mem_map_of_mem hm
      rw [hnew.ids] at this; simpa using this
    rw [hnew.bits m hm i]
    constructor
    · rintro ⟨hi, hmem⟩; exact ⟨hi, (mem_cons_other hbf (hU _ hmu) hi).mpr hmem⟩
    · rintro ⟨hi, hmem⟩; exact ⟨hi, (mem_cons_other hbf (hU _ hmu) hi).mp hmem⟩

/-! ### the whole loop, `create_layer` -/

theorem layerLoop_inv {bf : Nat} (hbf : 0 < bf) (filled : Option (List Nat)) (cnt : Nat)
    (old last : List Node) (hl : last.length = cnt ∨ (old = [] ∧ last = [])) :
    ∀ (todo D : List Nat) (lb : Nat) (s : LayerState), Inv bf filled old last D lb s →
      (s.current = none → D = []) → todo.Pairwise (· > ·) → (∀ v ∈ todo, ∀ d ∈ D, v < d) →
      ∃ lb', Inv bf filled old last (todo.reverse ++ D) lb'
        (layerLoop bf cnt (old.length + last.length) filled todo s)
  | [], D, lb, s, h, _, _, _ => ⟨lb, by simpa [layerLoop] using h⟩
  | v :: rest, D, lb, s, h, hD, hp, hlt => by
    rw [layerLoop_cons]
    have hp' := List.pairwise_cons.mp hp
    have hrest : ∀ x ∈ rest, ∀ d ∈ v :: D, x < d := by
      intro x hx d hd
      simp only [List.mem_cons] at hd
      rcases hd with rfl | hd
      · exact hp'.1 x hx
      · exact hlt x (by simp [hx]) d hd
    have hfin : ∀ s1, Inv bf filled old last (v :: D) (v / bf) (addV bf filled v s1) →
        ∃ lb', Inv bf filled old last ((v :: rest).reverse ++ D) lb'
          (layerLoop bf cnt (old.length + last.length) filled rest (addV bf filled v s1)) := by
      intro s1 h1
      have := layerLoop_inv hbf filled cnt old last hl rest (v :: D) (v / bf) _ h1
        (by simp [addV]) hp'.2 hrest
      simpa using this
    cases hc : s.current with
    | none =>
      simp only [ne_eq, not_true_eq_false, if_false]
      have hDnil := hD hc
      exact hfin s (add_inv hbf filled old last D lb v s h (by simp [hc])
        (by intro _ d hd; rw [hDnil] at hd; simp at hd))
    | some n =>
      obtain ⟨hpi, _, ⟨d0, hd0, hd0lb⟩, _, _⟩ := h.cur n hc
      simp only []
      by_cases hne : n.parentIndex = v / bf
      · rw [if_neg (by simpa using hne)]
        exact hfin s (add_inv hbf filled old last D lb v s h
          (by intro m hm; rw [← hne, hpi]) (by simp [hc]))
      · rw [if_pos (by simpa using hne)]
        obtain ⟨hci, hcn⟩ := commit_inv hbf filled cnt old last hl D lb s h
        refine hfin _ (add_inv hbf filled old last D lb v _ hci (by simp [hcn]) ?_)
        intro _ d hd
        have h1 : v / bf ≤ d0 / bf := Nat.div_le_div_right (Nat.le_of_lt (hlt v (by simp) d0 hd0))
        have h2 := h.lbD d hd
        rw [hpi] at hne
        omega

theorem markBy_nil (bf : Nat) (l : List Node) : l.map (markBy bf []) = l := by
  have : markBy bf [] = id := by funext c; simp [markBy]
  rw [this, List.map_id]

/-- `create_layer(branch_factor, values, filled_values, nodes)` for ascending `values` and
`nodes = old ++ last`, where `last` is the previous layer (one node per value) or nothing:
* the returned indices are the ascending parent indices `v / BF`;
* the returned filled indices are those whose `BF` children are all values and all filled;
* the previous layer's nodes under a filled index are marked `Skip`;
* one node per parent index is appended (descending), with one bit per child value, typed
  `Filled` iff its index is a filled index. -/
theorem createLayer_spec {bf : Nat} (hbf : 0 < bf) (values : List Nat)
    (filled : Option (List Nat)) (old last : List Node) (hv : values.Pairwise (· < ·))
    (hl : last.length = values.length ∨ (old = [] ∧ last = [])) :
    (createLayer bf values filled (old ++ last)).1.Pairwise (· < ·) ∧
    (∀ p, p ∈ (createLayer bf values filled (old ++ last)).1 ↔ ∃ v ∈ values, v / bf = p) ∧
    (createLayer bf values filled (old ++ last)).2.1.Pairwise (· < ·) ∧
    (∀ p, p ∈ (createLayer bf values filled (old ++ last)).2.1 ↔
      p ∈ (createLayer bf values filled (old ++ last)).1 ∧
        ∀ j, j < bf → (p * bf + j ∈ values ∧ isF filled (p * bf + j) = true)) ∧
    ∃ new, (createLayer bf values filled (old ++ last)).2.2
        = old ++ last.map (markBy bf (createLayer bf values filled (old ++ last)).2.1) ++ new ∧
      NewOK bf values (createLayer bf values filled (old ++ last)).1
        (createLayer bf values filled (old ++ last)).2.1 new := by
  let s0 : LayerState :=
    { upper := [], upperFilled := [], current := none, currentFilledBits := 0,
      nodes := old ++ last }
  have h0 : Inv bf filled old last [] 0 s0 := by
    refine ⟨by simp, by simp [s0], by simp [s0], by simp [s0], by simp [s0], by simp [s0],
      by simp [s0], ⟨[], by simp [s0, markBy_nil], ?_⟩⟩
    exact ⟨by simp [s0], by simp, by simp⟩
  obtain ⟨lb', h1⟩ := layerLoop_inv hbf filled values.length old last hl values.reverse [] 0 s0 h0
    (fun _ => rfl) (by rw [List.pairwise_reverse]; exact hv) (by simp)
  obtain ⟨h2, h2n⟩ := commit_inv hbf filled values.length old last hl _ lb' _ h1
  simp only [List.reverse_reverse, List.append_nil] at h2
  have hcl : createLayer bf values filled (old ++ last) =
      ((commit bf values.length (old.length + last.length)
          (layerLoop bf values.length (old.length + last.length) filled values.reverse s0)).upper,
       (commit bf values.length (old.length + last.length)
          (layerLoop bf values.length (old.length + last.length) filled values.reverse s0)).upperFilled,
       (commit bf values.length (old.length + last.length)
          (layerLoop bf values.length (old.length + last.length) filled values.reverse s0)).nodes) := by
    simp only [createLayer, List.length_append, s0]
  rw [hcl]
  simp only []
  refine ⟨h2.upSorted, ?_, h2.ufSorted, h2.ufMem, h2.nodes⟩
  intro p
  rw [h2.upMem p]
  simp [h2n]

end FontVerif.SparseBitSet
