/-
Closed forms of the float conversions of Model/FixedConv.lean in exact integer arithmetic.
-/
import FontVerif.Model.FixedConv
import FontVerif.Lemmas.Ieee
import FontVerif.Lemmas.Round
set_option linter.unusedVariables false
namespace FontVerif.FixedConv
open FontVerif FontVerif.Ieee

/-- the magnitude `m · 2^e` rounded to the nearest integer, ties up (with the sign put back:
ties away from zero). -/
def rhaMag (m : Nat) (e : Int) : Int :=
  if e ≥ 0 then (m : Int) * 2 ^ e.toNat
  else (2 * (m : Int) + 2 ^ (-e).toNat) / (2 * 2 ^ (-e).toNat)

def clampI (lo hi v : Int) : Int := if v < lo then lo else if v > hi then hi else v

/-- `from_fN` in exact arithmetic: the scaled value rounded half away from zero, clamped. -/
def fromFloatSpec (t : FxTy) (neg : Bool) (m : Nat) (e : Int) : Int :=
  clampI t.lo t.hi ((if neg then -1 else 1) * rhaMag m (e + t.k))

/-- sanity conditions on a fixed-point type (all five satisfy them by `decide`): the storage
integers are exactly representable in the float type. -/
structure FxTy.Ok (t : FxTy) : Prop where
  hp : (t.fmt.p : Int) ≤ t.fmt.etop
  hemin : t.fmt.emin ≤ 0
  hlo : t.lo < 0
  hhi : 0 < t.hi
  hloN : (-t.lo).toNat < 2 ^ t.fmt.p
  hhiN : t.hi.toNat < 2 ^ t.fmt.p
  hk : t.fmt.emin ≤ -(t.k : Int)
  hkp : t.k ≤ t.fmt.p

theorem int_two_pow (n : Nat) : (2 : Int) ^ n = ((2 ^ n : Nat) : Int) := by
  simp [Int.natCast_pow]

/-- `geHalf` / `leNegHalf` never fire on a value whose sign is the other one. -/
theorem geHalf_roundNE_neg (f : Fmt) (a : Nat) (e : Int) : geHalf (roundNE f true a e) = false := by
  rcases roundNE_shape f true a e with h | ⟨m, e', h⟩ <;> simp [h, geHalf]

theorem leNegHalf_roundNE_pos (f : Fmt) (a : Nat) (e : Int) :
    leNegHalf (roundNE f false a e) = false := by
  rcases roundNE_shape f false a e with h | ⟨m, e', h⟩ <;> simp [h, leNegHalf, geHalf, FVal.neg]

theorem rha_div (m G : Int) (hG : 0 < G) (hm : 0 ≤ m) :
    (2 * m + G) / (2 * G) = m / G + (if G ≤ 2 * (m % G) then 1 else 0) := by
  have h1 := Int.mul_ediv_add_emod m G
  have h2 := Int.emod_nonneg m (Int.ne_of_gt hG)
  have h3 := Int.emod_lt_of_pos m hG
  generalize m / G = q at *
  generalize m % G = r at *
  have e1 : 2 * m + G = (2 * r + G) + (2 * G) * q := by
    have : 2 * G * q = 2 * (G * q) := by rw [Int.mul_assoc]
    omega
  rw [e1, Int.add_mul_ediv_left _ _ (by omega : 2 * G ≠ 0)]
  by_cases hc : G ≤ 2 * r
  · simp only [hc, if_true]
    have e2 : 2 * r + G = (2 * r - G) + (2 * G) * 1 := by omega
    rw [e2, Int.add_mul_ediv_left _ _ (by omega : 2 * G ≠ 0)]
    rw [Int.ediv_eq_zero_of_lt (by omega) (by omega)]
    omega
  · simp only [hc, if_false]
    rw [Int.ediv_eq_zero_of_lt (by omega) (by omega)]
    omega

theorem exactSum_ge (s : Bool) (m : Nat) (e : Int) (t : Bool) (n : Nat) (he : 0 ≤ e) :
    exactSum s m e t n 0 =
      ((if s then -1 else 1) * ((m : Int) * 2 ^ e.toNat) + (if t then -1 else 1) * (n : Int), 0) := by
  unfold exactSum
  by_cases h0 : e ≤ 0
  · have : e = 0 := by omega
    subst this; simp
  · simp [h0]

theorem exactSum_lt (s : Bool) (m : Nat) (e : Int) (t : Bool) (n : Nat) (he : e < 0) :
    exactSum s m e t n 0 =
      ((if s then -1 else 1) * (m : Int) + (if t then -1 else 1) * ((n : Int) * 2 ^ (-e).toNat), e) := by
  unfold exactSum
  have h0 : e ≤ 0 := by omega
  simp [h0]

theorem rhaMag_zero (e : Int) : rhaMag 0 e = 0 := by
  unfold rhaMag
  split
  · simp
  · have hG : (0 : Int) < 2 ^ (-e).toNat := by rw [int_two_pow]; exact Int.ofNat_lt.mpr (two_pow_pos _)
    simp only [Int.natCast_zero, Int.mul_zero, Int.zero_add]
    exact Int.ediv_eq_zero_of_lt (by omega) (by omega)

theorem fromFloat_zero (t : FxTy) (ok : t.Ok) (neg : Bool) (e : Int) :
    fromFloat t (.fin neg 0 e) = 0 := by
  obtain ⟨hp, hemin, hlo, hhi, hloN, hhiN, hk, hkp⟩ := ok
  have h1 : mulPow2 t.fmt (.fin neg 0 e) t.k = .fin neg 0 0 := by simp [mulPow2, roundNE]
  have h2 : toIntSat t.lo t.hi (.fin neg 0 0) = 0 := by
    cases neg <;> simp [toIntSat] <;> omega
  unfold fromFloat
  simp only [h1, h2]
  have h3 : ofInt t.fmt 0 = .fin false 0 0 := by simp [ofInt, roundNE]
  simp only [h3]
  cases neg <;> simp [sub, add, exactSum, FVal.neg, geHalf, leNegHalf]

/-- the remainder `scaled - tr as fN` of `fromFloat`, before rounding: sign and exact value. -/
theorem sub_ofInt (f : Fmt) (hp : (f.p : Int) ≤ f.etop) (hemin : f.emin ≤ 0)
    (neg : Bool) (m : Nat) (e : Int) (tr : Int) (htr : tr.natAbs < 2 ^ f.p) :
    sub f (.fin neg m e) (ofInt f tr) =
      (let A := exactSum neg m e (!decide (tr < 0)) tr.natAbs 0
       if A.1 = 0 then .fin (neg && !decide (tr < 0)) 0 0
       else roundNE f (decide (A.1 < 0)) A.1.natAbs A.2) := by
  rw [ofInt_exact f tr hp hemin htr]
  simp only [sub, FVal.neg, add]

theorem neg_tr (tr : Int) : (if (!decide (tr < 0)) = true then (-1 : Int) else 1) * (tr.natAbs : Int) = -tr := by
  by_cases h : tr < 0 <;> simp [h] <;> omega

theorem neg_tr_mul (tr G : Int) :
    (if (!decide (tr < 0)) = true then (-1 : Int) else 1) * ((tr.natAbs : Int) * G) = -(tr * G) := by
  rw [← Int.mul_assoc, neg_tr, Int.neg_mul]

theorem clampI_zero (lo hi : Int) (h1 : lo < 0) (h2 : 0 < hi) : clampI lo hi 0 = 0 := by
  unfold clampI; split <;> (try split) <;> omega

theorem fromFloat_fin (t : FxTy) (ok : t.Ok) (neg : Bool) (m : Nat) (e : Int)
    (hm : m < 2 ^ t.fmt.p) (he : t.fmt.emin ≤ e)
    (hov : e + (t.k : Int) + (bitLen m : Int) ≤ t.fmt.etop) :
    fromFloat t (.fin neg m e) = fromFloatSpec t neg m e := by
  by_cases hm0 : m = 0
  · subst hm0; rw [fromFloat_zero t ok]
    simp [fromFloatSpec, rhaMag_zero, clampI_zero _ _ ok.hlo ok.hhi]
  obtain ⟨hp, hemin, hlo, hhi, hloN, hhiN, hk, hkp⟩ := ok
  have hsc : mulPow2 t.fmt (.fin neg m e) t.k = .fin neg m (e + t.k) := by
    simp only [mulPow2]
    rw [roundNE_exact _ _ _ _ hm (by omega) hov]; simp [hm0]
  unfold fromFloat fromFloatSpec
  simp only [hsc]
  generalize he' : e + (t.k : Int) = e'
  have hee : t.fmt.emin ≤ e' := by omega
  generalize htrdef : toIntSat t.lo t.hi (.fin neg m e') = tr
  have htr_rng : t.lo ≤ tr ∧ tr ≤ t.hi := by
    rw [← htrdef]; simp only [toIntSat]; split <;> (try split) <;> omega
  have htrN : tr.natAbs < 2 ^ t.fmt.p := by omega
  rw [sub_ofInt t.fmt hp hemin neg m e' tr htrN]
  by_cases hge : 0 ≤ e'
  · rw [exactSum_ge _ _ _ _ _ hge, neg_tr]
    have hr : rhaMag m e' = (m : Int) * 2 ^ e'.toNat := by simp [rhaMag, hge]
    rw [hr]
    simp only [toIntSat, ge_iff_le, hge, if_true] at htrdef
    have hP0 : (0 : Int) ≤ (m : Int) * 2 ^ e'.toNat :=
      Int.mul_nonneg (Int.natCast_nonneg m) (by rw [int_two_pow]; exact Int.natCast_nonneg _)
    generalize hP : (m : Int) * 2 ^ e'.toNat = P at *
    cases neg
    · simp only [Bool.false_eq_true, if_false, Int.one_mul] at htrdef ⊢
      by_cases h1 : P > t.hi
      · have htr : tr = t.hi := by rw [← htrdef]; split <;> (try split) <;> omega
        subst htr
        have hA : P + -t.hi ≠ 0 := by omega
        have hd : decide (P + -t.hi < 0) = false := by simp; omega
        simp only [hA, if_false, hd, leNegHalf_roundNE_pos, Bool.false_eq_true, satInc, clampI]
        repeat' split
        all_goals omega
      · have htr : tr = P := by rw [← htrdef]; split <;> (try split) <;> omega
        subst htr
        have hA : tr + -tr = 0 := by omega
        simp only [hA, if_true, geHalf, leNegHalf, FVal.neg]
        simp [clampI]
        split <;> (try split) <;> omega
    · simp only [if_true] at htrdef ⊢
      have hneg1 : (-1 : Int) * P = -P := by omega
      rw [hneg1]
      by_cases h1 : -P < t.lo
      · have htr : tr = t.lo := by rw [← htrdef]; split <;> (try split) <;> omega
        subst htr
        have hA : -P + -t.lo ≠ 0 := by omega
        have hd : decide (-P + -t.lo < 0) = true := by simp; omega
        simp only [hA, if_false, hd, geHalf_roundNE_neg, Bool.false_eq_true, satDec, clampI]
        repeat' split
        all_goals omega
      · have htr : tr = -P := by rw [← htrdef]; split <;> (try split) <;> omega
        subst htr
        have hA : -P + - -P = 0 := by omega
        simp only [hA, if_true, geHalf, leNegHalf, FVal.neg]
        simp [clampI]
        split <;> (try split) <;> omega
  · have hlt : e' < 0 := by omega
    rw [exactSum_lt _ _ _ _ _ hlt, neg_tr_mul]
    have hr : rhaMag m e' = (2 * (m : Int) + 2 ^ (-e').toNat) / (2 * 2 ^ (-e').toNat) := by
      simp [rhaMag, hge]
    rw [hr]
    simp only [toIntSat, ge_iff_le, hge, if_false] at htrdef
    have hGpos : 0 < 2 ^ (-e').toNat := two_pow_pos _
    simp only [int_two_pow] at htrdef ⊢
    generalize hG : 2 ^ (-e').toNat = Gn at *
    have hGi : (0 : Int) < (Gn : Int) := by omega
    rw [rha_div _ _ hGi (Int.natCast_nonneg m)]
    have h1 := Int.mul_ediv_add_emod (m : Int) (Gn : Int)
    have h2 := Int.emod_nonneg (m : Int) (Int.ne_of_gt hGi)
    have h3 := Int.emod_lt_of_pos (m : Int) hGi
    have hT0 : 0 ≤ (m : Int) / (Gn : Int) := Int.ediv_nonneg (Int.natCast_nonneg m) (by omega)
    generalize hT : (m : Int) / (Gn : Int) = T0 at *
    generalize hR : (m : Int) % (Gn : Int) = r at *
    have hGT : 0 ≤ (Gn : Int) * T0 := Int.mul_nonneg (by omega) hT0
    have hrm : r.natAbs < 2 ^ t.fmt.p := by omega
    have hrL : bitLen r.natAbs ≤ t.fmt.p := bitLen_le_of_lt hrm
    have hex : ∀ sg : Bool, roundNE t.fmt sg r.natAbs e' =
        if r.natAbs = 0 then .fin sg 0 0 else .fin sg r.natAbs e' :=
      fun sg => roundNE_exact _ _ _ _ hrm hee (by omega)
    cases neg
    · simp only [Bool.false_eq_true, if_false, Int.one_mul] at htrdef ⊢
      by_cases hsat : T0 > t.hi
      · have htr : tr = t.hi := by rw [← htrdef]; split <;> (try split) <;> omega
        subst htr
        have hmul : (Gn : Int) * (t.hi + 1) ≤ (Gn : Int) * T0 :=
          Int.mul_le_mul_of_nonneg_left (by omega) (by omega)
        rw [Int.mul_add, Int.mul_one] at hmul
        have hc : t.hi * (Gn : Int) = (Gn : Int) * t.hi := Int.mul_comm _ _
        rw [hc]
        generalize (Gn : Int) * t.hi = X at *
        have hA : (m : Int) + -X ≠ 0 := by omega
        have hd : decide ((m : Int) + -X < 0) = false := by simp; omega
        simp only [hA, if_false, hd, leNegHalf_roundNE_pos, Bool.false_eq_true, satInc, clampI]
        repeat' split
        all_goals omega
      · have htr : tr = T0 := by rw [← htrdef]; split <;> (try split) <;> omega
        subst htr
        have hA : (m : Int) + -(tr * (Gn : Int)) = r := by
          rw [Int.mul_comm tr]; omega
        rw [hA]
        by_cases hr0 : r = 0
        · subst hr0
          simp [geHalf, leNegHalf, FVal.neg, clampI]
          repeat' split
          all_goals omega
        · have hd : decide (r < 0) = false := by simp; omega
          have hrn : r.natAbs ≠ 0 := by omega
          simp only [hr0, if_false, hd, hex, hrn, geHalf, leNegHalf, FVal.neg, hG, Bool.not_false,
            Bool.not_true, Bool.true_and, Bool.false_and, Bool.false_eq_true, decide_eq_true_eq,
            satInc, clampI]
          repeat' split
          all_goals omega
    · simp only [if_true] at htrdef ⊢
      have hneg1 : ∀ z : Int, (-1 : Int) * z = -z := by intro z; omega
      rw [hneg1, hneg1]
      by_cases hsat : -T0 < t.lo
      · have htr : tr = t.lo := by rw [← htrdef]; split <;> (try split) <;> omega
        subst htr
        have hmul : (Gn : Int) * (-t.lo + 1) ≤ (Gn : Int) * T0 :=
          Int.mul_le_mul_of_nonneg_left (by omega) (by omega)
        rw [Int.mul_add, Int.mul_one, Int.mul_neg] at hmul
        have hc : t.lo * (Gn : Int) = (Gn : Int) * t.lo := Int.mul_comm _ _
        rw [hc]
        generalize (Gn : Int) * t.lo = X at *
        have hA : -(m : Int) + -X ≠ 0 := by omega
        have hd : decide (-(m : Int) + -X < 0) = true := by simp; omega
        simp only [hA, if_false, hd, geHalf_roundNE_neg, Bool.false_eq_true, satDec, clampI]
        repeat' split
        all_goals omega
      · have htr : tr = -T0 := by rw [← htrdef]; split <;> (try split) <;> omega
        subst htr
        have hA : -(m : Int) + -(-T0 * (Gn : Int)) = -r := by
          rw [Int.neg_mul, Int.mul_comm T0]; omega
        rw [hA]
        by_cases hr0 : r = 0
        · subst hr0
          simp [geHalf, leNegHalf, FVal.neg, clampI]
          repeat' split
          all_goals omega
        · have hd : decide (-r < 0) = true := by simp; omega
          have hrn : r.natAbs ≠ 0 := by omega
          have hnr : -r ≠ 0 := by omega
          have hna : (-r).natAbs = r.natAbs := by omega
          simp only [hnr, if_false, hd, hna, hex, hrn, geHalf, leNegHalf, FVal.neg, hG, Bool.not_false,
            Bool.not_true, Bool.true_and, Bool.false_and, Bool.false_eq_true, decide_eq_true_eq,
            satDec, clampI]
          repeat' split
          all_goals omega

theorem fromFloat_nan (t : FxTy) : fromFloat t .nan = 0 := by
  simp [fromFloat, mulPow2, toIntSat, sub, add, geHalf, leNegHalf, FVal.neg]

theorem bound_natAbs (t : FxTy) (ok : t.Ok) (v : Int) (h : t.lo ≤ v ∧ v ≤ t.hi) :
    v.natAbs < 2 ^ t.fmt.p := by
  have := ok.hloN; have := ok.hhiN; have := ok.hlo; have := ok.hhi
  omega

/-- once the scaled value is infinite the result is `MIN` / `MAX`. -/
theorem fromFloat_of_scaled_inf (t : FxTy) (ok : t.Ok) (x : FVal) (s : Bool)
    (h : mulPow2 t.fmt x t.k = .inf s) : fromFloat t x = if s then t.lo else t.hi := by
  have hlo := ok.hlo; have hhi := ok.hhi
  unfold fromFloat
  simp only [h, toIntSat]
  cases s
  · simp only [Bool.false_eq_true, if_false]
    rw [ofInt_exact t.fmt t.hi ok.hp ok.hemin (bound_natAbs t ok _ (by omega))]
    simp [sub, add, FVal.neg, geHalf, satInc]
    omega
  · simp only [if_true]
    rw [ofInt_exact t.fmt t.lo ok.hp ok.hemin (bound_natAbs t ok _ (by omega))]
    simp [sub, add, FVal.neg, geHalf, leNegHalf, satDec]
    omega

theorem fromFloat_inf (t : FxTy) (ok : t.Ok) (s : Bool) :
    fromFloat t (.inf s) = if s then t.lo else t.hi :=
  fromFloat_of_scaled_inf t ok _ s (by simp [mulPow2])

/-- a finite value whose scaled magnitude is `≥ 2^etop`: the multiplication overflows. -/
theorem mulPow2_overflow (f : Fmt) (neg : Bool) (m : Nat) (e k : Int)
    (hm : m < 2 ^ f.p) (hm0 : m ≠ 0) (he : f.emin ≤ e) (hk : 0 ≤ k)
    (hov : e + k + (bitLen m : Int) > f.etop) :
    mulPow2 f (.fin neg m e) k = .inf neg := by
  simp only [mulPow2, roundNE, hm0, if_false]
  have hL : bitLen m ≤ f.p := bitLen_le_of_lt hm
  have hq : (if e + k + (bitLen m : Int) - (f.p : Int) < f.emin then f.emin
      else e + k + (bitLen m : Int) - (f.p : Int)) ≤ e + k := by
    split <;> omega
  simp only [hq, if_true, hov]

theorem fromFloatSpec_overflow (t : FxTy) (ok : t.Ok) (neg : Bool) (m : Nat) (e : Int)
    (hm : m < 2 ^ t.fmt.p) (hm0 : m ≠ 0) (he : t.fmt.emin ≤ e)
    (hov : e + (t.k : Int) + (bitLen m : Int) > t.fmt.etop) :
    fromFloatSpec t neg m e = if neg then t.lo else t.hi := by
  obtain ⟨hp, hemin, hlo, hhi, hloN, hhiN, hk, hkp⟩ := ok
  have hL : bitLen m ≤ t.fmt.p := bitLen_le_of_lt hm
  have hL1 : 1 ≤ bitLen m := bitLen_pos hm0
  have hge : e + (t.k : Int) ≥ 0 := by omega
  unfold fromFloatSpec rhaMag
  simp only [hge, if_true]
  generalize hE : (e + (t.k : Int)).toNat = E
  have h1 : 2 ^ (bitLen m - 1) ≤ m := pow_bitLen_le hm0
  have h2 : 2 ^ (bitLen m - 1) * 2 ^ E ≤ m * 2 ^ E := Nat.mul_le_mul_right _ h1
  rw [← Nat.pow_add] at h2
  have h3 : 2 ^ t.fmt.p ≤ 2 ^ (bitLen m - 1 + E) := Nat.pow_le_pow_right (by decide) (by omega)
  have h4 : (m : Int) * 2 ^ E = ((m * 2 ^ E : Nat) : Int) := by
    rw [int_two_pow, Int.natCast_mul]
  rw [h4]
  generalize m * 2 ^ E = V at *
  unfold clampI
  cases neg <;> simp <;> repeat' split
  all_goals omega

/-- `from_fN` of every finite float of the format is the exact closed form. -/
theorem fromFloat_finite (t : FxTy) (ok : t.Ok) (neg : Bool) (m : Nat) (e : Int)
    (hm : m < 2 ^ t.fmt.p) (he : t.fmt.emin ≤ e) :
    fromFloat t (.fin neg m e) = fromFloatSpec t neg m e := by
  by_cases hm0 : m = 0
  · subst hm0; rw [fromFloat_zero t ok]
    simp [fromFloatSpec, rhaMag_zero, clampI_zero _ _ ok.hlo ok.hhi]
  by_cases hov : e + (t.k : Int) + (bitLen m : Int) ≤ t.fmt.etop
  · exact fromFloat_fin t ok neg m e hm he hov
  · rw [fromFloatSpec_overflow t ok neg m e hm hm0 he (by omega)]
    exact fromFloat_of_scaled_inf t ok _ neg
      (mulPow2_overflow t.fmt neg m e t.k hm hm0 he (by omega) (by omega))

theorem sgn_natAbs (q : Int) : (if q < 0 then (-1 : Int) else 1) * (q.natAbs : Int) = q := by
  split <;> omega

theorem exactSum_zero_negk (s : Bool) (m : Nat) (t : Bool) (n : Nat) (k : Nat) :
    exactSum s m 0 t n (-(k : Int)) =
      ((if s then -1 else 1) * ((m : Int) * 2 ^ k) + (if t then -1 else 1) * (n : Int), -(k : Int)) := by
  unfold exactSum
  by_cases h0 : k = 0
  · subst h0; simp
  · simp [h0]

/-- `to_fN` never rounds: the result is the exact value `raw · 2^-k`, written either with exponent
`-k` or (when the fraction bits are zero) with exponent `0`. -/
theorem toFloat_form (t : FxTy) (ok : t.Ok) (raw : Int) (h : t.lo ≤ raw ∧ raw ≤ t.hi) :
    toFloat t raw =
      if raw % 2 ^ t.k = 0 then .fin (decide (raw / 2 ^ t.k < 0)) (raw / 2 ^ t.k).natAbs 0
      else .fin (decide (raw < 0)) raw.natAbs (-(t.k : Int)) := by
  obtain ⟨hp, hemin, hlo, hhi, hloN, hhiN, hk, hkp⟩ := ok
  have hKpos : 0 < 2 ^ t.k := two_pow_pos _
  have hKle : 2 ^ t.k ≤ 2 ^ t.fmt.p := Nat.pow_le_pow_right (by decide) hkp
  unfold toFloat
  simp only [int_two_pow]
  generalize hK : 2 ^ t.k = K at *
  have hKi : (0 : Int) < (K : Int) := by omega
  have h1 := Int.mul_ediv_add_emod raw (K : Int)
  have h2 := Int.emod_nonneg raw (Int.ne_of_gt hKi)
  have h3 := Int.emod_lt_of_pos raw hKi
  generalize hq : raw / (K : Int) = q at *
  generalize hr : raw % (K : Int) = r at *
  -- |q| ≤ |raw|
  have hqa : q.natAbs ≤ raw.natAbs := by
    by_cases hq0 : 0 ≤ q
    · have e1 : (K : Int) * q = q + ((K : Int) - 1) * q := by
        rw [Int.sub_mul]; omega
      have := Int.mul_nonneg (by omega : (0 : Int) ≤ (K : Int) - 1) hq0
      omega
    · have e1 : ((K : Int) - 1) * (q + 1) = (K : Int) * q + (K : Int) - q - 1 := by
        rw [Int.sub_mul, Int.mul_add, Int.mul_one, Int.one_mul]; omega
      have : ((K : Int) - 1) * (q + 1) ≤ 0 :=
        Int.mul_nonpos_of_nonneg_of_nonpos (by omega) (by omega)
      omega
  have hrawN : raw.natAbs < 2 ^ t.fmt.p := by omega
  rw [ofInt_exact t.fmt q hp hemin (by omega), ofInt_exact t.fmt r hp hemin (by omega)]
  have hrd : decide (r < 0) = false := by simp; omega
  simp only [mulPow2, hrd, Int.zero_add]
  have hrL : bitLen r.natAbs ≤ t.fmt.p := bitLen_le_of_lt (by omega)
  rw [roundNE_exact t.fmt false r.natAbs (-(t.k : Int)) (by omega) hk (by omega)]
  by_cases hr0 : r = 0
  · subst hr0
    simp [add, exactSum]
    rw [sgn_natAbs]
    by_cases hq0 : q = 0
    · subst hq0; simp
    · have hqL : bitLen q.natAbs ≤ t.fmt.p := bitLen_le_of_lt (by omega)
      have hqn : q.natAbs ≠ 0 := by omega
      simp only [hq0, if_false]
      rw [roundNE_exact t.fmt _ q.natAbs 0 (by omega) hemin (by omega)]
      simp [hqn]
  · have hrn : r.natAbs ≠ 0 := by omega
    simp only [hrn, if_false, hr0, add]
    rw [exactSum_zero_negk]
    simp only [decide_eq_true_eq, Bool.false_eq_true, if_false, Int.one_mul, int_two_pow, hK]
    have hsum : (if q < 0 then (-1 : Int) else 1) * ((q.natAbs : Int) * (K : Int)) + (r.natAbs : Int) = raw := by
      rw [← Int.mul_assoc, sgn_natAbs, Int.mul_comm]; omega
    rw [hsum]
    have hraw0 : raw ≠ 0 := by
      intro h0
      have : (K : Int) * q = -r := by omega
      by_cases hq0 : 0 ≤ q
      · have := Int.mul_nonneg (by omega : (0 : Int) ≤ (K : Int)) hq0; omega
      · have e1 : (K : Int) * (q + 1) = (K : Int) * q + (K : Int) := by rw [Int.mul_add, Int.mul_one]
        have : (K : Int) * (q + 1) ≤ 0 := Int.mul_nonpos_of_nonneg_of_nonpos (by omega) (by omega)
        omega
    have hrawL : bitLen raw.natAbs ≤ t.fmt.p := bitLen_le_of_lt hrawN
    have hrawn : raw.natAbs ≠ 0 := by omega
    simp only [hraw0, if_false]
    rw [roundNE_exact t.fmt _ raw.natAbs _ hrawN hk (by omega)]
    simp [hrawn]

theorem clampI_id (lo hi v : Int) (h : lo ≤ v ∧ v ≤ hi) : clampI lo hi v = v := by
  unfold clampI; repeat' split
  all_goals omega

theorem fromFloat_toFloat (t : FxTy) (ok : t.Ok) (raw : Int) (h : t.lo ≤ raw ∧ raw ≤ t.hi) :
    fromFloat t (toFloat t raw) = raw := by
  rw [toFloat_form t ok raw h]
  have hrawN := bound_natAbs t ok raw h
  have hKi : (0 : Int) < (2 : Int) ^ t.k := by rw [int_two_pow]; exact Int.ofNat_lt.mpr (two_pow_pos _)
  have h1 := Int.mul_ediv_add_emod raw (2 ^ t.k)
  by_cases hr : raw % 2 ^ t.k = 0
  · simp only [hr, if_true]
    rw [hr] at h1
    generalize hq : raw / 2 ^ t.k = q at *
    have hqa : q.natAbs ≤ raw.natAbs := by
      generalize (2 : Int) ^ t.k = K at *
      by_cases hq0 : 0 ≤ q
      · have e1 : K * q = q + (K - 1) * q := by rw [Int.sub_mul]; omega
        have := Int.mul_nonneg (by omega : (0 : Int) ≤ K - 1) hq0
        omega
      · have e1 : K * q = q + (K - 1) * q := by rw [Int.sub_mul]; omega
        have : (K - 1) * q ≤ 0 := Int.mul_nonpos_of_nonneg_of_nonpos (by omega) (by omega)
        omega
    rw [fromFloat_finite t ok _ _ 0 (by omega) ok.hemin]
    unfold fromFloatSpec rhaMag
    have hk0 : (t.k : Int) ≥ 0 := by omega
    simp only [Int.zero_add, hk0, if_true, Int.toNat_natCast, decide_eq_true_eq]
    rw [← Int.mul_assoc, sgn_natAbs, Int.mul_comm]
    rw [clampI_id _ _ _ (by omega)]; omega
  · simp only [hr, if_false]
    rw [fromFloat_finite t ok _ _ _ hrawN ok.hk]
    unfold fromFloatSpec rhaMag
    have hk0 : -(t.k : Int) + (t.k : Int) ≥ 0 := by omega
    have hk1 : (-(t.k : Int) + (t.k : Int)).toNat = 0 := by omega
    simp only [hk0, if_true, hk1, Int.pow_zero, Int.mul_one, decide_eq_true_eq]
    rw [sgn_natAbs, clampI_id _ _ _ h]

/-- the exact scaled value `x · 2^k` of a finite float as a fraction `num / den`, `den > 0`. -/
def scaledNum (k : Nat) (neg : Bool) (m : Nat) (e : Int) : Int :=
  (if neg then -1 else 1) * (if e + k ≥ 0 then (m : Int) * 2 ^ (e + k).toNat else (m : Int))
def scaledDen (k : Nat) (e : Int) : Int := if e + k ≥ 0 then 1 else 2 ^ (-(e + k)).toNat

theorem scaledDen_pos (k : Nat) (e : Int) : 0 < scaledDen k e := by
  unfold scaledDen; split
  · omega
  · rw [int_two_pow]; exact Int.ofNat_lt.mpr (two_pow_pos _)

/-- the closed form is the scaled value rounded to nearest, ties away from zero. -/
theorem spec_isRHA (k : Nat) (neg : Bool) (m : Nat) (e : Int) :
    IsRHA (scaledNum k neg m e) (scaledDen k e) ((if neg then -1 else 1) * rhaMag m (e + k)) := by
  unfold scaledNum scaledDen rhaMag
  by_cases hge : e + (k : Int) ≥ 0
  · simp only [hge, if_true]
    generalize (if neg = true then (-1 : Int) else 1) * ((m : Int) * 2 ^ (e + (k : Int)).toNat) = P
    unfold IsRHA; omega
  · simp only [hge, if_false]
    have hGi : (0 : Int) < 2 ^ (-(e + (k : Int))).toNat := by
      rw [int_two_pow]; exact Int.ofNat_lt.mpr (two_pow_pos _)
    generalize (2 : Int) ^ (-(e + (k : Int))).toNat = G at *
    rw [rha_div _ _ hGi (Int.natCast_nonneg m)]
    have h1 := Int.mul_ediv_add_emod (m : Int) G
    have h2 := Int.emod_nonneg (m : Int) (Int.ne_of_gt hGi)
    have h3 := Int.emod_lt_of_pos (m : Int) hGi
    have hT0 : 0 ≤ (m : Int) / G := Int.ediv_nonneg (Int.natCast_nonneg m) (by omega)
    generalize (m : Int) / G = T0 at *
    generalize (m : Int) % G = r at *
    have hpos : IsRHA (m : Int) G (T0 + if G ≤ 2 * r then 1 else 0) := by
      unfold IsRHA
      have e1 : G * (T0 + if G ≤ 2 * r then 1 else 0) = G * T0 + (if G ≤ 2 * r then G else 0) := by
        rw [Int.mul_add]; split <;> simp
      rw [e1]
      generalize G * T0 = X at *
      split <;> omega
    cases neg
    · simpa using hpos
    · have := isRHA_neg hGi hpos
      simpa [Int.neg_mul] using this

theorem clampI_range (lo hi v : Int) (h : lo ≤ hi) : lo ≤ clampI lo hi v ∧ clampI lo hi v ≤ hi := by
  unfold clampI; repeat' split
  all_goals omega

theorem clampI_mono (lo hi a b : Int) (h : a ≤ b) (hlh : lo ≤ hi) : clampI lo hi a ≤ clampI lo hi b := by
  unfold clampI; repeat' split
  all_goals omega

theorem int_pow_pos (n : Nat) : (0 : Int) < 2 ^ n := by
  rw [int_two_pow]; exact Int.ofNat_lt.mpr (two_pow_pos _)

/-- `rhaMag` depends only on the value: `(m · 2^j) · 2^(E - j) = m · 2^E`. -/
theorem rhaMag_rescale (m j : Nat) (E : Int) : rhaMag (m * 2 ^ j) (E - j) = rhaMag m E := by
  unfold rhaMag
  by_cases h1 : E - (j : Int) ≥ 0
  · have h2 : E ≥ 0 := by omega
    simp only [h1, h2, if_true]
    have : E.toNat = j + (E - (j : Int)).toNat := by omega
    rw [this, Int.pow_add, Int.natCast_mul, Int.natCast_pow]
    simp [Int.mul_assoc]
  · simp only [h1, if_false]
    by_cases h2 : E ≥ 0
    · simp only [h2, if_true]
      have hj : j = E.toNat + (-(E - (j : Int))).toNat := by omega
      generalize hn : (-(E - (j : Int))).toNat = n at *
      have hG := int_pow_pos n
      rw [Int.natCast_mul, Int.natCast_pow]
      have : ((2 : Nat) : Int) ^ j = 2 ^ E.toNat * 2 ^ n := by
        rw [hj, Int.pow_add]; simp
      rw [this, ← Int.mul_assoc (m : Int)]
      generalize (2 : Int) ^ n = G at *
      generalize (m : Int) * 2 ^ E.toNat = X
      have e1 : 2 * (X * G) + G = G + (2 * G) * X := by
        rw [Int.mul_comm X G, ← Int.mul_assoc]; omega
      rw [e1, Int.add_mul_ediv_left _ _ (by omega : 2 * G ≠ 0),
        Int.ediv_eq_zero_of_lt (by omega) (by omega)]
      omega
    · simp only [h2, if_false]
      have hj : (-(E - (j : Int))).toNat = (-E).toNat + j := by omega
      rw [hj, Int.pow_add, Int.natCast_mul, Int.natCast_pow]
      have hJ := int_pow_pos j
      have hG := int_pow_pos (-E).toNat
      have : ((2 : Nat) : Int) = 2 := rfl
      rw [this]
      generalize (2 : Int) ^ j = J at *
      generalize (2 : Int) ^ (-E).toNat = G at *
      have e1 : 2 * ((m : Int) * J) + G * J = (2 * (m : Int) + G) * J := by
        rw [Int.add_mul, Int.mul_assoc]
      have e2 : 2 * (G * J) = (2 * G) * J := by rw [Int.mul_assoc]
      rw [e1, e2, Int.mul_ediv_mul_of_pos_left _ _ hJ]

def srha (N : Int) (E : Int) : Int := (if N < 0 then -1 else 1) * rhaMag N.natAbs E

theorem rhaMag_nonneg (m : Nat) (E : Int) : 0 ≤ rhaMag m E := by
  unfold rhaMag
  split
  · exact Int.mul_nonneg (Int.natCast_nonneg m) (Int.le_of_lt (int_pow_pos _))
  · have := int_pow_pos (-E).toNat
    exact Int.ediv_nonneg (by omega) (by omega)

theorem rhaMag_mono (a b : Nat) (E : Int) (h : a ≤ b) : rhaMag a E ≤ rhaMag b E := by
  unfold rhaMag
  split
  · exact Int.mul_le_mul_of_nonneg_right (by omega) (Int.le_of_lt (int_pow_pos _))
  · have := int_pow_pos (-E).toNat
    exact Int.ediv_le_ediv (by omega) (by omega)

theorem srha_mono (N1 N2 E : Int) (h : N1 ≤ N2) : srha N1 E ≤ srha N2 E := by
  unfold srha
  have p1 := rhaMag_nonneg N1.natAbs E
  have p2 := rhaMag_nonneg N2.natAbs E
  by_cases h1 : N1 < 0 <;> by_cases h2 : N2 < 0 <;> simp only [h1, h2, if_true, if_false]
  · have := rhaMag_mono N2.natAbs N1.natAbs E (by omega); omega
  · omega
  · omega
  · have := rhaMag_mono N1.natAbs N2.natAbs E (by omega); omega

theorem spec_eq_srha (neg : Bool) (m : Nat) (E : Int) (j : Nat) :
    (if neg then -1 else 1) * rhaMag m E =
      srha ((if neg then -1 else 1) * ((m : Int) * 2 ^ j)) (E - j) := by
  unfold srha
  have hJ := int_pow_pos j
  have hmj : ((m * 2 ^ j : Nat) : Int) = (m : Int) * 2 ^ j := by
    rw [Int.natCast_mul, Int.natCast_pow]; rfl
  by_cases hm0 : m = 0
  · subst hm0; simp [rhaMag_zero]
  · have hpos : 0 < (m : Int) * 2 ^ j := Int.mul_pos (by omega) hJ
    cases neg
    · simp only [Bool.false_eq_true, if_false, Int.one_mul]
      have hn : ¬ ((m : Int) * 2 ^ j < 0) := by omega
      have hna : ((m : Int) * 2 ^ j).natAbs = m * 2 ^ j := by omega
      simp only [hn, if_false, Int.one_mul, hna, rhaMag_rescale]
    · simp only [if_true]
      have hn : (-1 : Int) * ((m : Int) * 2 ^ j) < 0 := by omega
      have hna : ((-1 : Int) * ((m : Int) * 2 ^ j)).natAbs = m * 2 ^ j := by omega
      simp only [hn, if_true, hna, rhaMag_rescale]

/-- `from_fN` (closed form) is monotone in the float's value. -/
theorem fromFloatSpec_mono (t : FxTy) (hlh : t.lo ≤ t.hi) (s : Bool) (m : Nat) (e : Int)
    (s' : Bool) (n : Nat) (g : Int) (h : le (.fin s m e) (.fin s' n g) = true) :
    fromFloatSpec t s m e ≤ fromFloatSpec t s' n g := by
  simp only [le, exactSum] at h
  have h := of_decide_eq_true h
  unfold fromFloatSpec
  apply clampI_mono _ _ _ _ _ hlh
  generalize he0 : (if e ≤ g then e else g) = e0 at h
  have h1 : e0 ≤ e ∧ e0 ≤ g := by rw [← he0]; split <;> omega
  rw [spec_eq_srha s m _ (e - e0).toNat, spec_eq_srha s' n _ (g - e0).toNat]
  have x1 : e + (t.k : Int) - ((e - e0).toNat : Int) = e0 + t.k := by omega
  have x2 : g + (t.k : Int) - ((g - e0).toNat : Int) = e0 + t.k := by omega
  rw [x1, x2]
  apply srha_mono
  cases s' <;> simp at h ⊢ <;> omega


theorem mul_pos_le_zero_iff (A P : Int) (hP : 0 < P) : A * P ≤ 0 ↔ A ≤ 0 := by
  constructor
  · intro h
    apply Classical.byContradiction; intro hc
    have : 1 * P ≤ A * P := Int.mul_le_mul_of_nonneg_right (by omega) (by omega)
    omega
  · intro h
    exact Int.mul_nonpos_of_nonpos_of_nonneg h (by omega)

/-- comparison of two finite floats whose exponents are at least `-k`, on the integers
`value · 2^k`. -/
theorem le_fin_scaled (k : Nat) (s : Bool) (m : Nat) (e : Int) (t : Bool) (n : Nat) (g : Int)
    (he : -(k : Int) ≤ e) (hg : -(k : Int) ≤ g) :
    le (.fin s m e) (.fin t n g) = true ↔
      ((if s then -1 else 1) * ((m : Int) * 2 ^ (e + k).toNat)
        ≤ (if t then -1 else 1) * ((n : Int) * 2 ^ (g + k).toNat)) := by
  unfold le
  rw [decide_eq_true_iff]
  unfold exactSum
  simp only []
  generalize he0 : (if e ≤ g then e else g) = e0
  have h1 : e0 ≤ e ∧ e0 ≤ g ∧ -(k : Int) ≤ e0 := by rw [← he0]; split <;> omega
  have x1 : (e + (k : Int)).toNat = (e - e0).toNat + (e0 + k).toNat := by omega
  have x2 : (g + (k : Int)).toNat = (g - e0).toNat + (e0 + k).toNat := by omega
  rw [x1, x2, Int.pow_add, Int.pow_add]
  have hP := int_pow_pos (e0 + (k : Int)).toNat
  generalize (2 : Int) ^ (e0 + (k : Int)).toNat = P at *
  rw [← Int.mul_assoc (m : Int), ← Int.mul_assoc (n : Int)]
  generalize (m : Int) * 2 ^ (e - e0).toNat = X
  generalize (n : Int) * 2 ^ (g - e0).toNat = Y
  have key : (if s = true then (-1 : Int) else 1) * (X * P) - (if t = true then (-1 : Int) else 1) * (Y * P)
      = ((if s = true then (-1 : Int) else 1) * X + (if (!t) = true then (-1 : Int) else 1) * Y) * P := by
    cases s <;> cases t <;> simp [Int.add_mul, Int.neg_mul] <;> omega
  have := mul_pos_le_zero_iff ((if s = true then (-1 : Int) else 1) * X + (if (!t) = true then (-1 : Int) else 1) * Y) P hP
  rw [← key] at this
  constructor
  · intro h; have := this.mpr h; omega
  · intro h; exact this.mp (by omega)

/-- the value of `to_fN(raw)`: a finite float with exponent `≥ -k` whose value times `2^k` is `raw`. -/
theorem toFloat_value (t : FxTy) (ok : t.Ok) (raw : Int) (h : t.lo ≤ raw ∧ raw ≤ t.hi) :
    ∃ s m e, toFloat t raw = .fin s m e ∧ m < 2 ^ t.fmt.p ∧ t.fmt.emin ≤ e ∧ -(t.k : Int) ≤ e ∧
      (if s then -1 else 1) * ((m : Int) * 2 ^ (e + t.k).toNat) = raw := by
  rw [toFloat_form t ok raw h]
  have hrawN := bound_natAbs t ok raw h
  have hKi : (0 : Int) < (2 : Int) ^ t.k := int_pow_pos t.k
  have h1 := Int.mul_ediv_add_emod raw (2 ^ t.k)
  have hk := ok.hk
  by_cases hr : raw % 2 ^ t.k = 0
  · simp only [hr, if_true]
    rw [hr] at h1
    generalize hq : raw / 2 ^ t.k = q at *
    have hqa : q.natAbs ≤ raw.natAbs := by
      generalize (2 : Int) ^ t.k = K at *
      have e1 : K * q = q + (K - 1) * q := by rw [Int.sub_mul]; omega
      by_cases hq0 : 0 ≤ q
      · have := Int.mul_nonneg (by omega : (0 : Int) ≤ K - 1) hq0
        omega
      · have : (K - 1) * q ≤ 0 := Int.mul_nonpos_of_nonneg_of_nonpos (by omega) (by omega)
        omega
    refine ⟨_, _, _, rfl, by omega, ok.hemin, by omega, ?_⟩
    simp only [Int.zero_add, Int.toNat_natCast, decide_eq_true_eq]
    rw [← Int.mul_assoc, sgn_natAbs, Int.mul_comm]; omega
  · simp only [hr, if_false]
    refine ⟨_, _, _, rfl, hrawN, ok.hk, by omega, ?_⟩
    have hk1 : (-(t.k : Int) + (t.k : Int)).toNat = 0 := by omega
    simp only [hk1, Int.pow_zero, Int.mul_one, decide_eq_true_eq]
    exact sgn_natAbs raw

end FontVerif.FixedConv
