/-
C18 — grouping independence of `apply_glyph_keyed_patches` at font level, for patches naming any mix
of glyf / gvar / CFF / CFF2 / ignored tags: per-arm two-step lemmas (glyf here, gvar in IftGvar,
CFF / CFF2 in IftCff) assembled table by table.
-/
import FontVerif.Lemmas.IftCff
set_option linter.unusedVariables false
namespace FontVerif.Ift

/-! ## `dedup` over a concatenation when one side does not name the tag -/

theorem dedupFrom_skip (tag : Tag) (gps : List GlyphPatches) (acc : List (Nat × Bytes))
    (h : ¬ ∃ gp ∈ gps, tag ∈ gp.tables) : dedupFrom tag gps acc = .ok acc := by
  induction gps generalizing acc with
  | nil => rfl
  | cons gp rest ih =>
    have hn : tag ∉ gp.tables := fun hm => h ⟨gp, List.mem_cons_self, hm⟩
    simp only [dedupFrom, indexOfTag_none tag gp.tables 0 hn]
    exact ih acc (fun ⟨x, hx, hxt⟩ => h ⟨x, List.mem_cons_of_mem _ hx, hxt⟩)

theorem dedupFrom_append (tag : Tag) (g1 g2 : List GlyphPatches) (acc : List (Nat × Bytes)) :
    dedupFrom tag (g1 ++ g2) acc =
      match dedupFrom tag g1 acc with
      | .error e => .error e
      | .ok acc' => dedupFrom tag g2 acc' := by
  induction g1 generalizing acc with
  | nil => rfl
  | cons gp rest ih =>
    simp only [List.cons_append, dedupFrom]
    split
    · exact ih acc
    · split
      · rfl
      · exact ih _

theorem dedup_append_left (tag : Tag) (g1 g2 : List GlyphPatches) (h : ¬ ∃ gp ∈ g2, tag ∈ gp.tables) :
    dedup tag (g1 ++ g2) = dedup tag g1 := by
  unfold dedup
  rw [dedupFrom_append]
  cases hd : dedupFrom tag g1 [] with
  | error e => rfl
  | ok acc => exact dedupFrom_skip tag g2 acc h

theorem dedup_append_right (tag : Tag) (g1 g2 : List GlyphPatches) (h : ¬ ∃ gp ∈ g1, tag ∈ gp.tables) :
    dedup tag (g1 ++ g2) = dedup tag g2 := by
  unfold dedup
  rw [dedupFrom_append, dedupFrom_skip tag g1 [] h]

/-! ## an arm reads only its own tables (+ head for glyf, + the charstrings offset in `IFT ` for CFF) -/

theorem armOf_congr_font (font font' : Font) (gps : List GlyphPatches) (m : Nat) (tag : Tag)
    (h : ∀ t, ownerOf t = some tag → font'.get t = font.get t)
    (hhead : font'.get TAG_head = font.get TAG_head)
    (hift : (tag = TAG_CFF ∨ tag = TAG_CFF2) →
      ∀ v2, iftCharstringsOffset (font'.get TAG_IFT) v2 = iftCharstringsOffset (font.get TAG_IFT) v2) :
    armOf font' gps m tag = armOf font gps m tag := by
  unfold armOf
  by_cases h1 : tag = TAG_glyf
  · subst h1
    simp only [if_true]
    unfold glyfArm
    rw [glyfAndLoca_congr font font' (h _ ((ownerOf_glyf_iff _).mpr (Or.inl rfl))) hhead
      (h _ ((ownerOf_glyf_iff _).mpr (Or.inr rfl)))]
  · rw [if_neg h1, if_neg h1]
    by_cases h2 : tag = TAG_gvar
    · subst h2
      simp only [if_true]
      rw [h _ ((ownerOf_single_iff _ _ (Or.inl rfl)).mpr rfl)]
    · rw [if_neg h2, if_neg h2]
      by_cases h3 : tag = TAG_CFF
      · subst h3
        simp only [if_true]
        rw [h _ ((ownerOf_single_iff _ _ (Or.inr (Or.inl rfl))).mpr rfl)]
        unfold cffPatch
        rw [hift (Or.inl rfl) false]
      · rw [if_neg h3, if_neg h3]
        by_cases h4 : tag = TAG_CFF2
        · subst h4
          simp only [if_true]
          rw [h _ ((ownerOf_single_iff _ _ (Or.inr (Or.inr rfl))).mpr rfl)]
          unfold cffPatch
          rw [hift (Or.inr rfl) true]
        · rw [if_neg h4, if_neg h4]

/-! ## the glyf arm in two steps -/

theorem glyfArm_two_step (font font1 : Font) (gps1 gps2 : List GlyphPatches) (m : Nat)
    (outs1 outs2 outs12 : List (Tag × Bytes)) (hagree : Agree TAG_glyf (gps1 ++ gps2))
    (h1 : glyfArm font gps1 m = .ok outs1)
    (hf1 : ∀ td ∈ outs1, font1.get td.1 = some td.2) (hhead : font1.get TAG_head = font.get TAG_head)
    (h2 : glyfArm font1 gps2 m = .ok outs2)
    (h12 : glyfArm font (gps1 ++ gps2) m = .ok outs12) : outs2 = outs12 := by
  obtain ⟨a, repl1, data1, offs1, ha, hd1, hp1, e1⟩ := glyfArm_ok font gps1 m outs1 h1
  obtain ⟨a2, repl2, data2, offs2, ha2, hd2, hp2, e2⟩ := glyfArm_ok font1 gps2 m outs2 h2
  obtain ⟨a12, repl12, data12, offs12, ha12, hd12, hp12, e12⟩ := glyfArm_ok font (gps1 ++ gps2) m outs12 h12
  rw [ha] at ha12; cases ha12
  subst e1 e2 e12
  have hg1' : font1.get TAG_glyf = some data1 := hf1 (TAG_glyf, data1) (by simp)
  have hl1' : font1.get TAG_loca = some offs1 := hf1 (TAG_loca, offs1) (by simp)
  obtain ⟨sr1, _, lk1⟩ := dedup_spec TAG_glyf gps1 repl1 hd1
  obtain ⟨sr2, _, lk2⟩ := dedup_spec TAG_glyf gps2 repl2 hd2
  obtain ⟨sr12, _, lk12⟩ := dedup_spec TAG_glyf (gps1 ++ gps2) repl12 hd12
  have hrb := glyf_splice_readback font font1 a repl1 m data1 offs1 ha sr1 hp1 hg1' hl1' hhead
  rw [hrb] at ha2; cases ha2
  have hA := glyfAndLoca_ascSound font a ha
  have hA2 := OffsetArray.rebase_ascSound a (chunks a a.offsetType repl1 m)
  obtain ⟨e2d, e2o⟩ := patchOffsetArray_eq _ repl2 _ hA2 sr2 _ data2 offs2 hp2
  have hrt : (a.rebase (chunks a a.offsetType repl1 m)).offsetType = a.offsetType := rfl
  rw [hrt] at e2d e2o
  obtain ⟨e12d, e12o⟩ := patchOffsetArray_eq a repl12 _ hA sr12 _ data12 offs12 hp12
  have hchunks : chunks (a.rebase (chunks a a.offsetType repl1 m)) a.offsetType repl2 m
      = chunks a a.offsetType repl12 m := by
    apply List.ext_getElem
    · rw [chunks_length, chunks_length]
    · intro g hga hgb
      rw [chunks_getElem, chunks_getElem]
      rw [chunks_length] at hga
      apply chunkFor_two_step a _ a.offsetType repl1 repl2 repl12 _ g hga rfl rfl
      · rw [lk12 g, lk1 g, lk2 g, firstWins_append]
      · intro d1 d2 hf1' hf2
        rw [lk1 g] at hf1'
        rw [lk2 g] at hf2
        have m1 : (g, d1) ∈ (gps1 ++ gps2).flatMap (patchData TAG_glyf) := by
          rw [List.flatMap_append]; exact List.mem_append_left _ (lookup_some_mem _ g d1 hf1')
        have m2 : (g, d2) ∈ (gps1 ++ gps2).flatMap (patchData TAG_glyf) := by
          rw [List.flatMap_append]; exact List.mem_append_right _ (lookup_some_mem _ g d2 hf2)
        exact agree_flat TAG_glyf _ hagree g d1 d2 m1 m2
  rw [e2d, e2o, e12d, e12o, hchunks]

/-! ## a successful arm never sees a gid beyond maxp -/

theorem arm_ok_gids_le (font : Font) (gps : List GlyphPatches) (m : Nat) (tag : Tag)
    (outs : List (Tag × Bytes)) (h : armOf font gps m tag = some (.ok outs)) :
    ∀ g d, firstWins tag gps g = some d → g ≤ m := by
  have key : ∀ (a : OffsetArray) (repl : List (Nat × Bytes)) (t : OffsetType) (data offs : Bytes),
      dedup tag gps = .ok repl → patchOffsetArray a repl m = .ok (t, data, offs) →
      ∀ g d, firstWins tag gps g = some d → g ≤ m := by
    intro a repl t data offs hd hp g d hfw
    obtain ⟨hsort, _, hlk⟩ := dedup_spec tag gps repl hd
    rw [← hlk g] at hfw
    exact patchOffsetArray_gids_le a repl m hsort t data offs hp _ (lookup_some_mem repl g d hfw)
  unfold armOf at h
  by_cases h1 : tag = TAG_glyf
  · subst h1
    simp only [if_true, Option.some.injEq] at h
    obtain ⟨a, repl, data, offs, _, hd, hp, _⟩ := glyfArm_ok font gps m outs h
    exact key a repl _ data offs hd hp
  · rw [if_neg h1] at h
    by_cases h2 : tag = TAG_gvar
    · subst h2
      simp only [if_true, Option.some.injEq] at h
      obtain ⟨o, po, _⟩ := oneTable_ok _ _ _ h
      cases hg : font.get TAG_gvar with
      | none => rw [hg] at po; simp [gvarPatch] at po
      | some b =>
        rw [hg] at po
        obtain ⟨v, repl, t, data, offs, _, hd, hp, _⟩ := gvarPatch_ok b gps m o po
        exact key _ repl t data offs hd hp
    · rw [if_neg h2] at h
      by_cases h3 : tag = TAG_CFF
      · subst h3
        simp only [if_true, Option.some.injEq] at h
        obtain ⟨o, po, _⟩ := oneTable_ok _ _ _ h
        cases hg : font.get TAG_CFF with
        | none => rw [hg] at po; obtain ⟨e, he⟩ := cffPatch_none false (font.get TAG_IFT) gps m; rw [he] at po; cases po
        | some b =>
          rw [hg] at po
          obtain ⟨_, ix, t0, repl, t, data, offs, _, _, hd, hp, _⟩ := cffPatch_ok false _ b gps m o po
          exact key _ repl t data offs hd hp
      · rw [if_neg h3] at h
        by_cases h4 : tag = TAG_CFF2
        · subst h4
          simp only [if_true, Option.some.injEq] at h
          obtain ⟨o, po, _⟩ := oneTable_ok _ _ _ h
          cases hg : font.get TAG_CFF2 with
          | none => rw [hg] at po; obtain ⟨e, he⟩ := cffPatch_none true (font.get TAG_IFT) gps m; rw [he] at po; cases po
          | some b =>
            rw [hg] at po
            obtain ⟨_, ix, t0, repl, t, data, offs, _, _, hd, hp, _⟩ := cffPatch_ok true _ b gps m o po
            exact key _ repl t data offs hd hp
        · rw [if_neg h4] at h; cases h

/-! ## relations between the tables of the two routes -/

/-- CFF / CFF2 tables of the two routes: identical, or identical up to the offSize of the charstrings
INDEX at `at_` (same prefix of length `at_`, same count, same decoded offsets, same object data) -/
def CffAgree (v2 : Bool) (at_ : Option Nat) (x y : Option Bytes) : Prop :=
  x = y ∨ ∃ a pre count os data t t', at_ = some a ∧ pre.length = a ∧ IsCffType t ∧ IsCffType t' ∧
    x = some (cffEmit v2 pre count t (encodeOffs t os) data) ∧
    y = some (cffEmit v2 pre count t' (encodeOffs t' os) data)

/-- the offSize byte of the charstrings INDEX of a CFF / CFF2 table -/
def cffOffSizeAt (v2 : Bool) (at_ : Option Nat) (x : Option Bytes) : Nat :=
  match at_, x with
  | some a, some b => (b.drop (a + cffCountWidth v2)).headD 0
  | _, _ => 0

theorem CffAgree.eq_of_offSize (v2 : Bool) (at_ : Option Nat) (x y : Option Bytes) (h : CffAgree v2 at_ x y)
    (hw : cffOffSizeAt v2 at_ x = cffOffSizeAt v2 at_ y) : x = y := by
  rcases h with e | ⟨a, pre, count, os, data, t, t', ea, hl, ht, ht', ex, ey⟩
  · exact e
  · subst ea ex ey hl
    simp only [cffOffSizeAt, cffEmit_offSize] at hw
    have := IsCffType.eq_of_width ht ht' hw
    subst this
    rfl

/-- the gvar tables of the intermediate font and of the two results carry the same long-offsets flag -/
def GvarWidthsAgree (font1 out2 out12 : Font) : Prop :=
  ∀ x1 x2 x12, font1.get TAG_gvar = some x1 → out2.get TAG_gvar = some x2 → out12.get TAG_gvar = some x12 →
    gvarLongBit x1 = gvarLongBit x12 ∧ gvarLongBit x2 = gvarLongBit x12

/-! ## the arms in two steps, in terms of `armOf` -/

theorem oneTable_inv (tag : Tag) (r : Except PErr Bytes) (outs : List (Tag × Bytes))
    (h : oneTable tag r = .ok outs) : ∃ b, r = .ok b ∧ outs = [(tag, b)] := oneTable_ok tag r outs h

theorem gvarPatch_some (g : Option Bytes) (gps : List GlyphPatches) (m : Nat) (out : Bytes)
    (h : gvarPatch g gps m = .ok out) : ∃ b, g = some b := by
  cases g with
  | none => simp [gvarPatch] at h
  | some b => exact ⟨b, rfl⟩

theorem cffPatch_some (v2 : Bool) (ift g : Option Bytes) (gps : List GlyphPatches) (m : Nat) (out : Bytes)
    (h : cffPatch v2 ift g gps m = .ok out) : ∃ b, g = some b := by
  cases g with
  | none => obtain ⟨e, he⟩ := cffPatch_none v2 ift gps m; rw [he] at h; cases h
  | some b => exact ⟨b, rfl⟩

/-- hypotheses on the base font under which the two-step lemmas of the width-changing arms apply -/
structure BaseOk (font : Font) : Prop where
  /-- `maxp.numGlyphs` is a u16 -/
  numGlyphs_lt : numGlyphs font < 65536
  /-- gvar's glyph count is maxp's (a font where they differ is patched, but not read back here) -/
  gvar_count : ∀ b v, font.get TAG_gvar = some b → gvarRead b = some v → v.glyphCount = numGlyphs font
  /-- the charstrings INDEX of CFF / CFF2 at the offset recorded in `IFT ` has ascending offsets, the
  last one included (the code's own check skips the last one) -/
  cff_ascending : ∀ v2 b at_ ix t0, font.get (cffTag v2) = some b →
    iftCharstringsOffset (font.get TAG_IFT) v2 = some at_ →
    cffView v2 b at_ (numGlyphs font - 1) = .ok (ix, t0) → ascending (cffOffsets ix) = true

/-- what the table `t` of the two routes have to do with each other -/
def TableAgree (font font1 out2 out12 : Font) (t : Tag) : Prop :=
  if t = TAG_gvar then GvarWidthsAgree font1 out2 out12 → out2.get t = out12.get t
  else if t = TAG_CFF then
    CffAgree false (iftCharstringsOffset (font.get TAG_IFT) false) (out2.get t) (out12.get t)
  else if t = TAG_CFF2 then
    CffAgree true (iftCharstringsOffset (font.get TAG_IFT) true) (out2.get t) (out12.get t)
  else out2.get t = out12.get t

theorem TableAgree.of_eq (font font1 out2 out12 : Font) (t : Tag) (h : out2.get t = out12.get t) :
    TableAgree font font1 out2 out12 t := by
  unfold TableAgree
  split
  · intro _; exact h
  · split
    · exact Or.inl h
    · split
      · exact Or.inl h
      · exact h

/-- **grouping independence, table by table.**  `ps1` applied to `font` gives `font1`, `ps2` applied to
`font1` gives `out2`, `ps1 ++ ps2` applied to `font` gives `out12`; the patches agree on shared gids.
Then for every tag: the tables of `out2` and `out12` are identical, except that
  * the gvar tables are identical provided the intermediate and the two final gvar tables carry the same
    long-offsets flag,
  * the CFF / CFF2 tables are identical up to the offSize of the charstrings INDEX
(known finding C18-offset-width-history-dependent: the offset width is only ever widened). -/
theorem applyGlyphPatches_split_core (ps1 ps2 : List (PatchInfo × GlyphPatches)) (font font1 out2 out12 : Font)
    (hu : UniqueTags font)
    (hagree : ∀ tag, IsArmTag tag → (∃ gp ∈ (ps1 ++ ps2).map (·.2), tag ∈ gp.tables) →
      Agree tag ((ps1 ++ ps2).map (·.2)))
    (h1 : applyGlyphPatches (ps1.map (·.1)) (ps1.map (·.2)) font = .ok font1)
    (h2 : applyGlyphPatches (ps2.map (·.1)) (ps2.map (·.2)) font1 = .ok out2)
    (h12 : applyGlyphPatches ((ps1 ++ ps2).map (·.1)) ((ps1 ++ ps2).map (·.2)) font = .ok out12)
    (hG : ∀ tag, (tag = TAG_gvar ∨ tag = TAG_CFF ∨ tag = TAG_CFF2) →
      (∃ gp ∈ (ps1 ++ ps2).map (·.2), tag ∈ gp.tables) →
      BaseOk font ∧
      (∀ v2, iftCharstringsOffset (font1.get TAG_IFT) v2 = iftCharstringsOffset (font.get TAG_IFT) v2) ∧
      (∀ b, font1.get TAG_gvar = some b → b.length < 2 ^ 32)) :
    SortedGids out2 ∧ SortedGids out12 ∧ ∀ t, TableAgree font font1 out2 out12 t := by
  rw [List.map_append, List.map_append] at h12
  rw [List.map_append] at hagree hG
  generalize hg1 : ps1.map (·.2) = gps1 at h1 h12 hagree hG
  generalize hg2 : ps2.map (·.2) = gps2 at h2 h12 hagree hG
  generalize hi1 : ps1.map (·.1) = infos1 at h1 h12
  generalize hi2 : ps2.map (·.1) = infos2 at h2 h12
  obtain ⟨tags1, ift1, iftx1, hn1, ht1, hma1, hs1, hI1, hX1, harm1, hout1⟩ :=
    applyGlyphPatches_char infos1 gps1 font font1 hu h1
  have hu1 : UniqueTags font1 := sorted_unique font1 hs1
  obtain ⟨tags2, ift2, iftx2, hn2, ht2, hma2, hs2, hI2, hX2, harm2, hout2⟩ :=
    applyGlyphPatches_char infos2 gps2 font1 out2 hu1 h2
  obtain ⟨tags12, ift12, iftx12, hn12, ht12, hma12, hs12, hI12, hX12, harm12, hout12⟩ :=
    applyGlyphPatches_char (infos1 ++ infos2) (gps1 ++ gps2) font out12 hu h12
  have hm1 := (tableTagList_ok gps1 tags1 ht1).2
  have hm2 := (tableTagList_ok gps2 tags2 ht2).2
  have hm12 := (tableTagList_ok (gps1 ++ gps2) tags12 ht12).2
  -- tables no arm owns are copied through both steps
  have hcopy1 : ∀ t, t ≠ TAG_IFT → t ≠ TAG_IFTX → ownerOf t = none → font1.get t = font.get t := by
    intro t a b c; rw [hout1 t a b, c]
  have hng : numGlyphs font1 = numGlyphs font :=
    numGlyphs_congr font font1 (hcopy1 TAG_maxp (by decide) (by decide) (by decide))
  have hhead1 : font1.get TAG_head = font.get TAG_head := hcopy1 TAG_head (by decide) (by decide) (by decide)
  rw [hng] at harm2 hout2
  generalize hmm : numGlyphs font - 1 = m at *
  -- applied bits
  have hbits : ift2 = ift12 ∧ iftx2 = iftx12 := by
    rw [markApplied_append, hma1] at hma12
    simp only [exBind] at hma12
    rw [hI1, hX1] at hma2
    rw [hma2] at hma12
    simp only [Except.ok.injEq, Prod.mk.injEq] at hma12
    exact hma12
  refine ⟨hs2, hs12, ?_⟩
  intro t
  by_cases e1 : t = TAG_IFT
  · subst e1; exact TableAgree.of_eq _ _ _ _ _ (by rw [hI2, hI12, hbits.1])
  by_cases e2 : t = TAG_IFTX
  · subst e2; exact TableAgree.of_eq _ _ _ _ _ (by rw [hX2, hX12, hbits.2])
  cases ho : ownerOf t with
  | none =>
    apply TableAgree.of_eq
    rw [hout2 t e1 e2, hout12 t e1 e2, ho]
    exact hcopy1 t e1 e2 ho
  | some tag =>
    have harmtag : IsArmTag tag := ownerOf_some t tag ho
    have hna : ∀ font' gps', armOf font' gps' m tag ≠ none :=
      fun font' gps' hh => ((armOf_none_iff font' gps' m tag).mp hh) harmtag
    have mem12 : tag ∈ tags12 ↔ (tag ∈ tags1 ∨ tag ∈ tags2) := by
      rw [hm12 tag, hm1 tag, hm2 tag]
      constructor
      · rintro ⟨gp, hgp, hx⟩
        rcases List.mem_append.mp hgp with e | e
        · exact Or.inl ⟨gp, e, hx⟩
        · exact Or.inr ⟨gp, e, hx⟩
      · rintro (⟨gp, e, hx⟩ | ⟨gp, e, hx⟩)
        · exact ⟨gp, List.mem_append_left _ e, hx⟩
        · exact ⟨gp, List.mem_append_right _ e, hx⟩
    have named : tag ∈ tags12 → ∃ gp ∈ gps1 ++ gps2, tag ∈ gp.tables := fun hh => (hm12 tag).mp hh
    by_cases c1 : tag ∈ tags1
    · have c12 : tag ∈ tags12 := mem12.mpr (Or.inl c1)
      -- the first step's arm
      cases ha1 : armOf font gps1 m tag with
      | none => exact absurd ha1 (hna _ _)
      | some r1 =>
        obtain ⟨outs1, hr1, hin1⟩ := char_arm font font1 gps1 tags1 (by rw [hmm]; exact harm1)
          (by rw [hmm]; exact hout1) tag c1 r1 (by rw [hmm] at *; exact ha1)
        subst hr1
        by_cases c2 : tag ∈ tags2
        · -- both groups run the arm
          cases ha2 : armOf font1 gps2 m tag with
          | none => exact absurd ha2 (hna _ _)
          | some r2 =>
            obtain ⟨outs2, hr2⟩ := harm2 tag c2 r2 ha2
            subst hr2
            cases ha12 : armOf font (gps1 ++ gps2) m tag with
            | none => exact absurd ha12 (hna _ _)
            | some r12 =>
              obtain ⟨outs12, hr12⟩ := harm12 tag c12 r12 ha12
              subst hr12
              have hao2 : armOuts font1 gps2 m tag = outs2 := by simp [armOuts, ha2]
              have hao12 : armOuts font (gps1 ++ gps2) m tag = outs12 := by simp [armOuts, ha12]
              unfold TableAgree
              simp only [hout2 t e1 e2, hout12 t e1 e2, ho, c2, c12, if_true, hao2, hao12]
              -- which arm?
              rcases harmtag with eg | eg | eg | eg
              · -- glyf
                subst eg
                unfold armOf at ha1 ha2 ha12
                simp only [if_true, Option.some.injEq] at ha1 ha2 ha12
                have := glyfArm_two_step font font1 gps1 gps2 m outs1 outs2 outs12
                  (hagree TAG_glyf (Or.inl rfl) (named c12)) ha1 hin1 hhead1 ha2 ha12
                subst this
                have tne : t ≠ TAG_gvar ∧ t ≠ TAG_CFF ∧ t ≠ TAG_CFF2 := by
                  rcases (ownerOf_glyf_iff t).mp ho with e | e <;> subst e <;> decide
                simp only [tne.1, tne.2.1, tne.2.2, if_false]
              · -- gvar
                subst eg
                have tg : t = TAG_gvar := (ownerOf_single_iff t _ (Or.inl rfl)).mp ho
                subst tg
                simp only [if_true]
                intro hwid
                unfold armOf at ha1 ha2 ha12
                simp only [show TAG_gvar ≠ TAG_glyf by decide, if_false, if_true, Option.some.injEq] at ha1 ha2 ha12
                obtain ⟨o1, p1, q1⟩ := oneTable_inv _ _ _ ha1
                obtain ⟨o2, p2, q2⟩ := oneTable_inv _ _ _ ha2
                obtain ⟨o12, p12, q12⟩ := oneTable_inv _ _ _ ha12
                subst q1 q2 q12
                obtain ⟨b, hb⟩ := gvarPatch_some _ _ _ _ p1
                have hf1g : font1.get TAG_gvar = some o1 := hin1 (TAG_gvar, o1) (by simp)
                rw [hb] at p1 p12
                rw [hf1g] at p2
                have hw := hwid o1 o2 o12 hf1g
                  (by rw [hout2 _ e1 e2, ho]; simp [c2, hao2, List.lookup])
                  (by rw [hout12 _ e1 e2, ho]; simp [c12, hao12, List.lookup])
                obtain ⟨hbase, hift, hsz⟩ := hG TAG_gvar (Or.inl rfl) (named c12)
                have := gvarPatch_two_step b gps1 gps2 m o1 o2 o12
                  (fun v hv => by
                    have := hbase.gvar_count b v hb hv
                    have hz := hbase.numGlyphs_lt
                    omega)
                  (hsz o1 hf1g) (hagree TAG_gvar (Or.inr (Or.inl rfl)) (named c12)) p1 p2 p12 hw.1 hw.2
                subst this
                rfl
              · -- CFF
                subst eg
                have tg : t = TAG_CFF := (ownerOf_single_iff t _ (Or.inr (Or.inl rfl))).mp ho
                subst tg
                simp only [show TAG_CFF ≠ TAG_gvar by decide, if_false, if_true]
                unfold armOf at ha1 ha2 ha12
                simp only [show TAG_CFF ≠ TAG_glyf by decide, show TAG_CFF ≠ TAG_gvar by decide, if_false,
                  if_true, Option.some.injEq] at ha1 ha2 ha12
                obtain ⟨o1, p1, q1⟩ := oneTable_inv _ _ _ ha1
                obtain ⟨o2, p2, q2⟩ := oneTable_inv _ _ _ ha2
                obtain ⟨o12, p12, q12⟩ := oneTable_inv _ _ _ ha12
                subst q1 q2 q12
                obtain ⟨b, hb⟩ := cffPatch_some _ _ _ _ _ _ p1
                have hf1g : font1.get TAG_CFF = some o1 := hin1 (TAG_CFF, o1) (by simp)
                rw [hb] at p1 p12
                rw [hf1g] at p2
                obtain ⟨hbase, hift, hsz⟩ := hG TAG_CFF (Or.inr (Or.inl rfl)) (named c12)
                have p2' : cffPatch false (font.get TAG_IFT) (some o1) gps2 m = .ok o2 := by
                  unfold cffPatch at p2 ⊢
                  rw [← hift false]; exact p2
                obtain ⟨at_, os, data, t2, t12, r1, r2, r3, r4, r5, r6, _, _⟩ :=
                  cffPatch_two_step false (font.get TAG_IFT) b gps1 gps2 m o1 o2 o12
                    (by have := hbase.numGlyphs_lt; omega)
                    (fun a ix t0 hx hy => hbase.cff_ascending false b a ix t0 hb hx (by rw [hmm]; exact hy))
                    (hagree TAG_CFF (Or.inr (Or.inr (Or.inl rfl))) (named c12)) p1 p2' p12
                refine Or.inr ⟨at_, b.take at_, m + 1, os, data, t2, t12, r1, by simp; omega, r3, r4, ?_, ?_⟩
                · simp [List.lookup, r5]
                · simp [List.lookup, r6]
              · -- CFF2
                subst eg
                have tg : t = TAG_CFF2 := (ownerOf_single_iff t _ (Or.inr (Or.inr rfl))).mp ho
                subst tg
                simp only [show TAG_CFF2 ≠ TAG_gvar by decide, show TAG_CFF2 ≠ TAG_CFF by decide, if_false, if_true]
                unfold armOf at ha1 ha2 ha12
                simp only [show TAG_CFF2 ≠ TAG_glyf by decide, show TAG_CFF2 ≠ TAG_gvar by decide,
                  show TAG_CFF2 ≠ TAG_CFF by decide, if_false, if_true, Option.some.injEq] at ha1 ha2 ha12
                obtain ⟨o1, p1, q1⟩ := oneTable_inv _ _ _ ha1
                obtain ⟨o2, p2, q2⟩ := oneTable_inv _ _ _ ha2
                obtain ⟨o12, p12, q12⟩ := oneTable_inv _ _ _ ha12
                subst q1 q2 q12
                obtain ⟨b, hb⟩ := cffPatch_some _ _ _ _ _ _ p1
                have hf1g : font1.get TAG_CFF2 = some o1 := hin1 (TAG_CFF2, o1) (by simp)
                rw [hb] at p1 p12
                rw [hf1g] at p2
                obtain ⟨hbase, hift, hsz⟩ := hG TAG_CFF2 (Or.inr (Or.inr rfl)) (named c12)
                have p2' : cffPatch true (font.get TAG_IFT) (some o1) gps2 m = .ok o2 := by
                  unfold cffPatch at p2 ⊢
                  rw [← hift true]; exact p2
                obtain ⟨at_, os, data, t2, t12, r1, r2, r3, r4, r5, r6, _, _⟩ :=
                  cffPatch_two_step true (font.get TAG_IFT) b gps1 gps2 m o1 o2 o12
                    (by have := hbase.numGlyphs_lt; omega)
                    (fun a ix t0 hx hy => hbase.cff_ascending true b a ix t0 hb hx (by rw [hmm]; exact hy))
                    (hagree TAG_CFF2 (Or.inr (Or.inr (Or.inr rfl))) (named c12)) p1 p2' p12
                refine Or.inr ⟨at_, b.take at_, m + 1, os, data, t2, t12, r1, by simp; omega, r3, r4, ?_, ?_⟩
                · simp [List.lookup, r5]
                · simp [List.lookup, r6]
        · -- only the first group runs the arm: the second copies its tables
          apply TableAgree.of_eq
          rw [hout2 t e1 e2, hout12 t e1 e2, ho]
          simp only [c2, c12, if_false, if_true]
          have hno2 : ¬ ∃ gp ∈ gps2, tag ∈ gp.tables := fun hx => c2 ((hm2 tag).mpr hx)
          have hcong : armOf font (gps1 ++ gps2) m tag = armOf font gps1 m tag :=
            armOf_congr_dedup font _ _ m tag (dedup_append_left tag gps1 gps2 hno2)
          have hao : armOuts font (gps1 ++ gps2) m tag = outs1 := by simp [armOuts, hcong, ha1]
          rw [hao]
          -- font1 carries the arm's tables
          have hl : (outs1.lookup t).isSome := (addOuts_spec font gps1 m tag outs1 ha1 [] []).2.2 t ho
          obtain ⟨d, hd⟩ := Option.isSome_iff_exists.mp hl
          rw [hd]
          have hmem : (t, d) ∈ outs1 := lookup_some_mem outs1 t d hd
          exact hin1 (t, d) hmem
    · -- the first group does not run the arm: font1 still has the base tables
      have hsame : ∀ x, ownerOf x = some tag → font1.get x = font.get x := by
        intro x hx
        have x1 : x ≠ TAG_IFT := by intro e; subst e; rw [show ownerOf TAG_IFT = none by decide] at hx; cases hx
        have x2 : x ≠ TAG_IFTX := by intro e; subst e; rw [show ownerOf TAG_IFTX = none by decide] at hx; cases hx
        rw [hout1 x x1 x2, hx]
        simp only [hmm, c1, if_false]
      have hno1 : ¬ ∃ gp ∈ gps1, tag ∈ gp.tables := fun hx => c1 ((hm1 tag).mpr hx)
      apply TableAgree.of_eq
      rw [hout2 t e1 e2, hout12 t e1 e2, ho]
      by_cases c2 : tag ∈ tags2
      · have c12 : tag ∈ tags12 := mem12.mpr (Or.inr c2)
        simp only [c2, c12, if_true]
        have hcong : armOf font1 gps2 m tag = armOf font (gps1 ++ gps2) m tag := by
          rw [armOf_congr_font font font1 gps2 m tag hsame hhead1
            (fun hc => (hG tag (by rcases hc with e | e <;> simp [e]) (named c12)).2.1)]
          exact (armOf_congr_dedup font _ _ m tag (dedup_append_right tag gps1 gps2 hno1)).symm
        simp only [armOuts, hcong]
      · have c12 : tag ∉ tags12 := fun hh => by
          rcases mem12.mp hh with e | e
          · exact c1 e
          · exact c2 e
        simp only [c2, c12, if_false]
        exact hsame t ho

theorem applyGlyphPatches_split (ps1 ps2 : List (PatchInfo × GlyphPatches)) (font font1 out2 out12 : Font)
    (hu : UniqueTags font) (hagree : AgreeAll ((ps1 ++ ps2).map (·.2)))
    (h1 : applyGlyphPatches (ps1.map (·.1)) (ps1.map (·.2)) font = .ok font1)
    (h2 : applyGlyphPatches (ps2.map (·.1)) (ps2.map (·.2)) font1 = .ok out2)
    (h12 : applyGlyphPatches ((ps1 ++ ps2).map (·.1)) ((ps1 ++ ps2).map (·.2)) font = .ok out12)
    (hbase : BaseOk font)
    (hift : ∀ v2, iftCharstringsOffset (font1.get TAG_IFT) v2 = iftCharstringsOffset (font.get TAG_IFT) v2)
    (hsz : ∀ b, font1.get TAG_gvar = some b → b.length < 2 ^ 32) :
    SortedGids out2 ∧ SortedGids out12 ∧ ∀ t, TableAgree font font1 out2 out12 t :=
  applyGlyphPatches_split_core ps1 ps2 font font1 out2 out12 hu (fun tag ha _ => hagree tag ha) h1 h2 h12
    (fun _ _ _ => ⟨hbase, hift, hsz⟩)

/-- patches naming neither gvar nor CFF nor CFF2: the two routes give the same font -/
theorem applyGlyphPatches_split_glyf (ps1 ps2 : List (PatchInfo × GlyphPatches)) (font font1 out2 out12 : Font)
    (hu : UniqueTags font) (hagree : Agree TAG_glyf ((ps1 ++ ps2).map (·.2)))
    (hnone : ∀ x ∈ ps1 ++ ps2, TAG_gvar ∉ x.2.tables ∧ TAG_CFF ∉ x.2.tables ∧ TAG_CFF2 ∉ x.2.tables)
    (h1 : applyGlyphPatches (ps1.map (·.1)) (ps1.map (·.2)) font = .ok font1)
    (h2 : applyGlyphPatches (ps2.map (·.1)) (ps2.map (·.2)) font1 = .ok out2)
    (h12 : applyGlyphPatches ((ps1 ++ ps2).map (·.1)) ((ps1 ++ ps2).map (·.2)) font = .ok out12) :
    out2 = out12 := by
  have hno : ∀ tag, (tag = TAG_gvar ∨ tag = TAG_CFF ∨ tag = TAG_CFF2) →
      ¬ ∃ gp ∈ (ps1 ++ ps2).map (·.2), tag ∈ gp.tables := by
    rintro tag ht ⟨gp, hgp, hx⟩
    obtain ⟨x, hxm, hxe⟩ := List.mem_map.mp hgp
    subst hxe
    obtain ⟨a, b, c⟩ := hnone x hxm
    rcases ht with e | e | e <;> subst e
    · exact a hx
    · exact b hx
    · exact c hx
  obtain ⟨s2, s12, hall⟩ := applyGlyphPatches_split_core ps1 ps2 font font1 out2 out12 hu
    (fun tag ha hn => by
      rcases ha with e | e | e | e
      · subst e; exact hagree
      · exact absurd hn (hno tag (Or.inl e))
      · exact absurd hn (hno tag (Or.inr (Or.inl e)))
      · exact absurd hn (hno tag (Or.inr (Or.inr e))))
    h1 h2 h12 (fun tag ht hn => absurd hn (hno tag ht))
  apply sorted_lookup_ext _ _ s2 s12
  intro t
  show out2.get t = out12.get t
  -- gvar / CFF / CFF2 are named by nobody: copied through every application
  have copied : ∀ t, (t = TAG_gvar ∨ t = TAG_CFF ∨ t = TAG_CFF2) → out2.get t = out12.get t := by
    intro t ht
    have t1 : t ≠ TAG_IFT := by rcases ht with e | e | e <;> subst e <;> decide
    have t2 : t ≠ TAG_IFTX := by rcases ht with e | e | e <;> subst e <;> decide
    have hown : ownerOf t = some t := by rcases ht with e | e | e <;> subst e <;> decide
    obtain ⟨tags1, _, _, _, ht1, _, _, _, _, _, ho1⟩ := applyGlyphPatches_char _ _ font font1 hu h1
    obtain ⟨tags2, _, _, _, ht2, _, hs1', _, _, _, ho2⟩ :=
      applyGlyphPatches_char _ _ font1 out2 (sorted_unique font1 (by
        obtain ⟨_, _, _, _, _, _, hs, _⟩ := applyGlyphPatches_char _ _ font font1 hu h1; exact hs)) h2
    obtain ⟨tags12, _, _, _, ht12, _, _, _, _, _, ho12⟩ := applyGlyphPatches_char _ _ font out12 hu h12
    have n1 : t ∉ tags1 := fun hm => by
      obtain ⟨gp, hgp, hx⟩ := ((tableTagList_ok _ _ ht1).2 t).mp hm
      exact hno t ht ⟨gp, by rw [List.map_append]; exact List.mem_append_left _ hgp, hx⟩
    have n2 : t ∉ tags2 := fun hm => by
      obtain ⟨gp, hgp, hx⟩ := ((tableTagList_ok _ _ ht2).2 t).mp hm
      exact hno t ht ⟨gp, by rw [List.map_append]; exact List.mem_append_right _ hgp, hx⟩
    have n12 : t ∉ tags12 := fun hm => by
      obtain ⟨gp, hgp, hx⟩ := ((tableTagList_ok _ _ ht12).2 t).mp hm
      exact hno t ht ⟨gp, hgp, hx⟩
    rw [ho2 t t1 t2, ho12 t t1 t2, hown]
    simp only [n2, n12, if_false]
    rw [ho1 t t1 t2, hown]
    simp only [n1, if_false]
  have := hall t
  unfold TableAgree at this
  by_cases c1 : t = TAG_gvar
  · exact copied t (Or.inl c1)
  · rw [if_neg c1] at this
    by_cases c2 : t = TAG_CFF
    · exact copied t (Or.inr (Or.inl c2))
    · rw [if_neg c2] at this
      by_cases c3 : t = TAG_CFF2
      · exact copied t (Or.inr (Or.inr c3))
      · rw [if_neg c3] at this; exact this

end FontVerif.Ift
