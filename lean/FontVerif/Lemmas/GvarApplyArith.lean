/-
Arithmetic lemmas for the application of glyph variation deltas in 16.16 (Model/GvarApply.lean,
Model/Iup.lean `fx*`): integer × 16.16 products are exact, `Fixed` division rounds to nearest, and
the error of one `Jiggler::interpolate` step.
-/
import FontVerif.Model.GvarApply
import FontVerif.Lemmas.TentLemmas
import Mathlib.Tactic.Ring
import Mathlib.Tactic.Linarith
set_option linter.unusedVariables false
namespace FontVerif.GvarApply
open FontVerif

theorem wrapI32_of_in {x : Int} (h1 : -2147483648 ≤ x) (h2 : x < 2147483648) : wrapI32 x = x := by
  unfold wrapI32; simp only []; split <;> omega

theorem wrapI32_add_wrap (a b : Int) : wrapI32 (a + wrapI32 b) = wrapI32 (a + b) := by
  unfold wrapI32; simp only []; split <;> split <;> split <;> omega

theorem fxMul_eq (a b : Int) : Iup.fxMul a b = Fixed.mul a b := rfl
theorem fxFromI32_eq (a : Int) : Iup.fxFromI32 a = Fixed.fromI32 a := rfl

/-- `(m << 16) * s` in `Fixed` is the integer product `m * s` (mod 2^32): no rounding -/
theorem fxMul_shifted (m s : Int) : Fixed.mul (m * 65536) s = wrapI32 (m * s) := by
  unfold Fixed.mul
  simp only []
  have e : m * 65536 * s = (m * s) * 65536 := by ring
  rw [e]
  generalize m * s = q
  congr 1
  split <;> omega

/-- `Fixed::from_i32(d) * s = d * s` exactly, for an i16 `d` and a product that fits -/
theorem fxMul_int_exact (d s : Int) (hd : -32768 ≤ d ∧ d ≤ 32767)
    (hp : -2147483648 ≤ d * s ∧ d * s < 2147483648) :
    Fixed.mul (Fixed.fromI32 d) s = d * s := by
  have : Fixed.fromI32 d = d * 65536 := by
    unfold Fixed.fromI32; exact wrapI32_of_in (by omega) (by omega)
  rw [this, fxMul_shifted, wrapI32_of_in hp.1 hp.2]

/-- `fxScaled`: the value added for one delta is `d * s` in both branches (`s = ONE` shortcut) -/
theorem fxScaled_exact (s d : Int) (hd : -32768 ≤ d ∧ d ≤ 32767)
    (hp : -2147483648 ≤ d * s ∧ d * s < 2147483648) : fxScaled s d = d * s := by
  unfold fxScaled
  split
  · rename_i h; subst h
    unfold Fixed.fromI32; rw [wrapI32_of_in (by omega) (by omega)]
  · exact fxMul_int_exact d s hd hp

/-- `Fixed` division by a positive whole number `D` (as 16.16: `D << 16`) rounds `N / D` to the
nearest integer, ties away from zero: `|2 * q * D - 2 * N| ≤ D` -/
theorem fxDiv_whole (N D : Int) (hN : -2147483647 ≤ N ∧ N ≤ 2147483647) (hD : 0 < D ∧ D ≤ 32767) :
    ∃ q, Iup.fxDiv N (D * 65536) = q ∧ 2 * q * D - 2 * N ≤ D ∧ 2 * N - 2 * q * D ≤ D ∧
      -2147483647 ≤ q ∧ q ≤ 2147483647 := by
  unfold Iup.fxDiv iabs
  simp only []
  have hb0 : ¬ (D * 65536 < 0) := by omega
  have hbz : ¬ ((D * 65536) = 0) := by omega
  simp only [hb0, if_false, hbz]
  -- magnitude quotient
  have key : ∀ (u : Int), 0 ≤ u → u ≤ 2147483647 →
      ∃ q, (u * 65536 + D * 65536 / 2) / (D * 65536) = q ∧ 0 ≤ q ∧ q ≤ u ∧
        2 * q * D - 2 * u ≤ D ∧ 2 * u - 2 * q * D < D + 1 := by
    intro u hu0 hu1
    have e1 : D * 65536 / 2 = D * 32768 := by omega
    rw [e1]
    have e2 : (u * 65536 + D * 32768) / (D * 65536) = (2 * u + D) / (2 * D) := by
      have : u * 65536 + D * 32768 = (2 * u + D) * 32768 := by ring
      have h2 : D * 65536 = (2 * D) * 32768 := by ring
      rw [this, h2, Int.mul_ediv_mul_of_pos_left _ _ (by omega : (0 : Int) < 32768)]
    rw [e2]
    refine ⟨(2 * u + D) / (2 * D), rfl, ?_, ?_, ?_, ?_⟩
    · exact Int.ediv_nonneg (by omega) (by omega)
    · have : 2 * u + D < (u + 1) * (2 * D) := by nlinarith
      have := Int.ediv_lt_of_lt_mul (by omega : (0:Int) < 2 * D) this
      omega
    · have := Int.ediv_mul_le (2 * u + D) (by omega : (2 * D) ≠ 0)
      nlinarith
    · have := Int.lt_ediv_add_one_mul_self (2 * u + D) (by omega : (0:Int) < 2 * D)
      nlinarith
  by_cases hneg : N < 0
  · obtain ⟨q, e, q0, q1, q2, q3⟩ := key (-N) (by omega) (by omega)
    simp only [hneg, if_true]
    rw [e]
    have w1 : wrapU32 q = q := by unfold wrapU32; omega
    have w2 : wrapI32 q = q := wrapI32_of_in (by omega) (by omega)
    have hne : (decide True != decide False) = true := by decide
    simp only [decide_true, decide_false, bne_iff_ne, ne_eq, Bool.true_eq_false, not_false_eq_true,
      if_true, w1, w2]
    refine ⟨wrapI32 (-q), rfl, ?_⟩
    rw [wrapI32_of_in (by omega) (by omega)]
    refine ⟨by nlinarith, by nlinarith, by omega, by omega⟩
  · obtain ⟨q, e, q0, q1, q2, q3⟩ := key N (by omega) (by omega)
    simp only [hneg, if_false]
    rw [e]
    have w1 : wrapU32 q = q := by unfold wrapU32; omega
    have w2 : wrapI32 q = q := wrapI32_of_in (by omega) (by omega)
    simp only [decide_false, bne_self_eq_false, Bool.false_eq_true, if_false, w1, w2]
    exact ⟨q, rfl, by nlinarith, by nlinarith, by omega, by omega⟩

/-! ### one axis of `Jiggler::interpolate` in 16.16 against exact interpolation -/

theorem fxInterpAxis_swap (p1 o1 p2 o2 c old : Int) (h : p1 > p2) :
    Iup.fxInterpAxis p1 o1 p2 o2 c old = Iup.fxInterpAxis p2 o2 p1 o1 c old := by
  have h' : ¬ (p2 > p1) := by omega
  simp [Iup.fxInterpAxis, h, h']

theorem readerAxis_swap (p1 e1 p2 e2 c : Int) (h : p1 > p2) :
    Iup.readerAxis p1 e1 p2 e2 c = Iup.readerAxis p2 e2 p1 e1 c := by
  have h' : ¬ (p2 > p1) := by omega
  simp [Iup.readerAxis, h, h']

/-- how far the point lies inside the reference interval (0 when it is not strictly inside) -/
def interpDist (p1 p2 c : Int) : Int :=
  if min p1 p2 < c ∧ c < max p1 p2 then c - min p1 p2 else 0

theorem interpDist_comm (p1 p2 c : Int) : interpDist p1 p2 c = interpDist p2 p1 c := by
  unfold interpDist; rw [Int.min_comm, Int.max_comm]

theorem between_core (i1 D m f1 f2 q : Int) (hm0 : 0 < m)
    (hq1 : 2 * q * D - 2 * (D * 65536 + (f2 - f1)) ≤ D)
    (hq2 : 2 * (D * 65536 + (f2 - f1)) - 2 * q * D ≤ D) :
    2 * (D * ((i1 * 65536 + f1 + m * q) - (i1 + m) * 65536) -
      (((i1 + f1) - (i1 + m)) * D + ((i1 + m) - i1) * ((i1 + D + f2) - (i1 + f1)))) ≤ D * m ∧
    2 * ((((i1 + f1) - (i1 + m)) * D + ((i1 + m) - i1) * ((i1 + D + f2) - (i1 + f1))) -
      D * ((i1 * 65536 + f1 + m * q) - (i1 + m) * 65536)) ≤ D * m := by
  have e : D * ((i1 * 65536 + f1 + m * q) - (i1 + m) * 65536) -
      (((i1 + f1) - (i1 + m)) * D + ((i1 + m) - i1) * ((i1 + D + f2) - (i1 + f1)))
      = m * (q * D - (D * 65536 + (f2 - f1))) := by ring
  constructor
  · rw [e]; nlinarith
  · have e' : (((i1 + f1) - (i1 + m)) * D + ((i1 + m) - i1) * ((i1 + D + f2) - (i1 + f1))) -
        D * ((i1 * 65536 + f1 + m * q) - (i1 + m) * 65536)
        = m * ((D * 65536 + (f2 - f1)) - q * D) := by ring
    rw [e']; nlinarith

theorem interpDist_of_le (p1 p2 c : Int) (hle : p1 ≤ p2) :
    interpDist p1 p2 c = if p1 < c ∧ c < p2 then c - p1 else 0 := by
  unfold interpDist
  rw [Int.min_eq_left hle, Int.max_eq_right hle]

/-- bounds on `m * q` for the rounded scale `q ≈ (D * 65536 + g) / D` and `0 < m < D` -/
theorem mq_bounds (D m g q E : Int) (hD : 0 < D) (hm0 : 0 < m) (hmD : m < D)
    (hg : -(2 * E) ≤ g ∧ g ≤ 2 * E) (hE : 0 ≤ E)
    (hq1 : 2 * q * D - 2 * (D * 65536 + g) ≤ D) (hq2 : 2 * (D * 65536 + g) - 2 * q * D ≤ D) :
    m * 65536 - 2 * E - m ≤ m * q ∧ m * q ≤ m * 65536 + 2 * E + m := by
  have a1 : m * g ≤ m * (2 * E) := Int.mul_le_mul_of_nonneg_left hg.2 (by omega)
  have a1' : m * (-(2 * E)) ≤ m * g := Int.mul_le_mul_of_nonneg_left hg.1 (by omega)
  have a2 : m * (2 * E) ≤ D * (2 * E) := Int.mul_le_mul_of_nonneg_right (by omega) (by omega)
  have a3 : m * (2 * q * D - 2 * (D * 65536 + g)) ≤ m * D := Int.mul_le_mul_of_nonneg_left hq1 (by omega)
  have a4 : m * (2 * (D * 65536 + g) - 2 * q * D) ≤ m * D := Int.mul_le_mul_of_nonneg_left hq2 (by omega)
  constructor
  · have h : (m * 65536 - 2 * E - m) * D ≤ (m * q) * D := by nlinarith
    exact Int.le_of_mul_le_mul_right h hD
  · have h : (m * q) * D ≤ (m * 65536 + 2 * E + m) * D := by nlinarith
    exact Int.le_of_mul_le_mul_right h hD

/-- **16.16 interpolation error, one axis, references in order.** -/
theorem fxInterpAxis_bound_le (p1 p2 c e1 e2 M E : Int) (hle : p1 ≤ p2)
    (hp1 : -M ≤ p1 ∧ p1 ≤ M) (hp2 : -M ≤ p2 ∧ p2 ≤ M) (hc : -M ≤ c ∧ c ≤ M)
    (he1 : -E ≤ e1 ∧ e1 ≤ E) (he2 : -E ≤ e2 ∧ e2 ≤ E)
    (hM : 0 ≤ M ∧ M ≤ 16383) (hE : 0 ≤ E) (hfit : 131072 * M + 4 * E + 65536 ≤ 2147483647) :
    0 < (Iup.readerAxis p1 e1 p2 e2 c).2 ∧
    2 * ((Iup.readerAxis p1 e1 p2 e2 c).2 *
          (Iup.fxInterpAxis p1 (p1 * 65536 + e1) p2 (p2 * 65536 + e2) c (c * 65536) - c * 65536)
        - (Iup.readerAxis p1 e1 p2 e2 c).1) ≤ (Iup.readerAxis p1 e1 p2 e2 c).2 * interpDist p1 p2 c ∧
    2 * ((Iup.readerAxis p1 e1 p2 e2 c).1 - (Iup.readerAxis p1 e1 p2 e2 c).2 *
          (Iup.fxInterpAxis p1 (p1 * 65536 + e1) p2 (p2 * 65536 + e2) c (c * 65536) - c * 65536))
        ≤ (Iup.readerAxis p1 e1 p2 e2 c).2 * interpDist p1 p2 c := by
  have hsw : ¬ (p1 > p2) := by omega
  have hd : decide (p1 > p2) = false := by simp [hsw]
  have f1 : Iup.fxFromI32 p1 = p1 * 65536 := by unfold Iup.fxFromI32; exact wrapI32_of_in (by omega) (by omega)
  have f2 : Iup.fxFromI32 p2 = p2 * 65536 := by unfold Iup.fxFromI32; exact wrapI32_of_in (by omega) (by omega)
  have fc : Iup.fxFromI32 c = c * 65536 := by unfold Iup.fxFromI32; exact wrapI32_of_in (by omega) (by omega)
  have hs1 : Iup.fxSub (p1 * 65536 + e1) (p1 * 65536) = e1 := by
    unfold Iup.fxSub; rw [wrapI32_of_in (by omega) (by omega)]; ring
  have hs2 : Iup.fxSub (p2 * 65536 + e2) (p2 * 65536) = e2 := by
    unfold Iup.fxSub; rw [wrapI32_of_in (by omega) (by omega)]; ring
  have ha1 : Iup.fxAdd (c * 65536) e1 = c * 65536 + e1 := by
    unfold Iup.fxAdd; exact wrapI32_of_in (by omega) (by omega)
  have ha2 : Iup.fxAdd (c * 65536) e2 = c * 65536 + e2 := by
    unfold Iup.fxAdd; exact wrapI32_of_in (by omega) (by omega)
  rw [interpDist_of_le p1 p2 c hle]
  by_cases heq : p1 = p2
  · subst heq
    have hbt : ¬ (p1 < c ∧ c < p1) := by omega
    by_cases hout : e1 = e2
    · subst hout
      by_cases hc1 : c ≤ p1
      · simp [Iup.fxInterpAxis, Iup.readerAxis, f1, fc, hs1, ha1, hc1, hbt]
      · have hc2 : p1 ≤ c := by omega
        simp [Iup.fxInterpAxis, Iup.readerAxis, f1, fc, hs1, ha1, hc1, hc2, hbt]
    · simp [Iup.fxInterpAxis, Iup.readerAxis, f1, fc, hout, hbt]
  · have hlt : p1 < p2 := by omega
    have hne : ¬ (p1 * 65536 = p2 * 65536) := by omega
    by_cases hc1 : c ≤ p1
    · have hbt : ¬ (p1 < c ∧ c < p2) := by omega
      simp [Iup.fxInterpAxis, Iup.readerAxis, hd, hsw, f1, f2, fc, hs1, hs2, ha1, hc1, hbt, heq, hne]
      try omega
    · by_cases hc2 : p2 ≤ c
      · have hbt : ¬ (p1 < c ∧ c < p2) := by omega
        simp [Iup.fxInterpAxis, Iup.readerAxis, hd, hsw, f1, f2, fc, hs1, hs2, ha2, hc1, hc2, hbt, heq, hne]
        try omega
      · -- strictly between: the interpolation proper
        have hbt : (p1 < c ∧ c < p2) := by omega
        have hN : Iup.fxSub (p2 * 65536 + e2) (p1 * 65536 + e1) = (p2 - p1) * 65536 + (e2 - e1) := by
          unfold Iup.fxSub; rw [wrapI32_of_in (by omega) (by omega)]; ring
        have hD : Iup.fxSub (p2 * 65536) (p1 * 65536) = (p2 - p1) * 65536 := by
          unfold Iup.fxSub; rw [wrapI32_of_in (by omega) (by omega)]; ring
        have hm : Iup.fxSub (c * 65536) (p1 * 65536) = (c - p1) * 65536 := by
          unfold Iup.fxSub; rw [wrapI32_of_in (by omega) (by omega)]; ring
        obtain ⟨q, eq, q1, q2, q3, q4⟩ := fxDiv_whole ((p2 - p1) * 65536 + (e2 - e1)) (p2 - p1)
          (by omega) (by omega)
        have hmq := mq_bounds (p2 - p1) (c - p1) (e2 - e1) q E (by omega) (by omega) (by omega)
          (by omega) hE q1 q2
        have hval : Iup.fxAdd (p1 * 65536 + e1) (Iup.fxMul ((c - p1) * 65536) q)
            = p1 * 65536 + e1 + (c - p1) * q := by
          rw [fxMul_eq, fxMul_shifted]
          unfold Iup.fxAdd
          rw [wrapI32_add_wrap]
          exact wrapI32_of_in (by omega) (by omega)
        have hcore := between_core p1 (p2 - p1) (c - p1) e1 e2 q (by omega) q1 q2
        have ec : p1 + (c - p1) = c := by ring
        have ep : p1 + (p2 - p1) = p2 := by ring
        rw [ec, ep] at hcore
        have hc1' : ¬ (c * 65536 ≤ p1 * 65536) := by omega
        have hc2' : ¬ (p2 * 65536 ≤ c * 65536) := by omega
        simp only [Iup.fxInterpAxis, Iup.readerAxis, hsw, decide_false, f1, f2, fc, hs1, hs2, hN, hD, hm, eq, hval,
          Bool.false_eq_true, if_false, ne_eq, hne, not_false_eq_true, true_or, if_true, hc1', ge_iff_le,
          hc2', heq, hc1, hc2, hbt, and_self]
        refine ⟨by omega, ?_, ?_⟩
        · have h := hcore.1; ring_nf at h ⊢; linarith
        · have h := hcore.2; ring_nf at h ⊢; linarith

/-- **16.16 interpolation error, one axis** (references in either order): with `(num, den)` the
exact inference `readerAxis` of the 16.16-unit deltas `e1`, `e2` of the references, the 16.16 result
`r` satisfies `|den * (r - c * 65536) - num| ≤ den * dist / 2`, `dist` = how far `c` lies inside the
reference interval (0 outside: exact). -/
theorem fxInterpAxis_bound (p1 p2 c e1 e2 M E : Int)
    (hp1 : -M ≤ p1 ∧ p1 ≤ M) (hp2 : -M ≤ p2 ∧ p2 ≤ M) (hc : -M ≤ c ∧ c ≤ M)
    (he1 : -E ≤ e1 ∧ e1 ≤ E) (he2 : -E ≤ e2 ∧ e2 ≤ E)
    (hM : 0 ≤ M ∧ M ≤ 16383) (hE : 0 ≤ E) (hfit : 131072 * M + 4 * E + 65536 ≤ 2147483647) :
    0 < (Iup.readerAxis p1 e1 p2 e2 c).2 ∧
    2 * ((Iup.readerAxis p1 e1 p2 e2 c).2 *
          (Iup.fxInterpAxis p1 (p1 * 65536 + e1) p2 (p2 * 65536 + e2) c (c * 65536) - c * 65536)
        - (Iup.readerAxis p1 e1 p2 e2 c).1) ≤ (Iup.readerAxis p1 e1 p2 e2 c).2 * interpDist p1 p2 c ∧
    2 * ((Iup.readerAxis p1 e1 p2 e2 c).1 - (Iup.readerAxis p1 e1 p2 e2 c).2 *
          (Iup.fxInterpAxis p1 (p1 * 65536 + e1) p2 (p2 * 65536 + e2) c (c * 65536) - c * 65536))
        ≤ (Iup.readerAxis p1 e1 p2 e2 c).2 * interpDist p1 p2 c := by
  by_cases hle : p1 ≤ p2
  · exact fxInterpAxis_bound_le p1 p2 c e1 e2 M E hle hp1 hp2 hc he1 he2 hM hE hfit
  · have hgt : p1 > p2 := by omega
    rw [fxInterpAxis_swap _ _ _ _ _ _ hgt, readerAxis_swap _ _ _ _ _ hgt, interpDist_comm]
    exact fxInterpAxis_bound_le p2 p1 c e2 e1 M E (by omega) hp2 hp1 hc he2 he1 hM hE hfit

/-- the distance inside the reference interval is below the inference's denominator -/
theorem interpDist_lt_den (p1 e1 p2 e2 c : Int) :
    0 ≤ interpDist p1 p2 c ∧ interpDist p1 p2 c ≤ (Iup.readerAxis p1 e1 p2 e2 c).2 - 1 := by
  unfold interpDist Iup.readerAxis
  simp only []
  by_cases h : p1 > p2
  · have h1 : min p1 p2 = p2 := Int.min_eq_right (by omega)
    have h2 : max p1 p2 = p1 := Int.max_eq_left (by omega)
    have hne : p2 ≠ p1 := by omega
    rw [h1, h2]
    simp only [h, if_true, ne_eq, hne, not_false_eq_true, true_or]
    by_cases hb : p2 < c ∧ c < p1
    · have a1 : ¬ c ≤ p2 := by omega
      have a2 : ¬ c ≥ p1 := by omega
      simp only [hb, and_self, if_true, a1, if_false, a2]; omega
    · simp only [hb, if_false]
      by_cases a1 : c ≤ p2
      · simp [a1]
      · have a2 : c ≥ p1 := by omega
        simp [a1, a2]
  · have h1 : min p1 p2 = p1 := Int.min_eq_left (by omega)
    have h2 : max p1 p2 = p2 := Int.max_eq_right (by omega)
    rw [h1, h2]
    simp only [h, if_false]
    by_cases hb : p1 < c ∧ c < p2
    · have a1 : ¬ c ≤ p1 := by omega
      have a2 : ¬ c ≥ p2 := by omega
      have hne : p1 ≠ p2 := by omega
      simp only [hb, and_self, if_true, a1, if_false, a2, ne_eq, hne, not_false_eq_true, true_or]; omega
    · simp only [hb, if_false]
      split
      · by_cases a1 : c ≤ p1
        · simp [a1]
        · have a2 : c ≥ p2 := by omega
          simp [a1, a2]
      · simp

end FontVerif.GvarApply
