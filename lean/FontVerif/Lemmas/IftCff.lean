/-
C18 — the CFF / CFF2 arm (Model/CffKeyed.lean): what a successful `cffPatch` is made of, reading the
emitted charstrings INDEX back, the per-glyph statement, order independence, and the two-step
(grouping) lemma "same decoded INDEX, offSize may differ".
-/
import FontVerif.Lemmas.IftGvar
import FontVerif.Lemmas.IftTotal
set_option linter.unusedVariables false
namespace FontVerif.Ift

def IsCffType (t : OffsetType) : Prop := t = .cffOne ∨ t = .cffTwo ∨ t = .cffThree ∨ t = .cffFour

theorem IsCffType.divisor {t : OffsetType} (h : IsCffType t) : t.divisor = 1 := by
  rcases h with e | e | e | e <;> subst e <;> rfl

theorem IsCffType.bias {t : OffsetType} (h : IsCffType t) : t.bias = 1 := by
  rcases h with e | e | e | e <;> subst e <;> rfl

theorem IsCffType.width_pos {t : OffsetType} (h : IsCffType t) : 1 ≤ t.width ∧ t.width ≤ 4 := by
  rcases h with e | e | e | e <;> subst e <;> decide

theorem IsCffType.eq_of_width {t t' : OffsetType} (h : IsCffType t) (h' : IsCffType t')
    (hw : t.width = t'.width) : t = t' := by
  rcases h with e | e | e | e <;> rcases h' with e' | e' | e' | e' <;> subst e e' <;>
    first | rfl | (exfalso; revert hw; decide)

theorem cffOffsetType_ok (size : Nat) (t : OffsetType) (h : cffOffsetType size = .ok t) :
    IsCffType t ∧ t.width = size := by
  unfold cffOffsetType at h
  split at h
  · cases h; rename_i e; exact ⟨Or.inl rfl, e.symm⟩
  · split at h
    · cases h; rename_i e; exact ⟨Or.inr (Or.inl rfl), e.symm⟩
    · split at h
      · cases h; rename_i e; exact ⟨Or.inr (Or.inr (Or.inl rfl)), e.symm⟩
      · split at h
        · cases h; rename_i e; exact ⟨Or.inr (Or.inr (Or.inr rfl)), e.symm⟩
        · cases h

theorem cffOffsetType_width (t : OffsetType) (h : IsCffType t) : cffOffsetType t.width = .ok t := by
  rcases h with e | e | e | e <;> subst e <;> rfl

/-! ## what a successful arm is made of -/

theorem cffView_ok (v2 : Bool) (b : Bytes) (at_ m : Nat) (ix : IndexView) (t0 : OffsetType)
    (h : cffView v2 b at_ m = .ok (ix, t0)) :
    at_ ≤ b.length ∧ indexRead (cffCountWidth v2) (b.drop at_) = .ok ix ∧
      cffOffsetType ix.offSize = .ok t0 ∧ ix.count = m + 1 := by
  unfold cffView at h
  split at h
  · cases h
  · split at h
    · cases h
    · rename_i hlen
      cases hi : indexRead (cffCountWidth v2) (b.drop at_) with
      | error e => rw [hi] at h; cases h
      | ok ix' =>
        rw [hi] at h
        simp only at h
        cases ht : cffOffsetType ix'.offSize with
        | error e => rw [ht] at h; cases h
        | ok t' =>
          rw [ht] at h
          simp only at h
          split at h
          · cases h
          · rename_i hc
            simp only [Except.ok.injEq, Prod.mk.injEq] at h
            obtain ⟨e1, e2⟩ := h
            subst e1 e2
            exact ⟨by omega, rfl, ht, by simpa using hc⟩

theorem cffPatch_ok (v2 : Bool) (ift : Option Bytes) (b : Bytes) (gps : List GlyphPatches) (m : Nat)
    (out : Bytes) (h : cffPatch v2 ift (some b) gps m = .ok out) :
    ∃ at_ ix t0 repl t data offs, iftCharstringsOffset ift v2 = some at_ ∧
      cffView v2 b at_ m = .ok (ix, t0) ∧ dedup (cffTag v2) gps = .ok repl ∧
      patchOffsetArray (cffArray ix t0) repl m = .ok (t, data, offs) ∧
      out = cffAssemble v2 b at_ ix.count t data offs := by
  unfold cffPatch at h
  cases ha : iftCharstringsOffset ift v2 with
  | none => rw [ha] at h; cases h
  | some at_ =>
    rw [ha] at h
    simp only at h
    cases hv : cffView v2 b at_ m with
    | error e => rw [hv] at h; cases h
    | ok r =>
      obtain ⟨ix, t0⟩ := r
      rw [hv] at h
      simp only at h
      cases hd : dedup (cffTag v2) gps with
      | error e => rw [hd] at h; cases h
      | ok repl =>
        rw [hd] at h
        simp only at h
        cases hp : patchOffsetArray (cffArray ix t0) repl m with
        | error e => rw [hp] at h; cases h
        | ok r =>
          obtain ⟨t, data, offs⟩ := r
          rw [hp] at h
          simp only [Except.ok.injEq] at h
          exact ⟨at_, ix, t0, repl, t, data, offs, rfl, hv, rfl, hp, h.symm⟩

/-- the arm fails when the font has no such table -/
theorem cffPatch_none (v2 : Bool) (ift : Option Bytes) (gps : List GlyphPatches) (m : Nat) :
    ∃ e, cffPatch v2 ift none gps m = .error e := by
  unfold cffPatch
  cases iftCharstringsOffset ift v2 with
  | none => exact ⟨_, rfl⟩
  | some at_ => exact ⟨_, rfl⟩

/-- the chosen offset type of a CFF array is a CFF type -/
theorem cff_choose_type (ix : IndexView) (t0 : OffsetType) (h0 : IsCffType t0) (total : Nat) (t : OffsetType)
    (h : chooseOffsetType (cffArray ix t0) total = .ok t) : IsCffType t := by
  obtain ⟨_, c2, c3⟩ := chooseOffsetType_spec _ total t h
  by_cases hfit : total ≤ t0.maxRepresentable
  · have := c2 hfit
    simp only [cffArray] at this
    subst this; exact h0
  · obtain ⟨hm, _⟩ := c3 (by simp only [cffArray]; omega)
    simp only [cffArray, List.mem_cons, List.not_mem_nil, or_false] at hm
    exact hm

/-- the smallest offSize whose offsets can address `T` bytes of charstring data -/
def cffNeed (T : Nat) : Nat :=
  if T ≤ 254 then 1 else if T ≤ 65534 then 2 else if T ≤ 16777214 then 3 else 4

theorem cff_max_values : OffsetType.cffOne.maxRepresentable = 254 ∧ OffsetType.cffTwo.maxRepresentable = 65534 ∧
    OffsetType.cffThree.maxRepresentable = 16777214 ∧ OffsetType.cffFour.maxRepresentable = 4294967294 := by
  decide

/-- the offset type chosen for a CFF INDEX: never narrower than the current one, and exactly wide
enough otherwise -/
theorem cff_choose_width (ix : IndexView) (t0 : OffsetType) (h0 : IsCffType t0) (T : Nat) (t : OffsetType)
    (h : chooseOffsetType (cffArray ix t0) T = .ok t) : t.width = max t0.width (cffNeed T) := by
  obtain ⟨m1, m2, m3, m4⟩ := cff_max_values
  obtain ⟨c1, c2, c3⟩ := chooseOffsetType_spec _ T t h
  simp only [cffArray] at c2 c3
  by_cases hfit : T ≤ t0.maxRepresentable
  · have := c2 hfit
    subst this
    unfold cffNeed
    rcases h0 with e | e | e | e <;> subst e <;> simp only [OffsetType.width] <;>
      (first | rw [m1] at hfit | rw [m2] at hfit | rw [m3] at hfit | rw [m4] at hfit) <;>
      split <;> (try split) <;> (try split) <;> omega
  · obtain ⟨_, pre, post, hd, hpre⟩ := c3 (by omega)
    have hwide : t0.width < cffNeed T ∧ t.width = cffNeed T := by
      unfold cffNeed
      rcases pre with _ | ⟨p1, _ | ⟨p2, _ | ⟨p3, _ | ⟨p4, pre'⟩⟩⟩⟩
      · simp only [List.nil_append, List.cons.injEq] at hd
        obtain ⟨e, _⟩ := hd
        subst e
        rw [m1] at c1
        rcases h0 with e | e | e | e <;> subst e <;>
          (first | rw [m1] at hfit | rw [m2] at hfit | rw [m3] at hfit | rw [m4] at hfit) <;> omega
      · simp only [List.cons_append, List.nil_append, List.cons.injEq] at hd
        obtain ⟨e1, e, _⟩ := hd
        subst e e1
        have := hpre .cffOne (by simp)
        rw [m1] at this
        rw [m2] at c1
        simp only [OffsetType.width]
        rcases h0 with e | e | e | e <;> subst e <;> simp only [OffsetType.width] <;>
          (first | rw [m1] at hfit | rw [m2] at hfit | rw [m3] at hfit | rw [m4] at hfit) <;>
          split <;> (try split) <;> (try split) <;> omega
      · simp only [List.cons_append, List.nil_append, List.cons.injEq] at hd
        obtain ⟨e1, e2, e, _⟩ := hd
        subst e e1 e2
        have := hpre .cffTwo (by simp)
        rw [m2] at this
        rw [m3] at c1
        simp only [OffsetType.width]
        rcases h0 with e | e | e | e <;> subst e <;> simp only [OffsetType.width] <;>
          (first | rw [m1] at hfit | rw [m2] at hfit | rw [m3] at hfit | rw [m4] at hfit) <;>
          split <;> (try split) <;> (try split) <;> omega
      · simp only [List.cons_append, List.nil_append, List.cons.injEq] at hd
        obtain ⟨e1, e2, e3, e, _⟩ := hd
        subst e e1 e2 e3
        have := hpre .cffThree (by simp)
        rw [m3] at this
        rw [m4] at c1
        simp only [OffsetType.width]
        rcases h0 with e | e | e | e <;> subst e <;> simp only [OffsetType.width] <;>
          (first | rw [m1] at hfit | rw [m2] at hfit | rw [m3] at hfit | rw [m4] at hfit) <;>
          split <;> (try split) <;> (try split) <;> omega
      · simp only [List.cons_append, List.cons.injEq] at hd
        obtain ⟨_, _, _, _, hd⟩ := hd
        cases pre' <;> simp at hd
    omega
/-- for a base INDEX whose decoded offsets ascend (last entry included) the code's own check, which
skips the last entry, is sound -/
theorem cffArray_ascSound (ix : IndexView) (t : OffsetType) (h : ascending (cffOffsets ix) = true) :
    (cffArray ix t).AscSound := fun _ => h

theorem pairwise_ascending (l : List Nat) (h : l.Pairwise (· ≤ ·)) : ascending l = true := by
  induction l with
  | nil => rfl
  | cons a rest ih =>
    cases rest with
    | nil => rfl
    | cons b rest' =>
      simp only [ascending, Bool.and_eq_true, decide_eq_true_eq]
      obtain ⟨h1, h2⟩ := List.pairwise_cons.mp h
      exact ⟨h1 b (by simp), ih h2⟩

/-! ## reading an emitted INDEX back -/

theorem sliceLen_flatMap_fixed (w : Nat) (xs : List Nat) (f : Nat → Bytes) (hf : ∀ x, (f x).length = w)
    (i : Nat) (hi : i < xs.length) : sliceLen (xs.flatMap f) (i * w) w = f xs[i] := by
  induction xs generalizing i with
  | nil => cases hi
  | cons x rest ih =>
    cases i with
    | zero =>
      simp only [List.flatMap_cons, Nat.zero_mul, sliceLen, List.drop_zero, List.getElem_cons_zero]
      exact List.take_left' (hf x)
    | succ i =>
      simp only [List.flatMap_cons, List.getElem_cons_succ]
      have : (i + 1) * w = (f x).length + i * w := by rw [hf x, Nat.succ_mul]; omega
      unfold sliceLen
      rw [this, ← List.drop_drop, List.drop_left' rfl]
      exact ih i (by simpa using hi)

theorem flatMap_fixed_length (w : Nat) (xs : List Nat) (f : Nat → Bytes) (hf : ∀ x, (f x).length = w) :
    (xs.flatMap f).length = xs.length * w := by
  induction xs with
  | nil => simp
  | cons x rest ih => simp only [List.flatMap_cons, List.length_append, hf x, ih, List.length_cons]; rw [Nat.succ_mul]; omega

theorem encodeOffs_cff (t : OffsetType) (ht : IsCffType t) (os : List Nat) :
    encodeOffs t os = os.flatMap (fun o => beBytes t.width (o + 1)) := by
  simp only [encodeOffs, ht.divisor, ht.bias, Nat.div_one]

/-- an INDEX written as count, offSize, `encodeOffs t os`, data reads back as exactly that -/
theorem indexRead_emit (cw count : Nat) (t : OffsetType) (ht : IsCffType t) (os : List Nat) (data : Bytes)
    (hc : count < 256 ^ cw) (hlen : os.length = count + 1) :
    indexRead cw (beBytes cw count ++ [t.width] ++ encodeOffs t os ++ data) =
      .ok { count := count, offSize := t.width, offsetBytes := encodeOffs t os, data := data } := by
  have hel : (encodeOffs t os).length = (count + 1) * t.width := by
    rw [encodeOffs_cff t ht, flatMap_fixed_length t.width os _ (fun x => beBytes_len _ _), hlen]
  unfold indexRead
  have hl : (beBytes cw count ++ [t.width] ++ encodeOffs t os ++ data).length
      = cw + 1 + (count + 1) * t.width + data.length := by
    simp only [List.length_append, beBytes_len, hel, List.length_cons, List.length_nil]
  have htake : (beBytes cw count ++ [t.width] ++ encodeOffs t os ++ data).take cw = beBytes cw count := by
    rw [List.append_assoc, List.append_assoc]
    exact List.take_left' (beBytes_len _ _)
  have hdrop : (beBytes cw count ++ [t.width] ++ encodeOffs t os ++ data).drop cw
      = t.width :: (encodeOffs t os ++ data) := by
    rw [List.append_assoc, List.append_assoc, List.drop_left' (beBytes_len _ _)]
    simp
  rw [if_neg (by rw [hl]; omega)]
  simp only [htake, hdrop, List.headD_cons, beValue_beBytes cw count hc]
  rw [if_neg (by rw [hl]; omega)]
  congr 1
  have hd1 : (beBytes cw count ++ [t.width] ++ encodeOffs t os ++ data).drop (cw + 1)
      = encodeOffs t os ++ data := by
    rw [← List.drop_drop, hdrop]; simp
  congr 1
  · unfold sliceLen
    rw [hd1, ← hel]
    exact List.take_left' rfl
  · rw [show cw + 1 + (count + 1) * t.width = (cw + 1) + (encodeOffs t os).length by rw [hel],
      ← List.drop_drop, hd1, List.drop_left' rfl]

/-- … and its decoded offsets are `os`, all readable -/
theorem cffOffsetOpts_emit (count : Nat) (t : OffsetType) (ht : IsCffType t) (os : List Nat) (data : Bytes)
    (hlen : os.length = count + 1) (hb : ∀ o ∈ os, o + 1 < 2 ^ (t.width * 8)) :
    cffOffsetOpts { count := count, offSize := t.width, offsetBytes := encodeOffs t os, data := data }
      = os.map some := by
  unfold cffOffsetOpts
  apply List.ext_getElem
  · simp [hlen]
  · intro i h1 h2
    simp only [List.getElem_map, List.getElem_range]
    have hi : i < os.length := by simpa using h2
    unfold indexOffset
    simp only
    have hw := ht.width_pos
    rw [if_neg (by omega), if_neg (by omega)]
    rw [encodeOffs_cff t ht, sliceLen_flatMap_fixed t.width os _ (fun x => beBytes_len _ _) i hi]
    have hlt : os[i] + 1 < 256 ^ t.width := by
      have := hb os[i] (List.getElem_mem hi)
      rwa [Nat.mul_comm, Nat.pow_mul] at this
    rw [beValue_beBytes _ _ hlt]
    simp

/-! ## the per-glyph statement -/

theorem chunkFor_cff_indep (a : OffsetArray) (t t' : OffsetType) (ht : IsCffType t) (ht' : IsCffType t')
    (repl : List (Nat × Bytes)) (g : Nat) : chunkFor a t repl g = chunkFor a t' repl g := by
  unfold chunkFor padTo
  rw [ht.divisor, ht'.divisor]

theorem chunks_cff_indep (a : OffsetArray) (t t' : OffsetType) (ht : IsCffType t) (ht' : IsCffType t')
    (repl : List (Nat × Bytes)) (m : Nat) : chunks a t repl m = chunks a t' repl m := by
  unfold chunks
  apply List.map_congr_left
  intro g _
  exact chunkFor_cff_indep a t t' ht ht' repl g

theorem padTo_cff (t : OffsetType) (ht : IsCffType t) (d : Bytes) : padTo t d = d := by
  unfold padTo
  rw [ht.divisor, Nat.mod_one]
  simp

/-- the pieces of a successful arm on a base INDEX with ascending offsets: the emitted table is
`cffEmit` of the kept prefix, the count, a CFF offset type `t`, the running starts of the per-glyph
chunks and their concatenation; `t` is the old type if the new total fits it, else the first CFF
type that fits. -/
theorem cffPatch_parts (v2 : Bool) (ift : Option Bytes) (b : Bytes) (gps : List GlyphPatches) (m : Nat)
    (out : Bytes) (h : cffPatch v2 ift (some b) gps m = .ok out) :
    ∃ at_ ix t0 repl t, iftCharstringsOffset ift v2 = some at_ ∧
      cffView v2 b at_ m = .ok (ix, t0) ∧ dedup (cffTag v2) gps = .ok repl ∧
      IsCffType t0 ∧ IsCffType t ∧
      (∃ total, totalDataSize (cffArray ix t0) repl m = .ok total ∧ total ≤ t.maxRepresentable ∧
        (total ≤ t0.maxRepresentable → t = t0) ∧
        (t0.maxRepresentable < total →
          ∃ pre post, [OffsetType.cffOne, .cffTwo, .cffThree, .cffFour] = pre ++ t :: post ∧
            ∀ c ∈ pre, c.maxRepresentable < total) ∧
        chooseOffsetType (cffArray ix t0) total = .ok t) ∧
      (∀ x ∈ repl, x.1 ≤ m) ∧
      (ascending (cffOffsets ix) = true →
        out = cffEmit v2 (b.take at_) (m + 1) t
          (encodeOffs t (newOffsets (chunks (cffArray ix t0) t repl m)))
          (chunks (cffArray ix t0) t repl m).flatten ∧
        (chunks (cffArray ix t0) t repl m).flatten.length + 1 < 2 ^ (t.width * 8) ∧
        KeptInBounds (cffArray ix t0) repl m) := by
  obtain ⟨at_, ix, t0, repl, t, data, offs, ha, hv, hd, hp, hout⟩ := cffPatch_ok v2 ift b gps m out h
  obtain ⟨hle, hir, hot, hcnt⟩ := cffView_ok v2 b at_ m ix t0 hv
  obtain ⟨ht0, _⟩ := cffOffsetType_ok _ _ hot
  obtain ⟨total, h1, h2, hlast, _⟩ := patchOffsetArray_ok _ repl m t data offs hp
  have ht : IsCffType t := cff_choose_type ix t0 ht0 total t h2
  obtain ⟨c1, c2, c3⟩ := chooseOffsetType_spec _ total t h2
  obtain ⟨hsort, _, _⟩ := dedup_spec (cffTag v2) gps repl hd
  have hrepl : ∀ x ∈ repl, x.1 ≤ m := by
    intro x hx
    cases hgl : repl.getLast? with
    | none => rw [List.getLast?_eq_none_iff] at hgl; subst hgl; cases hx
    | some y =>
      rw [hgl] at hlast
      simp only at hlast
      obtain ⟨pre, hpre⟩ := List.getLast?_eq_some_iff.mp hgl
      subst hpre
      rcases List.mem_append.mp hx with e | e
      · have := (List.pairwise_append.mp hsort).2.2 x e y (by simp)
        omega
      · simp only [List.mem_singleton] at e; subst e; exact hlast
  refine ⟨at_, ix, t0, repl, t, ha, hv, hd, ht0, ht, ⟨total, h1, c1, c2, fun hlt => (c3 hlt).2, h2⟩, hrepl, ?_⟩
  intro hasc
  have hA := cffArray_ascSound ix t0 hasc
  obtain ⟨e1, e2⟩ := patchOffsetArray_eq _ repl m hA hsort t data offs hp
  obtain ⟨_, f2, f3, _⟩ := patchOffsetArray_facts _ repl m hA hsort t data offs hp
  rw [ht.divisor, ht.bias, Nat.div_one] at f2
  refine ⟨?_, f2, f3⟩
  rw [hout, e1, e2, hcnt]
  rfl

/-- **CFF / CFF2 splice** (Props: `cff_patch_spec`) -/
theorem cffPatch_spec (v2 : Bool) (ift : Option Bytes) (b : Bytes) (gps : List GlyphPatches) (m : Nat)
    (out : Bytes) (h : cffPatch v2 ift (some b) gps m = .ok out) (hm : m + 1 < 65536) :
    ∃ at_ ix t0 t, iftCharstringsOffset ift v2 = some at_ ∧ cffView v2 b at_ m = .ok (ix, t0) ∧
      IsCffType t0 ∧ IsCffType t ∧
      (∃ repl total, dedup (cffTag v2) gps = .ok repl ∧
        totalDataSize (cffArray ix t0) repl m = .ok total ∧ total ≤ t.maxRepresentable ∧
        (total ≤ t0.maxRepresentable → t = t0) ∧
        (t0.maxRepresentable < total →
          ∃ pre post, [OffsetType.cffOne, .cffTwo, .cffThree, .cffFour] = pre ++ t :: post ∧
            ∀ c ∈ pre, c.maxRepresentable < total)) ∧
      (∀ g d, firstWins (cffTag v2) gps g = some d → g ≤ m) ∧
      (ascending (cffOffsets ix) = true →
        at_ ≤ out.length ∧ out.take at_ = b.take at_ ∧
        ∃ ix', indexRead (cffCountWidth v2) (out.drop at_) = .ok ix' ∧
          ix'.count = m + 1 ∧ ix'.offSize = t.width ∧
          cffOffsetOpts ix' = (cffOffsets ix').map some ∧
          (cffOffsets ix').length = m + 2 ∧ (cffOffsets ix').getD 0 0 = 0 ∧
          (cffOffsets ix').getD (m + 1) 0 = ix'.data.length ∧
          (cffOffsets ix').Pairwise (· ≤ ·) ∧
          ∀ g, g ≤ m → glyphAt (cffOffsets ix') ix'.data g =
            match firstWins (cffTag v2) gps g with
            | some d => d
            | none => glyphAt (cffOffsets ix) ix.data g) := by
  obtain ⟨at_, ix, t0, repl, t, ha, hv, hd, ht0, ht, htot, hrepl, hrest⟩ := cffPatch_parts v2 ift b gps m out h
  obtain ⟨hle, hir, hot, hcnt⟩ := cffView_ok v2 b at_ m ix t0 hv
  obtain ⟨hsort, _, hlk⟩ := dedup_spec (cffTag v2) gps repl hd
  obtain ⟨total, t1, t2, t3, t4, _⟩ := htot
  refine ⟨at_, ix, t0, t, ha, hv, ht0, ht, ⟨repl, total, hd, t1, t2, t3, t4⟩, ?_, ?_⟩
  · intro g d hfw
    rw [← hlk g] at hfw
    exact hrepl _ (lookup_some_mem repl g d hfw)
  · intro hasc
    obtain ⟨hout, hbound, hkept⟩ := hrest hasc
    generalize hcs : chunks (cffArray ix t0) t repl m = cs at hout hbound
    have hcslen : cs.length = m + 1 := by rw [← hcs, chunks_length]
    have hpl : (b.take at_).length = at_ := by simp; omega
    have hcw : m + 1 < 256 ^ cffCountWidth v2 := by
      cases v2 <;> simp [cffCountWidth] <;> omega
    have hnl : (newOffsets cs).length = (m + 1) + 1 := by rw [newOffsets_length, hcslen]
    have hob : ∀ o ∈ newOffsets cs, o + 1 < 2 ^ (t.width * 8) := by
      intro o ho
      have := newOffsets_le_last cs o ho
      omega
    have hdrop : out.drop at_ = beBytes (cffCountWidth v2) (m + 1) ++ [t.width]
        ++ encodeOffs t (newOffsets cs) ++ cs.flatten := by
      rw [hout]
      unfold cffEmit
      rw [List.append_assoc, List.append_assoc, List.append_assoc, List.drop_left' hpl]
      simp
    have hread := indexRead_emit (cffCountWidth v2) (m + 1) t ht (newOffsets cs) cs.flatten hcw hnl
    have hopts := cffOffsetOpts_emit (m + 1) t ht (newOffsets cs) cs.flatten hnl hob
    have hoffs : cffOffsets (IndexView.mk (m + 1) t.width (encodeOffs t (newOffsets cs)) cs.flatten)
        = newOffsets cs := by
      unfold cffOffsets
      rw [hopts, List.map_map]
      conv => rhs; rw [← List.map_id (newOffsets cs)]
      apply List.map_congr_left
      intro x _; rfl
    refine ⟨?_, ?_, _, by rw [hdrop]; exact hread, rfl, rfl, ?_, ?_, ?_, ?_, ?_, ?_⟩
    · rw [hout]; unfold cffEmit; simp only [List.length_append, hpl]; omega
    · rw [hout]; unfold cffEmit
      rw [List.append_assoc, List.append_assoc, List.append_assoc]
      exact List.take_left' hpl
    · rw [hoffs, hopts]
    · rw [hoffs, hnl]
    · rw [hoffs]; exact newOffsets_first cs
    · rw [hoffs]
      have := newOffsets_last cs
      rw [hcslen] at this; exact this
    · rw [hoffs]; exact newOffsets_pairwise cs
    · intro g hg
      rw [hoffs, newOffsets_glyphAt cs g (by rw [hcslen]; omega)]
      subst hcs
      rw [chunks_getElem]
      unfold chunkFor
      rw [hlk g]
      cases firstWins (cffTag v2) gps g with
      | none => rfl
      | some d => exact padTo_cff t ht d

/-! ## order independence of the arm -/

theorem cffPatch_perm (v2 : Bool) (ift table : Option Bytes) (gps gps' : List GlyphPatches) (m : Nat)
    (out : Bytes) (hp : gps.Perm gps') (ha : Agree (cffTag v2) gps)
    (h : cffPatch v2 ift table gps m = .ok out) : cffPatch v2 ift table gps' m = .ok out := by
  obtain ⟨repl, hd⟩ := cffPatch_dedup_ok v2 ift table gps m out h
  have := dedup_perm (cffTag v2) gps gps' hp ha repl hd
  unfold cffPatch at h ⊢
  rw [this, ← hd]
  exact h

/-! ## grouping: apply some patches to the table, then the rest to the result -/

/-- two CFF / CFF2 tables that differ at most in the offSize of the final INDEX: the same bytes before
it, the same count, the same decoded offsets, the same object data (known finding
C18-offset-width-history-dependent: the width is only ever widened, so a larger intermediate table
leaves wider offsets behind) -/
def CffSameUpToOffSize (v2 : Bool) (x y : Bytes) : Prop :=
  ∃ pre count os data t t', IsCffType t ∧ IsCffType t' ∧
    x = cffEmit v2 pre count t (encodeOffs t os) data ∧ y = cffEmit v2 pre count t' (encodeOffs t' os) data

theorem CffSameUpToOffSize.refl_of_emit (v2 : Bool) (pre : Bytes) (count : Nat) (os : List Nat) (data : Bytes)
    (t : OffsetType) (ht : IsCffType t) :
    CffSameUpToOffSize v2 (cffEmit v2 pre count t (encodeOffs t os) data)
      (cffEmit v2 pre count t (encodeOffs t os) data) :=
  ⟨pre, count, os, data, t, t, ht, ht, rfl, rfl⟩

/-- the offSize byte of a table emitted by the arm: the byte after the count -/
theorem cffEmit_offSize (v2 : Bool) (pre : Bytes) (count : Nat) (t : OffsetType) (offs data : Bytes) :
    ((cffEmit v2 pre count t offs data).drop (pre.length + cffCountWidth v2)).headD 0 = t.width := by
  unfold cffEmit
  rw [List.append_assoc, List.append_assoc, List.append_assoc, ← List.drop_drop, List.drop_left' rfl,
    List.drop_left' (beBytes_len _ _)]
  rfl

/-- equal up to offSize and the same offSize byte ⇒ the same bytes -/
theorem CffSameUpToOffSize.eq_of_width (v2 : Bool) (x y : Bytes) (h : CffSameUpToOffSize v2 x y)
    (at_ : Nat) (hat : ∀ pre count os data t, IsCffType t →
      x = cffEmit v2 pre count t (encodeOffs t os) data → pre.length = at_)
    (hw : (x.drop (at_ + cffCountWidth v2)).headD 0 = (y.drop (at_ + cffCountWidth v2)).headD 0) : x = y := by
  obtain ⟨pre, count, os, data, t, t', ht, ht', hx, hy⟩ := h
  have hl := hat pre count os data t ht hx
  subst hl
  rw [hx, hy, cffEmit_offSize, cffEmit_offSize] at hw
  have := IsCffType.eq_of_width ht ht' hw
  subst this
  rw [hx, hy]

/-- **grouping of the CFF / CFF2 arm.**  Patching with `gps1` and then patching the result with `gps2`
yields the table that patching with `gps1 ++ gps2` in one go yields, except possibly for the offSize:
same prefix, same count, same decoded offsets, same charstring data. -/
theorem cffPatch_two_step (v2 : Bool) (ift : Option Bytes) (b : Bytes) (gps1 gps2 : List GlyphPatches)
    (m : Nat) (out1 out2 out12 : Bytes) (hm : m + 1 < 65536)
    (hasc : ∀ at_ ix t0, iftCharstringsOffset ift v2 = some at_ → cffView v2 b at_ m = .ok (ix, t0) →
      ascending (cffOffsets ix) = true)
    (hagree : Agree (cffTag v2) (gps1 ++ gps2))
    (h1 : cffPatch v2 ift (some b) gps1 m = .ok out1)
    (h2 : cffPatch v2 ift (some out1) gps2 m = .ok out2)
    (h12 : cffPatch v2 ift (some b) (gps1 ++ gps2) m = .ok out12) :
    ∃ at_ os data t2 t12, iftCharstringsOffset ift v2 = some at_ ∧ at_ ≤ b.length ∧
      IsCffType t2 ∧ IsCffType t12 ∧
      out2 = cffEmit v2 (b.take at_) (m + 1) t2 (encodeOffs t2 os) data ∧
      out12 = cffEmit v2 (b.take at_) (m + 1) t12 (encodeOffs t12 os) data ∧
      t12.width ≤ t2.width ∧
      (∀ ix t0, cffView v2 b at_ m = .ok (ix, t0) →
        ((out1.drop (at_ + cffCountWidth v2)).headD 0 = t0.width → out2 = out12)) := by
  obtain ⟨at_, ix, t0, repl1, t1, ha, hv, hd1, ht0, ht1, htot1, hle1, hr1⟩ := cffPatch_parts v2 ift b gps1 m out1 h1
  obtain ⟨at', ix1, t1', repl2, t2, ha', hv1, hd2, _, ht2, htot2, hle2, hr2⟩ := cffPatch_parts v2 ift out1 gps2 m out2 h2
  obtain ⟨at'', ix', t0', repl12, t12, ha'', hv', hd12, _, ht12, htot12, hle12, hr12⟩ :=
    cffPatch_parts v2 ift b (gps1 ++ gps2) m out12 h12
  rw [ha] at ha' ha''
  cases ha'; cases ha''
  rw [hv] at hv'
  cases hv'
  have hA := hasc at_ ix t0 ha hv
  obtain ⟨hle, _, _, hcnt⟩ := cffView_ok v2 b at_ m ix t0 hv
  obtain ⟨e1, hb1, _⟩ := hr1 hA
  obtain ⟨e12, _, hk12⟩ := hr12 hA
  -- the intermediate table read back
  generalize hcs1 : chunks (cffArray ix t0) t1 repl1 m = cs1 at e1 hb1
  have hcs1len : cs1.length = m + 1 := by rw [← hcs1, chunks_length]
  have hpl : (b.take at_).length = at_ := by simp; omega
  have hcw : m + 1 < 256 ^ cffCountWidth v2 := by
    cases v2 <;> simp [cffCountWidth] <;> omega
  have hnl : (newOffsets cs1).length = (m + 1) + 1 := by rw [newOffsets_length, hcs1len]
  have hob : ∀ o ∈ newOffsets cs1, o + 1 < 2 ^ (t1.width * 8) := by
    intro o ho
    have := newOffsets_le_last cs1 o ho
    omega
  have hdrop : out1.drop at_ = beBytes (cffCountWidth v2) (m + 1) ++ [t1.width]
      ++ encodeOffs t1 (newOffsets cs1) ++ cs1.flatten := by
    rw [e1]
    unfold cffEmit
    rw [List.append_assoc, List.append_assoc, List.append_assoc, List.drop_left' hpl]
    simp
  have hread := indexRead_emit (cffCountWidth v2) (m + 1) t1 ht1 (newOffsets cs1) cs1.flatten hcw hnl
  have hopts := cffOffsetOpts_emit (m + 1) t1 ht1 (newOffsets cs1) cs1.flatten hnl hob
  obtain ⟨_, hir1, hot1, _⟩ := cffView_ok v2 out1 at_ m ix1 t1' hv1
  rw [hdrop, hread] at hir1
  simp only [Except.ok.injEq] at hir1
  subst hir1
  simp only at hot1
  rw [cffOffsetType_width t1 ht1] at hot1
  simp only [Except.ok.injEq] at hot1
  subst hot1
  have hoffs : cffOffsets (IndexView.mk (m + 1) t1.width (encodeOffs t1 (newOffsets cs1)) cs1.flatten)
      = newOffsets cs1 := by
    unfold cffOffsets
    rw [hopts, List.map_map]
    conv => rhs; rw [← List.map_id (newOffsets cs1)]
    apply List.map_congr_left
    intro x _; rfl
  have hA1 : ascending (cffOffsets (IndexView.mk (m + 1) t1.width (encodeOffs t1 (newOffsets cs1)) cs1.flatten))
      = true := by
    rw [hoffs]; exact pairwise_ascending _ (newOffsets_pairwise cs1)
  obtain ⟨e2, _, hk2⟩ := hr2 hA1
  -- the chunks of both routes coincide
  obtain ⟨sr1, _, lk1⟩ := dedup_spec (cffTag v2) gps1 repl1 hd1
  obtain ⟨sr2, _, lk2⟩ := dedup_spec (cffTag v2) gps2 repl2 hd2
  obtain ⟨sr12, _, lk12⟩ := dedup_spec (cffTag v2) (gps1 ++ gps2) repl12 hd12
  have hchunks : chunks (cffArray (IndexView.mk (m + 1) t1.width (encodeOffs t1 (newOffsets cs1)) cs1.flatten) t1)
        t2 repl2 m = chunks (cffArray ix t0) t12 repl12 m := by
    rw [chunks_cff_indep _ t2 t1 ht2 ht1, chunks_cff_indep _ t12 t1 ht12 ht1]
    apply List.ext_getElem
    · rw [chunks_length, chunks_length]
    · intro g hga hgb
      rw [chunks_getElem, chunks_getElem]
      rw [chunks_length] at hga
      apply chunkFor_two_step (cffArray ix t0) _ t1 repl1 repl2 repl12 m g hga
      · show cffOffsets _ = _
        rw [hoffs, hcs1]
      · show cs1.flatten = _
        rw [hcs1]
      · rw [lk12 g, lk1 g, lk2 g, firstWins_append]
      · intro d1 d2 hf1 hf2
        rw [lk1 g] at hf1
        rw [lk2 g] at hf2
        have m1 : (g, d1) ∈ (gps1 ++ gps2).flatMap (patchData (cffTag v2)) := by
          rw [List.flatMap_append]; exact List.mem_append_left _ (lookup_some_mem _ g d1 hf1)
        have m2 : (g, d2) ∈ (gps1 ++ gps2).flatMap (patchData (cffTag v2)) := by
          rw [List.flatMap_append]; exact List.mem_append_right _ (lookup_some_mem _ g d2 hf2)
        exact agree_flat (cffTag v2) _ hagree g d1 d2 m1 m2
  have hpre : out1.take at_ = b.take at_ := by
    rw [e1]; unfold cffEmit
    rw [List.append_assoc, List.append_assoc, List.append_assoc]
    exact List.take_left' hpl
  -- the offset widths: both routes see the same total
  obtain ⟨T1, _, _, _, _, hch1⟩ := htot1
  obtain ⟨T2, hT2, _, _, _, hch2⟩ := htot2
  obtain ⟨T12, hT12, _, _, _, hch12⟩ := htot12
  have hTeq : T2 = T12 := by
    have a2 := totalDataSize_eq _ repl2 m T2
      (by show (cffOffsets _).Pairwise _; rw [hoffs]; exact newOffsets_pairwise cs1) sr2 hle2 hk2 hT2
    have a12 := totalDataSize_eq _ repl12 m T12
      (by show (cffOffsets ix).Pairwise _; exact ascending_pairwise _ hA) sr12 hle12 hk12 hT12
    rw [a2, a12]
    show (chunks _ t1 repl2 m).flatten.length = (chunks _ t0 repl12 m).flatten.length
    rw [chunks_cff_indep _ t1 t2 ht1 ht2, hchunks, chunks_cff_indep _ t12 t0 ht12 ht0]
  subst hTeq
  have w1 := cff_choose_width ix t0 ht0 T1 t1 hch1
  have w2 := cff_choose_width _ t1 ht1 T2 t2 hch2
  have w12 := cff_choose_width ix t0 ht0 T2 t12 hch12
  refine ⟨at_, newOffsets (chunks (cffArray ix t0) t12 repl12 m),
    (chunks (cffArray ix t0) t12 repl12 m).flatten, t2, t12, ha, hle, ht2, ht12, ?_, e12, by omega, ?_⟩
  · rw [e2, hchunks, hpre]
  · intro ix' t0' hv'' hbyte
    rw [hv] at hv''
    cases hv''
    have hb := cffEmit_offSize v2 (b.take at_) (m + 1) t1 (encodeOffs t1 (newOffsets cs1)) cs1.flatten
    rw [hpl, ← e1, hbyte] at hb
    have e10 : t1 = t0 := (IsCffType.eq_of_width ht0 ht1 hb).symm
    subst e10
    have : t2 = t12 := IsCffType.eq_of_width ht2 ht12 (by omega)
    subst this
    rw [e2, hchunks, hpre, e12]

end FontVerif.Ift
