/-
Helper lemmas for C16 (Model/Layout.lean): correctness of the transcribed
`core::slice::binary_search_by`, positions in strictly increasing lists, well-formed range
records and their expansion.
-/
import FontVerif.Model.Layout
set_option linter.unusedVariables false
namespace FontVerif.Layout

/-! ## binary search -/

def rank : Ordering → Nat
  | .lt => 0
  | .eq => 1
  | .gt => 2

/-- the comparison results along the slice are `Less* Equal* Greater*` -/
def Mono (n : Nat) (cmpAt : Nat → Ordering) : Prop :=
  ∀ i j, i ≤ j → j < n → rank (cmpAt i) ≤ rank (cmpAt j)

theorem rank_gt {o : Ordering} : rank o = 2 ↔ o = .gt := by cases o <;> simp [rank]
theorem rank_lt {o : Ordering} : rank o = 0 ↔ o = .lt := by cases o <;> simp [rank]
theorem rank_le_two (o : Ordering) : rank o ≤ 2 := by cases o <;> simp [rank]

theorem bsLoop_inv {n : Nat} {cmpAt : Nat → Ordering} (hm : Mono n cmpAt) :
    ∀ size base, 1 ≤ size → base + size ≤ n → (base = 0 ∨ cmpAt base ≠ .gt) →
      (∀ j, base + size ≤ j → j < n → cmpAt j = .gt) →
      bsLoop cmpAt size base < n ∧
      (bsLoop cmpAt size base = 0 ∨ cmpAt (bsLoop cmpAt size base) ≠ .gt) ∧
      (∀ j, bsLoop cmpAt size base < j → j < n → cmpAt j = .gt) := by
  intro size
  induction size using Nat.strongRecOn with
  | _ size ih =>
    intro base h1 hle hb hgt
    unfold bsLoop
    by_cases hs : size > 1
    · simp only [hs, ↓reduceDIte]
      have hhalf : 0 < size / 2 := by omega
      have hlt : size - size / 2 < size := by omega
      by_cases hc : cmpAt (base + size / 2) = .gt
      · have e : (cmpAt (base + size / 2) == Ordering.gt) = true := by simp [hc]
        simp only [e, ↓reduceIte]
        apply ih (size - size / 2) hlt base (by omega) (by omega) hb
        intro j hj hjn
        have := hm (base + size / 2) j (by omega) hjn
        rw [hc] at this
        have h2 := rank_le_two (cmpAt j)
        have h3 : rank Ordering.gt = 2 := rfl
        exact rank_gt.mp (by omega)
      · have e : (cmpAt (base + size / 2) == Ordering.gt) = false := by
          cases h : cmpAt (base + size / 2) <;> simp_all
        simp only [e, Bool.false_eq_true, ↓reduceIte]
        apply ih (size - size / 2) hlt (base + size / 2) (by omega) (by omega) (Or.inr hc)
        intro j hj hjn
        exact hgt j (by omega) hjn
    · simp only [hs, ↓reduceDIte]
      have : size = 1 := by omega
      subst this
      exact ⟨by omega, hb, fun j hj hjn => hgt j (by omega) hjn⟩

theorem bs_ok {n : Nat} {cmpAt : Nat → Ordering} (hm : Mono n cmpAt) {i : Nat}
    (h : binarySearchBy n cmpAt = .ok i) : i < n ∧ cmpAt i = .eq := by
  unfold binarySearchBy at h
  by_cases hn : n = 0
  · simp [hn] at h
  · simp only [hn, ↓reduceIte] at h
    have inv := bsLoop_inv hm n 0 (by omega) (by omega) (Or.inl rfl) (fun j hj hjn => by omega)
    generalize bsLoop cmpAt n 0 = b at h inv
    cases hc : cmpAt b <;> simp [hc] at h
    subst h
    exact ⟨inv.1, hc⟩

theorem bs_err {n : Nat} {cmpAt : Nat → Ordering} (hm : Mono n cmpAt) {i : Nat}
    (h : binarySearchBy n cmpAt = .err i) :
    i ≤ n ∧ (∀ j, j < i → cmpAt j = .lt) ∧ (∀ j, i ≤ j → j < n → cmpAt j = .gt) := by
  unfold binarySearchBy at h
  by_cases hn : n = 0
  · simp [hn] at h
    subst h; subst hn
    exact ⟨by omega, fun j hj => by omega, fun j _ hj => by omega⟩
  · simp only [hn, ↓reduceIte] at h
    have inv := bsLoop_inv hm n 0 (by omega) (by omega) (Or.inl rfl) (fun j hj hjn => by omega)
    generalize bsLoop cmpAt n 0 = b at h inv
    cases hc : cmpAt b <;> simp [hc] at h
    · subst h
      refine ⟨by omega, fun j hj => ?_, fun j hj hjn => inv.2.2 j (by omega) hjn⟩
      have := hm j b (by omega) inv.1
      rw [hc] at this
      have h3 : rank Ordering.lt = 0 := rfl
      exact rank_lt.mp (by omega)
    · subst h
      have hb0 : b = 0 := by
        rcases inv.2.1 with h0 | h0
        · exact h0
        · exact absurd hc h0
      subst hb0
      refine ⟨by omega, fun j hj => by omega, fun j hj hjn => ?_⟩
      by_cases hj0 : j = 0
      · subst hj0; exact hc
      · exact inv.2.2 j (by omega) hjn

/-- no element compares `Equal` when the search fails -/
theorem bs_err_no_eq {n : Nat} {cmpAt : Nat → Ordering} (hm : Mono n cmpAt) {i : Nat}
    (h : binarySearchBy n cmpAt = .err i) (j : Nat) (hj : j < n) : cmpAt j ≠ .eq := by
  have ⟨_, hl, hg⟩ := bs_err hm h
  by_cases hji : j < i
  · rw [hl j hji]; decide
  · rw [hg j (by omega) hj]; decide


/-! ## positions in lists -/

theorem indexIn_none {g : Nat} {xs : List Nat} (h : g ∉ xs) : indexIn g xs = none := by
  induction xs with
  | nil => rfl
  | cons x xs ih =>
    simp only [List.mem_cons, not_or] at h
    have hx : ¬ x = g := fun e => h.1 e.symm
    simp [indexIn, hx, ih h.2]

theorem indexIn_some_mem {g i : Nat} {xs : List Nat} (h : indexIn g xs = some i) :
    xs[i]? = some g := by
  induction xs generalizing i with
  | nil => simp [indexIn] at h
  | cons x xs ih =>
    unfold indexIn at h
    by_cases hx : x = g
    · simp [hx] at h; subst h; simp [hx]
    · simp only [hx, ↓reduceIte, Option.map_eq_some_iff] at h
      obtain ⟨k, hk, rfl⟩ := h
      simp [ih hk]

/-- in a duplicate-free list the position of an element is where it is -/
theorem indexIn_of_getElem? {g i : Nat} {xs : List Nat} (hn : xs.Pairwise (· ≠ ·))
    (h : xs[i]? = some g) : indexIn g xs = some i := by
  induction xs generalizing i with
  | nil => simp at h
  | cons x xs ih =>
    rw [List.pairwise_cons] at hn
    cases i with
    | zero => simp at h; simp [indexIn, h]
    | succ k =>
      simp only [List.getElem?_cons_succ] at h
      have hmem : g ∈ xs := List.mem_of_getElem? h
      have hx : ¬ x = g := hn.1 g hmem
      simp [indexIn, hx, ih hn.2 h]

theorem indexIn_append (g : Nat) (a b : List Nat) :
    indexIn g (a ++ b) =
      match indexIn g a with
      | some i => some i
      | none => (indexIn g b).map (· + a.length) := by
  induction a with
  | nil => simp [indexIn]
  | cons x xs ih =>
    by_cases hx : x = g
    · simp [indexIn, hx]
    · simp only [List.cons_append, indexIn, hx, ↓reduceIte, ih, List.length_cons]
      cases indexIn g xs with
      | some i => simp
      | none =>
        cases indexIn g b with
        | some j => simp; omega
        | none => simp

theorem indexIn_range' (g s n : Nat) :
    indexIn g (List.range' s n) = if s ≤ g ∧ g < s + n then some (g - s) else none := by
  induction n generalizing s with
  | zero => simp [indexIn]
  | succ n ih =>
    rw [List.range'_succ]
    unfold indexIn
    by_cases hs : s = g
    · subst hs; simp
    · simp only [hs, ↓reduceIte, ih]
      by_cases h : s + 1 ≤ g ∧ g < s + 1 + n
      · have h' : s ≤ g ∧ g < s + (n + 1) := by omega
        simp only [h, h']; simp; omega
      · have h' : ¬ (s ≤ g ∧ g < s + (n + 1)) := by omega
        simp [h, h']

theorem pairwise_lt_ne {xs : List Nat} (h : xs.Pairwise (· < ·)) : xs.Pairwise (· ≠ ·) :=
  h.imp (fun hab => Nat.ne_of_lt hab)

/-- position in a slice of a duplicate-free list -/
theorem indexIn_slice {g s e : Nat} {xs : List Nat} (hn : xs.Pairwise (· ≠ ·)) :
    indexIn g ((xs.drop s).take (e - s)) =
      ((indexIn g xs).filter (fun i => decide (s ≤ i ∧ i < e))).map (· - s) := by
  have hsl : ((xs.drop s).take (e - s)).Pairwise (· ≠ ·) :=
    (hn.sublist (List.drop_sublist s xs)).sublist (List.take_sublist _ _)
  cases hi : indexIn g xs with
  | none =>
    have : g ∉ (xs.drop s).take (e - s) := by
      intro hm
      have hm' : g ∈ xs := (List.drop_sublist s xs).mem ((List.take_sublist _ _).mem hm)
      obtain ⟨k, hk⟩ := List.getElem?_of_mem hm'
      rw [indexIn_of_getElem? hn hk] at hi
      cases hi
    simp [indexIn_none this]
  | some i =>
    have hg := indexIn_some_mem hi
    by_cases hin : s ≤ i ∧ i < e
    · have : ((xs.drop s).take (e - s))[i - s]? = some g := by
        rw [List.getElem?_take, List.getElem?_drop]
        have : i - s < e - s := by omega
        simp only [this, ↓reduceIte]
        rw [show s + (i - s) = i by omega]; exact hg
      rw [indexIn_of_getElem? hsl this]
      have hd : (decide (s ≤ i) && decide (i < e)) = true := by simp [hin.1, hin.2]
      simp [Option.filter, hd]
    · have : g ∉ (xs.drop s).take (e - s) := by
        intro hm
        obtain ⟨k, hk⟩ := List.getElem?_of_mem hm
        rw [List.getElem?_take, List.getElem?_drop] at hk
        by_cases hke : k < e - s
        · simp only [hke, ↓reduceIte] at hk
          have := indexIn_of_getElem? hn hk
          rw [hi] at this
          simp at this; omega
        · simp [hke] at hk
      have hd : (decide (s ≤ i) && decide (i < e)) = false := by
        by_cases h1 : s ≤ i <;> by_cases h2 : i < e <;> simp [h1, h2]
        exact hin ⟨h1, h2⟩
      simp [indexIn_none this, Option.filter, hd]

/-! ## `sortDedup` -/

theorem mem_insertUniq {g y : Nat} {xs : List Nat} : y ∈ insertUniq g xs ↔ y = g ∨ y ∈ xs := by
  induction xs with
  | nil => simp [insertUniq]
  | cons x xs ih =>
    unfold insertUniq
    by_cases h1 : g < x
    · simp [h1]
    · by_cases h2 : g = x
      · subst h2; simp
      · simp [h1, h2, ih]; constructor
        · rintro (h | h | h) <;> simp [h]
        · rintro (h | h | h) <;> simp [h]

theorem insertUniq_pairwise {g : Nat} {xs : List Nat} (h : xs.Pairwise (· < ·)) :
    (insertUniq g xs).Pairwise (· < ·) := by
  induction xs with
  | nil => simp [insertUniq]
  | cons x xs ih =>
    rw [List.pairwise_cons] at h
    unfold insertUniq
    by_cases h1 : g < x
    · simp only [h1, ↓reduceIte, List.pairwise_cons]
      refine ⟨?_, h.1, h.2⟩
      intro a ha
      rcases List.mem_cons.mp ha with rfl | ha
      · exact h1
      · exact Nat.lt_trans h1 (h.1 a ha)
    · by_cases h2 : g = x
      · subst h2
        simp only [Nat.lt_irrefl, ↓reduceIte, List.pairwise_cons]
        exact ⟨h.1, h.2⟩
      · simp only [h1, h2, ↓reduceIte, List.pairwise_cons]
        refine ⟨?_, ih h.2⟩
        intro a ha
        rcases mem_insertUniq.mp ha with rfl | ha
        · omega
        · exact h.1 a ha

theorem sortDedup_pairwise (gs : List Nat) : (sortDedup gs).Pairwise (· < ·) := by
  induction gs with
  | nil => simp [sortDedup]
  | cons g gs ih => exact insertUniq_pairwise ih

theorem mem_sortDedup {g : Nat} {gs : List Nat} : g ∈ sortDedup gs ↔ g ∈ gs := by
  induction gs with
  | nil => simp [sortDedup]
  | cons x gs ih =>
    show g ∈ insertUniq x (sortDedup gs) ↔ _
    rw [mem_insertUniq, ih]; simp

/-! ## format 1 lookup -/

theorem natCmp_eq {a b : Nat} : natCmp a b = .eq ↔ a = b := by
  unfold natCmp
  by_cases h1 : a < b <;> by_cases h2 : a = b <;> simp [h1, h2] <;> omega

theorem rank_natCmp_mono {a b g : Nat} (h : a ≤ b) : rank (natCmp a g) ≤ rank (natCmp b g) := by
  unfold natCmp
  by_cases h1 : a < g <;> by_cases h2 : b < g <;> by_cases h3 : a = g <;> by_cases h4 : b = g <;>
    simp [h1, h2, h3, h4, rank] <;> omega

theorem pairwise_lt_getElem?_le {xs : List Nat} (h : xs.Pairwise (· < ·)) {i j a b : Nat}
    (hij : i ≤ j) (ha : xs[i]? = some a) (hb : xs[j]? = some b) : a ≤ b := by
  by_cases e : i = j
  · subst e; rw [ha] at hb; cases hb; exact Nat.le_refl _
  · have hi : i < xs.length := (List.getElem?_eq_some_iff.mp ha).1
    have hj : j < xs.length := (List.getElem?_eq_some_iff.mp hb).1
    have := List.pairwise_iff_getElem.mp h i j hi hj (by omega)
    rw [List.getElem?_eq_getElem hi] at ha
    rw [List.getElem?_eq_getElem hj] at hb
    cases ha; cases hb; omega

theorem getD_of_getElem? {α} {xs : List α} {i : Nat} {a d : α} (h : xs[i]? = some a) :
    xs.getD i d = a := by
  simp [List.getD, h]

theorem getElem?_of_lt_getD {α} {xs : List α} {i : Nat} (d : α) (h : i < xs.length) :
    xs[i]? = some (xs.getD i d) := by
  simp [List.getD, List.getElem?_eq_getElem h]

/-- `CoverageFormat1::get` on a strictly increasing glyph array is "position in the array" -/
theorem get_fmt1 {xs : List Nat} (hs : xs.Pairwise (· < ·)) (hb : ∀ x ∈ xs, x < 65536) (g : Nat) :
    (Coverage.fmt1 xs).get g = indexIn g xs := by
  unfold Coverage.get
  by_cases hg : g ≥ 65536
  · simp only [hg, ↓reduceIte]
    exact (indexIn_none (fun hm => by have := hb g hm; omega)).symm
  · simp only [hg, ↓reduceIte]
    have hm : Mono xs.length (fun i => natCmp (xs.getD i 0) g) := by
      intro i j hij hj
      apply rank_natCmp_mono
      exact pairwise_lt_getElem?_le hs hij (getElem?_of_lt_getD 0 (by omega)) (getElem?_of_lt_getD 0 hj)
    cases hr : binarySearchBy xs.length (fun i => natCmp (xs.getD i 0) g) with
    | ok i =>
      have ⟨hi, he⟩ := bs_ok hm hr
      have he' := natCmp_eq.mp he
      have : xs[i]? = some g := by rw [getElem?_of_lt_getD 0 hi, he']
      simp [indexIn_of_getElem? (pairwise_lt_ne hs) this]
    | err i =>
      have hne := bs_err_no_eq hm hr
      have : g ∉ xs := by
        intro hmem
        obtain ⟨k, hk⟩ := List.getElem?_of_mem hmem
        have hkl : k < xs.length := (List.getElem?_eq_some_iff.mp hk).1
        apply hne k hkl
        simp only [getD_of_getElem? hk]
        exact natCmp_eq.mpr rfl
      simp [indexIn_none this]

end FontVerif.Layout
