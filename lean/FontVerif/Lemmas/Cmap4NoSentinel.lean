/-
No-sentinel variants of C08's format 4 reader lemmas (Lemmas/Cmap4.lean): a table whose LAST ordinary segment ends at
U+FFFF and which therefore carries no terminating (0xFFFF, 0xFFFF, 1, 0) row — what klippa's `Cmap4::serialize` writes for
a retained list that contains U+FFFF (C17).  Same generic search / lookup lemmas, `nSeg = segs.length`.
-/
import FontVerif.Lemmas.Cmap4
set_option linter.unusedVariables false
namespace FontVerif.Cmap
open FontVerif

/-- the five arrays of exactly these rows (no appended terminator) -/
def Cmap4.ofRowsRaw (rows : List Row) (g : List Nat) : Cmap4 :=
  { endCode := (rows.map Row.end_).toArray
    startCode := (rows.map Row.start).toArray
    idDelta := (rows.map Row.delta).toArray
    idRangeOffsets := (rows.map Row.off).toArray
    glyphIdArray := g.toArray }

theorem ofRowsRaw_size (rows : List Row) (g : List Nat) :
    (Cmap4.ofRowsRaw rows g).endCode.size = rows.length ∧
    (Cmap4.ofRowsRaw rows g).startCode.size = rows.length ∧
    (Cmap4.ofRowsRaw rows g).idRangeOffsets.size = rows.length := by
  simp [Cmap4.ofRowsRaw]

theorem ofRowsRaw_row (rows : List Row) (g : List Nat) (j : Nat) (row : Row) (h : rows[j]? = some row) :
    (Cmap4.ofRowsRaw rows g).startCode[j]? = some row.start ∧
    (Cmap4.ofRowsRaw rows g).endCode[j]? = some row.end_ ∧
    (Cmap4.ofRowsRaw rows g).idDelta[j]? = some row.delta ∧
    (Cmap4.ofRowsRaw rows g).idRangeOffsets[j]? = some row.off := by
  have hj : j < rows.length := by
    rcases Nat.lt_or_ge j rows.length with h' | h'
    · exact h'
    · rw [List.getElem?_eq_none h'] at h; cases h
  have hrow : rows[j] = row := by
    rw [List.getElem?_eq_getElem hj] at h; exact Option.some.inj h
  simp [Cmap4.ofRowsRaw, hj, hrow]

/-- the whole BMP mapping by index, U+FFFF allowed -/
structure MapOkF (cp gid : Nat → Nat) (n : Nat) : Prop where
  mono : ∀ i j, i < j → j < n → cp i < cp j
  cpLe : ∀ k, k < n → cp k ≤ 0xFFFF
  gidOk : ∀ k, k < n → 1 ≤ gid k ∧ gid k ≤ 0xFFFF

def RowsMatchF (cp gid : Nat → Nat) (segs : List Seg) (rows : List Row) (g : List Nat) : Prop :=
  rows.length = segs.length ∧ ∀ j (h : j < segs.length), ∃ row, rows[j]? = some row ∧
    RowSpec cp gid segs.length j segs[j] row g

def sRowF (cp : Nat → Nat) (segs : List Seg) (i : Nat) : Nat :=
  if h : i < segs.length then cp segs[i].startIx else 0
def eRowF (cp : Nat → Nat) (segs : List Seg) (i : Nat) : Nat :=
  if h : i < segs.length then cp segs[i].endIx else 0

theorem rows_sortedF {cp gid : Nat → Nat} {n : Nat} {segs : List Seg} (hm : MapOkF cp gid n)
    (ht : SegsTile cp gid 0 n segs) : RangesSorted (sRowF cp segs) (eRowF cp segs) segs.length := by
  obtain ⟨p1, p2, p3⟩ := ht.pointwise
  constructor
  · intro i hi
    unfold sRowF eRowF
    simp only [hi, dite_true]
    obtain ⟨_, hok, _⟩ := p1 i hi
    have := hok.run segs[i].endIx hok.le (Nat.le_refl _)
    omega
  · intro i j hij hj
    unfold sRowF eRowF
    have hi : i < segs.length := by omega
    obtain ⟨_, hoki, hni⟩ := p1 i hi
    obtain ⟨_, hokj, hnj⟩ := p1 j hj
    simp only [hi, hj, dite_true]
    have := p2 i j hij hj
    exact hm.mono _ _ this (by have := hokj.le; omega)

theorem rows_codesF {cp gid : Nat → Nat} {n : Nat} {segs : List Seg} {rows : List Row} {g : List Nat}
    (hm : MapOkF cp gid n) (ht : SegsTile cp gid 0 n segs) (hr : RowsMatchF cp gid segs rows g) :
    (∀ i, i < segs.length → (Cmap4.ofRowsRaw rows g).startCode[i]? = some (sRowF cp segs i)) ∧
    (∀ i, i < segs.length → (Cmap4.ofRowsRaw rows g).endCode[i]? = some (eRowF cp segs i)) := by
  obtain ⟨p1, p2, p3⟩ := ht.pointwise
  obtain ⟨hlen, hrows⟩ := hr
  constructor
  · intro i h
    unfold sRowF
    simp only [h, dite_true]
    obtain ⟨row, hrow, hs, _⟩ := hrows i h
    obtain ⟨_, hok, hn⟩ := p1 i h
    have := hm.cpLe segs[i].startIx (by have := hok.le; omega)
    rw [(ofRowsRaw_row rows g i row hrow).1, hs]
    congr 1
    omega
  · intro i h
    unfold eRowF
    simp only [h, dite_true]
    obtain ⟨row, hrow, _, he, _⟩ := hrows i h
    obtain ⟨_, hok, hn⟩ := p1 i h
    have := hm.cpLe segs[i].endIx hn
    rw [(ofRowsRaw_row rows g i row hrow).2.1, he]
    congr 1
    omega

/-- the table answers a mapped character (index `k` of the mapping, U+FFFF included) with its glyph -/
theorem map4_mappedF {cp gid : Nat → Nat} {n : Nat} {segs : List Seg} {rows : List Row} {g : List Nat}
    (hm : MapOkF cp gid n) (ht : SegsTile cp gid 0 n segs) (hr : RowsMatchF cp gid segs rows g)
    (k : Nat) (hk : k < n) : map4 (Cmap4.ofRowsRaw rows g) (cp k) = some (gid k) := by
  obtain ⟨p1, p2, p3⟩ := ht.pointwise
  obtain ⟨hsc, hec⟩ := rows_codesF hm ht hr
  have hsorted := rows_sortedF hm ht
  obtain ⟨hlen, hrows⟩ := hr
  obtain ⟨j, hj, hj1, hj2⟩ := p3 k (Nat.zero_le _) hk
  obtain ⟨_, hok, hn⟩ := p1 j hj
  have hcpk := hok.run k hj1 hj2
  have hcpe := hok.run segs[j].endIx hok.le (Nat.le_refl _)
  have hs1 : sRowF cp segs j ≤ cp k := by simp only [sRowF, hj, dite_true]; omega
  have hs2 : cp k ≤ eRowF cp segs j := by simp only [eRowF, hj, dite_true]; omega
  have hfound := segSearch_found (fun i => (Cmap4.ofRowsRaw rows g).startCode[i]?)
    (fun i => (Cmap4.ofRowsRaw rows g).endCode[i]?) _ _ segs.length (cp k) j hsc hec hsorted
    hj hs1 hs2
  have hck := hm.cpLe k hk
  have hgk := hm.gidOk k hk
  unfold map4 map4With
  have hnot : ¬ (cp k > 0xFFFF) := by omega
  simp only [hnot, if_false, (ofRowsRaw_size rows g).1, hlen, hfound, hsc j hj]
  simp only [sRowF, hj, dite_true]
  obtain ⟨row, hrow, _, _, hspec⟩ := hrows j hj
  obtain ⟨_, _, hδ, hoffs⟩ := ofRowsRaw_row rows g j row hrow
  cases hd : segs[j].idDelta with
  | some d =>
    simp only [hd] at hspec
    rw [lookupGlyphId_delta _ _ _ _ _ (hspec.1 ▸ hδ) (hspec.2 ▸ hoffs)]
    have hdk := hok.delta d hd k hj1 hj2
    congr 1
    subst hdk
    unfold wrapU16 wrapI16
    simp only []
    split <;> omega
  | none =>
    simp only [hd] at hspec
    obtain ⟨h0, p, hp, _, hg⟩ := hspec
    have hsz := (ofRowsRaw_size rows g).2.2
    have hgv := hg (k - segs[j].startIx) (by omega)
    have hidx : p + (cp k - cp segs[j].startIx) = p + (k - segs[j].startIx) := by omega
    have hkk : segs[j].startIx + (k - segs[j].startIx) = k := by omega
    rw [lookupGlyphId_offset _ _ _ _ p (gid k) _ (h0 ▸ hδ)
      (by rw [hoffs, hp, hsz, hlen]) (by omega)
      (by simp only [Cmap4.ofRowsRaw, List.getElem?_toArray]; rw [hidx, hgv, hkk]) (by omega)]
    congr 1
    unfold wrapU16
    omega

/-- every character that is not listed gets no glyph (U+FFFF too, when it is not listed) -/
theorem map4_unmappedF {cp gid : Nat → Nat} {n : Nat} {segs : List Seg} {rows : List Row} {g : List Nat}
    (hm : MapOkF cp gid n) (ht : SegsTile cp gid 0 n segs) (hr : RowsMatchF cp gid segs rows g)
    (c : Nat) (hno : ∀ k, k < n → cp k ≠ c) :
    map4 (Cmap4.ofRowsRaw rows g) c = none := by
  obtain ⟨p1, p2, p3⟩ := ht.pointwise
  obtain ⟨hsc, hec⟩ := rows_codesF hm ht hr
  have hsorted := rows_sortedF hm ht
  obtain ⟨hlen, hrows⟩ := hr
  unfold map4 map4With
  by_cases hbig : c > 0xFFFF
  · simp [hbig]
  · simp only [hbig, if_false, (ofRowsRaw_size rows g).1, hlen]
    have hnone := segSearch_none (fun i => (Cmap4.ofRowsRaw rows g).startCode[i]?)
      (fun i => (Cmap4.ofRowsRaw rows g).endCode[i]?) _ _ segs.length c hsc hec hsorted (by
        intro i h ⟨h1, h2⟩
        simp only [sRowF, eRowF, h, dite_true] at h1 h2
        obtain ⟨_, hok, hn⟩ := p1 i h
        have hle := hok.le
        have hcpe := hok.run segs[i].endIx hok.le (Nat.le_refl _)
        have hrun := hok.run (segs[i].startIx + (c - cp segs[i].startIx)) (by omega) (by omega)
        exact hno (segs[i].startIx + (c - cp segs[i].startIx)) (by omega) (by omega))
    simp [hnone]

end FontVerif.Cmap
