/-
Helper lemmas for C17 (Model/SubsetCmap.lean): `serialize_cmap` — which encoding records are written,
in which order, and what the object behind each of them is.
-/
import FontVerif.Model.SubsetCmap
set_option linter.unusedVariables false
namespace FontVerif.SubsetCmap
open FontVerif FontVerif.Cmap

/-- the (code point, new gid) list handed to the writer of a format 4 subtable -/
def list4 (p : PlanIn) (t : Cmap4) : List (Nat × Nat) :=
  p.u2g.filter (fun x => memSet (mkSet (collect4 t)) x.1)

/-- `cmap12_subset_unicodes` -/
def sub12Of (p : PlanIn) (gs : List Group) : List Nat :=
  p.unicodes.filter (fun u => memSet (mkSet (collect12 gs p.numGlyphs)) u)

/-- the list handed to the writer of a format 12 subtable -/
def list12 (p : PlanIn) (gs : List Group) : List (Nat × Nat) :=
  p.u2g.filter (fun x => memSet (mkSet (sub12Of p gs)) x.1)

/-- does a retained record write an encoding record?  `d` = the format 4 subtables are being dropped
(retry after a 64 KiB overflow) -/
def survives (p : PlanIn) (all : List RecIn) (d : Bool) (r : RecIn) : Bool :=
  match r.sub with
  | .f4 lang t =>
    !d && (match serialize4 lang (list4 p t) with
           | .ok [] => false
           | _ => true)
  | .f12 _ gs => !(!d && canDropFormat12 r (sub12Of p gs) all p)
  | .f14 recs =>
    (match uvsRetained p recs with
     | some objs => !objs.all (fun x => x.2.1.isNone && x.2.2.isNone)
     | none => true)
  | _ => false

def recKey (x : Nat × Nat × Nat) : Nat × Nat := (x.1, x.2.1)

/-- `b` keeps every object of `a` at its index -/
def Ext (a b : List Obj) : Prop := ∀ (j : Nat) (o : Obj), a[j]? = some o → b[j]? = some o

theorem Ext.refl (a : List Obj) : Ext a a := fun _ _ h => h
theorem Ext.trans {a b c : List Obj} (h1 : Ext a b) (h2 : Ext b c) : Ext a c := fun j o h => h2 j o (h1 j o h)

theorem ext_append (a b : List Obj) : Ext a (a ++ b) := by
  unfold Ext
  intro j o h
  have hj : j < a.length := by
    rcases Nat.lt_or_ge j a.length with h' | h'
    · exact h'
    · rw [List.getElem?_eq_none h'] at h; cases h
  rw [List.getElem?_append_left hj]
  exact h

theorem packShared_spec (packed : List Obj) (o : Obj) :
    Ext packed (packShared packed o).1 ∧ (packShared packed o).1[(packShared packed o).2]? = some o := by
  unfold packShared
  cases hf : packed.findIdx? (· == o) with
  | none =>
    simp only
    exact ⟨ext_append _ _, by simp⟩
  | some i =>
    simp only
    refine ⟨Ext.refl _, ?_⟩
    obtain ⟨hlt, hi, _⟩ := List.findIdx?_eq_some_iff_getElem.1 hf
    rw [List.getElem?_eq_getElem hlt]
    congr 1
    simpa using hi

theorem packOpt_ext (packed : List Obj) (o : Option Obj) : Ext packed (packOpt packed o).1 := by
  cases o with
  | none => exact Ext.refl _
  | some o => exact (packShared_spec packed o).1

theorem packUvs_ext : ∀ (objs : List (VarSelIn × Option Obj × Option Obj)) (packed : List Obj),
    Ext packed (packUvs objs packed).1 := by
  intro objs
  induction objs with
  | nil => intro packed; exact Ext.refl _
  | cons x rest ih =>
    intro packed
    obtain ⟨r, d, n⟩ := x
    simp only [packUvs]
    exact (ih packed).trans ((packOpt_ext _ n).trans (packOpt_ext _ d))

theorem serialize14_ext (p : PlanIn) (recs : List VarSelIn) (packed pk : List Obj) (o : Option Obj)
    (h : serialize14 p recs packed = .ok (pk, o)) : Ext packed pk := by
  unfold serialize14 at h
  split at h
  · cases h
  · rename_i objs _
    split at h
    · cases h; exact Ext.refl _
    · cases h; exact packUvs_ext objs packed

/-- what the object behind the encoding record written for `r` is -/
def ObjFor (p : PlanIn) (r : RecIn) (o : Obj) : Prop :=
  match r.sub with
  | .f4 lang t => serialize4 lang (list4 p t) = .ok o.bytes ∧ o.bytes ≠ [] ∧ o.links = []
  | .f12 lang gs => serialize12 lang (list12 p gs) = .ok o.bytes ∧ o.links = []
  | .f14 recs => ∃ pk pk', serialize14 p recs pk = .ok (pk', some o)
  | _ => False

/-- every encoding record written so far comes from a record of `all` and points at its object -/
def SerInv (p : PlanIn) (all : List RecIn) (st : CmapSer) : Prop :=
  ∀ x ∈ st.records, ∃ r ∈ all, (r.platform, r.encoding) = recKey x ∧
    ∃ o, st.packed[x.2.2]? = some o ∧ ObjFor p r o

theorem serInv_push (p : PlanIn) (all : List RecIn) (st : CmapSer) (r : RecIn) (hr : r ∈ all)
    (pk : List Obj) (i : Nat) (o : Obj) (has12 : Bool) (hinv : SerInv p all st) (hext : Ext st.packed pk)
    (hi : pk[i]? = some o) (ho : ObjFor p r o) :
    SerInv p all { records := st.records ++ [(r.platform, r.encoding, i)], packed := pk, has12 := has12 } := by
  intro x hx
  simp only [List.mem_append, List.mem_singleton] at hx
  rcases hx with hx | rfl
  · obtain ⟨r', h1, h2, o', h3, h4⟩ := hinv x hx
    exact ⟨r', h1, h2, o', hext _ _ h3, h4⟩
  · exact ⟨r, hr, rfl, o, hi, ho⟩

/-- the loop of `serialize_cmap`: the encoding records written are those of the surviving records, in
order; each points at the object its writer produced -/
theorem serializeCmapGo_spec (p : PlanIn) (all : List RecIn) (d : Bool) :
    ∀ (rs : List RecIn) (st st' : CmapSer), (∀ r ∈ rs, r ∈ all) → SerInv p all st →
      serializeCmapGo p all d rs st = .ok st' →
      st'.records.map recKey = st.records.map recKey ++
        (rs.filter (survives p all d)).map (fun r => (r.platform, r.encoding)) ∧
      SerInv p all st' := by
  intro rs
  induction rs with
  | nil =>
    intro st st' _ hinv h
    simp only [serializeCmapGo] at h
    cases h
    exact ⟨by simp, hinv⟩
  | cons r rest ih =>
    intro st st' hsub hinv h
    have hr : r ∈ all := hsub r (List.mem_cons_self ..)
    have hsub' : ∀ q ∈ rest, q ∈ all := fun q hq => hsub q (List.mem_cons_of_mem _ hq)
    rw [serializeCmapGo] at h
    cases hs : r.sub with
    | unreadable =>
      simp only [hs] at h
      obtain ⟨h1, h2⟩ := ih st st' hsub' hinv h
      exact ⟨by rw [h1]; simp [List.filter_cons, survives, hs], h2⟩
    | other f l =>
      simp only [hs] at h
      obtain ⟨h1, h2⟩ := ih st st' hsub' hinv h
      exact ⟨by rw [h1]; simp [List.filter_cons, survives, hs], h2⟩
    | f4 lang t =>
      simp only [hs] at h
      cases d with
      | true =>
        simp only [if_true] at h
        obtain ⟨h1, h2⟩ := ih st st' hsub' hinv h
        exact ⟨by rw [h1]; simp [List.filter_cons, survives, hs], h2⟩
      | false =>
        simp only [Bool.false_eq_true, if_false] at h
        have hlist : p.u2g.filter (fun x => memSet (mkSet (collect4 t)) x.1) = list4 p t := rfl
        rw [hlist] at h
        cases hser : serialize4 lang (list4 p t) with
        | trap => simp [hser] at h
        | err e => simp [hser] at h
        | ok bytes =>
          cases bytes with
          | nil =>
            simp only [hser] at h
            obtain ⟨h1, h2⟩ := ih st st' hsub' hinv h
            exact ⟨by rw [h1]; simp [List.filter_cons, survives, hs, hser], h2⟩
          | cons b bs =>
            simp only [hser] at h
            have hps := packShared_spec st.packed { bytes := b :: bs, links := [] }
            have hinv' := serInv_push p all st r hr _ _ _ st.has12 hinv hps.1 hps.2
              (by simp only [ObjFor, hs]; exact ⟨hser, by simp, by first | rfl | trivial⟩)
            obtain ⟨h1, h2⟩ := ih _ st' hsub' hinv' h
            refine ⟨?_, h2⟩
            rw [h1]
            simp [List.filter_cons, survives, hs, hser, recKey]
    | f12 lang gs =>
      simp only [hs] at h
      have hsub12 : p.unicodes.filter (fun u => memSet (mkSet (collect12 gs p.numGlyphs)) u) = sub12Of p gs := rfl
      rw [hsub12] at h
      by_cases hdrop : (!d && canDropFormat12 r (sub12Of p gs) all p) = true
      · simp only [hdrop, if_true] at h
        obtain ⟨h1, h2⟩ := ih st st' hsub' hinv h
        exact ⟨by rw [h1]; simp [List.filter_cons, survives, hs, hdrop], h2⟩
      · have hdrop' : (!d && canDropFormat12 r (sub12Of p gs) all p) = false := by
          cases hq : (!d && canDropFormat12 r (sub12Of p gs) all p) <;> simp_all
        simp only [hdrop', Bool.false_eq_true, if_false] at h
        have hlist : p.u2g.filter (fun x => memSet (mkSet (sub12Of p gs)) x.1) = list12 p gs := rfl
        rw [hlist] at h
        cases hser : serialize12 lang (list12 p gs) with
        | trap => simp [hser] at h
        | err e => simp [hser] at h
        | ok bytes =>
          simp only [hser] at h
          have hps := packShared_spec st.packed { bytes := bytes, links := [] }
          have hinv' := serInv_push p all st r hr _ _ _ true hinv hps.1 hps.2
            (by simp only [ObjFor, hs]; exact ⟨hser, by first | rfl | trivial⟩)
          obtain ⟨h1, h2⟩ := ih _ st' hsub' hinv' h
          refine ⟨?_, h2⟩
          rw [h1]
          simp [List.filter_cons, survives, hs, hdrop', recKey]
    | f14 recs =>
      simp only [hs] at h
      cases hser : serialize14 p recs st.packed with
      | trap => simp [hser] at h
      | err e => simp [hser] at h
      | ok res =>
        obtain ⟨pk, oo⟩ := res
        have hsurv : survives p all d r = oo.isSome := by
          simp only [survives, hs]
          unfold serialize14 at hser
          cases hu : uvsRetained p recs with
          | none => simp [hu] at hser
          | some objs =>
            simp only [hu] at hser ⊢
            by_cases hall : objs.all (fun x => x.2.1.isNone && x.2.2.isNone) = true
            · simp only [hall, if_true] at hser
              cases hser
              simp [hall]
            · simp only [hall, if_false] at hser
              cases hser
              simp [hall]
        cases oo with
        | none =>
          simp only [hser] at h
          obtain ⟨h1, h2⟩ := ih st st' hsub' hinv h
          exact ⟨by rw [h1]; simp [List.filter_cons, hsurv], h2⟩
        | some o =>
          simp only [hser] at h
          have hext := serialize14_ext p recs st.packed pk (some o) hser
          have hps := packShared_spec pk o
          have hinv' := serInv_push p all st r hr _ _ _ st.has12 hinv (hext.trans hps.1) hps.2
            (by simp only [ObjFor, hs]; exact ⟨st.packed, pk, hser⟩)
          obtain ⟨h1, h2⟩ := ih _ st' hsub' hinv' h
          refine ⟨?_, h2⟩
          rw [h1]
          simp [List.filter_cons, hsurv, recKey]

/-! ## non-default UVS -/

/-- a non-default mapping is kept when its character is in the plan's unicodes or its glyph was
requested -/
def keepNonDefault (p : PlanIn) (m : Nat × Nat) : Bool :=
  p.unicodes.contains m.1 || p.glyphsRequested.contains m.2

theorem copyNonDefault_spec (p : PlanIn) : ∀ (maps : List (Nat × Nat)) (b : List Nat) (n : Nat),
    copyNonDefault p maps = some (b, n) →
    n = (maps.filter (keepNonDefault p)).length ∧
    ∃ news : List Nat, news.length = n ∧
      (∀ k (hk : k < n), ∃ hk' : k < (maps.filter (keepNonDefault p)).length,
        lookupMap p.glyphMap ((maps.filter (keepNonDefault p))[k]).2 = news[k]?) ∧
      b = (List.zip (maps.filter (keepNonDefault p)) news).flatMap
            (fun x => be24 x.1.1 ++ be16 (x.2 % 65536)) := by
  intro maps
  induction maps with
  | nil =>
    intro b n h
    simp only [copyNonDefault] at h
    cases h
    exact ⟨rfl, [], rfl, fun k hk => by omega, rfl⟩
  | cons m rest ih =>
    intro b n h
    obtain ⟨u, g⟩ := m
    rw [copyNonDefault] at h
    by_cases hskip : (!p.unicodes.contains u && !p.glyphsRequested.contains g) = true
    · simp only [hskip, if_true] at h
      have hk : keepNonDefault p (u, g) = false := by
        simp only [keepNonDefault]
        cases h1 : p.unicodes.contains u <;> cases h2 : p.glyphsRequested.contains g <;> simp_all
      obtain ⟨e1, news, e2, e3, e4⟩ := ih b n h
      simp only [List.filter_cons, hk, Bool.false_eq_true, if_false]
      exact ⟨e1, news, e2, e3, e4⟩
    · have hk : keepNonDefault p (u, g) = true := by
        simp only [keepNonDefault]
        cases h1 : p.unicodes.contains u <;> cases h2 : p.glyphsRequested.contains g <;> simp_all
      simp only [hskip, Bool.false_eq_true, if_false] at h
      cases hl : lookupMap p.glyphMap g with
      | none => simp [hl] at h
      | some ng =>
        simp only [hl] at h
        cases hrest : copyNonDefault p rest with
        | none => simp [hrest] at h
        | some res =>
          obtain ⟨b', n'⟩ := res
          simp only [hrest] at h
          cases h
          obtain ⟨e1, news, e2, e3, e4⟩ := ih b' n' hrest
          simp only [List.filter_cons, hk, if_true, List.length_cons]
          refine ⟨by omega, ng :: news, by simp [e2], ?_, ?_⟩
          · intro k hk2
            cases k with
            | zero => exact ⟨by omega, by simp [hl]⟩
            | succ k =>
              obtain ⟨hk', hq⟩ := e3 k (by omega)
              exact ⟨by omega, by simpa using hq⟩
          · simp [List.zip_cons_cons, e4]

end FontVerif.SubsetCmap
