/-
Helper lemmas for C16: `ClassPairPosBuilder` — the greedy partition of class rules into subtables,
the class ids of `build_with_mapping`, the class1 × class2 matrix filled by
`ClassPairPosSubtable::build`.
-/
import FontVerif.Lemmas.LayoutLookup
set_option linter.unusedVariables false
set_option linter.unusedSimpArgs false
namespace FontVerif.Layout

/-! ### `setMany` -/

theorem setMany_spec {α β : Type} (step : α → Option (Nat × β)) :
    ∀ (as : List α) (out : List β),
      (∀ a ∈ as, ∃ i v, step a = some (i, v) ∧ i < out.length) →
      as.Pairwise (fun a c => ∀ i v j w, step a = some (i, v) → step c = some (j, w) → i ≠ j) →
      ∃ res, setMany step as out = some res ∧ res.length = out.length ∧
        (∀ a ∈ as, ∀ i v, step a = some (i, v) → res[i]? = some v) ∧
        (∀ j, (∀ a ∈ as, ∀ i v, step a = some (i, v) → i ≠ j) → res[j]? = out[j]?) := by
  intro as
  induction as with
  | nil => intro out _ _; exact ⟨out, rfl, rfl, fun a ha => (nomatch ha), fun j _ => rfl⟩
  | cons a as ih =>
    intro out hall hpw
    obtain ⟨i, v, hs, hi⟩ := hall a (List.mem_cons_self ..)
    rw [List.pairwise_cons] at hpw
    have hall' : ∀ a' ∈ as, ∃ i' v', step a' = some (i', v') ∧ i' < (out.set i v).length := by
      intro a' ha'
      obtain ⟨i', v', h1, h2⟩ := hall a' (List.mem_cons_of_mem _ ha')
      exact ⟨i', v', h1, by rw [List.length_set]; exact h2⟩
    obtain ⟨res, hres, hlen, hset, hkeep⟩ := ih (out.set i v) hall' hpw.2
    refine ⟨res, ?_, by rw [hlen, List.length_set], ?_, ?_⟩
    · simp only [setMany, hs, setAt?, hi, ↓reduceIte]
      exact hres
    · intro a' ha' i' v' hs'
      rcases List.mem_cons.mp ha' with rfl | ha''
      · rw [hs] at hs'
        cases hs'
        rw [hkeep i (fun c hc j w hcs => (hpw.1 c hc i v j w hs hcs).symm), List.getElem?_set]
        simp [hi]
      · exact hset a' ha'' i' v' hs'
    · intro j hj
      rw [hkeep j (fun c hc => hj c (List.mem_cons_of_mem _ hc)), List.getElem?_set]
      have : i ≠ j := hj a (List.mem_cons_self ..) i v hs
      simp [this]

/-! ### the class ids of `build_with_mapping` -/

theorem eq_of_nodup_map {α β : Type} (f : α → β) : ∀ (l : List α), (l.map f).Nodup →
    ∀ a ∈ l, ∀ c ∈ l, f a = f c → a = c := by
  intro l
  induction l with
  | nil => intro _ a ha; cases ha
  | cons x xs ih =>
    intro hnd a ha c hc he
    rw [List.map_cons, List.nodup_cons] at hnd
    rcases List.mem_cons.mp ha with rfl | ha' <;> rcases List.mem_cons.mp hc with rfl | hc'
    · rfl
    · exact absurd (List.mem_map.mpr ⟨c, hc', he.symm⟩) hnd.1
    · exact absurd (List.mem_map.mpr ⟨a, ha', he⟩) hnd.1
    · exact ih hnd.2 a ha' c hc' he

/-- the invariant of a `ClassDefBuilder`: distinct, pairwise disjoint classes -/
def CDBInv (b : ClassDefBuilder) : Prop := b.classes.Pairwise ClassesDisjoint ∧ b.classes.Nodup

theorem checkedAdd_inv (b : ClassDefBuilder) (cls : List Nat) (h : CDBInv b) :
    CDBInv (b.checkedAdd cls).1 := by
  refine ⟨checkedAdd_disjoint b cls h.1, ?_⟩
  unfold ClassDefBuilder.checkedAdd
  by_cases hc : b.canAdd cls = true
  · simp only [hc, ↓reduceIte]
    by_cases hin : b.classes.contains cls = true
    · simp only [hin, ↓reduceIte]; exact h.2
    · simp only [hin, Bool.false_eq_true, ↓reduceIte]
      rw [List.nodup_append]
      refine ⟨h.2, List.nodup_iff_pairwise_ne.mpr (List.pairwise_singleton _ _), ?_⟩
      intro a ha c hcm
      simp at hcm; subst hcm
      intro e; subst e
      exact hin (List.contains_iff_mem.mpr ha)
  · simp only [hc, Bool.false_eq_true, ↓reduceIte]; exact h.2

theorem checkedAdd_useClass0 (b : ClassDefBuilder) (cls : List Nat) :
    (b.checkedAdd cls).1.useClass0 = b.useClass0 := by
  unfold ClassDefBuilder.checkedAdd
  repeat' split
  all_goals rfl

theorem checkedAdd_mem (b : ClassDefBuilder) (cls : List Nat) (hc : b.canAdd cls = true) (c : List Nat) :
    c ∈ (b.checkedAdd cls).1.classes ↔ c ∈ b.classes ∨ c = cls := by
  unfold ClassDefBuilder.checkedAdd
  simp only [hc, ↓reduceIte]
  by_cases hin : b.classes.contains cls = true
  · simp only [hin, ↓reduceIte]
    constructor
    · exact Or.inl
    · rintro (h | rfl)
      · exact h
      · exact List.contains_iff_mem.mp hin
  · simp only [hin, Bool.false_eq_true, ↓reduceIte, List.mem_append, List.mem_singleton]

/-- `can_add` only depends on the set of classes -/
theorem canAdd_eq_classCompat (b : ClassDefBuilder) (classes : List (List Nat))
    (hm : ∀ c, c ∈ b.classes ↔ c ∈ classes) (cls : List Nat) :
    b.canAdd cls = classCompat classes cls := by
  unfold ClassDefBuilder.canAdd classCompat ClassDefBuilder.allGlyphsContains
  have h1 : b.classes.contains cls = classes.contains cls := by
    rw [Bool.eq_iff_iff]
    simp only [List.contains_iff_mem]
    exact hm cls
  have h2 : ∀ g, b.classes.any (fun c => c.contains g) = classes.any (fun c' => c'.contains g) := by
    intro g
    rw [Bool.eq_iff_iff]
    simp only [List.any_eq_true]
    constructor
    · rintro ⟨c, hc, hg⟩; exact ⟨c, (hm c).mp hc, hg⟩
    · rintro ⟨c, hc, hg⟩; exact ⟨c, (hm c).mpr hc, hg⟩
  rw [h1]
  congr 1
  rw [Bool.eq_iff_iff]
  simp only [List.all_eq_true]
  constructor
  · intro h g hg; rw [← h2 g]; exact h g hg
  · intro h g hg; rw [h2 g]; exact h g hg

theorem classCompat_nil (c : List Nat) : classCompat [] c = true := by
  unfold classCompat
  simp

/-- the facts about `build_with_mapping` used by `ClassPairPosSubtable::build` -/
theorem mappingGet_spec (b : ClassDefBuilder) (h : CDBInv b) :
    (∀ c ∈ b.classes, ∃ id, mappingGet b.buildWithMapping.2 c = some id) ∧
    (∀ c id, mappingGet b.buildWithMapping.2 c = some id →
      c ∈ b.classes ∧ (if b.useClass0 then 0 else 1) ≤ id ∧
      id < (if b.useClass0 then 0 else 1) + b.classes.length ∧
      ∀ g ∈ c, b.buildWithMapping.1.get g = id) ∧
    (∀ c c' id, mappingGet b.buildWithMapping.2 c = some id →
      mappingGet b.buildWithMapping.2 c' = some id → c = c') ∧
    b.buildWithMapping.2.length = b.classes.length := by
  obtain ⟨h1, _, h3, h4⟩ := buildWithMapping_get b h.1
  generalize b.buildWithMapping.2 = m at *
  generalize b.buildWithMapping.1 = cd at *
  have hfind : ∀ c id, mappingGet m c = some id → (c, id) ∈ m := by
    intro c id hg
    unfold mappingGet at hg
    cases hf : m.find? (fun p => p.1 == c) with
    | none => rw [hf] at hg; cases hg
    | some p =>
      rw [hf] at hg
      simp only [Option.map_some, Option.some.injEq] at hg
      have hp := List.mem_of_find?_eq_some hf
      have hk : p.1 = c := by simpa using List.find?_some hf
      have : p = (c, id) := Prod.ext hk hg
      rw [← this]; exact hp
  have hids : (m.map (·.2)).Nodup := by
    rw [h4]; exact List.nodup_range'
  refine ⟨?_, ?_, ?_, ?_⟩
  · intro c hc
    have : c ∈ m.map (·.1) := h3.mem_iff.mpr hc
    obtain ⟨p, hp, hpc⟩ := List.mem_map.mp this
    cases hf : m.find? (fun p => p.1 == c) with
    | none =>
      rw [List.find?_eq_none] at hf
      exact absurd (by simp [hpc]) (hf p hp)
    | some q => exact ⟨q.2, by simp [mappingGet, hf]⟩
  · intro c id hg
    have hmem := hfind c id hg
    have hidm : id ∈ m.map (·.2) := List.mem_map.mpr ⟨_, hmem, rfl⟩
    rw [h4, List.mem_range'] at hidm
    obtain ⟨i, hi, he⟩ := hidm
    refine ⟨h3.mem_iff.mp (List.mem_map.mpr ⟨_, hmem, rfl⟩), by omega, by omega, fun g hg => ?_⟩
    exact h1 _ hmem g hg
  · intro c c' id hg hg'
    have hm1 := hfind c id hg
    have hm2 := hfind c' id hg'
    have := eq_of_nodup_map (·.2) m hids _ hm1 _ hm2 rfl
    exact (Prod.ext_iff.mp this).1
  · have := h3.length_eq
    simpa using this

/-! ### one group of class rules and the `ClassPairPosSubtable` made from it -/

theorem snoc_induction {α : Type} {P : List α → Prop} (h0 : P [])
    (hs : ∀ l a, P l → P (l ++ [a])) : ∀ l, P l := by
  intro l
  rw [← List.reverse_reverse l]
  induction l.reverse with
  | nil => exact h0
  | cons a t ih => rw [List.reverse_cons]; exact hs _ _ ih

/-- the rule-level `can_add` of `groupClassRules` -/
def compatR {V : Type} (g : List (ClassRule V)) (r : ClassRule V) : Bool :=
  classCompat (g.map (·.c1)) r.c1 && classCompat (g.map (·.c2)) r.c2

/-- every rule of the group was compatible with the rules before it -/
def GroupOK {V : Type} (g : List (ClassRule V)) : Prop :=
  ∀ i (h : i < g.length), compatR (g.take i) g[i] = true

/-- the subtable builder after `add`ing the rules of a group to a fresh one -/
def subOf {V : Type} (g : List (ClassRule V)) : ClassPairSub V :=
  g.foldl (fun s r => s.add r.c1 r.c2 r.v) ClassPairSub.empty

/-- `BTreeMap::get` on the cell list -/
def cellGet {K V : Type} [DecidableEq K] (items : List (K × V)) (k : K) : Option V :=
  (items.find? (fun e => e.1 == k)).map (·.2)

theorem subOf_snoc {V : Type} (g : List (ClassRule V)) (r : ClassRule V) :
    subOf (g ++ [r]) = (subOf g).add r.c1 r.c2 r.v := by
  unfold subOf
  rw [List.foldl_append]
  rfl

theorem GroupOK_nil {V : Type} : GroupOK ([] : List (ClassRule V)) := fun i h => nomatch h

theorem GroupOK_snoc {V : Type} (g : List (ClassRule V)) (r : ClassRule V) :
    GroupOK (g ++ [r]) ↔ GroupOK g ∧ compatR g r = true := by
  constructor
  · intro h
    constructor
    · intro i hi
      have := h i (by simp; omega)
      rw [List.take_append_of_le_length (Nat.le_of_lt hi), List.getElem_append_left hi] at this
      exact this
    · have := h g.length (by simp)
      simpa using this
  · rintro ⟨hg, hr⟩ i hi
    by_cases hlt : i < g.length
    · rw [List.take_append_of_le_length (Nat.le_of_lt hlt), List.getElem_append_left hlt]
      exact hg i hlt
    · have : i = g.length := by simp at hi; omega
      subst this
      simpa using hr

theorem GroupOK_singleton {V : Type} (r : ClassRule V) : GroupOK [r] := by
  have := (GroupOK_snoc [] r).mpr ⟨GroupOK_nil, by simp [compatR, classCompat_nil]⟩
  simpa using this

theorem cellInsert_get {K V : Type} [DecidableEq K] (k : K) (v : V) (l : List (K × V)) (k' : K) :
    cellGet (cellInsert k v l) k' = if k' = k then some v else cellGet l k' := by
  induction l with
  | nil =>
    unfold cellInsert cellGet
    by_cases h : k' = k
    · subst h; simp
    · have : (k == k') = false := by simp; exact fun e => h e.symm
      simp [List.find?_cons, this, h]
  | cons e rest ih =>
    unfold cellInsert
    by_cases hek : e.1 = k
    · simp only [hek, ↓reduceIte]
      by_cases h : k' = k
      · subst h; simp [cellGet, List.find?_cons]
      · have h1 : (k == k') = false := by simp; exact fun e => h e.symm
        have h2 : (e.1 == k') = false := by rw [hek]; exact h1
        simp [cellGet, List.find?_cons, h1, h2, h]
    · simp only [hek, ↓reduceIte]
      by_cases heo : e.1 = k'
      · have : k' ≠ k := fun h => hek (heo.trans h)
        simp [cellGet, List.find?_cons, heo, this]
      · have h2 : (e.1 == k') = false := by simp; exact heo
        have ih' := ih
        unfold cellGet at ih' ⊢
        simp only [List.find?_cons, h2]
        exact ih'

theorem cellInsert_keys {K V : Type} [DecidableEq K] (k : K) (v : V) (l : List (K × V)) :
    (cellInsert k v l).map (·.1) = if k ∈ l.map (·.1) then l.map (·.1) else l.map (·.1) ++ [k] := by
  induction l with
  | nil => simp [cellInsert]
  | cons e rest ih =>
    unfold cellInsert
    by_cases hek : e.1 = k
    · simp [hek]
    · have hne : ¬ k = e.1 := fun h => hek h.symm
      simp only [hek, ↓reduceIte, List.map_cons, ih, List.mem_cons, hne, false_or]
      split <;> simp

theorem cellGet_eq_some_of_mem {K V : Type} [DecidableEq K] (l : List (K × V))
    (hnd : (l.map (·.1)).Nodup) (e : K × V) (he : e ∈ l) : cellGet l e.1 = some e.2 := by
  induction l with
  | nil => cases he
  | cons x xs ih =>
    rw [List.map_cons, List.nodup_cons] at hnd
    unfold cellGet
    rcases List.mem_cons.mp he with rfl | he'
    · simp [List.find?_cons]
    · have : x.1 ≠ e.1 := fun h => hnd.1 (List.mem_map.mpr ⟨e, he', h.symm⟩)
      have h2 : (x.1 == e.1) = false := by simp; exact this
      simp only [List.find?_cons, h2]
      exact ih hnd.2 he'

theorem mem_of_cellGet {K V : Type} [DecidableEq K] (l : List (K × V)) (k : K) (v : V)
    (h : cellGet l k = some v) : (k, v) ∈ l := by
  unfold cellGet at h
  cases hf : l.find? (fun e => e.1 == k) with
  | none => rw [hf] at h; cases h
  | some p =>
    rw [hf] at h
    simp only [Option.map_some, Option.some.injEq] at h
    have hk : p.1 = k := by simpa using List.find?_some hf
    have : p = (k, v) := Prod.ext hk h
    rw [← this]; exact List.mem_of_find?_eq_some hf

/-- the cells of a group's subtable: distinct keys, exactly the `(class 1, class 2)` pairs of the
rules, each with the value of the LAST rule for it -/
theorem subOf_items {V : Type} (g : List (ClassRule V)) :
    ((subOf g).items.map (·.1)).Nodup ∧
    (∀ k, k ∈ (subOf g).items.map (·.1) ↔ ∃ r ∈ g, (r.c1, r.c2) = k) ∧
    (∀ k, cellGet (subOf g).items k =
      (g.reverse.find? (fun r => decide ((r.c1, r.c2) = k))).map (·.v)) := by
  induction g using snoc_induction with
  | h0 => exact ⟨List.nodup_nil, fun k => by simp [subOf, ClassPairSub.empty], fun k => rfl⟩
  | hs g r ih =>
    obtain ⟨hnd, hmem, hget⟩ := ih
    rw [subOf_snoc]
    simp only [ClassPairSub.add]
    refine ⟨?_, ?_, ?_⟩
    · rw [cellInsert_keys]
      split
      · exact hnd
      · rename_i hn
        rw [List.nodup_append]
        refine ⟨hnd, List.nodup_iff_pairwise_ne.mpr (List.pairwise_singleton _ _), ?_⟩
        intro a ha c hc
        simp at hc; subst hc
        intro e; subst e; exact hn ha
    · intro k
      rw [cellInsert_keys]
      have : (∃ r' ∈ g ++ [r], (r'.c1, r'.c2) = k) ↔ (∃ r' ∈ g, (r'.c1, r'.c2) = k) ∨ (r.c1, r.c2) = k := by
        simp only [List.mem_append, List.mem_singleton]
        constructor
        · rintro ⟨r', h | h, e⟩
          · exact Or.inl ⟨r', h, e⟩
          · subst h; exact Or.inr e
        · rintro (⟨r', h, e⟩ | e)
          · exact ⟨r', Or.inl h, e⟩
          · exact ⟨r, Or.inr rfl, e⟩
      rw [this, ← hmem k]
      split
      · rename_i hin
        constructor
        · exact Or.inl
        · rintro (h | h)
          · exact h
          · rw [← h]; exact hin
      · simp only [List.mem_append, List.mem_singleton]
        constructor
        · rintro (h | h)
          · exact Or.inl h
          · exact Or.inr h.symm
        · rintro (h | h)
          · exact Or.inl h
          · exact Or.inr h.symm
    · intro k
      rw [cellInsert_get, List.reverse_append, List.reverse_singleton, List.singleton_append,
        List.find?_cons, hget k]
      by_cases hk : (r.c1, r.c2) = k
      · simp [hk]
      · have : ¬ k = (r.c1, r.c2) := fun h => hk h.symm
        simp [hk, this]

/-- the two `ClassDefBuilder`s of a group's subtable -/
theorem subOf_classes {V : Type} (g : List (ClassRule V)) (hok : GroupOK g) :
    CDBInv (subOf g).cd1 ∧ CDBInv (subOf g).cd2 ∧
    (subOf g).cd1.useClass0 = true ∧ (subOf g).cd2.useClass0 = false ∧
    (∀ c, c ∈ (subOf g).cd1.classes ↔ c ∈ g.map (·.c1)) ∧
    (∀ c, c ∈ (subOf g).cd2.classes ↔ c ∈ g.map (·.c2)) := by
  induction g using snoc_induction with
  | h0 =>
    refine ⟨⟨List.Pairwise.nil, List.nodup_nil⟩, ⟨List.Pairwise.nil, List.nodup_nil⟩, rfl, rfl, ?_, ?_⟩ <;>
      intro c <;> simp [subOf, ClassPairSub.empty]
  | hs g r ih =>
    obtain ⟨hg, hr⟩ := (GroupOK_snoc g r).mp hok
    obtain ⟨i1, i2, u1, u2, m1, m2⟩ := ih hg
    rw [subOf_snoc]
    simp only [ClassPairSub.add]
    unfold compatR at hr
    rw [Bool.and_eq_true] at hr
    have c1 : (subOf g).cd1.canAdd r.c1 = true := by
      rw [canAdd_eq_classCompat _ _ m1]; exact hr.1
    have c2 : (subOf g).cd2.canAdd r.c2 = true := by
      rw [canAdd_eq_classCompat _ _ m2]; exact hr.2
    refine ⟨checkedAdd_inv _ _ i1, checkedAdd_inv _ _ i2, ?_, ?_, ?_, ?_⟩
    · rw [checkedAdd_useClass0]; exact u1
    · rw [checkedAdd_useClass0]; exact u2
    · intro c
      rw [checkedAdd_mem _ _ c1, m1 c]
      simp only [List.map_append, List.map_cons, List.map_nil, List.mem_append, List.mem_singleton]
    · intro c
      rw [checkedAdd_mem _ _ c2, m2 c]
      simp only [List.map_append, List.map_cons, List.map_nil, List.mem_append, List.mem_singleton]

/-- `ClassPairPosSubtable::can_add` on a group's subtable is the rule-level compatibility -/
theorem subOf_canAdd {V : Type} (g : List (ClassRule V)) (hok : GroupOK g) (r : ClassRule V) :
    (subOf g).canAdd r.c1 r.c2 = compatR g r := by
  obtain ⟨_, _, _, _, m1, m2⟩ := subOf_classes g hok
  unfold ClassPairSub.canAdd compatR
  rw [canAdd_eq_classCompat _ _ m1, canAdd_eq_classCompat _ _ m2]

/-! ### `ClassPairPosSubtable::build` -/

theorem find?_congr' {α : Type} {p q : α → Bool} : ∀ (l : List α), (∀ x ∈ l, p x = q x) →
    l.find? p = l.find? q := by
  intro l
  induction l with
  | nil => intro _; rfl
  | cons a l ih =>
    intro h
    rw [List.find?_cons, List.find?_cons, h a (List.mem_cons_self ..),
      ih (fun x hx => h x (List.mem_cons_of_mem _ hx))]

theorem distinctKeys_spec (ks : List (List Nat)) :
    (distinctKeys ks).Nodup ∧ ∀ k, k ∈ distinctKeys ks ↔ k ∈ ks := by
  induction ks with
  | nil => exact ⟨List.nodup_nil, fun k => Iff.rfl⟩
  | cons k ks ih =>
    unfold distinctKeys
    by_cases h : ks.contains k = true
    · simp only [h, ↓reduceIte]
      refine ⟨ih.1, fun k' => ?_⟩
      rw [ih.2 k', List.mem_cons]
      constructor
      · exact Or.inr
      · rintro (rfl | h')
        · exact List.contains_iff_mem.mp h
        · exact h'
    · simp only [h, Bool.false_eq_true, ↓reduceIte]
      refine ⟨?_, fun k' => by rw [List.mem_cons, List.mem_cons, ih.2 k']⟩
      rw [List.nodup_cons]
      exact ⟨fun hm => h (List.contains_iff_mem.mpr ((ih.2 k).mp hm)), ih.1⟩

theorem disjoint_of_mem {l : List (List Nat)} (h : l.Pairwise ClassesDisjoint) {a c : List Nat}
    (ha : a ∈ l) (hc : c ∈ l) (hne : a ≠ c) : ClassesDisjoint a c := by
  obtain ⟨i, hi, rfl⟩ := List.getElem_of_mem ha
  obtain ⟨j, hj, rfl⟩ := List.getElem_of_mem hc
  have hp := List.pairwise_iff_getElem.mp h
  rcases Nat.lt_trichotomy i j with hlt | heq | hgt
  · exact hp i j hi hj hlt
  · subst heq; exact absurd rfl hne
  · intro g hg1 hg2; exact hp j i hj hi hgt g hg2 hg1

theorem mem_stuffOf {V : Type} (items : List ((List Nat × List Nat) × V)) (k : List Nat)
    (e : List Nat × V) : e ∈ stuffOf items k ↔ ((k, e.1), e.2) ∈ items := by
  unfold stuffOf
  simp only [List.mem_map, List.mem_filter, beq_iff_eq]
  constructor
  · rintro ⟨x, ⟨hx, hk⟩, rfl⟩
    have : ((k, x.1.2), x.2) = x := by rw [← hk]
    rw [this]; exact hx
  · intro h; exact ⟨_, ⟨h, rfl⟩, rfl⟩

theorem stuffOf_pairwise {V : Type} (items : List ((List Nat × List Nat) × V))
    (hnd : (items.map (·.1)).Nodup) (k : List Nat) :
    (stuffOf items k).Pairwise (fun a c => a.1 ≠ c.1) := by
  unfold stuffOf
  rw [List.pairwise_map]
  have h1 : items.Pairwise (fun a c => a.1 ≠ c.1) := by
    have := List.nodup_iff_pairwise_ne.mp hnd
    rwa [List.pairwise_map] at this
  have h2 := h1.filter (fun e => e.1.1 == k)
  refine List.Pairwise.imp_of_mem ?_ h2
  intro a c ha hc hne he
  have hak : a.1.1 = k := by simpa using (List.mem_filter.mp ha).2
  have hck : c.1.1 = k := by simpa using (List.mem_filter.mp hc).2
  exact hne (Prod.ext (hak.trans hck.symm) he)

/-- one row of the matrix -/
theorem buildRow_spec {V : Type} (b2 : ClassDefBuilder) (h2 : CDBInv b2) (hu : b2.useClass0 = false)
    (items : List ((List Nat × List Nat) × V)) (hnd : (items.map (·.1)).Nodup)
    (hcls : ∀ e ∈ items, e.1.2 ∈ b2.classes) (k : List Nat) :
    ∃ row, buildRow b2.buildWithMapping.2 (stuffOf items k)
        (List.replicate (b2.buildWithMapping.2.length + 1) none) = some row ∧
      row.length = b2.classes.length + 1 ∧ row[0]? = some none ∧
      ∀ B id, mappingGet b2.buildWithMapping.2 B = some id → row[id]? = some (cellGet items (k, B)) := by
  obtain ⟨m1, m2, m3, m4⟩ := mappingGet_spec b2 h2
  simp only [hu, Bool.false_eq_true, ↓reduceIte] at m2
  have hall : ∀ a ∈ stuffOf items k, ∃ i v,
      (fun e : List Nat × V => (mappingGet b2.buildWithMapping.2 e.1).map (fun idx => (idx, some e.2))) a
        = some (i, v) ∧ i < (List.replicate (b2.buildWithMapping.2.length + 1) (none : Option V)).length := by
    intro a ha
    have hin := (mem_stuffOf items k a).mp ha
    obtain ⟨id, hid⟩ := m1 a.1 (hcls _ hin)
    obtain ⟨_, _, hlt, _⟩ := m2 a.1 id hid
    exact ⟨id, some a.2, by simp [hid], by rw [List.length_replicate, m4]; omega⟩
  have hpw : (stuffOf items k).Pairwise (fun a c => ∀ i v j w,
      (fun e : List Nat × V => (mappingGet b2.buildWithMapping.2 e.1).map (fun idx => (idx, some e.2))) a
        = some (i, v) →
      (fun e : List Nat × V => (mappingGet b2.buildWithMapping.2 e.1).map (fun idx => (idx, some e.2))) c
        = some (j, w) → i ≠ j) := by
    refine (stuffOf_pairwise items hnd k).imp ?_
    intro a c hne i v j w ha hc hij
    subst hij
    simp only [Option.map_eq_some_iff, Prod.mk.injEq] at ha hc
    obtain ⟨x, hx, rfl, _⟩ := ha
    obtain ⟨y, hy, rfl, _⟩ := hc
    exact hne (m3 _ _ _ hx hy)
  obtain ⟨row, hrow, hlen, hset, hkeep⟩ := setMany_spec _ _ _ hall hpw
  refine ⟨row, hrow, by rw [hlen, List.length_replicate, m4], ?_, ?_⟩
  · rw [hkeep 0]
    · simp
    · intro a ha i v hs
      simp only [Option.map_eq_some_iff, Prod.mk.injEq] at hs
      obtain ⟨x, hx, rfl, _⟩ := hs
      have := (m2 _ _ hx).2.1
      omega
  · intro B id hB
    cases hc : cellGet items (k, B) with
    | some v =>
      have hmem := mem_of_cellGet items (k, B) v hc
      have hin : (B, v) ∈ stuffOf items k := (mem_stuffOf items k (B, v)).mpr hmem
      exact hset (B, v) hin id (some v) (by simp [hB])
    | none =>
      rw [hkeep id]
      · have := (m2 B id hB).2.2.1
        rw [List.getElem?_replicate]
        simp only [m4]
        have : id < b2.classes.length + 1 := by omega
        simp [this]
      · intro a ha i v hs hij
        subst hij
        simp only [Option.map_eq_some_iff, Prod.mk.injEq] at hs
        obtain ⟨x, hx, rfl, _⟩ := hs
        have hB' : a.1 = B := m3 _ _ _ hx hB
        have hin := (mem_stuffOf items k a).mp ha
        have := cellGet_eq_some_of_mem items hnd _ hin
        simp only [hB'] at this
        rw [hc] at this
        cases this

/-- the whole matrix of a group's subtable: no panic, one row per class-1 id, row `id(A)` holds for
every class-2 id the cell `(A, B)` (or the empty record), column 0 is empty -/
theorem buildRows_spec {V : Type} (g : List (ClassRule V)) (hok : GroupOK g) :
    let s := subOf g
    ∃ rows, buildRows s.items s.cd1.buildWithMapping.2 s.cd2.buildWithMapping.2
        (distinctKeys (s.items.map (·.1.1)))
        (List.replicate (distinctKeys (s.items.map (·.1.1))).length []) = some rows ∧
      rows.length = s.cd1.classes.length ∧
      ∀ A idA, mappingGet s.cd1.buildWithMapping.2 A = some idA →
        ∃ row, rows[idA]? = some row ∧ row[0]? = some none ∧
          ∀ B idB, mappingGet s.cd2.buildWithMapping.2 B = some idB →
            row[idB]? = some (cellGet s.items (A, B)) := by
  intro s
  obtain ⟨i1, i2, u1, u2, mem1, mem2⟩ := subOf_classes g hok
  obtain ⟨hnd, hkeys, _⟩ := subOf_items g
  obtain ⟨a1, a2, a3, a4⟩ := mappingGet_spec s.cd1 i1
  simp only [show s.cd1.useClass0 = true from u1, ↓reduceIte, Nat.zero_add] at a2
  obtain ⟨knd, kmem⟩ := distinctKeys_spec (s.items.map (·.1.1))
  -- the keys are exactly the classes of classdef_1
  have hkc : ∀ k, k ∈ distinctKeys (s.items.map (·.1.1)) ↔ k ∈ s.cd1.classes := by
    intro k
    rw [kmem k, mem1 k]
    simp only [List.mem_map]
    constructor
    · rintro ⟨e, he, rfl⟩
      obtain ⟨r, hr, hk⟩ := (hkeys e.1).mp (List.mem_map.mpr ⟨e, he, rfl⟩)
      exact ⟨r, hr, by rw [← hk]⟩
    · rintro ⟨r, hr, rfl⟩
      obtain ⟨e, he, hk⟩ := List.mem_map.mp ((hkeys (r.c1, r.c2)).mpr ⟨r, hr, rfl⟩)
      exact ⟨e, he, by rw [hk]⟩
  have hlen : (distinctKeys (s.items.map (·.1.1))).length = s.cd1.classes.length :=
    ((List.perm_ext_iff_of_nodup knd i1.2).mpr hkc).length_eq
  have hcls2 : ∀ e ∈ s.items, e.1.2 ∈ s.cd2.classes := by
    intro e he
    obtain ⟨r, hr, hk⟩ := (hkeys e.1).mp (List.mem_map.mpr ⟨e, he, rfl⟩)
    rw [mem2]
    exact List.mem_map.mpr ⟨r, hr, by rw [← hk]⟩
  have hrow := buildRow_spec s.cd2 i2 u2 s.items hnd hcls2
  let step : List Nat → Option (Nat × List (Option V)) := fun k =>
    match mappingGet s.cd1.buildWithMapping.2 k,
      buildRow s.cd2.buildWithMapping.2 (stuffOf s.items k)
        (List.replicate (s.cd2.buildWithMapping.2.length + 1) none) with
    | some idx, some row => some (idx, row)
    | _, _ => none
  have hstep : ∀ k idx, mappingGet s.cd1.buildWithMapping.2 k = some idx →
      ∃ row, step k = some (idx, row) ∧ row[0]? = some none ∧
        ∀ B idB, mappingGet s.cd2.buildWithMapping.2 B = some idB →
          row[idB]? = some (cellGet s.items (k, B)) := by
    intro k idx hk
    obtain ⟨row, hr, _, h0, hcell⟩ := hrow k
    exact ⟨row, by simp only [step, hk, hr], h0, hcell⟩
  have hstep_idx : ∀ k i v, step k = some (i, v) → mappingGet s.cd1.buildWithMapping.2 k = some i := by
    intro k i v h
    simp only [step] at h
    split at h
    · simp only [Option.some.injEq, Prod.mk.injEq] at h
      rename_i idx row h1 h2
      rw [h1, h.1]
    · cases h
  have hall : ∀ k ∈ distinctKeys (s.items.map (·.1.1)), ∃ i v, step k = some (i, v) ∧
      i < (List.replicate (distinctKeys (s.items.map (·.1.1))).length ([] : List (Option V))).length := by
    intro k hk
    obtain ⟨id, hid⟩ := a1 k ((hkc k).mp hk)
    obtain ⟨row, hr, _⟩ := hstep k id hid
    exact ⟨id, row, hr, by rw [List.length_replicate, hlen]; exact (a2 k id hid).2.2.1⟩
  have hpw : (distinctKeys (s.items.map (·.1.1))).Pairwise (fun a c => ∀ i v j w,
      step a = some (i, v) → step c = some (j, w) → i ≠ j) := by
    refine (List.nodup_iff_pairwise_ne.mp knd).imp ?_
    intro a c hne i v j w ha hc hij
    subst hij
    exact hne (a3 _ _ _ (hstep_idx _ _ _ ha) (hstep_idx _ _ _ hc))
  obtain ⟨rows, hrows, hl, hset, _⟩ := setMany_spec step _ _ hall hpw
  refine ⟨rows, hrows, by rw [hl, List.length_replicate, hlen], ?_⟩
  intro A idA hA
  obtain ⟨row, hr, h0, hcell⟩ := hstep A idA hA
  have hAk : A ∈ distinctKeys (s.items.map (·.1.1)) := (hkc A).mpr (a2 A idA hA).1
  exact ⟨row, hset A hAk idA row hr, h0, hcell⟩

theorem classCompat_of_mem (classes : List (List Nat)) (c : List Nat) (h : c ∈ classes) :
    classCompat classes c = true := by
  unfold classCompat
  rw [List.contains_iff_mem.mpr h]
  rfl

/-- **one group = one subtable.**  `ClassPairPosSubtable::build` on the subtable made from a
group of mutually compatible rules does not panic, and the compiled PairPos format 2 table answers
every glyph pair as the group's rules say. -/
theorem subOf_build_lookup {V : Type} (fmt : V → Nat × Nat) (g : List (ClassRule V))
    (hok : GroupOK g) (hne : g ≠ []) (hb : ∀ r ∈ g, ∀ x ∈ r.c1, x < 65536) :
    ∃ out, (subOf g).build fmt = some out ∧
      out.vf1 = (computeValueFormats fmt (subOf g).items).1 ∧
      out.vf2 = (computeValueFormats fmt (subOf g).items).2 ∧
      ∀ g1 g2, out.tbl.lookup g1 g2 = classGroupValue g g1 g2 := by
  obtain ⟨rows, hrows, hrl, hcell⟩ := buildRows_spec g hok
  obtain ⟨i1, i2, u1, u2, mem1, mem2⟩ := subOf_classes g hok
  obtain ⟨hnd, hkeys, hget⟩ := subOf_items g
  obtain ⟨knd, kmem⟩ := distinctKeys_spec ((subOf g).items.map (·.1.1))
  obtain ⟨a1, a2, _, _⟩ := mappingGet_spec (subOf g).cd1 i1
  obtain ⟨b1, b2, _, _⟩ := mappingGet_spec (subOf g).cd2 i2
  obtain ⟨_, z2, _, _⟩ := buildWithMapping_get (subOf g).cd2 i2.1
  have hitems : (subOf g).items.isEmpty = false := by
    cases g with
    | nil => exact absurd rfl hne
    | cons r rs =>
      have := (hkeys (r.c1, r.c2)).mpr ⟨r, List.mem_cons_self .., rfl⟩
      cases hi : (subOf (r :: rs)).items with
      | nil => rw [hi] at this; cases this
      | cons _ _ => rfl
  refine ⟨⟨⟨buildCoverage ((distinctKeys ((subOf g).items.map (·.1.1))).flatMap id),
      (subOf g).cd1.buildWithMapping.1, (subOf g).cd2.buildWithMapping.1, rows⟩, _, _⟩, ?_, rfl, rfl, ?_⟩
  · unfold ClassPairSub.build
    simp only [hitems, Bool.false_eq_true, ↓reduceIte]
    simp only at hrows
    rw [hrows]
  · intro g1 g2
    -- the covered glyphs
    have hcovmem : ∀ x, x ∈ (distinctKeys ((subOf g).items.map (·.1.1))).flatMap id ↔
        ∃ r ∈ g, x ∈ r.c1 := by
      intro x
      simp only [List.mem_flatMap, id]
      constructor
      · rintro ⟨k, hk, hx⟩
        obtain ⟨e, he, rfl⟩ := List.mem_map.mp ((kmem k).mp hk)
        obtain ⟨r, hr, hkr⟩ := (hkeys e.1).mp (List.mem_map.mpr ⟨e, he, rfl⟩)
        exact ⟨r, hr, by rw [← hkr] at hx; exact hx⟩
      · rintro ⟨r, hr, hx⟩
        obtain ⟨e, he, hk⟩ := List.mem_map.mp ((hkeys (r.c1, r.c2)).mpr ⟨r, hr, rfl⟩)
        exact ⟨r.c1, (kmem _).mpr (List.mem_map.mpr ⟨e, he, by rw [hk]⟩), hx⟩
    have hbound : ∀ x ∈ (distinctKeys ((subOf g).items.map (·.1.1))).flatMap id, x < 65536 := by
      intro x hx
      obtain ⟨r, hr, hxr⟩ := (hcovmem x).mp hx
      exact hb r hr x hxr
    have hcov := buildCoverage_covers _ hbound g1
    unfold classGroupValue PairPos2.lookup
    simp only
    by_cases hany : g.any (fun r => r.c1.contains g1) = true
    · simp only [hany, ↓reduceIte]
      obtain ⟨r0, hr0, hg1⟩ := List.any_eq_true.mp hany
      have hg1' : g1 ∈ r0.c1 := List.contains_iff_mem.mp hg1
      obtain ⟨ci, hci⟩ := hcov.mpr ((hcovmem g1).mpr ⟨r0, hr0, hg1'⟩)
      rw [hci]
      simp only
      have hA : r0.c1 ∈ (subOf g).cd1.classes := (mem1 _).mpr (List.mem_map.mpr ⟨r0, hr0, rfl⟩)
      obtain ⟨idA, hidA⟩ := a1 _ hA
      have hcd1 : (subOf g).cd1.buildWithMapping.1.get g1 = idA := (a2 _ _ hidA).2.2.2 g1 hg1'
      obtain ⟨row, hrow, h0, hc⟩ := hcell _ _ hidA
      rw [hcd1, hrow]
      simp only
      -- for the rules of the group, "first class contains g1" means "first class is r0's"
      have hc1 : ∀ r ∈ g, r.c1.contains g1 = true → r.c1 = r0.c1 := by
        intro r hr hcon
        apply Classical.byContradiction
        intro hne'
        have hrm : r.c1 ∈ (subOf g).cd1.classes := (mem1 _).mpr (List.mem_map.mpr ⟨r, hr, rfl⟩)
        exact disjoint_of_mem i1.1 hrm hA hne' g1 (List.contains_iff_mem.mp hcon) hg1'
      by_cases hany2 : g.any (fun r => r.c2.contains g2) = true
      · obtain ⟨r1, hr1, hg2⟩ := List.any_eq_true.mp hany2
        have hg2' : g2 ∈ r1.c2 := List.contains_iff_mem.mp hg2
        have hB : r1.c2 ∈ (subOf g).cd2.classes := (mem2 _).mpr (List.mem_map.mpr ⟨r1, hr1, rfl⟩)
        obtain ⟨idB, hidB⟩ := b1 _ hB
        have hcd2 : (subOf g).cd2.buildWithMapping.1.get g2 = idB := (b2 _ _ hidB).2.2.2 g2 hg2'
        rw [hcd2, hc _ _ hidB, hget]
        congr 2
        apply find?_congr'
        intro r hr
        have hr' : r ∈ g := List.mem_reverse.mp hr
        have hc2 : r.c2.contains g2 = true → r.c2 = r1.c2 := by
          intro hcon
          apply Classical.byContradiction
          intro hne'
          have hrm : r.c2 ∈ (subOf g).cd2.classes := (mem2 _).mpr (List.mem_map.mpr ⟨r, hr', rfl⟩)
          exact disjoint_of_mem i2.1 hrm hB hne' g2 (List.contains_iff_mem.mp hcon) hg2'
        rw [Bool.eq_iff_iff]
        simp only [decide_eq_true_eq, Prod.mk.injEq, Bool.and_eq_true]
        constructor
        · rintro ⟨e1, e2⟩; rw [e1, e2]; exact ⟨hg1, hg2⟩
        · rintro ⟨e1, e2⟩; exact ⟨hc1 r hr' e1, hc2 e2⟩
      · have hno : ∀ c ∈ (subOf g).cd2.classes, g2 ∉ c := by
          intro c hcm hg2
          obtain ⟨r, hr, rfl⟩ := List.mem_map.mp ((mem2 c).mp hcm)
          exact hany2 (List.any_eq_true.mpr ⟨r, hr, List.contains_iff_mem.mpr hg2⟩)
        rw [z2 g2 hno, h0]
        congr 1
        have : g.reverse.find? (fun r => r.c1.contains g1 && r.c2.contains g2) = none := by
          rw [List.find?_eq_none]
          intro r hr hcon
          rw [Bool.and_eq_true] at hcon
          exact hany2 (List.any_eq_true.mpr ⟨r, List.mem_reverse.mp hr, hcon.2⟩)
        rw [this]; rfl
    · simp only [hany, Bool.false_eq_true, ↓reduceIte]
      have : (buildCoverage ((distinctKeys ((subOf g).items.map (·.1.1))).flatMap id)).get g1 = none := by
        cases hcg : (buildCoverage ((distinctKeys ((subOf g).items.map (·.1.1))).flatMap id)).get g1 with
        | none => rfl
        | some i =>
          obtain ⟨r, hr, hx⟩ := (hcovmem g1).mp (hcov.mp ⟨i, hcg⟩)
          have hcon : r.c1.contains g1 = true := List.contains_iff_mem.mpr hx
          exact absurd (List.any_eq_true.mpr ⟨r, hr, hcon⟩) hany
      rw [this]

/-! ### the greedy partition: builder state = rule groups -/

/-- the rule-level greedy step of `groupClassRules` -/
def groupInsert {V : Type} (b : List (List (ClassRule V))) (r : ClassRule V) : List (List (ClassRule V)) :=
  greedyInsert compatR (fun g r => g ++ [r]) [] b r

theorem groupClassRules_eq {V : Type} (rules : List (ClassRule V)) :
    groupClassRules rules = rules.foldl groupInsert [] := rfl

theorem greedy_step {V : Type} (P : ClassRule V → Prop) (b : List (List (ClassRule V)))
    (hok : ∀ g ∈ b, GroupOK g ∧ g ≠ [] ∧ ∀ r ∈ g, P r) (r : ClassRule V) (hr : P r) :
    ClassPairs.insert (b.map subOf) r = (groupInsert b r).map subOf ∧
    ∀ g ∈ groupInsert b r, GroupOK g ∧ g ≠ [] ∧ ∀ r ∈ g, P r := by
  unfold ClassPairs.insert groupInsert greedyInsert
  rw [List.getLast?_map]
  cases hl : b.getLast? with
  | none =>
    have : b = [] := List.getLast?_eq_none_iff.mp hl
    subst this
    simp only [Option.map_none, List.map_cons, List.map_nil, List.nil_append]
    refine ⟨rfl, fun g hg => ?_⟩
    simp only [List.mem_singleton] at hg
    subst hg
    exact ⟨GroupOK_singleton r, by simp, fun r' hr' => by simp at hr'; rw [hr']; exact hr⟩
  | some last =>
    obtain ⟨ys, rfl⟩ := List.getLast?_eq_some_iff.mp hl
    have hlast := hok last (by simp)
    simp only [Option.map_some]
    rw [subOf_canAdd last hlast.1 r]
    by_cases hc : compatR last r = true
    · simp only [hc, ↓reduceIte]
      refine ⟨?_, fun g hg => ?_⟩
      · simp only [List.map_append, List.map_cons, List.map_nil, List.dropLast_concat, subOf_snoc]
      · simp only [List.dropLast_concat, List.mem_append, List.mem_singleton] at hg
        rcases hg with hg | rfl
        · exact hok g (by simp [hg])
        · refine ⟨(GroupOK_snoc last r).mpr ⟨hlast.1, hc⟩, by simp, fun r' hr' => ?_⟩
          rcases List.mem_append.mp hr' with h | h
          · exact hlast.2.2 r' h
          · simp at h; rw [h]; exact hr
    · simp only [hc, Bool.false_eq_true, ↓reduceIte]
      refine ⟨?_, fun g hg => ?_⟩
      · simp only [List.map_append, List.map_cons, List.map_nil, List.nil_append]
        rfl
      · rcases List.mem_append.mp hg with hg | hg
        · exact hok g hg
        · simp only [List.nil_append, List.mem_singleton] at hg
          subst hg
          exact ⟨GroupOK_singleton r, by simp, fun r' hr' => by simp at hr'; rw [hr']; exact hr⟩

theorem greedy_fold {V : Type} (P : ClassRule V → Prop) (rules : List (ClassRule V)) :
    ∀ (b : List (List (ClassRule V))), (∀ g ∈ b, GroupOK g ∧ g ≠ [] ∧ ∀ r ∈ g, P r) →
      (∀ r ∈ rules, P r) →
      rules.foldl ClassPairs.insert (b.map subOf) = (rules.foldl groupInsert b).map subOf ∧
      ∀ g ∈ rules.foldl groupInsert b, GroupOK g ∧ g ≠ [] ∧ ∀ r ∈ g, P r := by
  induction rules with
  | nil => intro b hok _; exact ⟨rfl, hok⟩
  | cons r rs ih =>
    intro b hok hP
    obtain ⟨h1, h2⟩ := greedy_step P b hok r (hP r (List.mem_cons_self ..))
    simp only [List.foldl_cons]
    rw [h1]
    exact ih _ h2 (fun r' hr' => hP r' (List.mem_cons_of_mem _ hr'))

/-- the builder's subtables are exactly the subtables of the rule groups -/
theorem ofRules_eq_groups {V : Type} (P : ClassRule V → Prop) (rules : List (ClassRule V))
    (hP : ∀ r ∈ rules, P r) :
    ClassPairs.ofRules rules = (groupClassRules rules).map subOf ∧
    ∀ g ∈ groupClassRules rules, GroupOK g ∧ g ≠ [] ∧ ∀ r ∈ g, P r := by
  have := greedy_fold P rules [] (fun g hg => nomatch hg) hP
  exact this

/-- compiling the groups one by one -/
theorem mapOpt_groups {V : Type} (fmt : V → Nat × Nat) :
    ∀ (gs : List (List (ClassRule V))),
      (∀ g ∈ gs, GroupOK g ∧ g ≠ [] ∧ ∀ r ∈ g, ∀ x ∈ r.c1, x < 65536) →
      ∃ outs, mapOpt (ClassPairSub.build fmt) (gs.map subOf) = some outs ∧ outs.length = gs.length ∧
        (∀ g1 g2, (outs.map (·.tbl)).findSome? (fun t => t.lookup g1 g2) =
          gs.findSome? (fun grp => classGroupValue grp g1 g2)) ∧
        (∀ i (h : i < outs.length) (h' : i < gs.length),
          outs[i].vf1 = (computeValueFormats fmt (subOf gs[i]).items).1 ∧
          outs[i].vf2 = (computeValueFormats fmt (subOf gs[i]).items).2) := by
  intro gs
  induction gs with
  | nil => intro _; exact ⟨[], rfl, rfl, fun _ _ => rfl, fun i h => nomatch h⟩
  | cons g gs ih =>
    intro hok
    obtain ⟨hg, hne, hb⟩ := hok g (List.mem_cons_self ..)
    obtain ⟨out, hout, hv1, hv2, hlook⟩ := subOf_build_lookup fmt g hg hne hb
    obtain ⟨outs, houts, hlen, hl, hvf⟩ := ih (fun g' hg' => hok g' (List.mem_cons_of_mem _ hg'))
    refine ⟨out :: outs, by simp [mapOpt, hout, houts], by simp [hlen], fun g1 g2 => ?_, ?_⟩
    · simp only [List.map_cons, List.findSome?_cons, hlook g1 g2, hl g1 g2]
    · intro i h h'
      cases i with
      | zero => exact ⟨hv1, hv2⟩
      | succ i =>
        simp only [List.getElem_cons_succ]
        exact hvf i (by simpa using h) (by simpa using h')

/-! ### value formats -/

theorem or_absorb {x y z : Nat} (h : (x ||| y) ||| z = z) : x ||| z = z ∧ y ||| z = z := by
  constructor
  · rw [← h, ← Nat.or_assoc, ← Nat.or_assoc, Nat.or_self]
  · rw [← h, ← Nat.or_assoc, Nat.or_comm y (x ||| y), Nat.or_assoc x y y, Nat.or_self]

theorem computeValueFormats_covers {V : Type} (fmt : V → Nat × Nat) :
    ∀ (items : List ((List Nat × List Nat) × V)) (acc : Nat × Nat),
      let F := items.foldl (fun acc e => (acc.1 ||| (fmt e.2).1, acc.2 ||| (fmt e.2).2)) acc
      (acc.1 ||| F.1 = F.1 ∧ acc.2 ||| F.2 = F.2) ∧
      ∀ e ∈ items, (fmt e.2).1 ||| F.1 = F.1 ∧ (fmt e.2).2 ||| F.2 = F.2 := by
  intro items
  induction items with
  | nil => intro acc; exact ⟨⟨Nat.or_self _, Nat.or_self _⟩, fun e he => nomatch he⟩
  | cons x xs ih =>
    intro acc
    simp only [List.foldl_cons]
    obtain ⟨⟨h1, h2⟩, hrest⟩ := ih (acc.1 ||| (fmt x.2).1, acc.2 ||| (fmt x.2).2)
    simp only at h1 h2
    refine ⟨⟨(or_absorb h1).1, (or_absorb h2).1⟩, fun e he => ?_⟩
    rcases List.mem_cons.mp he with rfl | he'
    · exact ⟨(or_absorb h1).2, (or_absorb h2).2⟩
    · exact hrest e he'

theorem find?_of_find?_imp {α : Type} {p q : α → Bool} {r : α} : ∀ (l : List α),
    l.find? p = some r → q r = true → (∀ x ∈ l, q x = true → p x = true) → l.find? q = some r := by
  intro l
  induction l with
  | nil => intro h; cases h
  | cons a l ih =>
    intro h hq himp
    rw [List.find?_cons] at h ⊢
    by_cases hpa : p a = true
    · simp only [hpa] at h
      cases h
      simp [hq]
    · have hqa : q a = false := by
        cases hqa : q a with
        | false => rfl
        | true => exact absurd (himp a (List.mem_cons_self ..) hqa) hpa
      simp only [hpa] at h
      simp only [hqa]
      exact ih h hq (fun x hx => himp x (List.mem_cons_of_mem _ hx))

/-- a value a group's rules give to some pair is the value stored in one of the subtable's cells -/
theorem classGroupValue_mem_items {V : Type} (g : List (ClassRule V)) (g1 g2 : Nat) (v : V)
    (h : classGroupValue g g1 g2 = some (some v)) : ∃ e ∈ (subOf g).items, e.2 = v := by
  unfold classGroupValue at h
  split at h
  · simp only [Option.some.injEq] at h
    cases hf : g.reverse.find? (fun r => r.c1.contains g1 && r.c2.contains g2) with
    | none => rw [hf] at h; cases h
    | some r =>
      rw [hf] at h
      simp only [Option.map_some, Option.some.injEq] at h
      subst h
      have hp := List.find?_some hf
      have hq : g.reverse.find? (fun r' => decide ((r'.c1, r'.c2) = (r.c1, r.c2))) = some r := by
        apply find?_of_find?_imp _ hf (by simp)
        intro x _ hx
        simp only [decide_eq_true_eq, Prod.mk.injEq] at hx
        rw [hx.1, hx.2]; exact hp
      have := (subOf_items g).2.2 (r.c1, r.c2)
      rw [hq] at this
      exact ⟨_, mem_of_cellGet _ _ _ this, rfl⟩
  · cases h

/-- a glyph-pair subtable whose records are wrapped in `some` -/
theorem PairPos1.lookup_wrap {V : Type} (t : PairPos1 V) (g1 g2 : Nat) :
    (⟨t.cov, t.pairSets.map (·.map (fun p => (p.1, some p.2)))⟩ : PairPos1 (Option V)).lookup g1 g2 =
      (t.lookup g1 g2).map some := by
  unfold PairPos1.lookup
  simp only
  cases t.cov.get g1 with
  | none => rfl
  | some i =>
    simp only [List.getElem?_map]
    cases t.pairSets[i]? with
    | none => rfl
    | some ps =>
      simp only [Option.map_some, List.find?_map]
      have : ((fun p : Nat × Option V => p.1 == g2) ∘ fun p : Nat × V => (p.1, some p.2)) =
          fun p => p.1 == g2 := rfl
      rw [this]
      cases ps.find? (fun p => p.1 == g2) <;> rfl

end FontVerif.Layout
