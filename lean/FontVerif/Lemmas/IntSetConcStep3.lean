/- C14 / concrete BitSet::process, Steps 3 and 4: the backward in-place merge.  Loop invariant
`S3Inv` and its preservation by the five actions (`emitBoth`, `emitLeft`, `skipLeft`,
`emitRight`, `skipRight`). -/
import FontVerif.Lemmas.IntSetConcStep1
set_option linter.unusedVariables false
set_option linter.unusedSimpArgs false
namespace FontVerif.IntSet

/-! ### list helpers -/

def PLt (xs ys : PMap) : Prop := ∀ x ∈ xs, ∀ y ∈ ys, x.1 < y.1

theorem klt_cview {xs ys : PMap} (h : PLt xs ys) (p q : List CPage) : KLt (cview xs p) (cview ys q) := by
  intro x hx y hy
  simp only [cview, List.mem_map] at hx hy
  obtain ⟨e, he, rfl⟩ := hx
  obtain ⟨f, hf, rfl⟩ := hy
  exact h e he f hf

theorem split3 {α : Type} (l : List α) (i : Nat) (d : α) (h : 0 < i) (h2 : i ≤ l.length) :
    l = l.take (i - 1) ++ l.getD (i - 1) d :: l.drop i := by
  have h3 := drop_eq_getD_cons l (i - 1) d (by omega)
  rw [show i - 1 + 1 = i by omega] at h3
  rw [← h3, List.take_append_drop]

theorem snoc_take {α : Type} (l : List α) (i : Nat) (d : α) (h : 0 < i) (h2 : i ≤ l.length) :
    l.take i = l.take (i - 1) ++ [l.getD (i - 1) d] := by
  have := take_succ_eq_getD l (i - 1) d (by omega)
  rwa [show i - 1 + 1 = i by omega] at this

theorem cons_drop {α : Type} (l : List α) (i : Nat) (d : α) (h : 0 < i) (h2 : i ≤ l.length) :
    l.drop (i - 1) = l.getD (i - 1) d :: l.drop i := by
  have h3 := drop_eq_getD_cons l (i - 1) d (by omega)
  rwa [show i - 1 + 1 = i by omega] at h3

theorem drop_set_self {α : Type} (l : List α) (k : Nat) (x : α) (h : k < l.length) :
    (l.set k x).drop k = x :: l.drop (k + 1) := by
  rw [drop_eq_getD_cons (l.set k x) k x (by simp [h]), getD_set_self l k x x h,
    List.drop_set_of_lt (by omega)]

theorem getD_of_take_eq {α : Type} (l1 l2 : List α) (n i : Nat) (d : α) (h : l1.take n = l2.take n)
    (hi : i < n) : l1.getD i d = l2.getD i d := by
  have : (l1.take n)[i]? = (l2.take n)[i]? := by rw [h]
  simp only [List.getElem?_take, hi, if_true] at this
  simp [List.getD_eq_getElem?_getD, this]

theorem cview_set_notin (pm : PMap) (pages : List CPage) (t : Nat) (q : CPage)
    (h : ∀ e ∈ pm, e.2 ≠ t) : cview pm (pages.set t q) = cview pm pages := by
  simp only [cview]
  apply List.map_congr_left
  intro e he
  rw [getD_set_ne _ _ _ _ _ (fun hh => h e he hh.symm)]

theorem cview_append (a b : PMap) (p : List CPage) : cview (a ++ b) p = cview a p ++ cview b p := by
  simp [cview]

theorem cview_cons (a : Nat × Nat) (b : PMap) (p : List CPage) :
    cview (a :: b) p = (a.1, p.getD a.2 CPage.zero) :: cview b p := by
  simp [cview]

/-- in a list sorted by key, the entries before position `i-1` are smaller and those from `i` on
are larger than entry `i-1` -/
theorem sorted_split (l : PMap) (hs : (l.map (·.1)).Pairwise (· < ·)) (i : Nat) (h : 0 < i)
    (h2 : i ≤ l.length) :
    (∀ y ∈ l.take (i - 1), y.1 < (l.getD (i - 1) (0, 0)).1) ∧
    (∀ x ∈ l.drop i, (l.getD (i - 1) (0, 0)).1 < x.1) ∧ PLt (l.take (i - 1)) (l.drop i) := by
  have hsp := split3 l i (0, 0) h h2
  rw [hsp, List.map_append, List.map_cons, List.pairwise_append, List.pairwise_cons] at hs
  refine ⟨fun y hy => hs.2.2 y.1 (List.mem_map_of_mem hy) _ (by simp), fun x hx =>
    hs.2.1.1 x.1 (List.mem_map_of_mem hx), fun y hy x hx => hs.2.2 y.1 (List.mem_map_of_mem hy) x.1 ?_⟩
  exact List.mem_cons_of_mem _ (List.mem_map_of_mem hx)

theorem nodup_split (l : PMap) (hn : (l.map (·.2)).Nodup) (i : Nat) (h : 0 < i) (h2 : i ≤ l.length) :
    (∀ y ∈ l.take (i - 1), y.2 ≠ (l.getD (i - 1) (0, 0)).2) ∧
    (∀ x ∈ l.drop i, x.2 ≠ (l.getD (i - 1) (0, 0)).2) := by
  have hsp := split3 l i (0, 0) h h2
  rw [hsp, List.map_append, List.map_cons, List.nodup_append, List.nodup_cons] at hn
  refine ⟨fun y hy => hn.2.2 y.2 (List.mem_map_of_mem hy) _ (by simp), fun x hx hh => ?_⟩
  exact hn.2.1.1 (hh ▸ List.mem_map_of_mem hx)

theorem mem_take_pred {α : Type} (l : List α) (i : Nat) (x : α) (h : x ∈ l.take (i - 1)) : x ∈ l.take i :=
  (List.take_subset_take_left l (by omega)) h

theorem mem_getD_take {α : Type} (l : List α) (i : Nat) (d : α) (h : 0 < i) (h2 : i ≤ l.length) :
    l.getD (i - 1) d ∈ l.take i := by
  rw [snoc_take l i d h h2]; simp

theorem mem_getD {α : Type} (l : List α) (i : Nat) (d : α) (h : i < l.length) : l.getD i d ∈ l := by
  rw [getD_eq_getElem l i d h]; exact List.getElem_mem h

/-! ### how one more entry on either side changes the merge of the prefixes -/

section merge_steps
variable (cop : CPage → CPage → CPage) (ptl ptr : Bool)

theorem merge_snoc_both (PA PB : PMap) (a b : Nat × Nat) (p q : List CPage)
    (h1 : PLt PA [a]) (h2 : PLt PB [b]) (hab : a.1 = b.1) :
    cmerge cop ptl ptr (cview (PA ++ [a]) p) (cview (PB ++ [b]) q) =
      cmerge cop ptl ptr (cview PA p) (cview PB q) ++
        [(a.1, cop (p.getD a.2 CPage.zero) (q.getD b.2 CPage.zero))] := by
  rw [cview_append, cview_append, cmerge_append]
  · congr 1
    simp only [cview, List.map_cons, List.map_nil]
    rw [cmerge]; simp [hab, cmerge]
  · exact klt_cview h1 p p
  · exact klt_cview (fun x hx y hy => by
      simp only [List.mem_singleton] at hy; subst hy; rw [← hab]; exact h1 x hx a (by simp)) p q
  · exact klt_cview (fun x hx y hy => by
      simp only [List.mem_singleton] at hy; subst hy; rw [hab]; exact h2 x hx b (by simp)) q p
  · exact klt_cview h2 q q

theorem merge_snoc_left (PA PB : PMap) (a : Nat × Nat) (p q : List CPage)
    (h1 : PLt PA [a]) (h2 : PLt PB [a]) :
    cmerge cop ptl ptr (cview (PA ++ [a]) p) (cview PB q) =
      cmerge cop ptl ptr (cview PA p) (cview PB q) ++
        (if ptl then [(a.1, p.getD a.2 CPage.zero)] else []) := by
  have := cmerge_append cop ptl ptr (cview PA p) (cview PB q) (cview [a] p) []
    (klt_cview h1 p p) (by intro x _ y hy; simp at hy) (klt_cview h2 q p) (by intro x _ y hy; simp at hy)
  rw [List.append_nil] at this
  rw [cview_append, this, cmerge_nil_right]
  simp [cview]

theorem merge_snoc_right (PA PB : PMap) (b : Nat × Nat) (p q : List CPage)
    (h1 : PLt PA [b]) (h2 : PLt PB [b]) :
    cmerge cop ptl ptr (cview PA p) (cview (PB ++ [b]) q) =
      cmerge cop ptl ptr (cview PA p) (cview PB q) ++
        (if ptr then [(b.1, q.getD b.2 CPage.zero)] else []) := by
  have := cmerge_append cop ptl ptr (cview PA p) (cview PB q) [] (cview [b] q)
    (by intro x _ y hy; simp at hy) (klt_cview h1 p q) (by intro x _ y hy; simp at hy) (klt_cview h2 q q)
  rw [List.append_nil] at this
  rw [cview_append, this, cmerge_nil_left]
  simp [cview]

end merge_steps

/-! ### the loop invariant -/

/-- the fixed data of Steps 3/4: `L` are the left map entries after Step 2 (all of them when the
left side is passed through, the kept ones otherwise), re-pointed into `0..L.length` -/
structure S3Fix (o : CBitSet) (L : PMap) : Prop where
  sL : (L.map (·.1)).Pairwise (· < ·)
  sB : (o.pageMap.map (·.1)).Pairwise (· < ·)
  ndL : (L.map (·.2)).Nodup
  ltL : ∀ e ∈ L, e.2 < L.length

structure S3Inv (cop : CPage → CPage → CPage) (ptl ptr : Bool) (o : CBitSet) (L : PMap)
    (pg0 : List CPage) (N : Nat) (st : Step3) : Prop where
  pmLen : st.pm.length = N
  pgLen : st.pages.length = N
  ia : st.idxA ≤ L.length
  ib : st.idxB ≤ o.pageMap.length
  /-- the unprocessed left map entries are still in place -/
  pre : st.pm.take st.idxA = L.take st.idxA
  /-- … and so are their pages -/
  pgs : ∀ e ∈ L.take st.idxA, st.pages.getD e.2 CPage.zero = pg0.getD e.2 CPage.zero
  /-- `count` is exactly the number of entries still to be written -/
  cnt : st.count = (cmerge cop ptl ptr (cview (L.take st.idxA) pg0)
    (cview (o.pageMap.take st.idxB) o.pages)).length
  np : st.nextPage + st.count = N + st.idxA
  npge : L.length ≤ st.nextPage
  /-- the written part of the map, read through `pages`, is the merge of the processed suffixes -/
  out : cview (st.pm.drop st.count) st.pages =
    cmerge cop ptl ptr (cview (L.drop st.idxA) pg0) (cview (o.pageMap.drop st.idxB) o.pages)
  ond : ((st.pm.drop st.count).map (·.2)).Nodup
  oidx : ∀ e ∈ st.pm.drop st.count,
    e.2 ∈ (L.drop st.idxA).map (·.2) ∨ (L.length ≤ e.2 ∧ e.2 < st.nextPage)
  crossA : PLt (o.pageMap.take st.idxB) (L.drop st.idxA)
  crossB : PLt (L.take st.idxA) (o.pageMap.drop st.idxB)
  mt : ptl = false → ∀ x ∈ L.take st.idxA, ∃ y ∈ o.pageMap.take st.idxB, x.1 = y.1

section actions
variable {cop : CPage → CPage → CPage} {ptl ptr : Bool} {o : CBitSet} {L : PMap}
  {pg0 : List CPage} {N : Nat} {st : Step3}

theorem S3Inv.count_ge (hf : S3Fix o L) (h : S3Inv cop ptl ptr o L pg0 N st) : st.idxA ≤ st.count := by
  rw [h.cnt]
  have := cmerge_length_ge cop ptl ptr (cview (L.take st.idxA) pg0)
    (cview (o.pageMap.take st.idxB) o.pages)
    (by simp only [cview, List.map_map]
        exact List.Pairwise.sublist ((List.take_sublist _ _).map _) hf.sL)
    (by simp only [cview, List.map_map]
        exact List.Pairwise.sublist ((List.take_sublist _ _).map _) hf.sB)
    (by
      cases hp : ptl with
      | true => exact Or.inl rfl
      | false =>
        right
        intro x hx
        simp only [cview, List.mem_map] at hx
        obtain ⟨e, he, rfl⟩ := hx
        obtain ⟨y, hy, hxy⟩ := h.mt hp e he
        exact ⟨(y.1, o.pages.getD y.2 CPage.zero), by
          simp only [cview, List.mem_map]; exact ⟨y, hy, rfl⟩, hxy⟩)
  simp only [cview, List.length_map, List.length_take] at this ⊢
  have := h.ia
  omega

theorem S3Inv.left_entry (h : S3Inv cop ptl ptr o L pg0 N st) (hA : 0 < st.idxA) :
    st.pm.getD (st.idxA - 1) (0, 0) = L.getD (st.idxA - 1) (0, 0) :=
  getD_of_take_eq _ _ st.idxA _ _ h.pre (by omega)

theorem S3Inv.count_le (h : S3Inv cop ptl ptr o L pg0 N st) : st.count ≤ N := by
  have := h.np; have := h.npge; have := h.ia; omega

theorem S3Inv.nextPage_le (hf : S3Fix o L) (h : S3Inv cop ptl ptr o L pg0 N st) : st.nextPage ≤ N := by
  have := h.np; have := h.count_ge hf; omega

/-- `Ordering::Equal` -/
theorem S3Inv.emitBoth (hf : S3Fix o L) (h : S3Inv cop ptl ptr o L pg0 N st) (hA : 0 < st.idxA)
    (hB : 0 < st.idxB)
    (heq : (L.getD (st.idxA - 1) (0, 0)).1 = (o.pageMap.getD (st.idxB - 1) (0, 0)).1) :
    S3Inv cop ptl ptr o L pg0 N (emitBoth cop o st) := by
  have hia := h.ia
  have hib := h.ib
  have hle := h.left_entry hA
  generalize ha : L.getD (st.idxA - 1) (0, 0) = a at *
  generalize hb : o.pageMap.getD (st.idxB - 1) (0, 0) = b at *
  have hsA := sorted_split L hf.sL st.idxA hA hia
  have hsB := sorted_split o.pageMap hf.sB st.idxB hB hib
  have hnA := nodup_split L hf.ndL st.idxA hA hia
  rw [ha] at hsA hnA
  rw [hb] at hsB
  have htA := snoc_take L st.idxA (0, 0) hA hia
  have htB := snoc_take o.pageMap st.idxB (0, 0) hB hib
  have hdA := cons_drop L st.idxA (0, 0) hA hia
  have hdB := cons_drop o.pageMap st.idxB (0, 0) hB hib
  rw [ha] at htA hdA
  rw [hb] at htB hdB
  have haL : a ∈ L := by rw [← ha]; exact mem_getD L _ _ (by omega)
  have haT : a ∈ L.take st.idxA := by rw [htA]; simp
  -- the count
  have hcnt : st.count = (cmerge cop ptl ptr (cview (L.take (st.idxA - 1)) pg0)
      (cview (o.pageMap.take (st.idxB - 1)) o.pages)).length + 1 := by
    rw [h.cnt, htA, htB, merge_snoc_both cop ptl ptr _ _ a b pg0 o.pages
      (fun x hx y hy => by simp only [List.mem_singleton] at hy; subst hy; exact hsA.1 x hx)
      (fun x hx y hy => by simp only [List.mem_singleton] at hy; subst hy; exact hsB.1 x hx) heq]
    simp
  -- matched prefix
  have hmt : ptl = false → ∀ x ∈ L.take (st.idxA - 1), ∃ y ∈ o.pageMap.take (st.idxB - 1), x.1 = y.1 := by
    intro hp x hx
    obtain ⟨y, hy, hxy⟩ := h.mt hp x (mem_take_pred L _ x hx)
    rw [htB, List.mem_append, List.mem_singleton] at hy
    rcases hy with hy | rfl
    · exact ⟨y, hy, hxy⟩
    · have := hsA.1 x hx; omega
  have hcge : st.idxA - 1 ≤ st.count - 1 := by have := h.count_ge hf; omega
  have hcle := h.count_le
  have hnple := h.nextPage_le hf
  have hcpos : 0 < st.count := by omega
  have hclt : st.count - 1 < st.pm.length := by rw [h.pmLen]; omega
  have ha2 : a.2 < st.pages.length := by
    rw [h.pgLen]; have := hf.ltL a haL; have := h.npge; omega
  -- the new map / pages
  have hpm' : (st.pm.set (st.count - 1) a).getD (st.idxA - 1) (0, 0) = a := by
    by_cases hc : st.count - 1 = st.idxA - 1
    · rw [← hc]; exact getD_set_self _ _ _ _ hclt
    · rw [getD_set_ne _ _ _ _ _ hc]; exact hle
  have hpmc : (st.pm.set (st.count - 1) a).getD (st.count - 1) (0, 0) = a := getD_set_self _ _ _ _ hclt
  have hout_ne : ∀ e ∈ st.pm.drop st.count, e.2 ≠ a.2 := by
    intro e he
    rcases h.oidx e he with h1 | h1
    · simp only [List.mem_map] at h1
      obtain ⟨x, hx, hxe⟩ := h1
      rw [← hxe]; exact hnA.2 x hx
    · have := hf.ltL a haL; omega
  have hdrop : (st.pm.set (st.count - 1) a).drop (st.count - 1) = a :: st.pm.drop st.count := by
    rw [drop_set_self _ _ _ hclt, show st.count - 1 + 1 = st.count by omega]
  have hpa : st.pages.getD a.2 CPage.zero = pg0.getD a.2 CPage.zero := h.pgs a haT
  unfold FontVerif.IntSet.emitBoth
  simp only [hle, pageForIndex, setPageForIndex, hpm', hpmc, hb, hpa]
  refine ⟨by simp [h.pmLen], by simp [h.pgLen], by dsimp only; omega, by dsimp only; omega, ?_, ?_, ?_, ?_, h.npge, ?_, ?_, ?_,
    ?_, ?_, ?_⟩
  · -- pre
    show (st.pm.set (st.count - 1) a).take (st.idxA - 1) = L.take (st.idxA - 1)
    rw [List.take_set_of_le hcge]
    have := congrArg (List.take (st.idxA - 1)) h.pre
    rwa [List.take_take, List.take_take, Nat.min_eq_left (by omega)] at this
  · -- pgs
    intro e he
    show (st.pages.set a.2 _).getD e.2 CPage.zero = _
    rw [getD_set_ne _ _ _ _ _ (fun hh => hnA.1 e he hh.symm)]
    exact h.pgs e (mem_take_pred L _ e he)
  · -- cnt
    dsimp only
    omega
  · -- np
    show st.nextPage + (st.count - 1) = N + (st.idxA - 1)
    have := h.np; omega
  · -- out
    show cview ((st.pm.set (st.count - 1) a).drop (st.count - 1)) (st.pages.set a.2 _) = _
    rw [hdrop, cview_cons, getD_set_self _ _ _ _ ha2, cview_set_notin _ _ _ _ hout_ne, h.out, hdA, hdB,
      cview_cons, cview_cons, cmerge]
    simp [heq]
  · -- ond
    show (((st.pm.set (st.count - 1) a).drop (st.count - 1)).map (·.2)).Nodup
    rw [hdrop, List.map_cons, List.nodup_cons]
    refine ⟨?_, h.ond⟩
    intro hmem
    simp only [List.mem_map] at hmem
    obtain ⟨e, he, hea⟩ := hmem
    exact hout_ne e he hea
  · -- oidx
    intro e he
    show e.2 ∈ (L.drop (st.idxA - 1)).map (·.2) ∨ (L.length ≤ e.2 ∧ e.2 < st.nextPage)
    change e ∈ (st.pm.set (st.count - 1) a).drop (st.count - 1) at he
    rw [hdrop, List.mem_cons] at he
    rw [hdA]
    rcases he with rfl | he
    · left; simp
    · rcases h.oidx e he with h1 | h1
      · left; simp only [List.map_cons, List.mem_cons]; exact Or.inr h1
      · exact Or.inr h1
  · -- crossA
    show PLt (o.pageMap.take (st.idxB - 1)) (L.drop (st.idxA - 1))
    rw [hdA]
    intro y hy x hx
    simp only [List.mem_cons] at hx
    rcases hx with rfl | hx
    · rw [heq]; exact hsB.1 y hy
    · exact h.crossA y (mem_take_pred _ _ y hy) x hx
  · -- crossB
    show PLt (L.take (st.idxA - 1)) (o.pageMap.drop (st.idxB - 1))
    rw [hdB]
    intro x hx y hy
    simp only [List.mem_cons] at hy
    rcases hy with rfl | hy
    · rw [← heq]; exact hsA.1 x hx
    · exact h.crossB x (mem_take_pred _ _ x hx) y hy
  · exact hmt

/-- lower bound on the merge of two prefixes -/
theorem prefix_merge_ge (hf : S3Fix o L) (cop : CPage → CPage → CPage) (ptl ptr : Bool) (pg0 : List CPage)
    (i j : Nat) (hi : i ≤ L.length)
    (hm : ptl = false → ∀ x ∈ L.take i, ∃ y ∈ o.pageMap.take j, x.1 = y.1) :
    i ≤ (cmerge cop ptl ptr (cview (L.take i) pg0) (cview (o.pageMap.take j) o.pages)).length := by
  have := cmerge_length_ge cop ptl ptr (cview (L.take i) pg0) (cview (o.pageMap.take j) o.pages)
    (by simp only [cview, List.map_map]
        exact List.Pairwise.sublist ((List.take_sublist _ _).map _) hf.sL)
    (by simp only [cview, List.map_map]
        exact List.Pairwise.sublist ((List.take_sublist _ _).map _) hf.sB)
    (by
      cases hp : ptl with
      | true => exact Or.inl rfl
      | false =>
        right
        intro x hx
        simp only [cview, List.mem_map] at hx
        obtain ⟨e, he, rfl⟩ := hx
        obtain ⟨y, hy, hxy⟩ := hm hp e he
        exact ⟨(y.1, o.pages.getD y.2 CPage.zero), by
          simp only [cview, List.mem_map]; exact ⟨y, hy, rfl⟩, hxy⟩)
  simp only [cview, List.length_map, List.length_take] at this ⊢
  omega

/-- a left-only page can only occur when the left side is passed through (otherwise Step 1 has
already removed it from the map) -/
theorem S3Inv.left_only_ptl (h : S3Inv cop ptl ptr o L pg0 N st) (hA : 0 < st.idxA)
    (hlt : ∀ y ∈ o.pageMap.take st.idxB, y.1 < (L.getD (st.idxA - 1) (0, 0)).1) : ptl = true := by
  cases hp : ptl with
  | true => rfl
  | false =>
    exfalso
    obtain ⟨y, hy, hxy⟩ := h.mt hp _ (mem_getD_take L st.idxA (0, 0) hA h.ia)
    have := hlt y hy
    omega

/-- `Ordering::Greater` with `passthrough_left` (and Step 4, left) -/
theorem S3Inv.emitLeft (hf : S3Fix o L) (h : S3Inv cop ptl ptr o L pg0 N st) (hA : 0 < st.idxA)
    (hlt : ∀ y ∈ o.pageMap.take st.idxB, y.1 < (L.getD (st.idxA - 1) (0, 0)).1) :
    S3Inv cop ptl ptr o L pg0 N (emitLeft st) := by
  have hptl := h.left_only_ptl hA hlt
  subst hptl
  have hia := h.ia
  have hle := h.left_entry hA
  generalize ha : L.getD (st.idxA - 1) (0, 0) = a at *
  have hsA := sorted_split L hf.sL st.idxA hA hia
  have hnA := nodup_split L hf.ndL st.idxA hA hia
  rw [ha] at hsA hnA
  have htA := snoc_take L st.idxA (0, 0) hA hia
  have hdA := cons_drop L st.idxA (0, 0) hA hia
  rw [ha] at htA hdA
  have haL : a ∈ L := by rw [← ha]; exact mem_getD L _ _ (by omega)
  have haT : a ∈ L.take st.idxA := by rw [htA]; simp
  have hcnt : st.count = (cmerge cop true ptr (cview (L.take (st.idxA - 1)) pg0)
      (cview (o.pageMap.take st.idxB) o.pages)).length + 1 := by
    rw [h.cnt, htA, merge_snoc_left cop true ptr _ _ a pg0 o.pages
      (fun x hx y hy => by simp only [List.mem_singleton] at hy; subst hy; exact hsA.1 x hx)
      (fun x hx y hy => by simp only [List.mem_singleton] at hy; subst hy; exact hlt x hx)]
    simp
  have hcge : st.idxA - 1 ≤ st.count - 1 := by have := h.count_ge hf; omega
  have hcle := h.count_le
  have hcpos : 0 < st.count := by omega
  have hclt : st.count - 1 < st.pm.length := by rw [h.pmLen]; omega
  have hout_ne : ∀ e ∈ st.pm.drop st.count, e.2 ≠ a.2 := by
    intro e he
    rcases h.oidx e he with h1 | h1
    · simp only [List.mem_map] at h1
      obtain ⟨x, hx, hxe⟩ := h1
      rw [← hxe]; exact hnA.2 x hx
    · have := hf.ltL a haL; omega
  have hdrop : (st.pm.set (st.count - 1) a).drop (st.count - 1) = a :: st.pm.drop st.count := by
    rw [drop_set_self _ _ _ hclt, show st.count - 1 + 1 = st.count by omega]
  have hpa : st.pages.getD a.2 CPage.zero = pg0.getD a.2 CPage.zero := h.pgs a haT
  unfold FontVerif.IntSet.emitLeft
  simp only [hle]
  refine ⟨by simp [h.pmLen], h.pgLen, by dsimp only; omega, h.ib, ?_, ?_, ?_, ?_, h.npge, ?_, ?_, ?_,
    ?_, ?_, fun hp => by simp at hp⟩
  · show (st.pm.set (st.count - 1) a).take (st.idxA - 1) = L.take (st.idxA - 1)
    rw [List.take_set_of_le hcge]
    have := congrArg (List.take (st.idxA - 1)) h.pre
    rwa [List.take_take, List.take_take, Nat.min_eq_left (by omega)] at this
  · intro e he
    exact h.pgs e (mem_take_pred L _ e he)
  · dsimp only
    omega
  · show st.nextPage + (st.count - 1) = N + (st.idxA - 1)
    have := h.np; omega
  · show cview ((st.pm.set (st.count - 1) a).drop (st.count - 1)) st.pages = _
    rw [hdrop, cview_cons, hpa, h.out, hdA, cview_cons]
    have := cmerge_left_prefix cop true ptr [(a.1, pg0.getD a.2 CPage.zero)] (cview (L.drop st.idxA) pg0)
      (cview (o.pageMap.drop st.idxB) o.pages) (by
        intro x hx y hy
        simp only [List.mem_singleton] at hx; subst hx
        simp only [cview, List.mem_map] at hy
        obtain ⟨e, he, rfl⟩ := hy
        exact h.crossB a haT e he)
    simp only [List.singleton_append, if_true] at this
    exact this.symm
  · show (((st.pm.set (st.count - 1) a).drop (st.count - 1)).map (·.2)).Nodup
    rw [hdrop, List.map_cons, List.nodup_cons]
    refine ⟨?_, h.ond⟩
    intro hmem
    simp only [List.mem_map] at hmem
    obtain ⟨e, he, hea⟩ := hmem
    exact hout_ne e he hea
  · intro e he
    show e.2 ∈ (L.drop (st.idxA - 1)).map (·.2) ∨ (L.length ≤ e.2 ∧ e.2 < st.nextPage)
    change e ∈ (st.pm.set (st.count - 1) a).drop (st.count - 1) at he
    rw [hdrop, List.mem_cons] at he
    rw [hdA]
    rcases he with rfl | he
    · left; simp
    · rcases h.oidx e he with h1 | h1
      · left; simp only [List.map_cons, List.mem_cons]; exact Or.inr h1
      · exact Or.inr h1
  · show PLt (o.pageMap.take st.idxB) (L.drop (st.idxA - 1))
    rw [hdA]
    intro y hy x hx
    simp only [List.mem_cons] at hx
    rcases hx with rfl | hx
    · exact hlt y hy
    · exact h.crossA y hy x hx
  · show PLt (L.take (st.idxA - 1)) (o.pageMap.drop st.idxB)
    intro x hx y hy
    exact h.crossB x (mem_take_pred _ _ x hx) y hy

/-- facts shared by `emitRight` / `skipRight` -/
theorem S3Inv.right_mt (hf : S3Fix o L) (h : S3Inv cop ptl ptr o L pg0 N st) (hB : 0 < st.idxB)
    (hlt : ∀ x ∈ L.take st.idxA, x.1 < (o.pageMap.getD (st.idxB - 1) (0, 0)).1) :
    ptl = false → ∀ x ∈ L.take st.idxA, ∃ y ∈ o.pageMap.take (st.idxB - 1), x.1 = y.1 := by
  intro hp x hx
  obtain ⟨y, hy, hxy⟩ := h.mt hp x hx
  rw [snoc_take o.pageMap st.idxB (0, 0) hB h.ib, List.mem_append, List.mem_singleton] at hy
  rcases hy with hy | rfl
  · exact ⟨y, hy, hxy⟩
  · have := hlt x hx; omega

/-- `Ordering::Less` with `passthrough_right` (and Step 4, right) -/
theorem S3Inv.emitRight (hf : S3Fix o L) (h : S3Inv cop ptl ptr o L pg0 N st) (hB : 0 < st.idxB)
    (hptr : ptr = true)
    (hlt : ∀ x ∈ L.take st.idxA, x.1 < (o.pageMap.getD (st.idxB - 1) (0, 0)).1) :
    S3Inv cop ptl ptr o L pg0 N (emitRight o st) := by
  subst hptr
  have hib := h.ib
  have hmt := h.right_mt hf hB hlt
  generalize hb : o.pageMap.getD (st.idxB - 1) (0, 0) = b at *
  have hsB := sorted_split o.pageMap hf.sB st.idxB hB hib
  rw [hb] at hsB
  have htB := snoc_take o.pageMap st.idxB (0, 0) hB hib
  have hdB := cons_drop o.pageMap st.idxB (0, 0) hB hib
  rw [hb] at htB hdB
  have hbT : b ∈ o.pageMap.take st.idxB := by rw [htB]; simp
  have hcnt : st.count = (cmerge cop ptl true (cview (L.take st.idxA) pg0)
      (cview (o.pageMap.take (st.idxB - 1)) o.pages)).length + 1 := by
    rw [h.cnt, htB, merge_snoc_right cop ptl true _ _ b pg0 o.pages
      (fun x hx y hy => by simp only [List.mem_singleton] at hy; subst hy; exact hlt x hx)
      (fun x hx y hy => by simp only [List.mem_singleton] at hy; subst hy; exact hsB.1 x hx)]
    simp
  have hlb := prefix_merge_ge hf cop ptl true pg0 st.idxA (st.idxB - 1) h.ia hmt
  have hcge : st.idxA ≤ st.count - 1 := by omega
  have hcle := h.count_le
  have hcpos : 0 < st.count := by omega
  have hclt : st.count - 1 < st.pm.length := by rw [h.pmLen]; omega
  have hnp := h.np
  have hnpge := h.npge
  have hnplt : st.nextPage < st.pages.length := by rw [h.pgLen]; omega
  have hout_ne : ∀ e ∈ st.pm.drop st.count, e.2 ≠ st.nextPage := by
    intro e he
    rcases h.oidx e he with h1 | h1
    · simp only [List.mem_map] at h1
      obtain ⟨x, hx, hxe⟩ := h1
      have := hf.ltL x (List.mem_of_mem_drop hx)
      omega
    · omega
  have hdrop : (st.pm.set (st.count - 1) (b.1, st.nextPage)).drop (st.count - 1) =
      (b.1, st.nextPage) :: st.pm.drop st.count := by
    rw [drop_set_self _ _ _ hclt, show st.count - 1 + 1 = st.count by omega]
  have hpmc : (st.pm.set (st.count - 1) (b.1, st.nextPage)).getD (st.count - 1) (0, 0) =
      (b.1, st.nextPage) := getD_set_self _ _ _ _ hclt
  unfold FontVerif.IntSet.emitRight
  simp only [pageForIndex, setPageForIndex, hb, hpmc]
  refine ⟨by simp [h.pmLen], by simp [h.pgLen], h.ia, by dsimp only; omega, ?_, ?_, ?_, ?_, ?_, ?_, ?_, ?_,
    ?_, ?_, hmt⟩
  · show (st.pm.set (st.count - 1) (b.1, st.nextPage)).take st.idxA = L.take st.idxA
    rw [List.take_set_of_le hcge]; exact h.pre
  · intro e he
    show (st.pages.set st.nextPage _).getD e.2 CPage.zero = _
    have := hf.ltL e (List.mem_of_mem_take he)
    rw [getD_set_ne _ _ _ _ _ (by omega)]
    exact h.pgs e he
  · dsimp only
    omega
  · show st.nextPage + 1 + (st.count - 1) = N + st.idxA
    omega
  · show L.length ≤ st.nextPage + 1
    omega
  · show cview ((st.pm.set (st.count - 1) (b.1, st.nextPage)).drop (st.count - 1))
      (st.pages.set st.nextPage _) = _
    rw [hdrop, cview_cons, getD_set_self _ _ _ _ hnplt, cview_set_notin _ _ _ _ hout_ne, h.out, hdB,
      cview_cons]
    have := cmerge_right_prefix cop ptl true (cview (L.drop st.idxA) pg0)
      [(b.1, o.pages.getD b.2 CPage.zero)] (cview (o.pageMap.drop st.idxB) o.pages) (by
        intro x hx y hy
        simp only [List.mem_singleton] at hx; subst hx
        simp only [cview, List.mem_map] at hy
        obtain ⟨e, he, rfl⟩ := hy
        exact h.crossA b hbT e he)
    simp only [List.singleton_append, if_true] at this
    exact this.symm
  · show (((st.pm.set (st.count - 1) (b.1, st.nextPage)).drop (st.count - 1)).map (·.2)).Nodup
    rw [hdrop, List.map_cons, List.nodup_cons]
    refine ⟨?_, h.ond⟩
    intro hmem
    simp only [List.mem_map] at hmem
    obtain ⟨e, he, hea⟩ := hmem
    exact hout_ne e he hea
  · intro e he
    show e.2 ∈ (L.drop st.idxA).map (·.2) ∨ (L.length ≤ e.2 ∧ e.2 < st.nextPage + 1)
    change e ∈ (st.pm.set (st.count - 1) (b.1, st.nextPage)).drop (st.count - 1) at he
    rw [hdrop, List.mem_cons] at he
    rcases he with rfl | he
    · right; exact ⟨hnpge, by simp⟩
    · rcases h.oidx e he with h1 | h1
      · exact Or.inl h1
      · right; omega
  · show PLt (o.pageMap.take (st.idxB - 1)) (L.drop st.idxA)
    intro y hy x hx
    exact h.crossA y (mem_take_pred _ _ y hy) x hx
  · show PLt (L.take st.idxA) (o.pageMap.drop (st.idxB - 1))
    rw [hdB]
    intro x hx y hy
    simp only [List.mem_cons] at hy
    rcases hy with rfl | hy
    · exact hlt x hx
    · exact h.crossB x hx y hy

/-- `Ordering::Less` without `passthrough_right` -/
theorem S3Inv.skipRight (hf : S3Fix o L) (h : S3Inv cop ptl ptr o L pg0 N st) (hB : 0 < st.idxB)
    (hptr : ptr = false)
    (hlt : ∀ x ∈ L.take st.idxA, x.1 < (o.pageMap.getD (st.idxB - 1) (0, 0)).1) :
    S3Inv cop ptl ptr o L pg0 N (skipRight st) := by
  subst hptr
  have hib := h.ib
  have hmt := h.right_mt hf hB hlt
  generalize hb : o.pageMap.getD (st.idxB - 1) (0, 0) = b at *
  have hsB := sorted_split o.pageMap hf.sB st.idxB hB hib
  rw [hb] at hsB
  have htB := snoc_take o.pageMap st.idxB (0, 0) hB hib
  have hdB := cons_drop o.pageMap st.idxB (0, 0) hB hib
  rw [hb] at htB hdB
  have hbT : b ∈ o.pageMap.take st.idxB := by rw [htB]; simp
  have hcnt : st.count = (cmerge cop ptl false (cview (L.take st.idxA) pg0)
      (cview (o.pageMap.take (st.idxB - 1)) o.pages)).length := by
    rw [h.cnt, htB, merge_snoc_right cop ptl false _ _ b pg0 o.pages
      (fun x hx y hy => by simp only [List.mem_singleton] at hy; subst hy; exact hlt x hx)
      (fun x hx y hy => by simp only [List.mem_singleton] at hy; subst hy; exact hsB.1 x hx)]
    simp
  unfold FontVerif.IntSet.skipRight
  refine ⟨h.pmLen, h.pgLen, h.ia, by dsimp only; omega, h.pre, h.pgs, hcnt, h.np, h.npge, ?_, h.ond,
    h.oidx, ?_, ?_, hmt⟩
  · show cview (st.pm.drop st.count) st.pages = _
    rw [h.out, hdB, cview_cons]
    have := cmerge_right_prefix cop ptl false (cview (L.drop st.idxA) pg0)
      [(b.1, o.pages.getD b.2 CPage.zero)] (cview (o.pageMap.drop st.idxB) o.pages) (by
        intro x hx y hy
        simp only [List.mem_singleton] at hx; subst hx
        simp only [cview, List.mem_map] at hy
        obtain ⟨e, he, rfl⟩ := hy
        exact h.crossA b hbT e he)
    simp only [List.singleton_append, Bool.false_eq_true, if_false, List.nil_append] at this
    exact this.symm
  · show PLt (o.pageMap.take (st.idxB - 1)) (L.drop st.idxA)
    intro y hy x hx
    exact h.crossA y (mem_take_pred _ _ y hy) x hx
  · show PLt (L.take st.idxA) (o.pageMap.drop (st.idxB - 1))
    rw [hdB]
    intro x hx y hy
    simp only [List.mem_cons] at hy
    rcases hy with rfl | hy
    · exact hlt x hx
    · exact h.crossB x hx y hy

end actions

end FontVerif.IntSet
