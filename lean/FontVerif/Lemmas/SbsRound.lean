/-
Sparse-bit-set codec: the specification decoder inverts the encoder's node vector.
Part 1: list helpers, `specLayer` over a list of nodes, one level of the tree.
-/
import FontVerif.Lemmas.SbsBuild
import FontVerif.Lemmas.SbsSpecMem
import FontVerif.Lemmas.SbsBits
set_option linter.unusedVariables false
namespace FontVerif.SparseBitSet

/-! ### list helpers -/

theorem pairwise_lt_ext : ∀ {l1 l2 : List Nat}, l1.Pairwise (· < ·) → l2.Pairwise (· < ·) →
    (∀ x, x ∈ l1 ↔ x ∈ l2) → l1 = l2
  | [], [], _, _, _ => rfl
  | [], b :: t2, _, _, h => by have := (h b).mpr (by simp); simp at this
  | a :: t1, [], _, _, h => by have := (h a).mp (by simp); simp at this
  | a :: t1, b :: t2, h1, h2, h => by
    have p1 := List.pairwise_cons.mp h1
    have p2 := List.pairwise_cons.mp h2
    have hab : a = b := by
      have ha := (h a).mp (by simp)
      have hb := (h b).mpr (by simp)
      simp only [List.mem_cons] at ha hb
      rcases ha with ha | ha
      · exact ha
      · rcases hb with hb | hb
        · exact hb.symm
        · have := p2.1 a ha; have := p1.1 b hb; omega
    subst hab
    congr 1
    apply pairwise_lt_ext p1.2 p2.2
    intro x
    constructor
    · intro hx
      have := (h x).mp (by simp [hx])
      simp only [List.mem_cons] at this
      rcases this with rfl | this
      · have := p1.1 x hx; omega
      · exact this
    · intro hx
      have := (h x).mpr (by simp [hx])
      simp only [List.mem_cons] at this
      rcases this with rfl | this
      · have := p2.1 x hx; omega
      · exact this

theorem sepFrom_pairwise {size : Nat} (hs : 0 < size) :
    ∀ {l : List Nat} {lo : Nat}, SepFrom size lo l → l.Pairwise (· < ·) ∧ ∀ x ∈ l, lo ≤ x
  | [], _, _ => by simp
  | s :: rest, lo, h => by
    have ih := sepFrom_pairwise hs h.2
    refine ⟨List.pairwise_cons.mpr ⟨fun x hx => ?_, ih.1⟩, ?_⟩
    · have := ih.2 x hx; omega
    · intro x hx
      simp only [List.mem_cons] at hx
      rcases hx with rfl | hx
      · exact h.1
      · have := ih.2 x hx; have := h.1; omega

theorem sepFrom_map_mul (size : Nat) :
    ∀ (ids : List Nat) (lo : Nat), ids.Pairwise (· < ·) → (∀ p ∈ ids, lo ≤ p * size) →
      SepFrom size lo (ids.map (· * size))
  | [], _, _, _ => trivial
  | p :: rest, lo, hp, hlo => by
    have hp' := List.pairwise_cons.mp hp
    refine ⟨hlo p (by simp), sepFrom_map_mul size rest _ hp'.2 ?_⟩
    intro q hq
    have : p + 1 ≤ q := hp'.1 q hq
    calc p * size + size = (p + 1) * size := by rw [Nat.add_mul, Nat.one_mul]
      _ ≤ q * size := Nat.mul_le_mul_right _ this

/-! ### `specLayers`, uniformly unfolded -/

theorem specLayers_nil (bf height : Nat) (data : List Nat) (fuel depth : Nat) (st : BitIn) :
    specLayers bf height data fuel depth [] st = some ([], st) := by
  cases fuel <;> simp [specLayers]

theorem specLayers_succ (bf height : Nat) (data : List Nat) (fuel depth : Nat)
    (starts : List Nat) (st : BitIn) :
    specLayers bf height data (fuel + 1) depth starts st =
      match readNodes bf data starts.length st with
      | none => none
      | some (bitss, st') =>
        match specLayers bf height data fuel (depth + 1)
            (specLayer bf height depth starts bitss).2 st' with
        | none => none
        | some (more, st'') => some ((specLayer bf height depth starts bitss).1 ++ more, st'') := by
  cases starts with
  | nil => simp [specLayers, readNodes, specLayer, specLayers_nil]
  | cons s ss => rw [specLayers.eq_3 _ _ _ _ _ _ _ (by simp)]; rfl

/-! ### `specLayer` over one list of nodes -/

theorem specLayer_map {α : Type} (bf height depth : Nat) (f g : α → Nat) :
    ∀ (l : List α),
      (specLayer bf height depth (l.map f) (l.map g)).1 =
        l.flatMap (fun n =>
          if g n = 0 then [(f n, f n + bf ^ (height - depth + 1) - 1)]
          else if depth = height then (setBits (g n)).map (fun i => (f n + i, f n + i))
          else []) ∧
      (specLayer bf height depth (l.map f) (l.map g)).2 =
        l.flatMap (fun n =>
          if g n = 0 then []
          else if depth = height then []
          else (setBits (g n)).map (fun i => f n + i * bf ^ (height - depth)))
  | [] => by simp [specLayer]
  | a :: l => by
    have ih := specLayer_map bf height depth f g l
    simp only [List.map_cons, specLayer, List.flatMap_cons]
    by_cases h0 : g a = 0
    · simp [h0, ih.1, ih.2]
    · by_cases hd : depth = height
      · subst hd
        simp only [if_true] at ih
        simp [h0, ih.1, ih.2]
      · simp [h0, hd, ih.1, ih.2]

/-! ### what is written for one layer -/

/-- the value written for a node (`None` for `Skip`) -/
def nodeVal (n : Node) : Option Nat :=
  match n.nodeType with
  | .standard => some n.bits
  | .filled => some 0
  | .skip => none

def outVals (l : List Node) : List Nat := l.filterMap nodeVal

/-- the loop body `for node in nodes.iter().rev() { match node.node_type … }` -/
def writeTyped (bf : Nat) (o : BitOut) (n : Node) : BitOut :=
  match n.nodeType with
  | .standard => writeNode bf o n.bits
  | .filled => writeNode bf o 0
  | .skip => o

theorem foldl_write (bf : Nat) : ∀ (l : List Node) (o : BitOut),
    l.foldl (writeTyped bf) o = (outVals l).foldl (writeNode bf) o
  | [], o => rfl
  | n :: l, o => by
    simp only [List.foldl_cons, outVals, List.filterMap_cons, nodeVal, writeTyped]
    cases h : n.nodeType <;> simp only [List.foldl_cons] <;> exact foldl_write bf l _

/-- the non-skipped nodes of a layer in ascending index order -/
def vis (N : List Node) : List Node := N.reverse.filter (fun n => decide (n.nodeType ≠ NodeType.skip))

def val (n : Node) : Nat := if n.nodeType = NodeType.filled then 0 else n.bits

def outW (N : List Node) : List Nat := (vis N).map val

theorem outVals_eq : ∀ (l : List Node),
    outVals l = (l.filter (fun n => decide (n.nodeType ≠ NodeType.skip))).map val
  | [] => rfl
  | n :: l => by
    have ih := outVals_eq l
    simp only [outVals] at ih
    simp only [outVals, List.filterMap_cons, nodeVal, List.filter_cons]
    cases h : n.nodeType <;> simp [ih, val, h]

theorem outVals_reverse (N : List Node) : outVals N.reverse = outW N := by
  rw [outVals_eq]; rfl

theorem outVals_append (a b : List Node) : outVals (a ++ b) = outVals a ++ outVals b := by
  simp [outVals, List.filterMap_append]

/-- everything written for a node vector made of layers (lowest first): the layers from the
top down, each in ascending index order -/
def outLayers (ls : List (List Node)) : List Nat := (ls.reverse.map outW).flatten

theorem outVals_flatten_reverse : ∀ (ls : List (List Node)),
    outVals ls.flatten.reverse = outLayers ls
  | [] => rfl
  | N :: ls => by
    simp only [List.flatten_cons, List.reverse_append, outVals_append, outVals_flatten_reverse ls,
      outVals_reverse, outLayers, List.reverse_cons, List.map_append, List.flatten_append,
      List.map_cons, List.map_nil, List.flatten_cons, List.flatten_nil, List.append_nil]

theorem outLayers_snoc (ls : List (List Node)) (N : List Node) :
    outLayers (ls ++ [N]) = outW N ++ outLayers ls := by
  simp [outLayers]

/-! ### facts about a finished layer -/

theorem mem_vis {N : List Node} {n : Node} :
    n ∈ vis N ↔ n ∈ N ∧ n.nodeType ≠ NodeType.skip := by
  simp [vis]

theorem vis_sorted {bf : Nat} {S : List Nat} {k : Nat} {N : List Node}
    (h : LayerFinal bf S k N) : ((vis N).map (·.parentIndex)).Pairwise (· < ·) := by
  have hs : ((vis N).map (·.parentIndex)).Sublist (N.reverse.map (·.parentIndex)) :=
    List.Sublist.map _ List.filter_sublist
  rw [List.map_reverse] at hs
  exact List.Pairwise.sublist hs h.sorted

theorem exists_node {bf : Nat} {S : List Nat} {k : Nat} {N : List Node}
    (h : LayerFinal bf S k N) {p : Nat} (hp : Ids bf S (k + 1) p) :
    ∃ n ∈ N, n.parentIndex = p := by
  have := (h.mem p).mpr hp
  simpa using this

theorem node_ids {bf : Nat} {S : List Nat} {k : Nat} {N : List Node}
    (h : LayerFinal bf S k N) {n : Node} (hn : n ∈ N) : Ids bf S (k + 1) n.parentIndex :=
  (h.mem _).mp (List.mem_map_of_mem hn)

theorem node_skip_iff {bf : Nat} {S : List Nat} {k : Nat} {N : List Node}
    (h : LayerFinal bf S k N) {n : Node} (hn : n ∈ N) :
    n.nodeType ≠ NodeType.skip ↔ ¬ Full bf S (k + 2) (n.parentIndex / bf) := by
  constructor
  · intro hne hf; exact hne (h.skip n hn hf)
  · intro hnf
    by_cases hf : Full bf S (k + 1) n.parentIndex
    · rw [h.filled n hn hnf hf]; simp
    · rw [h.standard n hn hnf hf]; simp

theorem node_bits_ne_zero {bf : Nat} (hbf : 0 < bf) {S : List Nat} {k : Nat} {N : List Node}
    (h : LayerFinal bf S k N) {n : Node} (hn : n ∈ N) : n.bits ≠ 0 := by
  obtain ⟨v, hv, hvp⟩ := (ids_succ bf S k _).mp (node_ids h hn)
  have hlt : v % bf < bf := Nat.mod_lt _ hbf
  have hb : n.bits.testBit (v % bf) = true := by
    rw [h.bits n hn]
    refine ⟨hlt, ?_⟩
    rw [(div_mod_unique hbf hlt).mpr ⟨hvp, rfl⟩]; exact hv
  intro h0
  rw [h0, Nat.zero_testBit] at hb
  exact Bool.noConfusion hb

theorem node_val_zero_iff {bf : Nat} (hbf : 0 < bf) {S : List Nat} {k : Nat} {N : List Node}
    (h : LayerFinal bf S k N) {n : Node} (hn : n ∈ vis N) :
    val n = 0 ↔ Full bf S (k + 1) n.parentIndex := by
  obtain ⟨hnN, hns⟩ := mem_vis.mp hn
  have hnf := (node_skip_iff h hnN).mp hns
  by_cases hf : Full bf S (k + 1) n.parentIndex
  · simp [val, h.filled n hnN hnf hf, hf]
  · simp only [val, h.standard n hnN hnf hf, hf, iff_false]
    simpa using node_bits_ne_zero hbf h hnN

theorem node_val_bits {bf : Nat} {S : List Nat} {k : Nat} {N : List Node}
    (h : LayerFinal bf S k N) {n : Node} (hn : n ∈ vis N)
    (hf : ¬ Full bf S (k + 1) n.parentIndex) : val n = n.bits := by
  obtain ⟨hnN, hns⟩ := mem_vis.mp hn
  have hnf := (node_skip_iff h hnN).mp hns
  simp [val, h.standard n hnN hnf hf]

theorem node_bits_lt {bf : Nat} {S : List Nat} {k : Nat} {N : List Node}
    (h : LayerFinal bf S k N) {n : Node} (hn : n ∈ N) : n.bits < 2 ^ bf := by
  apply Nat.lt_pow_two_of_testBit
  intro i hi
  cases hb : n.bits.testBit i
  · rfl
  · have := ((h.bits n hn i).mp hb).1; omega

theorem node_val_lt {bf : Nat} {S : List Nat} {k : Nat} {N : List Node}
    (h : LayerFinal bf S k N) {n : Node} (hn : n ∈ N) : val n < 2 ^ bf := by
  simp only [val]
  split
  · exact Nat.two_pow_pos bf
  · exact node_bits_lt h hn

theorem mem_setBits_node {bf : Nat} (hbf32 : bf ≤ 32) {S : List Nat} {k : Nat} {N : List Node}
    (h : LayerFinal bf S k N) {n : Node} (hn : n ∈ N) (i : Nat) :
    i ∈ setBits n.bits ↔ (i < bf ∧ Ids bf S k (n.parentIndex * bf + i)) := by
  rw [mem_setBits, h.bits n hn i]
  constructor
  · rintro ⟨_, h2⟩; exact h2
  · rintro ⟨h1, h2⟩; exact ⟨by omega, h1, h2⟩

/-! ### decoding one layer -/

/-- the start values of the non-skipped nodes of level `k + 1` -/
def startsOf (bf k : Nat) (N : List Node) : List Nat :=
  (vis N).map (fun n => n.parentIndex * bf ^ (k + 1))

theorem child_start (p i bf k : Nat) :
    p * bf ^ (k + 1 + 1) + i * bf ^ (k + 1) = (p * bf + i) * bf ^ (k + 1) := by
  have e : bf ^ (k + 1 + 1) = bf ^ (k + 1) * bf := Nat.pow_succ _ _
  rw [Nat.add_mul, e, Nat.mul_assoc p bf, Nat.mul_comm bf]

theorem insMem_flatMap {α : Type} (l : List α) (f : α → List (Nat × Nat)) (x : Nat) :
    InsMem (l.flatMap f) x ↔ ∃ n ∈ l, InsMem (f n) x := by
  simp only [InsMem, List.mem_flatMap]
  constructor
  · rintro ⟨r, ⟨n, hn, hr⟩, hx⟩; exact ⟨n, hn, r, hr, hx⟩
  · rintro ⟨n, hn, r, hr, hx⟩; exact ⟨r, ⟨n, hn, hr⟩, hx⟩

/-- the intervals produced by a non-leaf layer: the values under its full, non-skipped nodes -/
theorem layer_ivs_upper {bf : Nat} (hbf : 0 < bf) {S : List Nat} {k : Nat} {N : List Node}
    (h : LayerFinal bf S k N) (height depth : Nat) (hd : depth ≠ height)
    (he : height - depth + 1 = k + 1) (x : Nat) :
    InsMem (specLayer bf height depth (startsOf bf k N) (outW N)).1 x ↔
      (Full bf S (k + 1) (x / bf ^ (k + 1)) ∧ ¬ Full bf S (k + 2) (x / bf ^ (k + 1) / bf)) := by
  have hpos : 0 < bf ^ (k + 1) := Nat.pow_pos hbf
  simp only [startsOf, outW]
  rw [(specLayer_map bf height depth _ _ (vis N)).1, insMem_flatMap, he]
  constructor
  · rintro ⟨n, hn, hx⟩
    obtain ⟨hnN, hns⟩ := mem_vis.mp hn
    by_cases h0 : val n = 0
    · simp only [h0, if_true, insMem_cons, insMem_nil, or_false] at hx
      have hdiv : x / bf ^ (k + 1) = n.parentIndex := (Nat.div_eq_iff hpos).mpr hx
      rw [hdiv]
      exact ⟨(node_val_zero_iff hbf h hn).mp h0, (node_skip_iff h hnN).mp hns⟩
    · simp only [h0, hd, if_false, insMem_nil] at hx
  · rintro ⟨hf, hnf⟩
    obtain ⟨n, hnN, hnp⟩ := exists_node h (full_ids hbf hf)
    have hn : n ∈ vis N := mem_vis.mpr ⟨hnN, (node_skip_iff h hnN).mpr (by rw [hnp]; exact hnf)⟩
    refine ⟨n, hn, ?_⟩
    have h0 : val n = 0 := (node_val_zero_iff hbf h hn).mpr (by rw [hnp]; exact hf)
    simp only [h0, if_true, insMem_cons, insMem_nil, or_false, hnp]
    exact (Nat.div_eq_iff hpos).mp rfl

/-- the intervals produced by the leaf layer: the members under its non-skipped nodes -/
theorem layer_ivs_leaf {bf : Nat} (hbf : 0 < bf) (hbf32 : bf ≤ 32) {S : List Nat} {N : List Node}
    (h : LayerFinal bf S 0 N) (height : Nat) (x : Nat) :
    InsMem (specLayer bf height height (startsOf bf 0 N) (outW N)).1 x ↔
      (x ∈ S ∧ ¬ Full bf S 2 (x / bf ^ (0 + 1) / bf)) := by
  have hpos : 0 < bf ^ (0 + 1) := Nat.pow_pos hbf
  have he : height - height + 1 = 0 + 1 := by omega
  have hp1 : bf ^ (0 + 1) = bf := by simp
  simp only [startsOf, outW]
  rw [(specLayer_map bf height height _ _ (vis N)).1, insMem_flatMap, he]
  constructor
  · rintro ⟨n, hn, hx⟩
    obtain ⟨hnN, hns⟩ := mem_vis.mp hn
    have hvis := (node_skip_iff h hnN).mp hns
    by_cases h0 : val n = 0
    · simp only [h0, if_true, insMem_cons, insMem_nil, or_false] at hx
      have hdiv : x / bf ^ (0 + 1) = n.parentIndex := (Nat.div_eq_iff hpos).mpr hx
      rw [hdiv]
      exact ⟨(node_val_zero_iff hbf h hn).mp h0 x hdiv, hvis⟩
    · have hnfull : ¬ Full bf S (0 + 1) n.parentIndex :=
        fun hf => h0 ((node_val_zero_iff hbf h hn).mpr hf)
      simp only [h0, if_false, if_true] at hx
      obtain ⟨r, hr, hx1, hx2⟩ := hx
      obtain ⟨i, hi, rfl⟩ := List.mem_map.mp hr
      rw [node_val_bits h hn hnfull, mem_setBits_node hbf32 h hnN] at hi
      simp only [] at hx1 hx2
      have hxe : x = n.parentIndex * bf + i := by rw [hp1] at hx1 hx2; omega
      have hdiv : x / bf ^ (0 + 1) = n.parentIndex := by
        rw [hp1, hxe]; exact ((div_mod_unique hbf hi.1).mp rfl).1
      rw [hdiv]
      exact ⟨by rw [hxe]; exact (ids_zero bf S _).mp hi.2, hvis⟩
  · rintro ⟨hxS, hnf⟩
    have hids : Ids bf S (0 + 1) (x / bf ^ (0 + 1)) := ⟨x, hxS, rfl⟩
    obtain ⟨n, hnN, hnp⟩ := exists_node h hids
    have hn : n ∈ vis N := mem_vis.mpr ⟨hnN, (node_skip_iff h hnN).mpr (by rw [hnp]; exact hnf)⟩
    refine ⟨n, hn, ?_⟩
    by_cases hf : Full bf S (0 + 1) n.parentIndex
    · have h0 : val n = 0 := (node_val_zero_iff hbf h hn).mpr hf
      simp only [h0, if_true, insMem_cons, insMem_nil, or_false, hnp]
      exact (Nat.div_eq_iff hpos).mp rfl
    · have h0 : val n ≠ 0 := fun hz => hf ((node_val_zero_iff hbf h hn).mp hz)
      simp only [h0, if_false, if_true]
      have hlt : x % bf < bf := Nat.mod_lt _ hbf
      have hxe : n.parentIndex * bf + x % bf = x := by
        rw [hnp, hp1]; exact (div_mod_unique hbf hlt).mpr ⟨rfl, rfl⟩
      refine ⟨(n.parentIndex * bf ^ (0 + 1) + x % bf, n.parentIndex * bf ^ (0 + 1) + x % bf),
        List.mem_map.mpr ⟨x % bf, ?_, rfl⟩, ?_, ?_⟩
      · rw [node_val_bits h hn hf, mem_setBits_node hbf32 h hnN]
        exact ⟨hlt, by rw [hxe]; exact (ids_zero bf S x).mpr hxS⟩
      · simp only []; rw [hp1, hxe]; exact Nat.le_refl _
      · simp only []; rw [hp1, hxe]; exact Nat.le_refl _

theorem startsOf_sep {bf : Nat} (hbf : 0 < bf) {S : List Nat} {k : Nat} {N : List Node}
    (h : LayerFinal bf S k N) : SepFrom (bf ^ (k + 1)) 0 (startsOf bf k N) := by
  have : startsOf bf k N = ((vis N).map (·.parentIndex)).map (· * bf ^ (k + 1)) := by
    simp [startsOf, List.map_map, Function.comp_def]
  rw [this]
  exact sepFrom_map_mul _ _ 0 (vis_sorted h) (fun _ _ => Nat.zero_le _)

theorem outW_lt {bf : Nat} {S : List Nat} {k : Nat} {N : List Node}
    (h : LayerFinal bf S k N) : ∀ b ∈ outW N, b < 2 ^ bf := by
  intro b hb
  obtain ⟨n, hn, rfl⟩ := List.mem_map.mp hb
  exact node_val_lt h (mem_vis.mp hn).1

/-- the children computed from a non-leaf layer are the starts of the non-skipped nodes of the
layer below, in the same (ascending) order -/
theorem layer_children {bf : Nat} (hbf : 0 < bf) (hbf32 : bf ≤ 32) {S : List Nat} {k : Nat}
    {N' N : List Node} (hup : LayerFinal bf S (k + 1) N') (hlo : LayerFinal bf S k N)
    (height depth : Nat) (hd : depth ≠ height) (he : height - depth = k + 1) :
    (specLayer bf height depth (startsOf bf (k + 1) N') (outW N')).2 = startsOf bf k N := by
  have hc : 0 < bf ^ (k + 1) := Nat.pow_pos hbf
  -- both sides are strictly ascending
  have hsepL := sepFrom_specLayer (bf := bf) height depth hd (startsOf bf (k + 1) N') (outW N') 0
    (outW_lt hup) (by
      rw [he, ← Nat.pow_succ']; exact startsOf_sep hbf hup)
  rw [he] at hsepL
  have hsortL := (sepFrom_pairwise hc hsepL).1
  have hsortR := (sepFrom_pairwise hc (startsOf_sep hbf hlo)).1
  apply pairwise_lt_ext hsortL hsortR
  intro s'
  simp only [startsOf, outW]
  rw [(specLayer_map bf height depth _ _ (vis N')).2, he]
  simp only [List.mem_flatMap, List.mem_map]
  constructor
  · rintro ⟨n, hn, hs⟩
    obtain ⟨hnN, hns⟩ := mem_vis.mp hn
    have hvis := (node_skip_iff hup hnN).mp hns
    by_cases h0 : val n = 0
    · simp [h0] at hs
    · have hnfull : ¬ Full bf S (k + 1 + 1) n.parentIndex :=
        fun hf => h0 ((node_val_zero_iff hbf hup hn).mpr hf)
      simp only [h0, hd, if_false, List.mem_map] at hs
      obtain ⟨i, hi, rfl⟩ := hs
      rw [node_val_bits hup hn hnfull, mem_setBits_node hbf32 hup hnN] at hi
      obtain ⟨m, hmN, hmp⟩ := exists_node hlo hi.2
      have hdiv : m.parentIndex / bf = n.parentIndex := by
        rw [hmp]; exact ((div_mod_unique hbf hi.1).mp rfl).1
      refine ⟨m, mem_vis.mpr ⟨hmN, (node_skip_iff hlo hmN).mpr (by rw [hdiv]; exact hnfull)⟩, ?_⟩
      rw [hmp, child_start]
  · rintro ⟨m, hm, rfl⟩
    obtain ⟨hmN, hms⟩ := mem_vis.mp hm
    have hvis := (node_skip_iff hlo hmN).mp hms
    have hids : Ids bf S (k + 1 + 1) (m.parentIndex / bf) :=
      (ids_succ bf S (k + 1) _).mpr ⟨m.parentIndex, node_ids hlo hmN, rfl⟩
    obtain ⟨n, hnN, hnp⟩ := exists_node hup hids
    have hlt : m.parentIndex % bf < bf := Nat.mod_lt _ hbf
    have hme : n.parentIndex * bf + m.parentIndex % bf = m.parentIndex := by
      rw [hnp]; exact (div_mod_unique hbf hlt).mpr ⟨rfl, rfl⟩
    have hnfull : ¬ Full bf S (k + 1 + 1) n.parentIndex := by rw [hnp]; exact hvis
    have hnvis : ¬ Full bf S (k + 1 + 2) (n.parentIndex / bf) := by
      intro hf
      apply hnfull
      have hj : n.parentIndex % bf < bf := Nat.mod_lt _ hbf
      have := (full_succ hbf S (k + 1 + 1) _).mp hf _ hj
      rwa [(div_mod_unique hbf hj).mpr ⟨rfl, rfl⟩] at this
    have hn : n ∈ vis N' := mem_vis.mpr ⟨hnN, (node_skip_iff hup hnN).mpr hnvis⟩
    have h0 : val n ≠ 0 := fun hz => hnfull ((node_val_zero_iff hbf hup hn).mp hz)
    refine ⟨n, hn, ?_⟩
    simp only [h0, hd, if_false, List.mem_map]
    refine ⟨m.parentIndex % bf, ?_, ?_⟩
    · rw [node_val_bits hup hn hnfull, mem_setBits_node hbf32 hup hnN]
      exact ⟨hlt, by rw [hme]; exact node_ids hlo hmN⟩
    · rw [child_start, hme]

end FontVerif.SparseBitSet
