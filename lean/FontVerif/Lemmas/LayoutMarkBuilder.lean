/-
Helper lemmas for C16: `MarkToBaseBuilder` (mark class ids, last insert wins, base anchor matrix
with nulls) and the class information of the MarkToBase split.
-/
import FontVerif.Lemmas.LayoutClassPair
set_option linter.unusedVariables false
set_option linter.unusedSimpArgs false
namespace FontVerif.Layout

/-! ### `BTreeMap` as a sorted association list -/

theorem bmGet_insert {β : Type} (g : Nat) (v : β) : ∀ (l : List (Nat × β)) (g' : Nat),
    bmGet g' (bmInsert g v l) = if g' = g then some v else bmGet g' l := by
  intro l
  induction l with
  | nil =>
    intro g'
    by_cases h : g' = g
    · subst h; simp [bmInsert, bmGet]
    · have : ¬ g = g' := fun e => h e.symm
      simp [bmInsert, bmGet, h, this]
  | cons e rest ih =>
    intro g'
    obtain ⟨k, w⟩ := e
    unfold bmInsert
    by_cases h1 : g < k
    · simp only [h1, ↓reduceIte]
      by_cases h : g' = g
      · subst h; simp [bmGet]
      · have : ¬ g = g' := fun e => h e.symm
        simp [bmGet, h, this]
    · simp only [h1, ↓reduceIte]
      by_cases h2 : g = k
      · subst h2
        simp only [↓reduceIte]
        by_cases h : g' = g
        · subst h; simp [bmGet]
        · have : ¬ g = g' := fun e => h e.symm
          simp [bmGet, h, this]
      · simp only [h2, ↓reduceIte]
        by_cases hk : k = g'
        · subst hk
          have : ¬ k = g := fun e => h2 e.symm
          simp [bmGet, this]
        · simp only [bmGet, hk, ↓reduceIte]
          exact ih g'

theorem bmInsert_keys_mem {β : Type} (g : Nat) (v : β) : ∀ (l : List (Nat × β)) (x : Nat),
    x ∈ (bmInsert g v l).map (·.1) ↔ x = g ∨ x ∈ l.map (·.1) := by
  intro l
  induction l with
  | nil => intro x; simp [bmInsert]
  | cons e rest ih =>
    intro x
    obtain ⟨k, w⟩ := e
    unfold bmInsert
    by_cases h1 : g < k
    · simp [h1]
    · by_cases h2 : g = k
      · subst h2; simp
      · simp only [h1, h2, ↓reduceIte, List.map_cons, List.mem_cons, ih x]
        constructor
        · rintro (h | h | h)
          · exact Or.inr (Or.inl h)
          · exact Or.inl h
          · exact Or.inr (Or.inr h)
        · rintro (h | h | h)
          · exact Or.inr (Or.inl h)
          · exact Or.inl h
          · exact Or.inr (Or.inr h)

theorem bmInsert_sorted {β : Type} (g : Nat) (v : β) : ∀ (l : List (Nat × β)),
    (l.map (·.1)).Pairwise (· < ·) → ((bmInsert g v l).map (·.1)).Pairwise (· < ·) := by
  intro l
  induction l with
  | nil => intro _; simp [bmInsert]
  | cons e rest ih =>
    intro hs
    obtain ⟨k, w⟩ := e
    simp only [List.map_cons, List.pairwise_cons] at hs
    unfold bmInsert
    by_cases h1 : g < k
    · simp only [h1, ↓reduceIte, List.map_cons, List.pairwise_cons]
      refine ⟨?_, hs⟩
      intro x hx
      rcases List.mem_cons.mp hx with rfl | hx'
      · exact h1
      · exact Nat.lt_trans h1 (hs.1 x hx')
    · by_cases h2 : g = k
      · subst h2
        simp only [Nat.lt_irrefl, ↓reduceIte, List.map_cons, List.pairwise_cons]
        exact hs
      · simp only [h1, h2, ↓reduceIte, List.map_cons, List.pairwise_cons]
        refine ⟨?_, ih hs.2⟩
        intro x hx
        rcases (bmInsert_keys_mem g v rest x).mp hx with rfl | hx'
        · omega
        · exact hs.1 x hx'

/-- a sorted map read back through the coverage table built from its keys -/
theorem bmGet_coverage {β : Type} (l : List (Nat × β)) (hs : (l.map (·.1)).Pairwise (· < ·))
    (hb : ∀ x ∈ l.map (·.1), x < 65536) (g : Nat) :
    match bmGet g l with
    | none => (buildCoverage (l.map (·.1))).get g = none
    | some v => ∃ i, (buildCoverage (l.map (·.1))).get g = some i ∧ (l.map (·.2))[i]? = some v := by
  rw [buildCoverage_get _ hb, sortDedup_of_sorted hs]
  clear hb
  induction l with
  | nil => simp [bmGet, indexIn]
  | cons e rest ih =>
    obtain ⟨k, w⟩ := e
    simp only [List.map_cons, List.pairwise_cons] at hs
    by_cases hk : k = g
    · subst hk
      simp only [bmGet, ↓reduceIte, List.map_cons, indexIn]
      exact ⟨0, rfl, rfl⟩
    · simp only [bmGet, hk, ↓reduceIte, List.map_cons, indexIn]
      have := ih hs.2
      cases hg : bmGet g rest with
      | none =>
        rw [hg] at this
        simp only at this ⊢
        rw [this]; rfl
      | some v =>
        rw [hg] at this
        obtain ⟨i, hi, hv⟩ := this
        exact ⟨i + 1, by rw [hi]; rfl, by simpa using hv⟩

/-! ### `setMany` with repeated indices: the last assignment wins -/

theorem setMany_last {α β : Type} (step : α → Option (Nat × β)) :
    ∀ (as : List α) (out : List β),
      (∀ a ∈ as, ∃ i v, step a = some (i, v) ∧ i < out.length) →
      ∃ res, setMany step as out = some res ∧ res.length = out.length ∧
        ∀ j, res[j]? =
          match as.reverse.findSome? (fun a => match step a with
            | some (i, v) => if i = j then some v else none
            | none => none) with
          | some v => if j < out.length then some v else none
          | none => out[j]? := by
  intro as
  induction as with
  | nil => intro out _; exact ⟨out, rfl, rfl, fun j => rfl⟩
  | cons a as ih =>
    intro out hall
    obtain ⟨i, v, hs, hi⟩ := hall a (List.mem_cons_self ..)
    have hall' : ∀ a' ∈ as, ∃ i' v', step a' = some (i', v') ∧ i' < (out.set i v).length := by
      intro a' ha'
      obtain ⟨i', v', h1, h2⟩ := hall a' (List.mem_cons_of_mem _ ha')
      exact ⟨i', v', h1, by rw [List.length_set]; exact h2⟩
    obtain ⟨res, hres, hlen, hj⟩ := ih (out.set i v) hall'
    refine ⟨res, ?_, by rw [hlen, List.length_set], fun j => ?_⟩
    · simp only [setMany, hs, setAt?, hi, ↓reduceIte]
      exact hres
    · rw [hj j, List.reverse_cons, List.findSome?_append]
      cases hf : as.reverse.findSome? (fun a => match step a with
            | some (i, v) => if i = j then some v else none
            | none => none) with
      | some w => simp [List.length_set]
      | none =>
        simp only [Option.none_or, List.findSome?_cons, List.findSome?_nil, hs]
        rw [List.getElem?_set]
        by_cases hij : i = j
        · subst hij; simp [hi]
        · simp [hij]

/-! ### `mapOpt` -/

theorem mapOpt_spec {α β : Type} (f : α → Option β) : ∀ (l : List α),
    (∀ a ∈ l, ∃ b, f a = some b) →
    ∃ rs, mapOpt f l = some rs ∧ rs.length = l.length ∧
      ∀ (i : Nat) a, l[i]? = some a → ∃ b, f a = some b ∧ rs[i]? = some b := by
  intro l
  induction l with
  | nil => intro _; exact ⟨[], rfl, rfl, fun i a h => by simp at h⟩
  | cons x xs ih =>
    intro hall
    obtain ⟨b, hb⟩ := hall x (List.mem_cons_self ..)
    obtain ⟨rs, hrs, hlen, hget⟩ := ih (fun a ha => hall a (List.mem_cons_of_mem _ ha))
    refine ⟨b :: rs, by simp [mapOpt, hb, hrs], by simp [hlen], fun i a h => ?_⟩
    cases i with
    | zero => simp at h; subst h; exact ⟨b, hb, rfl⟩
    | succ i => simpa using hget i a (by simpa using h)

/-! ### `MarkToBaseBuilder`: the state after a sequence of inserts -/

def lastMark {A : Type} (ops : List (MbOp A)) (m : Nat) : Option (Nat × A) :=
  ops.reverse.findSome? (fun op => match op with
    | .mark g n a => if g = m then some (n, a) else none
    | .base _ _ _ => none)

def lastBase {A : Type} (ops : List (MbOp A)) (b n : Nat) : Option A :=
  ops.reverse.findSome? (fun op => match op with
    | .base g n' a => if g = b ∧ n' = n then some a else none
    | .mark _ _ _ => none)

theorem mbExpected_eq {A : Type} (ops : List (MbOp A)) (m b : Nat) :
    mbExpected ops m b =
      match lastMark ops m with
      | none => none
      | some p => (lastBase ops b p.1).map (fun ab => (p.2, ab)) := by
  unfold mbExpected lastMark lastBase
  simp only
  cases ops.reverse.findSome? (fun op => match op with
    | .mark g n a => if g = m then some (n, a) else none
    | .base _ _ _ => none) with
  | none => rfl
  | some p => rfl

theorem ofOps_snoc {A : Type} (op : MbOp A) : ∀ (ops : List (MbOp A)) (b : MarkToBase A),
    MarkToBase.ofOps (ops ++ [op]) b = (MarkToBase.ofOps ops b).bind (fun b' => b'.apply op) := by
  intro ops
  induction ops with
  | nil =>
    intro b
    simp only [List.nil_append, MarkToBase.ofOps, Option.bind_some]
    cases h : b.apply op <;> rfl
  | cons o os ih =>
    intro b
    simp only [List.cons_append, MarkToBase.ofOps]
    cases b.apply o with
    | none => rfl
    | some b' => exact ih b'

theorem classId_mem {cs : List (Nat × Nat)} {n id : Nat} (h : classId cs n = some id) : (n, id) ∈ cs := by
  unfold classId at h
  cases hf : cs.find? (fun p => p.1 == n) with
  | none => rw [hf] at h; cases h
  | some p =>
    rw [hf] at h
    simp only [Option.map_some, Option.some.injEq] at h
    have hk : p.1 = n := by simpa using List.find?_some hf
    have : p = (n, id) := Prod.ext hk h
    rw [← this]; exact List.mem_of_find?_eq_some hf

theorem classId_append (cs : List (Nat × Nat)) (n' k n : Nat) :
    classId (cs ++ [(n', k)]) n =
      match classId cs n with
      | some id => some id
      | none => if n' = n then some k else none := by
  unfold classId
  rw [List.find?_append]
  cases cs.find? (fun p => p.1 == n) with
  | some p => rfl
  | none =>
    by_cases h : n' = n
    · subst h; simp
    · simp [h]

theorem classId_none_not_mem {cs : List (Nat × Nat)} {n : Nat} (h : classId cs n = none) :
    n ∉ cs.map (·.1) := by
  unfold classId at h
  cases hf : cs.find? (fun p => p.1 == n) with
  | some p => rw [hf] at h; cases h
  | none =>
    rw [List.find?_eq_none] at hf
    intro hm
    obtain ⟨p, hp, rfl⟩ := List.mem_map.mp hm
    exact absurd (by simp) (hf p hp)

structure MbInv {A : Type} (ops : List (MbOp A)) (b : MarkToBase A) : Prop where
  msorted : (b.marks.glyphs.map (·.1)).Pairwise (· < ·)
  bsorted : (b.bases.map (·.1)).Pairwise (· < ·)
  mbound : ∀ x ∈ b.marks.glyphs.map (·.1), x < 65536
  bbound : ∀ x ∈ b.bases.map (·.1), x < 65536
  ids : b.marks.classes.map (·.2) = List.range b.marks.classes.length
  names : (b.marks.classes.map (·.1)).Nodup
  marks : ∀ m, match lastMark ops m with
    | none => bmGet m b.marks.glyphs = none
    | some p => ∃ id, classId b.marks.classes p.1 = some id ∧ bmGet m b.marks.glyphs = some (id, p.2)
  bases : ∀ g n id, classId b.marks.classes n = some id →
    (((bmGet g b.bases).getD []).reverse.find? (fun e => e.1 == id)).map (·.2) = lastBase ops g n
  idlt : ∀ g, ∀ e ∈ (bmGet g b.bases).getD [], e.1 < b.marks.classes.length
  known : ∀ op ∈ ops, match op with
    | .base _ n _ => classId b.marks.classes n ≠ none
    | .mark _ _ _ => True

theorem MbInv.id_lt {A : Type} {ops : List (MbOp A)} {b : MarkToBase A} (h : MbInv ops b) {n id : Nat}
    (hc : classId b.marks.classes n = some id) : id < b.marks.classes.length := by
  have : id ∈ b.marks.classes.map (·.2) := List.mem_map.mpr ⟨_, classId_mem hc, rfl⟩
  rw [h.ids] at this
  simpa using this

theorem MbInv.id_inj {A : Type} {ops : List (MbOp A)} {b : MarkToBase A} (h : MbInv ops b) {n n' id : Nat}
    (hc : classId b.marks.classes n = some id) (hc' : classId b.marks.classes n' = some id) : n = n' := by
  have hnd : (b.marks.classes.map (·.2)).Nodup := by rw [h.ids]; exact List.nodup_range
  have := eq_of_nodup_map (·.2) _ hnd _ (classId_mem hc) _ (classId_mem hc') rfl
  exact (Prod.ext_iff.mp this).1

theorem mbInv_empty {A : Type} : MbInv ([] : List (MbOp A)) MarkToBase.empty where
  msorted := List.Pairwise.nil
  bsorted := List.Pairwise.nil
  mbound := fun x hx => nomatch hx
  bbound := fun x hx => nomatch hx
  ids := rfl
  names := List.nodup_nil
  marks := fun m => rfl
  bases := fun g n id h => by simp [classId, MarkToBase.empty] at h
  idlt := fun g e he => by simp [MarkToBase.empty, bmGet] at he
  known := fun op hop => nomatch hop

def MbOp.glyph {A : Type} : MbOp A → Nat
  | .mark g _ _ => g
  | .base g _ _ => g

theorem lastMark_snoc {A : Type} (ops : List (MbOp A)) (op : MbOp A) (m : Nat) :
    lastMark (ops ++ [op]) m =
      match op with
      | .mark g n a => if g = m then some (n, a) else lastMark ops m
      | .base _ _ _ => lastMark ops m := by
  unfold lastMark
  rw [List.reverse_append, List.reverse_singleton, List.singleton_append, List.findSome?_cons]
  cases op with
  | mark g n a => by_cases h : g = m <;> simp [h]
  | base g n a => rfl

theorem lastBase_snoc {A : Type} (ops : List (MbOp A)) (op : MbOp A) (b n : Nat) :
    lastBase (ops ++ [op]) b n =
      match op with
      | .base g n' a => if g = b ∧ n' = n then some a else lastBase ops b n
      | .mark _ _ _ => lastBase ops b n := by
  unfold lastBase
  rw [List.reverse_append, List.reverse_singleton, List.singleton_append, List.findSome?_cons]
  cases op with
  | mark g n a => rfl
  | base g n' a => by_cases h : g = b ∧ n' = n <;> simp [h]

/-- one `insert_mark` / `insert_base` keeps the invariant (or panics: a base for an unknown class) -/
theorem mbInv_step {A : Type} (ops : List (MbOp A)) (b : MarkToBase A) (h : MbInv ops b) (op : MbOp A)
    (hg : op.glyph < 65536) (b' : MarkToBase A) (hb' : b.apply op = some b') : MbInv (ops ++ [op]) b' := by
  cases op with
  | mark g n a =>
    simp only [MarkToBase.apply, Option.some.injEq] at hb'
    subst hb'
    -- the class list and the id of `n` after the insert
    have hcls : ∃ id cs, ((b.marks.insert g n a).1.classes = cs) ∧
        ((b.marks.insert g n a).1.glyphs = bmInsert g (id, a) b.marks.glyphs) ∧
        classId cs n = some id ∧
        ((cs = b.marks.classes) ∨ (classId b.marks.classes n = none ∧
          cs = b.marks.classes ++ [(n, b.marks.classes.length)] ∧ id = b.marks.classes.length)) := by
      unfold MarkList.insert
      cases hc : classId b.marks.classes n with
      | some id =>
        refine ⟨id, b.marks.classes, ?_, ?_, hc, Or.inl rfl⟩
        · simp only []; split <;> (try split) <;> rfl
        · simp only []; split <;> (try split) <;> rfl
      | none =>
        refine ⟨b.marks.classes.length, b.marks.classes ++ [(n, b.marks.classes.length)], ?_, ?_, ?_, Or.inr ⟨rfl, rfl, rfl⟩⟩
        · simp only []; split <;> (try split) <;> rfl
        · simp only []; split <;> (try split) <;> rfl
        · rw [classId_append, hc]; simp
    obtain ⟨id, cs, hcs, hgl, hid, hcase⟩ := hcls
    -- class ids only grow
    have hmono : ∀ n' id', classId b.marks.classes n' = some id' → classId cs n' = some id' := by
      intro n' id' hc
      rcases hcase with rfl | ⟨_, rfl, _⟩
      · exact hc
      · rw [classId_append, hc]
    have hnew : ∀ n' id', classId cs n' = some id' → classId b.marks.classes n' = some id' ∨
        (classId b.marks.classes n' = none ∧ n' = n ∧ id' = b.marks.classes.length) := by
      intro n' id' hc
      rcases hcase with rfl | ⟨hnone, rfl, _⟩
      · exact Or.inl hc
      · rw [classId_append] at hc
        cases hold : classId b.marks.classes n' with
        | some x => rw [hold] at hc; exact Or.inl hc
        | none =>
          rw [hold] at hc
          simp only at hc
          split at hc
          · rename_i heq
            exact Or.inr ⟨rfl, heq.symm, (Option.some.inj hc).symm⟩
          · cases hc
    have hlen : b.marks.classes.length ≤ cs.length := by
      rcases hcase with rfl | ⟨_, rfl, _⟩
      · exact Nat.le_refl _
      · simp
    refine
      { msorted := ?_, bsorted := h.bsorted, mbound := ?_, bbound := h.bbound, ids := ?_, names := ?_,
        marks := ?_, bases := ?_, idlt := ?_, known := ?_ }
    · show (((b.marks.insert g n a).1.glyphs).map (·.1)).Pairwise (· < ·)
      rw [hgl]; exact bmInsert_sorted _ _ _ h.msorted
    · intro x hx
      have hx' : x ∈ ((b.marks.insert g n a).1.glyphs).map (·.1) := hx
      rw [hgl] at hx'
      rcases (bmInsert_keys_mem _ _ _ x).mp hx' with rfl | hx''
      · exact hg
      · exact h.mbound x hx''
    · show ((b.marks.insert g n a).1.classes).map (·.2) = List.range ((b.marks.insert g n a).1.classes).length
      rw [hcs]
      rcases hcase with rfl | ⟨_, rfl, _⟩
      · exact h.ids
      · simp only [List.map_append, List.map_cons, List.map_nil, List.length_append, List.length_cons,
          List.length_nil, Nat.zero_add, List.range_succ, h.ids]
    · show (((b.marks.insert g n a).1.classes).map (·.1)).Nodup
      rw [hcs]
      rcases hcase with rfl | ⟨hnone, rfl, _⟩
      · exact h.names
      · simp only [List.map_append, List.map_cons, List.map_nil]
        rw [List.nodup_append]
        refine ⟨h.names, List.nodup_iff_pairwise_ne.mpr (List.pairwise_singleton _ _), ?_⟩
        intro x hx y hy
        simp at hy; subst hy
        intro e; subst e
        exact classId_none_not_mem hnone hx
    · intro m
      show match lastMark (ops ++ [MbOp.mark g n a]) m with
        | none => bmGet m (b.marks.insert g n a).1.glyphs = none
        | some p => ∃ id, classId (b.marks.insert g n a).1.classes p.1 = some id ∧
            bmGet m (b.marks.insert g n a).1.glyphs = some (id, p.2)
      rw [lastMark_snoc, hgl, hcs, bmGet_insert]
      simp only
      by_cases hgm : g = m
      · subst hgm
        simp only [↓reduceIte]
        exact ⟨id, hid, rfl⟩
      · have : ¬ m = g := fun e => hgm e.symm
        simp only [hgm, this, ↓reduceIte]
        have := h.marks m
        cases hl : lastMark ops m with
        | none => rw [hl] at this; exact this
        | some p =>
          rw [hl] at this
          obtain ⟨id', h1, h2⟩ := this
          exact ⟨id', hmono _ _ h1, h2⟩
    · intro g' n' id' hc
      show (((bmGet g' b.bases).getD []).reverse.find? (fun e => e.1 == id')).map (·.2) =
        lastBase (ops ++ [MbOp.mark g n a]) g' n'
      rw [lastBase_snoc]
      simp only
      have hc' : classId cs n' = some id' := by rw [← hcs]; exact hc
      rcases hnew n' id' hc' with hold | ⟨hnone, rfl, rfl⟩
      · exact h.bases g' n' id' hold
      · -- a class that is new has no base anchors yet
        have h1 : ((bmGet g' b.bases).getD []).reverse.find? (fun e => e.1 == b.marks.classes.length) = none := by
          rw [List.find?_eq_none]
          intro e he
          have := h.idlt g' e (List.mem_reverse.mp he)
          simp; omega
        have h2 : lastBase ops g' n' = none := by
          unfold lastBase
          rw [List.findSome?_eq_none_iff]
          intro op hop
          have := h.known op (List.mem_reverse.mp hop)
          cases op with
          | mark _ _ _ => rfl
          | base gb nb ab =>
            simp only at this ⊢
            by_cases hh : gb = g' ∧ nb = n'
            · rw [hh.2] at this; exact absurd hnone this
            · simp [hh]
        rw [h1, h2]; rfl
    · intro g' e he
      have := h.idlt g' e he
      show e.1 < ((b.marks.insert g n a).1.classes).length
      rw [hcs]; omega
    · intro op hop
      rcases List.mem_append.mp hop with hop' | hop'
      · have := h.known op hop'
        cases op with
        | mark _ _ _ => trivial
        | base gb nb ab =>
          simp only at this ⊢
          show classId (b.marks.insert g n a).1.classes nb ≠ none
          rw [hcs]
          cases hx : classId b.marks.classes nb with
          | none => exact absurd hx this
          | some x => rw [hmono _ _ hx]; simp
      · simp only [List.mem_singleton] at hop'
        subst hop'
        trivial
  | base g n a =>
    simp only [MarkToBase.apply, MarkToBase.insertBase] at hb'
    cases hc : classId b.marks.classes n with
    | none => rw [hc] at hb'; cases hb'
    | some id =>
      rw [hc] at hb'
      simp only [Option.some.injEq] at hb'
      subst hb'
      refine
        { msorted := h.msorted, bsorted := ?_, mbound := h.mbound, bbound := ?_, ids := h.ids,
          names := h.names, marks := ?_, bases := ?_, idlt := ?_, known := ?_ }
      · exact bmInsert_sorted _ _ _ h.bsorted
      · intro x hx
        rcases (bmInsert_keys_mem _ _ _ x).mp hx with rfl | hx'
        · exact hg
        · exact h.bbound x hx'
      · intro m
        show match lastMark (ops ++ [MbOp.base g n a]) m with
          | none => bmGet m b.marks.glyphs = none
          | some p => ∃ id, classId b.marks.classes p.1 = some id ∧ bmGet m b.marks.glyphs = some (id, p.2)
        rw [lastMark_snoc]
        exact h.marks m
      · intro g' n' id' hc'
        show (((bmGet g' (bmInsert g (((bmGet g b.bases).getD []) ++ [(id, a)]) b.bases)).getD []).reverse.find?
          (fun e => e.1 == id')).map (·.2) = lastBase (ops ++ [MbOp.base g n a]) g' n'
        rw [lastBase_snoc, bmGet_insert]
        simp only
        by_cases hgg : g' = g
        · subst hgg
          simp only [↓reduceIte, Option.getD_some, List.reverse_append, List.reverse_singleton,
            List.singleton_append, List.find?_cons]
          by_cases hid : id = id'
          · subst hid
            have : n = n' := h.id_inj hc hc'
            simp [this]
          · have hn : ¬ n = n' := by
              intro e; subst e
              rw [hc] at hc'; exact hid (Option.some.inj hc')
            have : (id == id') = false := by simp [hid]
            simp only [this, hn, and_false, ↓reduceIte]
            exact h.bases g' n' id' hc'
        · have : ¬ (g = g' ∧ n = n') := fun e => hgg e.1.symm
          simp only [hgg, this, ↓reduceIte]
          exact h.bases g' n' id' hc'
      · intro g' e he
        have he' : e ∈ (bmGet g' (bmInsert g (((bmGet g b.bases).getD []) ++ [(id, a)]) b.bases)).getD [] := he
        rw [bmGet_insert] at he'
        by_cases hgg : g' = g
        · subst hgg
          simp only [↓reduceIte, Option.getD_some, List.mem_append, List.mem_singleton] at he'
          rcases he' with h1 | rfl
          · exact h.idlt g' e h1
          · exact h.id_lt hc
        · simp only [hgg, ↓reduceIte] at he'
          exact h.idlt g' e he'
      · intro op hop
        rcases List.mem_append.mp hop with hop' | hop'
        · exact h.known op hop'
        · simp only [List.mem_singleton] at hop'
          subst hop'
          show classId b.marks.classes n ≠ none
          rw [hc]; simp

/-- the invariant after any successful sequence of inserts -/
theorem mbInv_ofOps {A : Type} (ops : List (MbOp A)) (hg : ∀ op ∈ ops, op.glyph < 65536) :
    ∀ b, MarkToBase.ofOps ops MarkToBase.empty = some b → MbInv ops b := by
  induction ops using snoc_induction with
  | h0 => intro b hb; simp only [MarkToBase.ofOps, Option.some.injEq] at hb; subst hb; exact mbInv_empty
  | hs ops op ih =>
    intro b hb
    rw [ofOps_snoc] at hb
    cases hprev : MarkToBase.ofOps ops MarkToBase.empty with
    | none => rw [hprev] at hb; cases hb
    | some b0 =>
      rw [hprev] at hb
      simp only [Option.bind_some] at hb
      exact mbInv_step ops b0 (ih (fun o ho => hg o (List.mem_append_left _ ho)) b0 hprev) op
        (hg op (by simp)) b hb

theorem bmGet_of_mem {β : Type} : ∀ (l : List (Nat × β)), (l.map (·.1)).Pairwise (· < ·) →
    ∀ e ∈ l, bmGet e.1 l = some e.2 := by
  intro l
  induction l with
  | nil => intro _ e he; cases he
  | cons x xs ih =>
    intro hs e he
    obtain ⟨k, w⟩ := x
    simp only [List.map_cons, List.pairwise_cons] at hs
    rcases List.mem_cons.mp he with rfl | he'
    · simp [bmGet]
    · have : k < e.1 := hs.1 e.1 (List.mem_map.mpr ⟨e, he', rfl⟩)
      have hne : ¬ k = e.1 := by omega
      simp only [bmGet, hne, ↓reduceIte]
      exact ih hs.2 e he'

theorem findSome_anchor {A : Type} (id : Nat) : ∀ (l : List (Nat × A)),
    l.findSome? (fun e => match (some (e.1, some e.2) : Option (Nat × Option A)) with
      | some (i, v) => if i = id then some v else none
      | none => none) = (l.find? (fun e => e.1 == id)).map (fun e => some e.2) := by
  intro l
  induction l with
  | nil => rfl
  | cons x xs ih =>
    simp only [List.findSome?_cons, List.find?_cons]
    by_cases h : x.1 = id
    · simp [h]
    · have : (x.1 == id) = false := by simp [h]
      simp only [h, ↓reduceIte, this]
      exact ih

/-- **the built MarkBasePos subtable reads back the inserts.** -/
theorem mbInv_build_lookup {A : Type} (ops : List (MbOp A)) (b : MarkToBase A) (h : MbInv ops b) :
    ∃ t, b.build = some t ∧ t.classCount = b.marks.classes.length ∧
      ∀ m bg, t.lookup m bg = mbExpected ops m bg := by
  -- every base record is built without an index panic, the last anchor per class wins
  have hrow : ∀ e ∈ b.bases, ∃ row, baseRecord e.2 (List.replicate b.marks.classes.length none) = some row ∧
      ∀ id, id < b.marks.classes.length →
        row[id]? = some ((e.2.reverse.find? (fun x => x.1 == id)).map (·.2)) := by
    intro e he
    have hget := bmGet_of_mem b.bases h.bsorted e he
    have hall : ∀ a ∈ e.2, ∃ i v, (fun x : Nat × A => (some (x.1, some x.2) : Option (Nat × Option A))) a
        = some (i, v) ∧ i < (List.replicate b.marks.classes.length (none : Option A)).length := by
      intro a ha
      have := h.idlt e.1 a (by rw [hget]; exact ha)
      exact ⟨a.1, some a.2, rfl, by rw [List.length_replicate]; exact this⟩
    obtain ⟨row, hr, _, hj⟩ := setMany_last _ e.2 _ hall
    refine ⟨row, hr, fun id hid => ?_⟩
    rw [hj id, findSome_anchor id e.2.reverse]
    cases e.2.reverse.find? (fun x => x.1 == id) with
    | none => simp [List.getElem?_replicate, hid]
    | some x => simp [List.length_replicate, hid]
  obtain ⟨rows, hrows, hlen, hrget⟩ := mapOpt_spec
    (fun e : Nat × List (Nat × A) => baseRecord e.2 (List.replicate b.marks.classes.length none)) b.bases
    (fun e he => (hrow e he).imp (fun row hr => hr.1))
  refine ⟨⟨buildCoverage (b.marks.glyphs.map (·.1)), buildCoverage (b.bases.map (·.1)),
    b.marks.classes.length, b.marks.glyphs.map (·.2), rows⟩, ?_, rfl, ?_⟩
  · unfold MarkToBase.build
    simp only [hrows]
  · intro m bg
    rw [mbExpected_eq]
    unfold MarkBase.lookup
    simp only
    have hm := bmGet_coverage b.marks.glyphs h.msorted h.mbound m
    have hb := bmGet_coverage b.bases h.bsorted h.bbound bg
    have hmarks := h.marks m
    cases hl : lastMark ops m with
    | none =>
      rw [hl] at hmarks
      simp only at hmarks
      rw [hmarks] at hm
      simp only at hm
      rw [hm]
    | some p =>
      rw [hl] at hmarks
      obtain ⟨id, hid, hgm⟩ := hmarks
      rw [hgm] at hm
      obtain ⟨mi, hmi, hmv⟩ := hm
      rw [hmi]
      simp only
      have hbases := h.bases bg p.1 id hid
      cases hgb : bmGet bg b.bases with
      | none =>
        rw [hgb] at hb hbases
        simp only at hb
        rw [hb]
        simp only [Option.getD_none, List.reverse_nil, List.find?_nil, Option.map_none] at hbases
        rw [← hbases]; rfl
      | some lst =>
        rw [hgb] at hb hbases
        obtain ⟨bi, hbi, hbv⟩ := hb
        rw [hbi]
        simp only
        rw [hmv]
        -- the row of this base
        rw [List.getElem?_map] at hbv
        cases hbe : b.bases[bi]? with
        | none => rw [hbe] at hbv; cases hbv
        | some e =>
          rw [hbe] at hbv
          simp only [Option.map_some, Option.some.injEq] at hbv
          obtain ⟨row, hrr, hrbi⟩ := hrget bi e hbe
          obtain ⟨row', hrr', hcell⟩ := hrow e (List.mem_of_getElem? hbe)
          rw [hrr] at hrr'
          cases hrr'
          rw [hrbi]
          simp only
          rw [hcell id (h.id_lt hid), hbv]
          simp only [Option.getD_some] at hbases
          rw [← hbases]
          cases lst.reverse.find? (fun x => x.1 == id) <;> rfl

/-! ### the MarkToBase split: split points of the size loop, class information -/

theorem mbStep_points (obj : Nat → AnchorObj) (minSize baseCount : Nat) (st : MbAcc) (i : Nat)
    (info : MbClassInfo) :
    (mbStep obj minSize baseCount st i info).points = st.points ∨
    (mbStep obj minSize baseCount st i info).points = i :: st.points := by
  unfold mbStep
  simp only
  split <;> simp

/-- the points collected so far are strictly decreasing (the list is reversed) and below `i` -/
def MbPointsInv (st : MbAcc) (i : Nat) : Prop :=
  st.points.Pairwise (· > ·) ∧ ∀ p ∈ st.points, p < i

theorem mbLoop_inv (obj : Nat → AnchorObj) (minSize baseCount : Nat) :
    ∀ (infos : List MbClassInfo) (st : MbAcc) (i : Nat), MbPointsInv st i →
      MbPointsInv (mbLoop obj minSize baseCount st i infos) (i + infos.length) := by
  intro infos
  induction infos with
  | nil => intro st i h; exact h
  | cons info rest ih =>
    intro st i h
    have hstep : MbPointsInv (mbStep obj minSize baseCount st i info) (i + 1) := by
      rcases mbStep_points obj minSize baseCount st i info with e | e
      · exact ⟨by rw [e]; exact h.1, fun p hp => by rw [e] at hp; exact Nat.lt_succ_of_lt (h.2 p hp)⟩
      · refine ⟨by rw [e]; exact List.pairwise_cons.mpr ⟨fun p hp => h.2 p hp, h.1⟩, fun p hp => ?_⟩
        rw [e] at hp
        rcases List.mem_cons.mp hp with rfl | hp'
        · exact Nat.lt_succ_self _
        · exact Nat.lt_succ_of_lt (h.2 p hp')
    have := ih (mbStep obj minSize baseCount st i info) (i + 1) hstep
    simp only [mbLoop, List.length_cons]
    rw [show i + (rest.length + 1) = i + 1 + rest.length by omega]
    exact this

theorem getClassInfo_length (k : Nat) (recs : List (Nat × Nat)) (offs : List Nat) :
    (getClassInfo k recs offs).length = k := by
  simp [getClassInfo]

theorem idealClassInfo_length (k : Nat) (recs : List (Nat × Nat)) (rows : List (List (Option Nat))) :
    (idealClassInfo k recs rows).length = k := by
  simp [idealClassInfo]

theorem chunksExact_flatten (k : Nat) (hk : 0 < k) : ∀ (rs : List (List Nat)),
    (∀ r ∈ rs, r.length = k) → chunksExact k rs.flatten = rs := by
  intro rs
  induction rs with
  | nil =>
    intro _
    rw [chunksExact]
    have : ¬ k = 0 := by omega
    simp [this, hk]
  | cons r rs ih =>
    intro h
    have hr : r.length = k := h r (List.mem_cons_self ..)
    rw [chunksExact]
    have h0 : ¬ k = 0 := by omega
    have hl : ¬ (r :: rs).flatten.length < k := by simp [hr]
    simp only [h0, ↓reduceDIte, hl]
    have h1 : (r :: rs).flatten.take k = r := by
      rw [List.flatten_cons, List.take_append_of_le_length (by omega), ← hr, List.take_length]
    have h2 : (r :: rs).flatten.drop k = rs.flatten := by
      rw [List.flatten_cons, ← hr, List.drop_left]
    rw [h1, h2, ih (fun r' hr' => h r' (List.mem_cons_of_mem _ hr'))]

/-- a base record without null anchors -/
def FullRow (k : Nat) (row : List (Option Nat)) : Prop := row.length = k ∧ ∀ x ∈ row, x ≠ none

theorem fullRow_filterMap (k : Nat) (row : List (Option Nat)) (h : FullRow k row) :
    (row.filterMap id).length = k ∧ ∀ c : Nat, (row.filterMap id)[c]? = (row[c]?).join := by
  obtain ⟨hl, hall⟩ := h
  subst hl
  induction row with
  | nil => exact ⟨rfl, fun c => by simp⟩
  | cons x xs ih =>
    have hx := hall x (List.mem_cons_self ..)
    cases x with
    | none => exact absurd rfl hx
    | some v =>
      obtain ⟨i1, i2⟩ := ih (fun y hy => hall y (List.mem_cons_of_mem _ hy))
      refine ⟨by simp [i1], fun c => ?_⟩
      cases c with
      | zero => simp
      | succ c => simpa using i2 c

theorem mod_eq_iff_sub_mod (k f p : Nat) (hk : 0 < k) (hp : p ≤ f) :
    p % k = f % k ↔ (f - p) % k = 0 := by
  obtain ⟨n, rfl⟩ : ∃ n, f = p + n := ⟨f - p, by omega⟩
  rw [Nat.add_sub_cancel_left, Nat.add_mod]
  have ha : p % k < k := Nat.mod_lt _ hk
  have hb : n % k < k := Nat.mod_lt _ hk
  generalize p % k = a at ha
  generalize n % k = b at hb
  by_cases hlt : a + b < k
  · rw [Nat.mod_eq_of_lt hlt]; omega
  · have : (a + b) % k = a + b - k := by
      rw [Nat.mod_eq_sub_mod (by omega), Nat.mod_eq_of_lt (by omega)]
    rw [this]; omega

/-- element `p` of a list sits in chunk `p / k` at position `p % k` — if that chunk is complete -/
theorem chunksExact_getElem (k : Nat) (hk : 0 < k) : ∀ (n : Nat) (xs : List Nat), xs.length = n →
    ∀ p, p < xs.length →
      ((chunksExact k xs)[p / k]?).bind (·[p % k]?) = if p / k < xs.length / k then xs[p]? else none := by
  intro n
  induction n using Nat.strongRecOn with
  | ind n ih =>
    intro xs hn p hp
    rw [chunksExact]
    have h0 : ¬ k = 0 := by omega
    simp only [h0, ↓reduceDIte]
    by_cases hl : xs.length < k
    · simp only [hl, ↓reduceDIte]
      have : xs.length / k = 0 := Nat.div_eq_of_lt hl
      simp [this]
    · simp only [hl, ↓reduceDIte]
      have hge : k ≤ xs.length := by omega
      have hdiv : xs.length / k = (xs.length - k) / k + 1 := by
        rw [← Nat.sub_add_cancel hge, Nat.add_div_right _ hk]; simp
      by_cases hpk : p < k
      · have h1 : p / k = 0 := Nat.div_eq_of_lt hpk
        have h2 : p % k = p := Nat.mod_eq_of_lt hpk
        rw [h1, h2, hdiv]
        simp only [List.getElem?_cons_zero, Option.bind_some, Nat.zero_lt_succ, ↓reduceIte]
        rw [List.getElem?_take]
        simp [hpk]
      · have hpk' : k ≤ p := by omega
        have h1 : p / k = (p - k) / k + 1 := by
          rw [← Nat.sub_add_cancel hpk', Nat.add_div_right _ hk]; simp
        have h2 : p % k = (p - k) % k := by
          rw [← Nat.sub_add_cancel hpk', Nat.add_mod_right]; simp
        rw [h1, h2, hdiv, List.getElem?_cons_succ]
        have := ih (xs.length - k) (by omega) (xs.drop k) (by simp) (p - k) (by simp; omega)
        rw [this]
        simp only [List.length_drop, Nat.add_lt_add_iff_right, List.getElem?_drop]
        rw [show k + (p - k) = p by omega]

theorem filterMap_congr' {α β : Type} {f g : α → Option β} : ∀ (l : List α), (∀ x ∈ l, f x = g x) →
    l.filterMap f = l.filterMap g := by
  intro l
  induction l with
  | nil => intro _; rfl
  | cons a l ih =>
    intro h
    rw [List.filterMap_cons, List.filterMap_cons, h a (List.mem_cons_self ..),
      ih (fun x hx => h x (List.mem_cons_of_mem _ hx))]

/-- number of non-null offsets before flat (row-major) position `f` of the anchor matrix -/
def nonNullBefore (cells : List (Option Nat)) (f : Nat) : Nat := ((cells.take f).filterMap id).length

/-- number of null offsets before flat position `f` -/
def nullsBefore (cells : List (Option Nat)) (f : Nat) : Nat := ((cells.take f).filter (·.isNone)).length

theorem filterMap_filter_length : ∀ (l : List (Option Nat)),
    (l.filterMap id).length + (l.filter (·.isNone)).length = l.length := by
  intro l
  induction l with
  | nil => rfl
  | cons x xs ih =>
    cases x with
    | none => simp [List.filterMap_cons, List.filter_cons]; omega
    | some v => simp [List.filterMap_cons, List.filter_cons]; omega

theorem nonNull_add_nulls (cells : List (Option Nat)) (f : Nat) (hf : f ≤ cells.length) :
    nonNullBefore cells f + nullsBefore cells f = f := by
  unfold nonNullBefore nullsBefore
  rw [filterMap_filter_length, List.length_take, Nat.min_eq_left hf]

theorem baseOffsets_position : ∀ (cells : List (Option Nat)) (f x : Nat),
    cells[f]? = some (some x) → (cells.filterMap id)[nonNullBefore cells f]? = some x := by
  intro cells
  induction cells with
  | nil => intro f x h; simp at h
  | cons c cs ih =>
    intro f x h
    cases f with
    | zero =>
      simp only [List.getElem?_cons_zero, Option.some.injEq] at h
      subst h
      simp [nonNullBefore]
    | succ f =>
      simp only [List.getElem?_cons_succ] at h
      have := ih f x h
      unfold nonNullBefore at this ⊢
      cases c with
      | none => simpa [List.filterMap_cons] using this
      | some y => simpa [List.filterMap_cons] using this

end FontVerif.Layout
