/-
Helper lemmas for C16: the generic split loop, `split_off_ppf2` (PairPos format 2) and
`split_off_mark_pos` (MarkBasePos) preserve first-match lookups.
-/
import FontVerif.Lemmas.LayoutPair
import FontVerif.Lemmas.LayoutClassDef
set_option linter.unusedVariables false
namespace FontVerif.Layout

/-! ## generic facts -/

theorem indexIn_of_mem {g : Nat} {xs : List Nat} (h : g ∈ xs) : ∃ i, indexIn g xs = some i := by
  induction xs with
  | nil => cases h
  | cons x xs ih =>
    by_cases hx : x = g
    · exact ⟨0, by simp [indexIn, hx]⟩
    · rcases List.mem_cons.mp h with h | h
      · exact absurd h.symm hx
      · obtain ⟨i, hi⟩ := ih h
        exact ⟨i + 1, by simp [indexIn, hx, hi]⟩

theorem indexIn_mem {g i : Nat} {xs : List Nat} (h : indexIn g xs = some i) : g ∈ xs :=
  List.mem_of_getElem? (indexIn_some_mem h)

theorem mem_expandRanges {g : Nat} {rs : List RangeRec} (h : g ∈ expandRanges rs) :
    ∃ r ∈ rs, r.start ≤ g ∧ g ≤ r.end_ := by
  induction rs with
  | nil => cases h
  | cons r0 rest ih =>
    simp only [expandRanges, List.mem_append, RangeRec.glyphs, List.mem_range'_1] at h
    rcases h with h | h
    · exact ⟨r0, List.mem_cons_self .., by omega⟩
    · obtain ⟨r, hr, hh⟩ := ih h
      exact ⟨r, List.mem_cons_of_mem _ hr, hh⟩

theorem Coverage.glyphs_bound {c : Coverage} (h : c.WF) : ∀ g ∈ c.glyphs, g < 65536 := by
  cases c with
  | fmt1 xs => exact h.2
  | fmt2 rs =>
    intro g hg
    obtain ⟨r, hr, hh⟩ := mem_expandRanges hg
    have := h.2 r hr
    omega

theorem Coverage.get_isSome_iff {c : Coverage} (h : c.WF) (g : Nat) :
    (∃ i, c.get g = some i) ↔ g ∈ c.glyphs := by
  rw [Coverage.get_eq_indexIn h]
  exact ⟨fun ⟨i, hi⟩ => indexIn_mem hi, indexIn_of_mem⟩

theorem buildCoverage_wf (gs : List Nat) (hb : ∀ g ∈ gs, g < 65536) :
    (buildCoverage gs).WF ∧ (buildCoverage gs).glyphs = sortDedup gs :=
  buildCoverageSorted_wf (sortDedup_pairwise gs) (sortDedup_bound hb)

theorem buildCoverage_get (gs : List Nat) (hb : ∀ g ∈ gs, g < 65536) (g : Nat) :
    (buildCoverage gs).get g = indexIn g (sortDedup gs) := by
  have ⟨w, e⟩ := buildCoverage_wf gs hb
  rw [Coverage.get_eq_indexIn w, e]

theorem buildCoverage_covers (gs : List Nat) (hb : ∀ g ∈ gs, g < 65536) (g : Nat) :
    (∃ i, (buildCoverage gs).get g = some i) ↔ g ∈ gs := by
  have ⟨w, e⟩ := buildCoverage_wf gs hb
  rw [Coverage.get_isSome_iff w, e, mem_sortDedup]

/-- if every pair naming `g` carries the class `v` (and there is one), `g` gets class `v` -/
theorem assignedClass_const {ps : List (Nat × Nat)} {g v : Nat}
    (hall : ∀ p ∈ ps, p.1 = g → p.2 = v) (hex : ∃ p ∈ ps, p.1 = g) : assignedClass ps g = v := by
  unfold assignedClass
  cases hf : (ps.filter (fun p => p.2 != 0)).reverse.find? (fun p => p.1 == g) with
  | none =>
    simp only
    rw [List.find?_eq_none] at hf
    obtain ⟨p, hp, hpg⟩ := hex
    have hv := hall p hp hpg
    apply Classical.byContradiction
    intro hne
    have : p ∈ (ps.filter (fun p => p.2 != 0)).reverse :=
      List.mem_reverse.mpr (List.mem_filter.mpr ⟨hp, by simp; omega⟩)
    exact hf p this (by simp [hpg])
  | some q =>
    simp only
    have hq1 : q.1 = g := by simpa using List.find?_some hf
    have hq' : q ∈ ps :=
      (List.mem_filter.mp (List.mem_reverse.mp (List.mem_of_find?_eq_some hf))).1
    exact hall q hq' hq1

theorem buildClassDef_get (ps : List (Nat × Nat)) (g : Nat) :
    (buildClassDef ps).get g = assignedClass ps g := by
  unfold buildClassDef
  rw [buildClassDefItems_get (collectItems_sorted ps), itemGet_collectItems]

/-! ## the split loop -/

theorem le_lastOr' : ∀ (pts : List Nat) (prev : Nat), (prev :: pts).Pairwise (· ≤ ·) →
    prev ≤ lastOr prev pts := fun pts prev h => (le_lastOr pts prev h).1

/-- a chain of range-restricted lookups behaves like one lookup over the whole range -/
theorem splitLoop_findSome {S V : Type} (f : Nat → Nat → Option S) (look : S → Option V)
    (L : Nat → Nat → Option V)
    (hf : ∀ lo hi, lo ≤ hi → ∃ a, f lo hi = some a ∧ look a = L lo hi)
    (hsplit : ∀ lo mid hi, lo ≤ mid → mid ≤ hi → L lo hi = (L lo mid).or (L mid hi))
    (hempty : ∀ lo, L lo lo = none) :
    ∀ (pts : List Nat) (prev : Nat), (prev :: pts).Pairwise (· ≤ ·) →
      ∃ ts, splitLoop f prev pts = some ts ∧ ts.length = pts.length ∧
        ts.findSome? look = L prev (lastOr prev pts) := by
  intro pts
  induction pts with
  | nil => intro prev _; exact ⟨[], rfl, rfl, by simp [lastOr, hempty]⟩
  | cons p ps ih =>
    intro prev hpw
    have hpw' := List.pairwise_cons.mp hpw
    have hle : prev ≤ p := hpw'.1 p (List.mem_cons_self ..)
    have hp_le := le_lastOr' ps p hpw'.2
    obtain ⟨a, ha, hla⟩ := hf prev p hle
    obtain ⟨rest, hr, hlen, hlr⟩ := ih p hpw'.2
    refine ⟨a :: rest, by simp [splitLoop, ha, hr], by simp [hlen], ?_⟩
    simp only [lastOr, List.findSome?_cons, hla]
    rw [hsplit prev p (lastOr p ps) hle hp_le]
    cases L prev p with
    | some v => rfl
    | none => exact hlr

/-! ## PairPos format 2 -/

/-- lookup restricted to first glyphs whose class-1 value lies in `[lo, hi)` -/
def PairPos2.lookupIn {V : Type} (t : PairPos2 V) (lo hi g1 g2 : Nat) : Option V :=
  match t.cov.get g1 with
  | none => none
  | some _ =>
    if lo ≤ t.classDef1.get g1 ∧ t.classDef1.get g1 < hi then
      match t.rows[t.classDef1.get g1]? with
      | none => none
      | some row => row[t.classDef2.get g2]?
    else none

theorem splitOffPpf2_lookup {V : Type} (t : PairPos2 V) (hwf : t.cov.WF) (g1 g2 : Nat) {lo hi : Nat}
    (hlh : lo ≤ hi) :
    ∃ a, splitOffPpf2 t lo hi = some a ∧ a.lookup g1 g2 = t.lookupIn lo hi g1 g2 := by
  have hnl : ¬ hi < lo := by omega
  simp only [splitOffPpf2, hnl, ↓reduceIte]
  refine ⟨_, rfl, ?_⟩
  -- the class map
  generalize hcm : (t.cov.glyphs.filterMap (fun g =>
    if lo ≤ t.classDef1.get g ∧ t.classDef1.get g < hi then some (g, t.classDef1.get g - lo)
    else none)) = cm
  have hmem : ∀ p, p ∈ cm ↔ p.1 ∈ t.cov.glyphs ∧ lo ≤ t.classDef1.get p.1 ∧
      t.classDef1.get p.1 < hi ∧ p.2 = t.classDef1.get p.1 - lo := by
    intro p
    rw [← hcm, List.mem_filterMap]
    constructor
    · rintro ⟨g, hg, he⟩
      by_cases hc : lo ≤ t.classDef1.get g ∧ t.classDef1.get g < hi
      · simp only [hc, and_self, ↓reduceIte, Option.some.injEq] at he
        subst he
        exact ⟨hg, hc.1, hc.2, rfl⟩
      · simp [hc] at he
    · rintro ⟨h1, h2, h3, h4⟩
      refine ⟨p.1, h1, ?_⟩
      simp only [h2, h3, and_self, ↓reduceIte, Option.some.injEq]
      exact Prod.ext rfl h4.symm
  have hkeys : ∀ g, g ∈ cm.map (·.1) ↔ g ∈ t.cov.glyphs ∧ lo ≤ t.classDef1.get g ∧
      t.classDef1.get g < hi := by
    intro g
    rw [List.mem_map]
    constructor
    · rintro ⟨p, hp, rfl⟩
      have := (hmem p).mp hp
      exact ⟨this.1, this.2.1, this.2.2.1⟩
    · rintro ⟨h1, h2, h3⟩
      exact ⟨(g, t.classDef1.get g - lo), (hmem _).mpr ⟨h1, h2, h3, rfl⟩, rfl⟩
  have hb : ∀ g ∈ cm.map (·.1), g < 65536 :=
    fun g hg => Coverage.glyphs_bound hwf g ((hkeys g).mp hg).1
  simp only [PairPos2.lookup, PairPos2.lookupIn]
  cases hg : t.cov.get g1 with
  | none =>
    have hnot : g1 ∉ t.cov.glyphs := fun hm => by
      obtain ⟨i, hi⟩ := (Coverage.get_isSome_iff hwf g1).mpr hm
      rw [hg] at hi; cases hi
    cases hc : (buildCoverage (cm.map (·.1))).get g1 with
    | none => rfl
    | some k =>
      exact absurd ((hkeys g1).mp ((buildCoverage_covers _ hb g1).mp ⟨k, hc⟩)).1 hnot
  | some i =>
    have hin : g1 ∈ t.cov.glyphs := (Coverage.get_isSome_iff hwf g1).mp ⟨i, hg⟩
    simp only
    by_cases hr : lo ≤ t.classDef1.get g1 ∧ t.classDef1.get g1 < hi
    · simp only [hr, and_self, ↓reduceIte]
      obtain ⟨k, hk⟩ := (buildCoverage_covers _ hb g1).mpr ((hkeys g1).mpr ⟨hin, hr.1, hr.2⟩)
      rw [hk]
      simp only
      have hcls : (buildClassDef cm).get g1 = t.classDef1.get g1 - lo := by
        rw [buildClassDef_get]
        apply assignedClass_const
        · intro p hp hpg
          have := ((hmem p).mp hp).2.2.2
          rw [this, hpg]
        · exact ⟨(g1, t.classDef1.get g1 - lo), (hmem _).mpr ⟨hin, hr.1, hr.2, rfl⟩, rfl⟩
      rw [hcls]
      have : ((t.rows.drop lo).take (hi - lo))[t.classDef1.get g1 - lo]? =
          t.rows[t.classDef1.get g1]? := by
        rw [List.getElem?_take]
        have h1 : t.classDef1.get g1 - lo < hi - lo := by omega
        simp only [h1, ↓reduceIte, List.getElem?_drop]
        congr 1; omega
      rw [this]
      cases t.rows[t.classDef1.get g1]? <;> rfl
    · simp only [hr, ↓reduceIte]
      cases hc : (buildCoverage (cm.map (·.1))).get g1 with
      | none => rfl
      | some k =>
        have := (hkeys g1).mp ((buildCoverage_covers _ hb g1).mp ⟨k, hc⟩)
        exact absurd ⟨this.2.1, this.2.2⟩ hr

theorem PairPos2.lookupIn_split {V : Type} (t : PairPos2 V) (g1 g2 : Nat) {lo mid hi : Nat}
    (h1 : lo ≤ mid) (h2 : mid ≤ hi) :
    t.lookupIn lo hi g1 g2 =
      match t.lookupIn lo mid g1 g2 with
      | some v => some v
      | none => t.lookupIn mid hi g1 g2 := by
  simp only [PairPos2.lookupIn]
  cases hg : t.cov.get g1 with
  | none => rfl
  | some i =>
    simp only
    generalize t.classDef1.get g1 = c
    by_cases a : lo ≤ c ∧ c < mid
    · have b : lo ≤ c ∧ c < hi := by omega
      have c' : ¬ mid ≤ c := by omega
      simp only [a, b, and_self, ↓reduceIte]
      cases t.rows[c]? with
      | none => simp [c']
      | some row => cases hrow : row[t.classDef2.get g2]? <;> simp [c', hrow]
    · simp only [a, ↓reduceIte]
      by_cases c' : mid ≤ c ∧ c < hi
      · have b : lo ≤ c ∧ c < hi := by omega
        simp [b, c']
      · have b : ¬ (lo ≤ c ∧ c < hi) := by omega
        simp [b, c']

theorem PairPos2.lookupIn_empty {V : Type} (t : PairPos2 V) (g1 g2 lo : Nat) :
    t.lookupIn lo lo g1 g2 = none := by
  simp only [PairPos2.lookupIn]
  cases t.cov.get g1 with
  | none => rfl
  | some i =>
    have : ¬ (lo ≤ t.classDef1.get g1 ∧ t.classDef1.get g1 < lo) := by omega
    simp [this]

theorem PairPos2.lookupIn_full {V : Type} (t : PairPos2 V) (g1 g2 : Nat) :
    t.lookupIn 0 t.rows.length g1 g2 = t.lookup g1 g2 := by
  simp only [PairPos2.lookupIn, PairPos2.lookup]
  cases t.cov.get g1 with
  | none => rfl
  | some i =>
    simp only
    by_cases h : t.classDef1.get g1 < t.rows.length
    · simp [h]
    · have : t.rows[t.classDef1.get g1]? = none := List.getElem?_eq_none (by omega)
      simp [h, this]

/-! ## MarkBasePos -/

theorem sortDedup_of_sorted {xs : List Nat} (h : xs.Pairwise (· < ·)) : sortDedup xs = xs := by
  induction xs with
  | nil => rfl
  | cons x xs ih =>
    rw [List.pairwise_cons] at h
    show insertUniq x (sortDedup xs) = x :: xs
    rw [ih h.2]
    cases xs with
    | nil => rfl
    | cons y ys =>
      have : x < y := h.1 y (List.mem_cons_self ..)
      simp [insertUniq, this]

theorem filterIdx_sublist {α : Type} (sel : Nat → Bool) : ∀ (xs : List α) (o : Nat),
    (filterIdx sel o xs).Sublist xs := by
  intro xs
  induction xs with
  | nil => intro o; exact List.Sublist.slnil
  | cons x xs ih =>
    intro o
    unfold filterIdx
    by_cases h : sel o = true
    · simp only [h, ↓reduceIte]; exact (ih (o + 1)).cons₂ x
    · simp only [h, Bool.false_eq_true, ↓reduceIte]; exact (ih (o + 1)).cons x

/-- filtering the coverage glyphs and the mark records by the same index set keeps them aligned -/
theorem filterIdx_index {M : Type} (sel : Nat → Bool) : ∀ (gs : List Nat) (ms : List M) (o : Nat),
    gs.length = ms.length → gs.Pairwise (· ≠ ·) → ∀ g i, gs[i]? = some g →
    (sel (o + i) = true → ∃ k, indexIn g (filterIdx sel o gs) = some k ∧
        (filterIdx sel o ms)[k]? = ms[i]?) ∧
    (sel (o + i) = false → indexIn g (filterIdx sel o gs) = none) := by
  intro gs
  induction gs with
  | nil => intro ms o _ _ g i h; simp at h
  | cons x xs ih =>
    intro ms o hlen hpw g i hgi
    cases ms with
    | nil => simp at hlen
    | cons m ms' =>
      rw [List.pairwise_cons] at hpw
      have hlen' : xs.length = ms'.length := by simpa using hlen
      cases i with
      | zero =>
        simp only [List.getElem?_cons_zero, Option.some.injEq] at hgi
        subst hgi
        simp only [Nat.add_zero]
        constructor
        · intro hs
          refine ⟨0, ?_, ?_⟩
          · simp [filterIdx, hs, indexIn]
          · simp [filterIdx, hs]
        · intro hs
          simp only [filterIdx, hs, Bool.false_eq_true, ↓reduceIte]
          apply indexIn_none
          intro hm
          exact hpw.1 x ((filterIdx_sublist sel xs (o + 1)).mem hm) rfl
      | succ j =>
        simp only [List.getElem?_cons_succ] at hgi
        have hxg : ¬ x = g := hpw.1 g (List.mem_of_getElem? hgi)
        have e : o + (j + 1) = o + 1 + j := by omega
        have ⟨ih1, ih2⟩ := ih ms' (o + 1) hlen' hpw.2 g j hgi
        rw [e]
        constructor
        · intro hs
          obtain ⟨k, hk1, hk2⟩ := ih1 hs
          by_cases ho : sel o = true
          · refine ⟨k + 1, ?_, ?_⟩
            · simp [filterIdx, ho, indexIn, hxg, hk1]
            · simp [filterIdx, ho, hk2]
          · refine ⟨k, ?_, ?_⟩
            · simp [filterIdx, ho, hk1]
            · simp [filterIdx, ho, hk2]
        · intro hs
          have := ih2 hs
          by_cases ho : sel o = true
          · simp [filterIdx, ho, indexIn, hxg, this]
          · simp [filterIdx, ho, this]

/-- lookup restricted to marks whose class lies in `[lo, hi)` (and below `mark_class_count`) -/
def MarkBase.lookupIn {A : Type} (t : MarkBase A) (lo hi m b : Nat) : Option (A × A) :=
  match t.markCov.get m, t.baseCov.get b with
  | some mi, some bi =>
    match t.marks[mi]?, t.bases[bi]? with
    | some (cls, am), some row =>
      if lo ≤ cls ∧ cls < hi ∧ cls < t.classCount then
        match row[cls]? with
        | some (some ab) => some (am, ab)
        | _ => none
      else none
    | _, _ => none
  | _, _ => none

theorem splitOffMarkBase_lookup {A : Type} (t : MarkBase A) (hwf : t.markCov.WF)
    (hlen : t.marks.length = t.markCov.glyphs.length) (m b : Nat) {lo hi : Nat} (hlh : lo ≤ hi) :
    ∃ a, splitOffMarkBase t lo hi = some a ∧ a.lookup m b = t.lookupIn lo hi m b := by
  have hnl : ¬ hi < lo := by omega
  simp only [splitOffMarkBase, hnl, ↓reduceIte]
  refine ⟨_, rfl, ?_⟩
  generalize hsel : markSel t lo hi = sel
  have hsorted : t.markCov.glyphs.Pairwise (· < ·) := by
    cases hc : t.markCov with
    | fmt1 xs => rw [hc] at hwf; exact hwf.1
    | fmt2 rs =>
      rw [hc] at hwf
      -- the expansion of well-formed ranges is the sorted list `iterForGlyphs` came from;
      -- derive sortedness from `indexIn` being injective is more work than needed: use the ranges
      have : ∀ (rs : List RangeRec) (c : Nat), WFRanges c rs →
          (expandRanges rs).Pairwise (· < ·) ∧ ∀ g ∈ expandRanges rs, ∀ r ∈ rs, r.start ≤ g → True := by
        intro rs c _; exact ⟨by
          rename_i h
          induction rs generalizing c with
          | nil => exact List.Pairwise.nil
          | cons r0 rest ih =>
            simp only [expandRanges, RangeRec.glyphs]
            rw [List.pairwise_append]
            refine ⟨List.pairwise_lt_range', ih _ h.2.2.2, ?_⟩
            intro a ha b' hb'
            obtain ⟨r, hr, hh⟩ := mem_expandRanges hb'
            have := h.2.2.1 r hr
            rw [List.mem_range'_1] at ha
            have := h.1
            omega, fun _ _ _ _ _ => trivial⟩
      exact (this rs 0 hwf.1).1
  have hF := hsorted.sublist (filterIdx_sublist sel t.markCov.glyphs 0)
  have hFb : ∀ g ∈ filterIdx sel 0 t.markCov.glyphs, g < 65536 :=
    fun g hg => Coverage.glyphs_bound hwf g ((filterIdx_sublist sel _ 0).mem hg)
  have hcovget : ∀ g, (buildCoverage (filterIdx sel 0 t.markCov.glyphs)).get g =
      indexIn g (filterIdx sel 0 t.markCov.glyphs) := by
    intro g; rw [buildCoverage_get _ hFb, sortDedup_of_sorted hF]
  simp only [MarkBase.lookup, MarkBase.lookupIn, hcovget]
  cases hmg : t.markCov.get m with
  | none =>
    have hnot : m ∉ t.markCov.glyphs := fun hm => by
      obtain ⟨i, hi⟩ := (Coverage.get_isSome_iff hwf m).mpr hm
      rw [hmg] at hi; cases hi
    rw [indexIn_none (fun hm => hnot ((filterIdx_sublist sel _ 0).mem hm))]
  | some mi =>
    rw [Coverage.get_eq_indexIn hwf] at hmg
    have hgi := indexIn_some_mem hmg
    have hmi : mi < t.marks.length := by
      rw [hlen]; exact (List.getElem?_eq_some_iff.mp hgi).1
    have ⟨f1, f2⟩ := filterIdx_index sel t.markCov.glyphs t.marks 0 hlen.symm
      (pairwise_lt_ne hsorted) m mi hgi
    simp only [Nat.zero_add] at f1 f2
    rcases hrec : t.marks[mi] with ⟨cls, am⟩
    have hmrec : t.marks[mi]? = some (cls, am) := by rw [List.getElem?_eq_getElem hmi, hrec]
    have hselmi : sel mi = decide (lo ≤ cls ∧ cls < hi ∧ cls < t.classCount) := by
      rw [← hsel]; simp only [markSel, hmrec]
    cases hbg : t.baseCov.get b with
    | none =>
      simp only
      cases indexIn m (filterIdx sel 0 t.markCov.glyphs) <;> rfl
    | some bi =>
      simp only [hmrec]
      by_cases hc : lo ≤ cls ∧ cls < hi ∧ cls < t.classCount
      · have hs : sel mi = true := by rw [hselmi]; simp [hc]
        obtain ⟨k, hk1, hk2⟩ := f1 hs
        rw [hk1]
        simp only [List.getElem?_map, hk2, hmrec, Option.map_some, hc, and_self, ↓reduceIte]
        cases hrow : t.bases[bi]? with
        | none => rfl
        | some row =>
          simp only [Option.map_some]
          have : ((row.drop lo).take (hi - lo))[cls - lo]? = row[cls]? := by
            rw [List.getElem?_take]
            have h1 : cls - lo < hi - lo := by omega
            simp only [h1, ↓reduceIte, List.getElem?_drop]
            congr 1; omega
          rw [this]
          simp only [hc, and_self, ↓reduceIte]
          cases hr : row[cls]? with
          | none => rfl
          | some o => cases o <;> rfl
      · have hs : sel mi = false := by rw [hselmi]; simp [hc]
        rw [f2 hs]
        cases t.bases[bi]? <;> simp [hc]

theorem MarkBase.lookupIn_split {A : Type} (t : MarkBase A) (m b : Nat) {lo mid hi : Nat}
    (h1 : lo ≤ mid) (h2 : mid ≤ hi) :
    t.lookupIn lo hi m b =
      match t.lookupIn lo mid m b with
      | some v => some v
      | none => t.lookupIn mid hi m b := by
  simp only [MarkBase.lookupIn]
  cases t.markCov.get m with
  | none => rfl
  | some mi =>
    cases t.baseCov.get b with
    | none => rfl
    | some bi =>
      simp only
      cases t.marks[mi]? with
      | none => rfl
      | some rec =>
        obtain ⟨cls, am⟩ := rec
        cases t.bases[bi]? with
        | none => rfl
        | some row =>
          simp only
          by_cases a : lo ≤ cls ∧ cls < mid ∧ cls < t.classCount
          · have b' : lo ≤ cls ∧ cls < hi ∧ cls < t.classCount := by omega
            have c' : ¬ mid ≤ cls := by omega
            simp only [a, b', and_self, ↓reduceIte]
            cases hr : row[cls]? with
            | none => simp [c']
            | some o => cases o <;> simp [c']
          · simp only [a, ↓reduceIte]
            by_cases c' : mid ≤ cls ∧ cls < hi ∧ cls < t.classCount
            · have b' : lo ≤ cls ∧ cls < hi ∧ cls < t.classCount := by omega
              simp [b', c']
            · have b' : ¬ (lo ≤ cls ∧ cls < hi ∧ cls < t.classCount) := by omega
              simp [b', c']

theorem MarkBase.lookupIn_empty {A : Type} (t : MarkBase A) (m b lo : Nat) :
    t.lookupIn lo lo m b = none := by
  simp only [MarkBase.lookupIn]
  cases t.markCov.get m with
  | none => rfl
  | some mi =>
    cases t.baseCov.get b with
    | none => rfl
    | some bi =>
      simp only
      cases t.marks[mi]? with
      | none => rfl
      | some rec =>
        obtain ⟨cls, am⟩ := rec
        cases t.bases[bi]? with
        | none => rfl
        | some row =>
          have : ¬ (lo ≤ cls ∧ cls < lo ∧ cls < t.classCount) := by omega
          simp [this]

theorem MarkBase.lookupIn_full {A : Type} (t : MarkBase A)
    (hrows : ∀ row ∈ t.bases, row.length ≤ t.classCount) (m b : Nat) :
    t.lookupIn 0 t.classCount m b = t.lookup m b := by
  simp only [MarkBase.lookupIn, MarkBase.lookup]
  cases t.markCov.get m with
  | none => rfl
  | some mi =>
    cases t.baseCov.get b with
    | none => rfl
    | some bi =>
      simp only
      cases t.marks[mi]? with
      | none => rfl
      | some rec =>
        obtain ⟨cls, am⟩ := rec
        cases hrow : t.bases[bi]? with
        | none => rfl
        | some row =>
          simp only
          by_cases h : cls < t.classCount
          · simp only [Nat.zero_le, h, and_self, ↓reduceIte]
            cases hr : row[cls]? with
            | none => rfl
            | some o => cases o <;> rfl
          · have hl := hrows row (List.mem_of_getElem? hrow)
            have : row[cls]? = none := List.getElem?_eq_none (by omega)
            simp [h, this]

/-! ## the PairPos format 2 split-point heuristic -/

theorem ppf2Step_points (e : Ppf2Est) (recSize cd2Size : Nat) (st : Ppf2Acc) (idx : Nat) :
    (ppf2Step e recSize cd2Size st idx).points = st.points ∨
    (ppf2Step e recSize cd2Size st idx).points = idx :: st.points := by
  unfold ppf2Step
  simp only [apply_ite Ppf2Acc.points]
  split <;> simp

theorem ppf2_fold_inv (e : Ppf2Est) (recSize cd2Size : Nat) : ∀ (n : Nat),
    let st := (List.range n).foldl (ppf2Step e recSize cd2Size) ⟨16, 4, 4, []⟩
    st.points.Pairwise (· > ·) ∧ ∀ p ∈ st.points, p < n := by
  intro n
  induction n with
  | zero => exact ⟨List.Pairwise.nil, fun p hp => by cases hp⟩
  | succ k ih =>
    simp only [List.range_succ, List.foldl_append, List.foldl_cons, List.foldl_nil]
    simp only at ih
    generalize (List.range k).foldl (ppf2Step e recSize cd2Size) ⟨16, 4, 4, []⟩ = st at ih
    rcases ppf2Step_points e recSize cd2Size st k with h | h <;> rw [h]
    · exact ⟨ih.1, fun p hp => by have := ih.2 p hp; omega⟩
    · refine ⟨List.pairwise_cons.mpr ⟨fun a ha => ih.2 a ha, ih.1⟩, ?_⟩
      intro p hp
      rcases List.mem_cons.mp hp with rfl | hp
      · omega
      · have := ih.2 p hp; omega

/-! ## `ClassDefBuilder` -/

theorem insertClass_perm (c : List Nat) (xs : List (List Nat)) : (insertClass c xs).Perm (c :: xs) := by
  induction xs with
  | nil => exact List.Perm.refl _
  | cons x xs ih =>
    unfold insertClass
    by_cases h : classKeyLe c x = true
    · simp [h]
    · simp only [h, Bool.false_eq_true, ↓reduceIte]
      exact (List.Perm.cons x ih).trans (List.Perm.swap c x xs)

theorem sortClasses_perm (cs : List (List Nat)) : (sortClasses cs).Perm cs := by
  induction cs with
  | nil => exact List.Perm.refl _
  | cons c cs ih =>
    show (insertClass c (sortClasses cs)).Perm (c :: cs)
    exact (insertClass_perm c _).trans (List.Perm.cons c ih)

/-- two classes share no glyph -/
def ClassesDisjoint (a c : List Nat) : Prop := ∀ g, g ∈ a → g ∉ c

theorem assignedClass_none {ps : List (Nat × Nat)} {g : Nat} (h : ∀ p ∈ ps, p.1 ≠ g) :
    assignedClass ps g = 0 := by
  unfold assignedClass
  have : (ps.filter (fun p => p.2 != 0)).reverse.find? (fun p => p.1 == g) = none := by
    rw [List.find?_eq_none]
    intro p hp
    have hp' : p ∈ ps := (List.mem_filter.mp (List.mem_reverse.mp hp)).1
    simp [h p hp']
  rw [this]

theorem mem_mapping {sorted : List (List Nat)} {addOne : Nat} {p : List Nat × Nat} :
    p ∈ (List.range sorted.length).zipWith (fun i cls => (cls, i + addOne)) sorted ↔
      ∃ i, ∃ h : i < sorted.length, p = (sorted[i], i + addOne) := by
  constructor
  · intro hp
    obtain ⟨i, hi, he⟩ := List.getElem_of_mem hp
    have hi' : i < sorted.length := by simpa using hi
    refine ⟨i, hi', ?_⟩
    rw [← he, List.getElem_zipWith]
    simp
  · rintro ⟨i, hi, rfl⟩
    have hl : i < ((List.range sorted.length).zipWith (fun i cls => (cls, i + addOne)) sorted).length := by
      simpa using hi
    have := List.getElem_mem hl
    rw [List.getElem_zipWith] at this
    simpa using this

/-- `ClassDefBuilder::build_with_mapping`: every glyph of a class reads back as that class' id,
every other glyph as 0, and the ids are `add_one, add_one + 1, …` in sorted-class order. -/
theorem buildWithMapping_get (b : ClassDefBuilder)
    (hdis : b.classes.Pairwise ClassesDisjoint) :
    (∀ p ∈ b.buildWithMapping.2, ∀ g ∈ p.1, b.buildWithMapping.1.get g = p.2) ∧
    (∀ g, (∀ c ∈ b.classes, g ∉ c) → b.buildWithMapping.1.get g = 0) ∧
    (b.buildWithMapping.2.map (·.1)).Perm b.classes ∧
    b.buildWithMapping.2.map (·.2) =
      List.range' (if b.useClass0 then 0 else 1) b.classes.length := by
  have hperm := sortClasses_perm b.classes
  have hsym : ∀ {x y : List Nat}, ClassesDisjoint x y → ClassesDisjoint y x :=
    fun h g hg hx => h g hx hg
  have hsd : (sortClasses b.classes).Pairwise ClassesDisjoint :=
    (List.Perm.pairwise_iff hsym hperm).mpr hdis
  simp only [ClassDefBuilder.buildWithMapping]
  generalize hso : sortClasses b.classes = sorted at hperm hsd
  generalize hao : (if b.useClass0 then 0 else 1) = addOne
  have huniq : ∀ i j (hi : i < sorted.length) (hj : j < sorted.length) g,
      g ∈ sorted[i] → g ∈ sorted[j] → i = j := by
    intro i j hi hj g h1 h2
    have hp := List.pairwise_iff_getElem.mp hsd
    rcases Nat.lt_trichotomy i j with h | h | h
    · exact absurd h2 (hp i j hi hj h g h1)
    · exact h
    · exact absurd h1 (hp j i hj hi h g h2)
  refine ⟨?_, ?_, ?_, ?_⟩
  · intro p hp g hg
    obtain ⟨i, hi, rfl⟩ := mem_mapping.mp hp
    rw [buildClassDef_get]
    apply assignedClass_const
    · intro q hq hqg
      obtain ⟨p', hp', hq'⟩ := List.mem_flatMap.mp hq
      obtain ⟨j, hj, rfl⟩ := mem_mapping.mp hp'
      obtain ⟨g', hg', rfl⟩ := List.mem_map.mp hq'
      simp only at hqg hg' ⊢
      subst hqg
      have := huniq i j hi hj g' hg hg'
      omega
    · refine ⟨(g, i + addOne), List.mem_flatMap.mpr ⟨_, hp, ?_⟩, rfl⟩
      exact List.mem_map.mpr ⟨g, hg, rfl⟩
  · intro g hno
    rw [buildClassDef_get]
    apply assignedClass_none
    intro q hq hqg
    obtain ⟨p', hp', hq'⟩ := List.mem_flatMap.mp hq
    obtain ⟨j, hj, rfl⟩ := mem_mapping.mp hp'
    obtain ⟨g', hg', rfl⟩ := List.mem_map.mp hq'
    simp only at hqg hg'
    subst hqg
    exact hno _ (hperm.mem_iff.mp (List.getElem_mem hj)) hg'
  · have : ((List.range sorted.length).zipWith (fun i cls => (cls, i + addOne)) sorted).map (·.1) = sorted := by
      apply List.ext_getElem
      · simp
      · intro i h1 h2
        simp [List.getElem_zipWith]
    rw [this]; exact hperm
  · have hlen : b.classes.length = sorted.length := hperm.length_eq.symm
    rw [hlen]
    apply List.ext_getElem
    · simp
    · intro i h1 h2
      simp [List.getElem_zipWith, List.getElem_range']
      omega

/-- `ClassDefBuilder::checked_add` keeps the classes pairwise disjoint -/
theorem checkedAdd_disjoint (b : ClassDefBuilder) (cls : List Nat)
    (hdis : b.classes.Pairwise ClassesDisjoint) :
    (b.checkedAdd cls).1.classes.Pairwise ClassesDisjoint := by
  unfold ClassDefBuilder.checkedAdd
  by_cases hc : b.canAdd cls = true
  · simp only [hc, ↓reduceIte]
    by_cases hin : b.classes.contains cls = true
    · simp only [hin, ↓reduceIte]; exact hdis
    · simp only [hin, Bool.false_eq_true, ↓reduceIte]
      rw [List.pairwise_append]
      refine ⟨hdis, List.pairwise_singleton _ _, ?_⟩
      intro a ha c hcm
      simp at hcm; subst hcm
      intro g hga hgc
      unfold ClassDefBuilder.canAdd at hc
      simp only [hin, Bool.false_or, List.all_eq_true] at hc
      have := hc g hgc
      simp only [ClassDefBuilder.allGlyphsContains, Bool.not_eq_eq_eq_not, Bool.not_true,
        List.any_eq_false] at this
      have := this a ha
      simp [hga] at this
  · simp only [hc, Bool.false_eq_true, ↓reduceIte]; exact hdis


end FontVerif.Layout
