/-
Helper lemmas for Props/C10F64.lean: integers as f64 values and their comparisons on the exact
IEEE model.
-/
import FontVerif.Model.IupF64
import FontVerif.Lemmas.Ieee
set_option linter.unusedVariables false
namespace FontVerif.C10
open FontVerif FontVerif.Ieee FontVerif.IupF64

/-- an integer below `2^53` as an f64 -/
def ofI (i : Int) : FVal := ofInt f64 i

theorem ofI_eq (i : Int) (h : i.natAbs < 2 ^ 53) : ofI i = .fin (decide (i < 0)) i.natAbs 0 :=
  ofInt_exact f64 i (by decide) (by decide) h

/-! ### f64 comparisons of integers -/

theorem le_ofI (a b : Int) (ha : a.natAbs < 2 ^ 53) (hb : b.natAbs < 2 ^ 53) :
    le (ofI a) (ofI b) = decide (a ≤ b) := by
  rw [ofI_eq a ha, ofI_eq b hb]
  unfold le exactSum
  simp only [Int.le_refl, if_true, Int.sub_self, Int.toNat_zero, Int.pow_zero, Int.mul_one]
  congr 1
  by_cases h1 : a < 0 <;> by_cases h2 : b < 0 <;> simp [h1, h2] <;> omega

theorem feq_ofI (a b : Int) (ha : a.natAbs < 2 ^ 53) (hb : b.natAbs < 2 ^ 53) :
    feq (ofI a) (ofI b) = decide (a = b) := by
  unfold feq
  rw [le_ofI a b ha hb, le_ofI b a hb ha]
  by_cases h : a = b
  · subst h; simp
  · have : ¬ (a ≤ b ∧ b ≤ a) := by omega
    simp only [h, decide_false]
    by_cases h1 : a ≤ b
    · have : ¬ b ≤ a := by omega
      simp [h1, this]
    · simp [h1]

theorem gt_ofI (a b : Int) (ha : a.natAbs < 2 ^ 53) (hb : b.natAbs < 2 ^ 53) :
    gt (ofI a) (ofI b) = decide (a > b) := by
  unfold gt lt
  rw [ofI_eq a ha, ofI_eq b hb]
  simp only []
  rw [← ofI_eq a ha, ← ofI_eq b hb, le_ofI a b ha hb]
  by_cases h : a ≤ b
  · have : ¬ a > b := by omega
    simp [h, this]
  · have : a > b := by omega
    simp [h, this]

end FontVerif.C10
